/- C12, part 3: every generated accessor, and the static variants, equal the specification for every class
   description, instance and flag vector. -/
import PyOak.Props.C12Fields
namespace PyOak
namespace Acc
namespace C12

/-! ## E. the generated accessors = the specification -/

theorem enumerate_indexed (k : Nat) (ns : List Nd) :
    enumerate k ns = (indexed k ns).map fun (n, j) => (j, n) := by
  induction ns generalizing k with
  | nil => rfl
  | cons n r ih => simp [enumerate, indexed, ih]

theorem flatMap_congr' {α β : Type} {f g : α → List β} {l : List α} (h : ∀ a ∈ l, f a = g a) :
    l.flatMap f = l.flatMap g := by
  induction l with
  | nil => rfl
  | cons a r ih =>
    simp only [List.flatMap_cons, h a (by simp)]
    rw [ih (fun x hx => h x (by simp [hx]))]

theorem runWF_buildChild (i : Inst) (d : FDecl) (h : d.isChild = true) :
    CStmt.runWF i (buildChild d) = fieldNodes i d := by
  simp only [FDecl.isChild, ne_eq, decide_not, Bool.not_eq_eq_eq_not, Bool.not_true,
    decide_eq_false_iff_not] at h
  unfold buildChild fieldNodes
  cases hk : d.kind with
  | prop => exact absurd hk h
  | childOne =>
    simp only [reduceCtorEq, if_false, CStmt.runWF]
    cases i.get d.name <;> rfl
  | childTuple =>
    simp only [if_true, CStmt.runWF]
    cases i.get d.name <;> simp [FVal.iter, indexed, enumerate_indexed, List.map_map, Function.comp_def]

theorem runN_eq_runWF (i : Inst) (s : CStmt) : CStmt.runN i s = (CStmt.runWF i s).map (·.1) := by
  cases s with
  | forEach d =>
    simp only [CStmt.runN, CStmt.runWF, List.map_map]
    generalize (i.get d.name).iter = ns
    generalize 0 = k
    induction ns generalizing k with
    | nil => rfl
    | cons n r ih => simp [enumerate, ← ih]
  | ifNotNone d =>
    simp only [CStmt.runN, CStmt.runWF]
    cases i.get d.name <;> rfl

theorem genChildNodes_branch (cf : List FDecl) (s : Bool) :
    (genChildNodes cf).branch s = (ordered s cf).map buildChild := by
  unfold genChildNodes
  split
  · rename_i h
    have : cf = [] := List.length_eq_zero_iff.mp h
    subst this
    cases s <;> rfl
  · cases s <;> rfl

theorem mem_ordered {s : Bool} {ds : List FDecl} {d : FDecl} : d ∈ ordered s ds ↔ d ∈ ds := by
  cases s
  · simp [ordered]
  · simp only [ordered, if_true]
    exact List.Perm.mem_iff (sortByName_perm FDecl.name ds)

/-- **`get_child_nodes_with_field`** yields, for the child fields in declaration order (name order
under `sort_keys`), the single child when present with index `None`, the tuple elements with their
index from 0 -/
theorem get_child_nodes_with_field_eq_spec (c : ClassDecl) (i : Inst) (s : Bool) :
    getChildNodesWithField c i s = specChildNodesWithField c i s := by
  unfold getChildNodesWithField specChildNodesWithField specChildFields
  rw [genChildNodes_branch, childFields_eq, List.flatMap_map]
  apply flatMap_congr'
  intro d hd
  exact runWF_buildChild i d (by have := mem_ordered.mp hd; simp at this; exact this.2)

/-- **`get_child_nodes`** yields exactly the nodes of `get_child_nodes_with_field`, in the same order -/
theorem get_child_nodes_eq_spec (c : ClassDecl) (i : Inst) (s : Bool) :
    getChildNodes c i s = specChildNodes c i s := by
  unfold specChildNodes
  rw [← get_child_nodes_with_field_eq_spec]
  unfold getChildNodes getChildNodesWithField
  rw [List.map_flatMap]
  apply flatMap_congr'
  intro st _
  exact runN_eq_runWF i st

/-- **`children`** is the list of `get_child_nodes()` in declaration order -/
theorem children_eq_spec (c : ClassDecl) (i : Inst) : children c i = specChildNodes c i false :=
  get_child_nodes_eq_spec c i false

theorem genIterChildFields_branch (cf : List FDecl) (s : Bool) :
    (genIterChildFields cf).branch s = ordered s cf := by
  unfold genIterChildFields
  split
  · rename_i h
    have : cf = [] := List.length_eq_zero_iff.mp h
    subst this
    cases s <;> rfl
  · cases s <;> rfl

/-- **`iter_child_fields`** yields every child field once, with the stored value as it is -/
theorem iter_child_fields_eq_spec (c : ClassDecl) (i : Inst) (s : Bool) :
    iterChildFields c i s = specIterChildFields c i s := by
  unfold iterChildFields specIterChildFields specChildFields
  rw [genIterChildFields_branch, childFields_eq]

/-- **`get_child_fields`** are the child fields in declaration order -/
theorem get_child_fields_eq_spec (c : ClassDecl) : getChildFields c = specChildFields c :=
  childFields_eq c

/-- the generated guard of a property is the rule of the statement -/
theorem run_buildProp (fl : Flags) (i : Inst) (d : FDecl) :
    PStmt.run fl i (buildProp d) = if keeps fl d then [(i.get d.name, d)] else [] := by
  rcases fl with ⟨si, so, sc, snc, sni⟩
  rcases d with ⟨nm, k, cmp, ini, kw⟩
  unfold buildProp keeps PStmt.run
  simp only
  by_cases h1 : nm = nmId
  · simp only [if_pos h1]; simp [Cond.eval]
  · by_cases h2 : nm = nmContentId
    · simp only [if_neg h1, if_pos h2]; simp [Cond.eval]
    · by_cases h3 : nm = nmOrigin
      · simp only [if_neg h1, if_neg h2, if_pos h3]; simp [Cond.eval]
      · simp only [if_neg h1, if_neg h2, if_neg h3]
        cases cmp <;> cases ini <;> cases snc <;> cases sni <;>
          simp [Cond.eval]

theorem flatMap_ite_singleton {α β : Type} (p : α → Bool) (f : α → β) (l : List α) :
    l.flatMap (fun a => if p a then [f a] else []) = (l.filter p).map f := by
  induction l with
  | nil => rfl
  | cons a r ih =>
    simp only [List.flatMap_cons, List.filter_cons, ih]
    cases p a <;> simp

/-- **`get_properties`**: for every class, instance and all 2⁵ × 2 flag vectors, the (value, field)
pairs of exactly the property fields the flags keep, in declaration (name) order -/
theorem get_properties_eq_spec (c : ClassDecl) (i : Inst) (fl : Flags) (s : Bool) :
    getProperties c i fl s = specProperties c i fl s := by
  unfold getProperties specProperties specPropertyFields
  have : (genGetProperties c.props).branch s = (ordered s c.props).map buildProp := by
    cases s <;> rfl
  rw [this, props_eq, List.flatMap_map]
  simp only [run_buildProp]
  exact flatMap_ite_singleton (keeps fl) (fun d => (i.get d.name, d)) _

/-- the static skip chain is the same rule -/
theorem propertyFieldYielded_eq_keeps (fl : Flags) (d : FDecl) : propertyFieldYielded fl d = keeps fl d := by
  rcases fl with ⟨si, so, sc, snc, sni⟩
  rcases d with ⟨nm, k, cmp, ini, kw⟩
  unfold propertyFieldYielded keeps
  simp only
  by_cases h1 : nm = nmId
  · simp only [if_pos h1]; cases si <;> rfl
  · by_cases h2 : nm = nmContentId
    · simp only [if_neg h1, if_pos h2]; cases sc <;> rfl
    · by_cases h3 : nm = nmOrigin
      · simp only [if_neg h1, if_neg h2, if_pos h3]; cases so <;> rfl
      · simp only [if_neg h1, if_neg h2, if_neg h3]
        cases cmp <;> cases ini <;> cases snc <;> cases sni <;> rfl

/-- **`get_property_fields`** (static) = the kept property fields in declaration order -/
theorem get_property_fields_eq_spec (c : ClassDecl) (fl : Flags) :
    getPropertyFields c fl = specPropertyFields c fl false := by
  unfold getPropertyFields specPropertyFields ordered
  rw [props_eq]
  simp only [Bool.false_eq_true, if_false]
  congr 1
  funext d
  exact propertyFieldYielded_eq_keeps fl d

/-- **static and instance variants agree**: the fields `get_properties` yields are those
`get_property_fields` returns under the same flags, in the same order -/
theorem static_agrees_with_instance (c : ClassDecl) (i : Inst) (fl : Flags) :
    (getProperties c i fl false).map (·.2) = getPropertyFields c fl := by
  rw [get_properties_eq_spec, get_property_fields_eq_spec]
  simp [specProperties, List.map_map, Function.comp_def]

end C12
end Acc
end PyOak
