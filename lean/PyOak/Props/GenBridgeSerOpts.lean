/-
Bridge for the option-slot wrappers (C16): the explicit try/finally model (Model/SerOptsF.lean) is the pair of definitions
GENERATED from `DataClassSerializeMixin.as_dict` / `as_obj` (src/pyoak/serialize.py) by harness/py2lean_s.py
(Gen/KernelsSerOpts.lean), instantiated with

  D := Opts, Dia := MD      py.update := Opts.update      py.empty := {}      st := the model's `G` (`toSt` / `ofSt`)
  body := ANY `M α` of the model (reads the slots, may write them, may raise), carried over by `bodyOf`

ON EVERY STATE, OPTIONS ARGUMENT, DIALECT AND BODY (no hypothesis):
  as_dict_eq_gen_body / as_obj_eq_gen_body   `tryFin body resetM (enter g c)` = the generated wrapper around `body`
  as_dict_eq_gen / as_obj_eq_gen             `callF hook dhook g c` (input `.ser o` / `.deser d`, every hook) = the generated
                                             wrapper around the model's threaded body `bodyM hook dhook`
  reset_after_gen_dict / reset_after_gen_obj  about the GENERATED functions alone, for every `py`, body, state, arguments:
                                             after the call, raised or not, the slots are `{}` / `None`
  outcome_gen_dict / outcome_gen_obj          … and the outcome is the body's on the entered state
  reset_after_gen                            the same read through the model: `(callF …).1 = {}` derived FROM the generated code
-/
import PyOak.Gen.KernelsSerOpts
import PyOak.Props.C16Finally
namespace PyOak.GenBridgeSerOpts
open PyOak SerOpts

/-! ### the instantiation -/

def pyS : GenS.Py Opts := { update := Opts.update, empty := {} }
def toSt (g : G) : GenS.St Opts MD := ⟨g.opts, g.md⟩
def ofSt (s : GenS.St Opts MD) : G := ⟨s.serialization_options, s.mashumaro_dialect⟩
theorem ofSt_toSt (g : G) : ofSt (toSt g) = g := rfl
theorem toSt_ofSt (s : GenS.St Opts MD) : toSt (ofSt s) = s := rfl

/-- a computation of the model as the opaque callee of the generated code -/
def bodyOf {α : Type} (b : M α) : GenS.St Opts MD → Except Unit α × GenS.St Opts MD :=
  fun s => ((b (ofSt s)).2, toSt (b (ofSt s)).1)
/-- a result of the generated code in the model's shape -/
def fromGen {α : Type} (r : Except Unit α × GenS.St Opts MD) : G × Except Unit α := (ofSt r.2, r.1)

/-! ### about the generated functions alone -/

/-- after the generated `as_dict`, raised or not, whatever the body did to the slots: `{}` / `None` -/
theorem reset_after_gen_dict {D Dia E R : Type} (py : GenS.Py D) (body : GenS.St D Dia → Except E R × GenS.St D Dia)
    (st : GenS.St D Dia) (md : Option Dia) (opts : Option D) :
    (GenS.as_dict py body st md opts).2 = ⟨py.empty, none⟩ := by
  simp only [GenS.as_dict]
  split <;> rfl

theorem reset_after_gen_obj {D Dia V E R : Type} (py : GenS.Py D) (body : V → GenS.St D Dia → Except E R × GenS.St D Dia)
    (st : GenS.St D Dia) (v : V) (md : Option Dia) (opts : Option D) :
    (GenS.as_obj py body st v md opts).2 = ⟨py.empty, none⟩ := by
  simp only [GenS.as_obj]
  split <;> rfl

/-- the state the body is entered in -/
def entered {D Dia : Type} (py : GenS.Py D) (st : GenS.St D Dia) (md : Option Dia) (opts : Option D) : GenS.St D Dia :=
  ⟨match opts with | none => st.serialization_options | some o => py.update st.serialization_options o, md⟩

theorem outcome_gen_dict {D Dia E R : Type} (py : GenS.Py D) (body : GenS.St D Dia → Except E R × GenS.St D Dia)
    (st : GenS.St D Dia) (md : Option Dia) (opts : Option D) :
    (GenS.as_dict py body st md opts).1 = (body (entered py st md opts)).1 := by
  simp only [GenS.as_dict, entered]
  cases opts <;> (simp only []; split <;> simp_all)

theorem outcome_gen_obj {D Dia V E R : Type} (py : GenS.Py D) (body : V → GenS.St D Dia → Except E R × GenS.St D Dia)
    (st : GenS.St D Dia) (v : V) (md : Option Dia) (opts : Option D) :
    (GenS.as_obj py body st v md opts).1 = (body v (entered py st md opts)).1 := by
  simp only [GenS.as_obj, entered]
  cases opts <;> (simp only []; split <;> simp_all)

/-! ### model = generated -/

theorem enter_eq_entered (g : G) (c : Call) : toSt (enter g c) = entered pyS (toSt g) (effMd c.kind c.md) c.opts := by
  simp only [enter, entered, toSt, pyS]
  cases c.opts <;> rfl

/-- `enter; try: body finally: reset` of the model = the generated `as_dict`, for EVERY body -/
theorem as_dict_eq_gen_body {α : Type} (body : M α) (g : G) (c : Call) :
    tryFin body resetM (enter g c) = fromGen (GenS.as_dict pyS (bodyOf body) (toSt g) (effMd c.kind c.md) c.opts) := by
  simp only [tryFin, resetM, M.write, fromGen, GenS.as_dict, bodyOf, enter, toSt, ofSt, pyS]
  cases c.opts <;> (simp only []; split <;> simp_all)

/-- … = the generated `as_obj`, for EVERY body (a function of the value) and every value -/
theorem as_obj_eq_gen_body {α V : Type} (body : V → M α) (v : V) (g : G) (c : Call) :
    tryFin (body v) resetM (enter g c)
      = fromGen (GenS.as_obj pyS (fun v => bodyOf (body v)) (toSt g) v (effMd c.kind c.md) c.opts) := by
  simp only [tryFin, resetM, M.write, fromGen, GenS.as_obj, bodyOf, enter, toSt, ofSt, pyS]
  cases c.opts <;> (simp only []; split <;> simp_all)

/-- one public serialization call of the model IS the generated `as_dict` around the model's threaded body -/
theorem as_dict_eq_gen (hook : Hook) (dhook : DHook) (g : G) (c : Call) (o : SObj) (h : c.input = .ser o) :
    callF hook dhook g c
      = fromGen (GenS.as_dict pyS (bodyOf (bodyM hook dhook (.ser o))) (toSt g) (effMd c.kind c.md) c.opts) := by
  rw [← as_dict_eq_gen_body]
  unfold callF
  rw [h]

/-- one public deserialization call of the model IS the generated `as_obj` -/
theorem as_obj_eq_gen (hook : Hook) (dhook : DHook) (g : G) (c : Call) (d : DJ) (h : c.input = .deser d) :
    callF hook dhook g c
      = fromGen (GenS.as_obj pyS (fun d => bodyOf (bodyM hook dhook (.deser d))) (toSt g) d (effMd c.kind c.md) c.opts) := by
  rw [← as_obj_eq_gen_body (fun d => bodyM hook dhook (.deser d))]
  unfold callF
  rw [h]

/-- `reset_afterF`, this time derived from the GENERATED code: after every call that reaches the wrapper, raised or not,
both slots are at their defaults -/
theorem reset_after_gen (hook : Hook) (dhook : DHook) (g : G) (c : Call) (h : c.input ≠ .unparsable) :
    (callF hook dhook g c).1 = {} := by
  cases hi : c.input with
  | unparsable => exact absurd hi h
  | ser o => rw [as_dict_eq_gen hook dhook g c o hi]; simp only [fromGen, reset_after_gen_dict]; rfl
  | deser d => rw [as_obj_eq_gen hook dhook g c d hi]; simp only [fromGen, reset_after_gen_obj]; rfl

/-- non-vacuity: a call with options and a dialect whose body raises at a nested position, entered in a dirty state -/
example : ∃ g c, c.input ≠ .unparsable ∧ g ≠ {} ∧ c.opts.isSome ∧ (callF noHook noDHook g c).2 = .error () ∧
    (callF noHook noDHook g c).1 = {} :=
  ⟨{ opts := { skip := some true }, md := some .custom },
   { kind := .asDict, opts := some { sort := some true }, md := some .orjson,
     input := .ser (.mk .node ['A'] 0 [.mk ['x'] .bomb] []) }, by simp, by decide, rfl, rfl, rfl⟩

end PyOak.GenBridgeSerOpts
