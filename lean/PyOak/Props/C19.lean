/-
C19 — A rejected legacy operation changes nothing.

Frame: a state `s'` reached by a rejected call from `s` agrees with `s` on every pre-existing
record and on every registry lookup:

  Frame s s'  :=  (∀ k, s'.lookup k = s.lookup k) ∧ (∀ v, v < s.size → s'.obj v = s.obj v)

(the record of a rejected *new* node is garbage beyond `s.size`; that it is not registered is the
first conjunct).

PROVED (for all states, arguments, fuel):
  fail_frame_new             rejected construction (duplicate children / id collision / parent or
                             registry collision anywhere in the subtree): even `s'.reg = s.reg`
  fail_frame_attach          rejected `attach()`: `s' = s`
  detach_never_rejected      `detach` / `detach_self` raise nothing
  fail_frame_replace_keys    `replace` with a forbidden / unknown key: `s' = s`
  fail_frame_replace         `replace` rejected by the construction of the new node (duplicate children,
                             parent collision, registry collision), receiver attached or detached, with or
                             without parent: the roll-back restores the registry entry, the parent link of
                             the receiver AND the parent links of all its children (defect F16, repaired)
  fail_frame_rwith_precheck  `replace_with` rejected by one of its pre-checks (new node has a parent; `None`
                             for a required field; class not accepted by the parent field): `s' = s`

PARTIAL — full statements, not proved:

  theorem fail_frame_rwith : Inv Hc s → step H Hc s (.rwith u new) = (s', .raised .replaceWithError) → Frame s s'
  theorem fail_frame_dup   : Inv Hc s → step H Hc s (.dup u c) = (s', .raised e) → e ≠ .hang → Frame s (gc s')

  What is missing: (1) `replace_with` rejected because the new node cannot be attached: the receiver's
  subtree has been detached (`detach`) and is re-attached by the roll-back (`_attach`); one needs
  "`_attach` after `detach` of a consistent subtree restores it" (parent slots, registry entries and
  content ids of the whole subtree).  (2) a rejected non-clone `duplicate` leaves the already duplicated
  children registered until they are garbage collected (weak registry: `gcNew` in Handle/Legacy.lean is
  glue, not part of `step`).  (3) transform visitor / transformer: not modelled in Lean; two KNOWN
  findings (no roll-back across several replaced nodes) are listed in known_findings.json.
  All of these are exercised on every run by the frame oracle on the real objects and by K1.
-/
import PyOak.Props.C18
namespace PyOak.Legacy.C19
open PyOak PyOak.Legacy LState

variable (H Hc : Str → Str)

/-- the rejected call left every pre-existing record and every registry lookup as it was -/
def Frame (s s' : LState) : Prop :=
  (∀ k, s'.lookup k = s.lookup k) ∧ ∀ v, v < s.size → s'.obj v = s.obj v

theorem Frame.refl (s : LState) : Frame s s := ⟨fun _ => rfl, fun _ _ => rfl⟩

/-- a rejected construction: nothing but the garbage record of the rejected node -/
theorem fail_frame_new {s s' : LState} {sp : NewSpec} {e : Err}
    (h : step H Hc s (.new sp) = (s', .raised e)) : s'.reg = s.reg ∧ Frame s s' := by
  unfold step at h
  split at h
  · cases h; exact ⟨rfl, Frame.refl _⟩
  · simp only at h
    cases hc : construct H Hc (fuelOf s) s sp with
    | mk s1 res =>
      rw [hc] at h
      cases res with
      | ok n => simp [ofNode] at h
      | error e' =>
        simp [ofNode] at h
        obtain ⟨rfl, _⟩ := h
        obtain ⟨hr, ho⟩ := construct_fail_frame H Hc hc
        exact ⟨hr, fun k => by unfold LState.lookup; rw [hr], fun v hv => ho v (by omega)⟩

/-- a rejected `attach()` -/
theorem fail_frame_attach {s s' : LState} {u : Nat} {e : Err}
    (h : step H Hc s (.attach u) = (s', .raised e)) : s' = s := by
  unfold step at h
  split at h
  · cases h; rfl
  · simp only at h
    split at h
    · cases h
    · cases ha : attach Hc (fuelOf s) s u with
      | mk s1 res =>
        rw [ha] at h
        cases res with
        | ok x => cases x; simp [ofUnit] at h
        | error e' =>
          simp [ofUnit] at h
          obtain ⟨rfl, _⟩ := h
          exact attach_fail_frame Hc _ _ _ _ _ ha

/-- `detach` / `detach_self` never raise (a walk that does not end is not a rejection) -/
theorem detach_never_rejected {s s' : LState} {u : Nat} {os : Bool} {e : Err}
    (h : step H Hc s (.detach u os) = (s', .raised e)) : e = .hang ∨ e = .badRequest := by
  unfold step at h
  split at h
  · cases h; exact .inr rfl
  · simp only at h
    split at h
    · cases h
    · cases h; exact .inl rfl

/-- `replace` with a forbidden / unknown key -/
theorem fail_frame_replace_keys {s : LState} {u : Nat} {ch : Changes} (hb : ch.bad = true) :
    step H Hc s (.replace u ch) = (s, .raised .replaceError) ∨
    step H Hc s (.replace u ch) = (s, .raised .badRequest) := by
  unfold step
  split
  · exact .inr rfl
  · left; simp [replace, hb, ofNode]

/-- the pre-checks of `replace_with` -/
def rwithPrecheckFails (s : LState) (u : Nat) (new : Option Nat) : Bool :=
  (match new with | some n => s.isAttachedSubtree n | none => false) ||
  (match s.parent u with
   | none => false
   | some p =>
     match (s.obj u).pfield with
     | none => true
     | some f =>
       match (s.obj p).fields.find? (·.name = f) with
       | none => true
       | some fl =>
         !(match new with
           | none => decide (fl.kind = .opt) || fl.kind.isSeq
           | some n => fl.allowed.any fun t => (s.obj n).mro.contains t))

/-- `replace_with` rejected by a pre-check changes nothing at all -/
theorem fail_frame_rwith_precheck {s : LState} {u fuel : Nat} {new : Option Nat}
    (hp : rwithPrecheckFails s u new = true) : (replaceWith Hc fuel s u new).1 = s := by
  unfold rwithPrecheckFails at hp
  unfold replaceWith
  cases new with
  | none =>
    simp only [Bool.false_eq_true, if_false, Bool.false_or] at hp ⊢
    cases hpar : s.parent u with
    | none => rw [hpar] at hp; simp at hp
    | some p =>
      rw [hpar] at hp
      simp only at hp ⊢
      cases hf : (s.obj u).pfield with
      | none => rfl
      | some f =>
        rw [hf] at hp
        simp only at hp ⊢
        cases hfl : (s.obj p).fields.find? (·.name = f) with
        | none => rfl
        | some fl => rw [hfl] at hp; simp only at hp ⊢; simp only [hp, if_true]
  | some n =>
    simp only at hp ⊢
    by_cases h1 : s.isAttachedSubtree n = true
    · simp only [h1, if_true]
    · have h1' : s.isAttachedSubtree n = false := by cases hh : s.isAttachedSubtree n <;> simp_all
      simp only [h1', Bool.false_eq_true, if_false, Bool.false_or] at hp ⊢
      cases hpar : s.parent u with
      | none => rw [hpar] at hp; simp at hp
      | some p =>
        rw [hpar] at hp
        simp only at hp ⊢
        cases hf : (s.obj u).pfield with
        | none => rfl
        | some f =>
          rw [hf] at hp
          simp only at hp ⊢
          cases hfl : (s.obj p).fields.find? (·.name = f) with
          | none => rfl
          | some fl => rw [hfl] at hp; simp only at hp ⊢; simp only [hp, if_true]

/-! ### the roll-back of `replace` -/

/-- two records that differ at most in the parent slots and agree there are equal -/
theorem eq_of_sameButParent {a b : LObj} (h : SameButParent a b) (h1 : a.pid = b.pid) (h2 : a.pfield = b.pfield)
    (h3 : a.pindex = b.pindex) : a = b := by
  cases a; cases b
  obtain ⟨c1, c2, c3, c4, c5, c6, c7, c8, c9⟩ := h
  simp only at c1 c2 c3 c4 c5 c6 c7 c8 c9 h1 h2 h3
  subst c1 c2 c3 c4 c5 c6 c7 c8 c9 h1 h2 h3
  rfl

theorem sameButParent_clearP (o : LObj) : SameButParent (clearP o) o := ⟨rfl, rfl, rfl, rfl, rfl, rfl, rfl, rfl, rfl⟩

theorem sameButParent_setSlots (o : LObj) (a : Option Str) (b : Option Str) (c : Option Nat) :
    SameButParent ({ o with pid := a, pfield := b, pindex := c } : LObj) o := ⟨rfl, rfl, rfl, rfl, rfl, rfl, rfl, rfl, rfl⟩

theorem SameButParent.symm {a b : LObj} (h : SameButParent a b) : SameButParent b a :=
  ⟨h.cls.symm, h.mro.symm, h.fqn.symm, h.props.symm, h.id.symm, h.origId.symm, h.collWith.symm, h.cid.symm,
   h.fields.symm⟩

/-- `reparent` gives the listed children exactly the parent slots of the target records `o` -/
theorem reparent_restore (u : Nat) (o : Nat → LObj) : ∀ (l : List (Nat × Str × Option Nat)) (t : LState),
    (∀ x, SameButParent (t.obj x) (o x)) →
    (∀ e ∈ l, (o e.1).pid = some (t.idOf u) ∧ (o e.1).pfield = some e.2.1 ∧ (o e.1).pindex = e.2.2) →
    ∀ x, x ∈ l.map (·.1) → (reparent u t l).obj x = o x := by
  intro l
  induction l with
  | nil => intro t _ _ x hx; cases hx
  | cons a r ih =>
    intro t hsame hl x hx
    obtain ⟨c, f, i⟩ := a
    simp only [reparent]
    have hsame' : ∀ y, SameButParent ((t.setParent c u f i).obj y) (o y) := by
      intro y; rw [setParent_obj]; split
      · next h =>
        subst h
        have h0 : SameButParent ({ t.obj y with pid := some (t.idOf u), pfield := some f, pindex := i } : LObj) (t.obj y) :=
          ⟨rfl, rfl, rfl, rfl, rfl, rfl, rfl, rfl, rfl⟩
        exact SameButParent.trans h0 (hsame y)
      · exact hsame y
    by_cases hxr : x ∈ r.map (·.1)
    · exact ih _ hsame' (fun e he => by rw [setParent_idOf]; exact hl e (List.mem_cons_of_mem _ he)) x hxr
    · have hxc : x = c := by
        simp only [List.map_cons, List.mem_cons] at hx
        rcases hx with h | h
        · exact h
        · exact absurd h hxr
      subst hxc
      rw [reparent_obj_not_mem u r _ x hxr]
      obtain ⟨p1, p2, p3⟩ := hl (x, f, i) (List.mem_cons_self ..)
      apply eq_of_sameButParent (hsame' x)
      · rw [setParent_obj]; simp [p1]
      · rw [setParent_obj]; simp [p2]
      · rw [setParent_obj]; simp [p3]

/-- the state in which the construction of the new node is attempted, and failed: relative to `s`
the receiver has lost its registry entry and (if it had one) its parent link, its children have
lost their parent links; `s3` may contain one more (garbage) record -/
structure Torn (s s3 : LState) (u : Nat) : Prop where
  reg : ∀ k, s3.lookup k = if s.idOf u = k then none else s.lookup k
  obj : ∀ v, v < s.size → s3.obj v =
    (if v ∈ (s.obj u).kidList then clearP else id) ((if v = u ∧ (s.parent u).isSome then clearP else id) (s.obj v))

theorem Torn.same {s s3 : LState} {u : Nat} (h : Torn s s3 u) {v : Nat} (hv : v < s.size) :
    SameButParent (s3.obj v) (s.obj v) := by
  rw [h.obj v hv]
  split <;> split <;> first | exact sameButParent_clearP _ | exact SameButParent.refl _
                            | exact SameButParent.trans (sameButParent_clearP _) (sameButParent_clearP _)

/-- the roll-back of `replace` undoes exactly that -/
theorem replace_rollback_frame {s s3 : LState} {u : Nat} (hI : Inv Hc s) (ha : Att s u) (hT : Torn s s3 u) :
    Frame s (match s.parent u with
      | some p => (reparent u (s3.register u) (s3.obj u).kidsPos).setParent u p ((s.obj u).pfield.getD [])
                    (s.obj u).pindex
      | none => reparent u (s3.register u) (s3.obj u).kidsPos) := by
  have hu : u < s.size := att_lt hI ha
  have hid3 : ∀ v, v < s.size → s3.idOf v = s.idOf v := fun v hv => (hT.same hv).id
  have hkp : (s3.obj u).kidsPos = (s.obj u).kidsPos := by unfold LObj.kidsPos; rw [(hT.same hu).fields]
  have hkid_lt : ∀ e ∈ (s.obj u).kidsPos, e.1 < s.size := fun e he =>
    hI.closed u hu e.1 ((mem_kidList_iff _ _).mpr ⟨e, he, rfl⟩)
  let t := s3.register u
  let o : Nat → LObj := fun x => if x < s.size then s.obj x else t.obj x
  have hsame : ∀ x, SameButParent (t.obj x) (o x) := by
    intro x
    show SameButParent (s3.obj x) (if x < s.size then s.obj x else s3.obj x)
    split
    · next h => exact hT.same h
    · exact SameButParent.refl _
  have hl : ∀ e ∈ (s3.obj u).kidsPos,
      (o e.1).pid = some (t.idOf u) ∧ (o e.1).pfield = some e.2.1 ∧ (o e.1).pindex = e.2.2 := by
    intro e he
    rw [hkp] at he
    have : o e.1 = s.obj e.1 := by show (if e.1 < s.size then _ else _) = _; simp [hkid_lt e he]
    rw [this]
    obtain ⟨_, b, c, d⟩ := hI.down' u ha e he
    exact ⟨by rw [b]; show _ = some (s3.idOf u); rw [hid3 u hu], c, d⟩
  have hr_kid : ∀ x, x ∈ (s.obj u).kidList → (reparent u t (s3.obj u).kidsPos).obj x = s.obj x := by
    intro x hx
    have hx' : x ∈ (s3.obj u).kidsPos.map (·.1) := by rw [hkp, kidsPos_map_fst]; exact hx
    rw [reparent_restore u o _ t hsame hl x hx']
    have : x < s.size := hI.closed u hu x hx
    show (if x < s.size then _ else _) = _; simp [this]
  have hr_other : ∀ x, x ∉ (s.obj u).kidList → (reparent u t (s3.obj u).kidsPos).obj x = s3.obj x := by
    intro x hx
    exact reparent_obj_not_mem u _ t x (by rw [hkp, kidsPos_map_fst]; exact hx)
  have hr_lookup : ∀ k, (reparent u t (s3.obj u).kidsPos).lookup k = s.lookup k := by
    intro k
    rw [reparent_lookup]
    show (s3.register u).lookup k = _
    rw [register_lookup, hid3 u hu, hT.reg]
    split
    · next h => rw [← h]; exact ha.symm
    · rfl
  cases hp : s.parent u with
  | none =>
    simp only
    refine ⟨hr_lookup, fun v hv => ?_⟩
    by_cases hk : v ∈ (s.obj u).kidList
    · exact hr_kid v hk
    · rw [hr_other v hk, hT.obj v hv]; simp [hk, hp]
  | some p =>
    simp only
    refine ⟨fun k => by rw [setParent_lookup]; exact hr_lookup k, fun v hv => ?_⟩
    rw [setParent_obj]
    by_cases hvu : v = u
    · subst hvu
      simp only [if_true]
      -- the original parent link of v
      obtain ⟨f, hf, _⟩ := hI.up v ha p hp
      unfold LState.parent at hp
      cases hk : (s.obj v).pid with
      | none => rw [hk] at hp; cases hp
      | some k =>
        rw [hk] at hp
        obtain ⟨hps, hpid⟩ := hI.regSound k p hp
        have hsb : SameButParent ((reparent v t (s3.obj v).kidsPos).obj v) (s.obj v) :=
          SameButParent.trans (SameButParent.symm (reparent_same v _ t v)) (by
            have := hsame v
            show SameButParent (t.obj v) (s.obj v)
            have e : o v = s.obj v := by show (if v < s.size then _ else _) = _; simp [hv]
            rw [e] at this; exact this)
        have hidp : (reparent v t (s3.obj v).kidsPos).idOf p = s.idOf p := by
          rw [reparent_idOf]; show s3.idOf p = _; exact hid3 p hps
        apply eq_of_sameButParent
        · exact SameButParent.trans (sameButParent_setSlots _ _ _ _) hsb
        · show some _ = _; rw [hidp, hpid, hk]
        · show some _ = _; rw [hf]; rfl
        · rfl
    · simp only [hvu, if_false]
      by_cases hk : v ∈ (s.obj u).kidList
      · exact hr_kid v hk
      · rw [hr_other v hk, hT.obj v hv]; simp [hk, hvu]

theorem ofNode_ite_hang {c : Prop} [Decidable c] {a b s' : LState} {n : Nat} {e : Err}
    (h : ofNode (if c then (a, Except.ok n) else (b, Except.error Err.hang)) = (s', LOut.raised e)) : e = .hang := by
  split at h
  · simp [ofNode] at h
  · simp only [ofNode, Prod.mk.injEq, LOut.raised.injEq] at h; exact h.2.symm

/-- **`replace` rejected by the construction of the new node** (duplicate children, parent collision,
registry collision): the roll-back restores everything -- the registry entry and the parent link of
the receiver and the parent links of all its children (F16, repaired). -/
theorem fail_frame_replace {s s' : LState} {u : Nat} {ch : Changes} {e : Err} (hI : Inv Hc s)
    (h : step H Hc s (.replace u ch) = (s', .raised e)) (he : e ≠ .hang) : Frame s s' := by
  unfold step at h
  split at h
  · cases h; exact Frame.refl _
  · simp only at h
    unfold replace at h
    split at h
    · simp [ofNode] at h; obtain ⟨rfl, _⟩ := h; exact Frame.refl _
    · simp only at h
      by_cases ha : Att s u
      · -- attached receiver
        have hd : s.detached u = false := (detached_eq_false_iff _ _).mpr ha
        -- after clearing the parent link of the receiver
        generalize hs1 : (if (s.parent u).isSome = true then s.clearParent u else s) = s1 at h
        have hobj1 : ∀ v, s1.obj v = (if v = u ∧ (s.parent u).isSome then clearP else id) (s.obj v) := by
          intro v; subst hs1; split
          · next hp => rw [clearParent_obj']; by_cases hv : v = u <;> simp [hv, hp]
          · next hp => simp [hp]
        have hlk1 : ∀ k, s1.lookup k = s.lookup k := by intro k; subst hs1; split <;> rfl
        have hsz1 : s1.size = s.size := by subst hs1; split <;> rfl
        have hid1 : ∀ v, s1.idOf v = s.idOf v := by
          intro v; unfold LState.idOf; rw [hobj1]; split <;> simp
        have hkl1 : (s1.obj u).kidList = (s.obj u).kidList := by
          unfold LObj.kidList; rw [hobj1]; split <;> simp
        have ha1 : Att s1 u := by unfold Att; rw [hid1, hlk1]; exact ha
        have hr1 : s1.parent u = none := by
          unfold LState.parent
          rw [hobj1]
          cases hp : s.parent u with
          | some p => simp [clearP]
          | none =>
            have hpid : (s.obj u).pid = none ∨ ∃ k, (s.obj u).pid = some k ∧ s.lookup k = none := by
              unfold LState.parent at hp
              cases hk : (s.obj u).pid with
              | none => exact .inl rfl
              | some k => rw [hk] at hp; exact .inr ⟨k, rfl, hp⟩
            simp only [Option.isSome_none, Bool.false_eq_true, and_false, if_false, id]
            rcases hpid with h0 | ⟨k, h0, h1⟩
            · rw [h0]
            · rw [h0]; simp only; rw [hlk1]; exact h1
        have hd1 : s1.detached u = false := (detached_eq_false_iff _ _).mpr ha1
        simp only [hd1, Bool.not_false, if_true] at h
        rw [detach_self_eq ha1 hr1] at h
        simp only at h
        split at h
        · next s3 e3 hc =>
          simp only [ofNode, Prod.mk.injEq, LOut.raised.injEq] at h
          obtain ⟨rfl, _⟩ := h
          obtain ⟨hreg3, hobj3⟩ := construct_fail_frame H Hc hc
          have hT : Torn s s3 u := by
            constructor
            · intro k
              show regGet s3.reg k = _
              rw [hreg3]
              show (((s1.obj u).kidList.foldl LState.clearParent s1).unregister (s1.idOf u)).lookup k = _
              rw [unregister_lookup, foldl_clearParent_lookup, hid1, hlk1]
            · intro v hv
              rw [hobj3 v (by rw [unregister_size, foldl_clearParent_size, hsz1]; omega), unregister_obj,
                foldl_clearParent_obj, hkl1, hobj1]
              split <;> rfl
          have := replace_rollback_frame Hc hI ha hT
          cases hp : s.parent u with
          | none => rw [hp] at this; simpa using this
          | some p => rw [hp] at this; simpa using this
        · next s3 n hc =>
          -- the construction succeeded: the call returns a node, or does not return (hang)
          exact absurd (ofNode_ite_hang h) he
      · -- detached receiver: nothing is touched before the construction
        have hd : s.detached u = true := (detached_eq_true_iff _ _).mpr ha
        have hp : s.parent u = none := by
          unfold LState.parent
          cases hk : (s.obj u).pid with
          | none => rfl
          | some k => exact absurd (hI.noDangling u k hk).1 ha
        simp only [hp, Option.isSome_none, Bool.false_eq_true, if_false, hd, Bool.not_true] at h
        split at h
        · next s3 e3 hc =>
          simp only [ofNode, Prod.mk.injEq, LOut.raised.injEq] at h
          obtain ⟨rfl, _⟩ := h
          obtain ⟨hreg3, hobj3⟩ := construct_fail_frame H Hc hc
          exact ⟨fun k => by unfold LState.lookup; rw [hreg3], fun v hv => hobj3 v (by omega)⟩
        · exact absurd (ofNode_ite_hang h) he

/-! ### non-vacuity: every theorem is applied to a concrete rejected call -/
section examples
open PyOak.Legacy.Ex PyOak.Legacy.C18

/-- two leaves, a tuple over the first, a unary node over the second -/
def base : List LOp := [.new (leaf "1"), .new (leaf "2"), .new (tup [0]), .new (un 1)]

theorem inv_base : Inv id (st base) := inv_run_init_partial id id base (by decide)

theorem mk_eq {α β : Type} (p : α × β) (b : β) (h : p.2 = b) : p = (p.1, b) := by
  cases p; simp_all

-- constructor rejected: the same child twice / a child attached elsewhere
example : outOf base (.new (tup [0, 0])) = .raised .dupChildren := by decide
example : Frame (st base) (step id id (st base) (.new (tup [0, 0]))).1 :=
  (fail_frame_new id id (s := st base) (sp := tup [0, 0]) (e := .dupChildren) (mk_eq _ _ (by decide))).2
example : outOf base (.new (tup [2, 1])) = .raised .parentCollision := by decide
example : Frame (st base) (step id id (st base) (.new (tup [2, 1]))).1 :=
  (fail_frame_new id id (s := st base) (sp := tup [2, 1]) (e := .parentCollision) (mk_eq _ _ (by decide))).2
-- attach rejected: the tree 3 -> 1 is detached; node 1 is then taken by a new parent
def base2 : List LOp := base ++ [.detach 3 false, .new (tup [1])]
example : outOf base2 (.attach 3) = .raised .parentCollision := by decide
example : (step id id (st base2) (.attach 3)).1 = st base2 :=
  fail_frame_attach id id (s := st base2) (u := 3) (e := .parentCollision) (mk_eq _ _ (by decide))
-- detach of something that does not exist
example : outOf base (.detach 9 false) = .raised .badRequest := by decide
example := detach_never_rejected id id (s := st base) (u := 9) (os := false) (e := .badRequest) (mk_eq _ _ (by decide))
-- replace: forbidden key; duplicate children (receiver 2 = attached root with a child)
example := fail_frame_replace_keys id id (s := st base) (u := 2) (ch := ⟨[], [], true⟩) rfl
example : outOf base (.replace 2 ⟨[], [("items".toList, [0, 0])], false⟩) = .raised .dupChildren := by decide
example : Frame (st base) (step id id (st base) (.replace 2 ⟨[], [("items".toList, [0, 0])], false⟩)).1 :=
  fail_frame_replace id id (s := st base) (u := 2) (ch := ⟨[], [("items".toList, [0, 0])], false⟩)
    (e := .dupChildren) inv_base (mk_eq _ _ (by decide)) (by decide)
-- replace on a receiver WITH a parent (node 3 under node 4), rejected for a parent collision (child 0 sits in 2)
def base3 : List LOp := base ++ [.new (un 3)]
example : outOf base3 (.replace 3 ⟨[], [("arg".toList, [0])], false⟩) = .raised .parentCollision := by decide
example : Frame (st base3) (step id id (st base3) (.replace 3 ⟨[], [("arg".toList, [0])], false⟩)).1 :=
  fail_frame_replace id id (s := st base3) (u := 3) (ch := ⟨[], [("arg".toList, [0])], false⟩)
    (e := .parentCollision) (inv_run_init_partial id id _ (by decide)) (mk_eq _ _ (by decide)) (by decide)
-- replace_with a node that has a parent; None for a required field
example : rwithPrecheckFails (st base) 2 (some 1) = true := by decide
example : (replaceWith id 9 (st base) 2 (some 1)).1 = st base := fail_frame_rwith_precheck id (by decide)
example : rwithPrecheckFails (st base) 1 none = true := by decide
example : (replaceWith id 9 (st base) 1 none).1 = st base := fail_frame_rwith_precheck id (by decide)

end examples

end PyOak.Legacy.C19
