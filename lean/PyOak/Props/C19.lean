/-
C19 — A rejected legacy operation changes nothing.

Frame: a state `s'` reached by a rejected call from `s` agrees with `s` on every pre-existing
record and on every registry lookup:

  Frame s s'  :=  (∀ k, s'.lookup k = s.lookup k) ∧ (∀ v, v < s.size → s'.obj v = s.obj v)

(the record of a rejected *new* node is garbage beyond `s.size`; that it is not registered is the
first conjunct).

PROVED (for all states, arguments, fuel):
  fail_frame_new             rejected construction (duplicate children / id collision / parent or
                             registry collision anywhere in the subtree): even `s'.reg = s.reg`
  fail_frame_attach          rejected `attach()`: `s' = s`
  detach_never_rejected      `detach` / `detach_self` raise nothing
  fail_frame_replace_keys    `replace` with a forbidden / unknown key: `s' = s`
  fail_frame_replace         `replace` rejected by the construction of the new node (duplicate children,
                             parent collision, registry collision), receiver attached or detached, with or
                             without parent: the roll-back restores the registry entry, the parent link of
                             the receiver AND the parent links of all its children (defect F16, repaired)
  fail_frame_rwith_precheck  `replace_with` rejected by one of its pre-checks (new node has a parent; `None`
                             for a required field; class not accepted by the parent field): `s' = s`

  fail_frame_rwith           `replace_with` rejected with ASTNodeReplaceWithError for WHATEVER reason, in particular
                             because the new node cannot be attached (registry / parent collision anywhere in its
                             subtree): the receiver's subtree has been detached and is re-attached by the roll-back
                             (Props/LegacyRollback.lean: `reattach_frame` = detach + re-attach restores every parent
                             slot, registry entry and content id), the new node gets its ids and its registry entry
                             back; receiver with or without parent, new node attached root or detached

  fail_frame_dup             `duplicate` rejected at any depth (Props/LegacyDupFrame.lean): every pre-existing record
                             untouched, every pre-existing registry entry kept, any additional entry belongs to an
                             object created by the rejected call (an already duplicated child, garbage when the call
                             returns: weak registry, collected by `gcNew` in Handle/Legacy.lean, which is glue)

NOT MODELLED: transform visitor / transformer (three KNOWN findings: no roll-back across several replaced
nodes, see known_findings.json); exercised on every run by the frame oracle on the real objects.
-/
import PyOak.Props.C18
import PyOak.Props.LegacyRollback
import PyOak.Props.LegacyDupFrame
namespace PyOak.Legacy.C19
open PyOak PyOak.Legacy LState

variable (H Hc : Str → Str)

/-- the rejected call left every pre-existing record and every registry lookup as it was -/
def Frame (s s' : LState) : Prop :=
  (∀ k, s'.lookup k = s.lookup k) ∧ ∀ v, v < s.size → s'.obj v = s.obj v

theorem Frame.refl (s : LState) : Frame s s := ⟨fun _ => rfl, fun _ _ => rfl⟩

/-- a rejected construction: nothing but the garbage record of the rejected node -/
theorem fail_frame_new {s s' : LState} {sp : NewSpec} {e : Err}
    (h : step H Hc s (.new sp) = (s', .raised e)) : s'.reg = s.reg ∧ Frame s s' := by
  unfold step at h
  split at h
  · cases h; exact ⟨rfl, Frame.refl _⟩
  · simp only at h
    cases hc : construct H Hc (fuelOf s) s sp with
    | mk s1 res =>
      rw [hc] at h
      cases res with
      | ok n => simp [ofNode] at h
      | error e' =>
        simp [ofNode] at h
        obtain ⟨rfl, _⟩ := h
        obtain ⟨hr, ho⟩ := construct_fail_frame H Hc hc
        exact ⟨hr, fun k => by unfold LState.lookup; rw [hr], fun v hv => ho v (by omega)⟩

/-- a rejected `attach()` -/
theorem fail_frame_attach {s s' : LState} {u : Nat} {e : Err}
    (h : step H Hc s (.attach u) = (s', .raised e)) : s' = s := by
  unfold step at h
  split at h
  · cases h; rfl
  · simp only at h
    split at h
    · cases h
    · cases ha : attach Hc (fuelOf s) s u with
      | mk s1 res =>
        rw [ha] at h
        cases res with
        | ok x => cases x; simp [ofUnit] at h
        | error e' =>
          simp [ofUnit] at h
          obtain ⟨rfl, _⟩ := h
          exact attach_fail_frame Hc _ _ _ _ _ ha

/-- `detach` / `detach_self` never raise (a walk that does not end is not a rejection) -/
theorem detach_never_rejected {s s' : LState} {u : Nat} {os : Bool} {e : Err}
    (h : step H Hc s (.detach u os) = (s', .raised e)) : e = .hang ∨ e = .badRequest := by
  unfold step at h
  split at h
  · cases h; exact .inr rfl
  · simp only at h
    split at h
    · cases h
    · cases h; exact .inl rfl

/-- `replace` with a forbidden / unknown key -/
theorem fail_frame_replace_keys {s : LState} {u : Nat} {ch : Changes} (hb : ch.bad = true) :
    step H Hc s (.replace u ch) = (s, .raised .replaceError) ∨
    step H Hc s (.replace u ch) = (s, .raised .badRequest) := by
  unfold step
  split
  · exact .inr rfl
  · left; simp [replace, hb, ofNode]

/-- the pre-checks of `replace_with` -/
def rwithPrecheckFails (s : LState) (u : Nat) (new : Option Nat) : Bool :=
  (match new with | some n => s.isAttachedSubtree n | none => false) ||
  (match s.parent u with
   | none => false
   | some p =>
     match (s.obj u).pfield with
     | none => true
     | some f =>
       match (s.obj p).fields.find? (·.name = f) with
       | none => true
       | some fl =>
         !(match new with
           | none => decide (fl.kind = .opt) || fl.kind.isSeq
           | some n => fl.allowed.any fun t => (s.obj n).mro.contains t))

/-- `replace_with` rejected by a pre-check changes nothing at all -/
theorem fail_frame_rwith_precheck {s : LState} {u fuel : Nat} {new : Option Nat}
    (hp : rwithPrecheckFails s u new = true) : (replaceWith Hc fuel s u new).1 = s := by
  unfold rwithPrecheckFails at hp
  unfold replaceWith
  cases new with
  | none =>
    simp only [Bool.false_eq_true, if_false, Bool.false_or] at hp ⊢
    cases hpar : s.parent u with
    | none => rw [hpar] at hp; simp at hp
    | some p =>
      rw [hpar] at hp
      simp only at hp ⊢
      cases hf : (s.obj u).pfield with
      | none => rfl
      | some f =>
        rw [hf] at hp
        simp only at hp ⊢
        cases hfl : (s.obj p).fields.find? (·.name = f) with
        | none => rfl
        | some fl => rw [hfl] at hp; simp only at hp ⊢; simp only [hp, if_true]
  | some n =>
    simp only at hp ⊢
    by_cases h1 : s.isAttachedSubtree n = true
    · simp only [h1, if_true]
    · have h1' : s.isAttachedSubtree n = false := by cases hh : s.isAttachedSubtree n <;> simp_all
      simp only [h1', Bool.false_eq_true, if_false, Bool.false_or] at hp ⊢
      cases hpar : s.parent u with
      | none => rw [hpar] at hp; simp at hp
      | some p =>
        rw [hpar] at hp
        simp only at hp ⊢
        cases hf : (s.obj u).pfield with
        | none => rfl
        | some f =>
          rw [hf] at hp
          simp only at hp ⊢
          cases hfl : (s.obj p).fields.find? (·.name = f) with
          | none => rfl
          | some fl => rw [hfl] at hp; simp only at hp ⊢; simp only [hp, if_true]

/-! ### the roll-back of `replace` -/

/-- the state in which the construction of the new node is attempted, and failed: relative to `s`
the receiver has lost its registry entry and (if it had one) its parent link, its children have
lost their parent links; `s3` may contain one more (garbage) record -/
structure Torn (s s3 : LState) (u : Nat) : Prop where
  reg : ∀ k, s3.lookup k = if s.idOf u = k then none else s.lookup k
  obj : ∀ v, v < s.size → s3.obj v =
    (if v ∈ (s.obj u).kidList then clearP else id) ((if v = u ∧ (s.parent u).isSome then clearP else id) (s.obj v))

theorem Torn.same {s s3 : LState} {u : Nat} (h : Torn s s3 u) {v : Nat} (hv : v < s.size) :
    SameButParent (s3.obj v) (s.obj v) := by
  rw [h.obj v hv]
  split <;> split <;> first | exact sameButParent_clearP _ | exact SameButParent.refl _
                            | exact SameButParent.trans (sameButParent_clearP _) (sameButParent_clearP _)

/-- the roll-back of `replace` undoes exactly that -/
theorem replace_rollback_frame {s s3 : LState} {u : Nat} (hI : Inv Hc s) (ha : Att s u) (hT : Torn s s3 u) :
    Frame s (match s.parent u with
      | some p => (reparent u (s3.register u) (s3.obj u).kidsPos).setParent u p ((s.obj u).pfield.getD [])
                    (s.obj u).pindex
      | none => reparent u (s3.register u) (s3.obj u).kidsPos) := by
  have hu : u < s.size := att_lt hI ha
  have hid3 : ∀ v, v < s.size → s3.idOf v = s.idOf v := fun v hv => (hT.same hv).id
  have hkp : (s3.obj u).kidsPos = (s.obj u).kidsPos := by unfold LObj.kidsPos; rw [(hT.same hu).fields]
  have hkid_lt : ∀ e ∈ (s.obj u).kidsPos, e.1 < s.size := fun e he =>
    hI.closed u hu e.1 ((mem_kidList_iff _ _).mpr ⟨e, he, rfl⟩)
  let t := s3.register u
  let o : Nat → LObj := fun x => if x < s.size then s.obj x else t.obj x
  have hsame : ∀ x, SameButParent (t.obj x) (o x) := by
    intro x
    show SameButParent (s3.obj x) (if x < s.size then s.obj x else s3.obj x)
    split
    · next h => exact hT.same h
    · exact SameButParent.refl _
  have hl : ∀ e ∈ (s3.obj u).kidsPos,
      (o e.1).pid = some (t.idOf u) ∧ (o e.1).pfield = some e.2.1 ∧ (o e.1).pindex = e.2.2 := by
    intro e he
    rw [hkp] at he
    have : o e.1 = s.obj e.1 := by show (if e.1 < s.size then _ else _) = _; simp [hkid_lt e he]
    rw [this]
    obtain ⟨_, b, c, d⟩ := hI.down' u ha e he
    exact ⟨by rw [b]; show _ = some (s3.idOf u); rw [hid3 u hu], c, d⟩
  have hr_kid : ∀ x, x ∈ (s.obj u).kidList → (reparent u t (s3.obj u).kidsPos).obj x = s.obj x := by
    intro x hx
    have hx' : x ∈ (s3.obj u).kidsPos.map (·.1) := by rw [hkp, kidsPos_map_fst]; exact hx
    rw [reparent_restore u o _ t hsame hl x hx']
    have : x < s.size := hI.closed u hu x hx
    show (if x < s.size then _ else _) = _; simp [this]
  have hr_other : ∀ x, x ∉ (s.obj u).kidList → (reparent u t (s3.obj u).kidsPos).obj x = s3.obj x := by
    intro x hx
    exact reparent_obj_not_mem u _ t x (by rw [hkp, kidsPos_map_fst]; exact hx)
  have hr_lookup : ∀ k, (reparent u t (s3.obj u).kidsPos).lookup k = s.lookup k := by
    intro k
    rw [reparent_lookup]
    show (s3.register u).lookup k = _
    rw [register_lookup, hid3 u hu, hT.reg]
    split
    · next h => rw [← h]; exact ha.symm
    · rfl
  cases hp : s.parent u with
  | none =>
    simp only
    refine ⟨hr_lookup, fun v hv => ?_⟩
    by_cases hk : v ∈ (s.obj u).kidList
    · exact hr_kid v hk
    · rw [hr_other v hk, hT.obj v hv]; simp [hk, hp]
  | some p =>
    simp only
    refine ⟨fun k => by rw [setParent_lookup]; exact hr_lookup k, fun v hv => ?_⟩
    rw [setParent_obj]
    by_cases hvu : v = u
    · subst hvu
      simp only [if_true]
      -- the original parent link of v
      obtain ⟨f, hf, _⟩ := hI.up v ha p hp
      unfold LState.parent at hp
      cases hk : (s.obj v).pid with
      | none => rw [hk] at hp; cases hp
      | some k =>
        rw [hk] at hp
        obtain ⟨hps, hpid⟩ := hI.regSound k p hp
        have hsb : SameButParent ((reparent v t (s3.obj v).kidsPos).obj v) (s.obj v) :=
          SameButParent.trans (SameButParent.symm (reparent_same v _ t v)) (by
            have := hsame v
            show SameButParent (t.obj v) (s.obj v)
            have e : o v = s.obj v := by show (if v < s.size then _ else _) = _; simp [hv]
            rw [e] at this; exact this)
        have hidp : (reparent v t (s3.obj v).kidsPos).idOf p = s.idOf p := by
          rw [reparent_idOf]; show s3.idOf p = _; exact hid3 p hps
        apply eq_of_sameButParent
        · exact SameButParent.trans (sameButParent_setSlots _ _ _ _) hsb
        · show some _ = _; rw [hidp, hpid, hk]
        · show some _ = _; rw [hf]; rfl
        · rfl
    · simp only [hvu, if_false]
      by_cases hk : v ∈ (s.obj u).kidList
      · exact hr_kid v hk
      · rw [hr_other v hk, hT.obj v hv]; simp [hk, hvu]

theorem ofNode_ite_hang {c : Prop} [Decidable c] {a b s' : LState} {n : Nat} {e : Err}
    (h : ofNode (if c then (a, Except.ok n) else (b, Except.error Err.hang)) = (s', LOut.raised e)) : e = .hang := by
  split at h
  · simp [ofNode] at h
  · simp only [ofNode, Prod.mk.injEq, LOut.raised.injEq] at h; exact h.2.symm

/-- **`replace` rejected by the construction of the new node** (duplicate children, parent collision,
registry collision): the roll-back restores everything -- the registry entry and the parent link of
the receiver and the parent links of all its children (F16, repaired). -/
theorem fail_frame_replace {s s' : LState} {u : Nat} {ch : Changes} {e : Err} (hI : Inv Hc s)
    (h : step H Hc s (.replace u ch) = (s', .raised e)) (he : e ≠ .hang) : Frame s s' := by
  unfold step at h
  split at h
  · cases h; exact Frame.refl _
  · simp only at h
    unfold replace at h
    split at h
    · simp [ofNode] at h; obtain ⟨rfl, _⟩ := h; exact Frame.refl _
    · simp only at h
      by_cases ha : Att s u
      · -- attached receiver
        have hd : s.detached u = false := (detached_eq_false_iff _ _).mpr ha
        -- after clearing the parent link of the receiver
        generalize hs1 : (if (s.parent u).isSome = true then s.clearParent u else s) = s1 at h
        have hobj1 : ∀ v, s1.obj v = (if v = u ∧ (s.parent u).isSome then clearP else id) (s.obj v) := by
          intro v; subst hs1; split
          · next hp => rw [clearParent_obj']; by_cases hv : v = u <;> simp [hv, hp]
          · next hp => simp [hp]
        have hlk1 : ∀ k, s1.lookup k = s.lookup k := by intro k; subst hs1; split <;> rfl
        have hsz1 : s1.size = s.size := by subst hs1; split <;> rfl
        have hid1 : ∀ v, s1.idOf v = s.idOf v := by
          intro v; unfold LState.idOf; rw [hobj1]; split <;> simp
        have hkl1 : (s1.obj u).kidList = (s.obj u).kidList := by
          unfold LObj.kidList; rw [hobj1]; split <;> simp
        have ha1 : Att s1 u := by unfold Att; rw [hid1, hlk1]; exact ha
        have hr1 : s1.parent u = none := by
          unfold LState.parent
          rw [hobj1]
          cases hp : s.parent u with
          | some p => simp [clearP]
          | none =>
            have hpid : (s.obj u).pid = none ∨ ∃ k, (s.obj u).pid = some k ∧ s.lookup k = none := by
              unfold LState.parent at hp
              cases hk : (s.obj u).pid with
              | none => exact .inl rfl
              | some k => rw [hk] at hp; exact .inr ⟨k, rfl, hp⟩
            simp only [Option.isSome_none, Bool.false_eq_true, and_false, if_false, id]
            rcases hpid with h0 | ⟨k, h0, h1⟩
            · rw [h0]
            · rw [h0]; simp only; rw [hlk1]; exact h1
        have hd1 : s1.detached u = false := (detached_eq_false_iff _ _).mpr ha1
        simp only [hd1, Bool.not_false, if_true] at h
        rw [detach_self_eq ha1 hr1] at h
        simp only at h
        split at h
        · next s3 e3 hc =>
          simp only [ofNode, Prod.mk.injEq, LOut.raised.injEq] at h
          obtain ⟨rfl, _⟩ := h
          obtain ⟨hreg3, hobj3⟩ := construct_fail_frame H Hc hc
          have hT : Torn s s3 u := by
            constructor
            · intro k
              show regGet s3.reg k = _
              rw [hreg3]
              show (((s1.obj u).kidList.foldl LState.clearParent s1).unregister (s1.idOf u)).lookup k = _
              rw [unregister_lookup, foldl_clearParent_lookup, hid1, hlk1]
            · intro v hv
              rw [hobj3 v (by rw [unregister_size, foldl_clearParent_size, hsz1]; omega), unregister_obj,
                foldl_clearParent_obj, hkl1, hobj1]
              split <;> rfl
          have := replace_rollback_frame Hc hI ha hT
          cases hp : s.parent u with
          | none => rw [hp] at this; simpa using this
          | some p => rw [hp] at this; simpa using this
        · next s3 n hc =>
          -- the construction succeeded: the call returns a node, or does not return (hang)
          exact absurd (ofNode_ite_hang h) he
      · -- detached receiver: nothing is touched before the construction
        have hd : s.detached u = true := (detached_eq_true_iff _ _).mpr ha
        have hp : s.parent u = none := by
          unfold LState.parent
          cases hk : (s.obj u).pid with
          | none => rfl
          | some k => exact absurd (hI.noDangling u k hk).1 ha
        simp only [hp, Option.isSome_none, Bool.false_eq_true, if_false, hd, Bool.not_true] at h
        split at h
        · next s3 e3 hc =>
          simp only [ofNode, Prod.mk.injEq, LOut.raised.injEq] at h
          obtain ⟨rfl, _⟩ := h
          obtain ⟨hreg3, hobj3⟩ := construct_fail_frame H Hc hc
          exact ⟨fun k => by unfold LState.lookup; rw [hreg3], fun v hv => hobj3 v (by omega)⟩
        · exact absurd (ofNode_ite_hang h) he

/-! ### `replace_with` rejected because the new node cannot be attached -/

/-- the receiver has no parent -/
theorem rwith_rollback_root {s s' : LState} {u n fuel : Nat} (hI : Inv Hc s)
    (hpar : s.parent u = none) (hsub : s.isAttachedSubtree n = false)
    (h : replaceWith Hc fuel s u (some n) = (s', .error .replaceWithError)) : Frame s s' := by
  unfold replaceWith at h
  simp only [hsub, Bool.false_eq_true, if_false, hpar] at h
  -- n is detached, or an attached root
  have hnroot : Att s n → s.parent n = none := by
    intro ha
    unfold LState.isAttachedSubtree at hsub
    cases hp : s.parent n with
    | none => rfl
    | some q => simp [hp, (detached_eq_false_iff s n).mpr ha] at hsub
  by_cases hd : s.detached u = true
  · -- detached receiver: nothing is detached, nothing has to be re-attached
    simp only [hd, Bool.not_true, Bool.false_eq_true, if_false] at h
    cases hat : attach Hc fuel (takeOver s u n).1 n with
    | mk s3 r3 =>
      rw [hat] at h
      cases r3 with
      | ok x => cases x; simp at h
      | error e =>
        simp only [Prod.mk.injEq, Except.error.injEq] at h
        obtain ⟨rfl, he⟩ := h
        have hs3 := attach_fail_frame Hc _ _ _ _ _ hat
        rw [hs3]
        have hobj := takeOver_restore_obj s u n
        have hlk := takeOver_restore_lookup s u n
        by_cases hnd : s.detached n = true
        · have hto : (takeOver s u n).2 = false := by unfold takeOver; simp [hnd]
          simp only [hto, Bool.false_eq_true, if_false]
          exact ⟨fun k => by rw [hlk]; simp [hnd], fun v _ => hobj v⟩
        · have hnd' : s.detached n = false := by cases hh : s.detached n <;> simp_all
          have hto : (takeOver s u n).2 = true := by unfold takeOver; simp [hnd']
          simp only [hto, if_true]
          refine ⟨fun k => ?_, fun v _ => by rw [register_obj]; exact hobj v⟩
          rw [register_lookup]
          have hidn : ((takeOver s u n).1.modify n fun y =>
              { y with id := (s.obj n).id, origId := (s.obj n).origId }).idOf n = s.idOf n := by
            unfold LState.idOf; rw [hobj]
          rw [hidn, hlk]
          by_cases hk : s.idOf n = k
          · simp only [hk, if_true]; rw [← hk]; exact ((detached_eq_false_iff s n).mp hnd').symm
          · simp [hk]
  · -- attached root: detach, (failed attach of n), re-attach
    have hd' : s.detached u = false := by cases hh : s.detached u <;> simp_all
    have hua : Att s u := (detached_eq_false_iff s u).mp hd'
    simp only [hd', Bool.not_false, if_true] at h
    cases hds : detachGo (fuel + 1) false s u with
    | mk s1 r1 =>
      rw [hds] at h
      cases r1 with
      | none => simp at h
      | some b =>
        simp only at h
        cases hat : attach Hc fuel (takeOver s1 u n).1 n with
        | mk s3 r3 =>
          rw [hat] at h
          cases r3 with
          | ok x => cases x; simp at h
          | error e =>
            simp only at h
            have hs3 := attach_fail_frame Hc _ _ _ _ _ hat
            rw [hs3] at h
            cases hat2 : attach Hc fuel ((takeOver s1 u n).1.modify n fun x =>
                { x with id := (s1.obj n).id, origId := (s1.obj n).origId }) u with
            | mk s5 r5 =>
              rw [hat2] at h
              cases r5 with
              | error e' =>
                exfalso
                simp only [Prod.mk.injEq, Except.error.injEq] at h
                rcases attach_err_kind Hc hat2 with h1 | h1 | h1 <;> rcases attach_err_kind Hc hat with h2 | h2 | h2 <;>
                  simp [h1, h2] at h
              | ok x =>
                cases x
                simp only [Prod.mk.injEq, Except.error.injEq] at h
                obtain ⟨rfl, _⟩ := h
                have hS : Shrinks s s1 := by
                  have := (detachGo_facts (fuel + 1) false s u b (by rw [hds])).shr; rwa [hds] at this
                have hobj := takeOver_restore_obj s1 u n
                have hlk := takeOver_restore_lookup s1 u n
                have hs1u : s1.obj u = s.obj u := by
                  apply Classical.byContradiction; intro hne
                  have ht := detachGo_touched (fuel + 1) false s u b (by rw [hds])
                  rw [hds] at ht
                  obtain ⟨q, hq, huq⟩ := ht u hne
                  obtain ⟨e, he, he1⟩ := (mem_kidList_iff _ _).mp huq
                  obtain ⟨_, b1, _, _⟩ := hI.down' q hq.1 e he
                  rw [he1] at b1
                  unfold LState.parent at hpar
                  rw [b1] at hpar; simp only at hpar
                  have := hq.1; unfold Att at this; rw [this] at hpar; cases hpar
                -- the key that the take-over removed (if the new node was registered)
                let kn : Option Str := if s1.detached n = false then some (s1.idOf n) else none
                have hid1 : ∀ x, s1.idOf x = s.idOf x := hS.id_eq
                have hnatt1 : s1.detached n = false → Att s n := fun h => hS.att ((detached_eq_false_iff s1 n).mp h)
                have hfr := reattach_frame Hc (kn := kn) hI hua (fun _ => rfl) (fun _ _ => rfl) (SameButParent.refl _) hds
                  (fun x _ => hobj x) (by rw [hobj]; exact hs1u)
                  (by
                    intro k
                    rw [hlk]
                    by_cases hc : s1.detached n = false ∧ s1.idOf n = k
                    · right; simp only [hc, and_self, if_true, true_and]; show some k = kn; simp [kn, hc.1, hc.2]
                    · left; simp [hc])
                  (by
                    intro k hk m hm hidm
                    have hnd1 : s1.detached n = false := by
                      cases hh : s1.detached n <;> simp_all [kn]
                    have hk' : s1.idOf n = k := by simp [kn, hnd1] at hk; exact hk
                    have hna : Att s n := hnatt1 hnd1
                    have hnu : n ≠ u := by
                      intro e; subst e
                      exact detachGo_root_detaches hua hpar hds ((detached_eq_false_iff s1 n).mp hnd1)
                    have hma := (upFree_of_desc hI hua hm (fun _ _ hx => hx.elim)).1
                    have : m = n := att_inj hma hna (by rw [hidm, ← hk', hid1])
                    subst this
                    -- a descendant other than the receiver has a parent; the new node has none
                    cases hm with
                    | refl => exact hnu rfl
                    | @step q' _ hd' hkq =>
                      have hq' := (upFree_of_desc hI hua hd' (fun _ _ hx => hx.elim)).1
                      obtain ⟨e, he, he1⟩ := (mem_kidList_iff _ _).mp hkq
                      obtain ⟨_, b1, _, _⟩ := hI.down' q' hq' e he
                      rw [he1] at b1
                      have := hnroot hna
                      unfold LState.parent at this
                      rw [b1] at this; simp only at this
                      unfold Att at hq'; rw [hq'] at this; cases this)
                  hat2
                obtain ⟨f1, f2, f3⟩ := hfr
                by_cases hnd1 : s1.detached n = true
                · have hto : (takeOver s1 u n).2 = false := by unfold takeOver; simp [hnd1]
                  simp only [hto, Bool.false_eq_true, if_false]
                  refine ⟨fun k => f2 k ?_, fun v _ => f1 v⟩
                  simp [kn, hnd1]
                · have hnd1' : s1.detached n = false := by cases hh : s1.detached n <;> simp_all
                  have hto : (takeOver s1 u n).2 = true := by unfold takeOver; simp [hnd1']
                  simp only [hto, if_true]
                  refine ⟨fun k => ?_, fun v _ => by rw [register_obj]; exact f1 v⟩
                  rw [register_lookup]
                  have hidn : s5.idOf n = s.idOf n := by unfold LState.idOf; rw [f1]
                  rw [hidn]
                  by_cases hk : s.idOf n = k
                  · simp only [hk, if_true]; rw [← hk]; exact (hnatt1 hnd1').symm
                  · simp only [hk, if_false]
                    exact f2 k (by simp [kn, hnd1', hid1]; exact fun e => hk e.symm)

/-- an attached root other than the receiver is not among the receiver's descendants -/
theorem root_not_desc {s : LState} {u n : Nat} (hI : Inv Hc s) (hua : Att s u) (hnu : n ≠ u) (hna : Att s n)
    (hnroot : s.parent n = none) : ∀ m, Desc s u m → s.idOf m ≠ s.idOf n := by
  intro m hm hidm
  have hma := (upFree_of_desc hI hua hm (fun _ _ hx => hx.elim)).1
  have : m = n := att_inj hma hna hidm
  subst this
  cases hm with
  | refl => exact hnu rfl
  | @step q' _ hd' hkq =>
    have hq' := (upFree_of_desc hI hua hd' (fun _ _ hx => hx.elim)).1
    obtain ⟨e, he, he1⟩ := (mem_kidList_iff _ _).mp hkq
    obtain ⟨_, b1, _, _⟩ := hI.down' q' hq' e he
    rw [he1] at b1
    unfold LState.parent at hnroot
    rw [b1] at hnroot; simp only at hnroot
    unfold Att at hq'; rw [hq'] at hnroot; cases hnroot

/-- the receiver has a parent -/
theorem rwith_rollback_parent {s s' : LState} {u p n fuel : Nat} (hI : Inv Hc s)
    (hpar : s.parent u = some p) (hsub : s.isAttachedSubtree n = false) (hnu : n ≠ u)
    (h : replaceWith Hc fuel s u (some n) = (s', .error .replaceWithError)) : Frame s s' := by
  have hua : Att s u := by
    unfold LState.parent at hpar
    cases hk : (s.obj u).pid with
    | none => rw [hk] at hpar; cases hpar
    | some k => exact (hI.noDangling u k hk).1
  obtain ⟨f, hf, _⟩ := hI.up u hua p hpar
  have hnroot : Att s n → s.parent n = none := by
    intro ha
    unfold LState.isAttachedSubtree at hsub
    cases hp : s.parent n with
    | none => rfl
    | some q => simp [hp, (detached_eq_false_iff s n).mpr ha] at hsub
  unfold replaceWith at h
  simp only [hsub, Bool.false_eq_true, if_false, hpar, hf] at h
  split at h
  · simp at h
  · split at h
    · -- type violation: nothing was touched
      simp only [Prod.mk.injEq] at h; rw [← h.1]; exact Frame.refl _
    · cases hds : detachGo (fuel + 1) false (s.clearParent u) u with
      | mk t2 r2 =>
        rw [hds] at h
        cases r2 with
        | none => simp at h
        | some b =>
          simp only at h
          cases hat : attach Hc fuel (takeOver t2 u n).1 n with
          | mk s3 r3 =>
            rw [hat] at h
            cases r3 with
            | ok x =>
              exfalso
              cases x
              simp only at h
              split at h <;> simp at h
            | error e =>
              simp only at h
              have hs3 := attach_fail_frame Hc _ _ _ _ _ hat
              rw [hs3] at h
              cases hat2 : attach Hc fuel (((takeOver t2 u n).1.modify n fun x =>
                  { x with id := (t2.obj n).id, origId := (t2.obj n).origId }).setParent u p f (s.obj u).pindex) u with
              | mk s7 r7 =>
                rw [hat2] at h
                cases r7 with
                | error e' =>
                  exfalso
                  simp only [Prod.mk.injEq, Except.error.injEq] at h
                  rcases attach_err_kind Hc hat2 with h1 | h1 | h1 <;>
                    rcases attach_err_kind Hc hat with h2 | h2 | h2 <;> simp [h1, h2] at h
                | ok x =>
                  cases x
                  simp only [Prod.mk.injEq, Except.error.injEq] at h
                  obtain ⟨rfl, _⟩ := h
                  have hS : Shrinks (s.clearParent u) t2 := by
                    have := (detachGo_facts (fuel + 1) false (s.clearParent u) u b (by rw [hds])).shr
                    rwa [hds] at this
                  have hobj := takeOver_restore_obj t2 u n
                  have hlk := takeOver_restore_lookup t2 u n
                  have hid2 : ∀ x, t2.idOf x = s.idOf x := by intro x; rw [hS.id_eq, clearParent_idOf]
                  have hnatt2 : t2.detached n = false → Att s n := fun h =>
                    (att_clearParent_iff s u n).mp (hS.att ((detached_eq_false_iff t2 n).mp h))
                  let kn : Option Str := if t2.detached n = false then some (t2.idOf n) else none
                  -- the record of the receiver is what it was: its parent slots have been restored
                  have h6u : ((((takeOver t2 u n).1.modify n fun x =>
                      { x with id := (t2.obj n).id, origId := (t2.obj n).origId }).setParent u p f
                        (s.obj u).pindex).obj u) = s.obj u := by
                    rw [setParent_obj]; simp only [if_true]
                    rw [hobj]
                    have hsame : SameButParent (t2.obj u) (s.obj u) := by
                      rcases hS.obj u with h1 | h1 <;> rw [h1, clearParent_obj'] <;> simp only [if_true]
                      · exact sameButParent_clearP _
                      · exact SameButParent.trans (sameButParent_clearP _) (sameButParent_clearP _)
                    unfold LState.parent at hpar
                    cases hk : (s.obj u).pid with
                    | none => rw [hk] at hpar; cases hpar
                    | some k =>
                      rw [hk] at hpar
                      obtain ⟨_, hpid⟩ := hI.regSound k p hpar
                      apply eq_of_sameButParent
                      · exact SameButParent.trans (sameButParent_setSlots _ _ _ _) hsame
                      · show some _ = _
                        rw [hk]
                        congr 1
                        unfold LState.idOf; rw [hobj]; exact (hid2 p).trans hpid
                      · show some f = _; rw [hf]
                      · rfl
                  have hfr := reattach_frame Hc (t1 := s.clearParent u) (kn := kn) hI hua (fun _ => rfl)
                    (fun x hx => by rw [clearParent_obj']; simp [hx])
                    (by rw [clearParent_obj']; simp only [if_true]; exact sameButParent_clearP _) hds
                    (fun x hx => by rw [setParent_obj]; simp only [hx, if_false]; exact hobj x) h6u
                    (by
                      intro k
                      rw [setParent_lookup, hlk]
                      by_cases hc : t2.detached n = false ∧ t2.idOf n = k
                      · right; simp only [hc, and_self, if_true, true_and]; show some k = kn; simp [kn, hc.1, hc.2]
                      · left; simp [hc])
                    (by
                      intro k hk m hm
                      have hnd2 : t2.detached n = false := by cases hh : t2.detached n <;> simp_all [kn]
                      have hk' : t2.idOf n = k := by simp [kn, hnd2] at hk; exact hk
                      have hna := hnatt2 hnd2
                      rw [← hk', hid2]
                      exact root_not_desc Hc hI hua hnu hna (hnroot hna) m hm)
                    hat2
                  obtain ⟨f1, f2, f3⟩ := hfr
                  by_cases hnd2 : t2.detached n = true
                  · have hto : (takeOver t2 u n).2 = false := by unfold takeOver; simp [hnd2]
                    simp only [hto, Bool.false_eq_true, if_false]
                    refine ⟨fun k => f2 k ?_, fun v _ => f1 v⟩
                    simp [kn, hnd2]
                  · have hnd2' : t2.detached n = false := by cases hh : t2.detached n <;> simp_all
                    have hto : (takeOver t2 u n).2 = true := by unfold takeOver; simp [hnd2']
                    simp only [hto, if_true]
                    refine ⟨fun k => ?_, fun v _ => by rw [register_obj]; exact f1 v⟩
                    rw [register_lookup]
                    have hidn : s7.idOf n = s.idOf n := by unfold LState.idOf; rw [f1]
                    rw [hidn]
                    by_cases hk : s.idOf n = k
                    · simp only [hk, if_true]; rw [← hk]; exact (hnatt2 hnd2').symm
                    · simp only [hk, if_false]
                      exact f2 k (by simp [kn, hnd2', hid2]; exact fun e => hk e.symm)

/-- **`replace_with` rejected (`ASTNodeReplaceWithError`)**, for whatever reason -- a pre-check, or the new
node cannot be attached (registry / parent collision anywhere in its subtree): the receiver, its whole
subtree, the new node and the registry are exactly what they were -/
theorem fail_frame_rwith {s s' : LState} {u : Nat} {new : Option Nat} (hI : Inv Hc s)
    (h : step H Hc s (.rwith u new) = (s', .raised .replaceWithError)) : Frame s s' := by
  unfold step at h
  split at h
  · cases h
  · simp only at h
    cases hrw : replaceWith Hc (fuelOf s) s u new with
    | mk s1 r1 =>
      rw [hrw] at h
      cases r1 with
      | ok x => cases x; simp [ofUnit] at h
      | error e =>
        simp only [ofUnit, Prod.mk.injEq, LOut.raised.injEq] at h
        obtain ⟨rfl, rfl⟩ := h
        by_cases hpre : rwithPrecheckFails s u new = true
        · have := fail_frame_rwith_precheck Hc (fuel := fuelOf s) hpre
          rw [hrw] at this; simp only at this; rw [this]; exact Frame.refl _
        · -- the pre-checks passed: only `new = some n` can still be rejected
          cases new with
          | none =>
            exfalso
            unfold replaceWith at hrw
            simp only [Bool.false_eq_true, if_false] at hrw
            unfold rwithPrecheckFails at hpre
            simp only [Bool.false_or] at hpre
            cases hp : s.parent u with
            | none =>
              rw [hp] at hrw; simp only at hrw
              split at hrw <;> simp at hrw
            | some p =>
              rw [hp] at hrw hpre; simp only at hrw hpre
              cases hf : (s.obj u).pfield with
              | none => rw [hf] at hpre; simp at hpre
              | some f =>
                rw [hf] at hrw hpre; simp only at hrw hpre
                cases hfl : (s.obj p).fields.find? (·.name = f) with
                | none => rw [hfl] at hpre; simp at hpre
                | some fl =>
                  rw [hfl] at hrw hpre; simp only at hrw hpre
                  have : (!(decide (fl.kind = FKind.opt) || fl.kind.isSeq)) = false := by
                    cases hh : (!(decide (fl.kind = FKind.opt) || fl.kind.isSeq)) <;> simp_all
                  simp only [this, Bool.false_eq_true, if_false] at hrw
                  split at hrw
                  · simp at hrw
                  · split at hrw <;> simp at hrw
          | some n =>
            have hsub : s.isAttachedSubtree n = false := by
              unfold rwithPrecheckFails at hpre
              cases hh : s.isAttachedSubtree n <;> simp_all
            cases hp : s.parent u with
            | none => exact rwith_rollback_root Hc hI hp hsub hrw
            | some p =>
              have hnu : n ≠ u := by
                intro e; subst e
                have hua : Att s n := by
                  unfold LState.parent at hp
                  cases hk : (s.obj n).pid with
                  | none => rw [hk] at hp; cases hp
                  | some k => exact (hI.noDangling n k hk).1
                simp [LState.isAttachedSubtree, hp, (detached_eq_false_iff s n).mpr hua] at hsub
              exact rwith_rollback_parent Hc hI hp hsub hnu hrw

/-! ### a rejected `duplicate` -/

/-- **`duplicate` rejected** (at any depth of the recursion, clone or not): every pre-existing record is
untouched, every pre-existing registry entry is kept, and an additional entry can only belong to an object
created by the rejected call (an already duplicated child: nothing refers to it, so with the weak registry
it is gone when the call returns -- `gcNew` in Handle/Legacy.lean) -/
theorem fail_frame_dup {s s' : LState} {u : Nat} {clone : Bool} {e : Err} (hI : Inv Hc s)
    (h : step H Hc s (.dup u clone) = (s', .raised e)) :
    (∀ v, v < s.size → s'.obj v = s.obj v) ∧ (∀ k v, s.lookup k = some v → s'.lookup k = some v) ∧
    (∀ k v, s'.lookup k = some v → s.lookup k = some v ∨ s.size ≤ v) := by
  unfold step at h
  split at h
  · cases h; exact ⟨fun _ _ => rfl, fun _ _ h => h, fun _ _ h => .inl h⟩
  · next hr =>
    simp only at h
    have hlt := C18.refs_lt (by simpa using hr)
    cases hd : duplicate H Hc (2 * fuelOf s) clone (fuelOf s) s u with
    | mk s1 r1 =>
      rw [hd] at h
      cases r1 with
      | ok n => simp [ofNode] at h
      | error e' =>
        simp only [ofNode, Prod.mk.injEq] at h
        obtain ⟨rfl, _⟩ := h
        obtain ⟨⟨_, hN, _⟩, _⟩ := duplicate_all H Hc _ _ _ s u s1 _ hI (NewOnly.refl s)
          (hlt u (by simp [LOp.refs])) hd
        exact ⟨hN.obj, hN.keep, hN.fresh⟩

/-! ### non-vacuity: every theorem is applied to a concrete rejected call -/
section examples
open PyOak.Legacy.Ex PyOak.Legacy.C18

/-- two leaves, a tuple over the first, a unary node over the second -/
def base : List LOp := [.new (leaf "1"), .new (leaf "2"), .new (tup [0]), .new (un 1)]

theorem inv_base : Inv id (st base) := inv_run_init_partial id id base (by decide)

theorem mk_eq {α β : Type} (p : α × β) (b : β) (h : p.2 = b) : p = (p.1, b) := by
  cases p; simp_all

-- constructor rejected: the same child twice / a child attached elsewhere
example : outOf base (.new (tup [0, 0])) = .raised .dupChildren := by decide
example : Frame (st base) (step id id (st base) (.new (tup [0, 0]))).1 :=
  (fail_frame_new id id (s := st base) (sp := tup [0, 0]) (e := .dupChildren) (mk_eq _ _ (by decide))).2
example : outOf base (.new (tup [2, 1])) = .raised .parentCollision := by decide
example : Frame (st base) (step id id (st base) (.new (tup [2, 1]))).1 :=
  (fail_frame_new id id (s := st base) (sp := tup [2, 1]) (e := .parentCollision) (mk_eq _ _ (by decide))).2
-- attach rejected: the tree 3 -> 1 is detached; node 1 is then taken by a new parent
def base2 : List LOp := base ++ [.detach 3 false, .new (tup [1])]
example : outOf base2 (.attach 3) = .raised .parentCollision := by decide
example : (step id id (st base2) (.attach 3)).1 = st base2 :=
  fail_frame_attach id id (s := st base2) (u := 3) (e := .parentCollision) (mk_eq _ _ (by decide))
-- detach of something that does not exist
example : outOf base (.detach 9 false) = .raised .badRequest := by decide
example := detach_never_rejected id id (s := st base) (u := 9) (os := false) (e := .badRequest) (mk_eq _ _ (by decide))
-- replace: forbidden key; duplicate children (receiver 2 = attached root with a child)
example := fail_frame_replace_keys id id (s := st base) (u := 2) (ch := ⟨[], [], true⟩) rfl
example : outOf base (.replace 2 ⟨[], [("items".toList, [0, 0])], false⟩) = .raised .dupChildren := by decide
example : Frame (st base) (step id id (st base) (.replace 2 ⟨[], [("items".toList, [0, 0])], false⟩)).1 :=
  fail_frame_replace id id (s := st base) (u := 2) (ch := ⟨[], [("items".toList, [0, 0])], false⟩)
    (e := .dupChildren) inv_base (mk_eq _ _ (by decide)) (by decide)
-- replace on a receiver WITH a parent (node 3 under node 4), rejected for a parent collision (child 0 sits in 2)
def base3 : List LOp := base ++ [.new (un 3)]
example : outOf base3 (.replace 3 ⟨[], [("arg".toList, [0])], false⟩) = .raised .parentCollision := by decide
example : Frame (st base3) (step id id (st base3) (.replace 3 ⟨[], [("arg".toList, [0])], false⟩)).1 :=
  fail_frame_replace id id (s := st base3) (u := 3) (ch := ⟨[], [("arg".toList, [0])], false⟩)
    (e := .parentCollision) (inv_run_init_partial id id _ (by decide)) (mk_eq _ _ (by decide)) (by decide)
-- replace_with a node that has a parent; None for a required field
example : rwithPrecheckFails (st base) 2 (some 1) = true := by decide
example : (replaceWith id 9 (st base) 2 (some 1)).1 = st base := fail_frame_rwith_precheck id (by decide)
example : rwithPrecheckFails (st base) 1 none = true := by decide
example : (replaceWith id 9 (st base) 1 none).1 = st base := fail_frame_rwith_precheck id (by decide)

-- replace_with a node that cannot be attached (its child 0 sits in node 2): the receiver's subtree is
-- detached and re-attached by the roll-back -- receiver a root (3) / a child (1)
def base4 : List LOp := base ++ [.new (un 0 true)]
example : outOf base4 (.rwith 3 (some 4)) = .raised .replaceWithError := by decide
example : Frame (st base4) (step id id (st base4) (.rwith 3 (some 4))).1 :=
  fail_frame_rwith id id (s := st base4) (u := 3) (new := some 4) (inv_run_init_partial id id _ (by decide))
    (mk_eq _ _ (by decide))
example : outOf base4 (.rwith 1 (some 4)) = .raised .replaceWithError := by decide
example : Frame (st base4) (step id id (st base4) (.rwith 1 (some 4))).1 :=
  fail_frame_rwith id id (s := st base4) (u := 1) (new := some 4) (inv_run_init_partial id id _ (by decide))
    (mk_eq _ _ (by decide))

-- duplicate of something that does not exist
example := fail_frame_dup id id (s := st base) (u := 9) (clone := false) (e := .badRequest) inv_base
  (mk_eq _ _ (by decide))

end examples

end PyOak.Legacy.C19
