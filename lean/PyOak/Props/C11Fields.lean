/-
C11, "each dataclass field lands in exactly one class": the annotation model (`Annot`, C11) against the
accessor model (`Acc`, C12).

* `addField_cons_ne`, `addField_cons_eq`, `dictSet_map`   one write into the field dict: `Annot.addField` (replace
  EVERY entry of that name) and `Acc.dictSet` (replace the FIRST entry) agree on a dict with distinct names —
  and only there: `addField_dictSet_differ`
* `resolve_eq_effective`   the two models of `dataclasses.fields` are EQUAL on every chain (both start from the
  empty dict, and distinctness of names is an invariant): `Acc.resolve (levels mapped by g) = (Annot.effective
  levels).map g` for every name-preserving `g`
* `classDecl_fields`       `dataclasses.fields` of the accessor-model class of a chain, `ASTNode`'s own fields included
* `fkind_*`                the stored kind against the verdict / the shape
* `field_lands_in_exactly_one`   for an accepted class: the field names of the accessor model are those of the
  outcome `vs` of the annotation model; the child-field table holds exactly the fields with verdict `.child`, the
  property table exactly those with verdict `.prop`, in dataclass order; every field is in one of the two tables
  and none is in both (disjoint + exhaustive)
* `field_lands_in_exactly_one_of_passed`   the same for a class whose definition-time check passes
-/
import PyOak.Model.AnnotAcc
import PyOak.Props.C11Class
import PyOak.Props.C12Fields
namespace PyOak
namespace C11
open Annot Annot.Ty

/-! ### the two models of `dataclasses.fields` -/

theorem addField_cons_ne (a f : Field) (r : List Field) (h : a.name ≠ f.name) :
    addField (a :: r) f = a :: addField r f := by
  have hb : (a.name == f.name) = false := by simpa using h
  unfold addField
  simp only [List.any_cons, hb, Bool.false_or]
  split
  · simp [h]
  · rfl

theorem addField_cons_eq (a f : Field) (r : List Field) (h : a.name = f.name)
    (hnd : ∀ x ∈ r, x.name ≠ a.name) : addField (a :: r) f = f :: r := by
  unfold addField
  simp only [List.any_cons, h, beq_self_eq_true, Bool.true_or, if_true, List.map_cons]
  congr 1
  conv => rhs; rw [← List.map_id r]
  apply List.map_congr_left
  intro x hx
  have : (x.name == f.name) = false := by
    have := hnd x hx
    rw [h] at this
    simpa using this
  simp [this]

/-- one write into the field dict: the two step functions agree when the names in the dict are distinct -/
theorem dictSet_map (g : Field → Acc.FDecl) (hg : ∀ f, (g f).name = f.name) (acc : List Field) (f : Field)
    (hnd : (acc.map (·.name)).Nodup) :
    Acc.dictSet (acc.map g) (g f) = (addField acc f).map g := by
  induction acc with
  | nil => simp [Acc.dictSet, addField]
  | cons a r ih =>
    simp only [List.map_cons, List.nodup_cons, List.mem_map, not_exists, not_and] at hnd
    simp only [List.map_cons, Acc.dictSet, hg]
    by_cases h : a.name = f.name
    · rw [if_pos h, addField_cons_eq a f r h (fun x hx e => hnd.1 x hx e)]
      rfl
    · rw [if_neg h, addField_cons_ne a f r h, ih hnd.2]
      rfl

/-- … and differ on a dict that holds a name twice (which `dataclasses` never builds) -/
theorem addField_dictSet_differ :
    ∃ (acc : List Field) (f : Field),
      (addField acc f).map (toDecl stdAttrs) ≠ Acc.dictSet (acc.map (toDecl stdAttrs)) (toDecl stdAttrs f) :=
  ⟨[⟨['x'], .atom .int⟩, ⟨['x'], .node 0⟩], ⟨['x'], .atom .str⟩, by decide⟩

theorem foldl_dictSet_map (g : Field → Acc.FDecl) (hg : ∀ f, (g f).name = f.name) (lvl acc : List Field)
    (hnd : (acc.map (·.name)).Nodup) :
    (lvl.map g).foldl Acc.dictSet (acc.map g) = (lvl.foldl addField acc).map g := by
  induction lvl generalizing acc with
  | nil => rfl
  | cons f r ih =>
    simp only [List.map_cons, List.foldl_cons]
    rw [dictSet_map g hg acc f hnd, ih _ (addField_nodup acc f hnd)]

/-- `Acc.resolve` and `Annot.effective` are the same function of the declarations: the two models of
`dataclasses.fields` coincide on every chain, for every reading `g` of a field that keeps its name -/
theorem resolve_eq_effective (g : Field → Acc.FDecl) (hg : ∀ f, (g f).name = f.name) (ls : List Level) :
    Acc.resolve (ls.map fun lvl => lvl.map g) = (effective ls).map g := by
  unfold Acc.resolve effective
  suffices ∀ acc : List Field, (acc.map (·.name)).Nodup →
      (ls.map fun lvl => lvl.map g).foldl (fun acc lvl => lvl.foldl Acc.dictSet acc) (acc.map g) =
        (ls.foldl (fun acc lvl => lvl.foldl addField acc) acc).map g from this [] List.nodup_nil
  induction ls with
  | nil => intro acc _; rfl
  | cons lvl r ih =>
    intro acc hnd
    simp only [List.map_cons, List.foldl_cons]
    rw [foldl_dictSet_map g hg lvl acc hnd, ih _ (foldl_addField_nodup lvl acc hnd)]

theorem toDecl_name (attrs : Field → Bool × Bool × Bool) (f : Field) : (toDecl attrs f).name = f.name := rfl

/-- `dataclasses.fields(cls)` in the accessor model = the effective fields of the annotation model (the level of
`ASTNode` first), read through `toDecl` -/
theorem classDecl_fields (attrs : Field → Bool × Bool × Bool)
    (hbase : baseLevel.map (toDecl attrs) = Acc.baseFields) (ls : List Level) :
    (classDecl attrs ls).fields = (effective (baseLevel :: ls)).map (toDecl attrs) := by
  rw [← resolve_eq_effective (toDecl attrs) (toDecl_name attrs)]
  simp only [Acc.ClassDecl.fields, classDecl, List.map_cons, hbase]

theorem stdAttrs_base : baseLevel.map (toDecl stdAttrs) = Acc.baseFields := by decide

/-! ### the stored kind -/

theorem fkind_none_iff (t : Ty) : fkind t = Option.none ↔ classify t = .reject := by
  unfold fkind; cases classify t <;> simp

theorem fkind_prop_iff (t : Ty) : fkind t = some .prop ↔ classify t = .prop := by
  unfold fkind; cases classify t <;> simp
  split <;> simp

theorem fkind_child_iff (t : Ty) :
    (fkind t = some .childOne ∨ fkind t = some .childTuple) ↔ classify t = .child := by
  unfold fkind; cases classify t <;> simp

theorem isTupleType_iff (t : Ty) : t.unwrap.isTupleType = true ↔ (IsTuple t ∨ ∃ k a, t.unwrap = .coll k a) := by
  unfold IsTuple
  cases h : t.unwrap <;> simp [isTupleType]

theorem childShape_unwrap {t : Ty} (h : ChildShape t) : ChildShape t.unwrap := by
  induction h with
  | one h =>
    induction h with
    | node c => exact .one (.node c)
    | fwd c => exact .one (.fwd c)
    | newtype _ ih => simpa [unwrap] using ih
  | union h1 h2 => exact .union h1 h2
  | vtuple h => exact .vtuple h
  | tuple h1 h2 => exact .tuple h1 h2
  | newtype _ ih => simpa [unwrap] using ih

/-- a child field is stored as a tuple field (`is_collection`) exactly when its annotation is a tuple, possibly
behind NewTypes — then the generated accessors iterate it; otherwise they test it against None -/
theorem fkind_tuple_iff (t : Ty) : fkind t = some .childTuple ↔ (ChildShape t ∧ IsTuple t) := by
  rw [← classify_child_iff]
  unfold fkind
  cases hc : classify t
  · have hcs : ChildShape t := (classify_child_iff t).1 hc
    simp only [Option.some.injEq, true_and]
    constructor
    · intro h
      split at h
      · rename_i ht
        rcases (isTupleType_iff t).1 ht with h1 | ⟨k, a, hka⟩
        · exact h1
        · -- a child-shaped annotation that unwraps to a container unwraps to a tuple
          have := childShape_unwrap hcs
          rw [hka] at this
          obtain ⟨rfl, _, _⟩ := childShape_coll this
          exact .inr ⟨a, hka⟩
      · cases h
    · intro h
      have ht : t.unwrap.isTupleType = true := (isTupleType_iff t).2 (.inl h)
      simp [ht]
  · simp
  · simp

/-! ### the two tables of an accepted class -/

theorem nodup_fst_inj {α β : Type} {l : List (α × β)} (h : (l.map (·.1)).Nodup) {p q : α × β}
    (hp : p ∈ l) (hq : q ∈ l) (e : p.1 = q.1) : p = q := by
  induction l with
  | nil => cases hp
  | cons a r ih =>
    simp only [List.map_cons, List.nodup_cons, List.mem_map, not_exists, not_and] at h
    rcases List.mem_cons.1 hp with hp1 | hp1 <;> rcases List.mem_cons.1 hq with hq1 | hq1
    · rw [hp1, hq1]
    · rw [hp1] at e; exact absurd e.symm (h.1 q hq1)
    · rw [hq1] at e; exact absurd e (h.1 p hp1)
    · exact ih h.2 hp1 hq1

theorem filter_map_names (E : List Field) (attrs : Field → Bool × Bool × Bool) (p : Acc.FDecl → Bool)
    (v : Verdict) (h : ∀ f ∈ E, p (toDecl attrs f) = (classify f.ty == v)) :
    (((E.map (toDecl attrs)).filter p).map Acc.FDecl.name) =
      ((E.map fun f => (f.name, classify f.ty)).filter (·.2 == v)).map (·.1) := by
  induction E with
  | nil => rfl
  | cons f r ih =>
    have hf := h f List.mem_cons_self
    have ih' := ih fun x hx => h x (List.mem_cons_of_mem _ hx)
    simp only [List.map_cons, List.filter_cons, hf]
    cases hv : (classify f.ty == v)
    · simpa using ih'
    · simp only [if_true, List.map_cons, toDecl_name]
      rw [ih']

/-- "each dataclass field lands in exactly one class": for a class that the annotation model accepts with
outcome `vs`, the accessor model (built from the same declarations) has
* the same fields in the same order,
* as child-field table exactly the fields `vs` gives the verdict `.child`, in that order,
* as property table exactly the fields `vs` gives the verdict `.prop`, in that order,
and every field is in one of the two tables, none in both -/
theorem field_lands_in_exactly_one (attrs : Field → Bool × Bool × Bool)
    (hbase : baseLevel.map (toDecl attrs) = Acc.baseFields) (ls : List Level) (vs : List (Str × Verdict))
    (h : classOutcome (baseLevel :: ls) = some vs) :
    (classDecl attrs ls).fields.map Acc.FDecl.name = vs.map (·.1) ∧
    (classDecl attrs ls).childFields.map Acc.FDecl.name = (vs.filter (·.2 == .child)).map (·.1) ∧
    (classDecl attrs ls).props.map Acc.FDecl.name = (vs.filter (·.2 == .prop)).map (·.1) ∧
    (∀ f ∈ effective (baseLevel :: ls), fkind f.ty = some (toDecl attrs f).kind) ∧
    (∀ n ∈ (classDecl attrs ls).fields.map Acc.FDecl.name,
      (n ∈ (classDecl attrs ls).childFields.map Acc.FDecl.name ∨
        n ∈ (classDecl attrs ls).props.map Acc.FDecl.name) ∧
      ¬ (n ∈ (classDecl attrs ls).childFields.map Acc.FDecl.name ∧
        n ∈ (classDecl attrs ls).props.map Acc.FDecl.name)) := by
  have hvs := (classOutcome_some _ vs h).1
  have hcp := (classOutcome_some _ vs h).2
  have hnd := (fields_partition _ vs h).2
  have hacc : ∀ f ∈ effective (baseLevel :: ls), classify f.ty = .child ∨ classify f.ty = .prop := by
    intro f hf
    exact hcp (f.name, classify f.ty) (by rw [hvs]; exact List.mem_map.2 ⟨f, hf, rfl⟩)
  have hkind : ∀ f ∈ effective (baseLevel :: ls), fkind f.ty = some (toDecl attrs f).kind := by
    intro f hf
    simp only [toDecl]
    rcases hacc f hf with hc | hc <;> simp [fkind, hc]
  have hfields := classDecl_fields attrs hbase ls
  have h1 : (classDecl attrs ls).fields.map Acc.FDecl.name = vs.map (·.1) := by
    rw [hfields, hvs, List.map_map, List.map_map]; rfl
  have h2 : (classDecl attrs ls).childFields.map Acc.FDecl.name = (vs.filter (·.2 == .child)).map (·.1) := by
    rw [Acc.C12.childFields_eq, hfields, hvs]
    apply filter_map_names
    intro f hf
    have hk := hkind f hf
    simp only [Acc.FDecl.isChild]
    rcases hacc f hf with hc | hc
    · have : (toDecl attrs f).kind ≠ .prop := by
        intro e; rw [e] at hk; rw [(fkind_prop_iff _).1 hk] at hc; cases hc
      simp [hc, this]
    · have : (toDecl attrs f).kind = .prop := by
        have := (fkind_prop_iff _).2 hc; rw [this] at hk; exact (Option.some.inj hk).symm
      simp [hc, this]
  have h3 : (classDecl attrs ls).props.map Acc.FDecl.name = (vs.filter (·.2 == .prop)).map (·.1) := by
    rw [Acc.C12.props_eq, hfields, hvs]
    apply filter_map_names
    intro f hf
    have hk := hkind f hf
    simp only [Acc.FDecl.isProp]
    rcases hacc f hf with hc | hc
    · have : (toDecl attrs f).kind ≠ .prop := by
        intro e; rw [e] at hk; rw [(fkind_prop_iff _).1 hk] at hc; cases hc
      simp [hc, this]
    · have : (toDecl attrs f).kind = .prop := by
        have := (fkind_prop_iff _).2 hc; rw [this] at hk; exact (Option.some.inj hk).symm
      simp [hc, this]
  refine ⟨h1, h2, h3, hkind, ?_⟩
  intro n hn
  rw [h2, h3]
  rw [h1] at hn
  obtain ⟨p, hp, rfl⟩ := List.mem_map.1 hn
  constructor
  · rcases hcp p hp with hc | hc
    · exact .inl (List.mem_map.2 ⟨p, List.mem_filter.2 ⟨hp, by simp [hc]⟩, rfl⟩)
    · exact .inr (List.mem_map.2 ⟨p, List.mem_filter.2 ⟨hp, by simp [hc]⟩, rfl⟩)
  · rintro ⟨ha, hb⟩
    obtain ⟨q, hq, hq1⟩ := List.mem_map.1 ha
    obtain ⟨r, hr, hr1⟩ := List.mem_map.1 hb
    have hq' := List.mem_filter.1 hq
    have hr' := List.mem_filter.1 hr
    have e : q = r := nodup_fst_inj hnd hq'.1 hr'.1 (hq1.trans hr1.symm)
    subst e
    have e1 : q.2 = .child := by simpa using hq'.2
    have e2 : q.2 = .prop := by simpa using hr'.2
    rw [e1] at e2; cases e2

/-- the same for a class whose definition-time check passes (the hypothesis the property names) -/
theorem field_lands_in_exactly_one_of_passed (attrs : Field → Bool × Bool × Bool)
    (hbase : baseLevel.map (toDecl attrs) = Acc.baseFields) (ls : List Level)
    (h : defCheck (baseLevel :: ls) = .passed) :
    ∃ vs, classOutcome (baseLevel :: ls) = some vs ∧
    (classDecl attrs ls).fields.map Acc.FDecl.name = vs.map (·.1) ∧
    (classDecl attrs ls).childFields.map Acc.FDecl.name = (vs.filter (·.2 == .child)).map (·.1) ∧
    (classDecl attrs ls).props.map Acc.FDecl.name = (vs.filter (·.2 == .prop)).map (·.1) ∧
    (∀ n ∈ (classDecl attrs ls).fields.map Acc.FDecl.name,
      (n ∈ (classDecl attrs ls).childFields.map Acc.FDecl.name ∨
        n ∈ (classDecl attrs ls).props.map Acc.FDecl.name) ∧
      ¬ (n ∈ (classDecl attrs ls).childFields.map Acc.FDecl.name ∧
        n ∈ (classDecl attrs ls).props.map Acc.FDecl.name)) := by
  have hv := defCheck_passed_accepts _ h
  rw [← classOutcome_eq] at hv
  obtain ⟨a, b, c, _, e⟩ := field_lands_in_exactly_one attrs hbase ls _ hv
  exact ⟨_, hv, a, b, c, e⟩

/-! ### non-vacuity -/

example : classOutcome (baseLevel :: [[⟨['k'], .vtuple (.node 0)⟩, ⟨['v'], .atom .int⟩],
      [⟨['v'], .union (.node 1) [.none]⟩]]) =
    some [(Acc.nmId, .prop), (Acc.nmContentId, .prop), (Acc.nmOrigin, .prop), (['k'], .child), (['v'], .child)] := by
  decide
example : ((classDecl stdAttrs [[⟨['k'], .vtuple (.node 0)⟩, ⟨['v'], .atom .int⟩],
      [⟨['v'], .union (.node 1) [.none]⟩]]).childFields.map fun d => (d.name, d.kind)) =
    [(['k'], .childTuple), (['v'], .childOne)] := by decide
example : defCheck (baseLevel :: [[⟨['k'], .vtuple (.node 0)⟩, ⟨['v'], .atom .int⟩]]) = .passed := by decide
example : fkind (.newtype (.coll .tuple [.node 0, .node 1])) = some .childTuple ∧
    fkind (.union (.node 0) [.none]) = some .childOne ∧ fkind (.coll .list []) = Option.none := by decide

end C11
end PyOak
