/-
C14 — `duplicate` and `replace` produce faithful, independent copies (on the registry machine).
-/
import PyOak.Props.C03
namespace PyOak
namespace C14
open RState RegL C03

/-! ### structural copies -/

inductive Forall₂ {α β : Type} (R : α → β → Prop) : List α → List β → Prop
  | nil : Forall₂ R [] []
  | cons {a b l1 l2} : R a b → Forall₂ R l1 l2 → Forall₂ R (a :: l1) (b :: l2)

/-- `isCopy s n a b`: `b` has the class of `a` and its children are, position by position, copies
of the children of `a` (down to depth `n`, the fuel of `dupAux`) -/
def isCopy (s : RState) : Nat → Nat → Nat → Prop
  | 0, _, _ => False
  | n + 1, a, b => ∃ oa ob, s.obj? a = some oa ∧ s.obj? b = some ob ∧ ob.cls = oa.cls ∧ ob.mro = oa.mro ∧
      Forall₂ (isCopy s n) oa.kids ob.kids

theorem forall₂_imp {α β : Type} {R S : α → β → Prop} (h : ∀ a b, R a b → S a b) :
    ∀ {l1 : List α} {l2 : List β}, Forall₂ R l1 l2 → Forall₂ S l1 l2
  | _, _, .nil => .nil
  | _, _, .cons hab t => .cons (h _ _ hab) (forall₂_imp h t)

theorem forall₂_snoc {α β : Type} {R : α → β → Prop} {a : α} {b : β} (hab : R a b) :
    ∀ {l1 : List α} {l2 : List β}, Forall₂ R l1 l2 → Forall₂ R (l1 ++ [a]) (l2 ++ [b])
  | _, _, .nil => .cons hab .nil
  | _, _, .cons h t => .cons h (forall₂_snoc hab t)

theorem forall₂_length {α β : Type} {R : α → β → Prop} :
    ∀ {l1 : List α} {l2 : List β}, Forall₂ R l1 l2 → l1.length = l2.length
  | _, _, .nil => rfl
  | _, _, .cons _ t => by simp [forall₂_length t]

theorem isCopy_mono {s s' : RState} (h : ∀ u o, s.obj? u = some o → s'.obj? u = some o) :
    ∀ (n a b : Nat), isCopy s n a b → isCopy s' n a b
  | 0, _, _, hc => hc.elim
  | n + 1, _, _, ⟨oa, ob, h1, h2, h3, h4, h5⟩ =>
    ⟨oa, ob, h _ _ h1, h _ _ h2, h3, h4, forall₂_imp (isCopy_mono h n) h5⟩

/-- records persist along an evolution without forced ids -/
theorem evol_obj_stable {K L : Nat → Prop} {C : Bool} {s f s1 f1} (hE : Evol K L false C s f s1 f1) (hI : Inv s)
    (hf : FreshOk s f) {u : Nat} {o : RObj} (h : s.obj? u = some o) : s1.obj? u = some o := by
  obtain ⟨hm, rfl⟩ := obj?_some h
  obtain ⟨ext, he⟩ := hE.heap_ext
  exact obj?_of_mem (evol_good hE hI hf).1.heapNodup (by rw [he]; exact List.mem_append_left _ hm)

theorem dup_copy : ∀ (fuel : Nat) (s : RState) (x : Nat) (fresh : Fresh) (s' : RState) (u : Nat) (fr : Fresh),
    Inv s → FreshOk s fresh → s.dupAux fuel x fresh = some (s', u, fr) → isCopy s' fuel x u
  | 0, s, x, fresh, s', u, fr, _, _, h => by simp [dupAux_zero] at h
  | fuel + 1, s, x, fresh, s', u, fr, hI, hf, h => by
    obtain ⟨o, s1, ks, base, ho, hfold, rfl⟩ := dupAux_inv h
    have key : ∀ (kids done : List Nat) (s0 : RState) (ks0 : List Nat) (f0 : Fresh)
        (res : RState × List Nat × Fresh), Inv s0 → FreshOk s0 f0 →
        Forall₂ (isCopy s0 fuel) done ks0 →
        dupFold fuel kids (some (s0, ks0, f0)) = some res →
        Inv res.1 ∧ FreshOk res.1 res.2.2 ∧ Forall₂ (isCopy res.1 fuel) (done ++ kids) res.2.1 ∧
        (∀ u o, s0.obj? u = some o → res.1.obj? u = some o) := by
      intro kids
      induction kids with
      | nil =>
        intro done s0 ks0 f0 res hI0 hf0 hd h
        simp [dupFold_nil] at h; subst h
        exact ⟨hI0, hf0, by simpa using hd, fun _ _ h => h⟩
      | cons c rest ih =>
        intro done s0 ks0 f0 res hI0 hf0 hd h
        obtain ⟨s1, c', fr1, hdup, hr⟩ := dupFold_cons_inv h
        have hE := dupAux_evol _ _ _ _ _ _ _ hdup
        obtain ⟨hI1, hf1⟩ := evol_good hE hI0 hf0
        have hc := dup_copy fuel s0 c f0 s1 c' fr1 hI0 hf0 hdup
        have hst : ∀ u o, s0.obj? u = some o → s1.obj? u = some o := fun u o => evol_obj_stable hE hI0 hf0
        have hd1 : Forall₂ (isCopy s1 fuel) (done ++ [c]) (ks0 ++ [c']) :=
          forall₂_snoc hc (forall₂_imp (isCopy_mono hst fuel) hd)
        obtain ⟨a1, a2, a3, a4⟩ := ih (done ++ [c]) s1 (ks0 ++ [c']) fr1 res hI1 hf1 hd1 hr
        exact ⟨a1, a2, by simpa using a3, fun u o h => a4 u o (hst u o h)⟩
    obtain ⟨hI1, hf1, hks, hst⟩ := key o.kids [] s [] fresh _ hI hf .nil hfold
    simp only [List.nil_append] at hks
    have hI2 := pNew_inv hI1 hf1.head o.cls o.mro base ks
    have hst2 : ∀ w ow, s1.obj? w = some ow → (s1.pNew u o.cls o.mro base ks).obj? w = some ow := by
      intro w ow hw
      obtain ⟨hm, rfl⟩ := obj?_some hw
      exact obj?_of_mem hI2.heapNodup (List.mem_append_left _ hm)
    refine ⟨o, { uid := u, cls := o.cls, mro := o.mro, base := base, id := s1.freshId base, kids := ks },
      hst2 _ _ (hst _ _ ho), ?_, rfl, rfl, forall₂_imp (isCopy_mono hst2 fuel) hks⟩
    exact obj?_of_mem (o := { uid := u, cls := o.cls, mro := o.mro, base := base, id := s1.freshId base, kids := ks })
      hI2.heapNodup (List.mem_append_right _ (List.mem_singleton.mpr rfl))

/-- every token consumed by an evolution is an object of the final state, registered under its id,
and that id was not a key of the original registry -/
theorem evol_tokens {K L : Nat → Prop} {C : Bool} {s f s1 f1} (hE : Evol K L false C s f s1 f1) :
    ∃ pre, f = pre ++ f1 ∧ (∀ e ∈ s.reg, e ∈ s1.reg) ∧
      ∀ t ∈ pre.map (·.1), ∃ o ∈ s1.heap, o.uid = t ∧ (o.id, t) ∈ s1.reg ∧ o.id ∉ s.reg.map (·.1) := by
  induction hE with
  | refl => exact ⟨[], rfl, fun e he => he, by intro t ht; simp at ht⟩
  | @new s1 tok base fr hE cls mro ks hk hl ih =>
    obtain ⟨p, hp, hreg0, htok⟩ := ih
    have hreg : (s1.pNew tok cls mro base ks).reg = s1.reg ++ [(s1.freshId base, tok)] :=
      regSet_of_free tok (RegL.freshId_free s1 base)
    refine ⟨p ++ [(tok, base)], by rw [hp]; simp, ?_, ?_⟩
    · intro e he; rw [hreg]; exact List.mem_append_left _ (hreg0 e he)
    · intro t ht
      simp only [List.map_append, List.mem_append, List.map_cons, List.map_nil, List.mem_singleton] at ht
      rcases ht with ht | rfl
      · obtain ⟨o, ho, h1, h2, h3⟩ := htok t ht
        exact ⟨o, List.mem_append_left _ ho, h1, by rw [hreg]; exact List.mem_append_left _ h2, h3⟩
      · refine ⟨_, List.mem_append_right _ (List.mem_singleton.mpr rfl), rfl, by rw [hreg]; simp, ?_⟩
        intro hm
        apply RegL.freshId_free s1 base
        obtain ⟨e, he, hk⟩ := List.mem_map.mp hm
        exact List.mem_map.mpr ⟨e, hreg0 e he, hk⟩
  | newForce hF => cases hF

/-- **duplicate**: the tokens consumed are new objects, each registered under an id that no
registered node of the original state uses; the result is one of them and is a structural copy
of the original (same class, children copied position by position). -/
theorem dup_fresh {s : RState} {fuel x : Nat} {fresh : Fresh} {s' : RState} {u : Nat} {fr : Fresh}
    (hI : Inv s) (hf : FreshOk s fresh) (h : s.dupAux fuel x fresh = some (s', u, fr)) :
    ∀ pre, fresh = pre ++ fr →
      (∀ t ∈ pre.map (·.1), t ∉ s.heap.map (·.uid) ∧
        ∃ o ∈ s'.heap, o.uid = t ∧ s'.regGet o.id = some t ∧ o.id ∉ s.reg.map (·.1)) ∧
      u ∈ pre.map (·.1) ∧ isCopy s' fuel x u := by
  intro pre hpre
  have hE := dupAux_evol _ _ _ _ _ _ _ h
  have hI' := (evol_good hE hI hf).1
  obtain ⟨p, hp, _, htok⟩ := evol_tokens hE
  have : pre = p := List.append_cancel_right (hpre.symm.trans hp)
  subst this
  refine ⟨?_, ?_, dup_copy _ _ _ _ _ _ _ hI hf h⟩
  · intro t ht
    refine ⟨hf.2 t (by rw [hpre]; simp only [List.map_append, List.mem_append]; exact Or.inl ht), ?_⟩
    obtain ⟨o, ho, h1, h2, h3⟩ := htok t ht
    exact ⟨o, ho, h1, rget_of_mem hI'.keysNodup h2, h3⟩
  · cases fuel with
    | zero => simp [dupAux_zero] at h
    | succ n =>
      obtain ⟨o, s1, ks, base, _, hfold, _⟩ := dupAux_inv h
      -- the last token consumed is `u`
      have key : ∀ (kids : List Nat) (s0 : RState) (ks0 : List Nat) (f0 : Fresh) (res : RState × List Nat × Fresh),
          dupFold n kids (some (s0, ks0, f0)) = some res → ∃ q, f0 = q ++ res.2.2 := by
        intro kids
        induction kids with
        | nil => intro s0 ks0 f0 res h; simp [dupFold_nil] at h; subst h; exact ⟨[], rfl⟩
        | cons c rest ih =>
          intro s0 ks0 f0 res h
          obtain ⟨s1, c', fr1, hd, hr⟩ := dupFold_cons_inv h
          obtain ⟨q1, hq1⟩ := (dupAux_evol _ _ _ _ _ _ _ hd).suffix
          obtain ⟨q2, hq2⟩ := ih _ _ _ _ hr
          exact ⟨q1 ++ q2, by rw [hq1, hq2]; simp⟩
      obtain ⟨q, hq⟩ := key _ _ _ _ _ hfold
      have : pre = q ++ [(u, base)] := by
        apply List.append_cancel_right (bs := fr)
        rw [← hpre, hq]; simp
      rw [this]; simp

/-- the copies are independent objects: no consumed token is an object of the original state
(so no original node is shared with the copy) -/
theorem dup_independent {s : RState} {fuel x : Nat} {fresh : Fresh} {s' : RState} {u : Nat} {fr : Fresh}
    (hI : Inv s) (hf : FreshOk s fresh) (h : s.dupAux fuel x fresh = some (s', u, fr)) :
    u ∉ s.heap.map (·.uid) ∧ ∀ o ∈ s.heap, o ∈ s'.heap := by
  obtain ⟨p, hp⟩ := (dupAux_evol _ _ _ _ _ _ _ h).suffix
  obtain ⟨h1, h2, _⟩ := dup_fresh hI hf h p hp
  refine ⟨(h1 u h2).1, ?_⟩
  intro o ho
  obtain ⟨ext, he⟩ := (dupAux_evol _ _ _ _ _ _ _ h).heap_ext
  rw [he]; exact List.mem_append_left _ ho

/-! ### `replace` and `dataclasses.replace` -/

theorem nextUniqueFrom_congr {s s' : RState} (h : s.reg = s'.reg) (base : Str) :
    ∀ (fuel i : Nat), s.nextUniqueFrom base fuel i = s'.nextUniqueFrom base fuel i
  | 0, _ => rfl
  | fuel + 1, i => by
    have ih := nextUniqueFrom_congr h base fuel (i + 1)
    show (if (rget s.reg (suffixed base i)).isSome then _ else _) = (if (rget s'.reg (suffixed base i)).isSome then _ else _)
    rw [h, ih]

theorem freshId_congr {s s' : RState} (h : s.reg = s'.reg) (base : Str) : s.freshId base = s'.freshId base := by
  show (if (rget s.reg base).isSome then _ else _) = (if (rget s'.reg base).isSome then _ else _)
  rw [h, nextUniqueFrom_congr h base]

theorem step_replace_ok {s : RState} {v x : Nat} {kids : List Nat} {tok : Nat} {base : Str} {o : RObj}
    (hx : s.isLive x = true) (hk : kids.all s.isLive = true) (ho : s.obj? x = some o) :
    (s.step (.replace v x kids false [(tok, base)])).1 =
      (((s.pDetachSelf x).1.pNew tok o.cls o.mro base kids).bind v tok).gc := by
  simp [step, hx, hk, ho]

theorem step_dcReplace_ok {s : RState} {v x : Nat} {kids : List Nat} {tok : Nat} {base : Str} {o : RObj}
    (hx : s.isLive x = true) (hk : kids.all s.isLive = true) (ho : s.obj? x = some o) :
    (s.step (.dcReplace v x kids [(tok, base)])).1 = ((s.pNew tok o.cls o.mro base kids).bind v tok).gc := by
  simp [step, hx, hk, ho]

/-- **replace**: the original leaves the registry; the new node's id is the one `__post_init__`
computes in the registry *without* the original. -/
theorem replace_new_id {s : RState} (hI : Inv s) {v x : Nat} {kids : List Nat} {tok : Nat} {base : Str} {o : RObj}
    (hok : OpOk s (.replace v x kids false [(tok, base)]))
    (hx : s.isLive x = true) (hk : kids.all s.isLive = true) (ho : s.obj? x = some o)
    (hreg : s.regGet (s.idOf x) = some x) :
    let s2 := (s.step (.replace v x kids false [(tok, base)])).1
    (∀ k, s2.regGet k ≠ some x) ∧
    s2.idOf tok = RState.freshId { s with reg := regDel s.reg (s.idOf x) } base ∧
    ((∀ u, (base, u) ∈ s.reg → u = x) → s2.idOf tok = base) := by
  intro s2
  have hs2 : s2 = (((s.pDetachSelf x).1.pNew tok o.cls o.mro base kids).bind v tok).gc := step_replace_ok hx hk ho
  have hb : (s.pDetachSelf x).2 = true := by simp [pDetachSelf, hreg]
  obtain ⟨_, heq⟩ := pDetachSelf_true hb
  have htok : tok ∉ s.heap.map (·.uid) := FreshOk.head hok
  have hxm : (s.idOf x, x) ∈ s.reg := rget_some_mem hreg
  have hid : s2.idOf tok = RState.freshId { s with reg := regDel s.reg (s.idOf x) } base := by
    rw [hs2]
    show ((s.pDetachSelf x).1.pNew tok o.cls o.mro base kids).idOf tok = _
    rw [idOf_pNew (by rw [pDetachSelf_fst_heap]; exact htok), heq]
    exact freshId_congr (by rfl) base
  refine ⟨?_, hid, ?_⟩
  · intro k hk'
    have hm := rget_some_mem hk'
    rw [hs2] at hm
    have hm' : (k, x) ∈ ((s.pDetachSelf x).1.pNew tok o.cls o.mro base kids).reg := (List.mem_filter.mp hm).1
    rw [heq] at hm'
    simp only [pNew] at hm'
    rcases mem_regSet.mp hm' with ⟨h1, _⟩ | h1
    · obtain ⟨h2, h3⟩ := mem_regDel.mp h1
      exact h3 (key_of_mem hI h2).symm
    · simp only [Prod.mk.injEq] at h1
      obtain ⟨oo, hoo, h5, _⟩ := hI.regId _ _ hxm
      exact htok (h1.2 ▸ List.mem_map.mpr ⟨oo, hoo, h5⟩)
  · intro hother
    rw [hid]
    apply RegL.id_fresh_is_base
    show rget (regDel s.reg (s.idOf x)) base = none
    rw [rget_regDel]
    split
    · rfl
    · rename_i hne
      cases hg : rget s.reg base with
      | none => rfl
      | some w =>
        exfalso
        have hw := rget_some_mem hg
        have := hother w hw
        subst this
        exact hne (key_of_mem hI hw).symm

/-- in particular a `replace` that does not change the digest keeps the original's id, provided
no *other* registered node carries it (always true under `Inv`) -/
theorem replace_same_digest_keeps_id {s : RState} (hI : Inv s) {v x : Nat} {kids : List Nat} {tok : Nat} {o : RObj}
    (hok : OpOk s (.replace v x kids false [(tok, s.idOf x)]))
    (hx : s.isLive x = true) (hk : kids.all s.isLive = true) (ho : s.obj? x = some o)
    (hreg : s.regGet (s.idOf x) = some x) :
    (s.step (.replace v x kids false [(tok, s.idOf x)])).1.idOf tok = s.idOf x := by
  apply (replace_new_id hI hok hx hk ho hreg).2.2
  intro u hu
  exact reg_functional hI hu (rget_some_mem hreg)

/-- **dataclasses.replace**: the original stays registered (as long as it is still referenced) and
the new node gets a different id. -/
theorem dcReplace_new_id {s : RState} (hI : Inv s) {v x : Nat} {kids : List Nat} {tok : Nat} {base : Str} {o : RObj}
    (hok : OpOk s (.dcReplace v x kids [(tok, base)]))
    (hx : s.isLive x = true) (hk : kids.all s.isLive = true) (ho : s.obj? x = some o)
    (hreg : s.regGet (s.idOf x) = some x) :
    let s2 := (s.step (.dcReplace v x kids [(tok, base)])).1
    (s2.isLive x = true → s2.regGet (s.idOf x) = some x) ∧
    s2.idOf tok = s.freshId base ∧ s2.idOf tok ≠ s.idOf x ∧ s2.idOf x = s.idOf x := by
  intro s2
  have hs2 : s2 = ((s.pNew tok o.cls o.mro base kids).bind v tok).gc := step_dcReplace_ok hx hk ho
  have htok : tok ∉ s.heap.map (·.uid) := FreshOk.head hok
  have hxm : (s.idOf x, x) ∈ s.reg := rget_some_mem hreg
  have hI2 : Inv s2 := inv_step hI hok
  have hid : s2.idOf tok = s.freshId base := by
    rw [hs2]; exact idOf_pNew htok _ _ _ _
  have hne : s.freshId base ≠ s.idOf x := by
    intro e
    apply RegL.freshId_free s base
    rw [e]; exact List.mem_map.mpr ⟨_, hxm, rfl⟩
  refine ⟨?_, hid, by rw [hid]; exact hne, ?_⟩
  · intro hl
    apply rget_of_mem hI2.keysNodup
    rw [hs2]
    refine List.mem_filter.mpr ⟨?_, ?_⟩
    · simp only [RState.bind, pNew]
      exact mem_regSet.mpr (Or.inl ⟨hxm, fun e => hne e.symm⟩)
    · rw [hs2, isLive_gc] at hl
      exact hl
  · obtain ⟨hm, hu⟩ := obj?_some ho
    have h1 : s2.obj? o.uid = some o := by
      apply obj?_of_mem hI2.heapNodup
      rw [hs2]
      exact List.mem_append_left _ hm
    simp only [idOf, ← hu, h1, obj?_of_mem hI.heapNodup hm]

end C14
end PyOak

#print axioms PyOak.C14.dup_fresh
#print axioms PyOak.C14.dup_copy
#print axioms PyOak.C14.dup_independent
#print axioms PyOak.C14.replace_new_id
#print axioms PyOak.C14.replace_same_digest_keeps_id
#print axioms PyOak.C14.dcReplace_new_id
