/-
C10 (additions after the audit) — the last clause of the property:

  "the only effect an operation may have on an existing node is its registry membership as
   specified for detach and replace."

`C10.heap_frame` says that no record changes; it is true by construction of the append-only heap
and says nothing about the registry.  This file states which operations may change the registry
membership of a PRE-EXISTING object, and of which objects:

* `mayUnregister s op` — the objects the statement allows to lose their registry entry:
  `detach x`: `x` and all its descendants; `detach_self x`: `x`; a successful `x.replace(..)`: `x`;
  every other operation (construct, duplicate, dataclasses.replace, a failing replace, as_obj,
  alias, del): none.
* `reg_frame` (1) an entry of the old registry is still there after the step unless its object is
  in `mayUnregister s op` or is no longer alive (weak values);  (2) no pre-existing object gains an
  entry.  For ALL nine operation kinds, `as_obj` included and WITHOUT the `noClash` hypothesis:
  defect F19 (`C03.asObj_evicts_live`) only ever evicts a node created by the same call
  (`deser_reg_keep`).
* `unregister_exact` and the three explicit forms `detach_unregisters`, `detachSelf_unregisters`,
  `replace_unregisters`: the objects in `mayUnregister s op` ARE unregistered when the operation is
  carried out ("exactly as specified").
* `reg_frame_get`: lookup form for objects that stay alive and are not targeted.
* `detached_frame`: the ghost list `detached` is only touched by detach / detach_self / replace.
* `obj_frame_run`, `id_frame_run`: identity lookup (hence `id`, hence `hash(id)`) is constant over
  whole admissible histories.

Still outside (model too thin, see AUDIT.md C10): setattr/delattr, property values, content_id,
the read-only operation kinds (they are pure functions in the other models).
-/
import PyOak.Props.C10
namespace PyOak
namespace C10X
open RState RegL C03 C10

/-! ### which objects an operation is specified to unregister -/

/-- the objects whose registry entry the operation is specified to remove -/
def mayUnregister (s : RState) : ROp → List Nat
  | .detach x => x :: s.descendants (s.heap.length + 1) x
  | .detachSelf x => [x]
  | .replace _ x _ false _ => [x]
  | _ => []

/-- does the operation touch the ghost list `detached`? -/
def touchesDetached : ROp → Bool
  | .detach _ => true
  | .detachSelf _ => true
  | .replace .. => true
  | _ => false

/-! ### primitives -/

theorem pDetachSelf_reg_sub (s : RState) (c : Nat) : ∀ e ∈ (s.pDetachSelf c).1.reg, e ∈ s.reg := by
  intro e he
  cases hb : (s.pDetachSelf c).2 with
  | false => rw [(pDetachSelf_false hb).2] at he; exact he
  | true => rw [(pDetachSelf_true hb).2] at he; exact (mem_regDel.mp he).1

/-- `detach_self` of `c` leaves the entries of all other objects alone -/
theorem pDetachSelf_keeps {s : RState} (hI : Inv s) {e : Str × Nat} (he : e ∈ s.reg) {c : Nat}
    (hne : e.2 ≠ c) : e ∈ (s.pDetachSelf c).1.reg := by
  cases hb : (s.pDetachSelf c).2 with
  | false => rw [(pDetachSelf_false hb).2]; exact he
  | true =>
    obtain ⟨hreg, heq⟩ := pDetachSelf_true hb
    rw [heq]
    refine mem_regDel.mpr ⟨he, ?_⟩
    intro e1
    have h2 : (s.idOf c, e.2) ∈ s.reg := by rw [← e1]; exact he
    exact hne (reg_functional hI h2 (rget_some_mem hreg))

/-- after `detach_self` the object is registered under no key -/
theorem pDetachSelf_unreg {s : RState} (hI : Inv s) (c : Nat) (k : Str) : (k, c) ∉ (s.pDetachSelf c).1.reg := by
  intro he
  cases hb : (s.pDetachSelf c).2 with
  | false =>
    obtain ⟨hne, heq⟩ := pDetachSelf_false hb
    rw [heq] at he
    have hk := key_of_mem hI he
    apply hne
    rw [hk]
    exact rget_of_mem hI.keysNodup he
  | true =>
    obtain ⟨_, heq⟩ := pDetachSelf_true hb
    rw [heq] at he
    obtain ⟨h1, h2⟩ := mem_regDel.mp he
    exact h2 (key_of_mem hI h1).symm

theorem detachAll_reg_sub : ∀ (us : List Nat) (s : RState), ∀ e ∈ (detachAll s us).reg, e ∈ s.reg
  | [], _, e, he => he
  | c :: r, s, e, he => by
    rw [detachAll_cons] at he
    exact pDetachSelf_reg_sub s c e (detachAll_reg_sub r _ e he)

theorem detachAll_keeps : ∀ (us : List Nat) {s : RState}, Inv s → ∀ {e : Str × Nat}, e ∈ s.reg → e.2 ∉ us →
    e ∈ (detachAll s us).reg
  | [], _, _, _, he, _ => he
  | c :: r, s, hI, e, he, hn => by
    rw [detachAll_cons]
    simp only [List.mem_cons, not_or] at hn
    exact detachAll_keeps r (pDetachSelf_inv hI c) (pDetachSelf_keeps hI he hn.1) hn.2

theorem detachAll_unreg : ∀ (us : List Nat) {s : RState}, Inv s → ∀ u ∈ us, ∀ k, (k, u) ∉ (detachAll s us).reg
  | [], _, _, u, hu, _ => by simp at hu
  | c :: r, s, hI, u, hu, k => by
    rw [detachAll_cons]
    by_cases hr : u ∈ r
    · exact detachAll_unreg r (pDetachSelf_inv hI c) u hr k
    · have : u = c := by
        rcases List.mem_cons.mp hu with h | h
        · exact h
        · exact absurd h hr
      subst this
      intro he
      exact pDetachSelf_unreg hI u k (detachAll_reg_sub r _ _ he)

/-! ### evolutions (duplicate, `_deserialize`) -/

/-- every entry of the registry after an evolution is an old entry or belongs to a fresh token -/
theorem evol_reg_sub {K L : Nat → Prop} {F C : Bool} {s f s1 f1} (h : Evol K L F C s f s1 f1) :
    ∀ e ∈ s1.reg, e ∈ s.reg ∨ e.2 ∈ f.map (·.1) := by
  induction h with
  | refl => exact fun e he => Or.inl he
  | @new s1 tok base fr hE cls mro ks hk hl ih =>
    obtain ⟨p, hp⟩ := hE.suffix
    intro e he
    rcases mem_regSet.mp he with ⟨h1, _⟩ | rfl
    · exact ih e h1
    · exact Or.inr (by rw [hp]; simp)
  | @newForce s1 tok base fr hF hE cls mro ks hk hl sid hC ih =>
    obtain ⟨p, hp⟩ := hE.suffix
    intro e he
    simp only [pForceId] at he
    rcases mem_regSet.mp he with ⟨h1, _⟩ | rfl
    · rcases mem_regSet.mp (mem_regDel.mp h1).1 with ⟨h2, _⟩ | rfl
      · exact ih e h2
      · exact Or.inr (by rw [hp]; simp)
    · exact Or.inr (by rw [hp]; simp)

mutual
/-- **`_deserialize` never removes an entry that was in the registry when the call started**, id
clashes (defect F19) included: the forced id `sid` was looked up and found free at the start of
the call, so the entry it may evict belongs to a node created by the same call. -/
theorem deserAux_reg_keep : ∀ (t : SerTree) (s : RState) (fresh : Fresh) (s' : RState) (r : Nat) (fr : Fresh),
    Inv s → FreshOk s fresh → s.deserAux t fresh = some (s', r, fr) → ∀ e ∈ s.reg, e ∈ s'.reg
  | .mk sid cls mro kids, s, fresh, s', r, fr, hI, hf, h => by
    rcases deserAux_inv h with ⟨_, rfl, rfl⟩ | ⟨hg, s1, ks, base, hk, rfl⟩
    · exact fun e he => he
    · have ih := deserKids_reg_keep kids s fresh s1 ks _ hI hf hk
      obtain ⟨hI1, hf1⟩ := evol_good (deserKids_evol kids s fresh s1 ks _ hk) hI hf
      have htok : r ∉ s1.heap.map (·.uid) := hf1.head
      have hreg : (s1.pNew r cls mro base ks).reg = s1.reg ++ [(s1.freshId base, r)] :=
        regSet_of_free r (RegL.freshId_free s1 base)
      intro e he
      have he1 : e ∈ s1.reg := ih e he
      have he2 : e ∈ (s1.pNew r cls mro base ks).reg := by rw [hreg]; exact List.mem_append_left _ he1
      split
      · exact he2
      · simp only [pForceId]
        apply mem_regSet.mpr; left
        refine ⟨mem_regDel.mpr ⟨he2, ?_⟩, ?_⟩
        · rw [idOf_pNew htok]
          intro e'
          exact RegL.freshId_free s1 base (e' ▸ List.mem_map.mpr ⟨e, he1, rfl⟩)
        · intro e'
          have : sid ∉ s.reg.map (·.1) := rget_none_iff.mp hg
          exact this (e' ▸ List.mem_map.mpr ⟨e, he, rfl⟩)
theorem deserKids_reg_keep : ∀ (ts : List SerTree) (s : RState) (fresh : Fresh) (s' : RState) (us : List Nat) (fr : Fresh),
    Inv s → FreshOk s fresh → s.deserKids ts fresh = some (s', us, fr) → ∀ e ∈ s.reg, e ∈ s'.reg
  | [], s, fresh, s', us, fr, _, _, h => by
    simp [deserKids_nil] at h
    obtain ⟨rfl, _, _⟩ := h
    exact fun e he => he
  | t :: r, s, fresh, s', us, fr, hI, hf, h => by
    obtain ⟨s1, u, fr1, us', ha, hk, _⟩ := deserKids_cons_inv h
    obtain ⟨hI1, hf1⟩ := evol_good (deserAux_evol t s fresh s1 u fr1 ha) hI hf
    intro e he
    exact deserKids_reg_keep r s1 fr1 s' us' fr hI1 hf1 hk e (deserAux_reg_keep t s fresh s1 u fr1 hI hf ha e he)
end

/-! ### the state just before the final `gc` -/

theorem bind_reg (s : RState) (v u : Nat) : (s.bind v u).reg = s.reg := rfl

theorem pNew_reg_keep (s : RState) (tok : Nat) (cls : Str) (mro : List Str) (base : Str) (kids : List Nat) :
    ∀ e ∈ s.reg, e ∈ (s.pNew tok cls mro base kids).reg := by
  intro e he
  have hreg : (s.pNew tok cls mro base kids).reg = s.reg ++ [(s.freshId base, tok)] :=
    regSet_of_free tok (RegL.freshId_free s base)
  rw [hreg]; exact List.mem_append_left _ he

theorem pNew_reg_sub (s : RState) (tok : Nat) (cls : Str) (mro : List Str) (base : Str) (kids : List Nat) :
    ∀ e ∈ (s.pNew tok cls mro base kids).reg, e ∈ s.reg ∨ e.2 = tok := by
  intro e he
  rcases mem_regSet.mp he with ⟨h1, _⟩ | rfl
  · exact Or.inl h1
  · exact Or.inr rfl

/-- entries kept: every old entry survives unless its object is one the operation is specified to
unregister -/
theorem pre_reg_keep {s : RState} {op : ROp} {s1 : RState} (hI : Inv s) (hok : OpOk s op) (hp : Pre s op s1) :
    ∀ e ∈ s.reg, e ∈ s1.reg ∨ e.2 ∈ mayUnregister s op := by
  intro e he
  cases hp with
  | construct hk => rw [bind_reg]; exact Or.inl (pNew_reg_keep s _ _ _ _ _ e he)
  | duplicate hx h => exact Or.inl ((evol_cases (dupAux_evol _ _ _ _ _ _ _ h) hI hok).2 e he)
  | duplicateD hx h => exact Or.inl ((evol_cases (dupAux_evol _ _ _ _ _ _ _ h) hI hok).2 e he)
  | dcReplace hx hk ho => rw [bind_reg]; exact Or.inl (pNew_reg_keep s _ _ _ _ _ e he)
  | @replaceFail v x kids hx hk =>
    left
    cases hb : (s.pDetachSelf x).2 with
    | false => simp only [Bool.false_eq_true, if_false]; rw [(pDetachSelf_false hb).2]; exact he
    | true =>
      simp only [if_true]
      obtain ⟨hreg, heq⟩ := pDetachSelf_true hb
      rw [heq]
      have hid : RState.idOf { s with reg := regDel s.reg (s.idOf x), detached := x :: s.detached } x = s.idOf x := rfl
      simp only [pRestore, hid]
      by_cases hk' : e.1 = s.idOf x
      · apply mem_regSet.mpr; right
        have h2 : (s.idOf x, e.2) ∈ s.reg := by rw [← hk']; exact he
        have := reg_functional hI h2 (rget_some_mem hreg)
        exact Prod.ext hk' this
      · exact mem_regSet.mpr (Or.inl ⟨mem_regDel.mpr ⟨he, hk'⟩, hk'⟩)
  | @replaceOk v x kids tok base o hx hk ho =>
    by_cases hx' : e.2 = x
    · exact Or.inr (by simp [mayUnregister, hx'])
    · rw [bind_reg]; exact Or.inl (pNew_reg_keep _ _ _ _ _ _ e (pDetachSelf_keeps hI he hx'))
  | @detach x hx =>
    by_cases hm : e.2 ∈ x :: s.descendants (s.heap.length + 1) x
    · exact Or.inr hm
    · left
      simp only [List.mem_cons, not_or] at hm
      exact detachAll_keeps _ (pDetachSelf_inv hI x) (pDetachSelf_keeps hI he hm.1) hm.2
  | @detachSelf x hx =>
    by_cases hx' : e.2 = x
    · exact Or.inr (by simp [mayUnregister, hx'])
    · exact Or.inl (pDetachSelf_keeps hI he hx')
  | asObj h => exact Or.inl (deserAux_reg_keep _ _ _ _ _ _ hI hok h e he)
  | asObjD h => exact Or.inl (deserAux_reg_keep _ _ _ _ _ _ hI hok h e he)
  | alias hu => exact Or.inl he
  | drop => exact Or.inl he

/-- no pre-existing object gains a registry entry -/
theorem pre_reg_new {s : RState} {op : ROp} {s1 : RState} (hok : OpOk s op) (hp : Pre s op s1) :
    ∀ e ∈ s1.reg, e.2 ∈ s.heap.map (·.uid) → e ∈ s.reg := by
  intro e he hold
  have evo : ∀ {K L : Nat → Prop} {F C : Bool} {f : Fresh} {s' : RState} {f1 : Fresh}, FreshOk s f →
      Evol K L F C s f s' f1 → e ∈ s'.reg → e ∈ s.reg := by
    intro K L F C f s' f1 hf hE he'
    rcases evol_reg_sub hE e he' with h | h
    · exact h
    · exact absurd hold (hf.2 _ h)
  cases hp with
  | construct hk =>
    rw [bind_reg] at he
    rcases pNew_reg_sub s _ _ _ _ _ e he with h | h
    · exact h
    · exact absurd (h ▸ hold) (FreshOk.head hok)
  | duplicate hx h => exact evo hok (dupAux_evol _ _ _ _ _ _ _ h) he
  | duplicateD hx h => exact evo hok (dupAux_evol _ _ _ _ _ _ _ h) he
  | dcReplace hx hk ho =>
    rw [bind_reg] at he
    rcases pNew_reg_sub s _ _ _ _ _ e he with h | h
    · exact h
    · exact absurd (h ▸ hold) (FreshOk.head hok)
  | @replaceFail v x kids hx hk =>
    cases hb : (s.pDetachSelf x).2 with
    | false =>
      simp only [hb, Bool.false_eq_true, if_false] at he
      exact pDetachSelf_reg_sub s x e he
    | true =>
      simp only [hb, if_true] at he
      obtain ⟨hreg, heq⟩ := pDetachSelf_true hb
      rw [heq] at he
      have hid : RState.idOf { s with reg := regDel s.reg (s.idOf x), detached := x :: s.detached } x = s.idOf x := rfl
      simp only [pRestore, hid] at he
      rcases mem_regSet.mp he with ⟨h1, _⟩ | rfl
      · exact (mem_regDel.mp h1).1
      · exact rget_some_mem hreg
  | @replaceOk v x kids tok base o hx hk ho =>
    rw [bind_reg] at he
    rcases pNew_reg_sub _ _ _ _ _ _ e he with h | h
    · exact pDetachSelf_reg_sub s x e h
    · exact absurd (h ▸ hold) (FreshOk.head hok)
  | detach hx => exact pDetachSelf_reg_sub s _ e (detachAll_reg_sub _ _ e he)
  | detachSelf hx => exact pDetachSelf_reg_sub s _ e he
  | asObj h => exact evo hok (deserAux_evol _ _ _ _ _ _ h) he
  | asObjD h => exact evo hok (deserAux_evol _ _ _ _ _ _ h) he
  | alias hu => exact he
  | drop => exact he

/-- the objects the operation is specified to unregister are registered under no key -/
theorem pre_unreg {s : RState} {op : ROp} {s1 : RState} (hI : Inv s) (hok : OpOk s op) (hp : Pre s op s1) :
    ∀ u ∈ mayUnregister s op, ∀ k, (k, u) ∉ s1.reg := by
  intro u hu k he
  cases hp with
  | construct hk => simp [mayUnregister] at hu
  | duplicate hx h => simp [mayUnregister] at hu
  | duplicateD hx h => simp [mayUnregister] at hu
  | dcReplace hx hk ho => simp [mayUnregister] at hu
  | replaceFail hx hk => simp [mayUnregister] at hu
  | @replaceOk v x kids tok base o hx hk ho =>
    have : u = x := by simpa [mayUnregister] using hu
    subst this
    rw [bind_reg] at he
    rcases pNew_reg_sub _ _ _ _ _ _ _ he with h | h
    · exact pDetachSelf_unreg hI u k h
    · simp only at h
      have hm : u ∈ s.heap.map (·.uid) := by
        obtain ⟨hm, hu'⟩ := obj?_some ho
        exact List.mem_map.mpr ⟨o, hm, hu'⟩
      exact (FreshOk.head hok) (h ▸ hm)
  | @detach x hx =>
    have hu' : u ∈ x :: s.descendants (s.heap.length + 1) x := hu
    rcases List.mem_cons.mp hu' with rfl | hd
    · exact pDetachSelf_unreg hI u k (detachAll_reg_sub _ _ _ he)
    · exact detachAll_unreg _ (pDetachSelf_inv hI x) u hd k he
  | @detachSelf x hx =>
    have : u = x := by simpa [mayUnregister] using hu
    subst this
    exact pDetachSelf_unreg hI u k he
  | asObj h => simp [mayUnregister] at hu
  | asObjD h => simp [mayUnregister] at hu
  | alias hu' => simp [mayUnregister] at hu
  | drop => simp [mayUnregister] at hu

/-! ### the frame theorem for the registry -/

/-- **Registry frame.**  For every admissible operation (all nine kinds, `as_obj` with or without
id clash):
1. an entry of the old registry is still present after the step, unless its object is no longer
   alive (weak values) or is one of the objects the operation is specified to unregister
   (`detach`: the node and its descendants, `detach_self` / successful `replace`: the node);
2. no object that existed before the step gains a registry entry. -/
theorem reg_frame {s : RState} {op : ROp} (hI : Inv s) (hok : OpOk s op) :
    (∀ e ∈ s.reg, e ∈ (s.step op).1.reg ∨ (s.step op).1.isLive e.2 = false ∨ e.2 ∈ mayUnregister s op) ∧
    (∀ e ∈ (s.step op).1.reg, e.2 ∈ s.heap.map (·.uid) → e ∈ s.reg) := by
  rcases step_shape s op with h | ⟨s1, hp, h⟩
  · rw [h]; exact ⟨fun e he => Or.inl he, fun e he _ => he⟩
  · rw [h]
    constructor
    · intro e he
      rcases pre_reg_keep hI hok hp e he with h1 | h1
      · cases hl : s1.isLive e.2 with
        | true => exact Or.inl (List.mem_filter.mpr ⟨h1, hl⟩)
        | false => exact Or.inr (Or.inl (by rw [isLive_gc]; exact hl))
      · exact Or.inr (Or.inr h1)
    · intro e he hold
      exact pre_reg_new hok hp e (List.mem_filter.mp he).1 hold

/-- operations that are not specified to unregister anything keep every entry whose object stays
alive: construct, duplicate, dataclasses.replace, a failing replace, as_obj, alias, del -/
theorem reg_frame_others {s : RState} {op : ROp} (hI : Inv s) (hok : OpOk s op)
    (hop : mayUnregister s op = []) :
    ∀ e ∈ s.reg, (s.step op).1.isLive e.2 = true → e ∈ (s.step op).1.reg := by
  intro e he hl
  rcases (reg_frame hI hok).1 e he with h | h | h
  · exact h
  · rw [hl] at h; cases h
  · rw [hop] at h; cases h

/-- lookup form: for a pre-existing object that stays alive and is not targeted by the operation,
`get_any(k)` returns it after the step iff it did before -/
theorem reg_frame_get {s : RState} {op : ROp} (hI : Inv s) (hok : OpOk s op) {u : Nat}
    (hu : u ∈ s.heap.map (·.uid)) (hl : (s.step op).1.isLive u = true) (hn : u ∉ mayUnregister s op) (k : Str) :
    (s.step op).1.getAny k = some u ↔ s.getAny k = some u := by
  obtain ⟨h1, h2⟩ := reg_frame hI hok
  have hI2 := inv_step hI hok
  constructor
  · intro h
    exact rget_of_mem hI.keysNodup (h2 _ (rget_some_mem h) hu)
  · intro h
    rcases h1 _ (rget_some_mem h) with h' | h' | h'
    · exact rget_of_mem hI2.keysNodup h'
    · simp only at h'; rw [hl] at h'; cases h'
    · exact absurd h' hn

/-- **exactly as specified**: when the operation is carried out (not rejected as `badOp` /
`desync`, i.e. `Pre` holds), every object it is specified to unregister is returned under no id -/
theorem unregister_exact {s : RState} {op : ROp} {s1 : RState} (hI : Inv s) (hok : OpOk s op) (hp : Pre s op s1) :
    ∀ u ∈ mayUnregister s op, ∀ k, s1.gc.getAny k ≠ some u := by
  intro u hu k h
  exact pre_unreg hI hok hp u hu k (List.mem_filter.mp (rget_some_mem h)).1

/-- `x.detach()`: `x` and every descendant is returned under no id afterwards -/
theorem detach_unregisters {s : RState} (hI : Inv s) {x : Nat} (hx : s.isLive x = true) :
    ∀ u ∈ x :: s.descendants (s.heap.length + 1) x, ∀ k, (s.step (.detach x)).1.getAny k ≠ some u := by
  have hs : (s.step (.detach x)).1 = (detachAll (s.pDetachSelf x).1 (s.descendants (s.heap.length + 1) x)).gc := by
    simp [step, hx, detachAll]
  rw [hs]
  exact unregister_exact hI (by simp [OpOk, opFresh, FreshOk]) (Pre.detach hx)

/-- `x.detach_self()` -/
theorem detachSelf_unregisters {s : RState} (hI : Inv s) {x : Nat} (hx : s.isLive x = true) :
    ∀ k, (s.step (.detachSelf x)).1.getAny k ≠ some x := by
  have hs : (s.step (.detachSelf x)).1 = (s.pDetachSelf x).1.gc := by
    simp [step, hx]
  rw [hs]
  exact unregister_exact hI (by simp [OpOk, opFresh, FreshOk]) (Pre.detachSelf hx) x (by simp [mayUnregister])

/-- a successful `x.replace(..)`, for registered AND detached originals -/
theorem replace_unregisters {s : RState} (hI : Inv s) {v x : Nat} {kids : List Nat} {tok : Nat} {base : Str} {o : RObj}
    (hok : OpOk s (.replace v x kids false [(tok, base)]))
    (hx : s.isLive x = true) (hk : kids.all s.isLive = true) (ho : s.obj? x = some o) :
    ∀ k, (s.step (.replace v x kids false [(tok, base)])).1.getAny k ≠ some x := by
  have hs : (s.step (.replace v x kids false [(tok, base)])).1 =
      (((s.pDetachSelf x).1.pNew tok o.cls o.mro base kids).bind v tok).gc := by
    simp [step, hx, hk, ho]
  rw [hs]
  exact unregister_exact hI hok (Pre.replaceOk hx hk ho) x (by simp [mayUnregister])

/-! ### `detach` only unregisters the node and nodes below it -/

/-- `Below s x u`: `u` is reached from `x` through at least one child link (an independent reading
of "descendant"; `RState.descendants` is the model's fuelled traversal) -/
inductive Below (s : RState) (x : Nat) : Nat → Prop
  | kid {c : Nat} : c ∈ s.kidsOf x → Below s x c
  | step {a c : Nat} : Below s x a → c ∈ s.kidsOf a → Below s x c

theorem Below.under {s : RState} {x c u : Nat} (hc : c ∈ s.kidsOf x) (h : Below s c u) : Below s x u := by
  induction h with
  | kid h1 => exact Below.step (Below.kid hc) h1
  | step _ h2 ih => exact Below.step ih h2

theorem descendants_sound (s : RState) : ∀ (fuel x u : Nat), u ∈ s.descendants fuel x → Below s x u
  | 0, _, _, h => by simp [descendants] at h
  | fuel + 1, x, u, h => by
    simp only [descendants, List.mem_flatMap, List.mem_cons] at h
    obtain ⟨c, hc, h | h⟩ := h
    · subst h; exact Below.kid hc
    · exact Below.under hc (descendants_sound s fuel c u h)

/-- `x.detach()` may only cost `x` itself and nodes strictly below `x` their registry entry -/
theorem reg_frame_detach {s : RState} (hI : Inv s) (x : Nat) :
    ∀ e ∈ s.reg, e ∈ (s.step (.detach x)).1.reg ∨ (s.step (.detach x)).1.isLive e.2 = false ∨
      e.2 = x ∨ Below s x e.2 := by
  intro e he
  rcases (reg_frame hI (op := .detach x) (by simp [OpOk, opFresh, FreshOk])).1 e he with h | h | h
  · exact Or.inl h
  · exact Or.inr (Or.inl h)
  · right; right
    rcases List.mem_cons.mp h with h | h
    · exact Or.inl h
    · exact Or.inr (descendants_sound s _ _ _ h)

/-! ### the ghost list -/

/-- only detach / detach_self / replace touch `detached` -/
theorem detached_frame (s : RState) (op : ROp) (h : touchesDetached op = false) :
    (s.step op).1.detached = s.detached := by
  rcases step_shape s op with e | ⟨s1, hp, e⟩
  · rw [e]
  · rw [e]
    show s1.detached = s.detached
    cases hp with
    | construct hk => rfl
    | duplicate hx hd => exact (dupAux_evol _ _ _ _ _ _ _ hd).detached
    | duplicateD hx hd => exact (dupAux_evol _ _ _ _ _ _ _ hd).detached
    | dcReplace hx hk ho => rfl
    | replaceFail => cases h
    | replaceOk => cases h
    | detach => cases h
    | detachSelf => cases h
    | asObj hd => exact (deserAux_evol _ _ _ _ _ _ hd).detached
    | asObjD hd => exact (deserAux_evol _ _ _ _ _ _ hd).detached
    | alias hu => rfl
    | drop => rfl

/-! ### whole histories -/

/-- looked up by identity, an object shows the same record after any admissible history -/
theorem obj_frame_run : ∀ (ops : List ROp) (s : RState), Inv s → AllOk s ops →
    ∀ u o, s.obj? u = some o → (run s ops).obj? u = some o
  | [], _, _, _, _, _, h => h
  | _ :: r, _, hI, hok, u, o, h =>
    obj_frame_run r _ (inv_step hI hok.1) hok.2 u o (obj_frame hI hok.1 h)

/-- the id (hence `hash(node) = hash(id)`), class and children of an existing object are constant
over any admissible history -/
theorem id_frame_run (ops : List ROp) (s : RState) (hI : Inv s) (hok : AllOk s ops) {u : Nat}
    (hu : u ∈ s.heap.map (·.uid)) :
    (run s ops).idOf u = s.idOf u ∧ (run s ops).kidsOf u = s.kidsOf u := by
  obtain ⟨o, ho, rfl⟩ := List.mem_map.mp hu
  have h := obj?_of_mem hI.heapNodup ho
  have h' := obj_frame_run ops s hI hok _ _ h
  simp [idOf, kidsOf, h, h']

/-- from the empty state -/
theorem obj_frame_history (pre post : List ROp) (hok : AllOk {} (pre ++ post)) {u : Nat} {o : RObj}
    (h : (run {} pre).obj? u = some o) : (run {} (pre ++ post)).obj? u = some o := by
  have split : ∀ (a b : List ROp) (s : RState), AllOk s (a ++ b) → AllOk s a ∧ AllOk (run s a) b := by
    intro a
    induction a with
    | nil => intro b s h; exact ⟨trivial, h⟩
    | cons op r ih =>
      intro b s h
      obtain ⟨h1, h2⟩ := ih b _ h.2
      exact ⟨⟨h.1, h1⟩, h2⟩
  obtain ⟨h1, h2⟩ := split pre post {} hok
  have hI := (inv_run_from pre {} inv_empty (by intro k u h; simp at h) h1).1
  have : run {} (pre ++ post) = run (run {} pre) post := by simp [run, List.foldl_append]
  rw [this]
  exact obj_frame_run post _ hI h2 u o h

/-! ### non-vacuity: concrete admissible histories through every clause -/

section Examples

private def A : Str := "A".toList
private def B : Str := "B".toList
private def a : Str := "a".toList
private def b : Str := "b".toList

/-- leaf 1, parent 2 = B(1, 1) (shared child), twin leaf 3 of 1 -/
def hist : List ROp :=
  [ .construct 0 A [A] [] [(1, a)],
    .construct 1 B [B] [1, 1] [(2, b)],
    .construct 2 A [A] [] [(3, a)] ]

def s0 : RState := run {} hist

example : AllOk {} hist := by decide
example : Inv s0 := inv_run hist (by decide)
example : s0.reg = [(a, 1), (b, 2), ("a_1".toList, 3)] := by decide

-- `detach` of the parent: the parent and its (shared) child are specified to go, the twin stays
example : mayUnregister s0 (.detach 2) = [2, 1, 1] := by decide
example : (s0.step (.detach 2)).1.reg = [("a_1".toList, 3)] := by decide
example : s0.isLive 2 = true := by decide
example : Below s0 2 1 := Below.kid (by decide)
-- `detach_self` of the child only
example : mayUnregister s0 (.detachSelf 1) = [1] ∧ (s0.step (.detachSelf 1)).1.reg = [(b, 2), ("a_1".toList, 3)] := by
  decide
-- a successful and a failing replace
example : mayUnregister s0 (.replace 5 3 [] false [(9, a)]) = [3] ∧ OpOk s0 (.replace 5 3 [] false [(9, a)]) ∧
    (s0.step (.replace 5 3 [] false [(9, a)])).1.reg = [(a, 1), (b, 2), ("a_1".toList, 9)] := by decide
example : mayUnregister s0 (.replace 5 3 [] true []) = [] ∧
    (s0.step (.replace 5 3 [] true [])).1.reg = s0.reg := by decide
-- duplicate / dataclasses.replace / construct keep every entry
example : mayUnregister s0 (.duplicate 5 2 [(10, a), (11, a), (12, b)]) = [] ∧
    OpOk s0 (.duplicate 5 2 [(10, a), (11, a), (12, b)]) ∧
    (s0.step (.duplicate 5 2 [(10, a), (11, a), (12, b)])).1.reg =
      s0.reg ++ [("a_2".toList, 10), ("a_3".toList, 11), ("b_1".toList, 12)] := by decide
-- weak values: `del` of the only reference drops the entry (the middle disjunct of `reg_frame`)
example : mayUnregister s0 (.drop 2) = [] ∧ (s0.step (.drop 2)).1.reg = [(a, 1), (b, 2)] ∧
    (s0.step (.drop 2)).1.isLive 3 = false := by decide
-- F19: the id clash of `as_obj` evicts a node created by the same call, never a pre-existing one
def f19' : ROp := .asObj 7 (.mk "x".toList A [A] [.mk "x".toList A [A] []]) [(20, a), (21, b)]
example : OpOk s0 f19' ∧ noClash s0 f19' = false ∧ (s0.step f19').1.isLive 20 = true ∧
    (s0.step f19').1.reg = s0.reg ++ [("x".toList, 21)] ∧
    ∀ e ∈ s0.reg, e ∈ (s0.step f19').1.reg := by decide
-- `touchesDetached`
example : touchesDetached (.duplicate 5 2 []) = false ∧ touchesDetached (.detach 2) = true := by decide
-- histories
example : AllOk {} (hist ++ [.detach 2, .drop 1]) ∧ ((run {} hist).obj? 1).map (·.id) = some a := by decide

end Examples

end C10X
end PyOak

#print axioms PyOak.C10X.reg_frame
#print axioms PyOak.C10X.reg_frame_others
#print axioms PyOak.C10X.reg_frame_get
#print axioms PyOak.C10X.deserAux_reg_keep
#print axioms PyOak.C10X.unregister_exact
#print axioms PyOak.C10X.detach_unregisters
#print axioms PyOak.C10X.detachSelf_unregisters
#print axioms PyOak.C10X.replace_unregisters
#print axioms PyOak.C10X.descendants_sound
#print axioms PyOak.C10X.reg_frame_detach
#print axioms PyOak.C10X.detached_frame
#print axioms PyOak.C10X.obj_frame_run
#print axioms PyOak.C10X.id_frame_run
#print axioms PyOak.C10X.obj_frame_history
