/-
C18 (AUDIT item #10) — acyclicity of the child graph is an invariant of ADMISSIBLE histories, and it is what
makes the content-id clause (`cid_eq_spec`) and the upward walks meaningful.

`Inv` does not exclude cycles: `cyclic_reachable` below is the audit's witness (a constant content digest, the
inadmissible call `leaf.replace_with(root of its own tree)` returns and leaves an attached 2-cycle that satisfies
`Inv`).  With `Ranked` / `Admissible` of Props/C18Ranked.lean:

  kSame_*            the operations that never change a child list (clearParent, setParent, setContentId, the
                     `_reset_content_id` walk, register / unregister, reparent, the commit of `_attach`, `detach`,
                     the id take-over of `replace_with`), for every outcome
  replaceChild_edges `_replace_child(p, old, new)` adds at most the link `p → new`
  replaceWith_edges  `replace_with(new)`, EVERY outcome: same size, child links of the result ⊆ child links
                     before ∪ {parent of the receiver → new}
  construct_ev, replace_…  a construction adds one object whose children are older objects
  ranked_of_ev       new objects over older ones keep the graph acyclic
  ranked_add_edge    adding a link `p → n` with `¬ Desc s n p` keeps the graph acyclic (re-ranking)
  ranked_step        **one admissible step, whatever its outcome (returned, rejected, not finished), keeps
                     `Ranked`** (`new`, `attach`, `detach`, `replace`, `replace_with`, `duplicate`)
  inv_ranked_run     histories of admissible accepted-or-rejected steps keep `Inv ∧ Ranked`
  matches_exists / cid_eq_tree
                     on an `Inv ∧ Ranked` state EVERY existing node has an independently built equal tree
                     `t` (`Matches s u t`), so `cid_eq_spec` is non-vacuous: the cached content id of every
                     attached node IS the content id of that tree
-/
import PyOak.Props.C18Ranked
import PyOak.Props.C19Rejected
namespace PyOak.Legacy.C18
open PyOak PyOak.Legacy LState

variable (H Hc : Str → Str)

/-! ### operations that never change a child list -/

/-- same size, same child lists everywhere -/
def KSame (s s' : LState) : Prop := s'.size = s.size ∧ ∀ x, (s'.obj x).kidList = (s.obj x).kidList

theorem KSame.refl (s : LState) : KSame s s := ⟨rfl, fun _ => rfl⟩
theorem KSame.trans {a b c : LState} (h1 : KSame a b) (h2 : KSame b c) : KSame a c :=
  ⟨h2.1.trans h1.1, fun x => (h2.2 x).trans (h1.2 x)⟩

theorem kSame_modify (s : LState) (u : Nat) (f : LObj → LObj) (hf : ∀ o, (f o).fields = o.fields) :
    KSame s (s.modify u f) := ⟨rfl, fun v => modify_kidList s u f hf v⟩

theorem kSame_clearParent (s : LState) (u : Nat) : KSame s (s.clearParent u) :=
  kSame_modify s u _ (fun _ => rfl)
theorem kSame_setParent (s : LState) (c p : Nat) (f : Str) (i : Option Nat) : KSame s (s.setParent c p f i) :=
  kSame_modify s c _ (fun _ => rfl)
theorem kSame_setContentId (s : LState) (u : Nat) : KSame s (s.setContentId Hc u) :=
  kSame_modify s u _ (fun _ => rfl)
theorem kSame_register (s : LState) (u : Nat) : KSame s (s.register u) := ⟨rfl, fun _ => rfl⟩
theorem kSame_unregister (s : LState) (k : Str) : KSame s (s.unregister k) := ⟨rfl, fun _ => rfl⟩

theorem kSame_resetContentId : ∀ (fuel : Nat) (s : LState) (u : Nat), KSame s (s.resetContentId Hc fuel u).1 := by
  intro fuel
  induction fuel with
  | zero => intro s u; exact KSame.refl s
  | succ fuel ih =>
    intro s u
    unfold LState.resetContentId
    simp only
    split
    · exact kSame_setContentId Hc s u
    · exact (kSame_setContentId Hc s u).trans (ih _ _)

theorem kSame_reparent (n : Nat) : ∀ (l : List (Nat × Str × Option Nat)) (s : LState), KSame s (reparent n s l) := by
  intro l
  induction l with
  | nil => intro s; exact KSame.refl s
  | cons e r ih =>
    intro s
    obtain ⟨c, f, i⟩ := e
    simp only [reparent]
    exact (kSame_setParent s c n f i).trans (ih _)

theorem kSame_commitOne (s : LState) (n : Nat) : KSame s (commitOne Hc s n) := by
  unfold commitOne
  exact ((kSame_reparent n _ s).trans (kSame_setContentId Hc _ n)).trans (kSame_register _ n)

theorem kSame_foldl_commitOne : ∀ (l : List Nat) (s : LState), KSame s (l.foldl (commitOne Hc) s) := by
  intro l
  induction l with
  | nil => intro s; exact KSame.refl s
  | cons a r ih => intro s; simp only [List.foldl_cons]; exact (kSame_commitOne Hc s a).trans (ih _)

/-- `_attach`, whatever the outcome -/
theorem kSame_attach (fuel : Nat) (s : LState) (u : Nat) : KSame s (attach Hc fuel s u).1 := by
  unfold attach
  split
  · exact KSame.refl s
  · exact KSame.refl s
  · exact kSame_foldl_commitOne Hc _ s

theorem kSame_detachKids (rec : LState → Nat → LState × Option Bool) (hrec : ∀ s c, KSame s (rec s c).1)
    (os : Bool) : ∀ (ks : List Nat) (s : LState), KSame s (detachKids rec os s ks).1 := by
  intro ks
  induction ks with
  | nil => intro s; exact KSame.refl s
  | cons c cs ih =>
    intro s
    unfold detachKids
    simp only
    split
    · exact (kSame_clearParent s c).trans (ih _)
    · have h1 := hrec (s.clearParent c) c
      split
      · next s2 heq => rw [heq] at h1; exact (kSame_clearParent s c).trans h1
      · next s2 b heq => rw [heq] at h1; exact ((kSame_clearParent s c).trans h1).trans (ih _)

/-- `detach` / `detach_self`, whatever the outcome -/
theorem kSame_detachGo : ∀ (fuel : Nat) (os : Bool) (s : LState) (u : Nat), KSame s (detachGo fuel os s u).1 := by
  intro fuel
  induction fuel with
  | zero => intro os s u; exact KSame.refl s
  | succ fuel ih =>
    intro os s u
    unfold detachGo
    split
    · exact KSame.refl s
    · split
      · exact KSame.refl s
      · have hk := kSame_detachKids (detachGo fuel false) (fun s c => ih false s c) os (s.obj u).kidList s
        split
        · next s1 heq => rw [heq] at hk; exact hk
        · next s1 heq => rw [heq] at hk; exact hk.trans (kSame_unregister _ _)

theorem kSame_takeOver (s : LState) (u n : Nat) : KSame s (takeOver s u n).1 := by
  unfold takeOver
  simp only
  split
  · exact (kSame_unregister s _).trans (kSame_modify _ n _ (fun _ => rfl))
  · exact kSame_modify _ n _ (fun _ => rfl)

theorem kSame_shiftDown (p : Nat) (f : Str) : ∀ (cs : List Nat) (s : LState), KSame s (shiftDown p f s cs) := by
  intro cs
  induction cs with
  | nil => intro s; exact KSame.refl s
  | cons c r ih => intro s; simp only [shiftDown]; exact (kSame_setParent s c p f _).trans (ih _)

/-! ### `_replace_child` adds at most one link -/

/-- same size; every child link of `s'` is a child link of `s`, or the link `p → n` -/
def Edges (s s' : LState) (p n : Option Nat) : Prop :=
  s'.size = s.size ∧ ∀ x c, c ∈ (s'.obj x).kidList → c ∈ (s.obj x).kidList ∨ (some x = p ∧ some c = n)

theorem Edges.of_kSame {s s' : LState} (h : KSame s s') (p n : Option Nat) : Edges s s' p n :=
  ⟨h.1, fun x c hc => .inl (by rw [← h.2 x]; exact hc)⟩

theorem Edges.kSame_left {a b c : LState} {p n : Option Nat} (h1 : KSame a b) (h2 : Edges b c p n) : Edges a c p n :=
  ⟨h2.1.trans h1.1, fun x k hk => (h2.2 x k hk).imp (fun h => by rw [← h1.2 x]; exact h) id⟩

theorem Edges.kSame_right {a b c : LState} {p n : Option Nat} (h1 : Edges a b p n) (h2 : KSame b c) : Edges a c p n :=
  ⟨h2.1.trans h1.1, fun x k hk => h1.2 x k (by rw [← h2.2 x]; exact hk)⟩

theorem fieldKids_sub (s : LState) (p : Nat) (f : Str) : ∀ c ∈ fieldKids s p f, c ∈ (s.obj p).kidList := by
  intro c hc
  unfold fieldKids at hc
  split at hc
  · next fl hfl => exact List.mem_flatMap.mpr ⟨fl, List.mem_of_find?_eq_some hfl, hc⟩
  · cases hc

theorem setField_edges (s : LState) (p : Nat) (f : Str) (ks : List Nat) (n : Option Nat)
    (hks : ∀ c ∈ ks, c ∈ (s.obj p).kidList ∨ some c = n) : Edges s (setField s p f ks) (some p) n := by
  refine ⟨rfl, fun x c hc => ?_⟩
  unfold setField at hc
  rw [modify_obj] at hc
  split at hc
  · next hx =>
    subst hx
    unfold LObj.kidList at hc
    simp only at hc
    obtain ⟨fl, hfl, hcf⟩ := List.mem_flatMap.mp hc
    obtain ⟨f0, hf0, rfl⟩ := List.mem_map.mp hfl
    split at hcf
    · rcases hks c hcf with h | h
      · exact .inl h
      · exact .inr ⟨rfl, h⟩
    · exact .inl (List.mem_flatMap.mpr ⟨f0, hf0, hcf⟩)
  · exact .inl hc

theorem edges_fin {s s2 : LState} {p n : Option Nat} (h : Edges s s2 p n) (b : Prop) [Decidable b] (fuel q : Nat) :
    Edges s (if b then s2.resetContentId Hc fuel q else (s2, true)).1 p n := by
  split
  · exact h.kSame_right (kSame_resetContentId Hc _ _ _)
  · exact h

/-- `_replace_child`, whatever the outcome of the `_reset_content_id` walk -/
theorem replaceChild_edges (fuel : Nat) (s : LState) (p old : Nat) (f : Str) (idx : Option Nat) (new : Option Nat) :
    Edges s (replaceChild Hc fuel s p old f idx new).1 (some p) new := by
  cases new with
  | none =>
    cases idx with
    | none =>
      exact edges_fin Hc (setField_edges s p f [] none (fun c hc => by cases hc)) _ fuel p
    | some i =>
      refine edges_fin Hc (Edges.kSame_right (setField_edges s p f _ none (fun c hc => ?_))
        (kSame_shiftDown p f _ _)) _ fuel p
      rcases List.mem_append.mp hc with h | h
      · exact .inl (fieldKids_sub s p f c (List.mem_of_mem_take h))
      · exact .inl (fieldKids_sub s p f c (List.mem_of_mem_drop h))
  | some n =>
    cases idx with
    | none =>
      refine edges_fin Hc (Edges.kSame_right (setField_edges s p f [n] (some n) (fun c hc => ?_))
        (kSame_setParent _ n p f none)) _ fuel p
      simp at hc; exact .inr (by rw [hc])
    | some i =>
      refine edges_fin Hc (Edges.kSame_right (setField_edges s p f _ (some n) (fun c hc => ?_))
        (kSame_setParent _ n p f (some i))) _ fuel p
      rcases List.mem_append.mp hc with h | h
      · exact .inl (fieldKids_sub s p f c (List.mem_of_mem_take h))
      · rcases List.mem_cons.mp h with h | h
        · exact .inr (by rw [h])
        · exact .inl (fieldKids_sub s p f c (List.mem_of_mem_drop h))

/-! ### `replace_with`: at most the link `parent → new` is added, whatever the outcome -/

theorem kSame_of_eq {s : LState} {α : Type} {f : LState × α} {t : LState} {a : α} (h : KSame s f.1) (he : f = (t, a)) :
    KSame s t := by rw [he] at h; exact h

theorem replaceWith_edges_none (fuel : Nat) (s : LState) (u : Nat) :
    Edges s (replaceWith Hc fuel s u none).1 (s.parent u) none := by
  have R : ∀ q m, Edges s s q m := fun _ _ => Edges.of_kSame (KSame.refl s) _ _
  unfold replaceWith
  simp only [Bool.false_eq_true, if_false]
  cases hp : s.parent u with
  | some p =>
    simp only
    cases hf : (s.obj u).pfield with
    | none => exact R _ _
    | some f =>
      simp only
      cases hfl : (s.obj p).fields.find? (·.name = f) with
      | none => exact R _ _
      | some fl =>
        simp only
        split
        · exact R _ _
        · have k1 : KSame s (s.clearParent u) := kSame_clearParent s u
          cases hd : detachGo (fuel + 1) false (s.clearParent u) u with
          | mk s2 r2 =>
            have k2 : KSame s s2 := k1.trans (kSame_of_eq (kSame_detachGo _ _ _ _) hd)
            cases r2 with
            | none => exact Edges.of_kSame k2 _ _
            | some b =>
              simp only
              have e3 := replaceChild_edges Hc fuel s2 p u f (s.obj u).pindex none
              have := Edges.kSame_left k2 e3
              split <;> exact this
  | none =>
    simp only
    cases hd : detachGo (fuel + 1) false s u with
    | mk s1 r1 =>
      have k1 : KSame s s1 := kSame_of_eq (kSame_detachGo _ _ _ _) hd
      cases r1 <;> exact Edges.of_kSame k1 _ _

theorem replaceWith_edges_some (fuel : Nat) (s : LState) (u n : Nat) :
    Edges s (replaceWith Hc fuel s u (some n)).1 (s.parent u) (some n) := by
  have R : ∀ q m, Edges s s q m := fun _ _ => Edges.of_kSame (KSame.refl s) _ _
  unfold replaceWith
  simp only
  split
  · exact R _ _
  · cases hp : s.parent u with
    | some p =>
      simp only
      cases hf : (s.obj u).pfield with
      | none => exact R _ _
      | some f =>
        simp only
        cases hfl : (s.obj p).fields.find? (·.name = f) with
        | none => exact R _ _
        | some fl =>
          simp only
          split
          · exact R _ _
          · have k1 : KSame s (s.clearParent u) := kSame_clearParent s u
            cases hd : detachGo (fuel + 1) false (s.clearParent u) u with
            | mk s2 r2 =>
              have k2 : KSame s s2 := k1.trans (kSame_of_eq (kSame_detachGo _ _ _ _) hd)
              cases r2 with
              | none => exact Edges.of_kSame k2 _ _
              | some b =>
                simp only
                have k3 : KSame s (takeOver s2 u n).1 := k2.trans (kSame_takeOver s2 u n)
                cases ha : attach Hc fuel (takeOver s2 u n).1 n with
                | mk s4 r4 =>
                  have k4 : KSame s s4 := k3.trans (kSame_of_eq (kSame_attach Hc _ _ _) ha)
                  cases r4 with
                  | error e =>
                    simp only
                    have k6 : KSame s ((s4.modify n fun x =>
                        { x with id := (s2.obj n).id, origId := (s2.obj n).origId }).setParent u p f (s.obj u).pindex) :=
                      (k4.trans (kSame_modify _ n (fun x => { x with id := (s2.obj n).id, origId := (s2.obj n).origId })
                        (fun _ => rfl))).trans (kSame_setParent _ _ _ _ _)
                    cases ha2 : attach Hc fuel ((s4.modify n fun x =>
                        { x with id := (s2.obj n).id, origId := (s2.obj n).origId }).setParent u p f (s.obj u).pindex) u with
                    | mk s7 r7 =>
                      have k7 : KSame s s7 := k6.trans (kSame_of_eq (kSame_attach Hc _ _ _) ha2)
                      cases r7 with
                      | error e' => exact Edges.of_kSame k7 _ _
                      | ok x =>
                        simp only
                        split
                        · exact Edges.of_kSame (k7.trans (kSame_register _ _)) _ _
                        · exact Edges.of_kSame k7 _ _
                  | ok x =>
                    simp only
                    have e5 := replaceChild_edges Hc fuel s4 p u f (s.obj u).pindex (some n)
                    have := Edges.kSame_left k4 e5
                    split <;> exact this
    | none =>
      simp only
      cases hd : (if (!s.detached u) = true then detachGo (fuel + 1) false s u else (s, some true)) with
      | mk s1 r1 =>
        have k1 : KSame s s1 := by
          split at hd
          · exact kSame_of_eq (kSame_detachGo _ _ _ _) hd
          · cases hd; exact KSame.refl s
        cases r1 with
        | none => exact Edges.of_kSame k1 _ _
        | some b =>
          simp only
          have k2 : KSame s (takeOver s1 u n).1 := k1.trans (kSame_takeOver s1 u n)
          cases ha : attach Hc fuel (takeOver s1 u n).1 n with
          | mk s3 r3 =>
            have k3 : KSame s s3 := k2.trans (kSame_of_eq (kSame_attach Hc _ _ _) ha)
            cases r3 with
            | ok x => exact Edges.of_kSame k3 _ _
            | error e =>
              simp only
              have k4 : KSame s (s3.modify n fun x => { x with id := (s1.obj n).id, origId := (s1.obj n).origId }) :=
                k3.trans (kSame_modify _ n _ (fun _ => rfl))
              cases ha2 : (if (!s.detached u) = true then attach Hc fuel
                  (s3.modify n fun x => { x with id := (s1.obj n).id, origId := (s1.obj n).origId }) u
                  else (s3.modify n fun x => { x with id := (s1.obj n).id, origId := (s1.obj n).origId }, .ok ())) with
              | mk s5 r5 =>
                have k5 : KSame s s5 := by
                  split at ha2
                  · exact k4.trans (kSame_of_eq (kSame_attach Hc _ _ _) ha2)
                  · cases ha2; exact k4
                cases r5 with
                | error e' => exact Edges.of_kSame k5 _ _
                | ok x =>
                  simp only
                  split
                  · exact Edges.of_kSame (k5.trans (kSame_register _ _)) _ _
                  · exact Edges.of_kSame k5 _ _

/-- **`replace_with(new)`, every outcome**: same size; every child link of the result is a child link of the state
before, or the link from the receiver's parent to `new` -/
theorem replaceWith_edges (fuel : Nat) (s : LState) (u : Nat) (new : Option Nat) :
    Edges s (replaceWith Hc fuel s u new).1 (s.parent u) new := by
  cases new with
  | none => exact replaceWith_edges_none Hc fuel s u
  | some n => exact replaceWith_edges_some Hc fuel s u n

/-! ### re-ranking -/

/-- the child links of existing objects lead to existing objects (`Inv.closed`) -/
def Closed (s : LState) : Prop := ∀ x, x < s.size → ∀ c ∈ (s.obj x).kidList, c < s.size

/-- a strict bound of a rank function below `n` -/
def bnd (r : Nat → Nat) : Nat → Nat
  | 0 => 0
  | n + 1 => max (bnd r n) (r n + 1)

theorem lt_bnd (r : Nat → Nat) : ∀ (n y : Nat), y < n → r y < bnd r n := by
  intro n
  induction n with
  | zero => intro y hy; omega
  | succ n ih =>
    intro y hy
    unfold bnd
    by_cases h : y = n
    · subst h; omega
    · have := ih y (by omega); omega

/-- new objects whose children are OLDER objects; the old objects keep their child lists -/
structure Ev (s s' : LState) : Prop where
  size : s.size ≤ s'.size
  old : ∀ x, x < s.size → (s'.obj x).kidList = (s.obj x).kidList
  new : ∀ x, s.size ≤ x → x < s'.size → ∀ c ∈ (s'.obj x).kidList, c < x

theorem Ev.of_kSame {s s' : LState} (h : KSame s s') : Ev s s' :=
  ⟨by rw [h.1]; exact Nat.le_refl _, fun x _ => h.2 x, fun x h1 h2 => by rw [h.1] at h2; omega⟩

theorem Ev.refl (s : LState) : Ev s s := Ev.of_kSame (KSame.refl s)

theorem Ev.trans {a b c : LState} (h1 : Ev a b) (h2 : Ev b c) : Ev a c := by
  refine ⟨Nat.le_trans h1.size h2.size, fun x hx => ?_, fun x hx1 hx2 k hk => ?_⟩
  · rw [h2.old x (Nat.lt_of_lt_of_le hx h1.size)]; exact h1.old x hx
  · by_cases hxb : x < b.size
    · rw [h2.old x hxb] at hk; exact h1.new x hx1 hxb k hk
    · exact h2.new x (by omega) hx2 k hk

theorem Ev.kSame_right {a b c : LState} (h1 : Ev a b) (h2 : KSame b c) : Ev a c := h1.trans (Ev.of_kSame h2)
theorem Ev.kSame_left {a b c : LState} (h1 : KSame a b) (h2 : Ev b c) : Ev a c := (Ev.of_kSame h1).trans h2

/-- **new objects over older ones keep the graph acyclic** -/
theorem ranked_of_ev {s s' : LState} (hR : Ranked s) (hC : Closed s) (hE : Ev s s') : Ranked s' := by
  obtain ⟨r, hr⟩ := hR
  refine ⟨fun x => if x < s.size then r x else bnd r s.size + x, fun x hx c hc => ?_⟩
  by_cases hxs : x < s.size
  · rw [hE.old x hxs] at hc
    have hcs := hC x hxs c hc
    simp only [hxs, hcs, if_true]
    exact hr x hxs c hc
  · have hcx := hE.new x (by omega) hx c hc
    simp only [hxs, if_false]
    split
    · next hcs => have := lt_bnd r s.size c hcs; omega
    · omega

theorem Ev.closed {s s' : LState} (hC : Closed s) (hE : Ev s s') : Closed s' := by
  intro x hx c hc
  by_cases hxs : x < s.size
  · rw [hE.old x hxs] at hc; exact Nat.lt_of_lt_of_le (hC x hxs c hc) hE.size
  · have := hE.new x (by omega) hx c hc; omega

/-- from an old object only old objects are reachable, along old links -/
theorem Ev.desc_old {s s' : LState} (hC : Closed s) (hE : Ev s s') {c q : Nat} (hc : c < s.size)
    (hd : Desc s' c q) : Desc s c q ∧ q < s.size := by
  induction hd with
  | refl => exact ⟨.refl, hc⟩
  | @step q' q _ hk ih =>
    obtain ⟨hd', hq'⟩ := ih
    rw [hE.old q' hq'] at hk
    exact ⟨.step hd' hk, hC q' hq' q hk⟩

/-- along child links the rank does not increase -/
theorem ranked_desc_le {s : LState} {r : Nat → Nat} (hr : ∀ x, x < s.size → ∀ c ∈ (s.obj x).kidList, r c < r x)
    (hC : Closed s) {x q : Nat} (hx : x < s.size) (hd : Desc s x q) : r q ≤ r x ∧ q < s.size := by
  induction hd with
  | refl => exact ⟨Nat.le_refl _, hx⟩
  | @step q' q _ hk ih =>
    have := hr q' ih.2 q hk
    exact ⟨by omega, hC q' ih.2 q hk⟩

/-- **adding a link `p → n` with `p` not reachable from `n` keeps the graph acyclic** -/
theorem ranked_add_edge {s s' : LState} {p n : Option Nat} (hR : Ranked s) (hE : Edges s s' p n)
    (hadm : ∀ p' n', p = some p' → n = some n' → ¬ Desc s n' p') : Ranked s' := by
  obtain ⟨r, hr⟩ := hR
  obtain ⟨hsz, hedge⟩ := hE
  cases p with
  | none =>
    exact ⟨r, fun x hx c hc => by
      rcases hedge x c hc with h | ⟨h, _⟩
      · exact hr x (by omega) c h
      · cases h⟩
  | some p' =>
    cases n with
    | none =>
      exact ⟨r, fun x hx c hc => by
        rcases hedge x c hc with h | ⟨_, h⟩
        · exact hr x (by omega) c h
        · cases h⟩
    | some n' =>
      have hnd := hadm p' n' rfl rfl
      classical
      refine ⟨fun x => if Desc s n' x then r x else r x + (r n' + 1), fun x hx c hc => ?_⟩
      rw [hsz] at hx
      show (if Desc s n' c then r c else r c + (r n' + 1)) < (if Desc s n' x then r x else r x + (r n' + 1))
      rcases hedge x c hc with h | ⟨h1, h2⟩
      · have hlt := hr x hx c h
        by_cases hdx : Desc s n' x
        · have hdc : Desc s n' c := .step hdx h
          simp only [hdx, hdc, if_true]; exact hlt
        · simp only [hdx, if_false]
          split <;> omega
      · cases h1; cases h2
        have hrefl : Desc s n' n' := .refl
        show (if Desc s n' n' then r n' else r n' + (r n' + 1)) < (if Desc s n' p' then r p' else r p' + (r n' + 1))
        rw [if_pos hrefl, if_neg hnd]
        omega

/-! ### one step -/

theorem ranked_of_kSame {s s' : LState} (hR : Ranked s) (h : KSame s s') : Ranked s' := by
  obtain ⟨r, hr⟩ := hR
  exact ⟨r, fun x hx c hc => hr x (by rw [← h.1]; exact hx) c (by rw [← h.2 x]; exact hc)⟩

/-- a construction (whatever its outcome) adds exactly one object; its children are those of the request -/
theorem construct_ev (fuel : Nat) (s : LState) (n : NewSpec) (hk : ∀ c ∈ n.fields.flatMap (·.kids), c < s.size) :
    Ev s (construct H Hc fuel s n).1 ∧ (construct H Hc fuel s n).1.size = s.size + 1 ∧
      ((construct H Hc fuel s n).1.obj s.size).kidList = n.fields.flatMap (·.kids) ∧
      ∀ r, (construct H Hc fuel s n).2 = .ok r → r = s.size := by
  have hobjn : (s.alloc (newObj n)).1.obj s.size = newObj n := by
    unfold LState.alloc LState.obj; simp
  have hobj0 : ∀ v, v ≠ s.size → (s.alloc (newObj n)).1.obj v = s.obj v := by
    intro v hv; unfold LState.alloc LState.obj; simp [hv]
  have hsz0 : (s.alloc (newObj n)).1.size = s.size + 1 := rfl
  have base : ∀ t, KSame (s.alloc (newObj n)).1 t → Ev s t ∧ t.size = s.size + 1 ∧
      (t.obj s.size).kidList = n.fields.flatMap (·.kids) := by
    intro t ht
    refine ⟨⟨by rw [ht.1, hsz0]; omega, fun x hx => by rw [ht.2, hobj0 x (by omega)], fun x h1 h2 c hc => ?_⟩,
      by rw [ht.1, hsz0], by rw [ht.2, hobjn]; rfl⟩
    rw [ht.1, hsz0] at h2
    have : x = s.size := by omega
    subst this
    rw [ht.2, hobjn] at hc
    exact hk c hc
  unfold construct
  simp only
  generalize (s.alloc (newObj n)).1 = s0 at base
  split
  · obtain ⟨a, b, c⟩ := base s0 (KSame.refl _); exact ⟨a, b, c, fun r hr => by cases hr⟩
  · split
    · obtain ⟨a, b, c⟩ := base s0 (KSame.refl _); exact ⟨a, b, c, fun r hr => by cases hr⟩
    · next nid coll orig _ =>
      have k1 : KSame s0 (s0.modify s.size (setIds nid coll orig)) := kSame_modify _ _ _ (fun _ => rfl)
      unfold finishConstruct
      split
      · obtain ⟨a, b, c⟩ := base _ (k1.trans (kSame_setContentId Hc _ _))
        exact ⟨a, b, c, fun r hr => by cases hr; rfl⟩
      · have k2 := kSame_attach Hc fuel (s0.modify s.size (setIds nid coll orig)) s.size
        split
        · next s2 e heq =>
          rw [heq] at k2
          obtain ⟨a, b, c⟩ := base _ (k1.trans k2); exact ⟨a, b, c, fun r hr => by cases hr⟩
        · next s2 heq =>
          rw [heq] at k2
          obtain ⟨a, b, c⟩ := base _ ((k1.trans k2).trans (kSame_setContentId Hc _ _))
          exact ⟨a, b, c, fun r hr => by cases hr; rfl⟩

theorem construct_ev' {fuel : Nat} {s s' : LState} {n : NewSpec} {r : Except Err Nat}
    (hk : ∀ c ∈ n.fields.flatMap (·.kids), c < s.size) (h : construct H Hc fuel s n = (s', r)) :
    Ev s s' ∧ s'.size = s.size + 1 ∧ (s'.obj s.size).kidList = n.fields.flatMap (·.kids) ∧
      ∀ m, r = .ok m → m = s.size := by
  have := construct_ev H Hc fuel s n hk
  rw [h] at this
  exact this

theorem ofNode_fst (p : LState × Except Err Nat) : (ofNode p).1 = p.1 := by
  obtain ⟨a, b⟩ := p; cases b <;> rfl
theorem ofUnit_fst (p : LState × Except Err Unit) : (ofUnit p).1 = p.1 := by
  obtain ⟨a, b⟩ := p; cases b <;> rfl

theorem att_of_parent_aux {s : LState} {u p : Nat} (hI : Inv Hc s) (hp : s.parent u = some p) : Att s u := by
  unfold LState.parent at hp
  cases hk : (s.obj u).pid with
  | none => rw [hk] at hp; cases hp
  | some k => exact (hI.noDangling u k hk).1

theorem closed_of_inv {s : LState} (hI : Inv Hc s) : Closed s := hI.closed

/-- the state in which `replace` constructs the new node has the child lists of the old one -/
theorem replace_torn_kSame (s : LState) (u fuel : Nat) :
    KSame s (if (!(if (s.parent u).isSome = true then s.clearParent u else s).detached u) = true
      then (detachGo (fuel + 1) true (if (s.parent u).isSome = true then s.clearParent u else s) u).1
      else (if (s.parent u).isSome = true then s.clearParent u else s)) := by
  have h1 : KSame s (if (s.parent u).isSome = true then s.clearParent u else s) := by
    split
    · exact kSame_clearParent s u
    · exact KSame.refl s
  generalize (if (s.parent u).isSome = true then s.clearParent u else s) = s1 at h1 ⊢
  split
  · exact h1.trans (kSame_detachGo _ _ _ _)
  · exact h1

/-- **`replace(**changes)`, every outcome** -/
theorem replace_ranked {s : LState} {u fuel : Nat} {ch : Changes} (hI : Inv Hc s) (hR : Ranked s)
    (hu : u < s.size) (hk : ∀ c ∈ ch.fields.flatMap (·.2), c < s.size)
    (hadm : ∀ p, s.parent u = some p → ∀ c ∈ ch.fields.flatMap (·.2), ¬ Desc s c p) :
    Ranked (replace H Hc fuel s u ch).1 := by
  have hC : Closed s := hI.closed
  unfold replace
  split
  · exact hR
  · simp only
    have hS := replace_torn_kSame s u fuel
    generalize (if (!(if (s.parent u).isSome = true then s.clearParent u else s).detached u) = true
      then (detachGo (fuel + 1) true (if (s.parent u).isSome = true then s.clearParent u else s) u).1
      else (if (s.parent u).isSome = true then s.clearParent u else s)) = s2 at hS ⊢
    generalize (!(if (s.parent u).isSome = true then s.clearParent u else s).detached u) = wasAtt
    -- the children of the re-created node: given ones, or children of the receiver
    have hkids : ∀ c ∈ (applyFields (s2.obj u).fields ch.fields).flatMap (·.kids),
        c ∈ ch.fields.flatMap (·.2) ∨ c ∈ (s.obj u).kidList := by
      intro c hcm
      obtain ⟨fl, hfl, hcf⟩ := List.mem_flatMap.mp hcm
      unfold applyFields at hfl
      obtain ⟨f0, hf0, rfl⟩ := List.mem_map.mp hfl
      split at hcf
      · next nm ks hfind =>
        exact .inl (List.mem_flatMap.mpr ⟨(nm, ks), List.mem_of_find?_eq_some hfind, hcf⟩)
      · right
        rw [← hS.2 u]
        exact List.mem_flatMap.mpr ⟨f0, hf0, hcf⟩
    have hkids_lt : ∀ c ∈ (applyFields (s2.obj u).fields ch.fields).flatMap (·.kids), c < s2.size := by
      intro c hcm
      rw [hS.1]
      rcases hkids c hcm with h | h
      · exact hk c h
      · exact hC u hu c h
    cases hc : construct H Hc fuel s2
        { cls := (s2.obj u).cls, mro := (s2.obj u).mro, fqn := (s2.obj u).fqn,
          props := applyProps (s2.obj u).props ch.props, idArg := some (s2.obj u).id, ensureUnique := false,
          asDuplicate := false, createDetached := !wasAtt, fields := applyFields (s2.obj u).fields ch.fields } with
    | mk s3 r3 =>
      obtain ⟨hev2, hsz3, hkl3, hn3⟩ := construct_ev' H Hc hkids_lt hc
      rw [hS.1] at hsz3 hkl3 hn3
      have hev : Ev s s3 := Ev.kSame_left hS hev2
      have hR3 : Ranked s3 := ranked_of_ev hR hC hev
      cases r3 with
      | error e =>
        simp only
        have k4 : KSame s3 (if wasAtt = true then reparent u (s3.register u) (s3.obj u).kidsPos else s3) := by
          split
          · exact (kSame_register s3 u).trans (kSame_reparent u _ _)
          · exact KSame.refl _
        apply ranked_of_kSame hR3
        split
        · exact k4.trans (kSame_setParent _ _ _ _ _)
        · exact k4
      | ok n =>
        simp only
        have hn : n = s.size := hn3 n rfl
        subst hn
        cases hp : s.parent u with
        | none =>
          simp only
          have : Ranked (s3.modify s.size fun x => { x with origId := (s3.obj u).origId, collWith := (s3.obj u).collWith }) :=
            ranked_of_kSame hR3 (kSame_modify _ _ _ (fun _ => rfl))
          split <;> exact this
        | some p =>
          simp only
          have he4 := replaceChild_edges Hc fuel s3 p u ((s.obj u).pfield.getD []) (s.obj u).pindex (some s.size)
          -- the parent is not reachable from the new node
          have hpl : p < s.size := by
            unfold LState.parent at hp
            cases hk' : (s.obj u).pid with
            | none => rw [hk'] at hp; cases hp
            | some k => rw [hk'] at hp; exact (hI.regSound k p hp).1
          have hua : Att s u := att_of_parent_aux Hc hI hp
          have hup : u ∈ (s.obj p).kidList := by
            obtain ⟨f, _, hm⟩ := hI.up u hua p hp
            exact (mem_kidList_iff _ _).mpr ⟨_, hm, rfl⟩
          have hnd : ¬ Desc s3 s.size p := by
            intro hd
            rcases hd.head with h | ⟨c, hc3, hcd⟩
            · omega
            · rw [hkl3] at hc3
              have hcs : c < s.size := by rw [← hS.1]; exact hkids_lt c hc3
              obtain ⟨hcd', _⟩ := hev.desc_old hC hcs hcd
              rcases hkids c hc3 with h | h
              · exact hadm p hp c h hcd'
              · obtain ⟨r, hr⟩ := hR
                have h1 := (ranked_desc_le hr hC hcs hcd').1
                have h2 := hr u hu c h
                have h3 := hr p hpl u hup
                omega
          have hR4 := ranked_add_edge hR3 he4 (fun p' n' h1 h2 => by cases h1; cases h2; exact hnd)
          have : Ranked ((replaceChild Hc fuel s3 p u ((s.obj u).pfield.getD []) (s.obj u).pindex (some s.size)).1.modify s.size
              fun x => { x with origId := ((replaceChild Hc fuel s3 p u ((s.obj u).pfield.getD []) (s.obj u).pindex
                (some s.size)).1.obj u).origId, collWith := ((replaceChild Hc fuel s3 p u ((s.obj u).pfield.getD [])
                (s.obj u).pindex (some s.size)).1.obj u).collWith }) :=
            ranked_of_kSame hR4 (kSame_modify _ _ _ (fun _ => rfl))
          split <;> exact this

/-! ### `duplicate`: new objects over older ones, whatever the outcome -/

/-- what one (possibly rejected) duplication guarantees -/
def DupEv (t : LState) (p : LState × Except Err Nat) : Prop :=
  Ev t p.1 ∧ ∀ n, p.2 = .ok n → n < p.1.size

theorem dupList_ev (rec : LState → Nat → LState × Except Err Nat)
    (hrec : ∀ t c, Closed t → c < t.size → DupEv t (rec t c)) :
    ∀ (ks : List Nat) (t : LState), Closed t → (∀ c ∈ ks, c < t.size) →
      Ev t (dupList rec t ks).1 ∧ ∀ rs, (dupList rec t ks).2 = .ok rs → ∀ x ∈ rs, x < (dupList rec t ks).1.size := by
  intro ks
  induction ks with
  | nil => intro t _ _; exact ⟨Ev.refl t, fun rs h x hx => by cases h; cases hx⟩
  | cons c cs ih =>
    intro t hC hks
    unfold dupList
    have h1 := hrec t c hC (hks c (List.mem_cons_self ..))
    cases hr : rec t c with
    | mk t1 r1 =>
      rw [hr] at h1
      obtain ⟨e1, n1⟩ := h1
      cases r1 with
      | error e => exact ⟨e1, fun rs h => by cases h⟩
      | ok c' =>
        simp only
        have h2 := ih t1 (e1.closed hC) (fun x hx => Nat.lt_of_lt_of_le (hks x (List.mem_cons_of_mem _ hx)) e1.size)
        cases hr2 : dupList rec t1 cs with
        | mk t2 r2 =>
          rw [hr2] at h2
          obtain ⟨e2, n2⟩ := h2
          cases r2 with
          | error e => exact ⟨e1.trans e2, fun rs h => by cases h⟩
          | ok cs' =>
            refine ⟨e1.trans e2, fun rs h x hx => ?_⟩
            cases h
            rcases List.mem_cons.mp hx with rfl | hx
            · exact Nat.lt_of_lt_of_le (n1 x rfl) e2.size
            · exact n2 cs' rfl x hx

theorem dupFields_ev (rec : LState → Nat → LState × Except Err Nat)
    (hrec : ∀ t c, Closed t → c < t.size → DupEv t (rec t c)) :
    ∀ (fs : List LField) (t : LState), Closed t → (∀ c ∈ fs.flatMap (·.kids), c < t.size) →
      Ev t (dupFields rec t fs).1 ∧
        ∀ fs', (dupFields rec t fs).2 = .ok fs' → ∀ x ∈ fs'.flatMap (·.kids), x < (dupFields rec t fs).1.size := by
  intro fs
  induction fs with
  | nil => intro t _ _; exact ⟨Ev.refl t, fun fs' h x hx => by cases h; simp at hx⟩
  | cons f fr ih =>
    intro t hC hks
    unfold dupFields
    have h1 := dupList_ev rec hrec f.kids t hC (fun c hc => hks c (by simp [List.flatMap_cons]; exact .inl hc))
    cases hr : dupList rec t f.kids with
    | mk t1 r1 =>
      rw [hr] at h1
      obtain ⟨e1, n1⟩ := h1
      cases r1 with
      | error e => exact ⟨e1, fun rs h => by cases h⟩
      | ok ks =>
        simp only
        have h2 := ih t1 (e1.closed hC) (fun x hx => Nat.lt_of_lt_of_le
          (hks x (by simp [List.flatMap_cons]; exact .inr (by simpa using hx))) e1.size)
        cases hr2 : dupFields rec t1 fr with
        | mk t2 r2 =>
          rw [hr2] at h2
          obtain ⟨e2, n2⟩ := h2
          cases r2 with
          | error e => exact ⟨e1.trans e2, fun rs h => by cases h⟩
          | ok fs' =>
            refine ⟨e1.trans e2, fun rs h x hx => ?_⟩
            cases h
            simp only [List.flatMap_cons, List.mem_append] at hx
            rcases hx with hx | hx
            · exact Nat.lt_of_lt_of_le (n1 ks rfl x hx) e2.size
            · exact n2 fs' rfl x hx

theorem duplicate_ev (cfuel : Nat) (clone : Bool) : ∀ (fuel : Nat) (t : LState) (u : Nat), Closed t → u < t.size →
    DupEv t (duplicate H Hc cfuel clone fuel t u) := by
  intro fuel
  induction fuel with
  | zero => intro t u _ _; exact ⟨Ev.refl t, fun n h => by cases h⟩
  | succ fuel ih =>
    intro t u hC hu
    unfold duplicate
    have h1 := dupFields_ev (duplicate H Hc cfuel clone fuel) ih (t.obj u).fields t hC (fun c hc => hC u hu c hc)
    cases hr : dupFields (duplicate H Hc cfuel clone fuel) t (t.obj u).fields with
    | mk t1 r1 =>
      rw [hr] at h1
      obtain ⟨e1, n1⟩ := h1
      cases r1 with
      | error e => exact ⟨e1, fun n h => by cases h⟩
      | ok fs =>
        simp only
        cases hc : construct H Hc cfuel t1
            { cls := (t1.obj u).cls, mro := (t1.obj u).mro, fqn := (t1.obj u).fqn, props := (t1.obj u).props,
              idArg := some (t1.obj u).id, ensureUnique := false, asDuplicate := false, createDetached := clone,
              fields := fs } with
        | mk t2 r2 =>
          obtain ⟨e2, hsz2, _, hn2⟩ := construct_ev' H Hc (n1 fs rfl) hc
          cases r2 with
          | error e => exact ⟨e1.trans e2, fun n h => by cases h⟩
          | ok n =>
            refine ⟨(e1.trans e2).kSame_right (kSame_modify _ _ _ (fun _ => rfl)), fun n' h => ?_⟩
            cases h
            rw [modify_size, hsz2, hn2 n rfl]; omega

/-! ### one admissible step, histories -/

/-- **one admissible step keeps the child graph acyclic -- whatever its outcome** (returned, rejected, or a
walk that did not end): construction and duplication add new objects over older ones, attach / detach change no
child list, `replace` / `replace_with` add one link to a node from which the parent is not reachable -/
theorem ranked_step {s : LState} {op : LOp} (hI : Inv Hc s) (hR : Ranked s) (hadm : Admissible s op) :
    Ranked (step H Hc s op).1 := by
  unfold step
  split
  · exact hR
  · next hr =>
    have hlt := refs_lt (by simpa using hr)
    cases op with
    | new sp =>
      simp only [ofNode_fst]
      exact ranked_of_ev hR hI.closed
        (construct_ev H Hc _ s sp (fun c hc' => hlt c (by simpa [LOp.refs] using hc'))).1
    | attach u =>
      simp only
      split
      · exact hR
      · rw [ofUnit_fst]; exact ranked_of_kSame hR (kSame_attach Hc _ s u)
    | detach u os =>
      simp only
      have hk := kSame_detachGo (fuelOf s + 1) os s u
      split
      · next s1 b heq => rw [heq] at hk; exact ranked_of_kSame hR hk
      · next s1 heq => rw [heq] at hk; exact ranked_of_kSame hR hk
    | replace u ch =>
      simp only [ofNode_fst]
      exact replace_ranked H Hc hI hR (hlt u (by simp [LOp.refs]))
        (fun c hc' => hlt c (by simp only [LOp.refs, List.mem_cons]; exact .inr hc')) hadm
    | rwith u n =>
      simp only [ofUnit_fst]
      refine ranked_add_edge hR (replaceWith_edges Hc (fuelOf s) s u n) (fun p' n' h1 h2 => ?_)
      subst h2
      exact hadm p' h1
    | dup u c =>
      simp only [ofNode_fst]
      exact ranked_of_ev hR hI.closed (duplicate_ev H Hc _ c _ s u hI.closed (hlt u (by simp [LOp.refs]))).1

theorem ranked_init : Ranked init := ⟨fun _ => 0, fun x hx => by simp [init] at hx⟩

/-- a history of admissible operations each of which returned or was rejected with a documented error -/
def AdmRun : LState → List LOp → Prop
  | _, [] => True
  | s, op :: r => LOp.proved s op ∧ Admissible s op ∧ C19.FineOut op (step H Hc s op).2 ∧ AdmRun (step H Hc s op).1 r

/-- **admissible histories (accepted and rejected operations mixed) keep the invariant AND acyclicity** -/
theorem inv_ranked_run : ∀ (ops : List LOp) (s : LState), Inv Hc s → Ranked s → AdmRun H Hc s ops →
    Inv Hc (run H Hc s ops) ∧ Ranked (run H Hc s ops) := by
  intro ops
  induction ops with
  | nil => intro s hI hR _; exact ⟨hI, hR⟩
  | cons op r ih =>
    intro s hI hR hg
    obtain ⟨hp, ha, hf, hr⟩ := hg
    unfold run
    simp only [List.foldl_cons]
    exact ih _ (C19.inv_step_any H Hc hI hp rfl hf) (ranked_step H Hc hI hR ha) hr

theorem inv_ranked_run_init (ops : List LOp) (hg : AdmRun H Hc init ops) :
    Inv Hc (run H Hc init ops) ∧ Ranked (run H Hc init ops) :=
  inv_ranked_run H Hc ops init (inv_init Hc) ranked_init hg

/-! ### the content-id clause is non-vacuous on acyclic states -/

/-- **every existing node of an acyclic state has an independently built equal tree** -/
theorem matches_exists {s : LState} (hI : Inv Hc s) (hR : Ranked s) : ∀ u, u < s.size → ∃ t, Matches s u t := by
  obtain ⟨r, hr⟩ := hR
  have key : ∀ n u, r u < n → u < s.size → ∃ t, Matches s u t := by
    intro n
    induction n with
    | zero => intro u h; omega
    | succ n ih =>
      intro u hru hu
      have hk : ∀ l : List (Nat × Str × Option Nat), (∀ e ∈ l, e.1 ∈ (s.obj u).kidList) →
          ∃ kids, Matches.kidsMatch s l kids := by
        intro l
        induction l with
        | nil => intro _; exact ⟨[], trivial⟩
        | cons e er ihl =>
          intro hl
          have he := hl e (List.mem_cons_self ..)
          obtain ⟨t, ht⟩ := ih e.1 (by have := hr u hu e.1 he; omega) (hI.closed u hu e.1 he)
          obtain ⟨kr, hkr⟩ := ihl (fun x hx => hl x (List.mem_cons_of_mem _ hx))
          exact ⟨(e.2.1, e.2.2, t) :: kr, rfl, rfl, ht, hkr⟩
      obtain ⟨kids, hkids⟩ := hk (s.obj u).kidsPos (fun e he => (mem_kidList_iff _ _).mpr ⟨e, he, rfl⟩)
      exact ⟨.mk (s.obj u).cls (s.obj u).props kids, rfl, rfl, hkids⟩
  exact fun u hu => key (r u + 1) u (by omega) hu

/-- **`cid_eq_spec` without a caller-supplied tree**: on an acyclic state satisfying the invariant the cached
content id of EVERY attached node is the content id of an independently built tree equal to its subtree -/
theorem cid_eq_tree {s : LState} (hI : Inv Hc s) (hR : Ranked s) {u : Nat} (hu : Att s u) :
    ∃ t, Matches s u t ∧ (s.obj u).cid = CTree.cid Hc t := by
  obtain ⟨t, ht⟩ := matches_exists Hc hI hR u (att_lt hI hu)
  exact ⟨t, ht, cid_eq_spec Hc hI t u hu ht⟩

/-- … in particular after every admissible history from the empty world -/
theorem cid_eq_tree_run (ops : List LOp) (hg : AdmRun H Hc init ops) {u : Nat} (hu : Att (run H Hc init ops) u) :
    ∃ t, Matches (run H Hc init ops) u t ∧ ((run H Hc init ops).obj u).cid = CTree.cid Hc t :=
  cid_eq_tree Hc (inv_ranked_run_init H Hc ops hg).1 (inv_ranked_run_init H Hc ops hg).2 hu

/-! ### a decidable certificate for admissibility -/

/-- candidates for the set of nodes reachable from `acc` (iterated child lists) -/
def closure (s : LState) : Nat → List Nat → List Nat
  | 0, acc => acc
  | fuel + 1, acc => closure s fuel (acc ++ acc.flatMap fun x => (s.obj x).kidList).eraseDups

/-- `S` is closed under child links -/
def closedB (s : LState) (S : List Nat) : Bool := S.all fun x => (s.obj x).kidList.all fun c => S.contains c

/-- a checked certificate for `¬ Desc s n p` -/
def notDescB (s : LState) (n p : Nat) : Bool :=
  (closure s s.size [n]).contains n && !(closure s s.size [n]).contains p && closedB s (closure s s.size [n])

theorem notDescB_sound {s : LState} {n p : Nat} (h : notDescB s n p = true) : ¬ Desc s n p := by
  unfold notDescB at h
  simp only [Bool.and_eq_true, Bool.not_eq_true', List.contains_eq_mem, decide_eq_true_eq, decide_eq_false_iff_not] at h
  obtain ⟨⟨h1, h2⟩, h3⟩ := h
  apply not_desc_of_closed (closure s s.size [n]) h1 _ h2
  intro x hx c hc
  unfold closedB at h3
  have := List.all_eq_true.mp (List.all_eq_true.mp h3 x hx) c hc
  simpa using this

/-- the decidable form of `Admissible` -/
def admB (s : LState) : LOp → Bool
  | .rwith u (some n) => match s.parent u with
    | none => true
    | some p => notDescB s n p
  | .replace u ch => match s.parent u with
    | none => true
    | some p => (ch.fields.flatMap (·.2)).all fun c => notDescB s c p
  | _ => true

theorem admB_sound {s : LState} {op : LOp} (h : admB s op = true) : Admissible s op := by
  cases op with
  | rwith u n =>
    cases n with
    | none => trivial
    | some n =>
      intro p hp
      simp only [admB, hp] at h
      exact notDescB_sound h
  | replace u ch =>
    intro p hp c hc
    simp only [admB, hp] at h
    exact notDescB_sound (List.all_eq_true.mp h c hc)
  | new sp => trivial
  | attach u => trivial
  | detach u os => trivial
  | dup u c => trivial

/-- the decidable form of `AdmRun` -/
def AdmRunB : LState → List LOp → Prop
  | _, [] => True
  | s, op :: r => LOp.proved s op ∧ admB s op = true ∧ C19.FineOut op (step H Hc s op).2 ∧ AdmRunB (step H Hc s op).1 r

theorem admRun_of_B : ∀ (ops : List LOp) (s : LState), AdmRunB H Hc s ops → AdmRun H Hc s ops := by
  intro ops
  induction ops with
  | nil => intro s _; trivial
  | cons op r ih => intro s h; exact ⟨h.1, admB_sound h.2.1, h.2.2.1, ih _ h.2.2.2⟩

/-! ### the side condition is needed: `Inv` alone does not exclude cycles -/
section cyclic
open PyOak.Legacy.Ex

/-- a content digest with collisions (everything collides) -/
def K : Str → Str := fun _ => []

def decGoodRunK : ∀ (ops : List LOp) (s : LState), Decidable (GoodRun id K s ops)
  | [], _ => isTrue trivial
  | op :: r, s =>
    have := decGoodRunK r (step id K s op).1
    inferInstanceAs (Decidable
      (LOp.proved s op ∧ (step id K s op).2.isOk = true ∧ GoodRun id K (step id K s op).1 r))

instance (s : LState) (ops : List LOp) : Decidable (GoodRun id K s ops) := decGoodRunK ops s

/-- leaf 0, node 1 over it, node 2 over node 1, then `leaf.replace_with(root)`: the root is put below its own
descendant -/
def histCyc : List LOp := [.new (leaf "1"), .new (un 0), .new (un 1), .rwith 0 (some 2)]

/-- **the audit's witness**: with a colliding content digest the inadmissible call returns (`_replace_child` skips
the `_reset_content_id` walk because the content ids of the old and the new child agree; with an injective
digest the same call does not return, `example … = .raised .hang` in Props/C18.lean), every step of the history
is accepted, the invariant holds of the result -- and the result contains the attached 2-cycle `1 → 2 → 1`.
The last step is exactly the one that `Admissible` excludes. -/
theorem cyclic_reachable :
    GoodRun id K init histCyc ∧ Inv K (run id K init histCyc) ∧ ¬ Ranked (run id K init histCyc) ∧
      Att (run id K init histCyc) 1 ∧ Att (run id K init histCyc) 2 ∧
      (run id K init histCyc).parent 1 = some 2 ∧ (run id K init histCyc).parent 2 = some 1 ∧
      ¬ Admissible (run id K init (histCyc.take 3)) (.rwith 0 (some 2)) := by
  refine ⟨by decide, inv_run_init id K _ (by decide), ?_, by decide, by decide, by decide, by decide, ?_⟩
  · rintro ⟨r, hr⟩
    have h1 := hr 1 (by decide) 2 (by decide)
    have h2 := hr 2 (by decide) 1 (by decide)
    omega
  · intro h
    exact h 1 (by decide) (Desc.step .refl (by decide))

end cyclic

/-! ### non-vacuity -/
section examples
open PyOak.Legacy.Ex

def decAdmRunB : ∀ (ops : List LOp) (s : LState), Decidable (AdmRunB id id s ops)
  | [], _ => isTrue trivial
  | op :: r, s =>
    have := decAdmRunB r (step id id s op).1
    inferInstanceAs (Decidable
      (LOp.proved s op ∧ admB s op = true ∧ C19.FineOut op (step id id s op).2 ∧ AdmRunB id id (step id id s op).1 r))

instance (s : LState) (ops : List LOp) : Decidable (AdmRunB id id s ops) := decAdmRunB ops s

/-- an admissible history with accepted and rejected operations: two leaves, a chain 3 → 2 → 0, `replace` of the
child 2 by a node over leaf 1 (a new link 3 → new node → 1), a rejected constructor, `replace_with` of a child
by a detached node and by an attached root, a rejected `replace_with`, removal of a child -/
def histAdm : List LOp :=
  [.new (leaf "1"), .new (leaf "2"), .new (un 0), .new (un 2),
   .replace 2 ⟨[], [("arg".toList, [1])], false⟩,          -- node 4 over leaf 1 replaces node 2 under node 3
   .new (tup [1, 1]),                                       -- rejected (dupChildren); consumes number 5
   .new { leaf "3" with createDetached := true },           -- 6, detached
   .rwith 1 (some 6),                                       -- leaf 1 under node 4 replaced by the detached leaf 6
   .new (un 0),                                             -- 7 over the (now free) leaf 0
   .rwith 6 (some 7),                                       -- leaf 6 replaced by the attached root 7
   .rwith 7 (some 3),                                       -- INADMISSIBLE (3 is the root above 7): does not return
   .detach 3 false]

example : AdmRunB id id init (histAdm.take 10) := by decide
theorem inv_ranked_histAdm : Inv id (st (histAdm.take 10)) ∧ Ranked (st (histAdm.take 10)) :=
  inv_ranked_run_init id id _ (admRun_of_B id id _ init (by decide))
-- the certificate is used for real: the replaced nodes have parents
example : (st (histAdm.take 4)).parent 2 = some 3 ∧ admB (st (histAdm.take 4)) (.replace 2 ⟨[], [("arg".toList, [1])], false⟩) = true ∧
    (st (histAdm.take 9)).parent 6 = some 4 ∧ admB (st (histAdm.take 9)) (.rwith 6 (some 7)) = true := by decide
example : outOf (histAdm.take 5) (.new (tup [1, 1])) = .raised .dupChildren := by decide
-- putting the root 3 below its descendant 7 is not admissible (and here the certificate fails as it must)
example : admB (st (histAdm.take 10)) (.rwith 7 (some 3)) = false := by decide
example : ¬ Admissible (st (histAdm.take 10)) (.rwith 7 (some 3)) := fun h =>
  h 4 (by decide) (Desc.step .refl (by decide))
-- one step
example : Ranked (step id id (st (histAdm.take 9)) (.rwith 6 (some 7))).1 :=
  ranked_step id id (s := st (histAdm.take 9)) (op := .rwith 6 (some 7))
    (inv_ranked_run_init id id _ (admRun_of_B id id _ init (by decide))).1
    (inv_ranked_run_init id id _ (admRun_of_B id id _ init (by decide))).2 (admB_sound (by decide))
-- the content-id clause, with the tree supplied by the theorem
example : ∃ t, Matches (st (histAdm.take 10)) 3 t ∧ ((st (histAdm.take 10)).obj 3).cid = CTree.cid id t :=
  cid_eq_tree id inv_ranked_histAdm.1 inv_ranked_histAdm.2 (by decide)
example := matches_exists id inv_ranked_histAdm.1 inv_ranked_histAdm.2 7 (by decide)
example := replaceWith_edges id 9 (st (histAdm.take 9)) 6 (some 7)
example := duplicate_ev id id 9 true 9 (st (histAdm.take 10)) 3 inv_ranked_histAdm.1.closed (by decide)

end examples

#print axioms replaceWith_edges
#print axioms ranked_of_ev
#print axioms ranked_add_edge
#print axioms replace_ranked
#print axioms duplicate_ev
#print axioms ranked_step
#print axioms inv_ranked_run
#print axioms inv_ranked_run_init
#print axioms matches_exists
#print axioms cid_eq_tree
#print axioms cid_eq_tree_run
#print axioms admB_sound
#print axioms cyclic_reachable

end PyOak.Legacy.C18
