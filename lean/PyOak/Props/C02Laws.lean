/-
C02 (addition, AUDIT item #6) — `==` is an equivalence relation OUTRIGHT.

`C02.eq_symm` / `C02.eq_trans` carry `Function.Injective H`, `WFN` and `Conforms sig` for every
node involved; none of these is needed:
    eq_comm        eqImpl H a b = eqImpl H b a            (also when the strict zip raises)
    eq_symm_any    eqImpl H a b = .ok true → eqImpl H b a = .ok true
    eq_trans_any   eqImpl H a b = .ok true → eqImpl H b c = .ok true → eqImpl H a c = .ok true
    eq_equivalence `fun a b => eqImpl H a b = .ok true` is an `Equivalence`
for every digest function `H` (collisions allowed) and arbitrary trees (no class table, no name
hygiene).  The old names are instances (see the `example`s at the end).
`eq_of_nodeEq` is the sound direction of `eq_iff` for an arbitrary digest.
-/
import PyOak.Props.C02
import PyOak.Props.C01Sound
namespace PyOak
namespace C02
open C01

theorem zipOrigins_comm : ∀ xs ys : List Item, zipOrigins xs ys = zipOrigins ys xs
  | [], [] => rfl
  | [], _ :: _ => rfl
  | _ :: _, [] => rfl
  | x :: xs, y :: ys => by
    simp only [zipOrigins]
    rw [zipOrigins_comm xs ys]
    by_cases h : x.node.org.key = y.node.org.key
    · simp [h]
    · have h' : ¬ y.node.org.key = x.node.org.key := fun e => h e.symm
      simp [h, h']

theorem zipOrigins_trans : ∀ xs ys zs : List Item, zipOrigins xs ys = .ok true →
    zipOrigins ys zs = .ok true → zipOrigins xs zs = .ok true
  | [], [], [], _, _ => rfl
  | [], [], _ :: _, _, h => by simp [zipOrigins] at h
  | [], _ :: _, _, h, _ => by simp [zipOrigins] at h
  | _ :: _, [], _, h, _ => by simp [zipOrigins] at h
  | _ :: _, _ :: _, [], _, h => by simp [zipOrigins] at h
  | x :: xs, y :: ys, z :: zs, h1, h2 => by
    simp only [zipOrigins] at h1 h2 ⊢
    by_cases e1 : x.node.org.key = y.node.org.key
    · by_cases e2 : y.node.org.key = z.node.org.key
      · simp [e1, e2] at h1 h2 ⊢
        exact zipOrigins_trans xs ys zs h1 h2
      · simp [e2] at h2
    · simp [e1] at h1

/-- `a == b` and `b == a` have the same outcome (True, False, or the ValueError of the strict
zip) — for every digest and all trees -/
theorem eq_comm (H : Str → Str) (a b : Node) : eqImpl H a b = eqImpl H b a := by
  rw [eqImpl_eq, eqImpl_eq, zipOrigins_comm]
  by_cases h : a.cls = b.cls ∧ cid H a = cid H b ∧ a.org.key = b.org.key
  · have h' : b.cls = a.cls ∧ cid H b = cid H a ∧ b.org.key = a.org.key :=
      ⟨h.1.symm, h.2.1.symm, h.2.2.symm⟩
    rw [if_pos h, if_pos h']
  · have h' : ¬ (b.cls = a.cls ∧ cid H b = cid H a ∧ b.org.key = a.org.key) :=
      fun e => h ⟨e.1.symm, e.2.1.symm, e.2.2.symm⟩
    rw [if_neg h, if_neg h']

/-- `!=` is symmetric as well -/
theorem ne_comm (H : Str → Str) (a b : Node) : neImpl H a b = neImpl H b a := by
  rw [ne_eq_not, ne_eq_not, eq_comm]

/-- symmetry without hypotheses -/
theorem eq_symm_any (H : Str → Str) (a b : Node) (h : eqImpl H a b = .ok true) :
    eqImpl H b a = .ok true := by rw [eq_comm]; exact h

/-- transitivity without hypotheses -/
theorem eq_trans_any (H : Str → Str) (a b c : Node) (h1 : eqImpl H a b = .ok true)
    (h2 : eqImpl H b c = .ok true) : eqImpl H a c = .ok true := by
  rw [eqImpl_eq] at h1 h2 ⊢
  split at h1
  · rename_i g1
    split at h2
    · rename_i g2
      rw [if_pos ⟨g1.1.trans g2.1, g1.2.1.trans g2.2.1, g1.2.2.trans g2.2.2⟩]
      exact zipOrigins_trans _ _ _ h1 h2
    · simp at h2
  · simp at h1

/-- "`==` is an equivalence relation on nodes" — for every digest, all trees -/
theorem eq_equivalence (H : Str → Str) : Equivalence (fun a b : Node => eqImpl H a b = .ok true) :=
  ⟨eq_refl H, fun {a b} => eq_symm_any H a b, fun {a b c} => eq_trans_any H a b c⟩

/-- sound direction of `eq_iff` for an ARBITRARY digest: same content and `==` origins at every
position make `==` answer True (collisions can only add equalities) -/
theorem eq_of_nodeEq (H : Str → Str) (sig : Str → List (Str × Bool)) (a b : Node)
    (ha : WFN a) (hb : WFN b) (ca : Conforms sig a) (cb : Conforms sig b) (h : NodeEq a b) :
    eqImpl H a b = .ok true := by
  obtain ⟨hc, ho⟩ := h
  obtain ⟨h1, h2⟩ := zip_of_contentEq sig a b ha hb ca cb hc
  have h3 := h2.mp ho
  rw [eqImpl_eq, if_pos ⟨contentEq_cls hc, cid_of_contentEq H a b ha hb hc, h3.1⟩, h1]
  simp [h3.2]

/-! the statements audited under the old names are instances of the new ones -/
example (H : Str → Str) (_hinj : Function.Injective H) (_hsep : ∀ s, ∀ c ∈ H s, c ≠ ':')
    (sig : Str → List (Str × Bool)) (a b : Node) (_ : WFN a) (_ : WFN b) (_ : Conforms sig a)
    (_ : Conforms sig b) (h : eqImpl H a b = .ok true) : eqImpl H b a = .ok true :=
  eq_symm_any H a b h
example (H : Str → Str) (_hinj : Function.Injective H) (_hsep : ∀ s, ∀ c ∈ H s, c ≠ ':')
    (sig : Str → List (Str × Bool)) (a b c : Node) (_ : WFN a) (_ : WFN b) (_ : WFN c)
    (_ : Conforms sig a) (_ : Conforms sig b) (_ : Conforms sig c)
    (h1 : eqImpl H a b = .ok true) (h2 : eqImpl H b c = .ok true) : eqImpl H a c = .ok true :=
  eq_trans_any H a b c h1 h2

namespace Demo
open C01.Demo (Hconst)

-- non-vacuity of `eq_trans_any`'s hypotheses, with a colliding digest
example : eqImpl Hconst t1 t2 = .ok true ∧ eqImpl Hconst t2 t1 = .ok true := by decide
example : eqImpl Hconst t1 t1 = .ok true := eq_trans_any Hconst t1 t2 t1 (by decide) (by decide)
-- `eq_comm` also covers the raising case: with a colliding digest the strict zip raises, both ways
example : eqImpl Hconst t1 t4 = .error () ∧ eqImpl Hconst t4 t1 = .error () := by decide
-- and the False case
example : eqImpl Hesc t1 t3 = .ok false ∧ eqImpl Hesc t3 t1 = .ok false := by decide
-- `eq_of_nodeEq` with the colliding digest
example : eqImpl Hconst t1 t2 = .ok true :=
  eq_of_nodeEq Hconst sig t1 t2 (wf_tree ..) (wf_tree ..) (conf_tree ..) (conf_tree ..)
    ((eq_iff Hesc Hesc_injective Hesc_no_colon sig t1 t2 (wf_tree ..) (wf_tree ..) (conf_tree ..)
      (conf_tree ..)).mp (by decide))

end Demo

end C02
end PyOak
