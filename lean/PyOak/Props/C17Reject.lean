/-
C17, the REJECTION half (AUDIT.md, C17 §4; the audited theorems covered acceptance only).

Interpreter level (`PM.compile`, = `PatternDefInterpreter().visit(parsed)`):
 * `accepts_iff_wf`       — `(∃ m, compile K p = .ok m) ↔ p.WF K []`: the well-formedness predicate of the
                            acceptance theorem is EXACT (not too strong): every ill-formed tree is rejected;
 * `wf_iff_clauses`       — `WF` (which threads the seen-set like the compiler) is equivalent to the four
                            clauses of the property text, stated independently:
                            every class name exists and is a node class ∧ every regex compiles ∧ the capture
                            names are pairwise distinct (`p.caps.Nodup`) ∧ every variable follows a capture of
                            its name (`p.VB []`);
   `accepts_iff_clauses`  — the two combined;
 * `compile_err_cause`    — WHICH error: `unknownClass` ⇒ some class name of the text is unknown,
                            `notNodeClass` ⇒ some class name is a non-node class, `dupCapture` ⇒ the capture
                            names are not pairwise distinct, `unboundVar` ⇒ some variable does not follow its
                            capture, `badRegex` ⇒ some regex of the text does not compile, and
                            `runtime` (the interpreter's `RuntimeError` ⇒ "Unexpected error", F8) NEVER;
   `compile_no_runtime`   — `compile K p ≠ .error .runtime` for EVERY syntax tree.
Text level (`PM.compilePattern`, = `validate_pattern` / `NodeMatcher.from_pattern`):
 * `pattern_rendering_accepted_iff` — for every derivation of the grammar and every white-space
                            interleaving: accepted ↔ the tree is well-formed;
 * `pattern_rejects_illformed` — every rendering of an ill-formed derivation is rejected with the definition
                            error of the interpreter (`.interp e`, `e ≠ .runtime`, with the cause of `e`);
 * `compilePattern_no_runtime` — for ARBITRARY text the result is never `.error (.interp .runtime)`;
   `compilePattern_trichotomy` — arbitrary text: accepted, or syntax error, or one of the five causes.
XPath:
 * `parseXPath_nonempty`  — for ARBITRARY text: an accepted xpath has at least one element ("usable":
                            `elements[0]` in `_match_node_xpath` is safe) and its self element is not
                            `anywhere`-less garbage: it carries the class of the last step;
 * `xwalk_no_indexError`  — the `IndexError` branch of the transformer walk is unreachable for every text
                            the parser accepts (so `none` of `parseXPath` = lexer / parser / class rejection);
 * `xpath_unknown_class_rejected` — a written path naming a class that is not a node class is rejected,
                            whatever the white space.
-/
import PyOak.Props.C17Pattern
namespace PyOak
namespace PM

/-! ### the clauses of the property text, each on its own -/

def ClassSpec.classNames : ClassSpec → List Str
  | .any => []
  | .names f r => f :: r

/-! all class names written in a pattern (text order) -/
mutual
def Pat.classNames : Pat → List Str
  | .mk cls fields => cls.classNames ++ fields.classNames
def Fields.classNames : Fields → List Str
  | .nil => []
  | .cons _ spec _ rest => spec.classNames ++ rest.classNames
def FSpec.classNames : FSpec → List Str
  | .any => []
  | .val v => v.classNames
  | .seq items _ => items.classNames
def Items.classNames : Items → List Str
  | .nil => []
  | .cons v _ rest => v.classNames ++ rest.classNames
def PVal.classNames : PVal → List Str
  | .tree p => p.classNames
  | _ => []
end

/-! all regex bodies written in a pattern -/
mutual
def Pat.regexes : Pat → List Str
  | .mk _ fields => fields.regexes
def Fields.regexes : Fields → List Str
  | .nil => []
  | .cons _ spec _ rest => spec.regexes ++ rest.regexes
def FSpec.regexes : FSpec → List Str
  | .any => []
  | .val v => v.regexes
  | .seq items _ => items.regexes
def Items.regexes : Items → List Str
  | .nil => []
  | .cons v _ rest => v.regexes ++ rest.regexes
def PVal.regexes : PVal → List Str
  | .tree p => p.regexes
  | .re s => [s]
  | _ => []
end

/-! `X.VB seen` ("variables bound"): every `$x` in `X` is preceded, in text order, by a capture `-> x`
(or `x ∈ seen`: captured before `X`).  Only the variable clause; no class, regex or freshness test. -/
mutual
def Pat.VB : Pat → List Str → Prop
  | .mk _ fields, seen => fields.VB seen
def Fields.VB : Fields → List Str → Prop
  | .nil, _ => True
  | .cons _ spec cap rest, seen => spec.VB seen ∧ rest.VB (capOpt cap ++ (spec.caps.reverse ++ seen))
def FSpec.VB : FSpec → List Str → Prop
  | .any, _ => True
  | .val v, seen => v.VB seen
  | .seq items _, seen => items.VB seen
def Items.VB : Items → List Str → Prop
  | .nil, _ => True
  | .cons v cap rest, seen => v.VB seen ∧ rest.VB (capOpt cap ++ (v.caps.reverse ++ seen))
def PVal.VB : PVal → List Str → Prop
  | .tree p, seen => p.VB seen
  | .var x, seen => x ∈ seen
  | _, _ => True
end

/-- what an interpreter error says about the text: `cn` the class names, `rx` the regexes, `cs` the
capture names (newest first) in front of the names seen before, `vb` the variable clause -/
def Cause (K : CEnv) (cn rx cs : List Str) (vb : Prop) : CErr → Prop
  | .unknownClass => ∃ c ∈ cn, K.cls c = .unknown
  | .notNodeClass => ∃ c ∈ cn, K.cls c = .notNode
  | .dupCapture => ¬ cs.Nodup
  | .unboundVar => ¬ vb
  | .badRegex => ∃ s ∈ rx, K.rxOk s = false
  | .runtime => False

theorem Cause.mono {K : CEnv} {cn rx cs cn' rx' cs' : List Str} {vb vb' : Prop} {e : CErr}
    (h : Cause K cn rx cs vb e) (h1 : ∀ c ∈ cn, c ∈ cn') (h2 : ∀ s ∈ rx, s ∈ rx')
    (h3 : cs'.Nodup → cs.Nodup) (h4 : vb' → vb) : Cause K cn' rx' cs' vb' e := by
  cases e with
  | unknownClass => obtain ⟨c, hc, hk⟩ := h; exact ⟨c, h1 c hc, hk⟩
  | notNodeClass => obtain ⟨c, hc, hk⟩ := h; exact ⟨c, h1 c hc, hk⟩
  | dupCapture => exact fun hn => h (h3 hn)
  | unboundVar => exact fun hv => h (h4 hv)
  | badRegex => obtain ⟨s, hs, hk⟩ := h; exact ⟨s, h2 s hs, hk⟩
  | runtime => exact h

end PM

namespace C17
open PM

/-! ## rejected ⇒ ill-formed (the converse of `accepts_wellformed`) -/

theorem resolveNames_node (K : CEnv) : ∀ (l ts : List Str), resolveNames K l = .ok ts → ∀ c ∈ l, K.cls c = .node := by
  intro l
  induction l with
  | nil => intro ts _ c hc; cases hc
  | cons a r ih =>
    intro ts h c hc
    simp only [resolveNames] at h
    split at h <;> try contradiction
    rename_i hk
    split at h <;> try contradiction
    rename_i ts' hts
    cases hc with
    | head => exact hk
    | tail _ hc => exact ih ts' hts c hc

theorem classes_ok (K : CEnv) (cls : ClassSpec) (ts : List Str) (h : resolveClasses K cls = .ok ts) : ClassesOK K cls := by
  cases cls with
  | any => trivial
  | names f r => exact resolveNames_node K _ ts h

theorem applyCap_fresh (m : Matcher) (cap : Option Str) (seen : List Str) (m' : Matcher) (seen' : List Str)
    (h : applyCap m cap seen = .ok (m', seen')) : CapFresh cap seen := by
  intro c hc
  subst hc
  simp only [applyCap, checkCap, List.contains_iff_mem] at h
  intro hm
  simp [hm] at h

theorem finishSeq_fresh (ms : Matchers) (tail : Option (Option Str)) (seen : List Str) (m : Matcher) (seen' : List Str)
    (h : finishSeq ms tail seen = .ok (m, seen')) :
    (match tail with | some t => CapFresh t seen | none => True) := by
  cases tail with
  | none => trivial
  | some t =>
    cases t with
    | none => intro c hc; cases hc
    | some c =>
      intro c' hc'
      injection hc' with hc'
      subst hc'
      simp only [finishSeq, checkCap, List.contains_iff_mem] at h
      intro hm
      simp [hm] at h

mutual
theorem pat_wf (K : CEnv) : ∀ (p : Pat) (seen : List Str) (m : Matcher) (seen' : List Str),
    compilePat K p seen = .ok (m, seen') → p.WF K seen
  | .mk cls fields, seen, m, seen', h => by
    simp only [compilePat] at h
    split at h
    · cases h
    rename_i ts hts
    split at h
    · cases h
    rename_i content seen2 hf
    exact ⟨classes_ok K cls ts hts, fields_wf K fields seen content seen2 hf⟩
theorem fields_wf (K : CEnv) : ∀ (fs : Fields) (seen : List Str) (c : Content) (seen' : List Str),
    compileFields K fs seen = .ok (c, seen') → fs.WF K seen
  | .nil, _, _, _, _ => trivial
  | .cons name spec cap rest, seen, c, seen', h => by
    simp only [compileFields] at h
    split at h
    · cases h
    rename_i m seen1 hs
    split at h
    · cases h
    rename_i m' seen2 hcap
    split at h
    · cases h
    rename_i c2 seen3 hrest
    have e1 := (C08.fspec_seen K spec seen m seen1 hs).1
    have e2 := (C08.applyCap_seen m cap seen1 m' seen2 hcap).1
    refine ⟨fspec_wf K spec seen m seen1 hs, ?_, ?_⟩
    · rw [← e1]; exact applyCap_fresh m cap seen1 m' seen2 hcap
    · rw [← e1, ← e2]; exact fields_wf K rest seen2 c2 seen3 hrest
theorem fspec_wf (K : CEnv) : ∀ (spec : FSpec) (seen : List Str) (m : Matcher) (seen' : List Str),
    compileFSpec K spec seen = .ok (m, seen') → spec.WF K seen
  | .any, _, _, _, _ => trivial
  | .val pv, seen, m, seen', h => by
    simp only [compileFSpec] at h
    exact val_wf K pv seen m seen' h
  | .seq items tail, seen, m, seen', h => by
    simp only [compileFSpec] at h
    split at h
    · cases h
    rename_i ms seen1 hi
    have e1 := (C08.items_seen K items seen ms seen1 hi).1
    refine ⟨items_wf K items seen ms seen1 hi, ?_⟩
    subst e1
    have := finishSeq_fresh ms tail _ m seen' h
    cases tail with
    | none => trivial
    | some t => exact this
theorem items_wf (K : CEnv) : ∀ (items : Items) (seen : List Str) (ms : Matchers) (seen' : List Str),
    compileItems K items seen = .ok (ms, seen') → items.WF K seen
  | .nil, _, _, _, _ => trivial
  | .cons pv cap rest, seen, ms, seen', h => by
    simp only [compileItems] at h
    split at h
    · cases h
    rename_i m seen1 hv
    split at h
    · cases h
    rename_i m' seen2 hcap
    split at h
    · cases h
    rename_i ms2 seen3 hrest
    have e1 := (C08.val_seen K pv seen m seen1 hv).1
    have e2 := (C08.applyCap_seen m cap seen1 m' seen2 hcap).1
    refine ⟨val_wf K pv seen m seen1 hv, ?_, ?_⟩
    · rw [← e1]; exact applyCap_fresh m cap seen1 m' seen2 hcap
    · rw [← e1, ← e2]; exact items_wf K rest seen2 ms2 seen3 hrest
theorem val_wf (K : CEnv) : ∀ (pv : PVal) (seen : List Str) (m : Matcher) (seen' : List Str),
    compileVal K pv seen = .ok (m, seen') → pv.WF K seen
  | .tree p, seen, m, seen', h => by
    simp only [compileVal] at h
    exact pat_wf K p seen m seen' h
  | .var x, seen, m, seen', h => by
    simp only [compileVal] at h
    split at h
    · rename_i hx; exact (by simpa using hx : x ∈ seen)
    · cases h
  | .none, _, _, _, _ => trivial
  | .re s, seen, m, seen', h => by
    simp only [compileVal] at h
    split at h
    · rename_i hx; exact hx
    · cases h
end

/-- the interpreter accepts a subtree, given the names seen before it, exactly when it is well-formed -/
theorem compilePat_ok_iff_wf (K : CEnv) (p : Pat) (seen : List Str) :
    (∃ m seen', compilePat K p seen = .ok (m, seen')) ↔ p.WF K seen :=
  ⟨fun ⟨m, seen', h⟩ => pat_wf K p seen m seen' h, pat_accept K p seen⟩

/-- **accepted ⇔ well-formed**: `WF` is exact; every ill-formed syntax tree is rejected -/
theorem accepts_iff_wf (K : CEnv) (p : Pat) : (∃ m, compile K p = .ok m) ↔ p.WF K [] := by
  constructor
  · rintro ⟨m, h⟩
    simp only [compile] at h
    split at h
    · cases h
    rename_i m' seen' hc
    exact pat_wf K p [] m' seen' hc
  · exact accepts_wellformed K p

/-- **every ill-formed syntax tree is rejected** (by the interpreter, with one of its errors) -/
theorem rejects_illformed (K : CEnv) (p : Pat) (h : ¬ p.WF K []) : ∃ e, compile K p = .error e := by
  cases hc : compile K p with
  | error e => exact ⟨e, rfl⟩
  | ok m => exact absurd ((accepts_iff_wf K p).1 ⟨m, hc⟩) h

/-! ## which error: the cause of each rejection; no "Unexpected error" -/

theorem resolveNames_err (K : CEnv) : ∀ (l : List Str) (e : CErr), resolveNames K l = .error e →
    (e = .unknownClass ∧ ∃ c ∈ l, K.cls c = .unknown) ∨ (e = .notNodeClass ∧ ∃ c ∈ l, K.cls c = .notNode) := by
  intro l
  induction l with
  | nil => intro e h; cases h
  | cons a r ih =>
    intro e h
    simp only [resolveNames] at h
    split at h
    · rename_i hk; injection h with h; exact Or.inl ⟨h.symm, a, by simp, hk⟩
    · rename_i hk; injection h with h; exact Or.inr ⟨h.symm, a, by simp, hk⟩
    · split at h
      · rename_i e' he
        injection h with h
        subst h
        rcases ih e' he with ⟨h1, c, hc, hk⟩ | ⟨h1, c, hc, hk⟩
        · exact Or.inl ⟨h1, c, by simp [hc], hk⟩
        · exact Or.inr ⟨h1, c, by simp [hc], hk⟩
      · cases h

theorem resolveClasses_err (K : CEnv) (cls : ClassSpec) (e : CErr) (h : resolveClasses K cls = .error e)
    (rx cs : List Str) (vb : Prop) : Cause K cls.classNames rx cs vb e := by
  cases cls with
  | any => cases h
  | names f r =>
    rcases resolveNames_err K (f :: r) e h with ⟨rfl, hc⟩ | ⟨rfl, hc⟩
    · exact hc
    · exact hc

/-- `applyCap` on a matcher the interpreter built fails only for a capture name already seen -/
theorem applyCap_err (m : Matcher) (cap : Option Str) (seen : List Str) (e : CErr) (hok : SeqOk m)
    (h : applyCap m cap seen = .error e) : e = .dupCapture ∧ ∃ c, cap = some c ∧ c ∈ seen := by
  cases cap with
  | none => cases h
  | some c =>
    obtain ⟨m', hset, -⟩ := C08.setName_spec m c hok
    by_cases hc : c ∈ seen
    · simp [applyCap, checkCap, hc] at h
      exact ⟨h.symm, c, rfl, hc⟩
    · simp [applyCap, checkCap, hc, hset] at h

/-- `finishSeq` on the matchers the interpreter built fails only for a tail capture name already seen -/
theorem finishSeq_err (ms : Matchers) (tail : Option (Option Str)) (seen : List Str) (e : CErr) (hno : NoAny ms)
    (h : finishSeq ms tail seen = .error e) : e = .dupCapture ∧ ∃ c, tail = some (some c) ∧ c ∈ seen := by
  cases tail with
  | none =>
    cases ms with
    | nil => cases h
    | cons m r => simp only [finishSeq, C08.mkSeq_noAny none m r hno] at h; cases h
  | some t =>
    cases t with
    | none => simp only [finishSeq, C08.mkSeq_snoc] at h; cases h
    | some c =>
      by_cases hc : c ∈ seen
      · simp [finishSeq, checkCap, hc] at h
        exact ⟨h.symm, c, rfl, hc⟩
      · simp [finishSeq, checkCap, hc, C08.mkSeq_snoc] at h

/-- membership in a sub-list of class names / regexes -/
local macro "sub_tac" : tactic => `(tactic| (
  intro x hx
  simp only [Pat.classNames, Fields.classNames, FSpec.classNames, Items.classNames, PVal.classNames,
    Pat.regexes, Fields.regexes, FSpec.regexes, Items.regexes, PVal.regexes, List.mem_append]
  first | exact hx | exact Or.inl hx | exact Or.inr hx))

private theorem nodup_suffix {a b : List Str} (h : (a ++ b).Nodup) : b.Nodup :=
  (List.nodup_append.mp h).2.1

private theorem not_nodup_dup (c : Str) (a s : List Str) (hc : c ∈ s) : ¬ (a ++ (c :: s)).Nodup := by
  intro h
  have := nodup_suffix h
  exact (List.nodup_cons.mp this).1 hc

mutual
theorem pat_err (K : CEnv) : ∀ (p : Pat) (seen : List Str) (e : CErr),
    compilePat K p seen = .error e → Cause K p.classNames p.regexes (p.caps.reverse ++ seen) (p.VB seen) e
  | .mk cls fields, seen, e, h => by
    simp only [compilePat] at h
    split at h
    · rename_i e' he
      injection h with h; subst h
      exact (resolveClasses_err K cls e' he _ _ _).mono (by sub_tac) (fun _ h => h) id id
    rename_i ts hts
    split at h
    · rename_i e' he
      injection h with h; subst h
      exact (fields_err K fields seen e' he).mono (by sub_tac) (by sub_tac)
        (by simp [Pat.caps]) (by simp [Pat.VB])
    · cases h
theorem fields_err (K : CEnv) : ∀ (fs : Fields) (seen : List Str) (e : CErr),
    compileFields K fs seen = .error e → Cause K fs.classNames fs.regexes (fs.caps.reverse ++ seen) (fs.VB seen) e
  | .nil, _, _, h => by cases h
  | .cons name spec cap rest, seen, e, h => by
    have hcaps : (Fields.cons name spec cap rest).caps.reverse ++ seen
        = rest.caps.reverse ++ (capOpt cap ++ (spec.caps.reverse ++ seen)) := by
      simp [Fields.caps, List.reverse_append, C08.capOpt_reverse, List.append_assoc]
    simp only [compileFields] at h
    split at h
    · rename_i e' he
      injection h with h; subst h
      refine (fspec_err K spec seen e' he).mono (by sub_tac) (by sub_tac) ?_
        (fun hv => hv.1)
      rw [hcaps]
      exact fun hn => nodup_suffix (nodup_suffix hn)
    rename_i m seen1 hs
    have e1 := (C08.fspec_seen K spec seen m seen1 hs).1
    obtain ⟨-, hseq, -⟩ := C08.fspec_ok K dummySem spec seen m seen1 hs
    split at h
    · rename_i e' he
      injection h with h; subst h
      obtain ⟨rfl, c, rfl, hc⟩ := applyCap_err m cap seen1 e' hseq he
      show ¬ _
      rw [hcaps, ← e1]
      exact not_nodup_dup c _ seen1 hc
    rename_i m' seen2 hcap
    have e2 := (C08.applyCap_seen m cap seen1 m' seen2 hcap).1
    split at h
    · rename_i e' he
      injection h with h; subst h
      refine (fields_err K rest seen2 e' he).mono (by sub_tac) (by sub_tac) ?_ ?_
      · rw [hcaps, e2, e1]; exact id
      · rw [e2, e1]; exact fun hv => hv.2
    · cases h
theorem fspec_err (K : CEnv) : ∀ (spec : FSpec) (seen : List Str) (e : CErr),
    compileFSpec K spec seen = .error e →
      Cause K spec.classNames spec.regexes (spec.caps.reverse ++ seen) (spec.VB seen) e
  | .any, _, _, h => by cases h
  | .val pv, seen, e, h => by
    simp only [compileFSpec] at h
    exact (val_err K pv seen e h).mono (by sub_tac) (by sub_tac)
      (by simp [FSpec.caps]) (by simp [FSpec.VB])
  | .seq items tail, seen, e, h => by
    simp only [compileFSpec] at h
    split at h
    · rename_i e' he
      injection h with h; subst h
      refine (items_err K items seen e' he).mono (by sub_tac) (by sub_tac) ?_
        (by simp [FSpec.VB])
      simp only [FSpec.caps, List.reverse_append, List.append_assoc]
      exact nodup_suffix
    rename_i ms seen1 hi
    have e1 := (C08.items_seen K items seen ms seen1 hi).1
    obtain ⟨-, hno, -⟩ := C08.items_ok K dummySem items seen ms seen1 hi
    obtain ⟨rfl, c, rfl, hc⟩ := finishSeq_err ms tail seen1 e hno h
    show ¬ _
    intro hn
    have hn' : (c :: (items.caps.reverse ++ seen)).Nodup := by
      simpa [FSpec.caps, capOpt, List.reverse_append] using hn
    exact (List.nodup_cons.mp hn').1 (e1 ▸ hc)
theorem items_err (K : CEnv) : ∀ (items : Items) (seen : List Str) (e : CErr),
    compileItems K items seen = .error e →
      Cause K items.classNames items.regexes (items.caps.reverse ++ seen) (items.VB seen) e
  | .nil, _, _, h => by cases h
  | .cons pv cap rest, seen, e, h => by
    have hcaps : (Items.cons pv cap rest).caps.reverse ++ seen
        = rest.caps.reverse ++ (capOpt cap ++ (pv.caps.reverse ++ seen)) := by
      simp [Items.caps, List.reverse_append, C08.capOpt_reverse, List.append_assoc]
    simp only [compileItems] at h
    split at h
    · rename_i e' he
      injection h with h; subst h
      refine (val_err K pv seen e' he).mono (by sub_tac) (by sub_tac) ?_
        (fun hv => hv.1)
      rw [hcaps]
      exact fun hn => nodup_suffix (nodup_suffix hn)
    rename_i m seen1 hv
    have e1 := (C08.val_seen K pv seen m seen1 hv).1
    obtain ⟨-, hk, -⟩ := C08.val_ok K dummySem pv seen m seen1 hv
    split at h
    · rename_i e' he
      injection h with h; subst h
      obtain ⟨rfl, c, rfl, hc⟩ := applyCap_err m cap seen1 e' (C08.valueKind_seqOk m hk) he
      show ¬ _
      rw [hcaps, ← e1]
      exact not_nodup_dup c _ seen1 hc
    rename_i m' seen2 hcap
    have e2 := (C08.applyCap_seen m cap seen1 m' seen2 hcap).1
    split at h
    · rename_i e' he
      injection h with h; subst h
      refine (items_err K rest seen2 e' he).mono (by sub_tac) (by sub_tac) ?_ ?_
      · rw [hcaps, e2, e1]; exact id
      · rw [e2, e1]; exact fun hv => hv.2
    · cases h
theorem val_err (K : CEnv) : ∀ (pv : PVal) (seen : List Str) (e : CErr),
    compileVal K pv seen = .error e → Cause K pv.classNames pv.regexes (pv.caps.reverse ++ seen) (pv.VB seen) e
  | .tree p, seen, e, h => by
    simp only [compileVal] at h
    exact (pat_err K p seen e h).mono (by sub_tac) (by sub_tac)
      (by simp [PVal.caps]) (by simp [PVal.VB])
  | .var x, seen, e, h => by
    simp only [compileVal] at h
    split at h
    · cases h
    · rename_i hx
      injection h with h; subst h
      exact fun hv => hx (by simpa [PVal.VB] using hv)
  | .none, _, _, h => by cases h
  | .re s, seen, e, h => by
    simp only [compileVal] at h
    split at h
    · cases h
    · rename_i hx
      injection h with h; subst h
      exact ⟨s, by simp [PVal.regexes], by simpa using hx⟩
end

/-- **the cause of each rejection**, for every syntax tree: the interpreter's error names a clause of
the property text that the tree violates; the `RuntimeError` path ("Unexpected error") is never taken -/
theorem compile_err_cause (K : CEnv) (p : Pat) (e : CErr) (h : compile K p = .error e) :
    match e with
    | .unknownClass => ∃ c ∈ p.classNames, K.cls c = .unknown
    | .notNodeClass => ∃ c ∈ p.classNames, K.cls c = .notNode
    | .dupCapture => ¬ p.caps.Nodup
    | .unboundVar => ¬ p.VB []
    | .badRegex => ∃ s ∈ p.regexes, K.rxOk s = false
    | .runtime => False := by
  simp only [compile] at h
  split at h
  · rename_i e' he
    injection h with h; subst h
    have := pat_err K p [] e' he
    cases e' with
    | dupCapture =>
      intro hn
      apply this
      simpa using (List.reverse_perm p.caps).nodup_iff.mpr hn
    | _ => exact this
  · cases h

/-- **no "Unexpected error"**: the interpreter's `RuntimeError` exits (`SequenceMatcher` without matchers,
F8) are unreachable for EVERY syntax tree, well-formed or not -/
theorem compile_no_runtime (K : CEnv) (p : Pat) : compile K p ≠ .error .runtime :=
  fun h => compile_err_cause K p .runtime h

/-! ## `WF` = the four clauses of the property text -/

mutual
theorem pat_wf_clauses (K : CEnv) : ∀ (p : Pat) (seen : List Str), p.WF K seen →
    (∀ c ∈ p.classNames, K.cls c = .node) ∧ (∀ s ∈ p.regexes, K.rxOk s = true) ∧ p.VB seen
  | .mk cls fields, seen, h => by
    obtain ⟨hc, hf⟩ := h
    obtain ⟨h1, h2, h3⟩ := fields_wf_clauses K fields seen hf
    refine ⟨?_, h2, h3⟩
    intro c hcm
    simp only [Pat.classNames, List.mem_append] at hcm
    rcases hcm with hcm | hcm
    · cases cls with
      | any => cases hcm
      | names f r => exact hc c hcm
    · exact h1 c hcm
theorem fields_wf_clauses (K : CEnv) : ∀ (fs : Fields) (seen : List Str), fs.WF K seen →
    (∀ c ∈ fs.classNames, K.cls c = .node) ∧ (∀ s ∈ fs.regexes, K.rxOk s = true) ∧ fs.VB seen
  | .nil, _, _ => ⟨by simp [Fields.classNames], by simp [Fields.regexes], trivial⟩
  | .cons name spec cap rest, seen, h => by
    obtain ⟨hs, -, hr⟩ := h
    obtain ⟨a1, a2, a3⟩ := fspec_wf_clauses K spec seen hs
    obtain ⟨b1, b2, b3⟩ := fields_wf_clauses K rest _ hr
    refine ⟨?_, ?_, a3, b3⟩
    · intro c hc
      simp only [Fields.classNames, List.mem_append] at hc
      exact hc.elim (a1 c) (b1 c)
    · intro s hsm
      simp only [Fields.regexes, List.mem_append] at hsm
      exact hsm.elim (a2 s) (b2 s)
theorem fspec_wf_clauses (K : CEnv) : ∀ (spec : FSpec) (seen : List Str), spec.WF K seen →
    (∀ c ∈ spec.classNames, K.cls c = .node) ∧ (∀ s ∈ spec.regexes, K.rxOk s = true) ∧ spec.VB seen
  | .any, _, _ => ⟨by simp [FSpec.classNames], by simp [FSpec.regexes], trivial⟩
  | .val pv, seen, h => val_wf_clauses K pv seen h
  | .seq items tail, seen, h => items_wf_clauses K items seen h.1
theorem items_wf_clauses (K : CEnv) : ∀ (items : Items) (seen : List Str), items.WF K seen →
    (∀ c ∈ items.classNames, K.cls c = .node) ∧ (∀ s ∈ items.regexes, K.rxOk s = true) ∧ items.VB seen
  | .nil, _, _ => ⟨by simp [Items.classNames], by simp [Items.regexes], trivial⟩
  | .cons pv cap rest, seen, h => by
    obtain ⟨hs, -, hr⟩ := h
    obtain ⟨a1, a2, a3⟩ := val_wf_clauses K pv seen hs
    obtain ⟨b1, b2, b3⟩ := items_wf_clauses K rest _ hr
    refine ⟨?_, ?_, a3, b3⟩
    · intro c hc
      simp only [Items.classNames, List.mem_append] at hc
      exact hc.elim (a1 c) (b1 c)
    · intro s hsm
      simp only [Items.regexes, List.mem_append] at hsm
      exact hsm.elim (a2 s) (b2 s)
theorem val_wf_clauses (K : CEnv) : ∀ (pv : PVal) (seen : List Str), pv.WF K seen →
    (∀ c ∈ pv.classNames, K.cls c = .node) ∧ (∀ s ∈ pv.regexes, K.rxOk s = true) ∧ pv.VB seen
  | .tree p, seen, h => pat_wf_clauses K p seen h
  | .var x, seen, h => ⟨by simp [PVal.classNames], by simp [PVal.regexes], h⟩
  | .none, _, _ => ⟨by simp [PVal.classNames], by simp [PVal.regexes], trivial⟩
  | .re s, _, h => by
    refine ⟨by simp [PVal.classNames], ?_, trivial⟩
    intro s' hs'
    simp only [PVal.regexes, List.mem_singleton] at hs'
    subst hs'
    exact h
end

/-- **`WF` says what the property text says**: class names exist and are node classes, regexes compile,
capture names are pairwise distinct (and new w.r.t. `seen`), variables follow their captures -/
theorem wf_iff_clauses (K : CEnv) (p : Pat) (seen : List Str) (hseen : seen.Nodup) :
    p.WF K seen ↔
      (∀ c ∈ p.classNames, K.cls c = .node) ∧ (∀ s ∈ p.regexes, K.rxOk s = true)
        ∧ (p.caps.reverse ++ seen).Nodup ∧ p.VB seen := by
  constructor
  · intro h
    obtain ⟨h1, h2, h3⟩ := pat_wf_clauses K p seen h
    obtain ⟨m, seen', hc⟩ := pat_accept K p seen h
    obtain ⟨e, hn⟩ := C08.pat_seen K p seen m seen' hc
    exact ⟨h1, h2, e ▸ hn hseen, h3⟩
  · rintro ⟨h1, h2, h3, h4⟩
    cases hc : compilePat K p seen with
    | ok r => exact pat_wf K p seen r.1 r.2 hc
    | error e =>
      have := pat_err K p seen e hc
      cases e with
      | unknownClass => obtain ⟨c, hcm, hk⟩ := this; rw [h1 c hcm] at hk; cases hk
      | notNodeClass => obtain ⟨c, hcm, hk⟩ := this; rw [h1 c hcm] at hk; cases hk
      | dupCapture => exact absurd h3 this
      | unboundVar => exact absurd h4 this
      | badRegex => obtain ⟨s, hsm, hk⟩ := this; rw [h2 s hsm] at hk; cases hk
      | runtime => exact this.elim

/-- **accepted ⇔ the four clauses of the property text** -/
theorem accepts_iff_clauses (K : CEnv) (p : Pat) :
    (∃ m, compile K p = .ok m) ↔
      (∀ c ∈ p.classNames, K.cls c = .node) ∧ (∀ s ∈ p.regexes, K.rxOk s = true)
        ∧ p.caps.Nodup ∧ p.VB [] := by
  rw [accepts_iff_wf, wf_iff_clauses K p [] List.nodup_nil, List.append_nil,
    (List.reverse_perm p.caps).nodup_iff]

/-! ## text level: every rendering of every derivation -/

/-- **accepted ⇔ well-formed, on the text**: for every derivation of the pattern grammar and every white
space interleaving -/
theorem pattern_rendering_accepted_iff (K : CEnv) (p : CPat) (wEnd : Str) (hok : p.OK) (hw : AllWS wEnd) :
    (∃ m, compilePattern K (p.render ++ wEnd) = .ok m) ↔ p.strip.WF K [] := by
  rw [← accepts_iff_wf]
  simp only [compilePattern, parse_render p wEnd hok hw]
  cases compile K p.strip with
  | ok m => simp
  | error e => simp

/-- **every rendering of an ill-formed derivation is rejected with the definition error** of the
interpreter — never with a syntax error, never with "Unexpected error" — and the error names its cause -/
theorem pattern_rejects_illformed (K : CEnv) (p : CPat) (wEnd : Str) (hok : p.OK) (hw : AllWS wEnd)
    (hill : ¬ p.strip.WF K []) :
    ∃ e, compilePattern K (p.render ++ wEnd) = .error (.interp e) ∧ e ≠ .runtime
      ∧ compile K p.strip = .error e := by
  obtain ⟨e, he⟩ := rejects_illformed K p.strip hill
  refine ⟨e, by simp only [compilePattern, parse_render p wEnd hok hw, he], ?_, he⟩
  rintro rfl
  exact compile_no_runtime K _ he

/-- for ARBITRARY text: never "Unexpected error" from a `RuntimeError` of the interpreter -/
theorem compilePattern_no_runtime (K : CEnv) (text : Str) : compilePattern K text ≠ .error (.interp .runtime) := by
  intro h
  simp only [compilePattern] at h
  split at h
  · cases h
  · rename_i p hp
    split at h
    · rename_i e he
      injection h with h; injection h with h; subst h
      exact compile_no_runtime K p he
    · cases h

/-- for ARBITRARY text: compiled, or a syntax error, or an interpreter error whose cause is a violated
clause of the parsed tree -/
theorem compilePattern_trichotomy (K : CEnv) (text : Str) :
    (∃ m, compilePattern K text = .ok m)
    ∨ (compilePattern K text = .error .syntax ∧ parsePattern text = none)
    ∨ (∃ p e, parsePattern text = some p ∧ compilePattern K text = .error (.interp e) ∧ e ≠ .runtime
        ∧ ¬ p.WF K []) := by
  cases hp : parsePattern text with
  | none => exact Or.inr (Or.inl ⟨by simp only [compilePattern, hp], rfl⟩)
  | some p =>
    cases hc : compile K p with
    | ok m => exact Or.inl ⟨m, by simp only [compilePattern, hp, hc]⟩
    | error e =>
      refine Or.inr (Or.inr ⟨p, e, rfl, by simp only [compilePattern, hp, hc], ?_, ?_⟩)
      · rintro rfl; exact compile_no_runtime K p hc
      · intro hwf
        obtain ⟨m, hm⟩ := accepts_wellformed K p hwf
        rw [hm] at hc; cases hc

/-! ## xpath: an accepted text yields a usable xpath -/

theorem parseSteps_last (known : Str → Bool) : ∀ (fuel : Nat) (toks : List XTok) (raws : List RawEl),
    parseSteps known fuel toks = some raws → ∃ init x, raws = init ++ [some x]
  | 0, _, _, h => by simp [parseSteps] at h
  | fuel + 1, toks, raws, h => by
    cases toks with
    | nil => simp [parseSteps] at h
    | cons t r =>
      cases t <;> try (simp [parseSteps] at h; done)
      simp only [parseSteps] at h
      cases hb : parseStepBody known r with
      | none => rw [hb] at h; cases h
      | some q =>
        obtain ⟨fld, idx, cls, rest⟩ := q
        rw [hb] at h
        simp only at h
        cases rest with
        | nil =>
          cases cls with
          | none => simp at h
          | some c =>
            cases fld <;> cases idx <;> simp at h <;> exact ⟨[], _, h.symm⟩
        | cons t2 r2 =>
          simp only at h
          cases hp : parseSteps known fuel (t2 :: r2) with
          | none => rw [hp] at h; simp at h
          | some rs =>
            rw [hp] at h
            obtain ⟨init, x, e⟩ := parseSteps_last known fuel _ rs hp
            simp only [Option.map_some, Option.some.injEq] at h
            exact ⟨_ :: init, x, by rw [← h, e]; rfl⟩

theorem xwalk_length : ∀ (raws : List RawEl) (acc els : List XElem), xwalk raws acc = some els →
    acc.length ≤ els.length
  | [], acc, els, h => by simp [xwalk] at h; subst h; simp
  | some (f, i, c) :: r, acc, els, h => by
    simp only [xwalk] at h
    have := xwalk_length r _ els h
    simp at this; omega
  | none :: r, acc, els, h => by
    cases acc with
    | nil => simp [xwalk] at h
    | cons e acc' =>
      simp only [xwalk] at h
      have := xwalk_length r _ els h
      simpa using this

/-- **the `IndexError` branch of the transformer is unreachable**: whatever step list the parser returns,
the reversed walk succeeds -/
theorem xwalk_no_indexError (known : Str → Bool) (fuel : Nat) (toks : List XTok) (raws : List RawEl)
    (h : parseSteps known fuel toks = some raws) : ∃ els, xwalk raws.reverse [] = some els ∧ els ≠ [] := by
  obtain ⟨init, ⟨f, i, c⟩, rfl⟩ := parseSteps_last known fuel toks raws h
  simp only [List.reverse_append, List.reverse_cons, List.reverse_nil, List.nil_append, List.singleton_append, xwalk]
  obtain ⟨els, hels⟩ := xwalk_some init.reverse [⟨c, f, i, false⟩] (by simp)
  refine ⟨els, hels, ?_⟩
  have := xwalk_length _ _ _ hels
  intro he; subst he; simp at this

/-- `if not xpath.startswith("/"): xpath = "//" + xpath` -/
def xprefix (text : Str) : Str :=
  match text with
  | '/' :: _ => text
  | _ => '/' :: '/' :: text

theorem parseXPath_eq (known : Str → Bool) (text : Str) :
    parseXPath known text =
      (match xlex ((xprefix text).length + 1) (xprefix text) with
       | none => none
       | some toks =>
         match parseSteps known (toks.length + 1) toks with
         | none => none
         | some raws => xwalk raws.reverse []) := rfl

/-- **"returns a usable xpath"**, for ARBITRARY text: an accepted xpath has at least one element (the
`elements[0]` access of `_match_node_xpath` is safe, `findall` has a first element to start from) -/
theorem parseXPath_nonempty (known : Str → Bool) (text : Str) (els : List XElem)
    (h : parseXPath known text = some els) : els ≠ [] := by
  rw [parseXPath_eq] at h
  cases hl : xlex ((xprefix text).length + 1) (xprefix text) with
  | none => simp [hl] at h
  | some toks =>
    cases hp : parseSteps known (toks.length + 1) toks with
    | none => simp [hl, hp] at h
    | some raws =>
      obtain ⟨els', h1, h2⟩ := xwalk_no_indexError known _ _ raws hp
      simp only [hl, hp, h1, Option.some.injEq] at h
      subst h
      exact h2

/-- for ARBITRARY text the model's `none` is a rejection by the lexer, the step parser or the class
lookup — never the transformer's `IndexError` -/
theorem parseXPath_none_cause (known : Str → Bool) (text : Str) (h : parseXPath known text = none) :
    xlex ((xprefix text).length + 1) (xprefix text) = none
      ∨ ∃ toks, xlex ((xprefix text).length + 1) (xprefix text) = some toks
          ∧ parseSteps known (toks.length + 1) toks = none := by
  rw [parseXPath_eq] at h
  cases hl : xlex ((xprefix text).length + 1) (xprefix text) with
  | none => exact Or.inl rfl
  | some toks =>
    refine Or.inr ⟨toks, rfl, ?_⟩
    cases hp : parseSteps known (toks.length + 1) toks with
    | none => rfl
    | some raws =>
      obtain ⟨els', h1, -⟩ := xwalk_no_indexError known _ _ raws hp
      simp [hl, hp, h1] at h

/-! ### a written xpath naming a class that is not a node class is rejected -/

theorem parseStepBody_unknown (known : Str → Bool) (st : XStep) (rest : List XTok) (c : Str)
    (hc : st.cls = some c) (hk : known c = false) : parseStepBody known (bodyToks st ++ rest) = none := by
  obtain ⟨fld, idx, cls⟩ := st
  simp only at hc
  subst hc
  cases fld <;> cases idx <;> simp [parseStepBody, bodyToks, hk]
  all_goals
    rename_i ds
    have := digits_split (fun t => match t with | .digit _ => true | _ => false) (fun _ => rfl) rfl ds (.cname c :: rest)
    simp [this.1, this.2, hk]

theorem parseSteps_unknown (known : Str → Bool) : ∀ (p : List XStep) (fuel : Nat),
    (∃ st ∈ p, ∃ c, st.cls = some c ∧ known c = false) → parseSteps known fuel (pathToks p) = none
  | [], _, h => by obtain ⟨st, hst, _⟩ := h; cases hst
  | st :: p, 0, _ => by simp [parseSteps]
  | st :: p, fuel + 1, h => by
    rw [pathToks_cons]
    simp only [parseSteps]
    by_cases hst : ∃ c, st.cls = some c ∧ known c = false
    · obtain ⟨c, hc, hk⟩ := hst
      rw [parseStepBody_unknown known st (pathToks p) c hc hk]
    · have hp : ∃ st' ∈ p, ∃ c, st'.cls = some c ∧ known c = false := by
        obtain ⟨s, hs, c, hc, hk⟩ := h
        simp only [List.mem_cons] at hs
        rcases hs with rfl | hs
        · exact absurd ⟨c, hc, hk⟩ hst
        · exact ⟨s, hs, c, hc, hk⟩
      have hk : ∀ c, st.cls = some c → known c = true := by
        intro c hc
        cases hkc : known c with
        | true => rfl
        | false => exact absurd ⟨c, hc, hkc⟩ hst
      rw [parseStepBody_body known st (pathToks p) (pathToks_shape p) hk]
      simp only
      have ih := parseSteps_unknown known p fuel hp
      cases hpt : pathToks p with
      | nil =>
        obtain ⟨s, hs, _⟩ := hp
        cases p with
        | nil => cases hs
        | cons a b => rw [pathToks_cons] at hpt; cases hpt
      | cons t r =>
        rw [hpt] at ih
        simp [ih]

/-- **an unknown or non-node class is rejected**: a written xpath (any steps, any admissible white
space after its tokens) in which some step names a class that `check_and_get_ast_node_type` refuses -/
theorem xpath_unknown_class_rejected (known : Str → Bool) (path : List XStep) (tws : List (XTok × Str))
    (hbad : ∃ st ∈ path, ∃ c, st.cls = some c ∧ known c = false)
    (ht : tws.map (·.1) = pathToks path) (hs : SpacedOK tws) : parseXPath known (renderToks tws) = none := by
  obtain ⟨st, p', hpath⟩ : ∃ st p', path = st :: p' := by
    cases path with
    | nil => obtain ⟨s, hs', _⟩ := hbad; cases hs'
    | cons st p' => exact ⟨st, p', rfl⟩
  have hstart : ∃ r, renderToks tws = '/' :: r := by
    rw [hpath, pathToks_cons] at ht
    cases tws with
    | nil => simp at ht
    | cons tw r =>
      obtain ⟨t, ws⟩ := tw
      simp only [List.map_cons, List.cons.injEq] at ht
      obtain ⟨ht1, -⟩ := ht
      subst ht1
      exact ⟨_, rfl⟩
  obtain ⟨r, hr⟩ := hstart
  have hlex := xlex_render tws hs ((renderToks tws).length + 1) (by omega)
  simp only [parseXPath, hr]
  rw [← hr, hlex, ht]
  simp only [parseSteps_unknown known path _ hbad]

/-! ## non-vacuity -/
section Examples
open C08
-- ill-formed trees: each clause can fail, and the theorems apply
/-- `(* @i=$a)` : variable before its capture -/
def exBadVar : Pat := .mk .any (.cons ['i'] (.val (.var ['a'])) none .nil)
/-- `(* @i -> a @j -> a)` : capture name used twice -/
def exBadDup : Pat := .mk .any (.cons ['i'] .any (some ['a']) (.cons ['j'] .any (some ['a']) .nil))
/-- `(X)` : unknown class -/
def exBadCls : Pat := .mk (.names ['X'] []) .nil
example : ¬ exBadVar.WF exK [] := by simp [exBadVar, Pat.WF, Fields.WF, FSpec.WF, PVal.WF]
example : ¬ exBadDup.WF exK [] := by
  simp [exBadDup, Pat.WF, Fields.WF, FSpec.WF, CapFresh, FSpec.caps, capOpt]
example : ¬ exBadCls.WF exK [] := by simp [exBadCls, Pat.WF, ClassesOK, exK]
example : compile exK exBadVar = .error .unboundVar ∧ ¬ exBadVar.VB [] := by
  refine ⟨rfl, ?_⟩; simp [exBadVar, Pat.VB, Fields.VB, FSpec.VB, PVal.VB]
example : compile exK exBadDup = .error .dupCapture ∧ ¬ exBadDup.caps.Nodup := by
  refine ⟨rfl, ?_⟩; simp [exBadDup, Pat.caps, Fields.caps, FSpec.caps, capOpt]
example : compile exK exBadCls = .error .unknownClass ∧ ∃ c ∈ exBadCls.classNames, exK.cls c = .unknown :=
  ⟨rfl, ['X'], by simp [exBadCls, Pat.classNames, ClassSpec.classNames, Fields.classNames], by decide⟩
-- the four clauses hold of the well-formed `(T @i=[(L) -> a $a * -> r])`
example : (∀ c ∈ exP9.classNames, exK.cls c = .node) ∧ (∀ s ∈ exP9.regexes, exK.rxOk s = true)
    ∧ exP9.caps.Nodup ∧ exP9.VB [] :=
  (accepts_iff_clauses exK exP9).1 ⟨_, rfl⟩
-- text level: `( T @i = $a )` is a derivation (`CPat.OK`), ill-formed, rejected with `.interp .unboundVar`
def exCBad : CPat := .mk [' '] (.names [] ['T'] []) (.cons [' '] [] ['i'] (.val [' '] (.var [' '] [] ['a'])) .none .nil) [' ']
theorem exCBad_ok : exCBad.OK := by
  simp [exCBad, CPat.OK, CFields.OK, CFSpec.OK, CPVal.OK, CClass.OK, CCap.OK, altsOK, AllWS, isWS]
  exact ⟨⟨'T', [], by decide⟩, ⟨'i', [], by decide⟩, ⟨[], 'a', by decide⟩⟩
theorem exCBad_ill : ¬ exCBad.strip.WF exK [] := by
  simp [exCBad, CPat.strip, CFields.strip, CFSpec.strip, CPVal.strip, CClass.strip, CCap.strip, Pat.WF, Fields.WF,
    FSpec.WF, PVal.WF]
def errOf : Except DefErr Matcher → Option DefErr
  | .ok _ => none
  | .error e => some e
example : errOf (compilePattern exK (exCBad.render ++ [' '])) = some (.interp .unboundVar) := by decide
example : ∃ e, compilePattern exK (exCBad.render ++ [' ']) = .error (.interp e) ∧ e ≠ .runtime
    ∧ compile exK exCBad.strip = .error e :=
  pattern_rejects_illformed exK exCBad [' '] exCBad_ok (by simp [AllWS, isWS]) exCBad_ill
-- xpath: `/X` with an unknown class is rejected; `/L` is accepted with one element
example : ∃ st ∈ ([⟨none, none, some ['X']⟩] : List XStep), ∃ c, st.cls = some c ∧ exKnown c = false :=
  ⟨⟨none, none, some ['X']⟩, by simp, ['X'], rfl, by decide⟩
example : parseXPath exKnown ['/', 'X'] = none := by decide
example : parseXPath exKnown (renderToks [(.slash, [' ']), (.cname ['X'], ['\t'])]) = none :=
  xpath_unknown_class_rejected exKnown [⟨none, none, some ['X']⟩] _
    ⟨⟨none, none, some ['X']⟩, by simp, ['X'], rfl, by decide⟩ (by decide)
    (by
      simp [SpacedOK, TokOK, ValidName, isWS]
      exact ⟨'X', [], by decide⟩)
example : parseXPath_nonempty exKnown ['/', 'L'] _ (by decide : parseXPath exKnown ['/', 'L'] = some [⟨['L'], none, none, false⟩])
    = parseXPath_nonempty exKnown ['/', 'L'] _ (by decide) := rfl
example : (parseXPath exKnown ['/', 'L']).map List.length = some 1 := by decide
end Examples

end C17
end PyOak
