/- C12, part 1: Python's `str` order (`strLt`) is a strict total order; `sorted(…, key=name)` (`sortByName`) returns
   a permutation that is non-decreasing by key, and such an arrangement is unique when the keys are pairwise
   distinct.  Main theorems are collected in `Props/C12.lean`. -/
import PyOak.Spec.Accessors
namespace PyOak
namespace Acc
namespace C12

/-! ## A. Python's string order is a strict total order -/

theorem strLt_irrefl (a : Str) : strLt a a = false := by
  induction a with
  | nil => rfl
  | cons c r ih => simp [strLt, ih]

theorem strLt_asymm : ∀ (a b : Str), strLt a b = true → strLt b a = false
  | [], [], h => by simp [strLt] at h
  | [], _ :: _, _ => by simp [strLt]
  | _ :: _, [], h => by simp [strLt] at h
  | a :: r, b :: s, h => by
    simp only [strLt] at h ⊢
    split at h
    · rename_i hab
      have : ¬ b.toNat < a.toNat := by omega
      simp [this, hab]
    · split at h
      · simp at h
      · rename_i h1 h2
        simp [h1, h2]
        exact strLt_asymm r s h

theorem strLt_total : ∀ (a b : Str), strLt a b = false → strLt b a = false → a = b
  | [], [], _, _ => rfl
  | [], _ :: _, h, _ => by simp [strLt] at h
  | _ :: _, [], _, h => by simp [strLt] at h
  | a :: r, b :: s, h1, h2 => by
    simp only [strLt] at h1 h2
    split at h1
    · simp at h1
    · split at h1
      · rename_i hba
        simp [hba] at h2
      · rename_i hab hba
        simp [hab, hba] at h2
        have : a = b := Char.toNat_inj.mp (by omega)
        rw [this, strLt_total r s h1 h2]

/-- `≤` is transitive -/
theorem strLt_negtrans : ∀ (a b c : Str), strLt b a = false → strLt c b = false → strLt c a = false
  | [], _, [], _, _ => by simp [strLt]
  | [], _, _ :: _, _, _ => by simp [strLt]
  | _ :: _, [], _, h, _ => by simp [strLt] at h
  | _ :: _, _ :: _, [], _, h => by simp [strLt] at h
  | a :: r, b :: s, c :: t, h1, h2 => by
    simp only [strLt] at h1 h2 ⊢
    split at h1
    · simp at h1
    · split at h1
      · -- a < b
        split at h2
        · simp at h2
        · split at h2
          · have h3 : ¬ c.toNat < a.toNat := by omega
            have h4 : a.toNat < c.toNat := by omega
            simp [h3, h4]
          · have h3 : ¬ c.toNat < a.toNat := by omega
            have h4 : a.toNat < c.toNat := by omega
            simp [h3, h4]
      · -- a = b
        split at h2
        · simp at h2
        · split at h2
          · have h3 : ¬ c.toNat < a.toNat := by omega
            have h4 : a.toNat < c.toNat := by omega
            simp [h3, h4]
          · have h3 : ¬ c.toNat < a.toNat := by omega
            have h4 : ¬ a.toNat < c.toNat := by omega
            simp [h3, h4]
            exact strLt_negtrans r s t h1 h2

/-! ## B. `sorted(…, key=name)` -/

section SortSec
variable {α : Type} (key : α → Str)

def keyLe (a b : α) : Prop := strLt (key b) (key a) = false

theorem insertBy_perm (x : α) (l : List α) :
    (insertBy (fun a b => strLt (key a) (key b)) x l).Perm (x :: l) := by
  induction l with
  | nil => simp [insertBy]
  | cons y r ih =>
    simp only [insertBy]
    split
    · exact (List.Perm.cons y ih).trans (List.Perm.swap x y r)
    · exact List.Perm.refl _

theorem sortByName_perm (l : List α) : (sortByName key l).Perm l := by
  induction l with
  | nil => exact List.Perm.refl _
  | cons x r ih =>
    show (insertBy _ x (sortBy _ r)).Perm (x :: r)
    exact (insertBy_perm key x _).trans (List.Perm.cons x ih)

theorem insertBy_pairwise (x : α) (l : List α) (h : l.Pairwise (keyLe key)) :
    (insertBy (fun a b => strLt (key a) (key b)) x l).Pairwise (keyLe key) := by
  induction l with
  | nil => simp [insertBy]
  | cons y r ih =>
    simp only [insertBy]
    rw [List.pairwise_cons] at h
    split
    · rename_i hyx
      rw [List.pairwise_cons]
      refine ⟨?_, ih h.2⟩
      intro z hz
      have hz := (List.Perm.mem_iff (insertBy_perm key x r)).mp hz
      simp only [List.mem_cons] at hz
      rcases hz with hz | hz
      · subst hz; exact strLt_asymm _ _ hyx
      · exact h.1 z hz
    · rename_i hyx
      have hxy : keyLe key x y := by simpa [keyLe] using hyx
      rw [List.pairwise_cons]
      refine ⟨?_, List.pairwise_cons.mpr h⟩
      intro z hz
      simp at hz
      rcases hz with hz | hz
      · subst hz; exact hxy
      · exact strLt_negtrans _ _ _ hxy (h.1 z hz)

theorem sortByName_pairwise (l : List α) : (sortByName key l).Pairwise (keyLe key) := by
  induction l with
  | nil => exact List.Pairwise.nil
  | cons x r ih => exact insertBy_pairwise key x _ ih

/-- a list with pairwise distinct keys has exactly one arrangement in key order -/
theorem keyOrder_unique : ∀ (l₁ l₂ : List α), l₁.Perm l₂ → l₁.Pairwise (keyLe key) →
    l₂.Pairwise (keyLe key) → (l₁.map key).Nodup → l₁ = l₂
  | [], l₂, hp, _, _, _ => (List.Perm.nil_eq hp)
  | a :: r, [], hp, _, _, _ => by simpa using hp.length_eq
  | a :: r, b :: s, hp, h1, h2, hn => by
    rw [List.pairwise_cons] at h1 h2
    have hab : a = b := by
      have ha : a ∈ b :: s := (List.Perm.mem_iff hp).mp (by simp)
      have hb : b ∈ a :: r := (List.Perm.mem_iff hp).mpr (by simp)
      simp only [List.mem_cons] at ha hb
      rcases ha with ha | ha
      · exact ha
      · rcases hb with hb | hb
        · exact hb.symm
        · -- a ≤ b (b ∈ r) and b ≤ a (a ∈ s): equal keys, but keys in a :: r are distinct
          have hk : key a = key b := strLt_total _ _ (h2.1 a ha) (h1.1 b hb)
          simp only [List.map_cons, List.nodup_cons, List.mem_map, not_exists, not_and] at hn
          exact absurd hk.symm (hn.1 b hb)
    subst hab
    have hp' := List.Perm.cons_inv hp
    simp only [List.map_cons, List.nodup_cons] at hn
    rw [keyOrder_unique r s hp' h1.2 h2.2 hn.2]

theorem insertBy_map {β : Type} (f : β → α) (x : β) (l : List β) :
    insertBy (fun a b => strLt (key a) (key b)) (f x) (l.map f)
      = (insertBy (fun a b => strLt (key (f a)) (key (f b))) x l).map f := by
  induction l with
  | nil => rfl
  | cons y r ih =>
    simp only [List.map_cons, insertBy]
    split <;> simp [ih]

theorem sortByName_map {β : Type} (f : β → α) (l : List β) :
    sortByName key (l.map f) = (sortByName (fun b => key (f b)) l).map f := by
  induction l with
  | nil => rfl
  | cons x r ih =>
    show insertBy _ (f x) (sortBy _ (r.map f)) = _
    have : sortBy (fun a b => strLt (key a) (key b)) (r.map f) = sortByName key (r.map f) := rfl
    rw [this, ih, insertBy_map]
    rfl

end SortSec
end C12
end Acc
end PyOak
