/-
C01 (addition, AUDIT item #6) — the SOUND direction of `cid_eq_iff` / `isEqual_iff` for an
ARBITRARY digest.

`C01.cid_eq_iff` needs `Function.Injective H` and "no ':' in the output" for both directions.
Content-equal nodes have equal content ids for EVERY function `H : Str → Str` (collisions allowed,
no separator hypothesis): the digest pre-images are already equal.  Consequences: `is_equal`
answers True on content-equal nodes for the real (non-injective) blake2b, and everything that
`ContentEq` does not see (uids, origins, `truthy`, mro, non-comparable properties, the declaration
order of fields — at EVERY depth) cannot influence the content id.
-/
import PyOak.Props.C01
namespace PyOak
namespace C01

theorem map_eq_of {α β γ : Type} (f : α → β) (g : α → γ) :
    ∀ (xs ys : List α), (∀ x ∈ xs, ∀ y ∈ ys, (g x = g y → f x = f y)) →
      (xs.map g = ys.map g → xs.map f = ys.map f)
  | [], [], _ => by simp
  | [], _ :: _, _ => by simp
  | _ :: _, [], _ => by simp
  | x :: xs, y :: ys, h => by
    simp only [List.map_cons, List.cons.injEq]
    rintro ⟨e1, e2⟩
    exact ⟨h x (by simp) y (by simp) e1,
      map_eq_of f g xs ys (fun a ha b hb => h a (by simp [ha]) b (by simp [hb])) e2⟩

theorem cid_of_contentEq_aux (H : Str → Str) :
    ∀ (n : Nat) (a b : Node), a.size ≤ n → WFN a → WFN b → canonN a = canonN b → cid H a = cid H b := by
  intro n
  induction n with
  | zero => intro a b hs; have := a.size_pos; omega
  | succ n ih =>
    intro a b hs ha hb
    cases a with
    | mk h ks =>
    cases b with
    | mk h' ks' =>
    obtain ⟨-, -, -, ha4, -⟩ := (WFN_iff h ks).mp ha
    obtain ⟨-, -, -, hb4, -⟩ := (WFN_iff h' ks').mp hb
    rw [cid_mk, cid_mk, cidInput_eq_render H h ks ha4, cidInput_eq_render H h' ks' hb4, canonN_eq, canonN_eq]
    simp only [Canon.mk.injEq]
    rintro ⟨e1, e2, e3⟩
    have hK : ((liveKids ks).map fun k => (k.name, k.nodes.map (cid H))) =
          ((liveKids ks').map fun k => (k.name, k.nodes.map (cid H))) := by
      refine map_eq_of _ canonKid _ _ ?_ e3
      intro k hk k' hk'
      have hk := (mem_liveKids hk).1
      have hk' := (mem_liveKids hk').1
      simp only [canonKid_eq, Prod.mk.injEq]
      rintro ⟨en, ec⟩
      refine ⟨en, map_eq_of _ canonN _ _ ?_ ec⟩
      intro x hx y hy
      have hsz := size_lt_of_mem (h := h) hk hx
      exact ih x y (by omega) (((WFKid_iff k).mp (ha4 k hk)).2.2 x hx)
          (((WFKid_iff k').mp (hb4 k' hk')).2.2 y hy)
    simp only [dcOf, e1, e2, hK]

/-- content-equal nodes have equal content ids — for ANY digest function (no injectivity, no
separator hypothesis; collisions can only ADD equalities) -/
theorem cid_of_contentEq (H : Str → Str) (a b : Node) (ha : WFN a) (hb : WFN b) (h : ContentEq a b) :
    cid H a = cid H b := cid_of_contentEq_aux H a.size a b (Nat.le_refl _) ha hb h

/-- `a.is_equal(b)` is True on content-equal nodes, for any digest -/
theorem isEqual_of_contentEq (H : Str → Str) (a b : Node) (ha : WFN a) (hb : WFN b)
    (h : ContentEq a b) : isEqual H a b = true := by
  have hc := cid_of_contentEq H a b ha hb h
  obtain ⟨p, k, e⟩ := canon_cls a
  obtain ⟨p', k', e'⟩ := canon_cls b
  rw [ContentEq, e, e'] at h
  simp only [Canon.mk.injEq] at h
  simp [isEqual, hc, h.1]

/-- contrapositive: different content ids (under whatever digest) prove different content -/
theorem not_contentEq_of_cid_ne (H : Str → Str) (a b : Node) (ha : WFN a) (hb : WFN b)
    (h : cid H a ≠ cid H b) : ¬ ContentEq a b := fun hc => h (cid_of_contentEq H a b ha hb hc)

/-- with an injective, ':'-free digest the old equivalence is recovered: `cid_eq_iff` is
`cid_of_contentEq` (any `H`) plus the framing direction (needs injectivity) -/
theorem cid_eq_iff_of_sound (H : Str → Str) (hinj : Function.Injective H)
    (hsep : ∀ s, ∀ c ∈ H s, c ≠ ':') (a b : Node) (ha : WFN a) (hb : WFN b) :
    cid H a = cid H b ↔ ContentEq a b :=
  ⟨(cid_eq_iff H hinj hsep a b ha hb).mp, cid_of_contentEq H a b ha hb⟩

namespace Demo

/-- a maximally colliding digest -/
def Hconst : Str → Str := fun _ => ['0']

-- non-vacuity: `n1`, `n2` are well-formed and content-equal (other uids, origins, non-comparable
-- properties, declaration order), and the theorem applies with a NON-injective digest
example : ContentEq n1 n2 := (cid_eq_iff Hesc Hesc_injective Hesc_no_colon n1 n2 wf_n1 wf_n2).mp (by decide)
example : cid Hconst n1 = cid Hconst n2 :=
  cid_of_contentEq Hconst n1 n2 wf_n1 wf_n2
    ((cid_eq_iff Hesc Hesc_injective Hesc_no_colon n1 n2 wf_n1 wf_n2).mp (by decide))
example : ¬ Function.Injective Hconst := fun h => absurd (h (a₁ := []) (a₂ := ['x']) rfl) (by decide)
-- the converse is what needs injectivity: under `Hconst` different contents collide
example : cid Hconst n1 = cid Hconst n3 ∧ ¬ ContentEq n1 n3 :=
  ⟨rfl, fun h => absurd ((cid_eq_iff Hesc Hesc_injective Hesc_no_colon n1 n3 wf_n1 wf_n3).mpr h) (by decide)⟩

end Demo

end C01
end PyOak
