/-
C12, complement — the gap left by `Props/C12Sorted.lean`:

  "the sorted child enumeration is the **stable sort by field name** of the unsorted one"

was only available as "flat-map over the fields in name order" plus "permutation of the unsorted
enumeration" (`child_nodes_sorted_perm`).  Here:

 * `sortByName_stable`, `stableSort_unique` — `sortByName key` (= Python's `sorted(xs, key=…)`,
   `Model/Core.lean`) is *the* stable sort: a key-sorted list that keeps, for every key value, the
   elements with that key in their original relative order; these two properties determine it;
 * `flatMap_sortByName` — sorting groups by name and then expanding them = expanding and then
   stably sorting by a key that is constant on every group (no distinctness needed: stability
   takes care of equal names);
 * `edgesSorted_eq_stableSort` — `Node.edgesSorted n = stableSortByField n.edges`
   (`get_child_nodes_with_field(sort_keys=True)` = `sorted(get_child_nodes_with_field(), key=field)`)
   for **every** node; `edgesSorted_eq_stableSort_distinct` is the instance asked for (child field
   names pairwise distinct), which also gives that the groups appear in *strictly* increasing order;
 * `get_child_nodes_with_field_sorted`, `get_child_nodes_sorted`, `iter_child_fields_sorted` — the
   same for the accessor model of `Model/Accessors.lean`, every class and every instance.
-/
import PyOak.Props.C12
import PyOak.Model.Traverse
namespace PyOak
namespace C12X
open PyOak.Acc PyOak.Acc.C12

/-! ## generic facts about `insertBy` / `sortBy` with a string key -/

section Generic
variable {β : Type} (key : β → Str)

/-- the comparison `sortByName key` sorts with -/
abbrev ltBy (a b : β) : Bool := strLt (key a) (key b)

theorem sortByName_cons (x : β) (r : List β) :
    sortByName key (x :: r) = insertBy (ltBy key) x (sortByName key r) := rfl

/-- `x` passes every element that is strictly smaller -/
theorem insertBy_append_left (x : β) (A B : List β) (h : ∀ a ∈ A, strLt (key a) (key x) = true) :
    insertBy (ltBy key) x (A ++ B) = A ++ insertBy (ltBy key) x B := by
  induction A with
  | nil => rfl
  | cons a A ih =>
    simp only [List.cons_append, insertBy, ltBy, h a (by simp), if_true]
    rw [ih (fun a' ha' => h a' (by simp [ha']))]

/-- `x` stops in front of a list none of whose elements is strictly smaller -/
theorem insertBy_front (x : β) (T : List β) (h : ∀ t ∈ T, strLt (key t) (key x) = false) :
    insertBy (ltBy key) x T = x :: T := by
  cases T with
  | nil => rfl
  | cons t T => simp [insertBy, ltBy, h t (by simp)]

theorem foldr_insert_left (X A B : List β)
    (h : ∀ a ∈ A, ∀ x ∈ X, strLt (key a) (key x) = true) :
    X.foldr (insertBy (ltBy key)) (A ++ B) = A ++ X.foldr (insertBy (ltBy key)) B := by
  induction X with
  | nil => rfl
  | cons x X ih =>
    simp only [List.foldr_cons]
    rw [ih (fun a ha x' hx' => h a ha x' (by simp [hx']))]
    exact insertBy_append_left key x A _ (fun a ha => h a ha x (by simp))

theorem foldr_insert_front (X T : List β)
    (hT : ∀ x ∈ X, ∀ t ∈ T, strLt (key t) (key x) = false)
    (hX : ∀ x ∈ X, ∀ y ∈ X, strLt (key y) (key x) = false) :
    X.foldr (insertBy (ltBy key)) T = X ++ T := by
  induction X with
  | nil => rfl
  | cons x X ih =>
    simp only [List.foldr_cons, List.cons_append]
    rw [ih (fun x' hx' => hT x' (by simp [hx']))
           (fun x' hx' y hy => hX x' (by simp [hx']) y (by simp [hy]))]
    apply insertBy_front
    intro t ht
    simp only [List.mem_append] at ht
    rcases ht with ht | ht
    · exact hX x (by simp) t (by simp [ht])
    · exact hT x (by simp) t ht

theorem sortByName_append (X Y : List β) :
    sortByName key (X ++ Y) = X.foldr (insertBy (ltBy key)) (sortByName key Y) := by
  induction X with
  | nil => rfl
  | cons x X ih => rw [List.cons_append, sortByName_cons, ih]; rfl

/-! ### `sortByName` is *the* stable sort -/

theorem insertBy_filter_key (s : Str) (x : β) (l : List β) :
    (insertBy (ltBy key) x l).filter (fun a => key a = s) =
      if key x = s then x :: l.filter (fun a => key a = s) else l.filter (fun a => key a = s) := by
  induction l with
  | nil => by_cases hx : key x = s <;> simp [insertBy, hx]
  | cons y r ih =>
    simp only [insertBy, ltBy]
    by_cases hlt : strLt (key y) (key x) = true
    · simp only [hlt, if_true, List.filter_cons, ih]
      by_cases hx : key x = s
      · have hy : key y ≠ s := by
          intro hy; rw [hx, hy, strLt_irrefl] at hlt; cases hlt
        simp [hx, hy]
      · simp [hx]
    · simp only [hlt, if_false, Bool.false_eq_true, List.filter_cons]
      by_cases hx : key x = s <;> simp [hx]

/-- **stability**: for every key value, the elements carrying it keep their relative order -/
theorem sortByName_stable (s : Str) (l : List β) :
    (sortByName key l).filter (fun a => key a = s) = l.filter (fun a => key a = s) := by
  induction l with
  | nil => rfl
  | cons x r ih =>
    rw [sortByName_cons, insertBy_filter_key, ih]
    by_cases hx : key x = s <;> simp [hx]

/-- a key-sorted list is determined by its per-key subsequences -/
theorem sorted_eq_of_filters : ∀ (l₁ l₂ : List β), l₁.Pairwise (keyLe key) → l₂.Pairwise (keyLe key) →
    (∀ s, l₁.filter (fun a => key a = s) = l₂.filter (fun a => key a = s)) → l₁ = l₂
  | [], [], _, _, _ => rfl
  | [], b :: s, _, _, h => by have := h (key b); simp at this
  | a :: r, [], _, _, h => by have := h (key a); simp at this
  | a :: r, b :: t, h1, h2, h => by
    rw [List.pairwise_cons] at h1 h2
    have mem1 : ∀ x, x ∈ a :: r ↔ x ∈ b :: t := by
      intro x
      have := h (key x)
      constructor
      · intro hx
        have : x ∈ (a :: r).filter (fun a => key a = key x) := List.mem_filter.mpr ⟨hx, by simp⟩
        rw [h (key x)] at this
        exact (List.mem_filter.mp this).1
      · intro hx
        have : x ∈ (b :: t).filter (fun a => key a = key x) := List.mem_filter.mpr ⟨hx, by simp⟩
        rw [← h (key x)] at this
        exact (List.mem_filter.mp this).1
    have hk : key a = key b := by
      have ha : a ∈ b :: t := (mem1 a).mp (by simp)
      have hb : b ∈ a :: r := (mem1 b).mpr (by simp)
      simp only [List.mem_cons] at ha hb
      rcases ha with ha | ha
      · rw [ha]
      · rcases hb with hb | hb
        · rw [hb]
        · exact strLt_total _ _ (h2.1 a ha) (h1.1 b hb)
    have hab : a = b := by
      have := h (key a)
      simp only [List.filter_cons, decide_true, if_true, hk.symm] at this
      simp only [hk] at this
      exact (List.cons.inj this).1
    subst hab
    congr 1
    apply sorted_eq_of_filters r t h1.2 h2.2
    intro s
    have := h s
    simp only [List.filter_cons] at this
    by_cases hs : key a = s
    · simp only [hs, decide_true, if_true] at this
      exact (List.cons.inj this).2
    · simpa [hs] using this

/-- **`sortByName key` is the stable sort by `key`**: the only key-sorted list that keeps, for every
key value, the elements carrying it in their original order -/
theorem stableSort_unique (l out : List β) (hs : out.Pairwise (keyLe key))
    (hst : ∀ s, out.filter (fun a => key a = s) = l.filter (fun a => key a = s)) :
    out = sortByName key l :=
  sorted_eq_of_filters key out _ hs (sortByName_pairwise key l)
    (fun s => (hst s).trans (sortByName_stable key s l).symm)

/-! ### expanding groups commutes with stable sorting -/

variable {κ : Type} (name : κ → Str) (f : κ → List β)

theorem insert_group (hconst : ∀ k, ∀ b ∈ f k, key b = name k) (k : κ) (S : List κ)
    (hS : S.Pairwise (keyLe name)) :
    (f k).foldr (insertBy (ltBy key)) (S.flatMap f) = (insertBy (ltBy name) k S).flatMap f := by
  have hX : ∀ x ∈ f k, ∀ y ∈ f k, strLt (key y) (key x) = false := by
    intro x hx y hy; rw [hconst k x hx, hconst k y hy]; exact strLt_irrefl _
  induction S with
  | nil =>
    simp only [List.flatMap_nil, insertBy, List.flatMap_cons, List.append_nil]
    simpa using foldr_insert_front key (f k) [] (by simp) hX
  | cons y S ih =>
    rw [List.pairwise_cons] at hS
    simp only [insertBy, ltBy]
    by_cases hlt : strLt (name y) (name k) = true
    · simp only [hlt, if_true, List.flatMap_cons]
      rw [foldr_insert_left key (f k) (f y) _ ?_, ih hS.2]
      intro a ha x hx
      rw [hconst y a ha, hconst k x hx]; exact hlt
    · simp only [hlt, if_false, Bool.false_eq_true]
      have hyk : strLt (name y) (name k) = false := by simpa using hlt
      rw [List.flatMap_cons (f := f) (x := k)]
      apply foldr_insert_front key (f k) _ ?_ hX
      intro x hx t ht
      obtain ⟨z, hz, htz⟩ := List.mem_flatMap.mp ht
      rw [hconst z t htz, hconst k x hx]
      simp only [List.mem_cons] at hz
      rcases hz with rfl | hz
      · exact hyk
      · exact strLt_negtrans (name k) (name y) (name z) hyk (hS.1 z hz)

/-- **sorting the groups by name and expanding = expanding and stably sorting by the key**, when
the key of every element is the name of its group -/
theorem flatMap_sortByName (hconst : ∀ k, ∀ b ∈ f k, key b = name k) (ks : List κ) :
    (sortByName name ks).flatMap f = sortByName key (ks.flatMap f) := by
  induction ks with
  | nil => rfl
  | cons k r ih =>
    rw [sortByName_cons, ← insert_group key name f hconst k _ (sortByName_pairwise name r), ih,
      List.flatMap_cons, sortByName_append]

end Generic

/-! ## `Node.edgesSorted` (`Model/Traverse.lean`) -/

/-- `sorted(edges, key=lambda e: e.field)`: insertion sort with `insertBy` / `sortBy` of `Model/Core.lean` -/
def stableSortByField (l : List (Node × Edge)) : List (Node × Edge) :=
  sortBy (fun a b => strLt a.2.field b.2.field) l

theorem stableSortByField_eq (l : List (Node × Edge)) :
    stableSortByField l = sortByName (fun p : Node × Edge => p.2.field) l := rfl

theorem kid_edges_field (k : Kid) (p : Node × Edge) (h : p ∈ k.edges) : p.2.field = k.name := by
  cases k with
  | mk name coll ns =>
    cases coll
    · simp only [Kid.edges, List.mem_map] at h
      obtain ⟨_, _, rfl⟩ := h; rfl
    · simp only [Kid.edges, List.mem_map] at h
      obtain ⟨_, _, rfl⟩ := h; rfl

/-- **`get_child_nodes_with_field(sort_keys=True)` is the stable sort by field name of
`get_child_nodes_with_field()`**, for every node (equal field names, were they possible, would keep
their declaration order) -/
theorem edgesSorted_eq_stableSort (n : Node) : n.edgesSorted = stableSortByField n.edges := by
  unfold Node.edgesSorted Node.edges
  rw [stableSortByField_eq]
  exact flatMap_sortByName (fun p : Node × Edge => p.2.field) Kid.name Kid.edges
    (fun k p hp => kid_edges_field k p hp) n.kids

/-- the statement for nodes whose child-field names are pairwise distinct -/
theorem edgesSorted_eq_stableSort_distinct (n : Node) (_hn : (n.kids.map Kid.name).Nodup) :
    n.edgesSorted = stableSortByField n.edges := edgesSorted_eq_stableSort n

/-- what stability means here: a permutation, non-decreasing by field name, in which the children
stored under one field keep their enumeration order (index order for a tuple) -/
theorem edgesSorted_spec (n : Node) :
    n.edgesSorted.Perm n.edges ∧
    n.edgesSorted.Pairwise (fun a b => strLt b.2.field a.2.field = false) ∧
    ∀ s, n.edgesSorted.filter (fun p => p.2.field = s) = n.edges.filter (fun p => p.2.field = s) := by
  rw [edgesSorted_eq_stableSort, stableSortByField_eq]
  exact ⟨sortByName_perm _ _, sortByName_pairwise _ _, fun s => sortByName_stable _ s _⟩

/-- … and these three properties determine the sorted enumeration -/
theorem edgesSorted_unique (n : Node) (out : List (Node × Edge))
    (hs : out.Pairwise (fun a b => strLt b.2.field a.2.field = false))
    (hst : ∀ s, out.filter (fun p => p.2.field = s) = n.edges.filter (fun p => p.2.field = s)) :
    out = n.edgesSorted := by
  rw [edgesSorted_eq_stableSort, stableSortByField_eq]
  exact stableSort_unique (fun p : Node × Edge => p.2.field) n.edges out hs hst

/-- with pairwise distinct field names the sorted enumeration is moreover unique among the
name-ordered arrangements of the *fields* -/
theorem edgesSorted_fields_unique (n : Node) (hn : (n.kids.map Kid.name).Nodup) (ks : List Kid)
    (hp : ks.Perm n.kids) (hs : ks.Pairwise (keyLe Kid.name)) :
    ks.flatMap Kid.edges = stableSortByField n.edges := by
  rw [← edgesSorted_eq_stableSort]
  unfold Node.edgesSorted
  congr 1
  apply keyOrder_unique Kid.name ks _ (hp.trans (sortByName_perm Kid.name n.kids).symm) hs
    (sortByName_pairwise Kid.name n.kids)
  exact (List.Perm.nodup_iff (hp.map Kid.name)).mpr hn

/-! ## the accessor model (`Model/Accessors.lean`) -/

theorem fieldNodes_key (i : Inst) (d : FDecl) (x : Nd × FDecl × Option Nat) (h : x ∈ fieldNodes i d) :
    x.2.1.name = d.name := by
  rw [(mem_fieldNodes.mp h).1]

/-- **`get_child_nodes_with_field(sort_keys=True)` =
`sorted(get_child_nodes_with_field(), key=lambda t: t[1].name)`** (stable), every class, every instance -/
theorem get_child_nodes_with_field_sorted (c : ClassDecl) (i : Inst) :
    getChildNodesWithField c i true =
      sortByName (fun x : Nd × FDecl × Option Nat => x.2.1.name) (getChildNodesWithField c i false) := by
  rw [get_child_nodes_with_field_eq_spec, get_child_nodes_with_field_eq_spec]
  unfold specChildNodesWithField ordered
  simp only [if_true, Bool.false_eq_true, if_false]
  exact flatMap_sortByName (fun x : Nd × FDecl × Option Nat => x.2.1.name) FDecl.name (fieldNodes i)
    (fun d x hx => fieldNodes_key i d x hx) _

/-- **`get_child_nodes(sort_keys=True)`**: the nodes of the stably sorted with-field enumeration -/
theorem get_child_nodes_sorted (c : ClassDecl) (i : Inst) :
    getChildNodes c i true =
      (sortByName (fun x : Nd × FDecl × Option Nat => x.2.1.name)
        (getChildNodesWithField c i false)).map (·.1) := by
  rw [← get_child_nodes_with_field_sorted, get_child_nodes_eq_spec, get_child_nodes_with_field_eq_spec]
  rfl

/-- **`iter_child_fields(sort_keys=True)` = `sorted(iter_child_fields(), key=field name)`** -/
theorem iter_child_fields_sorted (c : ClassDecl) (i : Inst) :
    iterChildFields c i true =
      sortByName (fun p : FVal × FDecl => p.2.name) (iterChildFields c i false) := by
  rw [iter_child_fields_eq_spec, iter_child_fields_eq_spec]
  unfold specIterChildFields ordered
  simp only [if_true, Bool.false_eq_true, if_false]
  rw [sortByName_map]

/-! ## non-vacuity -/

section Examples
private def hd (u : Nat) : Head :=
  { uid := u, cls := ['L'], mro := [['L']], org := ⟨0, []⟩, props := [], truthy := true }
private def leaf (u : Nat) : Node := .mk (hd u) []
/-- declaration order `zs` (tuple), `m` (single), `a` (tuple), `e` (absent optional) -/
private def node : Node :=
  .mk (hd 0) [.mk ['z', 's'] true [leaf 1, leaf 2], .mk ['m'] false [leaf 3],
              .mk ['a'] true [leaf 4, leaf 5], .mk ['e'] false []]

private def show' (l : List (Node × Edge)) : List (Nat × Str × Option Nat) :=
  l.map fun p => (p.1.uid, p.2.field, p.2.idx)

example : show' node.edges =
    [(1, ['z', 's'], some 0), (2, ['z', 's'], some 1), (3, ['m'], none), (4, ['a'], some 0), (5, ['a'], some 1)] := by
  decide
example : show' node.edgesSorted =
    [(4, ['a'], some 0), (5, ['a'], some 1), (3, ['m'], none), (1, ['z', 's'], some 0), (2, ['z', 's'], some 1)] := by
  decide
example : show' (stableSortByField node.edges) = show' node.edgesSorted := by decide
example : (node.kids.map Kid.name).Nodup := by decide

/-- stability is what makes the statement true without distinctness: two fields of the same name
keep their declaration order, and so do their elements -/
private def dup : Node := .mk (hd 0) [.mk ['x'] true [leaf 1, leaf 2], .mk ['a'] false [leaf 3], .mk ['x'] false [leaf 4]]
example : show' (stableSortByField dup.edges) =
    [(3, ['a'], none), (1, ['x'], some 0), (2, ['x'], some 1), (4, ['x'], none)] := by decide
example : show' dup.edgesSorted = show' (stableSortByField dup.edges) := by decide

/-- a sort by field name that is *not* stable differs: reversing the run of equal names is still
name-ordered and a permutation -/
example : ∃ out : List (Nat × Str × Option Nat),
    out.Perm (show' node.edges) ∧ out.Pairwise (fun a b => strLt b.2.1 a.2.1 = false) ∧
    out ≠ show' node.edgesSorted :=
  ⟨[(5, ['a'], some 1), (4, ['a'], some 0), (3, ['m'], none), (1, ['z', 's'], some 0), (2, ['z', 's'], some 1)],
    by decide, by decide, by decide⟩

/-- the accessor model on a two-level class: `zs: tuple`, `m: one`, `a: tuple` (declared in a subclass) -/
private def cls : ClassDecl :=
  ⟨[[⟨['z', 's'], .childTuple, true, true, false⟩, ⟨['m'], .childOne, true, true, false⟩, ⟨['p'], .prop, true, true, false⟩],
    [⟨['a'], .childTuple, true, true, false⟩]]⟩
private def inst : Inst :=
  [(['z', 's'], .tuple [⟨1, true⟩, ⟨2, false⟩]), (['m'], .node ⟨3, true⟩), (['p'], .prop 7),
   (['a'], .tuple [⟨4, true⟩, ⟨5, true⟩])]
private def show2 (l : List (Nd × FDecl × Option Nat)) : List (Nat × Str × Option Nat) :=
  l.map fun x => (x.1.uid, x.2.1.name, x.2.2)

example : show2 (getChildNodesWithField cls inst false) =
    [(1, ['z', 's'], some 0), (2, ['z', 's'], some 1), (3, ['m'], none), (4, ['a'], some 0), (5, ['a'], some 1)] := by
  decide
example : show2 (getChildNodesWithField cls inst true) =
    [(4, ['a'], some 0), (5, ['a'], some 1), (3, ['m'], none), (1, ['z', 's'], some 0), (2, ['z', 's'], some 1)] := by
  decide
example : getChildNodesWithField cls inst true =
    sortByName (fun x : Nd × FDecl × Option Nat => x.2.1.name) (getChildNodesWithField cls inst false) := by
  decide

end Examples

#print axioms sortByName_stable
#print axioms stableSort_unique
#print axioms flatMap_sortByName
#print axioms edgesSorted_eq_stableSort
#print axioms edgesSorted_eq_stableSort_distinct
#print axioms edgesSorted_spec
#print axioms edgesSorted_unique
#print axioms edgesSorted_fields_unique
#print axioms get_child_nodes_with_field_sorted
#print axioms get_child_nodes_sorted
#print axioms iter_child_fields_sorted

end C12X
end PyOak
