/-
C11, classes: "rejected with InvalidFieldAnnotations no later than the first instantiation and never silently
treated as a property", and "inherited and overridden fields" for ANY replay of declarations (several
declarations of one name at one level = the flattened reversed-MRO replay of multiple inheritance).

* `defCheck_passed_accepts`     the definition-time pass and the first-use pass never disagree: a class that
                                passes `check_annotations` is classified by `process_node_fields`
* `defCheck_passed_iff`         passed ⇔ no unresolved forward reference ∧ the class is accepted
* `rejection_is_reported`       whatever the first-use pass rejects is reported by the definition-time pass
                                (`raised`) or — the definition-time pass having been skipped or passed — by the
                                first-use pass; in every case the user-visible outcome is `none`
* `never_silently_prop`         in an accepted class every field whose annotation mentions a node class is a
                                CHILD field, and no field mentions a mutable collection
* `lookup_effective`, `fieldVerdict_most_derived`   the verdict of field `n` of a class is the verdict of the
                                LAST declaration of `n` in the replay (most derived declaration decides);
                                no distinct-names hypothesis: this is `verdict_overridden` for the flattened MI replay
* `verdict_last_declaration`, `verdict_redeclared_twice`, `verdict_not_redeclared`   corollaries
-/
import PyOak.Props.C11Shapes
namespace PyOak
namespace C11
open Annot Annot.Ty

/-! ### the two passes -/

theorem processNodeFields_eq_some_iff (ls : List Level) :
    processNodeFields ls = some ((effective ls).map fun f => (f.name, f.ty.classify)) ↔
      ∀ f ∈ effective ls, classify f.ty ≠ .reject := by
  unfold processNodeFields
  simp only
  constructor
  · intro h f hf hr
    split at h
    · cases h
    · rename_i hn
      apply hn
      rw [List.any_map, List.any_eq_true]
      exact ⟨f, hf, by simp [hr]⟩
  · intro h
    rw [if_neg]
    intro hc
    rw [List.any_map, List.any_eq_true] at hc
    obtain ⟨f, hf, hr⟩ := hc
    exact h f hf (by simpa using hr)

/-- a class that passes the definition-time check is accepted at first use, with the per-field verdicts of
its (own, inherited, overriding) annotations -/
theorem defCheck_passed_accepts (ls : List Level) (h : defCheck ls = .passed) :
    processNodeFields ls = some ((effective ls).map fun f => (f.name, f.ty.classify)) := by
  rw [processNodeFields_eq_some_iff]
  intro f hf hr
  unfold defCheck at h
  split at h
  · cases h
  · split at h
    · cases h
    · rename_i hn
      apply hn
      rw [List.any_eq_true]
      exact ⟨f, hf, by rw [← classify_eq_classifyRaw, hr]; rfl⟩

theorem defCheck_passed_ne_none (ls : List Level) (h : defCheck ls = .passed) :
    processNodeFields ls ≠ Option.none := by
  rw [defCheck_passed_accepts ls h]; simp

theorem defCheck_skipped_iff (ls : List Level) :
    defCheck ls = .skipped ↔ ls.any (fun lvl => lvl.any fun f => f.ty.hasFwd) = true := by
  unfold defCheck
  cases hs : ls.any (fun lvl => lvl.any fun f => f.ty.hasFwd)
  · simp only [Bool.false_eq_true, if_false]
    split <;> simp
  · simp

/-- the definition-time check passes exactly for the accepted classes without unresolved forward references -/
theorem defCheck_passed_iff (ls : List Level) :
    defCheck ls = .passed ↔
      (ls.any (fun lvl => lvl.any fun f => f.ty.hasFwd) = false ∧ classOutcome ls ≠ Option.none) := by
  constructor
  · intro h
    refine ⟨?_, ?_⟩
    · cases hs : ls.any (fun lvl => lvl.any fun f => f.ty.hasFwd)
      · rfl
      · rw [(defCheck_skipped_iff ls).2 hs] at h; cases h
    · rw [classOutcome_eq]; exact defCheck_passed_ne_none ls h
  · rintro ⟨hnf, hacc⟩
    cases hd : defCheck ls
    · rfl
    · rw [(defCheck_skipped_iff ls).1 hd] at hnf; cases hnf
    · exact absurd (by rw [classOutcome_eq]; exact defCheck_raised_sound ls hd) hacc

/-- "no later than the first instantiation": if the authoritative first-use pass rejects the class, then
either the definition-time pass already raised, or it did not pass (it was skipped on an unresolved forward
reference) and the first-use pass raises; the class never gets verdicts -/
theorem rejection_is_reported (ls : List Level) (h : processNodeFields ls = Option.none) :
    (defCheck ls = .raised ∨ defCheck ls = .skipped) ∧ classOutcome ls = Option.none := by
  refine ⟨?_, by rw [classOutcome_eq, h]⟩
  cases hd : defCheck ls
  · exact absurd h (defCheck_passed_ne_none ls hd)
  · exact .inr rfl
  · exact .inl rfl

/-- the user-visible outcome is a rejection iff one of the two passes rejects -/
theorem classOutcome_none_iff_phase (ls : List Level) :
    classOutcome ls = Option.none ↔ (defCheck ls = .raised ∨ processNodeFields ls = Option.none) := by
  rw [classOutcome_eq]
  constructor
  · exact .inr
  · rintro (h | h)
    · exact defCheck_raised_sound ls h
    · exact h

/-- "never silently treated as a property": in an accepted class, a field whose annotation mentions a node
class is listed as a child field, and no annotation mentions a mutable collection -/
theorem never_silently_prop (ls : List Level) (vs : List (Str × Verdict)) (h : classOutcome ls = some vs)
    (f : Field) (hf : f ∈ effective ls) :
    (MentionsNode f.ty → (f.name, Verdict.child) ∈ vs) ∧ ¬ MentionsMutable f.ty ∧
    (f.name, classify f.ty) ∈ vs ∧ classify f.ty ≠ .reject := by
  have hvs := (classOutcome_some ls vs h).1
  have hmem : (f.name, classify f.ty) ∈ vs := by
    rw [hvs]; exact List.mem_map.2 ⟨f, hf, rfl⟩
  have hnr : classify f.ty ≠ .reject := by
    intro hr
    have : classOutcome ls = Option.none := (classOutcome_none_iff ls).2 ⟨f, hf, hr⟩
    rw [this] at h; cases h
  refine ⟨fun hn => ?_, fun hm => hnr (mutable_rejected _ hm), hmem, hnr⟩
  rcases node_never_prop f.ty hn with hc | hc
  · rw [hc] at hmem; exact hmem
  · exact absurd hc hnr

/-! ### the most derived declaration decides -/

theorem effective_single (l : Level) : effective [l] = l.foldl addField [] := rfl

theorem effective_eq_foldl (ls : List Level) : effective ls = ls.flatten.foldl addField [] := by
  rw [← effective_flatten, effective_single]

/-- the last declaration of the name `n` in a replay -/
def lastDecl (ds : List Field) (n : Str) : Option Field := ds.reverse.find? (·.name == n)

theorem lookup_foldl (l acc : List Field) (n : Str) :
    lookup (l.foldl addField acc) n = ((lastDecl l n).map (·.ty)).or (lookup acc n) := by
  induction l generalizing acc with
  | nil => simp [lastDecl]
  | cons f r ih =>
    rw [List.foldl_cons, ih]
    unfold lastDecl
    rw [List.reverse_cons, List.find?_append]
    cases hr : r.reverse.find? (·.name == n) with
    | some g => simp
    | none =>
      simp only [Option.map_none, Option.none_or, List.find?_cons, List.find?_nil]
      by_cases hfn : f.name = n
      · subst hfn
        simp [lookup_addField_same]
      · have : (f.name == n) = false := by simpa using hfn
        simp [this, lookup_addField_other acc f n hfn]

/-- the type of field `n` of a class is the type given by the LAST declaration of `n` along the replay of all
declarations (base classes first; multiple inheritance: the reversed-MRO replay) -/
theorem lookup_effective (ls : List Level) (n : Str) :
    lookup (effective ls) n = (lastDecl ls.flatten n).map (·.ty) := by
  rw [effective_eq_foldl, lookup_foldl]
  simp [lookup]

/-- the verdict of a field is the verdict of its most derived declaration — whatever earlier declarations
(of base classes, or earlier in a flattened multiple-inheritance replay) said -/
theorem fieldVerdict_most_derived (ls : List Level) (n : Str) :
    fieldVerdict ls n = (lastDecl ls.flatten n).map fun f => classify f.ty := by
  unfold fieldVerdict
  rw [lookup_effective, Option.map_map]
  rfl

theorem lastDecl_append_cons (l1 l2 : List Field) (f : Field) (h : ∀ g ∈ l2, g.name ≠ f.name) :
    lastDecl (l1 ++ f :: l2) f.name = some f := by
  unfold lastDecl
  rw [List.reverse_append, List.reverse_cons, List.append_assoc, List.find?_append]
  have : l2.reverse.find? (·.name == f.name) = Option.none := by
    apply List.find?_eq_none.2
    intro g hg
    simpa using h g (List.mem_reverse.1 hg)
  simp [this]

/-- `verdict_overridden` without the distinct-names hypothesis: a declaration that is the last one of its name
in the last level decides, even if the same level (a flattened replay) declares the name before -/
theorem verdict_last_declaration (ls : List Level) (l1 l2 : List Field) (f : Field)
    (h : ∀ g ∈ l2, g.name ≠ f.name) :
    fieldVerdict (ls ++ [l1 ++ f :: l2]) f.name = some (classify f.ty) := by
  rw [fieldVerdict_most_derived]
  have : (ls ++ [l1 ++ f :: l2]).flatten = (ls.flatten ++ l1) ++ f :: l2 := by simp
  rw [this, lastDecl_append_cons _ l2 f h]
  rfl

/-- a name declared at several levels (and several times in a replay): the later declaration wins -/
theorem verdict_redeclared_twice (pre mid post : List Field) (f g : Field) (hn : f.name = g.name)
    (h : ∀ x ∈ post, x.name ≠ g.name) :
    fieldVerdict [pre ++ f :: mid ++ g :: post] f.name = some (classify g.ty) := by
  rw [hn]
  have := verdict_last_declaration [] (pre ++ f :: mid) post g h
  simpa using this

/-- a name that the later declarations do not mention keeps the verdict of the earlier replay -/
theorem verdict_not_redeclared (ds later : List Field) (n : Str) (h : ∀ g ∈ later, g.name ≠ n) :
    fieldVerdict [ds ++ later] n = fieldVerdict [ds] n := by
  rw [fieldVerdict_most_derived, fieldVerdict_most_derived]
  simp only [List.flatten_cons, List.flatten_nil, List.append_nil]
  unfold lastDecl
  rw [List.reverse_append, List.find?_append]
  have : later.reverse.find? (·.name == n) = Option.none := by
    apply List.find?_eq_none.2
    intro g hg
    simpa using h g (List.mem_reverse.1 hg)
  simp [this]

/-! ### non-vacuity -/

example : defCheck [[⟨['x'], .vtuple (.node 0)⟩, ⟨['y'], .atom .int⟩]] = .passed := by decide
example : processNodeFields [[⟨['x'], .coll .list [.fwd 0]⟩]] = Option.none ∧
    defCheck [[⟨['x'], .coll .list [.fwd 0]⟩]] = .skipped := by decide
-- `class D(B1, B2)`: replay `B2.y, B2.x: Leaf, B1.x: int, B1.z`, then D's own `y: tuple[Leaf, ...]`
example : fieldVerdict [[⟨['y'], .atom .str⟩, ⟨['x'], .node 0⟩, ⟨['x'], .atom .int⟩, ⟨['z'], .none⟩,
      ⟨['y'], .vtuple (.node 0)⟩]] ['x'] = some .prop ∧
    fieldVerdict [[⟨['y'], .atom .str⟩, ⟨['x'], .node 0⟩, ⟨['x'], .atom .int⟩, ⟨['z'], .none⟩,
      ⟨['y'], .vtuple (.node 0)⟩]] ['y'] = some .child := by decide

end C11
end PyOak
