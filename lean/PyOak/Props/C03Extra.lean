/-
C03, additions proposed by AUDIT.md (C03 §4 / top-10 #7):

* `lookup_complete` — the positive direction of the lookup clause: every live, not detached node
  is returned under its id by `get_any`, by `get` for its own class (strict) and for every class
  of its mro (non-strict); `lookup_only_own_class` — and for no other class;
  `lookup_unique` — nothing else is returned under that id.
* `registered_ids_distinct`, `live_ids_distinct` — ids of simultaneously registered (resp. live,
  not detached) nodes are pairwise different.
* `detach_unregisters` — after `x.detach()` neither `x` nor any of its (computed) descendants is
  returned under its id (`get_any`, `get` strict / non-strict).  The descendants are those computed
  by the model's `descendants` with fuel `heap.length + 1` (adequacy of that fuel is not proved here).
-/
import PyOak.Props.C03
namespace PyOak
namespace C03
open RState RegL

/-! ### lookups: completeness -/

theorem regGet_of_live {s : RState} (hI : Inv s) (hL : LiveRegistered s) {o : RObj} (ho : o ∈ s.heap)
    (hl : s.isLive o.uid = true) (hd : o.uid ∉ s.detached) : s.regGet o.id = some o.uid :=
  rget_of_mem hI.keysNodup (hL o ho hl hd)

/-- every live, not detached node is returned (the identical object) by `get_any(id)`, by
`Cls.get(id)` for its own class and by `Cls.get(id, strict=False)` for every class of its mro -/
theorem lookup_complete {s : RState} (hI : Inv s) (hL : LiveRegistered s) {o : RObj} (ho : o ∈ s.heap)
    (hl : s.isLive o.uid = true) (hd : o.uid ∉ s.detached) :
    s.getAny o.id = some o.uid ∧ s.get o.cls o.id true = some o.uid ∧
    ∀ c ∈ o.mro, s.get c o.id false = some o.uid := by
  have hg := regGet_of_live hI hL ho hl hd
  have hobj := obj?_of_mem hI.heapNodup ho
  refine ⟨hg, ?_, ?_⟩
  · simp [RState.get, hg, hobj]
  · intro c hc
    simp [RState.get, hg, hobj, hc]

/-- … and by `get` for no other class: strict lookups under another class name, and non-strict
lookups under a class outside the mro, answer nothing -/
theorem lookup_only_own_class {s : RState} (hI : Inv s) (hL : LiveRegistered s) {o : RObj} (ho : o ∈ s.heap)
    (hl : s.isLive o.uid = true) (hd : o.uid ∉ s.detached) (c : Str) :
    (c ≠ o.cls → s.get c o.id true = none) ∧ (c ∉ o.mro → s.get c o.id false = none) := by
  have hg := regGet_of_live hI hL ho hl hd
  have hobj := obj?_of_mem hI.heapNodup ho
  constructor
  · intro hc
    have : ¬ o.cls = c := fun e => hc e.symm
    simp [RState.get, hg, hobj, this]
  · intro hc
    simp [RState.get, hg, hobj, hc]

/-- no other object is returned under the id of a live, not detached node -/
theorem lookup_unique {s : RState} (hI : Inv s) (hL : LiveRegistered s) {o : RObj} (ho : o ∈ s.heap)
    (hl : s.isLive o.uid = true) (hd : o.uid ∉ s.detached) {w : Nat} :
    (s.getAny o.id = some w → w = o.uid) ∧ (∀ c strict, s.get c o.id strict = some w → w = o.uid) := by
  have hg := regGet_of_live hI hL ho hl hd
  constructor
  · intro h
    rw [getAny_eq, hg] at h
    exact (Option.some.inj h).symm
  · intro c strict h
    have := (get_sound h).1
    rw [hg] at this
    exact (Option.some.inj this).symm

/-! ### ids of simultaneously registered nodes are pairwise different -/

theorem registered_ids_distinct {s : RState} (hI : Inv s) {k k' : Str} {u u' : Nat}
    (h1 : (k, u) ∈ s.reg) (h2 : (k', u') ∈ s.reg) (hne : u ≠ u') : s.idOf u ≠ s.idOf u' := by
  rw [key_of_mem hI h1, key_of_mem hI h2]
  intro e
  subst e
  exact hne (reg_functional hI h1 h2)

/-- two different live, not detached nodes carry different ids (whatever the digests were) -/
theorem live_ids_distinct {s : RState} (hI : Inv s) (hL : LiveRegistered s) {o1 o2 : RObj}
    (h1 : o1 ∈ s.heap) (h2 : o2 ∈ s.heap) (l1 : s.isLive o1.uid = true) (l2 : s.isLive o2.uid = true)
    (d1 : o1.uid ∉ s.detached) (d2 : o2.uid ∉ s.detached) (hne : o1.uid ≠ o2.uid) : o1.id ≠ o2.id := by
  have := registered_ids_distinct hI (hL o1 h1 l1 d1) (hL o2 h2 l2 d2) hne
  rwa [idOf_of_mem hI.heapNodup h1, idOf_of_mem hI.heapNodup h2] at this

/-! ### `detach()` unregisters the node and all its descendants -/

theorem pDetachSelf_fst_reg_sub (s : RState) (u : Nat) : ∀ e ∈ (s.pDetachSelf u).1.reg, e ∈ s.reg := by
  intro e he
  unfold pDetachSelf at he
  split at he
  · exact (mem_regDel.mp he).1
  · exact he

theorem detachAll_reg_sub : ∀ (us : List Nat) (s : RState), ∀ e ∈ (detachAll s us).reg, e ∈ s.reg
  | [], _, e, he => he
  | c :: r, s, e, he => by
    rw [detachAll_cons] at he
    exact pDetachSelf_fst_reg_sub s c e (detachAll_reg_sub r _ e he)

theorem pDetachSelf_unreg {s : RState} (hI : Inv s) (c : Nat) : (s.idOf c, c) ∉ (s.pDetachSelf c).1.reg := by
  intro hm
  cases hb : (s.pDetachSelf c).2 with
  | true =>
    obtain ⟨_, heq⟩ := pDetachSelf_true hb
    rw [heq] at hm
    exact (mem_regDel.mp hm).2 rfl
  | false =>
    obtain ⟨hne, heq⟩ := pDetachSelf_false hb
    rw [heq] at hm
    exact hne (rget_of_mem hI.keysNodup hm)

/-- after the fold of `detach` no member of the list is registered under its id -/
theorem detachAll_unreg : ∀ (us : List Nat) {s : RState}, Inv s → ∀ c ∈ us, (s.idOf c, c) ∉ (detachAll s us).reg
  | [], _, _, c, hc => by simp at hc
  | a :: r, s, hI, c, hc => by
    rw [detachAll_cons]
    intro hm
    by_cases hcr : c ∈ r
    · have := detachAll_unreg r (pDetachSelf_inv hI a) c hcr
      apply this
      have hid : (s.pDetachSelf a).1.idOf c = s.idOf c := by simp [idOf, obj?, pDetachSelf_fst_heap]
      rw [hid]
      exact hm
    · have hca : c = a := by
        rcases List.mem_cons.mp hc with h | h
        · exact h
        · exact absurd h hcr
      subst hca
      exact pDetachSelf_unreg hI c (detachAll_reg_sub r _ _ hm)

theorem step_detach_state {s : RState} {x : Nat} (hx : s.isLive x = true) :
    (s.step (.detach x)).1 = (detachAll s (x :: s.descendants (s.heap.length + 1) x)).gc := by
  simp [step, hx, detachAll]

/-- **detach**: after `x.detach()`, `x` and every descendant of `x` is no longer registered under
its id … -/
theorem detach_unregisters {s : RState} (hI : Inv s) {x : Nat} (hx : s.isLive x = true) :
    ∀ c ∈ x :: s.descendants (s.heap.length + 1) x,
      (s.step (.detach x)).1.regGet ((s.step (.detach x)).1.idOf c) ≠ some c := by
  intro c hc hg
  rw [step_detach_state hx] at hg
  have hm := rget_some_mem hg
  have hm' : ((detachAll s (x :: s.descendants (s.heap.length + 1) x)).idOf c, c) ∈
      (detachAll s (x :: s.descendants (s.heap.length + 1) x)).reg := (List.mem_filter.mp hm).1
  have hid : (detachAll s (x :: s.descendants (s.heap.length + 1) x)).idOf c = s.idOf c := by
    simp [idOf, obj?, detachAll_heap]
  rw [hid] at hm'
  exact detachAll_unreg _ hI c hc hm'

/-- … hence returned neither by `get_any` nor by `get` (strict or not, whatever the class) -/
theorem detach_not_returned {s : RState} (hI : Inv s) {x : Nat} (hx : s.isLive x = true) :
    ∀ c ∈ x :: s.descendants (s.heap.length + 1) x,
      (s.step (.detach x)).1.getAny ((s.step (.detach x)).1.idOf c) ≠ some c ∧
      ∀ cls strict, (s.step (.detach x)).1.get cls ((s.step (.detach x)).1.idOf c) strict ≠ some c := by
  intro c hc
  refine ⟨detach_unregisters hI hx c hc, ?_⟩
  intro cls strict h
  exact detach_unregisters hI hx c hc (get_sound h).1

/-- the direct children are among the computed descendants (first level of `descendants`) -/
theorem kids_sub_descendants (s : RState) (n x : Nat) : ∀ k ∈ s.kidsOf x, k ∈ s.descendants (n + 1) x := by
  intro k hk
  simp only [descendants, List.mem_flatMap]
  exact ⟨k, hk, by simp⟩

/-- … and so are the children of every computed descendant, as long as the fuel lasts -/
theorem descendants_step (s : RState) : ∀ (n x c : Nat), c ∈ s.descendants n x →
    ∀ k ∈ s.kidsOf c, k ∈ s.descendants (n + 1) x
  | 0, _, _, h => by simp [descendants] at h
  | n + 1, x, c, h => by
    intro k hk
    simp only [descendants, List.mem_flatMap, List.mem_cons] at h
    obtain ⟨a, ha, hc⟩ := h
    rw [descendants]
    refine List.mem_flatMap.mpr ⟨a, ha, ?_⟩
    rcases hc with rfl | hc
    · exact List.mem_cons_of_mem _ (kids_sub_descendants s n c k hk)
    · exact List.mem_cons_of_mem _ (descendants_step s n a c hc k hk)

/-! ### non-vacuity -/

section Examples
private def A : Str := "A".toList
private def B : Str := "B".toList

/-- a depth-2 tree `p(m(l))`, all bound, then `p.detach()` -/
def deep : List ROp :=
  [ .construct 0 A [A, B] [] [(1, "l".toList)],
    .construct 1 A [A, B] [1] [(2, "m".toList)],
    .construct 2 B [B] [2] [(3, "p".toList)] ]

example : AllOkK {} deep := by decide
example : (run {} deep).descendants ((run {} deep).heap.length + 1) 3 = [2, 1] := by decide
example : (run {} deep).isLive 3 = true ∧ (run {} deep).isLive 1 = true ∧ 1 ∉ (run {} deep).detached := by decide
example : (run {} deep).getAny "l".toList = some 1 ∧ (run {} deep).get A "l".toList true = some 1 ∧
    (run {} deep).get B "l".toList false = some 1 ∧ (run {} deep).get B "l".toList true = none := by decide
example : ((run {} deep).step (.detach 3)).1.reg = [] ∧ ((run {} deep).step (.detach 3)).1.isLive 1 = true := by decide
end Examples

end C03
end PyOak

#print axioms PyOak.C03.lookup_complete
#print axioms PyOak.C03.lookup_only_own_class
#print axioms PyOak.C03.lookup_unique
#print axioms PyOak.C03.registered_ids_distinct
#print axioms PyOak.C03.live_ids_distinct
#print axioms PyOak.C03.detach_unregisters
#print axioms PyOak.C03.detach_not_returned
