/-
C16 (addition, AUDIT C16 §4 (iii)) — "…and to nothing afterwards, whether the earlier call returned
or raised part-way", with the `try … finally` EXPLICIT.

`C16.reset_after` is about `SerOpts.call`, which returns the literal `{}` in both arms: true by
definition, and the calibration mutants are not expressible.  Model/SerOptsF.lean threads the two
global slots through the body (every nested object reads them when it runs; an arbitrary user hook
at every nested object may WRITE them or RAISE) and writes the wrapper as
`enter; tryFin body reset`.  Here:

  serObjM_noHook … bodyM_noHook    with the library's own (non-writing) hooks the threaded body is the
                                   pure body of Model/SerOpts.lean and leaves the state as entered
  callF_eq_call / runSeqF_eq_runSeq  `call` = the observations of `callF` (so all of Props/C16.lean is
                                   about `callF noHook noDHook`)
  reset_afterF                     for EVERY hook (writing, raising at any nested position), every
                                   entered state, every call that reaches the wrapper: afterwards the
                                   slots are at their defaults — because of the `finally`
  callF_outcome                    … and the `finally` does not change the outcome
  seqF_independent / later_call_default   histories: each call behaves as if alone; a later call
                                   without options produces the default output
  callNoFinally_fails / callNoResetDeser_fails   the two calibration mutants violate exactly this
  reentrant_hook_breaks_options    what the library does NOT guarantee (and the real code shows the same):
                                   a user hook that makes a nested public call resets the options
                                   of the outer call part-way
-/
import PyOak.Model.SerOptsF
import PyOak.Props.C16
namespace PyOak
namespace C16
open SerOpts

/-! ### 1. with the library's own hooks the threaded body is the pure body -/

mutual
theorem serValM_noHook (v : SVal) (g : G) : serValM noHook v g = (g, serVal g v) := by
  match v with
  | .atom d c => simp only [serValM, serVal]
  | .seq xs =>
    simp only [serValM, serVal, serValsM_noHook xs g]
    cases serVals g xs <;> rfl
  | .obj o => simp only [serValM, serVal, serObjM_noHook o g]
  | .bomb => simp only [serValM, serVal, M.raise]
theorem serValsM_noHook (xs : List SVal) (g : G) : serValsM noHook xs g = (g, serVals g xs) := by
  match xs with
  | [] => simp only [serValsM, serVals, M.pure]
  | x :: r =>
    simp only [serValsM, serVals, serValM_noHook x g]
    cases serVal g x with
    | error e => rfl
    | ok j =>
      simp only [serValsM_noHook r g]
      cases serVals g r <;> rfl
theorem serObjM_noHook (o : SObj) (g : G) : serObjM noHook o g = (g, serObj g o) := by
  match o with
  | .empty => simp only [serObjM, serObj, M.pure]
  | .mk kind cls idx fields cn =>
    simp only [serObjM, serObj, noHook, M.pure]
    split
    · rfl
    · simp only [serFieldsM_noHook fields g]
      cases serFields g fields <;> rfl
theorem serFieldsM_noHook (fs : List SField) (g : G) : serFieldsM noHook fs g = (g, serFields g fs) := by
  match fs with
  | [] => simp only [serFieldsM, serFields, M.pure]
  | f :: r =>
    simp only [serFieldsM, serFields, serFieldM_noHook f g]
    cases serField g f with
    | error e => rfl
    | ok jf =>
      simp only [serFieldsM_noHook r g]
      cases serFields g r <;> rfl
theorem serFieldM_noHook (f : SField) (g : G) : serFieldM noHook f g = (g, serField g f) := by
  match f with
  | .mk n v =>
    simp only [serFieldM, serField, serValM_noHook v g]
    cases serVal g v <;> rfl
end

mutual
theorem deserM_noDHook (d : DJ) (g : G) : deserM noDHook d g = (g, deser g d) := by
  match d with
  | .plain => simp only [deserM, deser, M.pure]
  | .int c => simp only [deserM, deser]; split <;> rfl
  | .bad => simp only [deserM, deser, M.raise]
  | .node p xs =>
    simp only [deserM, deser, noDHook, M.pure, deserLM_noDHook xs g]
    cases deserL g xs <;> rfl
theorem deserLM_noDHook (ds : List DJ) (g : G) : deserLM noDHook ds g = (g, deserL g ds) := by
  match ds with
  | [] => simp only [deserLM, deserL, M.pure]
  | x :: r =>
    simp only [deserLM, deserL, deserM_noDHook x g]
    cases deser g x with
    | error e => rfl
    | ok l =>
      simp only [deserLM_noDHook r g]
      cases deserL g r <;> rfl
end

/-- the body of a call neither writes the globals nor depends on anything but the entered state:
the assumption "the body is a function of the entered state" of Model/SerOpts.lean, derived -/
theorem bodyM_noHook (inp : Input) (g : G) : bodyM noHook noDHook inp g = (g, body g inp) := by
  cases inp with
  | ser o => simp only [bodyM, body, serObjM_noHook o g]; cases serObj g o <;> rfl
  | deser d => simp only [bodyM, body, deserM_noDHook d g]; cases deser g d <;> rfl
  | unparsable => rfl

/-! ### 2. the `finally` -/

/-- whatever the body does to the globals and however it exits, after `try … finally: reset` they
are at their defaults -/
theorem tryFin_reset {α : Type} (body : M α) (g : G) : (tryFin body resetM g).1 = {} := by
  simp only [tryFin, resetM, M.write]

/-- … and the outcome is the body's -/
theorem tryFin_outcome {α : Type} (body : M α) (g : G) :
    (tryFin body resetM g).2 = (body g).2 := by
  simp only [tryFin, resetM, M.write]

/-- **Every call that reaches the wrapper leaves the two slots at their defaults** — for every user
hook (one that assigns the globals, one that raises, at any nested object), every state the call
was entered in, serialization and deserialization alike.  This is `reset_after` with content: it
holds because `callF` runs the reset in a `finally` (compare `callNoFinally_fails`). -/
theorem reset_afterF (hook : Hook) (dhook : DHook) (g : G) (c : Call) (h : c.input ≠ .unparsable) :
    (callF hook dhook g c).1 = {} := by
  unfold callF
  split
  · contradiction
  · exact tryFin_reset _ _

/-- the same, spelled out for a call that raised part-way -/
theorem reset_after_raiseF (hook : Hook) (dhook : DHook) (g : G) (c : Call) (e : Unit)
    (h : c.input ≠ .unparsable) (_hr : (callF hook dhook g c).2 = .error e) :
    (callF hook dhook g c).1 = {} := reset_afterF hook dhook g c h

/-- the `finally` does not change what the call returns or raises -/
theorem callF_outcome (hook : Hook) (dhook : DHook) (g : G) (c : Call) (h : c.input ≠ .unparsable) :
    (callF hook dhook g c).2 = (bodyM hook dhook c.input (enter g c)).2 := by
  unfold callF
  split
  · contradiction
  · exact tryFin_outcome _ _

theorem callF_unparsable (hook : Hook) (dhook : DHook) (g : G) (c : Call) (h : c.input = .unparsable) :
    callF hook dhook g c = (g, .error ()) := by
  unfold callF; rw [h]

theorem callF_default_state (hook : Hook) (dhook : DHook) (c : Call) : (callF hook dhook {} c).1 = {} := by
  by_cases h : c.input = .unparsable
  · rw [callF_unparsable hook dhook {} c h]
  · exact reset_afterF hook dhook {} c h

/-! ### 3. `call` is the observation of `callF` -/

/-- **`SerOpts.call` = `callF` with the library's own hooks**: same final state, same outcome.  All
theorems of Props/C16.lean about `call` / `runSeq` are therefore theorems about the explicit
`try … finally` wrapper. -/
theorem callF_eq_call (g : G) (c : Call) : callF noHook noDHook g c = call g c := by
  by_cases h : c.input = .unparsable
  · rw [callF_unparsable _ _ g c h, call_unparsable g c h]
  · have h1 : callF noHook noDHook g c = tryFin (bodyM noHook noDHook c.input) resetM (enter g c) := by
      unfold callF; split
      · contradiction
      · rfl
    have h2 : call g c = (match body (enter g c) c.input with
        | .ok r => (({} : G), Except.ok r) | .error e => ({}, .error e)) := by
      unfold call; split
      · contradiction
      · rfl
    rw [h1, h2]
    simp only [tryFin, resetM, M.write, bodyM_noHook]
    cases body (enter g c) c.input <;> rfl

theorem runSeqF_eq_runSeq (g : G) (cs : List Call) : runSeqF noHook noDHook g cs = runSeq g cs := by
  induction cs generalizing g with
  | nil => rfl
  | cons c r ih => simp only [runSeqF, runSeq, callF_eq_call, ih]

/-- `reset_after` re-derived from the explicit wrapper (no longer by unfolding two literal `{}`) -/
theorem reset_after_via_finally (g : G) (c : Call) (h : c.input ≠ .unparsable) : (call g c).1 = {} := by
  rw [← callF_eq_call]; exact reset_afterF noHook noDHook g c h

/-! ### 4. histories -/

/-- in a history started from the default state every call — whatever user hooks run inside,
whether it returned or raised — behaves as if it were the only one, and leaves the default state -/
theorem seqF_independent (hook : Hook) (dhook : DHook) (cs : List Call) :
    runSeqF hook dhook {} cs = (cs.map fun c => ((callF hook dhook {} c).2, ({} : G)), {}) := by
  induction cs with
  | nil => rfl
  | cons c r ih =>
    have h1 := callF_default_state hook dhook c
    simp only [runSeqF, List.map_cons]
    generalize hc : callF hook dhook {} c = p at h1
    obtain ⟨g1, out⟩ := p
    simp only at h1
    subst h1
    simp only [ih]

/-- **a later call without options produces the default output whether the earlier call returned
or raised part-way**: after ANY call that reached the wrapper (any options, any dialect, any hooks,
any entered state), a call of the library's own code is the body under exactly its own arguments -/
theorem later_call_default (hook : Hook) (dhook : DHook) (g : G) (c c' : Call)
    (h : c.input ≠ .unparsable) :
    (callF noHook noDHook (callF hook dhook g c).1 c').2 =
      body { opts := c'.opts.getD {}, md := effMd c'.kind c'.md } c'.input := by
  rw [reset_afterF hook dhook g c h, callF_eq_call, call_depends_on_own_args]

/-! ### 5. the calibration mutants are refuted -/

def firstKey : Except Unit Out → Option Str
  | .ok (.j (.map (.mk k _ :: _))) => some k
  | _ => none

/-- mutant `ser_opts_no_finally` (reset skipped when the body raises): a call with options that
raises two levels down leaves them set … -/
theorem callNoFinally_fails :
    (cAll bombed).input ≠ .unparsable ∧
    (callNoFinally noHook noDHook {} (cAll bombed)).2 = .error () ∧
    (callNoFinally noHook noDHook {} (cAll bombed)).1 ≠ {} := by
  refine ⟨by simp [cAll], rfl, by decide⟩

/-- … and the next call WITHOUT options then writes no type tag (first key `content_id` instead of
`__type`): not the default output -/
theorem callNoFinally_later_call_fails :
    ((runSeqWith (callNoFinally noHook noDHook) {} [cAll bombed, cPlain good]).1.map
        fun x => firstKey x.1) = [none, some "content_id".toList] ∧
    firstKey (body {} (.ser good)) = some TYPE_KEY := by decide

/-- the same history under the real wrapper: default output -/
example : ((runSeqF noHook noDHook {} [cAll bombed, cPlain good]).1.map fun x => firstKey x.1)
    = [none, some TYPE_KEY] := by decide

/-- mutant `ser_opts_not_cleared_on_deser` (`as_obj` without the reset): a successful `from_msgpck`
with options leaves them set -/
theorem callNoResetDeser_fails :
    (callNoResetDeser noHook noDHook {} (cDeser (.node false [.plain]))).2 = .ok (.seen []) ∧
    (callNoResetDeser noHook noDHook {} (cDeser (.node false [.plain]))).1 ≠ {} := by
  refine ⟨rfl, by decide⟩

/-! ### 6. hooks that write or raise: non-vacuity of the quantification over hooks -/

/-- a hook that overwrites the globals at every `Leaf` -/
def hookWrite : Hook := fun o => match o with
  | .mk .node cls _ _ _ => if cls = "Leaf".toList then M.write gAll else M.pure ()
  | _ => M.pure ()
/-- a hook that raises at every code point -/
def hookRaise : Hook := fun o => match o with
  | .mk .point _ _ _ _ => M.raise
  | _ => M.pure ()
/-- a user `__post_serialize__` that makes a nested public call (whose `finally` resets the slots) -/
def hookReenter : Hook := fun o => match o with
  | .mk .node cls _ _ _ => if cls = "Leaf".toList then resetM else M.pure ()
  | _ => M.pure ()

-- the body really leaves a dirty state behind when the hook writes …
example : (bodyM hookWrite noDHook (.ser good) {}).1 = gAll := by decide
-- … and the call resets it all the same
example : (callF hookWrite noDHook {} (cPlain good)).1 = {} :=
  reset_afterF hookWrite noDHook {} _ (by simp [cPlain])
-- a hook that raises three levels down (origin → position → code point)
example : (callF hookRaise noDHook {} (cAll good)).2 = .error () ∧
    (callF hookRaise noDHook {} (cAll good)).1 = {} :=
  ⟨rfl, reset_afterF hookRaise noDHook {} _ (by simp [cAll])⟩

def keysOf : J → List Str
  | .map fs => keys fs
  | _ => []
def itemsKeys : Except Unit Out → List (List Str)
  | .ok (.j (.map fs)) => fs.flatMap fun f => match f with
      | .mk _ (.arr xs) => xs.map keysOf
      | _ => []
  | _ => []

/-- NOT guaranteed — and the unchanged library behaves the same (checked on /repo: a user
`__post_serialize__` that calls `Other().as_dict()` makes the enclosing `as_dict(SKIP_CLASS)` write
`__type` on everything serialized after it): with a re-entrant hook the options of the call do not
reach every nested object.  The call asks for tag suppression; with the library's own hooks the
root mapping starts with `id`, with the re-entrant hook at the leaves it starts with `__type`.
The slots are nevertheless reset after the call.  (Outside the property's quantifier, which ranges
over SEQUENCES of calls; it is the reason why Model/SerOpts.lean may treat the body as a function
of the entered state only for the library's own hooks.) -/
theorem reentrant_hook_breaks_options :
    let c : Call := { kind := .asDict, opts := some { skip := some true }, md := none, input := .ser good }
    firstKey (callF noHook noDHook {} c).2 = some "id".toList ∧
    firstKey (callF hookReenter noDHook {} c).2 = some TYPE_KEY ∧
    (callF hookReenter noDHook {} c).1 = {} := by decide

end C16
end PyOak
