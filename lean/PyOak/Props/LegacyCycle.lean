/-
`detach` on a heap with a cycle does not return.

`replace_with` on a receiver that has a parent clears the receiver's parent link and detaches the
receiver's subtree.  If the parent were a descendant of the receiver (a cycle through the receiver --
the invariant of C18 does not exclude cycles of length ≥ 2), the walk would come back to the receiver
while the receiver is still registered and start over: it never ends.  In the model: every fuel is
exhausted (`none`), the step answers `hang`.

  detachGo_keeps    a finished run of `detach` never unregisters a node of a set `S` of attached nodes
                    each of which has a child in `S` (a node is unregistered only after all its children
                    are; the first node of `S` to go would still have an attached child)
  detach_no_cycle   hence: if `detach` of the receiver returned, the parent is not a descendant
  rwith_open        the common first half of `replace_with` on a receiver with a parent: the invariant
                    holds with one hole at the parent, the parent is still attached, the receiver is not
-/
import PyOak.Props.LegacyReplace
namespace PyOak.Legacy
open LState

/-- a set of attached nodes each of which has a child in the set -/
def Supp (S : Nat → Prop) (s : LState) : Prop := ∀ x, S x → Att s x ∧ ∃ c ∈ (s.obj x).kidList, S c

theorem Supp.shrinks {S : Nat → Prop} {s s' : LState} (h : Supp S s) (hS : Shrinks s s')
    (ha : ∀ x, S x → Att s' x) : Supp S s' := by
  intro x hx
  obtain ⟨c, hc, hsc⟩ := (h x hx).2
  exact ⟨ha x hx, c, by rw [hS.kidList_eq]; exact hc, hsc⟩

/-- the loop over the children of `detach()` -/
theorem detachKids_keeps (S : Nat → Prop) (rec : LState → Nat → LState × Option Bool)
    (hrec : ∀ s c s' b, rec s c = (s', some b) → Supp S s →
      Shrinks s s' ∧ (∀ x, S x → Att s' x) ∧ ((s.obj c).pid = none → ¬ Att s' c)) :
    ∀ (ks : List Nat) (s s1 : LState), detachKids rec false s ks = (s1, true) → Supp S s →
      Shrinks s s1 ∧ (∀ x, S x → Att s1 x) ∧ ∀ c ∈ ks, ¬ Att s1 c := by
  intro ks
  induction ks with
  | nil =>
    intro s s1 h hS
    simp only [detachKids, Prod.mk.injEq, and_true] at h
    subst h
    exact ⟨Shrinks.refl _, fun x hx => (hS x hx).1, fun c hc => by cases hc⟩
  | cons c cs ih =>
    intro s s1 h hS
    simp only [detachKids, Bool.false_eq_true, if_false] at h
    cases hr : rec (s.clearParent c) c with
    | mk s2 r =>
      rw [hr] at h
      cases r with
      | none => simp at h
      | some b =>
        simp only at h
        have hS1 : Supp S (s.clearParent c) :=
          hS.shrinks (shrinks_clearParent s c) (fun x hx => (att_clearParent_iff s c x).mpr (hS x hx).1)
        obtain ⟨hsh2, hk2, hc2⟩ := hrec (s.clearParent c) c s2 b hr hS1
        have hS2 : Supp S s2 := hS1.shrinks hsh2 hk2
        obtain ⟨hsh3, hk3, hc3⟩ := ih s2 s1 h hS2
        refine ⟨((shrinks_clearParent s c).trans hsh2).trans hsh3, hk3, ?_⟩
        intro x hx
        rcases List.mem_cons.mp hx with rfl | hx
        · intro ha
          exact hc2 (by rw [clearParent_obj']; simp [clearP]) (hsh3.att ha)
        · exact hc3 x hx

/-- **a finished `detach()` never unregisters a node of a self-supporting set of attached nodes**,
and it leaves a start node without parent link unregistered -/
theorem detachGo_keeps (S : Nat → Prop) : ∀ (fuel : Nat) (s : LState) (u : Nat) (s' : LState) (b : Bool),
    detachGo fuel false s u = (s', some b) → Supp S s →
      (∀ x, S x → Att s' x) ∧ ((s.obj u).pid = none → ¬ Att s' u) := by
  intro fuel
  induction fuel with
  | zero => intro s u s' b h; simp [detachGo] at h
  | succ fuel ih =>
    intro s u s' b h hS
    unfold detachGo at h
    by_cases hd : s.detached u = true
    · simp only [hd, if_true, Prod.mk.injEq] at h
      obtain ⟨rfl, _⟩ := h
      exact ⟨fun x hx => (hS x hx).1, fun _ => (detached_eq_true_iff _ _).mp hd⟩
    · simp only [hd, Bool.false_eq_true, if_false] at h
      have hatt : Att s u := by
        rw [← detached_eq_false_iff]; cases hh : s.detached u <;> simp_all
      by_cases hr : (!s.isAttachedRoot u) = true
      · simp only [hr, if_true, Prod.mk.injEq] at h
        obtain ⟨rfl, _⟩ := h
        refine ⟨fun x hx => (hS x hx).1, fun hpid => ?_⟩
        exfalso
        have : s.isAttachedRoot u = true := by
          unfold LState.isAttachedRoot LState.parent
          rw [hpid]
          have : s.detached u = false := by cases hh : s.detached u <;> simp_all
          simp [this]
        rw [this] at hr; simp at hr
      · simp only [hr, Bool.false_eq_true, if_false] at h
        cases hl : detachKids (detachGo fuel false) false s (s.obj u).kidList with
        | mk s1 fl =>
          rw [hl] at h
          cases fl with
          | false => simp at h
          | true =>
            simp only [Prod.mk.injEq] at h
            obtain ⟨rfl, _⟩ := h
            obtain ⟨hsh, hk, hc⟩ := detachKids_keeps S (detachGo fuel false)
              (fun t c t' b' ht hSt => by
                have hF := detachGo_facts fuel false t c b' (by rw [ht])
                rw [ht] at hF
                obtain ⟨a1, a2⟩ := ih t c t' b' ht hSt
                exact ⟨hF.shr, a1, a2⟩)
              (s.obj u).kidList s s1 hl hS
            have hnS : ¬ S u := by
              intro hu
              obtain ⟨c, hcm, hcS⟩ := (hS u hu).2
              exact hc c hcm (hk c hcS)
            refine ⟨?_, fun _ => by unfold Att; rw [unregister_idOf, unregister_lookup]; simp⟩
            intro x hx
            have hx1 := hk x hx
            have hxu : x ≠ u := fun e => hnS (e ▸ hx)
            unfold Att
            rw [unregister_idOf, unregister_lookup]
            by_cases e : s1.idOf u = s1.idOf x
            · exfalso
              have h1 : s1.lookup (s.idOf u) = some x := by
                rw [← hsh.id_eq u, e]; exact hx1
              rcases hsh.reg (s.idOf u) with h2 | h2
              · rw [h2] at h1
                unfold Att at hatt
                rw [hatt] at h1
                exact hxu (Option.some.inj h1).symm
              · rw [h2] at h1; cases h1
            · simp only [e, if_false]; exact hx1

/-- the first step of a path -/
theorem Desc.head {s : LState} {x q : Nat} (hd : Desc s x q) :
    x = q ∨ ∃ c ∈ (s.obj x).kidList, Desc s c q := by
  induction hd with
  | refl => exact .inl rfl
  | @step q' q _ hk ih =>
    rcases ih with rfl | ⟨c, hc, hcd⟩
    · exact .inr ⟨q, hk, .refl⟩
    · exact .inr ⟨c, hc, .step hcd hk⟩

/-- a proper descendant of an attached node stores a parent link -/
theorem desc_pid {Hc : Str → Str} {s : LState} (hI : Inv Hc s) {u q : Nat} (hu : Att s u) (hd : Desc s u q) :
    q = u ∨ ∃ k, (s.obj q).pid = some k := by
  cases hd with
  | refl => exact .inl rfl
  | @step q' _ hd' hk =>
    right
    obtain ⟨hq', _⟩ := upFree_of_desc hI hu hd' (fun _ _ hx => hx.elim)
    obtain ⟨e, he, he1⟩ := (mem_kidList_iff _ _).mp hk
    obtain ⟨_, b, _, _⟩ := hI.down' q' hq' e he
    rw [he1] at b
    exact ⟨_, b⟩

section
variable (Hc : Str → Str)

/-- **no cycle through the receiver**: if the `detach()` of the receiver (parent link cleared) returns,
the parent is not a descendant of the receiver -/
theorem detach_no_cycle {s s2 : LState} {u p fuel : Nat} {b : Bool} (hI : Inv Hc s) (hua : Att s u)
    (hpar : s.parent u = some p) (hds : detachGo fuel false (s.clearParent u) u = (s2, some b)) :
    ¬ Desc s u p := by
  intro hd
  obtain ⟨f, _, hmem⟩ := hI.up u hua p hpar
  have hukid : u ∈ (s.obj p).kidList := (mem_kidList_iff _ _).mpr ⟨_, hmem, rfl⟩
  have hkl : ∀ v, ((s.clearParent u).obj v).kidList = (s.obj v).kidList := (shrinks_clearParent s u).kidList_eq
  have hS : Supp (fun x => Desc s u x ∧ Desc s x p) (s.clearParent u) := by
    intro x ⟨hux, hxp⟩
    refine ⟨(att_clearParent_iff s u x).mpr (upFree_of_desc hI hua hux (fun _ _ hx => hx.elim)).1, ?_⟩
    rcases hxp.head with rfl | ⟨c, hc, hcp⟩
    · exact ⟨u, by rw [hkl]; exact hukid, .refl, hd⟩
    · exact ⟨c, by rw [hkl]; exact hc, .step hux hc, hcp⟩
  obtain ⟨hk, hn⟩ := detachGo_keeps _ fuel (s.clearParent u) u s2 b hds hS
  exact hn (by rw [clearParent_obj']; simp [clearP]) (hk u ⟨.refl, hd⟩)

/-- the state of `replace_with` on a receiver with a parent after `_clear_parent()` and `detach()` -/
structure Opened (s s2 : LState) (u p : Nat) (f : Str) : Prop where
  hf : (s.obj u).pfield = some f
  ua : Att s u
  pa : Att s p
  pu : p ≠ u
  mem : (u, f, (s.obj u).pindex) ∈ (s.obj p).kidsPos
  shr : Shrinks (s.clearParent u) s2
  inv2 : InvX Hc (Hole p (u, f, (s.obj u).pindex)) NoY s2
  pa2 : Att s2 p
  nu2 : ¬ Att s2 u
  /-- whatever else was unregistered is a proper descendant of the receiver -/
  gone : ∀ x, Att s x → ¬ Att s2 x → x = u ∨ ∃ k, (s.obj x).pid = some k

theorem Opened.id2 {s s2 : LState} {u p : Nat} {f : Str} (h : Opened Hc s s2 u p f) (x : Nat) :
    s2.idOf x = s.idOf x := by rw [h.shr.id_eq, clearParent_idOf]

theorem Opened.fl2 {s s2 : LState} {u p : Nat} {f : Str} (h : Opened Hc s s2 u p f) (x : Nat) :
    (s2.obj x).fields = (s.obj x).fields := by
  rw [h.shr.fields_eq, clearParent_obj']; split
  · next hx => subst hx; rfl
  · rfl

theorem Opened.sz2 {s s2 : LState} {u p : Nat} {f : Str} (h : Opened Hc s s2 u p f) : s2.size = s.size := by
  rw [h.shr.size]; rfl

theorem Opened.att2 {s s2 : LState} {u p : Nat} {f : Str} (h : Opened Hc s s2 u p f) {x : Nat} (hx : Att s2 x) :
    Att s x := (att_clearParent_iff s u x).mp (h.shr.att hx)

theorem Opened.mem2 {s s2 : LState} {u p : Nat} {f : Str} (h : Opened Hc s s2 u p f) :
    (u, f, (s.obj u).pindex) ∈ (s2.obj p).kidsPos := by
  unfold LObj.kidsPos; rw [h.fl2]; exact h.mem

/-- an attached root other than the receiver survives the `detach()` of the receiver -/
theorem Opened.root2 {s s2 : LState} {u p : Nat} {f : Str} (h : Opened Hc s s2 u p f) {n : Nat} (hn : Att s n)
    (hroot : s.parent n = none) (hnu : n ≠ u) (hI : Inv Hc s) : Att s2 n ∧ s2.parent n = none := by
  have hpid : (s.obj n).pid = none := by
    cases hk : (s.obj n).pid with
    | none => rfl
    | some k =>
      obtain ⟨_, hks⟩ := hI.noDangling n k hk
      unfold LState.parent at hroot
      rw [hk] at hroot; simp only at hroot
      rw [hroot] at hks; cases hks
  constructor
  · apply Classical.byContradiction; intro hn2
    rcases h.gone n hn hn2 with e | ⟨k, hk⟩
    · exact hnu e
    · rw [hpid] at hk; cases hk
  · unfold LState.parent
    have : (s2.obj n).pid = none := by
      rcases h.shr.obj n with e | e
      · rw [e, clearParent_obj']; split
        · rfl
        · exact hpid
      · rw [e]; rfl
    rw [this]

/-- a node whose parent resolves is attached -/
theorem att_of_parent {s : LState} {u p : Nat} (hI : Inv Hc s) (hpar : s.parent u = some p) : Att s u := by
  unfold LState.parent at hpar
  cases hk : (s.obj u).pid with
  | none => rw [hk] at hpar; cases hpar
  | some k => exact (hI.noDangling u k hk).1

theorem rwith_open {s s2 : LState} {u p fuel : Nat} {b : Bool} (hI : Inv Hc s) (hpar : s.parent u = some p)
    (hds : detachGo fuel false (s.clearParent u) u = (s2, some b)) :
    ∃ f, Opened Hc s s2 u p f := by
  have hua : Att s u := by
    unfold LState.parent at hpar
    cases hk : (s.obj u).pid with
    | none => rw [hk] at hpar; cases hpar
    | some k => exact (hI.noDangling u k hk).1
  obtain ⟨f, hf, hmem⟩ := hI.up u hua p hpar
  have hpa : Att s p := by
    unfold LState.parent at hpar
    cases hk : (s.obj u).pid with
    | none => rw [hk] at hpar; cases hpar
    | some k =>
      rw [hk] at hpar
      obtain ⟨_, hid⟩ := hI.regSound k p hpar
      unfold Att; rw [hid]; exact hpar
  have hpu : p ≠ u := fun h => hI.noSelf u (h ▸ hpar)
  have hI1 := clearParent_invX Hc hI hua hpar hf
  have ha1 : Att (s.clearParent u) u := (att_clearParent_iff s u u).mpr hua
  have hr1 : (s.clearParent u).parent u = none := by
    unfold LState.parent; rw [clearParent_obj']; simp [clearP]
  have hF := detachGo_facts fuel false (s.clearParent u) u b (by rw [hds])
  rw [hds] at hF
  have hDesc := detachGo_desc fuel false (s.clearParent u) u b (by rw [hds])
  rw [hds] at hDesc
  have hkl1 : ∀ v, ((s.clearParent u).obj v).kidList = (s.obj v).kidList :=
    (shrinks_clearParent s u).kidList_eq
  have hacyc := detach_no_cycle Hc hI hua hpar hds
  have hpa2 : Att s2 p := by
    apply Classical.byContradiction; intro hnp2
    have := hDesc p ⟨(att_clearParent_iff s u p).mpr hpa, hnp2⟩
    exact hacyc (this.congr (fun v => (hkl1 v).symm))
  have hI2 : InvX Hc (Hole p (u, f, (s.obj u).pindex)) NoY s2 :=
    detachGo_invX Hc hI1 hds (fun q e hx hun => by rw [hx.1] at hun; exact hun.2 hpa2)
  refine ⟨f, ⟨hf, hua, hpa, hpu, hmem, hF.shr, hI2, hpa2, detachGo_root_detaches ha1 hr1 hds, ?_⟩⟩
  intro x hx hx2
  have := hDesc x ⟨(att_clearParent_iff s u x).mpr hx, hx2⟩
  exact desc_pid hI hua (this.congr (fun v => (hkl1 v).symm))

end

/-! ### non-vacuity -/
section examples
open PyOak.Legacy.Ex

/-- a heap with a cycle of length 2: node 0 is the (optional) child of node 1 and node 1 the child of node 0,
both registered -/
def cycObj (id pid : String) (kid : Nat) : LObj :=
  { cls := "U".toList, mro := ["U".toList], fqn := [], props := [], id := id.toList, origId := none, collWith := none,
    cid := [], fields := [⟨"arg".toList, .opt, ["U".toList], [kid]⟩], pid := some pid.toList,
    pfield := some "arg".toList, pindex := none }
def cyc : LState :=
  { heap := fun v => if v = 0 then cycObj "a" "b" 1 else if v = 1 then cycObj "b" "a" 0 else default,
    size := 2, reg := [("a".toList, 0), ("b".toList, 1)] }

example : cyc.parent 0 = some 1 ∧ cyc.parent 1 = some 0 ∧ Att cyc 0 ∧ Att cyc 1 := by decide
/-- `replace_with` on a node of the cycle: the `detach()` of the receiver does not end -/
example : (step id id cyc (.rwith 0 none)).2 = .raised .hang := by decide
example : (step id id cyc (.rwith 0 (some 0))).2 = .raised .replaceWithError := by decide
/-- `detachGo_keeps` on the cycle: with whatever fuel, the run does not return -/
example (fuel : Nat) (s' : LState) (b : Bool) (h : detachGo fuel false (cyc.clearParent 0) 0 = (s', some b)) :
    False := by
  have hS : Supp (fun x => x = 0 ∨ x = 1) (cyc.clearParent 0) := by
    rintro x (rfl | rfl)
    · exact ⟨by decide, 1, by decide, .inr rfl⟩
    · exact ⟨by decide, 0, by decide, .inl rfl⟩
  obtain ⟨hk, hn⟩ := detachGo_keeps _ fuel _ 0 s' b h hS
  exact hn (by decide) (hk 0 (.inl rfl))

end examples

end PyOak.Legacy
