/-
Bridge between the hand-written model and the definitions GENERATED from the source on every run
(PyOak/Gen/Kernels.lean, written by harness/py2lean_k.py):

  matchElem_eq_gen            Model `matchElem`  = generated `_match_node_element`      (C07; shared by match and findall)
  propertyFieldYielded_eq_gen Model `propertyFieldYielded` = generated loop body of `ASTNode.get_property_fields`  (C12)

The proofs only unfold both sides and decide the finitely many shapes of the Optional arguments, so that a harmless
rewrite of the Python function (other order of independent tests, early returns, De Morgan) re-proves, while a
semantic change leaves a goal that is false for some shape and the build fails (the check then searches the real
code for a failing input).
-/
import PyOak.Gen.Kernels
import PyOak.Model.XPath
import PyOak.Model.Accessors
namespace PyOak.GenBridge
open PyOak PyOak.Acc

/-- `_NodeTraversalInfo(node, parent, field, findex)` as the model sees a position: the edge carries field name and index -/
def toInfo (n : Node) (par : Option Node) (edge : Option Edge) : GenK.NodeTraversalInfo Node :=
  { node := n, parent := par, field := edge.map (fun e => ⟨e.field⟩), findex := (edge.bind (·.idx)).map Int.ofNat }

/-- `ASTXpathElement(ast_class, parent_field, parent_index, anywhere)` -/
def toEl (el : XElem) : GenK.ASTXpathElement Str :=
  { ast_class := el.cls, parent_field := el.field, parent_index := el.idx.map Int.ofNat, anywhere := el.anywhere }

/-- the element test shared by `match` and `findall` is what the source says -/
theorem matchElem_eq_gen (n : Node) (par : Option Node) (edge : Option Edge) (el : XElem) :
    matchElem n edge el = GenK.match_node_element Node.isInst (toInfo n par edge) (toEl el) := by
  obtain ⟨cls, fld, idx, anyw⟩ := el
  rw [Bool.eq_iff_iff]
  rcases edge with _ | ⟨f, _ | ei⟩ <;> cases fld <;> cases idx <;>
    (try simp [matchElem, GenK.match_node_element, toInfo, toEl]) <;> (try grind)

-- non-vacuity: both sides say yes / no on concrete positions
example : GenK.match_node_element (N := Nat) (C := Nat) (fun a b => a == b) ⟨1, some 0, some ⟨['f']⟩, some 12⟩ ⟨1, some ['f'], some 12, false⟩ = true
    ∧ GenK.match_node_element (N := Nat) (C := Nat) (fun a b => a == b) ⟨1, some 0, some ⟨['f']⟩, some 12⟩ ⟨1, some ['f'], some 1, false⟩ = false
    ∧ GenK.match_node_element (N := Nat) (C := Nat) (fun a b => a == b) ⟨1, none, none, none⟩ ⟨1, some ['f'], none, false⟩ = false := by
  decide

/-- `dataclasses.Field` of a property as `get_property_fields` reads it -/
def toPField (f : FDecl) : GenK.PField := ⟨f.name, f.compare, f.init⟩

/-- the loop body of the static `get_property_fields` is what the source says -/
theorem propertyFieldYielded_eq_gen (fl : Flags) (f : FDecl) :
    propertyFieldYielded fl f =
      GenK.get_property_fields_keep (toPField f) fl.skipId fl.skipOrigin fl.skipContentId fl.skipNonCompare fl.skipNonInit := by
  rw [Bool.eq_iff_iff]
  simp only [propertyFieldYielded, GenK.get_property_fields_keep, toPField, nmId, nmContentId, nmOrigin]
  by_cases h1 : f.name = ['i', 'd'] <;> by_cases h2 : f.name = ['c', 'o', 'n', 't', 'e', 'n', 't', '_', 'i', 'd'] <;>
    by_cases h3 : f.name = ['o', 'r', 'i', 'g', 'i', 'n'] <;> (try simp_all) <;> (try grind)

example : GenK.get_property_fields_keep ⟨['i', 'd'], false, false⟩ false true true true true = true
    ∧ GenK.get_property_fields_keep ⟨['x'], false, true⟩ true true true true false = false
    ∧ GenK.get_property_fields_keep ⟨['x'], true, false⟩ true true true true false = true := by decide

end PyOak.GenBridge
