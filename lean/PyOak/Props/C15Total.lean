/-
C15 (additions, target 1) — totality and validity preservation of `+`, `merge_origins`, `concat_origins`.

`codeValid o`: every code origin inside the origin value `o` (at any nesting depth) carries a range the
constructors accept: both points pass `CodePoint.__post_init__` (the GENERATED `CodePoint.valid`) and the range passes
`CodeRange.__post_init__` (the GENERATED `CodeRange.valid`).  Every object the real code can build satisfies it
(the constructors raise otherwise).

Main results (no `= .ok r` assumption):
* `add_total`, `concat_total`  the model's `+` / `concat_origins` raise on NO operands at all: in the fusing case the
                   hull of overlapping ranges is well-ordered even for ill-formed operands (`add_valid_of_overlaps`);
* `add_ok`, `merge_valid`, `concat_ok`  on flat valid operands the three operations return, and the result is again
                   flat and valid;  the `codeValid` half holds for ALL operands (nested ones included): `add_codeValid`,
                   `merge_codeValid`, `concat_codeValid`.
* the "within its source text" part: `inText` is preserved when `==` sources carry the same text (`add_inText`),
  and is NOT preserved in general (`add_inText_fails`: two `==` sources with texts of different length).
-/
import PyOak.Props.C15
namespace PyOak.C15
open PyOak.Gen PyOak.OriginAlg

/-- a range the constructors `CodePoint(..)`, `CodePoint(..)`, `CodeRange(..)` accept -/
def rangeWF (r : CodeRange) : Prop := r.start.valid = true ∧ r.end_.valid = true ∧ r.valid = true

instance (r : CodeRange) : Decidable (rangeWF r) := by unfold rangeWF; infer_instance

mutual
/-- every code origin inside `o` has a well-formed range -/
def codeValid : Origin → Prop
  | .code _ _ r => rangeWF r
  | .multi _ _ os => codeValidList os
  | _ => True
def codeValidList : List Origin → Prop
  | [] => True
  | o :: r => codeValid o ∧ codeValidList r
end

theorem codeValidList_iff (os : List Origin) : codeValidList os ↔ ∀ o ∈ os, codeValid o := by
  induction os with
  | nil => simp [codeValidList]
  | cons o r ih => simp [codeValidList, ih]

theorem codeValidList_append (xs ys : List Origin) :
    codeValidList (xs ++ ys) ↔ codeValidList xs ∧ codeValidList ys := by
  simp only [codeValidList_iff, List.mem_append]
  constructor
  · intro h; exact ⟨fun o ho => h o (Or.inl ho), fun o ho => h o (Or.inr ho)⟩
  · rintro ⟨h1, h2⟩ o (ho | ho)
    · exact h1 o ho
    · exact h2 o ho

/-- validity of an origin is validity of what it lists -/
theorem codeValid_leaves (o : Origin) : codeValidList (leaves o) ↔ codeValid o := by
  cases o <;> simp [leaves, codeValid, codeValidList]

theorem codeValidList_flatMap (os : List Origin) :
    codeValidList (os.flatMap leaves) ↔ ∀ o ∈ os, codeValid o := by
  induction os with
  | nil => simp [codeValidList]
  | cons o r ih => simp [List.flatMap_cons, codeValidList_append, codeValid_leaves, ih]

/-- the hull of two well-formed ranges is well-formed (its points are points of the operands) -/
theorem rangeWF_add (a b : CodeRange) (ha : rangeWF a) (hb : rangeWF b) : rangeWF (a.add b) := by
  obtain ⟨a1, a2, a3⟩ := ha
  obtain ⟨b1, b2, b3⟩ := hb
  refine ⟨?_, ?_, add_valid a b (Or.inl a3)⟩
  · show (CodeRange.add a b).start.valid = true
    unfold CodeRange.add; dsimp only; split <;> assumption
  · show (CodeRange.add a b).end_.valid = true
    unfold CodeRange.add; dsimp only; split <;> assumption

/-- `pack` (the tail of `merge_origins`) never raises, and what it returns lists exactly its argument when that
has at least two entries -/
theorem pack_ok (xs : List Origin) : ∃ r, pack xs = .ok r := by
  match xs with
  | [] => exact ⟨_, rfl⟩
  | [x] => exact ⟨_, rfl⟩
  | x :: y :: r => exact ⟨_, by rw [pack_many, mkMulti_spec]⟩

theorem pack_codeValid (xs : List Origin) (r : Origin) (h : pack xs = .ok r) : codeValid r ↔ codeValidList xs := by
  match xs, h with
  | [], h => cases h; simp [codeValid, codeValidList]
  | [x], h => cases h; simp [codeValidList]
  | x :: y :: t, h =>
    rw [pack_many, mkMulti_spec] at h
    cases h
    simp [codeValid]

/-- `merge_origins` keeps validity, for ALL operands (flat or not) -/
theorem merge_codeValid (os : List Origin) (hv : ∀ o ∈ os, codeValid o) (r : Origin) (h : merge os = .ok r) :
    codeValid r := by
  by_cases h1 : os.length = 1
  · match os, h1 with
    | [o], _ => cases h; exact hv r (by simp)
  · rw [merge_spec os h1] at h
    exact (pack_codeValid _ r h).mpr ((codeValidList_flatMap os).mpr hv)

/-- `merge_origins` on flat valid operands: returns, and the result is flat and valid.
(`merge_ok` of Props/C15.lean is the bare existence; here with both invariants.) -/
theorem merge_valid (os : List Origin) (hf : ∀ o ∈ os, Flat o) (hv : ∀ o ∈ os, codeValid o) :
    ∃ r, merge os = .ok r ∧ codeValid r ∧ Flat r ∧ leaves r = os.flatMap leaves := by
  obtain ⟨r, hr⟩ := merge_ok os
  have := merge_flat os hf r hr
  exact ⟨r, hr, merge_codeValid os hv r hr, this.1, this.2⟩

/-- overlapping (or touching) ranges have a well-ordered hull even when the operands themselves are ill-formed, so the
`CodeRange(..)` call inside `CodeRange.__add__` cannot reject in the fusing case -/
theorem add_valid_of_overlaps (a b : CodeRange) (h : a.overlaps b = true) : (a.add b).valid = true := by grind

/-- the fusing case without any validity hypothesis (strengthens `add_code_same_source_overlap`) -/
theorem add_fuse (ga gb : Bool) (sa sb : SrcV) (ra rb : CodeRange)
    (hm : mergeable (.code ga sa ra) (.code gb sb rb) = true) :
    add (.code ga sa ra) (.code gb sb rb) = .ok (.code false sa (ra.add rb)) := by
  simp only [mergeable, Bool.and_eq_true] at hm
  have : CodeOrigin.add (S := SrcV) ⟨sa, ra⟩ ⟨sb, rb⟩ = some ⟨sa, ra.add rb⟩ := codeAdd_some _ _ hm.1 hm.2
  simp [add, this, add_valid_of_overlaps ra rb hm.2]

/-- **the model's `+` raises on NO pair of origins** (valid or not, flat or not): in the fusing case the hull is
well-ordered (`add_valid_of_overlaps`), every other case is `merge_origins` (`merge_ok`) -/
theorem add_total (a b : Origin) : ∃ r, add a b = .ok r := by
  by_cases hm : mergeable a b = true
  · cases a <;> cases b <;> simp [mergeable] at hm
    case code.code ga sa ra gb sb rb =>
      exact ⟨_, add_fuse ga gb sa sb ra rb (by simp [mergeable, hm.1, hm.2])⟩
  · have hm' : mergeable a b = false := by simpa using hm
    rw [add_eq_merge a b hm']
    exact merge_ok [a, b]

/-- `+` keeps validity, for ALL operands (flat or not) -/
theorem add_codeValid (a b : Origin) (ha : codeValid a) (hb : codeValid b) (r : Origin) (h : add a b = .ok r) :
    codeValid r := by
  by_cases hm : mergeable a b = true
  · cases a <;> cases b <;> simp [mergeable] at hm
    case code.code ga sa ra gb sb rb =>
      rw [add_code_same_source_overlap ga gb sa sb ra rb (by simp [mergeable, hm.1, hm.2]) (Or.inl ha.2.2)] at h
      cases h
      exact rangeWF_add ra rb ha hb
  · have hm' : mergeable a b = false := by simpa using hm
    rw [add_eq_merge a b hm'] at h
    exact merge_codeValid [a, b] (by intro o ho; simp at ho; rcases ho with rfl | rfl <;> assumption) r h

/-- **`+` never raises on flat valid operands; the result is flat and valid** -/
theorem add_ok (a b : Origin) (hfa : Flat a) (hfb : Flat b) (ha : codeValid a) (hb : codeValid b) :
    ∃ r, add a b = .ok r ∧ codeValid r ∧ Flat r := by
  obtain ⟨r, hr⟩ := add_total a b
  exact ⟨r, hr, add_codeValid a b ha hb r hr, (add_flat a b hfa hfb r hr).1⟩

/-- **`concat_origins` raises on NO operands** -/
theorem concat_total (o : Origin) (os : List Origin) : ∃ r, concat o os = .ok r := by
  induction os generalizing o with
  | nil => exact ⟨o, rfl⟩
  | cons b t ih =>
    obtain ⟨a, ha⟩ := add_total o b
    obtain ⟨r, hr⟩ := ih a
    exact ⟨r, by rw [concat_cons, ha]; exact hr⟩

/-- `concat_origins` never raises on valid operands and keeps validity (ALL operands, flat or not) -/
theorem concat_codeValid (o : Origin) (os : List Origin) (ho : codeValid o) (hv : ∀ b ∈ os, codeValid b) :
    ∃ r, concat o os = .ok r ∧ codeValid r := by
  induction os generalizing o with
  | nil => exact ⟨o, rfl, ho⟩
  | cons b t ih =>
    obtain ⟨a, ha⟩ := add_total o b
    have hva := add_codeValid o b ho (hv b (by simp)) a ha
    obtain ⟨r, hr, hvr⟩ := ih a hva (fun c hc => hv c (by simp [hc]))
    exact ⟨r, by rw [concat_cons, ha]; exact hr, hvr⟩

/-- **`concat_origins` never raises on flat valid operands; the result is flat and valid**, and lists the fold of
`specStep` (as `concat_flat`, but without assuming `= .ok r`) -/
theorem concat_ok (o : Origin) (os : List Origin) (hfo : Flat o) (hf : ∀ b ∈ os, Flat b) (ho : codeValid o)
    (hv : ∀ b ∈ os, codeValid b) :
    ∃ r, concat o os = .ok r ∧ codeValid r ∧ Flat r ∧ leaves r = os.foldl specStep (leaves o) := by
  obtain ⟨r, hr, hvr⟩ := concat_codeValid o os ho hv
  have := concat_flat o os hfo hf r hr
  exact ⟨r, hr, hvr, this.1, this.2⟩

/-! ### "within its source text" -/

/-- length of the text of a source, when it has one -/
def srcLen : SrcV → Option Nat
  | .one s => match s.raw with
    | .text t => some t.length
    | _ => none
  | .set _ => none

/-- the range ends inside the text of the source (when the source has a text) -/
def rangeIn (s : SrcV) (r : CodeRange) : Prop := ∀ n, srcLen s = some n → r.end_.index ≤ (n : Int)

mutual
/-- every code origin inside `o` lies within the text of its source -/
def inText : Origin → Prop
  | .code _ s r => rangeIn s r
  | .multi _ _ os => inTextList os
  | _ => True
def inTextList : List Origin → Prop
  | [] => True
  | o :: r => inText o ∧ inTextList r
end

/-- fusing keeps "within the text" when the two `==` sources carry texts of the same length (in particular when they
are one object, or equal objects built from one text) -/
theorem add_inText (ga gb : Bool) (sa sb : SrcV) (ra rb : CodeRange)
    (hm : mergeable (.code ga sa ra) (.code gb sb rb) = true) (hl : srcLen sa = srcLen sb)
    (ha : inText (.code ga sa ra)) (hb : inText (.code gb sb rb)) :
    ∃ r, add (.code ga sa ra) (.code gb sb rb) = .ok r ∧ inText r := by
  refine ⟨_, add_fuse ga gb sa sb ra rb hm, ?_⟩
  intro n hn
  have h1 := ha n hn
  have h2 := hb n (hl ▸ hn)
  have := (add_index ra rb).2
  show (CodeRange.add ra rb).end_.index ≤ _
  omega

/-- … and not otherwise: `==` is blind to the text (`_raw` is `compare=False`), so the hull taken with the LEFT source
may exceed the left text.  Here: `"ab"[0:2] + "abcd"[2:4]` over two `==` sources gives the range 0-4 over the text "ab". -/
theorem add_inText_fails :
    let s1 : SrcV := .one { key := 1, fqn := ['a'], raw := .text ['a', 'b'] }
    let s2 : SrcV := .one { key := 1, fqn := ['a'], raw := .text ['a', 'b', 'c', 'd'] }
    let a : Origin := .code false s1 ⟨⟨0, 1, 0⟩, ⟨2, 1, 2⟩⟩
    let b : Origin := .code false s2 ⟨⟨2, 1, 2⟩, ⟨4, 1, 4⟩⟩
    inText a ∧ inText b ∧ codeValid a ∧ codeValid b ∧
      add a b = .ok (.code false s1 ⟨⟨0, 1, 0⟩, ⟨4, 1, 4⟩⟩) ∧ ¬ inText (.code false s1 ⟨⟨0, 1, 0⟩, ⟨4, 1, 4⟩⟩) := by
  refine ⟨?_, ?_, by show rangeWF _; decide, by show rangeWF _; decide, rfl, ?_⟩
  · intro n hn; cases hn; decide
  · intro n hn; cases hn; decide
  · intro h; exact absurd (h 2 rfl) (by decide)

/-! ### non-vacuity -/
example : Flat c02 ∧ Flat c24 ∧ codeValid c02 ∧ codeValid c24 ∧ mergeable c02 c24 = true := by
  refine ⟨trivial, trivial, by show rangeWF _; decide, by show rangeWF _; decide, by decide⟩
example : ∃ m, merge [c02, xB, c57] = .ok m ∧ Flat m ∧ codeValid m ∧ m.isMulti = true := by
  refine ⟨_, rfl, ⟨by decide, rfl⟩, ?_, rfl⟩
  exact ⟨by show rangeWF _; decide, trivial, by show rangeWF _; decide, trivial⟩
/-- ill-formed overlapping operands still do not raise (the hull is well-ordered) -/
example : add (.code false sA ⟨⟨3, 1, 3⟩, ⟨1, 1, 1⟩⟩) (.code false sA ⟨⟨0, 1, 0⟩, ⟨4, 1, 4⟩⟩)
    = .ok (.code false sA ⟨⟨0, 1, 0⟩, ⟨4, 1, 4⟩⟩) := rfl

end PyOak.C15
