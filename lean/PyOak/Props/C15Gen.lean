/-
C15 (additions, target 6) — one more function of origin.py is GENERATED: the `fqn` property of `CodeRange`

    @property
    def fqn(self) -> str:
        return f"{self.start.index}-{self.end.index}"

is translated by harness/py2lean.py (f-strings over ints / strs, `str(int)`, `str + str`, string literals; `@property`)
into `Gen.CodeRange.fqn` on every run of the check.  Here it is bridged to the hand-written model (`PosV.fqn` of a code
position, which the correspondence exercises in every answer that carries an fqn): a harmless rewrite of the property
(`str(a) + "-" + str(b)`, a local name, another split of the f-string) re-proves, swapping the two indices or changing
the separator breaks `range_fqn_generated`.
-/
import PyOak.Props.C15
namespace PyOak.C15
open PyOak.Gen PyOak.OriginAlg

/-- the generated `str(i)` is the model's `intStr` -/
theorem intStr_eq_pyIntStr (i : Int) : intStr i = pyIntStr i := rfl

/-- **the generated `CodeRange.fqn` is the model's fqn of a code position** -/
theorem range_fqn_generated (r : CodeRange) : CodeRange.fqn r = (PosV.code r).fqn := by
  simp [PosV.fqn, CodeRange.fqn, intStr, pyIntStr, dash, List.append_assoc]

/-- what it is: decimal start index, `-`, decimal end index -/
theorem range_fqn_spec (r : CodeRange) :
    CodeRange.fqn r = (toString r.start.index).toList ++ ['-'] ++ (toString r.end_.index).toList := by
  simp [CodeRange.fqn, pyIntStr, List.append_assoc]

/-- so the fqn of a code origin composes the source's fqn with the GENERATED position fqn -/
theorem code_fqn_generated (g : Bool) (s : SrcV) (r : CodeRange) :
    (Origin.code g s r).fqn = s.fqn ++ uriDelim ++ CodeRange.fqn r := by
  rw [range_fqn_generated]; rfl

example : CodeRange.fqn ⟨⟨0, 1, 0⟩, ⟨12, 1, 12⟩⟩ = ['0', '-', '1', '2'] := by decide

end PyOak.C15
