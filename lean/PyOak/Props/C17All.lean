import PyOak.Props.C17Pattern
import PyOak.Props.C17Reject
