import PyOak.Props.C17Pattern
import PyOak.Props.C17Reject
import PyOak.Props.C17PatternSound
import PyOak.Props.C17XPathSound
import PyOak.Props.C17Legacy
