/-
C04 (registry half), AUDIT.md top-10 #1 (b): `deser ∘ ser` into a world where the ids of the
serialized tree are free (a fresh process, or the originals dropped).

`s` is the state in which the tree below `u` was serialized (`s.serOf n u`), `s0` the state in which
the payload is read back, `s'` the state afterwards, `u'` the answer.

* `roundtrip_fresh` — the map `φ v := s'.regGet (s.idOf v)` sends every node `v` of the original tree
  (`Desc s u v`) to a NEW object (`∈` the fresh tokens, `∉ s0.heap`), registered under — and
  carrying — the serialized id, with the same class and mro, whose children are, in order, the
  images of the children of `v` (`Good`); `φ u = u'`; no entry of `s0`'s registry is touched
  (`Persist`).  Hypotheses: the fuel of the serializer suffices (`Covered`, decidable), different
  nodes of the tree carry different ids (`IdInj`; derived from "registered" / "live and not
  detached" by `idInj_of_registered` / `idInj_of_live`), the ids are free in `s0`.
  No `clashAux` hypothesis: it is discharged by `C04.clash_free` (`acyclic_serOf`).
* `image_inj` — sharing both ways: `φ v = φ w ↔ v = w`.
* `roundtrip_iso` — the position-wise reading (`Iso`): the same positions exist, each with the same
  id / class / mro / number of children and registered under its id, and two positions hold the same
  object afterwards iff they did before.
* `roundtrip_fresh_process` — the instance `s0 = {}`, hypotheses from the C03 invariants.
-/
import PyOak.Props.C04Ser
namespace PyOak
namespace C04
open RState RegL C03

/-! ### descendants, fuel adequacy -/

/-- `b` is `a` or a descendant of `a` (through child links of the heap of `s`) -/
inductive Desc (s : RState) : Nat → Nat → Prop
  | refl (a : Nat) : Desc s a a
  | kid {a k b : Nat} : k ∈ s.kidsOf a → Desc s k b → Desc s a b

theorem Desc.trans {s : RState} {a b c : Nat} (h1 : Desc s a b) (h2 : Desc s b c) : Desc s a c := by
  induction h1 with
  | refl => exact h2
  | kid hk _ ih => exact Desc.kid hk (ih h2)

theorem Desc.of_kid {s : RState} {a k : Nat} (hk : k ∈ s.kidsOf a) : Desc s a k := Desc.kid hk (Desc.refl k)

theorem covered_succ {s : RState} {n u : Nat} :
    s.Covered (n + 1) u ↔ (s.obj? u).isSome = true ∧ ∀ k ∈ s.kidsOf u, s.Covered n k := by
  rw [Covered]

theorem covered_mono {s : RState} : ∀ {n u : Nat}, s.Covered n u → s.Covered (n + 1) u
  | 0, _, h => by simp [Covered] at h
  | n + 1, u, h => by
    rw [covered_succ] at h ⊢
    exact ⟨h.1, fun k hk => covered_mono (h.2 k hk)⟩

theorem covered_desc {s : RState} {n a b : Nat} (h : s.Covered n a) (hd : Desc s a b) : s.Covered n b := by
  induction hd generalizing n with
  | refl => exact h
  | kid hk _ ih =>
    cases n with
    | zero => simp [Covered] at h
    | succ n => exact ih (covered_mono ((covered_succ.mp h).2 _ hk))

theorem covered_obj {s : RState} {n u : Nat} (h : s.Covered n u) : ∃ o, s.obj? u = some o := by
  cases n with
  | zero => simp [Covered] at h
  | succ n => exact Option.isSome_iff_exists.mp (covered_succ.mp h).1

/-- a covered node is not its own proper descendant -/
theorem covered_no_cycle {s : RState} : ∀ {n a k : Nat}, s.Covered n a → k ∈ s.kidsOf a → Desc s k a → False
  | 0, _, _, h, _, _ => by simp [Covered] at h
  | n + 1, a, k, h, hk, hd =>
    covered_no_cycle (covered_desc ((covered_succ.mp h).2 k hk) hd) hk hd

theorem idOf_obj {s : RState} {u : Nat} {o : RObj} (h : s.obj? u = some o) : s.idOf u = o.id := by simp [idOf, h]
theorem clsOf_obj {s : RState} {u : Nat} {o : RObj} (h : s.obj? u = some o) : s.clsOf u = o.cls := by simp [clsOf, h]
theorem mroOf_obj {s : RState} {u : Nat} {o : RObj} (h : s.obj? u = some o) : s.mroOf u = o.mro := by simp [mroOf, h]
theorem kidsOf_obj {s : RState} {u : Nat} {o : RObj} (h : s.obj? u = some o) : s.kidsOf u = o.kids := by simp [kidsOf, h]

/-! ### the ids of `serOf` are the ids of the descendants -/

theorem sids_serOf_sub (s : RState) : ∀ (n v : Nat) (k : Str), k ∈ (s.serOf n v).sids →
    ∃ x, Desc s v x ∧ k = s.idOf x
  | 0, v, k, h => by
    rw [serOf_zero, mem_sids_mk, sidsL_nil] at h
    simp at h
    exact ⟨v, Desc.refl v, h⟩
  | n + 1, v, k, h => by
    rw [serOf_succ, mem_sids_mk] at h
    rcases h with rfl | h
    · exact ⟨v, Desc.refl v, rfl⟩
    · obtain ⟨t, ht, hk⟩ := mem_sidsL.mp h
      obtain ⟨c, hc, rfl⟩ := List.mem_map.mp ht
      obtain ⟨x, hx, e⟩ := sids_serOf_sub s n c k hk
      exact ⟨x, Desc.kid hc hx, e⟩

theorem sids_serOf_sup {s : RState} {v x : Nat} (hd : Desc s v x) : ∀ {n : Nat}, s.Covered n v →
    s.idOf x ∈ (s.serOf n v).sids := by
  induction hd with
  | refl a =>
    intro n _
    cases n <;> simp [serOf_zero, serOf_succ, mem_sids_mk]
  | @kid a k b hk _ ih =>
    intro n hc
    cases n with
    | zero => simp [Covered] at hc
    | succ n =>
      rw [serOf_succ, mem_sids_mk]
      right
      exact mem_sidsL.mpr ⟨s.serOf n k, List.mem_map.mpr ⟨k, hk, rfl⟩, ih ((covered_succ.mp hc).2 k hk)⟩

/-- different nodes of the tree below `u` carry different ids -/
def IdInj (s : RState) (u : Nat) : Prop :=
  ∀ v w, Desc s u v → Desc s u w → s.idOf v = s.idOf w → v = w

theorem idInj_of_registered {s : RState} {u : Nat}
    (h : ∀ v, Desc s u v → s.regGet (s.idOf v) = some v) : IdInj s u := by
  intro v w hv hw e
  have a := h v hv
  rw [e, h w hw] at a
  exact (Option.some.inj a).symm

theorem isLive_desc {s : RState} (hI : Inv s) {u v : Nat} (hl : s.isLive u = true) (hd : Desc s u v) :
    s.isLive v = true := by
  induction hd with
  | refl => exact hl
  | kid hk _ ih => exact ih (isLive_kid hI.heapNodup hl hk)

/-- in a state satisfying the C03 invariants: a live tree none of whose nodes was detached -/
theorem registered_of_live {s : RState} (hI : Inv s) (hL : LiveRegistered s) {n u : Nat} (hc : s.Covered n u)
    (hl : s.isLive u = true) (hd : ∀ v, Desc s u v → v ∉ s.detached) :
    ∀ v, Desc s u v → s.regGet (s.idOf v) = some v := by
  intro v hv
  obtain ⟨o, ho⟩ := covered_obj (covered_desc hc hv)
  obtain ⟨hm, rfl⟩ := obj?_some ho
  rw [idOf_obj ho]
  exact rget_of_mem hI.keysNodup (hL o hm (isLive_desc hI hl hv) (hd _ hv))

theorem idInj_of_live {s : RState} (hI : Inv s) (hL : LiveRegistered s) {n u : Nat} (hc : s.Covered n u)
    (hl : s.isLive u = true) (hd : ∀ v, Desc s u v → v ∉ s.detached) : IdInj s u :=
  idInj_of_registered (registered_of_live hI hL hc hl hd)

/-- the payload produced by the serializer from a tree with distinct ids is `AcyclicIds` -/
theorem acyclic_serOf {s : RState} {u : Nat} (hinj : IdInj s u) : ∀ (n v : Nat), s.Covered n v → Desc s u v →
    (s.serOf n v).AcyclicIds
  | 0, _, h, _ => by simp [Covered] at h
  | n + 1, v, hc, hv => by
    rw [serOf_succ, acyclicIds_mk]
    constructor
    · intro hm
      obtain ⟨t, ht, hk⟩ := mem_sidsL.mp hm
      obtain ⟨c, hcm, rfl⟩ := List.mem_map.mp ht
      obtain ⟨x, hx, e⟩ := sids_serOf_sub s n c _ hk
      have : v = x := hinj v x hv (hv.trans (Desc.kid hcm hx)) e
      subst this
      exact covered_no_cycle hc hcm hx
    · rw [acyclicIdsL_iff]
      intro t ht
      obtain ⟨c, hcm, rfl⟩ := List.mem_map.mp ht
      exact acyclic_serOf hinj n c ((covered_succ.mp hc).2 c hcm) (hv.trans (Desc.of_kid hcm))

/-! ### what the round trip builds -/

/-- the image of the original node `v` (of `s`) in `s'`: registered under, and carrying, `v`'s id;
same class and mro; its children are, in order, the images of `v`'s children; it is one of the
tokens `T` -/
def Good (s s' : RState) (T : List Nat) (v : Nat) : Prop :=
  ∃ v' o o', s'.regGet (s.idOf v) = some v' ∧ s.obj? v = some o ∧ s'.obj? v' = some o' ∧
    o'.id = o.id ∧ o'.cls = o.cls ∧ o'.mro = o.mro ∧
    o'.kids.map some = o.kids.map (fun k => s'.regGet (s.idOf k)) ∧ v' ∈ T

/-- invariant of the traversal: whatever id of the tree is registered in the intermediate state
`si` belongs to a node whose whole subtree has already been rebuilt -/
def Built (s s' : RState) (T : List Nat) (u : Nat) (si : RState) : Prop :=
  ∀ w, Desc s u w → (si.regGet (s.idOf w)).isSome = true → ∀ x, Desc s w x → Good s s' T x

section Main
variable {s s' : RState} {T : List Nat} {u : Nat}

theorem built_after {si s1 : RState} {f f1 : Fresh} {n k r : Nat} (hinj : IdInj s u) (hI : Inv si)
    (hf : FreshOk si f) (hB : Built s s' T u si) (hk : Desc s u k)
    (ha : si.deserAux (s.serOf n k) f = some (s1, r, f1)) (hG : ∀ x, Desc s k x → Good s s' T x) :
    Built s s' T u s1 := by
  intro w hw hsome x hx
  rw [regGet_def, rget_isSome_iff] at hsome
  rcases deserAux_keys _ si f s1 r f1 hI hf ha _ hsome with h1 | h1
  · exact hB w hw (by rw [regGet_def, rget_isSome_iff]; exact h1) x hx
  · obtain ⟨y, hy, e⟩ := sids_serOf_sub s n k _ h1
    have : w = y := hinj w y hw (hk.trans hy) e
    subst this
    exact hG x (hy.trans hx)

/-- the statement proved by induction on the fuel -/
def StepA (s s' : RState) (T : List Nat) (u n : Nat) : Prop :=
  ∀ (v : Nat) (si : RState) (f : Fresh) (r : Nat), s.Covered n v → Desc s u v → Inv si → FreshOk si f →
    (∀ t ∈ f.map (·.1), t ∈ T) → Built s s' T u si → Realizes s' si f (s.serOf n v) r →
    (∀ x, Desc s v x → Good s s' T x) ∧ s'.regGet (s.idOf v) = some r

theorem realizesL_good (hinj : IdInj s u) {n : Nat} (hA : StepA s s' T u n) :
    ∀ (ks : List Nat) (si : RState) (f : Fresh) (us : List Nat), (∀ k ∈ ks, s.Covered n k ∧ Desc s u k) →
      Inv si → FreshOk si f → (∀ t ∈ f.map (·.1), t ∈ T) → Built s s' T u si →
      RealizesL s' si f (ks.map (s.serOf n)) us →
      (∀ k ∈ ks, ∀ x, Desc s k x → Good s s' T x) ∧
        us.map some = ks.map (fun k => s'.regGet (s.idOf k))
  | [], si, f, us, _, _, _, _, _, hR => by
    cases hR
    exact ⟨by intro k hk; simp at hk, rfl⟩
  | k :: rest, si, f, us, hks, hI, hf, hT, hB, hR => by
    rw [List.map_cons] at hR
    cases hR with
    | @cons _ _ _ _ u1 us' s1 f1 ha h1 h2 =>
      obtain ⟨hck, hdk⟩ := hks k (by simp)
      obtain ⟨hGk, hrk⟩ := hA k si f u1 hck hdk hI hf hT hB h1
      have hE := deserAux_evol _ si f s1 u1 f1 ha
      obtain ⟨hI1, hf1⟩ := evol_good hE hI hf
      obtain ⟨p, hp⟩ := hE.suffix
      have hT1 : ∀ t ∈ f1.map (·.1), t ∈ T := by
        intro t ht; apply hT; rw [hp]; simp only [List.map_append, List.mem_append]; exact Or.inr ht
      have hB1 := built_after hinj hI hf hB hdk ha hGk
      obtain ⟨hGr, hur⟩ := realizesL_good hinj hA rest s1 f1 us'
        (fun k' hk' => hks k' (List.mem_cons_of_mem _ hk')) hI1 hf1 hT1 hB1 h2
      refine ⟨?_, by simp [hrk, hur]⟩
      intro k' hk'
      rcases List.mem_cons.mp hk' with rfl | hk'
      · exact hGk
      · exact hGr k' hk'

theorem stepA (hinj : IdInj s u) : ∀ (n : Nat), StepA s s' T u n
  | 0 => by intro v si f r hc; simp [Covered] at hc
  | n + 1 => by
    intro v si f r hc hv hI hf hT hB hR
    obtain ⟨hobj, hkc⟩ := covered_succ.mp hc
    obtain ⟨o, ho⟩ := Option.isSome_iff_exists.mp hobj
    rw [serOf_succ] at hR
    cases hR with
    | reuse hg hreg =>
      exact ⟨hB v hv (by simp [hg]), hreg⟩
    | @create _ _ _ _ _ _ _ us o' s1 base fr hg hk hkids htok hnew hreg ho' hid hcls hmro hks =>
      obtain ⟨hGk, hus⟩ := realizesL_good hinj (stepA hinj n) (s.kidsOf v) si f us
        (fun k hk' => ⟨hkc k hk', hv.trans (Desc.of_kid hk')⟩) hI hf hT hB hkids
      have hGv : Good s s' T v := by
        refine ⟨r, o, o', hreg, ho, ho', ?_, ?_, ?_, ?_, hT r htok⟩
        · rw [hid, idOf_obj ho]
        · rw [hcls, clsOf_obj ho]
        · rw [hmro, mroOf_obj ho]
        · rw [hks, hus, kidsOf_obj ho]
      refine ⟨?_, hreg⟩
      intro x hx
      cases hx with
      | refl => exact hGv
      | kid hk' hd => exact hGk _ hk' x hd

end Main

/-- **(b)** reading the serialized tree back where its ids are free -/
theorem roundtrip_fresh {s s0 : RState} {n u : Nat} {f : Fresh} {s' : RState} {u' : Nat} {fr : Fresh}
    (hcov : s.Covered n u) (hinj : IdInj s u) (hI0 : Inv s0) (hf : FreshOk s0 f)
    (hfree : ∀ k ∈ (s.serOf n u).sids, s0.regGet k = none)
    (h : s0.deserAux (s.serOf n u) f = some (s', u', fr)) :
    Persist s0 s' ∧ s'.regGet (s.idOf u) = some u' ∧ ∀ v, Desc s u v → Good s s' (f.map (·.1)) v := by
  have hA := acyclic_serOf hinj n u hcov (Desc.refl u)
  have hnc := clash_free _ s0 f hA hI0 hf
  have hP := deser_persist hI0 hf hnc h
  have hR := deser_fresh_ids hI0 hf hnc h
  have hB : Built s s' (f.map (·.1)) u s0 := by
    intro w hw hsome
    rw [hfree _ (sids_serOf_sup hw hcov)] at hsome
    cases hsome
  obtain ⟨hG, hr⟩ := stepA hinj n u s0 f u' hcov (Desc.refl u) hI0 hf (fun t ht => ht) hB hR
  exact ⟨hP, hr, hG⟩

/-- every image is a NEW object: one of the fresh tokens, not an object of `s0` -/
theorem Good.new {s s0 s' : RState} {f : Fresh} {v : Nat} (hf : FreshOk s0 f) (h : Good s s' (f.map (·.1)) v) :
    ∃ v', s'.regGet (s.idOf v) = some v' ∧ v' ∈ f.map (·.1) ∧ v' ∉ s0.heap.map (·.uid) := by
  obtain ⟨v', _, _, hr, _, _, _, _, _, _, ht⟩ := h
  exact ⟨v', hr, ht, hf.2 v' ht⟩

/-- sharing both ways: two nodes of the original tree have the same image iff they are the same
node (shared nodes are shared again, distinct nodes stay distinct) -/
theorem image_inj {s s' : RState} {T : List Nat} {u : Nat} (hinj : IdInj s u)
    (hG : ∀ v, Desc s u v → Good s s' T v) {v w : Nat} (hv : Desc s u v) (hw : Desc s u w) :
    s'.regGet (s.idOf v) = s'.regGet (s.idOf w) ↔ v = w := by
  constructor
  · intro e
    obtain ⟨v', o, o', hr, ho, ho', hid, _⟩ := hG v hv
    obtain ⟨w', p, p', hr2, hp, hp', hid2, _⟩ := hG w hw
    rw [hr, hr2] at e
    have e' : v' = w' := Option.some.inj e
    subst e'
    rw [ho'] at hp'
    have e2 : o' = p' := Option.some.inj hp'
    subst e2
    apply hinj v w hv hw
    rw [idOf_obj ho, idOf_obj hp, ← hid, ← hid2]
  · intro e; rw [e]

/-! ### position-wise reading -/

theorem nodeAt_nil (s : RState) (u : Nat) : s.nodeAt u [] = some u := rfl

theorem nodeAt_cons (s : RState) (u i : Nat) (p : List Nat) :
    s.nodeAt u (i :: p) = match (s.kidsOf u)[i]? with
      | none => none
      | some k => s.nodeAt k p := rfl

theorem nodeAt_desc {s : RState} : ∀ (p : List Nat) {a v : Nat}, s.nodeAt a p = some v → Desc s a v
  | [], a, v, h => by
    rw [nodeAt_nil] at h; cases h; exact Desc.refl _
  | i :: p, a, v, h => by
    rw [nodeAt_cons] at h
    cases hk : (s.kidsOf a)[i]? with
    | none => simp [hk] at h
    | some k =>
      simp only [hk] at h
      exact Desc.kid (List.mem_of_getElem? hk) (nodeAt_desc p h)

/-- what "the same node at a position" means: same id, class, mro, number of children, and the copy
is the object registered under that id -/
def Same (s : RState) (v : Nat) (s' : RState) (v' : Nat) : Prop :=
  s'.idOf v' = s.idOf v ∧ s'.clsOf v' = s.clsOf v ∧ s'.mroOf v' = s.mroOf v ∧
  (s'.kidsOf v').length = (s.kidsOf v).length ∧ s'.regGet (s.idOf v) = some v'

theorem Good.same {s s' : RState} {T : List Nat} {v v' : Nat} (h : Good s s' T v)
    (hr : s'.regGet (s.idOf v) = some v') : Same s v s' v' := by
  obtain ⟨v'', o, o', hr', ho, ho', hid, hcls, hmro, hks, _⟩ := h
  rw [hr] at hr'
  cases hr'
  refine ⟨?_, ?_, ?_, ?_, hr⟩
  · rw [idOf_obj ho, idOf_obj ho', hid]
  · rw [clsOf_obj ho, clsOf_obj ho', hcls]
  · rw [mroOf_obj ho, mroOf_obj ho', hmro]
  · rw [kidsOf_obj ho, kidsOf_obj ho']
    have := congrArg List.length hks
    simpa using this

/-- the `i`-th child of the image is the image of the `i`-th child -/
theorem Good.kid {s s' : RState} {T : List Nat} {v v' : Nat} (h : Good s s' T v)
    (hr : s'.regGet (s.idOf v) = some v') (i : Nat) :
    ((s'.kidsOf v')[i]?).map some = ((s.kidsOf v)[i]?).map (fun k => s'.regGet (s.idOf k)) := by
  obtain ⟨v'', o, o', hr', ho, ho', _, _, _, hks, _⟩ := h
  rw [hr] at hr'
  cases hr'
  rw [kidsOf_obj ho, kidsOf_obj ho', ← List.getElem?_map, ← List.getElem?_map, hks]

theorem pos_fwd {s s' : RState} {T : List Nat} {u : Nat} (hG : ∀ v, Desc s u v → Good s s' T v) :
    ∀ (p : List Nat) (a a' : Nat), Desc s u a → s'.regGet (s.idOf a) = some a' →
      ∀ v, s.nodeAt a p = some v → ∃ v', s'.nodeAt a' p = some v' ∧ s'.regGet (s.idOf v) = some v'
  | [], a, a', _, hr, v, h => by
    rw [nodeAt_nil] at h; cases h
    exact ⟨a', rfl, hr⟩
  | i :: p, a, a', ha, hr, v, h => by
    rw [nodeAt_cons] at h
    have hkid := (hG a ha).kid hr i
    cases hk : (s.kidsOf a)[i]? with
    | none => simp [hk] at h
    | some k =>
      simp only [hk] at h
      rw [hk] at hkid
      cases hk' : (s'.kidsOf a')[i]? with
      | none => simp [hk'] at hkid
      | some k' =>
        simp only [hk', Option.map_some] at hkid
        obtain ⟨v', h1, h2⟩ := pos_fwd hG p k k' (ha.trans (Desc.of_kid (List.mem_of_getElem? hk)))
          (Option.some.inj hkid).symm v h
        exact ⟨v', by rw [nodeAt_cons, hk']; exact h1, h2⟩

theorem pos_bwd {s s' : RState} {T : List Nat} {u : Nat} (hG : ∀ v, Desc s u v → Good s s' T v) :
    ∀ (p : List Nat) (a a' : Nat), Desc s u a → s'.regGet (s.idOf a) = some a' →
      ∀ v', s'.nodeAt a' p = some v' → ∃ v, s.nodeAt a p = some v
  | [], a, _, _, _, _, _ => ⟨a, rfl⟩
  | i :: p, a, a', ha, hr, v', h => by
    rw [nodeAt_cons] at h
    have hkid := (hG a ha).kid hr i
    cases hk' : (s'.kidsOf a')[i]? with
    | none => simp [hk'] at h
    | some k' =>
      simp only [hk'] at h
      rw [hk'] at hkid
      cases hk : (s.kidsOf a)[i]? with
      | none => simp [hk] at hkid
      | some k =>
        simp only [hk, Option.map_some] at hkid
        obtain ⟨v, h1⟩ := pos_bwd hG p k k' (ha.trans (Desc.of_kid (List.mem_of_getElem? hk)))
          (Option.some.inj hkid).symm v' h
        exact ⟨v, by rw [nodeAt_cons, hk]; exact h1⟩

/-- the tree below `u'` in `s'` is, position by position, the tree below `u` in `s` -/
structure Iso (s : RState) (u : Nat) (s' : RState) (u' : Nat) : Prop where
  /-- every position of the original exists in the copy and holds the same node -/
  fwd : ∀ p v, s.nodeAt u p = some v → ∃ v', s'.nodeAt u' p = some v' ∧ Same s v s' v'
  /-- the copy has no other positions -/
  bwd : ∀ p v', s'.nodeAt u' p = some v' → ∃ v, s.nodeAt u p = some v
  /-- two positions hold one object in the copy iff they did in the original -/
  share : ∀ p q v w v' w', s.nodeAt u p = some v → s.nodeAt u q = some w →
    s'.nodeAt u' p = some v' → s'.nodeAt u' q = some w' → (v' = w' ↔ v = w)

theorem iso_of_good {s s' : RState} {T : List Nat} {u u' : Nat} (hinj : IdInj s u)
    (hG : ∀ v, Desc s u v → Good s s' T v) (hr : s'.regGet (s.idOf u) = some u') : Iso s u s' u' where
  fwd := by
    intro p v h
    obtain ⟨v', h1, h2⟩ := pos_fwd hG p u u' (Desc.refl u) hr v h
    exact ⟨v', h1, (hG v (nodeAt_desc p h)).same h2⟩
  bwd := fun p v' h => pos_bwd hG p u u' (Desc.refl u) hr v' h
  share := by
    intro p q v w v' w' hv hw hv' hw'
    obtain ⟨v'', h1, h2⟩ := pos_fwd hG p u u' (Desc.refl u) hr v hv
    obtain ⟨w'', h3, h4⟩ := pos_fwd hG q u u' (Desc.refl u) hr w hw
    rw [hv'] at h1; rw [hw'] at h3
    cases h1; cases h3
    rw [← image_inj hinj hG (nodeAt_desc p hv) (nodeAt_desc q hw), h2, h4]
    exact ⟨fun e => by rw [e], fun e => Option.some.inj e⟩

/-- **(b), position-wise** -/
theorem roundtrip_iso {s s0 : RState} {n u : Nat} {f : Fresh} {s' : RState} {u' : Nat} {fr : Fresh}
    (hcov : s.Covered n u) (hinj : IdInj s u) (hI0 : Inv s0) (hf : FreshOk s0 f)
    (hfree : ∀ k ∈ (s.serOf n u).sids, s0.regGet k = none)
    (h : s0.deserAux (s.serOf n u) f = some (s', u', fr)) : Iso s u s' u' := by
  obtain ⟨_, hr, hG⟩ := roundtrip_fresh hcov hinj hI0 hf hfree h
  exact iso_of_good hinj hG hr

/-- **(b) for a fresh process**: a live tree of a state satisfying the C03 invariants, none of
whose nodes was detached, serialized and read back into the empty world -/
theorem roundtrip_fresh_process {s : RState} (hI : Inv s) (hL : LiveRegistered s) {n u : Nat}
    (hcov : s.Covered n u) (hl : s.isLive u = true) (hd : ∀ v, Desc s u v → v ∉ s.detached)
    {f : Fresh} (hf : FreshOk {} f) {s' : RState} {u' : Nat} {fr : Fresh}
    (h : ({} : RState).deserAux (s.serOf n u) f = some (s', u', fr)) :
    Iso s u s' u' ∧ ∀ v, Desc s u v → Good s s' (f.map (·.1)) v :=
  have hinj := idInj_of_live hI hL hcov hl hd
  have hfree : ∀ k ∈ (s.serOf n u).sids, ({} : RState).regGet k = none := fun _ _ => rfl
  ⟨roundtrip_iso hcov hinj inv_empty hf hfree h, (roundtrip_fresh hcov hinj inv_empty hf hfree h).2.2⟩

/-! ### non-vacuity, sharpness -/

section Examples
private def A : Str := "A".toList
private def B : Str := "B".toList

/-- `p(m(l), l, m')` with a shared leaf and a twin `m'` of `m` (same digest "m", id `m_1`) -/
private def hist : List ROp :=
  [ .construct 0 A [A] [] [(1, "l".toList)],
    .construct 1 B [B, A] [1] [(2, "m".toList)],
    .construct 2 B [B, A] [1] [(3, "m".toList)],
    .construct 3 A [A] [2, 1, 3] [(4, "p".toList)] ]
private def toks : Fresh := [(11, "l".toList), (12, "m".toList), (13, "m".toList), (14, "zz".toList)]

example : AllOkK {} hist := by decide
example : (run {} hist).Covered 3 4 ∧ (run {} hist).isLive 4 = true ∧ (run {} hist).detached = [] ∧
    FreshOk {} toks := by decide
example : ((run {} hist).serOf 3 4).sids = ["p".toList, "m".toList, "l".toList, "l".toList, "m_1".toList, "l".toList] := by
  decide
/-- the copy: the leaf is created once (11) and shared, the twin keeps its suffixed id, the root's
id is forced ("zz" was its fresh digest) -/
example : (({} : RState).deserAux ((run {} hist).serOf 3 4) toks).map (fun r => r.1.reg) =
    some [("l".toList, 11), ("m".toList, 12), ("m_1".toList, 13), ("p".toList, 14)] := by decide
example : (({} : RState).deserAux ((run {} hist).serOf 3 4) toks).map
    (fun r => (r.2.1, r.1.kidsOf 14, r.1.kidsOf 12, r.1.kidsOf 13)) = some (14, [12, 11, 13], [11], [11]) := by decide
example : (({} : RState).deserAux ((run {} hist).serOf 3 4) toks).map (fun r => r.2.2.length) = some 0 := by decide

/-- sharpness of `IdInj`: a detached node and its later twin carry one id; as children of one parent
they are two objects before and one object after the trip -/
private def hist2 : List ROp :=
  [ .construct 0 A [A] [] [(1, "l".toList)], .detachSelf 1,
    .construct 1 A [A] [] [(2, "l".toList)],
    .construct 2 A [A] [1, 2] [(3, "p".toList)] ]
example : AllOkK {} hist2 ∧ (run {} hist2).kidsOf 3 = [1, 2] ∧ (run {} hist2).idOf 1 = (run {} hist2).idOf 2 := by decide
example : (({} : RState).deserAux ((run {} hist2).serOf 3 3) [(11, "l".toList), (12, "p".toList)]).map
    (fun r => r.1.kidsOf 12) = some [11, 11] := by decide
end Examples

end C04
end PyOak

#print axioms PyOak.C04.acyclic_serOf
#print axioms PyOak.C04.idInj_of_live
#print axioms PyOak.C04.roundtrip_fresh
#print axioms PyOak.C04.Good.new
#print axioms PyOak.C04.image_inj
#print axioms PyOak.C04.roundtrip_iso
#print axioms PyOak.C04.roundtrip_fresh_process
