import PyOak.Props.C20
import PyOak.Props.C20Text
import PyOak.Props.C20Heap
import PyOak.Props.C20HeapMatch
import PyOak.Props.C20ParentClean
import PyOak.Props.C20HeapWalk
import PyOak.Props.C20HeapRun
