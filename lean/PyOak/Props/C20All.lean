import PyOak.Props.C20
import PyOak.Props.C20Text
