/-
C19 / C18 (AUDIT item #3) — the invariant survives a REJECTED operation, so histories may mix accepted
and rejected operations.

The theorems of Props/C19.lean give `Frame s s'` for the first rejection after an all-ok history: they need
`Inv s`, and nothing gave `Inv s'` after a rejected step (`Frame` is silent about the garbage record that a
rejected constructor leaves beyond `s.size`, over which `Inv.wf / noDangling / noSelf / closed` range).

  inv_of_frame             generic: `Inv s`, `Frame s s'` and well-formed, unlinked garbage beyond `s.size`
                           (`Garbage s s'`) give `Inv s'`
  construct_fail_garbage, replace_fail_garbage, …   the garbage left by each rejected operation
  FrameAll, rwith_rollback_root_all, rwith_rollback_parent_all, fail_frameAll_rwith
                           `replace_with` rejected with ASTNodeReplaceWithError restores EVERY record (not only
                           those below `size`), every lookup, and the size
  Documented               the errors of one operation that are rejections in the sense of the property:
                           everything except `hang` (the call does not return) — and, for `replace_with`,
                           the error must be ASTNodeReplaceWithError (see `rwith_err_kind` in
                           Props/C19RwithErr.lean for what is proved about the other exits)
  fail_frame_step          ONE uniform frame theorem: `step … = (s', .raised e)`, `Documented op e` ⇒ the
                           pre-existing records and registry entries are untouched (`FrameN`; `Frame` for every
                           operation but `duplicate`, `fail_frame_step_nodup`)
  inv_step_rejected        `Inv s`, `LOp.proved s op`, `step … = (s', .raised e)`, `Documented op e` ⇒ `Inv s'`
  inv_step_any             one step, accepted or rejected
  MixedRun / inv_run_mixed histories of accepted-or-rejected steps keep the invariant (from any state / from `init`)
  frame_run_rejected       a block of consecutive rejected operations changes no pre-existing record
-/
import PyOak.Props.C19
namespace PyOak.Legacy.C19
open PyOak PyOak.Legacy LState

variable (H Hc : Str → Str)

/-! ### the generic lemma -/

/-- beyond `size` an `Inv` state holds unlinked, well-formed junk -/
theorem inv_beyond {s : LState} (hI : Inv Hc s) {v : Nat} (hv : s.size ≤ v) :
    (s.obj v).pid = none ∧ (s.obj v).wf := by
  refine ⟨?_, hI.wf v⟩
  cases hk : (s.obj v).pid with
  | none => rfl
  | some k =>
    have := att_lt hI (hI.noDangling v k hk).1
    omega

/-- what a rejected call may leave beyond the old `size`: records that store no parent link, have
well-formed child fields, and (as far as they count as existing) existing children -/
structure Garbage (s s' : LState) : Prop where
  size : s.size ≤ s'.size
  pid : ∀ v, s.size ≤ v → (s'.obj v).pid = none
  wf : ∀ v, s.size ≤ v → (s'.obj v).wf
  closed : ∀ v, s.size ≤ v → v < s'.size → ∀ c ∈ (s'.obj v).kidList, c < s'.size

theorem Garbage.refl {s : LState} (hI : Inv Hc s) : Garbage s s :=
  ⟨Nat.le_refl _, fun _ hv => (inv_beyond Hc hI hv).1, fun _ hv => (inv_beyond Hc hI hv).2,
   fun v h1 h2 => by omega⟩

/-- **frame + harmless garbage ⇒ invariant** -/
theorem inv_of_frame {s s' : LState} (hI : Inv Hc s) (hF : Frame s s') (hG : Garbage s s') : Inv Hc s' := by
  obtain ⟨hlk, hobj⟩ := hF
  have hid : ∀ v, v < s.size → s'.idOf v = s.idOf v := fun v hv => by unfold LState.idOf; rw [hobj v hv]
  have hatt : ∀ v, Att s' v → v < s.size ∧ Att s v := by
    intro v hv
    unfold Att at hv
    rw [hlk] at hv
    have hlt := (hI.regSound _ _ hv).1
    exact ⟨hlt, by unfold Att; rw [← hid v hlt]; exact hv⟩
  have hpar : ∀ v, v < s.size → s'.parent v = s.parent v := by
    intro v hv; unfold LState.parent; rw [hobj v hv]; split <;> simp [hlk]
  refine ⟨?_, ?_, ?_, ?_, ?_, ?_, ?_, ?_⟩
  · intro k u hk
    rw [hlk] at hk
    obtain ⟨a, b⟩ := hI.regSound k u hk
    exact ⟨Nat.lt_of_lt_of_le a hG.size, by rw [hid u a]; exact b⟩
  · intro u hu e he _
    obtain ⟨hlt, hua⟩ := hatt u hu
    rw [hobj u hlt] at he
    obtain ⟨a, b, c, d⟩ := hI.down' u hua e he
    have hel : e.1 < s.size := att_lt hI a
    refine ⟨?_, ?_, ?_, ?_⟩
    · unfold Att; rw [hlk, hid _ hel]; exact a
    · rw [hobj _ hel, hid u hlt]; exact b
    · rw [hobj _ hel]; exact c
    · rw [hobj _ hel]; exact d
  · intro u hu p hp
    obtain ⟨hlt, hua⟩ := hatt u hu
    rw [hpar u hlt] at hp
    have hpl : p < s.size := by
      unfold LState.parent at hp
      cases hk : (s.obj u).pid with
      | none => rw [hk] at hp; cases hp
      | some k => rw [hk] at hp; exact (hI.regSound k p hp).1
    rw [hobj u hlt, hobj p hpl]
    exact hI.up u hua p hp
  · intro u hu _
    obtain ⟨hlt, hua⟩ := hatt u hu
    rw [hobj u hlt, hI.cid' u hua]
    congr 1
    symm
    apply cidPre_congr rfl rfl rfl
    intro c hc
    obtain ⟨e, he, he1⟩ := (mem_kidList_iff _ _).mp hc
    have := att_lt hI (hI.down' u hua e he).1
    rw [he1] at this
    rw [hobj c this]
  · intro u k hk
    by_cases hlt : u < s.size
    · rw [hobj u hlt] at hk
      obtain ⟨a, b⟩ := hI.noDangling u k hk
      exact ⟨by unfold Att; rw [hlk, hid u hlt]; exact a, by rw [hlk]; exact b⟩
    · rw [hG.pid u (by omega)] at hk; cases hk
  · intro u hu c hc
    by_cases hlt : u < s.size
    · rw [hobj u hlt] at hc
      exact Nat.lt_of_lt_of_le (hI.closed u hlt c hc) hG.size
    · exact hG.closed u (by omega) hu c hc
  · intro u hu
    by_cases hlt : u < s.size
    · rw [hpar u hlt] at hu; exact hI.noSelf u hu
    · unfold LState.parent at hu
      rw [hG.pid u (by omega)] at hu; cases hu
  · intro u
    by_cases hlt : u < s.size
    · rw [hobj u hlt]; exact hI.wf u
    · exact hG.wf u (by omega)

/-! ### the garbage of a rejected construction -/

/-- a rejected construction leaves one more record: unlinked, with the child fields of the request -/
theorem construct_fail_garbage {s s' : LState} {n : NewSpec} {fuel : Nat} {e : Err}
    (h : construct H Hc fuel s n = (s', .error e)) :
    s'.size = s.size + 1 ∧ (s'.obj s.size).pid = none ∧ (s'.obj s.size).fields = n.fields := by
  unfold construct at h
  simp only at h
  have hobjn : (s.alloc (newObj n)).1.obj s.size = newObj n := by
    unfold LState.alloc LState.obj; simp
  have hsz0 : (s.alloc (newObj n)).1.size = s.size + 1 := rfl
  generalize (s.alloc (newObj n)).1 = s0 at h hobjn hsz0
  split at h
  · simp only [Prod.mk.injEq] at h; obtain ⟨rfl, _⟩ := h; rw [hobjn]; exact ⟨hsz0, rfl, rfl⟩
  · split at h
    · simp only [Prod.mk.injEq] at h; obtain ⟨rfl, _⟩ := h; rw [hobjn]; exact ⟨hsz0, rfl, rfl⟩
    · next nid coll orig _ =>
      unfold finishConstruct at h
      split at h
      · simp at h
      · cases ha : attach Hc fuel (s0.modify s.size (setIds nid coll orig)) s.size with
        | mk s2 res =>
          rw [ha] at h
          cases res with
          | ok x => cases x; simp at h
          | error e' =>
            simp only [Prod.mk.injEq] at h
            obtain ⟨rfl, _⟩ := h
            have := attach_fail_frame Hc _ _ _ _ _ ha
            rw [this, modify_obj_same, hobjn]
            exact ⟨by rw [modify_size]; exact hsz0, rfl, rfl⟩

/-- the garbage of a rejected construction over existing children -/
theorem construct_fail_inv {s s' : LState} {n : NewSpec} {fuel : Nat} {e : Err} (hI : Inv Hc s)
    (hk : ∀ c ∈ n.fields.flatMap (·.kids), c < s.size) (hwf : (newObj n).wf)
    (h : construct H Hc fuel s n = (s', .error e)) : Inv Hc s' := by
  obtain ⟨hreg, hobj⟩ := construct_fail_frame H Hc h
  obtain ⟨hsz, hpid, hfl⟩ := construct_fail_garbage H Hc h
  apply inv_of_frame Hc hI ⟨fun k => by unfold LState.lookup; rw [hreg], fun v hv => hobj v (by omega)⟩
  refine ⟨by omega, ?_, ?_, ?_⟩
  · intro v hv
    by_cases hvs : v = s.size
    · subst hvs; exact hpid
    · rw [hobj v hvs]; exact (inv_beyond Hc hI hv).1
  · intro v hv
    by_cases hvs : v = s.size
    · subst hvs
      unfold LObj.wf; rw [hfl]; exact hwf
    · rw [hobj v hvs]; exact (inv_beyond Hc hI hv).2
  · intro v hv1 hv2 c hc
    have : v = s.size := by omega
    subst this
    unfold LObj.kidList at hc; rw [hfl] at hc
    have := hk c hc; omega

/-! ### the garbage of a rejected `replace` -/

/-- `detach_self` always answers -/
theorem detachGo_onlySelf_some (s : LState) (u fuel : Nat) : ∃ b, (detachGo (fuel + 1) true s u).2 = some b := by
  unfold detachGo
  split
  · exact ⟨_, rfl⟩
  · split
    · exact ⟨_, rfl⟩
    · rw [detachKids_onlySelf]; exact ⟨_, rfl⟩

/-- the state in which `replace` constructs the new node: the old one with some parent slots cleared and
some registry keys removed -/
theorem replace_torn_shrinks (s : LState) (u fuel : Nat) :
    Shrinks s (if (!(if (s.parent u).isSome = true then s.clearParent u else s).detached u) = true
      then (detachGo (fuel + 1) true (if (s.parent u).isSome = true then s.clearParent u else s) u).1
      else (if (s.parent u).isSome = true then s.clearParent u else s)) := by
  have h1 : Shrinks s (if (s.parent u).isSome = true then s.clearParent u else s) := by
    split
    · exact shrinks_clearParent s u
    · exact Shrinks.refl s
  generalize (if (s.parent u).isSome = true then s.clearParent u else s) = s1 at h1 ⊢
  split
  · obtain ⟨b, hb⟩ := detachGo_onlySelf_some s1 u fuel
    exact h1.trans (detachGo_facts (fuel + 1) true s1 u b hb).shr
  · exact h1

theorem shrinks_beyond {s s2 : LState} (hI : Inv Hc s) (hS : Shrinks s s2) {v : Nat} (hv : s.size ≤ v) :
    (s2.obj v).pid = none ∧ (s2.obj v).wf := by
  obtain ⟨a, b⟩ := inv_beyond Hc hI hv
  rcases hS.obj v with h | h
  · rw [h]; exact ⟨a, b⟩
  · rw [h]; exact ⟨rfl, b⟩

theorem ite_ok_hang {c : Prop} [Decidable c] {a b s' : LState} {n : Nat} {e : Err}
    (h : (if c then (a, Except.ok n) else (b, Except.error Err.hang)) = (s', Except.error e)) : e = .hang := by
  split at h
  · simp at h
  · simp only [Prod.mk.injEq, Except.error.injEq] at h; exact h.2.symm

/-- a rejected `replace` (not a walk that does not end) leaves, beyond the old `size`, the unlinked record
of the rejected new node and nothing else -/
theorem replace_fail_garbage {s s' : LState} {u fuel : Nat} {ch : Changes} {e : Err} (hI : Inv Hc s)
    (hu : u < s.size) (hk : ∀ c ∈ ch.fields.flatMap (·.2), c < s.size) (hwf : ch.wfFor (s.obj u))
    (h : replace H Hc fuel s u ch = (s', .error e)) (he : e ≠ .hang) : Garbage s s' := by
  unfold replace at h
  split at h
  · simp only [Prod.mk.injEq] at h; rw [← h.1]; exact Garbage.refl Hc hI
  · simp only at h
    have hS := replace_torn_shrinks s u fuel
    generalize (if (!(if (s.parent u).isSome = true then s.clearParent u else s).detached u) = true
      then (detachGo (fuel + 1) true (if (s.parent u).isSome = true then s.clearParent u else s) u).1
      else (if (s.parent u).isSome = true then s.clearParent u else s)) = s2 at h hS
    generalize (!(if (s.parent u).isSome = true then s.clearParent u else s).detached u) = wasAtt at h
    split at h
    · next s3 e3 hc =>
      simp only [Prod.mk.injEq] at h
      obtain ⟨hs', _⟩ := h
      obtain ⟨hreg3, hobj3⟩ := construct_fail_frame H Hc hc
      obtain ⟨hsz3, hpid3, hfl3⟩ := construct_fail_garbage H Hc hc
      rw [hS.size] at hsz3 hpid3 hfl3 hobj3
      simp only at hfl3
      -- the roll-back touches the receiver and its children only
      have hkl3 : (s3.obj u).kidsPos.map (·.1) = (s.obj u).kidList := by
        rw [kidsPos_map_fst, hobj3 u (by omega)]; exact hS.kidList_eq u
      have hs4 : ∀ v, s.size ≤ v →
          ((if wasAtt = true then reparent u (s3.register u) (s3.obj u).kidsPos else s3).obj v) = s3.obj v := by
        intro v hv
        split
        · rw [reparent_obj_not_mem _ _ _ _ (by
            rw [hkl3]; intro hm; have := hI.closed u hu v hm; omega)]
          rfl
        · rfl
      have hs5 : ∀ v, s.size ≤ v → s'.obj v = s3.obj v := by
        intro v hv
        rw [← hs']
        split
        · rw [setParent_obj]; rw [if_neg (by omega)]; exact hs4 v hv
        · exact hs4 v hv
      have hsz5 : s'.size = s.size + 1 := by
        rw [← hs']
        split <;> (try rw [setParent_size]) <;> split <;> (try rw [reparent_size]) <;> exact hsz3
      have hfields : (s3.obj s.size).fields = applyFields (s.obj u).fields ch.fields := by
        rw [hfl3, hS.fields_eq]
      refine ⟨by omega, ?_, ?_, ?_⟩
      · intro v hv
        rw [hs5 v hv]
        by_cases hvs : v = s.size
        · subst hvs; exact hpid3
        · rw [hobj3 v hvs]; exact (shrinks_beyond Hc hI hS hv).1
      · intro v hv
        rw [hs5 v hv]
        by_cases hvs : v = s.size
        · subst hvs
          unfold LObj.wf
          rw [hfields, applyFields_names]
          exact ⟨(hI.wf u).1, hwf⟩
        · rw [hobj3 v hvs]; exact (shrinks_beyond Hc hI hS hv).2
      · intro v hv1 hv2 c hcm
        have : v = s.size := by omega
        subst this
        rw [hs5 _ hv1] at hcm
        unfold LObj.kidList at hcm
        rw [hfields] at hcm
        rw [hsz5]
        apply Nat.lt_succ_of_lt
        obtain ⟨fl, hfl, hcf⟩ := List.mem_flatMap.mp hcm
        unfold applyFields at hfl
        obtain ⟨f0, hf0, rfl⟩ := List.mem_map.mp hfl
        split at hcf
        · next nm ks hfind =>
          exact hk c (List.mem_flatMap.mpr ⟨(nm, ks), List.mem_of_find?_eq_some hfind, hcf⟩)
        · exact hI.closed u hu c (List.mem_flatMap.mpr ⟨f0, hf0, hcf⟩)
    · next s3 n hc =>
      -- the construction succeeded: the call returns, or does not return
      exfalso
      split at h <;> exact he (ite_ok_hang h)

/-! ### `replace_with` rejected with ASTNodeReplaceWithError: EVERY record is restored -/

/-- every record (also the junk beyond `size`), every lookup and the size are what they were -/
def FrameAll (s s' : LState) : Prop :=
  (∀ k, s'.lookup k = s.lookup k) ∧ (∀ v, s'.obj v = s.obj v) ∧ s'.size = s.size

theorem FrameAll.refl (s : LState) : FrameAll s s := ⟨fun _ => rfl, fun _ => rfl, rfl⟩

theorem FrameAll.frame {s s' : LState} (h : FrameAll s s') : Frame s s' := ⟨h.1, fun v _ => h.2.1 v⟩

theorem FrameAll.garbage {s s' : LState} (hI : Inv Hc s) (h : FrameAll s s') : Garbage s s' :=
  ⟨by rw [h.2.2]; exact Nat.le_refl _, fun v hv => by rw [h.2.1]; exact (inv_beyond Hc hI hv).1,
   fun v hv => by rw [h.2.1]; exact (inv_beyond Hc hI hv).2, fun v h1 h2 => by rw [h.2.2] at h2; omega⟩

theorem foldl_commitOne_size : ∀ (l : List Nat) (s : LState), (l.foldl (commitOne Hc) s).size = s.size := by
  intro l; induction l with
  | nil => intro s; rfl
  | cons a r ih => intro s; simp only [List.foldl_cons]; rw [ih, commitOne_size]

theorem attach_size {s s' : LState} {u fuel : Nat} {r : Except Err Unit} (h : attach Hc fuel s u = (s', r)) :
    s'.size = s.size := by
  unfold attach at h
  split at h
  · simp only [Prod.mk.injEq] at h; rw [← h.1]
  · simp only [Prod.mk.injEq] at h; rw [← h.1]
  · simp only [Prod.mk.injEq] at h; rw [← h.1]; exact foldl_commitOne_size Hc _ _

theorem takeOver_size (s : LState) (u n : Nat) : (takeOver s u n).1.size = s.size := by
  unfold takeOver; simp only; split <;> rfl

/-- the receiver has no parent -/
theorem rwith_rollback_root_all {s s' : LState} {u n fuel : Nat} (hI : Inv Hc s)
    (hpar : s.parent u = none) (hsub : s.isAttachedSubtree n = false)
    (h : replaceWith Hc fuel s u (some n) = (s', .error .replaceWithError)) : FrameAll s s' := by
  unfold replaceWith at h
  simp only [hsub, Bool.false_eq_true, if_false, hpar] at h
  -- n is detached, or an attached root
  have hnroot : Att s n → s.parent n = none := by
    intro ha
    unfold LState.isAttachedSubtree at hsub
    cases hp : s.parent n with
    | none => rfl
    | some q => simp [hp, (detached_eq_false_iff s n).mpr ha] at hsub
  by_cases hd : s.detached u = true
  · -- detached receiver: nothing is detached, nothing has to be re-attached
    simp only [hd, Bool.not_true, Bool.false_eq_true, if_false] at h
    cases hat : attach Hc fuel (takeOver s u n).1 n with
    | mk s3 r3 =>
      rw [hat] at h
      cases r3 with
      | ok x => cases x; simp at h
      | error e =>
        simp only [Prod.mk.injEq, Except.error.injEq] at h
        obtain ⟨rfl, he⟩ := h
        have hs3 := attach_fail_frame Hc _ _ _ _ _ hat
        rw [hs3]
        have hobj := takeOver_restore_obj s u n
        have hlk := takeOver_restore_lookup s u n
        by_cases hnd : s.detached n = true
        · have hto : (takeOver s u n).2 = false := by unfold takeOver; simp [hnd]
          simp only [hto, Bool.false_eq_true, if_false]
          exact ⟨fun k => by rw [hlk]; simp [hnd], fun v => hobj v, by rw [modify_size, takeOver_size]⟩
        · have hnd' : s.detached n = false := by cases hh : s.detached n <;> simp_all
          have hto : (takeOver s u n).2 = true := by unfold takeOver; simp [hnd']
          simp only [hto, if_true]
          refine ⟨fun k => ?_, fun v => by rw [register_obj]; exact hobj v, by rw [register_size, modify_size, takeOver_size]⟩
          rw [register_lookup]
          have hidn : ((takeOver s u n).1.modify n fun y =>
              { y with id := (s.obj n).id, origId := (s.obj n).origId }).idOf n = s.idOf n := by
            unfold LState.idOf; rw [hobj]
          rw [hidn, hlk]
          by_cases hk : s.idOf n = k
          · simp only [hk, if_true]; rw [← hk]; exact ((detached_eq_false_iff s n).mp hnd').symm
          · simp [hk]
  · -- attached root: detach, (failed attach of n), re-attach
    have hd' : s.detached u = false := by cases hh : s.detached u <;> simp_all
    have hua : Att s u := (detached_eq_false_iff s u).mp hd'
    simp only [hd', Bool.not_false, if_true] at h
    cases hds : detachGo (fuel + 1) false s u with
    | mk s1 r1 =>
      rw [hds] at h
      cases r1 with
      | none => simp at h
      | some b =>
        simp only at h
        cases hat : attach Hc fuel (takeOver s1 u n).1 n with
        | mk s3 r3 =>
          rw [hat] at h
          cases r3 with
          | ok x => cases x; simp at h
          | error e =>
            simp only at h
            have hs3 := attach_fail_frame Hc _ _ _ _ _ hat
            rw [hs3] at h
            cases hat2 : attach Hc fuel ((takeOver s1 u n).1.modify n fun x =>
                { x with id := (s1.obj n).id, origId := (s1.obj n).origId }) u with
            | mk s5 r5 =>
              rw [hat2] at h
              cases r5 with
              | error e' =>
                exfalso
                simp only [Prod.mk.injEq, Except.error.injEq] at h
                rcases attach_err_kind Hc hat2 with h1 | h1 | h1 <;> rcases attach_err_kind Hc hat with h2 | h2 | h2 <;>
                  simp [h1, h2] at h
              | ok x =>
                cases x
                simp only [Prod.mk.injEq, Except.error.injEq] at h
                obtain ⟨rfl, _⟩ := h
                have hS : Shrinks s s1 := by
                  have := (detachGo_facts (fuel + 1) false s u b (by rw [hds])).shr; rwa [hds] at this
                have hobj := takeOver_restore_obj s1 u n
                have hlk := takeOver_restore_lookup s1 u n
                have hs1u : s1.obj u = s.obj u := by
                  apply Classical.byContradiction; intro hne
                  have ht := detachGo_touched (fuel + 1) false s u b (by rw [hds])
                  rw [hds] at ht
                  obtain ⟨q, hq, huq⟩ := ht u hne
                  obtain ⟨e, he, he1⟩ := (mem_kidList_iff _ _).mp huq
                  obtain ⟨_, b1, _, _⟩ := hI.down' q hq.1 e he
                  rw [he1] at b1
                  unfold LState.parent at hpar
                  rw [b1] at hpar; simp only at hpar
                  have := hq.1; unfold Att at this; rw [this] at hpar; cases hpar
                -- the key that the take-over removed (if the new node was registered)
                let kn : Option Str := if s1.detached n = false then some (s1.idOf n) else none
                have hid1 : ∀ x, s1.idOf x = s.idOf x := hS.id_eq
                have hnatt1 : s1.detached n = false → Att s n := fun h => hS.att ((detached_eq_false_iff s1 n).mp h)
                have hfr := reattach_frame Hc (kn := kn) hI hua (fun _ => rfl) (fun _ _ => rfl) (SameButParent.refl _) hds
                  (fun x _ => hobj x) (by rw [hobj]; exact hs1u)
                  (by
                    intro k
                    rw [hlk]
                    by_cases hc : s1.detached n = false ∧ s1.idOf n = k
                    · right; simp only [hc, and_self, if_true, true_and]; show some k = kn; simp [kn, hc.1, hc.2]
                    · left; simp [hc])
                  (by
                    intro k hk m hm hidm
                    have hnd1 : s1.detached n = false := by
                      cases hh : s1.detached n <;> simp_all [kn]
                    have hk' : s1.idOf n = k := by simp [kn, hnd1] at hk; exact hk
                    have hna : Att s n := hnatt1 hnd1
                    have hnu : n ≠ u := by
                      intro e; subst e
                      exact detachGo_root_detaches hua hpar hds ((detached_eq_false_iff s1 n).mp hnd1)
                    have hma := (upFree_of_desc hI hua hm (fun _ _ hx => hx.elim)).1
                    have : m = n := att_inj hma hna (by rw [hidm, ← hk', hid1])
                    subst this
                    -- a descendant other than the receiver has a parent; the new node has none
                    cases hm with
                    | refl => exact hnu rfl
                    | @step q' _ hd' hkq =>
                      have hq' := (upFree_of_desc hI hua hd' (fun _ _ hx => hx.elim)).1
                      obtain ⟨e, he, he1⟩ := (mem_kidList_iff _ _).mp hkq
                      obtain ⟨_, b1, _, _⟩ := hI.down' q' hq' e he
                      rw [he1] at b1
                      have := hnroot hna
                      unfold LState.parent at this
                      rw [b1] at this; simp only at this
                      unfold Att at hq'; rw [hq'] at this; cases this)
                  hat2
                obtain ⟨f1, f2, f3⟩ := hfr
                have hsz : s5.size = s.size := by
                  rw [attach_size Hc hat2, modify_size, takeOver_size, hS.size]
                by_cases hnd1 : s1.detached n = true
                · have hto : (takeOver s1 u n).2 = false := by unfold takeOver; simp [hnd1]
                  simp only [hto, Bool.false_eq_true, if_false]
                  refine ⟨fun k => f2 k ?_, fun v => f1 v, hsz⟩
                  simp [kn, hnd1]
                · have hnd1' : s1.detached n = false := by cases hh : s1.detached n <;> simp_all
                  have hto : (takeOver s1 u n).2 = true := by unfold takeOver; simp [hnd1']
                  simp only [hto, if_true]
                  refine ⟨fun k => ?_, fun v => by rw [register_obj]; exact f1 v, by rw [register_size]; exact hsz⟩
                  rw [register_lookup]
                  have hidn : s5.idOf n = s.idOf n := by unfold LState.idOf; rw [f1]
                  rw [hidn]
                  by_cases hk : s.idOf n = k
                  · simp only [hk, if_true]; rw [← hk]; exact (hnatt1 hnd1').symm
                  · simp only [hk, if_false]
                    exact f2 k (by simp [kn, hnd1', hid1]; exact fun e => hk e.symm)

/-- the receiver has a parent -/
theorem rwith_rollback_parent_all {s s' : LState} {u p n fuel : Nat} (hI : Inv Hc s)
    (hpar : s.parent u = some p) (hsub : s.isAttachedSubtree n = false) (hnu : n ≠ u)
    (h : replaceWith Hc fuel s u (some n) = (s', .error .replaceWithError)) : FrameAll s s' := by
  have hua : Att s u := by
    unfold LState.parent at hpar
    cases hk : (s.obj u).pid with
    | none => rw [hk] at hpar; cases hpar
    | some k => exact (hI.noDangling u k hk).1
  obtain ⟨f, hf, _⟩ := hI.up u hua p hpar
  have hnroot : Att s n → s.parent n = none := by
    intro ha
    unfold LState.isAttachedSubtree at hsub
    cases hp : s.parent n with
    | none => rfl
    | some q => simp [hp, (detached_eq_false_iff s n).mpr ha] at hsub
  unfold replaceWith at h
  simp only [hsub, Bool.false_eq_true, if_false, hpar, hf] at h
  split at h
  · simp at h
  · split at h
    · -- type violation: nothing was touched
      simp only [Prod.mk.injEq] at h; rw [← h.1]; exact FrameAll.refl _
    · cases hds : detachGo (fuel + 1) false (s.clearParent u) u with
      | mk t2 r2 =>
        rw [hds] at h
        cases r2 with
        | none => simp at h
        | some b =>
          simp only at h
          cases hat : attach Hc fuel (takeOver t2 u n).1 n with
          | mk s3 r3 =>
            rw [hat] at h
            cases r3 with
            | ok x =>
              exfalso
              cases x
              simp only at h
              split at h <;> simp at h
            | error e =>
              simp only at h
              have hs3 := attach_fail_frame Hc _ _ _ _ _ hat
              rw [hs3] at h
              cases hat2 : attach Hc fuel (((takeOver t2 u n).1.modify n fun x =>
                  { x with id := (t2.obj n).id, origId := (t2.obj n).origId }).setParent u p f (s.obj u).pindex) u with
              | mk s7 r7 =>
                rw [hat2] at h
                cases r7 with
                | error e' =>
                  exfalso
                  simp only [Prod.mk.injEq, Except.error.injEq] at h
                  rcases attach_err_kind Hc hat2 with h1 | h1 | h1 <;>
                    rcases attach_err_kind Hc hat with h2 | h2 | h2 <;> simp [h1, h2] at h
                | ok x =>
                  cases x
                  simp only [Prod.mk.injEq, Except.error.injEq] at h
                  obtain ⟨rfl, _⟩ := h
                  have hS : Shrinks (s.clearParent u) t2 := by
                    have := (detachGo_facts (fuel + 1) false (s.clearParent u) u b (by rw [hds])).shr
                    rwa [hds] at this
                  have hobj := takeOver_restore_obj t2 u n
                  have hlk := takeOver_restore_lookup t2 u n
                  have hid2 : ∀ x, t2.idOf x = s.idOf x := by intro x; rw [hS.id_eq, clearParent_idOf]
                  have hnatt2 : t2.detached n = false → Att s n := fun h =>
                    (att_clearParent_iff s u n).mp (hS.att ((detached_eq_false_iff t2 n).mp h))
                  let kn : Option Str := if t2.detached n = false then some (t2.idOf n) else none
                  -- the record of the receiver is what it was: its parent slots have been restored
                  have h6u : ((((takeOver t2 u n).1.modify n fun x =>
                      { x with id := (t2.obj n).id, origId := (t2.obj n).origId }).setParent u p f
                        (s.obj u).pindex).obj u) = s.obj u := by
                    rw [setParent_obj]; simp only [if_true]
                    rw [hobj]
                    have hsame : SameButParent (t2.obj u) (s.obj u) := by
                      rcases hS.obj u with h1 | h1 <;> rw [h1, clearParent_obj'] <;> simp only [if_true]
                      · exact sameButParent_clearP _
                      · exact SameButParent.trans (sameButParent_clearP _) (sameButParent_clearP _)
                    unfold LState.parent at hpar
                    cases hk : (s.obj u).pid with
                    | none => rw [hk] at hpar; cases hpar
                    | some k =>
                      rw [hk] at hpar
                      obtain ⟨_, hpid⟩ := hI.regSound k p hpar
                      apply eq_of_sameButParent
                      · exact SameButParent.trans (sameButParent_setSlots _ _ _ _) hsame
                      · show some _ = _
                        rw [hk]
                        congr 1
                        unfold LState.idOf; rw [hobj]; exact (hid2 p).trans hpid
                      · show some f = _; rw [hf]
                      · rfl
                  have hfr := reattach_frame Hc (t1 := s.clearParent u) (kn := kn) hI hua (fun _ => rfl)
                    (fun x hx => by rw [clearParent_obj']; simp [hx])
                    (by rw [clearParent_obj']; simp only [if_true]; exact sameButParent_clearP _) hds
                    (fun x hx => by rw [setParent_obj]; simp only [hx, if_false]; exact hobj x) h6u
                    (by
                      intro k
                      rw [setParent_lookup, hlk]
                      by_cases hc : t2.detached n = false ∧ t2.idOf n = k
                      · right; simp only [hc, and_self, if_true, true_and]; show some k = kn; simp [kn, hc.1, hc.2]
                      · left; simp [hc])
                    (by
                      intro k hk m hm
                      have hnd2 : t2.detached n = false := by cases hh : t2.detached n <;> simp_all [kn]
                      have hk' : t2.idOf n = k := by simp [kn, hnd2] at hk; exact hk
                      have hna := hnatt2 hnd2
                      rw [← hk', hid2]
                      exact root_not_desc Hc hI hua hnu hna (hnroot hna) m hm)
                    hat2
                  obtain ⟨f1, f2, f3⟩ := hfr
                  have hsz : s7.size = s.size := by
                    rw [attach_size Hc hat2, setParent_size, modify_size, takeOver_size, hS.size, clearParent_size]
                  by_cases hnd2 : t2.detached n = true
                  · have hto : (takeOver t2 u n).2 = false := by unfold takeOver; simp [hnd2]
                    simp only [hto, Bool.false_eq_true, if_false]
                    refine ⟨fun k => f2 k ?_, fun v => f1 v, hsz⟩
                    simp [kn, hnd2]
                  · have hnd2' : t2.detached n = false := by cases hh : t2.detached n <;> simp_all
                    have hto : (takeOver t2 u n).2 = true := by unfold takeOver; simp [hnd2']
                    simp only [hto, if_true]
                    refine ⟨fun k => ?_, fun v => by rw [register_obj]; exact f1 v, by rw [register_size]; exact hsz⟩
                    rw [register_lookup]
                    have hidn : s7.idOf n = s.idOf n := by unfold LState.idOf; rw [f1]
                    rw [hidn]
                    by_cases hk : s.idOf n = k
                    · simp only [hk, if_true]; rw [← hk]; exact (hnatt2 hnd2').symm
                    · simp only [hk, if_false]
                      exact f2 k (by simp [kn, hnd2', hid2]; exact fun e => hk e.symm)

/-- **`replace_with` rejected (`ASTNodeReplaceWithError`)**, for whatever reason -- a pre-check, or the new
node cannot be attached (registry / parent collision anywhere in its subtree): the receiver, its whole
subtree, the new node and the registry are exactly what they were -/
theorem fail_frameAll_rwith {s s' : LState} {u : Nat} {new : Option Nat} (hI : Inv Hc s)
    (h : step H Hc s (.rwith u new) = (s', .raised .replaceWithError)) : FrameAll s s' := by
  unfold step at h
  split at h
  · cases h
  · simp only at h
    cases hrw : replaceWith Hc (fuelOf s) s u new with
    | mk s1 r1 =>
      rw [hrw] at h
      cases r1 with
      | ok x => cases x; simp [ofUnit] at h
      | error e =>
        simp only [ofUnit, Prod.mk.injEq, LOut.raised.injEq] at h
        obtain ⟨rfl, rfl⟩ := h
        by_cases hpre : rwithPrecheckFails s u new = true
        · have := fail_frame_rwith_precheck Hc (fuel := fuelOf s) hpre
          rw [hrw] at this; simp only at this; rw [this]; exact FrameAll.refl _
        · -- the pre-checks passed: only `new = some n` can still be rejected
          cases new with
          | none =>
            exfalso
            unfold replaceWith at hrw
            simp only [Bool.false_eq_true, if_false] at hrw
            unfold rwithPrecheckFails at hpre
            simp only [Bool.false_or] at hpre
            cases hp : s.parent u with
            | none =>
              rw [hp] at hrw; simp only at hrw
              split at hrw <;> simp at hrw
            | some p =>
              rw [hp] at hrw hpre; simp only at hrw hpre
              cases hf : (s.obj u).pfield with
              | none => rw [hf] at hpre; simp at hpre
              | some f =>
                rw [hf] at hrw hpre; simp only at hrw hpre
                cases hfl : (s.obj p).fields.find? (·.name = f) with
                | none => rw [hfl] at hpre; simp at hpre
                | some fl =>
                  rw [hfl] at hrw hpre; simp only at hrw hpre
                  have : (!(decide (fl.kind = FKind.opt) || fl.kind.isSeq)) = false := by
                    cases hh : (!(decide (fl.kind = FKind.opt) || fl.kind.isSeq)) <;> simp_all
                  simp only [this, Bool.false_eq_true, if_false] at hrw
                  split at hrw
                  · simp at hrw
                  · split at hrw <;> simp at hrw
          | some n =>
            have hsub : s.isAttachedSubtree n = false := by
              unfold rwithPrecheckFails at hpre
              cases hh : s.isAttachedSubtree n <;> simp_all
            cases hp : s.parent u with
            | none => exact rwith_rollback_root_all Hc hI hp hsub hrw
            | some p =>
              have hnu : n ≠ u := by
                intro e; subst e
                have hua : Att s n := by
                  unfold LState.parent at hp
                  cases hk : (s.obj n).pid with
                  | none => rw [hk] at hp; cases hp
                  | some k => exact (hI.noDangling n k hk).1
                simp [LState.isAttachedSubtree, hp, (detached_eq_false_iff s n).mpr hua] at hsub
              exact rwith_rollback_parent_all Hc hI hp hsub hnu hrw

/-! ### one uniform statement for a rejected step -/

/-- the errors of an operation that are *rejections* in the sense of the property (a documented error class
comes back and the call has returned): everything except `hang` (the call does not return: the library loops
on an inadmissible argument).  For `replace_with` the rejection is ASTNodeReplaceWithError; its other exits
(`internal`, a collision raised by the re-attachment of the receiver inside the roll-back) are the subject of
`rwith_err_kind` (Props/C19RwithErr.lean). -/
def Documented : LOp → Err → Prop
  | .rwith _ _, e => e = .replaceWithError
  | _, e => e ≠ .hang

instance (op : LOp) (e : Err) : Decidable (Documented op e) := by
  cases op <;> unfold Documented <;> infer_instance

def isDup : LOp → Bool
  | .dup _ _ => true
  | _ => false

/-- the frame of a rejected call modulo the objects it created itself (the three facts of `fail_frame_dup`; the
same structure as `C19T.FrameG` of Props/C19Transform.lean, see Props/C19RejectedBridge.lean) -/
structure FrameN (s s' : LState) : Prop where
  obj : ∀ v, v < s.size → s'.obj v = s.obj v
  keep : ∀ k v, s.lookup k = some v → s'.lookup k = some v
  fresh : ∀ k v, s'.lookup k = some v → s.lookup k = some v ∨ s.size ≤ v

theorem FrameN.frame_of_reg {s s' : LState} (h : FrameN s s') (hr : s'.reg = s.reg) : Frame s s' :=
  ⟨fun k => by unfold LState.lookup; rw [hr], h.obj⟩

theorem frameN_of_frame {s s' : LState} (h : Frame s s') : FrameN s s' :=
  ⟨h.2, fun k v hk => by rw [h.1]; exact hk, fun k v hk => .inl (by rw [← h.1]; exact hk)⟩

theorem frameN_trans {a b c : LState} (h1 : FrameN a b) (h2 : FrameN b c) (hs : a.size ≤ b.size) : FrameN a c := by
  refine ⟨fun v hv => ?_, fun k v hk => h2.keep k v (h1.keep k v hk), fun k v hk => ?_⟩
  · rw [h2.obj v (by omega)]; exact h1.obj v hv
  · rcases h2.fresh k v hk with h | h
    · exact h1.fresh k v h
    · exact .inr (by omega)

theorem frame_trans {a b c : LState} (h1 : Frame a b) (h2 : Frame b c) (hs : a.size ≤ b.size) : Frame a c :=
  ⟨fun k => (h2.1 k).trans (h1.1 k), fun v hv => (h2.2 v (by omega)).trans (h1.2 v hv)⟩

/-- **everything about one rejected step**: the invariant survives, the pre-existing records and registry
entries are untouched (`FrameN`: modulo registry entries of objects created by the rejected call, which only
a rejected `duplicate` leaves; plain `Frame` for every other operation), objects are only added -/
theorem rejected_step {s s' : LState} {op : LOp} {e : Err} (hI : Inv Hc s) (hp : C18.LOp.proved s op)
    (h : step H Hc s op = (s', .raised e)) (hd : Documented op e) :
    Inv Hc s' ∧ FrameN s s' ∧ s.size ≤ s'.size ∧ (isDup op = false → Frame s s') := by
  have triv : s' = s → Inv Hc s' ∧ FrameN s s' ∧ s.size ≤ s'.size ∧ (isDup op = false → Frame s s') := by
    rintro rfl; exact ⟨hI, frameN_of_frame (Frame.refl _), Nat.le_refl _, fun _ => Frame.refl _⟩
  have ofFrame : Frame s s' → Garbage s s' →
      Inv Hc s' ∧ FrameN s s' ∧ s.size ≤ s'.size ∧ (isDup op = false → Frame s s') :=
    fun hF hG => ⟨inv_of_frame Hc hI hF hG, frameN_of_frame hF, hG.size, fun _ => hF⟩
  cases op with
  | new sp =>
    have hF := (fail_frame_new H Hc h).2
    unfold step at h
    split at h
    · cases h; exact triv rfl
    · next hr =>
      simp only at h
      have hlt := C18.refs_lt (by simpa using hr)
      cases hc : construct H Hc (fuelOf s) s sp with
      | mk s1 res =>
        rw [hc] at h
        cases res with
        | ok n => simp [ofNode] at h
        | error e' =>
          simp only [ofNode, Prod.mk.injEq] at h
          obtain ⟨rfl, _⟩ := h
          have hI' := construct_fail_inv H Hc hI (fun c hc' => hlt c (by simpa [LOp.refs] using hc')) hp hc
          exact ⟨hI', frameN_of_frame hF, by rw [(construct_fail_garbage H Hc hc).1]; omega, fun _ => hF⟩
  | attach u => exact triv (fail_frame_attach H Hc h)
  | detach u os =>
    unfold step at h
    split at h
    · cases h; exact triv rfl
    · simp only at h
      split at h
      · cases h
      · simp only [Prod.mk.injEq, LOut.raised.injEq] at h
        exact absurd h.2.symm hd
  | replace u ch =>
    have hF := fail_frame_replace H Hc hI h hd
    unfold step at h
    split at h
    · cases h; exact triv rfl
    · next hr =>
      simp only at h
      have hlt := C18.refs_lt (by simpa using hr)
      cases hc : replace H Hc (fuelOf s) s u ch with
      | mk s1 res =>
        rw [hc] at h
        cases res with
        | ok n => simp [ofNode] at h
        | error e' =>
          simp only [ofNode, Prod.mk.injEq, LOut.raised.injEq] at h
          obtain ⟨rfl, rfl⟩ := h
          exact ofFrame hF (replace_fail_garbage H Hc hI (hlt u (by simp [LOp.refs]))
            (fun c hc' => hlt c (by simp only [LOp.refs, List.mem_cons]; exact .inr hc')) hp hc hd)
  | rwith u n =>
    have hd' : e = .replaceWithError := hd
    subst hd'
    have hA := fail_frameAll_rwith H Hc hI h
    exact ofFrame hA.frame (hA.garbage Hc hI)
  | dup u c =>
    unfold step at h
    split at h
    · cases h; exact triv rfl
    · next hr =>
      simp only at h
      have hlt := C18.refs_lt (by simpa using hr)
      cases hdu : duplicate H Hc (2 * fuelOf s) c (fuelOf s) s u with
      | mk s1 r1 =>
        rw [hdu] at h
        cases r1 with
        | ok n => simp [ofNode] at h
        | error e' =>
          simp only [ofNode, Prod.mk.injEq] at h
          obtain ⟨rfl, _⟩ := h
          obtain ⟨⟨hI', hN, hs⟩, _⟩ := duplicate_all H Hc _ _ _ s u s1 _ hI (NewOnly.refl s)
            (hlt u (by simp [LOp.refs])) hdu
          exact ⟨hI', ⟨hN.obj, hN.keep, hN.fresh⟩, hs, fun hx => by simp [isDup] at hx⟩

/-- **AUDIT #3: the invariant also holds after a REJECTED step** -/
theorem inv_step_rejected {s s' : LState} {op : LOp} {e : Err} (hI : Inv Hc s) (hp : C18.LOp.proved s op)
    (h : step H Hc s op = (s', .raised e)) (hd : Documented op e) : Inv Hc s' :=
  (rejected_step H Hc hI hp h hd).1

/-- **one uniform frame theorem** for all operations: a rejected step leaves every pre-existing record and
every pre-existing registry entry untouched, and whatever else is registered afterwards is an object created
by the rejected call -/
theorem fail_frame_step {s s' : LState} {op : LOp} {e : Err} (hI : Inv Hc s) (hp : C18.LOp.proved s op)
    (h : step H Hc s op = (s', .raised e)) (hd : Documented op e) : FrameN s s' :=
  (rejected_step H Hc hI hp h hd).2.1

/-- … and for every operation but `duplicate` the registry is literally what it was -/
theorem fail_frame_step_nodup {s s' : LState} {op : LOp} {e : Err} (hI : Inv Hc s) (hp : C18.LOp.proved s op)
    (h : step H Hc s op = (s', .raised e)) (hd : Documented op e) (hnd : isDup op = false) : Frame s s' :=
  (rejected_step H Hc hI hp h hd).2.2.2 hnd

/-! ### histories that mix accepted and rejected operations -/

/-- the answer of a step is fine: the call returned, or it was rejected with a documented error -/
def FineOut (op : LOp) : LOut → Prop
  | .raised e => Documented op e
  | _ => True

instance (op : LOp) (out : LOut) : Decidable (FineOut op out) := by
  cases out <;> unfold FineOut <;> infer_instance

/-- one step, accepted or rejected -/
theorem inv_step_any {s s' : LState} {op : LOp} {out : LOut} (hI : Inv Hc s) (hp : C18.LOp.proved s op)
    (h : step H Hc s op = (s', out)) (hf : FineOut op out) : Inv Hc s' := by
  cases out with
  | raised e => exact inv_step_rejected H Hc hI hp h hf
  | none => exact C18.inv_step H Hc hI hp h rfl
  | bool b => exact C18.inv_step H Hc hI hp h rfl
  | node n => exact C18.inv_step H Hc hI hp h rfl

/-- a history each of whose steps returned or was rejected with a documented error -/
def MixedRun : LState → List LOp → Prop
  | _, [] => True
  | s, op :: r => C18.LOp.proved s op ∧ FineOut op (step H Hc s op).2 ∧ MixedRun (step H Hc s op).1 r

/-- **the invariant holds after every history of accepted and rejected operations** -/
theorem inv_run_mixed : ∀ (ops : List LOp) (s : LState), Inv Hc s → MixedRun H Hc s ops → Inv Hc (run H Hc s ops) := by
  intro ops
  induction ops with
  | nil => intro s hI _; exact hI
  | cons op r ih =>
    intro s hI hg
    obtain ⟨hp, hf, hr⟩ := hg
    unfold run
    simp only [List.foldl_cons]
    exact ih _ (inv_step_any H Hc hI hp rfl hf) hr

theorem inv_run_mixed_init (ops : List LOp) (hg : MixedRun H Hc init ops) : Inv Hc (run H Hc init ops) :=
  inv_run_mixed H Hc ops init (C18.inv_init Hc) hg

/-- an all-ok history is a mixed history -/
theorem mixedRun_of_goodRun : ∀ (ops : List LOp) (s : LState), C18.GoodRun H Hc s ops → MixedRun H Hc s ops := by
  intro ops
  induction ops with
  | nil => intro s _; trivial
  | cons op r ih =>
    intro s hg
    obtain ⟨hp, hok, hr⟩ := hg
    refine ⟨hp, ?_, ih _ hr⟩
    cases ho : (step H Hc s op).2 with
    | raised e => rw [ho] at hok; simp [LOut.isOk] at hok
    | none => trivial
    | bool b => trivial
    | node n => trivial

/-- a block of consecutive rejected operations (what the harness appends to a history) -/
def RejectedRun : LState → List LOp → Prop
  | _, [] => True
  | s, op :: r => C18.LOp.proved s op ∧ (∃ e, (step H Hc s op).2 = .raised e ∧ Documented op e) ∧
      RejectedRun (step H Hc s op).1 r

/-- **any number of consecutive rejections change nothing**: after the whole block every record and registry
entry that existed before it is untouched (and the invariant holds, so the theorems apply again) -/
theorem frame_run_rejected : ∀ (ops : List LOp) (s : LState), Inv Hc s → RejectedRun H Hc s ops →
    Inv Hc (run H Hc s ops) ∧ FrameN s (run H Hc s ops) ∧ s.size ≤ (run H Hc s ops).size ∧
      ((∀ op ∈ ops, isDup op = false) → Frame s (run H Hc s ops)) := by
  intro ops
  induction ops with
  | nil => intro s hI _; exact ⟨hI, frameN_of_frame (Frame.refl _), Nat.le_refl _, fun _ => Frame.refl _⟩
  | cons op r ih =>
    intro s hI hg
    obtain ⟨hp, ⟨e, he, hd⟩, hr⟩ := hg
    have hstep : step H Hc s op = ((step H Hc s op).1, .raised e) := by rw [← he]
    obtain ⟨a, b, c, d⟩ := rejected_step H Hc hI hp hstep hd
    obtain ⟨a', b', c', d'⟩ := ih _ a hr
    unfold run at a' b' c' d' ⊢
    simp only [List.foldl_cons]
    refine ⟨a', frameN_trans b b' c, by omega, fun hnd => ?_⟩
    exact frame_trans (d (hnd op (List.mem_cons_self ..))) (d' (fun o ho => hnd o (List.mem_cons_of_mem _ ho))) c

/-! ### non-vacuity: every theorem is applied to concrete data -/
section examples
open PyOak.Legacy.Ex PyOak.Legacy.C18

def decMixedRun : ∀ (ops : List LOp) (s : LState), Decidable (MixedRun id id s ops)
  | [], _ => isTrue trivial
  | op :: r, s =>
    have := decMixedRun r (step id id s op).1
    inferInstanceAs (Decidable
      (LOp.proved s op ∧ FineOut op (step id id s op).2 ∧ MixedRun id id (step id id s op).1 r))

instance (s : LState) (ops : List LOp) : Decidable (MixedRun id id s ops) := decMixedRun ops s

def decRejectedRun : ∀ (ops : List LOp) (s : LState), Decidable (RejectedRun id id s ops)
  | [], _ => isTrue trivial
  | op :: r, s =>
    have := decRejectedRun r (step id id s op).1
    have : Decidable (∃ e, (step id id s op).2 = .raised e ∧ Documented op e) :=
      match h : (step id id s op).2 with
      | .raised e => if hd : Documented op e then isTrue ⟨e, rfl, hd⟩
          else isFalse (fun ⟨e', he', hd'⟩ => by cases he'; exact hd hd')
      | .none => isFalse (fun ⟨_, he', _⟩ => by cases he')
      | .bool _ => isFalse (fun ⟨_, he', _⟩ => by cases he')
      | .node _ => isFalse (fun ⟨_, he', _⟩ => by cases he')
    inferInstanceAs (Decidable (LOp.proved s op ∧ (∃ e, (step id id s op).2 = .raised e ∧ Documented op e) ∧
      RejectedRun id id (step id id s op).1 r))

instance (s : LState) (ops : List LOp) : Decidable (RejectedRun id id s ops) := decRejectedRun ops s

/-- 18 operations from the empty world, 8 of them rejected (every kind of operation that can be rejected:
constructor with a repeated child / a child attached elsewhere, `replace` with repeated children,
`replace_with` a node that cannot be attached -- receiver a root and a child --, `duplicate` of a missing
object, `attach` of a tree one of whose nodes has been taken), interleaved with accepted operations; a
rejected constructor consumes an object number (the garbage record) -/
def mixed : List LOp :=
  [.new (leaf "1"), .new (leaf "2"), .new (tup [0]), .new (un 1),
   .new (tup [0, 0]), .new (tup [2, 1]), .replace 2 ⟨[], [("items".toList, [0, 0])], false⟩,
   .new (un 0 true), .rwith 3 (some 7), .rwith 1 (some 7), .dup 99 false, .attach 7,
   .detach 3 false, .new (tup [1]), .attach 3, .replace 0 ⟨[⟨"v".toList, "7".toList, true⟩], [], false⟩,
   .rwith 1 none, .dup 2 false]

example : outOf (mixed.take 4) (.new (tup [0, 0])) = .raised .dupChildren ∧
    outOf (mixed.take 5) (.new (tup [2, 1])) = .raised .parentCollision ∧
    outOf (mixed.take 6) (.replace 2 ⟨[], [("items".toList, [0, 0])], false⟩) = .raised .dupChildren ∧
    outOf (mixed.take 8) (.rwith 3 (some 7)) = .raised .replaceWithError ∧
    outOf (mixed.take 9) (.rwith 1 (some 7)) = .raised .replaceWithError ∧
    outOf (mixed.take 11) (.attach 7) = .raised .parentCollision ∧
    outOf (mixed.take 14) (.attach 3) = .raised .parentCollision ∧
    outOf (mixed.take 15) (.replace 0 ⟨[⟨"v".toList, "7".toList, true⟩], [], false⟩) = .node 9 := by decide

example : MixedRun id id init mixed := by decide
-- … which is NOT a `GoodRun`: `inv_run` does not apply, `inv_run_mixed` does
example : ¬ GoodRun id id init mixed := fun h => absurd h.2.2.2.2.2.2.2.2.2.1 (by decide)
theorem inv_mixed : Inv id (st mixed) := inv_run_mixed_init id id mixed (by decide)
set_option maxRecDepth 4000 in
example : (st mixed).size = 12 := by decide

-- one rejected step of each kind, from a state reached by a mixed history
example : Inv id (step id id (st (mixed.take 5)) (.new (tup [2, 1]))).1 :=
  inv_step_rejected id id (s := st (mixed.take 5)) (op := .new (tup [2, 1])) (e := .parentCollision)
    (inv_run_mixed_init id id _ (by decide)) (by decide) (mk_eq _ _ (by decide)) (by decide)
example : Inv id (step id id (st (mixed.take 6)) (.replace 2 ⟨[], [("items".toList, [0, 0])], false⟩)).1 :=
  inv_step_rejected id id (s := st (mixed.take 6)) (op := .replace 2 ⟨[], [("items".toList, [0, 0])], false⟩)
    (e := .dupChildren) (inv_run_mixed_init id id _ (by decide)) (by decide) (mk_eq _ _ (by decide)) (by decide)
example : Inv id (step id id (st (mixed.take 9)) (.rwith 1 (some 7))).1 :=
  inv_step_rejected id id (s := st (mixed.take 9)) (op := .rwith 1 (some 7)) (e := .replaceWithError)
    (inv_run_mixed_init id id _ (by decide)) trivial (mk_eq _ _ (by decide)) rfl
example : Frame (st (mixed.take 9)) (step id id (st (mixed.take 9)) (.rwith 1 (some 7))).1 :=
  fail_frame_step_nodup id id (s := st (mixed.take 9)) (op := .rwith 1 (some 7)) (e := .replaceWithError)
    (inv_run_mixed_init id id _ (by decide)) trivial (mk_eq _ _ (by decide)) rfl rfl
example : FrameAll (st (mixed.take 9)) (step id id (st (mixed.take 9)) (.rwith 1 (some 7))).1 :=
  fail_frameAll_rwith id id (s := st (mixed.take 9)) (u := 1) (new := some 7)
    (inv_run_mixed_init id id _ (by decide)) (mk_eq _ _ (by decide))
example : FrameN (st (mixed.take 14)) (step id id (st (mixed.take 14)) (.attach 3)).1 :=
  fail_frame_step id id (s := st (mixed.take 14)) (op := .attach 3) (e := .parentCollision)
    (inv_run_mixed_init id id _ (by decide)) trivial (mk_eq _ _ (by decide)) (by decide)
-- the garbage of a rejected `replace`: one unlinked record beyond the old size
example : Garbage (st (mixed.take 6)) (step id id (st (mixed.take 6)) (.replace 2 ⟨[], [("items".toList, [0, 0])], false⟩)).1 :=
  replace_fail_garbage id id (s := st (mixed.take 6)) (u := 2) (fuel := fuelOf (st (mixed.take 6)))
    (ch := ⟨[], [("items".toList, [0, 0])], false⟩) (e := .dupChildren)
    (inv_run_mixed_init id id _ (by decide)) (by decide) (by decide) (by decide) (Prod.ext rfl rfl) (by decide)

/-- a `duplicate` rejected for a REAL reason (not a missing object): a detached tuple over two leaves that
have become twins (the first was replaced by the second, which took its id) -- `dupChildren` is raised by the constructor of the
copy of the tuple after both children have been copied -/
def histD : List LOp :=
  [.new { leaf "1" with createDetached := true }, .new (leaf "2"),
   .new { tup [0, 1] with createDetached := true }, .rwith 0 (some 1)]
example : outOf histD (.dup 2 true) = .raised .dupChildren := by decide
example : MixedRun id id init (histD ++ [.dup 2 true, .dup 2 false, .dup 2 true]) := by decide
example : Inv id (step id id (st histD) (.dup 2 true)).1 ∧ FrameN (st histD) (step id id (st histD) (.dup 2 true)).1 :=
  have h := rejected_step id id (s := st histD) (op := .dup 2 true) (e := .dupChildren)
    (inv_run_mixed_init id id _ (by decide)) trivial (mk_eq _ _ (by decide)) (by decide)
  ⟨h.1, h.2.1⟩
-- the copies of a detached clone are never registered: here even `Frame`
example : Frame (st histD) (step id id (st histD) (.dup 2 true)).1 :=
  (fail_frame_step id id (s := st histD) (op := .dup 2 true) (e := .dupChildren)
    (inv_run_mixed_init id id _ (by decide)) trivial (mk_eq _ _ (by decide)) (by decide)).frame_of_reg (by decide)

/-- three consecutive rejections after a history (the shape the harness generates) -/
def tail3 : List LOp := [.new (tup [0, 0]), .rwith 3 (some 0), .replace 2 ⟨[], [("items".toList, [0, 0])], false⟩]
example : RejectedRun id id (st base) tail3 := by decide
example : Frame (st base) (run id id (st base) tail3) :=
  (frame_run_rejected id id tail3 (st base) inv_base (by decide)).2.2.2 (by decide)
example : Inv id (run id id (st base) tail3) := (frame_run_rejected id id tail3 (st base) inv_base (by decide)).1

example := mixedRun_of_goodRun id id hist init (by decide)
example := inv_step_any id id (s := st (mixed.take 4)) (op := .new (tup [0, 0])) (out := .raised .dupChildren)
  (inv_run_mixed_init id id _ (by decide)) (by decide) (mk_eq _ _ (by decide)) (by decide)

end examples

#print axioms inv_of_frame
#print axioms rejected_step
#print axioms inv_step_rejected
#print axioms fail_frame_step
#print axioms fail_frame_step_nodup
#print axioms fail_frameAll_rwith
#print axioms inv_step_any
#print axioms inv_run_mixed
#print axioms inv_run_mixed_init
#print axioms frame_run_rejected

end PyOak.Legacy.C19
