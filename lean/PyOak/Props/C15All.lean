/- import-only aggregate of the C15 theorem files (LEAN_MODULE of harness/props/c15.py) -/
import PyOak.Props.C15
import PyOak.Props.C15Total
import PyOak.Props.C15Source
import PyOak.Props.C15Concat
import PyOak.Props.C15Boundary
import PyOak.Props.C15Gen
