/-
C17, pattern grammar at the text level, the SOUNDNESS half (AUDIT.md, C17 §2 "no parser soundness"):

  `parse_sound`   : `parsePattern s = some p → PatRenders p s`

where `PatRenders p s` is exactly the rendering relation `parse_render` (Props/C17Pattern.lean) quantifies
over: `s` is the rendering of a concrete syntax tree `c` (a derivation of `PATTERN_DEF_GRAMMAR` with one
white-space string in front of each token) whose words are lexically valid (`c.OK`), followed by white
space, and `p` is the abstract tree of `c`.  Hence

  `parsePattern_iff`        : `parsePattern s = some p ↔ PatRenders p s`
  `renders_unique`          : the grammar is unambiguous (a text renders at most one tree)
  `compilePattern_ok_iff`   : compiled ⇔ the text is a rendering of a well-formed tree
  `compilePattern_syntax_iff` / `compilePattern_interp_iff` : the two rejections likewise
  `compilePattern_decides`  : the exact three-way classification of ARBITRARY text.

No ill-formed text is silently accepted as something else: whatever the parser accepts is a sentence of
the grammar, and the tree it returns is the tree of that sentence.
-/
import PyOak.Props.C17Reject
namespace PyOak
namespace C17
open PM

/-- **the rendering relation of the pattern grammar** (the one `parse_render` is about): `s` is a
derivation `c` of the grammar written with white space `AllWS` in front of every token and after the
last one, every word being a valid terminal (`c.OK`), and `p` is its abstract syntax tree -/
def PatRenders (p : Pat) (s : Str) : Prop :=
  ∃ (c : CPat) (wEnd : Str), c.OK ∧ AllWS wEnd ∧ c.strip = p ∧ s = c.render ++ wEnd

/-! ### lexical level -/

theorem mem_takeWhile_imp (p : Char → Bool) : ∀ (l : List Char) (c : Char), c ∈ l.takeWhile p → p c = true
  | [], c, h => by cases h
  | d :: l, c, h => by
    by_cases hd : p d = true
    · simp only [List.takeWhile_cons, hd, if_true, List.mem_cons] at h
      rcases h with rfl | h
      · exact hd
      · exact mem_takeWhile_imp p l c h
    · simp [hd] at h

theorem ws_split (s : Str) : AllWS (s.takeWhile isWS) ∧ s = s.takeWhile isWS ++ skipWS s :=
  ⟨fun c hc => mem_takeWhile_imp _ _ c hc, List.takeWhile_append_dropWhile.symm⟩

/-- if the significant part of `s` is `t`, then `s` is white space followed by `t` -/
theorem ws_split_eq (s t : Str) (h : skipWS s = t) : ∃ w, AllWS w ∧ s = w ++ t := by
  obtain ⟨hw, hs⟩ := ws_split s
  exact ⟨_, hw, by rw [← h]; exact hs⟩

theorem allWS_nil : AllWS [] := fun _ h => by cases h

theorem allWS_append (a b : Str) (ha : AllWS a) (hb : AllWS b) : AllWS (a ++ b) := by
  intro c hc
  rcases List.mem_append.mp hc with h | h
  · exact ha c h
  · exact hb c h

theorem expectC_sound (c : Char) (s r : Str) (h : expectC c s = some r) : ∃ w, AllWS w ∧ s = w ++ c :: r := by
  unfold expectC at h
  split at h
  · rename_i d t heq
    split at h
    · rename_i hd
      have hd : d = c := by simpa using hd
      injection h with h
      subst h; subst hd
      exact ws_split_eq s _ heq
    · cases h
  · cases h

theorem lexCName_sound (s n r : Str) (h : lexCName s = some (n, r)) :
    ∃ w, AllWS w ∧ ValidCName n ∧ s = w ++ (n ++ r) := by
  unfold lexCName at h
  split at h
  · rename_i c t heq
    split at h
    · rename_i hc
      simp only [Option.some.injEq, Prod.mk.injEq] at h
      obtain ⟨rfl, rfl⟩ := h
      obtain ⟨w, hw, hs⟩ := ws_split_eq s _ heq
      refine ⟨w, hw, ⟨c, _, rfl, hc, fun d hd => mem_takeWhile_imp _ _ d hd⟩, ?_⟩
      rw [List.cons_append, List.takeWhile_append_dropWhile]
      exact hs
    · cases h
  · cases h

theorem all_underscore_reverse : ∀ d : Str, (∀ c ∈ d, c = '_') → d.reverse = d := by
  intro d hd
  have : d = List.replicate d.length '_' := List.eq_replicate_iff.mpr ⟨rfl, hd⟩
  rw [this, List.reverse_replicate]

/-- `trimKey` splits a run into the part up to its last non-underscore and the trailing underscores -/
theorem trimKey_spec (run : Str) :
    run = (trimKey run).1 ++ (trimKey run).2
      ∧ ((trimKey run).1 = [] ∨ ∃ r c, (trimKey run).1 = r ++ [c] ∧ c ≠ '_') := by
  have hsplit : run.reverse = run.reverse.takeWhile (· == '_') ++ run.reverse.dropWhile (· == '_') :=
    List.takeWhile_append_dropWhile.symm
  generalize hd : run.reverse.takeWhile (· == '_') = d at hsplit
  generalize he : run.reverse.dropWhile (· == '_') = e at hsplit
  have hdall : ∀ c ∈ d, c = '_' := by
    intro c hc
    rw [← hd] at hc
    simpa using mem_takeWhile_imp _ _ c hc
  have hrun : run = e.reverse ++ d := by
    have := congrArg List.reverse hsplit
    rw [List.reverse_reverse, List.reverse_append, all_underscore_reverse d hdall] at this
    exact this
  have hkey : (trimKey run).1 = e.reverse := by
    simp only [trimKey, hd]
    rw [hrun]
    simp
  have hdrop : (trimKey run).2 = d := by simp only [trimKey, hd]
  refine ⟨by rw [hkey, hdrop]; exact hrun, ?_⟩
  rw [hkey]
  cases e with
  | nil => exact Or.inl rfl
  | cons c e' =>
    refine Or.inr ⟨e'.reverse, c, by simp, ?_⟩
    have := List.head_dropWhile_not (· == '_') (l := run.reverse) (by rw [he]; simp)
    simp only [he, List.head_cons] at this
    simpa using this

theorem lexKey_eq (s : Str) :
    lexKey s = (if (trimKey ((skipWS s).takeWhile isKeyChar)).1.isEmpty then none
      else some ((trimKey ((skipWS s).takeWhile isKeyChar)).1,
        (trimKey ((skipWS s).takeWhile isKeyChar)).2 ++ (skipWS s).dropWhile isKeyChar)) := rfl

theorem lexKey_sound (s k r : Str) (h : lexKey s = some (k, r)) :
    ∃ w, AllWS w ∧ ValidKey k ∧ s = w ++ (k ++ r) := by
  rw [lexKey_eq] at h
  generalize hrun : (skipWS s).takeWhile isKeyChar = run at h
  obtain ⟨h1, h2⟩ := trimKey_spec run
  split at h
  · cases h
  · rename_i hne
    simp only [Option.some.injEq, Prod.mk.injEq] at h
    obtain ⟨hk, hr⟩ := h
    obtain ⟨hw, hs⟩ := ws_split s
    have hall : ∀ d ∈ run, isKeyChar d = true := by
      intro d hd; rw [← hrun] at hd; exact mem_takeWhile_imp _ _ d hd
    refine ⟨_, hw, ?_, ?_⟩
    · rcases h2 with h2 | ⟨r', c, h2, hc⟩
      · rw [h2] at hne; simp at hne
      · refine ⟨r', c, by rw [← hk, h2], ?_, ?_⟩
        · have hmem : c ∈ run := by rw [h1, h2]; simp
          have := hall c hmem
          simp only [isKeyChar, Bool.or_eq_true, beq_iff_eq] at this
          rcases this with h | h
          · exact h
          · exact absurd h hc
        · intro d hd
          exact hall d (by rw [h1, h2]; simp [hd])
    · rw [← hk, ← hr, ← List.append_assoc ((trimKey run).1), ← h1, ← hrun, List.takeWhile_append_dropWhile]
      exact hs

theorem scanStr_sound : ∀ (s acc body r : Str), scanStr s acc = some (body, r) →
    ∃ b, EscBody b ∧ body = acc.reverse ++ b ∧ s = b ++ '"' :: r := by
  intro s acc
  fun_induction scanStr s acc with
  | case1 acc => intro body r h; cases h
  | case2 t acc => intro body r h; cases h
  | case3 t acc =>
    intro body r h
    simp only [Option.some.injEq, Prod.mk.injEq] at h
    obtain ⟨rfl, rfl⟩ := h
    exact ⟨[], .nil, by simp, rfl⟩
  | case4 c t acc hc =>
    intro body r h; cases h
  | case5 c t acc hc ih =>
    intro body r h
    obtain ⟨b, hb, e1, e2⟩ := ih body r h
    have hc' : c ≠ '\n' := by simpa using hc
    exact ⟨'\\' :: c :: b, .esc c b hc' hb, by rw [e1]; simp, by rw [e2]; rfl⟩
  | case6 c t acc h1 h2 h3 ih =>
    intro body r h
    obtain ⟨b, hb, e1, e2⟩ := ih body r h
    refine ⟨c :: b, .plain c b ⟨?_, ?_, ?_⟩ hb, by rw [e1]; simp, by rw [e2]; rfl⟩
    · exact fun e => h2 e
    · rintro rfl
      cases t with
      | nil => cases b <;> cases e2
      | cons d t' => exact h3 d t' rfl rfl
    · exact fun e => h1 e

/-! ### `capture?`, `class_spec` -/

theorem parseCapture_sound (s : Str) (cap : Option Str) (r : Str) (h : parseCapture s = some (cap, r)) :
    ∃ c : CCap, c.OK ∧ c.strip = cap ∧ s = c.render ++ r := by
  unfold parseCapture at h
  split at h
  · rename_i t heq
    cases hk : lexKey t with
    | none => simp [hk] at h
    | some kr =>
      obtain ⟨k, r'⟩ := kr
      simp only [hk, Option.some.injEq, Prod.mk.injEq] at h
      obtain ⟨rfl, rfl⟩ := h
      obtain ⟨w1, hw1, hs⟩ := ws_split_eq s _ heq
      obtain ⟨w2, hw2, hkey, ht⟩ := lexKey_sound t k r' hk
      exact ⟨.some w1 w2 k, ⟨hw1, hw2, hkey⟩, rfl, by rw [hs, ht]; simp [CCap.render]⟩
  · cases h
  · simp only [Option.some.injEq, Prod.mk.injEq] at h
    obtain ⟨rfl, rfl⟩ := h
    exact ⟨.none, trivial, rfl, rfl⟩

theorem parseAlts_sound : ∀ (fuel : Nat) (s : Str) (cs : List Str) (r : Str), parseAlts fuel s = some (cs, r) →
    ∃ alts : List CAlt, altsOK alts ∧ alts.map (·.name) = cs ∧ s = renderAlts alts ++ r
  | 0, _, _, _, h => by simp [parseAlts] at h
  | fuel + 1, s, cs, r, h => by
    unfold parseAlts at h
    split at h
    · rename_i t heq
      cases hn : lexCName t with
      | none => simp [hn] at h
      | some nr =>
        obtain ⟨n, r1⟩ := nr
        cases ha : parseAlts fuel r1 with
        | none => simp [hn, ha] at h
        | some x =>
          obtain ⟨cs', r2⟩ := x
          simp only [hn, ha, Option.some.injEq, Prod.mk.injEq] at h
          obtain ⟨rfl, rfl⟩ := h
          obtain ⟨w1, hw1, hs⟩ := ws_split_eq s _ heq
          obtain ⟨w2, hw2, hname, ht⟩ := lexCName_sound t n r1 hn
          obtain ⟨alts, hok, hmap, hr1⟩ := parseAlts_sound fuel r1 cs' r2 ha
          refine ⟨⟨w1, w2, n⟩ :: alts, ⟨hw1, hw2, hname, hok⟩, by simp [hmap], ?_⟩
          rw [hs, ht, hr1]
          simp [renderAlts]
    · simp only [Option.some.injEq, Prod.mk.injEq] at h
      obtain ⟨rfl, rfl⟩ := h
      exact ⟨[], trivial, rfl, rfl⟩

theorem parseClassSpec_sound (s : Str) (cls : ClassSpec) (r : Str) (h : parseClassSpec s = some (cls, r)) :
    ∃ c : CClass, c.OK ∧ c.strip = cls ∧ s = c.render ++ r := by
  unfold parseClassSpec at h
  split at h
  · rename_i t heq
    simp only [Option.some.injEq, Prod.mk.injEq] at h
    obtain ⟨rfl, rfl⟩ := h
    obtain ⟨w, hw, hs⟩ := ws_split_eq s _ heq
    exact ⟨.any w, hw, rfl, by rw [hs]; simp [CClass.render]⟩
  · rename_i t hnot
    cases hn : lexCName (skipWS s) with
    | none => simp [hn] at h
    | some nr =>
      obtain ⟨n, r1⟩ := nr
      cases ha : parseAlts (r1.length + 1) r1 with
      | none => simp [hn, ha] at h
      | some x =>
        obtain ⟨cs, r2⟩ := x
        simp only [hn, ha, Option.some.injEq, Prod.mk.injEq] at h
        obtain ⟨rfl, rfl⟩ := h
        obtain ⟨hw, hs⟩ := ws_split s
        obtain ⟨w2, hw2, hname, ht⟩ := lexCName_sound _ n r1 hn
        obtain ⟨alts, hok, hmap, hr1⟩ := parseAlts_sound _ r1 cs r2 ha
        refine ⟨.names (s.takeWhile isWS ++ w2) n alts, ⟨allWS_append _ _ hw hw2, hname, hok⟩, by simp [CClass.strip, hmap], ?_⟩
        simp only [CClass.render, List.append_assoc]
        rw [← hr1, ← ht]
        exact hs

/-! ### the recursive part: `tree`, `field_spec*`, the `=` part, `(value capture?)*`, `value` -/

/-- what the five mutually recursive parser functions are sound for, at fuel `f` -/
def SoundAt (f : Nat) : Prop :=
  (∀ s p r, parseTree f s = some (p, r) → ∃ c : CPat, c.OK ∧ c.strip = p ∧ s = c.render ++ r)
  ∧ (∀ s p r, parseFields f s = some (p, r) → ∃ c : CFields, c.OK ∧ c.strip = p ∧ s = c.render ++ r)
  ∧ (∀ s p r, parseFSpec f s = some (p, r) → ∃ c : CFSpec, c.OK ∧ c.strip = p ∧ s = c.render ++ r)
  ∧ (∀ s p r, parseItems f s = some (p, r) → ∃ c : CItems, c.OK ∧ c.strip = p ∧ s = c.render ++ r)
  ∧ (∀ s p r, parseValue f s = some (p, r) → ∃ c : CPVal, c.OK ∧ c.strip = p ∧ s = c.render ++ r)

theorem soundAt_zero : SoundAt 0 := by
  refine ⟨?_, ?_, ?_, ?_, ?_⟩ <;> intro s p r h
  · simp [parseTree] at h
  · simp [parseFields] at h
  · simp [parseFSpec] at h
  · simp [parseItems] at h
  · simp [parseValue] at h

/-- white space in front of a tree belongs to its first token -/
theorem pat_prepend (w : Str) (c : CPat) (hw : AllWS w) (hc : c.OK) :
    ∃ c' : CPat, c'.OK ∧ c'.strip = c.strip ∧ c'.render = w ++ c.render := by
  cases c with
  | mk w1 cls fs w2 =>
    obtain ⟨h1, h2, h3, h4⟩ := hc
    exact ⟨.mk (w ++ w1) cls fs w2, ⟨allWS_append _ _ hw h1, h2, h3, h4⟩, by simp [CPat.strip],
      by simp [CPat.render]⟩

theorem tree_step (f : Nat) (ih : SoundAt f) (s : Str) (p : Pat) (r : Str) (h : parseTree (f + 1) s = some (p, r)) :
    ∃ c : CPat, c.OK ∧ c.strip = p ∧ s = c.render ++ r := by
  cases h1 : expectC '(' s with
  | none => simp [parseTree, h1] at h
  | some r0 =>
    cases h2 : parseClassSpec r0 with
    | none => simp [parseTree, h1, h2] at h
    | some x =>
      obtain ⟨cls, r1⟩ := x
      cases h3 : parseFields f r1 with
      | none => simp [parseTree, h1, h2, h3] at h
      | some y =>
        obtain ⟨fs, r2⟩ := y
        cases h4 : expectC ')' r2 with
        | none => simp [parseTree, h1, h2, h3, h4] at h
        | some r3 =>
          simp only [parseTree, h1, h2, h3, h4, Option.some.injEq, Prod.mk.injEq] at h
          obtain ⟨rfl, rfl⟩ := h
          obtain ⟨w1, hw1, e1⟩ := expectC_sound _ _ _ h1
          obtain ⟨ccls, hcls, scls, e2⟩ := parseClassSpec_sound _ _ _ h2
          obtain ⟨cfs, hfs, sfs, e3⟩ := ih.2.1 _ _ _ h3
          obtain ⟨w2, hw2, e4⟩ := expectC_sound _ _ _ h4
          refine ⟨.mk w1 ccls cfs w2, ⟨hw1, hcls, hfs, hw2⟩, by simp [CPat.strip, scls, sfs], ?_⟩
          rw [e1, e2, e3, e4]
          simp [CPat.render]

theorem fields_step (f : Nat) (ih : SoundAt f) (s : Str) (p : Fields) (r : Str)
    (h : parseFields (f + 1) s = some (p, r)) :
    ∃ c : CFields, c.OK ∧ c.strip = p ∧ s = c.render ++ r := by
  unfold parseFields at h
  split at h
  · rename_i t heq
    cases h1 : lexCName t with
    | none => simp [h1] at h
    | some x =>
      obtain ⟨name, r1⟩ := x
      cases h2 : parseFSpec f r1 with
      | none => simp [h1, h2] at h
      | some y =>
        obtain ⟨spec, r2⟩ := y
        cases h3 : parseCapture r2 with
        | none => simp [h1, h2, h3] at h
        | some z =>
          obtain ⟨cap, r3⟩ := z
          cases h4 : parseFields f r3 with
          | none => simp [h1, h2, h3, h4] at h
          | some u =>
            obtain ⟨rest, r4⟩ := u
            simp only [h1, h2, h3, h4, Option.some.injEq, Prod.mk.injEq] at h
            obtain ⟨rfl, rfl⟩ := h
            obtain ⟨w1, hw1, e0⟩ := ws_split_eq s _ heq
            obtain ⟨w2, hw2, hname, e1⟩ := lexCName_sound _ _ _ h1
            obtain ⟨cspec, hspec, sspec, e2⟩ := ih.2.2.1 _ _ _ h2
            obtain ⟨ccap, hcap, scap, e3⟩ := parseCapture_sound _ _ _ h3
            obtain ⟨crest, hrest, srest, e4⟩ := ih.2.1 _ _ _ h4
            refine ⟨.cons w1 w2 name cspec ccap crest, ⟨hw1, hw2, hname, hspec, hcap, hrest⟩,
              by simp [CFields.strip, sspec, scap, srest], ?_⟩
            rw [e0, e1, e2, e3, e4]
            simp [CFields.render]
  · simp only [Option.some.injEq, Prod.mk.injEq] at h
    obtain ⟨rfl, rfl⟩ := h
    exact ⟨.nil, trivial, rfl, rfl⟩

theorem fspec_step (f : Nat) (ih : SoundAt f) (s : Str) (p : FSpec) (r : Str)
    (h : parseFSpec (f + 1) s = some (p, r)) :
    ∃ c : CFSpec, c.OK ∧ c.strip = p ∧ s = c.render ++ r := by
  unfold parseFSpec at h
  split at h
  · rename_i t heq
    obtain ⟨w1, hw1, e0⟩ := ws_split_eq s _ heq
    split at h
    · rename_i t3 heq2
      obtain ⟨w2, hw2, e1⟩ := ws_split_eq t _ heq2
      cases h1 : parseItems f t3 with
      | none => simp [h1] at h
      | some x =>
        obtain ⟨items, r4⟩ := x
        obtain ⟨citems, hitems, sitems, e2⟩ := ih.2.2.2.1 _ _ _ h1
        simp only [h1] at h
        split at h
        · rename_i r5 heq3
          obtain ⟨wt, hwt, e3⟩ := ws_split_eq r4 _ heq3
          cases h2 : parseCapture r5 with
          | none => simp [h2] at h
          | some y =>
            obtain ⟨tc, r6⟩ := y
            cases h3 : expectC ']' r6 with
            | none => simp [h2, h3] at h
            | some r7 =>
              simp only [h2, h3, Option.some.injEq, Prod.mk.injEq] at h
              obtain ⟨rfl, rfl⟩ := h
              obtain ⟨ccap, hcap, scap, e4⟩ := parseCapture_sound _ _ _ h2
              obtain ⟨w3, hw3, e5⟩ := expectC_sound _ _ _ h3
              refine ⟨.seq w1 w2 citems (some (wt, ccap)) w3, ⟨hw1, hw2, hitems, ⟨hwt, hcap⟩, hw3⟩,
                by simp [CFSpec.strip, stripTail, sitems, scap], ?_⟩
              rw [e0, e1, e2, e3, e4, e5]
              simp [CFSpec.render, renderTail]
        · rename_i r5 heq3
          obtain ⟨w3, hw3, e3⟩ := ws_split_eq r4 _ heq3
          simp only [Option.some.injEq, Prod.mk.injEq] at h
          obtain ⟨rfl, rfl⟩ := h
          refine ⟨.seq w1 w2 citems none w3, ⟨hw1, hw2, hitems, trivial, hw3⟩,
            by simp [CFSpec.strip, stripTail, sitems], ?_⟩
          rw [e0, e1, e2, e3]
          simp [CFSpec.render, renderTail]
        · cases h
    · cases h1 : parseValue f t with
      | none => simp [h1] at h
      | some x =>
        obtain ⟨v, r3⟩ := x
        simp only [h1, Option.some.injEq, Prod.mk.injEq] at h
        obtain ⟨rfl, rfl⟩ := h
        obtain ⟨cv, hv, sv, e1⟩ := ih.2.2.2.2 _ _ _ h1
        refine ⟨.val w1 cv, ⟨hw1, hv⟩, by simp [CFSpec.strip, sv], ?_⟩
        rw [e0, e1]
        simp [CFSpec.render]
  · simp only [Option.some.injEq, Prod.mk.injEq] at h
    obtain ⟨rfl, rfl⟩ := h
    exact ⟨.any, trivial, rfl, rfl⟩

theorem items_step (f : Nat) (ih : SoundAt f) (s : Str) (p : Items) (r : Str)
    (h : parseItems (f + 1) s = some (p, r)) :
    ∃ c : CItems, c.OK ∧ c.strip = p ∧ s = c.render ++ r := by
  unfold parseItems at h
  split at h
  · cases h1 : parseValue f s with
    | none => simp [h1] at h
    | some x =>
      obtain ⟨v, r1⟩ := x
      cases h2 : parseCapture r1 with
      | none => simp [h1, h2] at h
      | some y =>
        obtain ⟨cap, r2⟩ := y
        cases h3 : parseItems f r2 with
        | none => simp [h1, h2, h3] at h
        | some z =>
          obtain ⟨rest, r3⟩ := z
          simp only [h1, h2, h3, Option.some.injEq, Prod.mk.injEq] at h
          obtain ⟨rfl, rfl⟩ := h
          obtain ⟨cv, hv, sv, e1⟩ := ih.2.2.2.2 _ _ _ h1
          obtain ⟨ccap, hcap, scap, e2⟩ := parseCapture_sound _ _ _ h2
          obtain ⟨crest, hrest, srest, e3⟩ := ih.2.2.2.1 _ _ _ h3
          refine ⟨.cons cv ccap crest, ⟨hv, hcap, hrest⟩, by simp [CItems.strip, sv, scap, srest], ?_⟩
          rw [e1, e2, e3]
          simp [CItems.render]
  · simp only [Option.some.injEq, Prod.mk.injEq] at h
    obtain ⟨rfl, rfl⟩ := h
    exact ⟨.nil, trivial, rfl, rfl⟩

theorem value_step (f : Nat) (ih : SoundAt f) (s : Str) (p : PVal) (r : Str)
    (h : parseValue (f + 1) s = some (p, r)) :
    ∃ c : CPVal, c.OK ∧ c.strip = p ∧ s = c.render ++ r := by
  unfold parseValue at h
  split at h
  · rename_i t heq
    obtain ⟨w, hw, e0⟩ := ws_split_eq s _ heq
    cases h1 : parseTree f ('(' :: t) with
    | none => simp [h1] at h
    | some x =>
      obtain ⟨q, r'⟩ := x
      simp only [h1, Option.some.injEq, Prod.mk.injEq] at h
      obtain ⟨rfl, rfl⟩ := h
      obtain ⟨c, hc, sc, e1⟩ := ih.1 _ _ _ h1
      obtain ⟨c', hc', sc', e2⟩ := pat_prepend w c hw hc
      refine ⟨.tree c', hc', by simp [CPVal.strip, sc', sc], ?_⟩
      rw [e0, e1, CPVal.render, e2, List.append_assoc]
  · rename_i t heq
    obtain ⟨w, hw, e0⟩ := ws_split_eq s _ heq
    cases h1 : lexKey t with
    | none => simp [h1] at h
    | some x =>
      obtain ⟨k, r'⟩ := x
      simp only [h1, Option.some.injEq, Prod.mk.injEq] at h
      obtain ⟨rfl, rfl⟩ := h
      obtain ⟨w2, hw2, hk, e1⟩ := lexKey_sound _ _ _ h1
      refine ⟨.var w w2 k, ⟨hw, hw2, hk⟩, rfl, ?_⟩
      rw [e0, e1]
      simp [CPVal.render]
  · rename_i t heq
    obtain ⟨w, hw, e0⟩ := ws_split_eq s _ heq
    cases h1 : scanStr t [] with
    | none => simp [h1] at h
    | some x =>
      obtain ⟨body, r'⟩ := x
      simp only [h1, Option.some.injEq, Prod.mk.injEq] at h
      obtain ⟨rfl, rfl⟩ := h
      obtain ⟨b, hb, e1, e2⟩ := scanStr_sound _ _ _ _ h1
      simp only [List.reverse_nil, List.nil_append] at e1
      subst e1
      refine ⟨.re w body, ⟨hw, hb⟩, rfl, ?_⟩
      rw [e0, e2]
      simp [CPVal.render]
  · rename_i t heq
    obtain ⟨w, hw, e0⟩ := ws_split_eq s _ heq
    simp only [Option.some.injEq, Prod.mk.injEq] at h
    obtain ⟨rfl, rfl⟩ := h
    refine ⟨.none w, hw, rfl, ?_⟩
    rw [e0]
    simp [CPVal.render]
  · cases h

theorem soundAt : ∀ f, SoundAt f
  | 0 => soundAt_zero
  | f + 1 =>
    have ih := soundAt f
    ⟨tree_step f ih, fields_step f ih, fspec_step f ih, items_step f ih, value_step f ih⟩

/-- soundness of `tree` for every fuel and every continuation: what the parser consumes is a rendering of
the tree it returns -/
theorem parseTree_sound (f : Nat) (s : Str) (p : Pat) (r : Str) (h : parseTree f s = some (p, r)) :
    ∃ c : CPat, c.OK ∧ c.strip = p ∧ s = c.render ++ r := (soundAt f).1 s p r h

/-! ### the theorems -/

theorem allWS_of_skip_empty (r : Str) (h : (skipWS r).isEmpty = true) : AllWS r := by
  obtain ⟨hw, hs⟩ := ws_split r
  have : skipWS r = [] := by simpa using h
  rw [this, List.append_nil] at hs
  rw [hs]; exact hw

/-- **parser soundness**: a text the pattern parser accepts IS a sentence of the grammar, and the tree
returned is the tree of that sentence -/
theorem parse_sound (s : Str) (p : Pat) (h : parsePattern s = some p) : PatRenders p s := by
  unfold parsePattern at h
  split at h
  · cases h
  · rename_i q rest hq
    split at h
    · rename_i hend
      injection h with h
      subst h
      obtain ⟨c, hc, sc, e⟩ := parseTree_sound _ _ _ _ hq
      exact ⟨c, rest, hc, allWS_of_skip_empty rest hend, sc, e⟩
    · cases h

/-- completeness, for the same relation (this is `parse_render`) -/
theorem parse_complete (s : Str) (p : Pat) (h : PatRenders p s) : parsePattern s = some p := by
  obtain ⟨c, wEnd, hc, hw, rfl, rfl⟩ := h
  exact parse_render c wEnd hc hw

/-- **accepted by the parser ⇔ a sentence of the documented grammar** (with its tree) -/
theorem parsePattern_iff (s : Str) (p : Pat) : parsePattern s = some p ↔ PatRenders p s :=
  ⟨parse_sound s p, parse_complete s p⟩

/-- syntax error ⇔ the text is no sentence of the grammar -/
theorem parsePattern_none_iff (s : Str) : parsePattern s = none ↔ ¬ ∃ p, PatRenders p s := by
  constructor
  · rintro h ⟨p, hp⟩
    rw [parse_complete s p hp] at h; cases h
  · intro h
    cases hp : parsePattern s with
    | none => rfl
    | some p => exact absurd ⟨p, parse_sound s p hp⟩ h

/-- **the grammar is unambiguous**: a text is a rendering of at most one syntax tree -/
theorem renders_unique (s : Str) (p p' : Pat) (h : PatRenders p s) (h' : PatRenders p' s) : p = p' := by
  have e := parse_complete s p h
  rw [parse_complete s p' h'] at e
  injection e with e
  exact e.symm

/-- two derivations with the same text have the same tree (unambiguity on concrete syntax trees) -/
theorem render_inj_strip (c c' : CPat) (w w' : Str) (hc : c.OK) (hc' : c'.OK) (hw : AllWS w) (hw' : AllWS w')
    (h : c.render ++ w = c'.render ++ w') : c.strip = c'.strip :=
  renders_unique (c.render ++ w) _ _ ⟨c, w, hc, hw, rfl, rfl⟩ ⟨c', w', hc', hw', rfl, h⟩

/-- **compiled ⇔ the text is a rendering of a well-formed tree** -/
theorem compilePattern_ok_iff (K : CEnv) (s : Str) :
    (∃ m, compilePattern K s = .ok m) ↔ ∃ p, PatRenders p s ∧ p.WF K [] := by
  constructor
  · rintro ⟨m, hm⟩
    cases hp : parsePattern s with
    | none => simp [compilePattern, hp] at hm
    | some p =>
      refine ⟨p, parse_sound s p hp, (accepts_iff_wf K p).mp ?_⟩
      cases hc : compile K p with
      | ok m' => exact ⟨m', rfl⟩
      | error e => simp [compilePattern, hp, hc] at hm
  · rintro ⟨p, hr, hwf⟩
    obtain ⟨m, hm⟩ := (accepts_iff_wf K p).mpr hwf
    exact ⟨m, by simp only [compilePattern, parse_complete s p hr, hm]⟩

/-- the matcher a compiled text denotes is the matcher of its (unique) tree -/
theorem compilePattern_ok_matcher (K : CEnv) (s : Str) (m : Matcher) (h : compilePattern K s = .ok m) :
    ∃ p, PatRenders p s ∧ p.WF K [] ∧ compile K p = .ok m := by
  cases hp : parsePattern s with
  | none => simp [compilePattern, hp] at h
  | some p =>
    cases hc : compile K p with
    | ok m' =>
      simp only [compilePattern, hp, hc, Except.ok.injEq] at h
      subst h
      exact ⟨p, parse_sound s p hp, (accepts_iff_wf K p).mp ⟨m', hc⟩, hc⟩
    | error e => simp [compilePattern, hp, hc] at h

/-- **syntax error ⇔ the text is not a sentence of the grammar** -/
theorem compilePattern_syntax_iff (K : CEnv) (s : Str) :
    compilePattern K s = .error .syntax ↔ ¬ ∃ p, PatRenders p s := by
  rw [← parsePattern_none_iff]
  cases hp : parsePattern s with
  | none => simp [compilePattern, hp]
  | some p =>
    cases hc : compile K p with
    | ok m => simp [compilePattern, hp, hc]
    | error e => simp [compilePattern, hp, hc]

/-- **interpreter definition error ⇔ the text is a rendering of an ill-formed tree** (and the error is
never the `RuntimeError` one) -/
theorem compilePattern_interp_iff (K : CEnv) (s : Str) :
    (∃ e, compilePattern K s = .error (.interp e)) ↔ ∃ p, PatRenders p s ∧ ¬ p.WF K [] := by
  constructor
  · rintro ⟨e, he⟩
    cases hp : parsePattern s with
    | none => simp [compilePattern, hp] at he
    | some p =>
      refine ⟨p, parse_sound s p hp, fun hwf => ?_⟩
      obtain ⟨m, hm⟩ := (accepts_iff_wf K p).mpr hwf
      simp [compilePattern, hp, hm] at he
  · rintro ⟨p, hr, hill⟩
    obtain ⟨e, he⟩ := rejects_illformed K p hill
    exact ⟨e, by simp only [compilePattern, parse_complete s p hr, he]⟩

/-- **the exact classification of ARBITRARY text**: exactly one of
(1) a rendering of a well-formed tree, compiled to that tree's matcher;
(2) no sentence of the grammar, syntax error;
(3) a rendering of an ill-formed tree, rejected by the interpreter with a non-`runtime` error -/
theorem compilePattern_decides (K : CEnv) (s : Str) :
    (∃ p m, PatRenders p s ∧ p.WF K [] ∧ compile K p = .ok m ∧ compilePattern K s = .ok m)
    ∨ ((¬ ∃ p, PatRenders p s) ∧ compilePattern K s = .error .syntax)
    ∨ (∃ p e, PatRenders p s ∧ ¬ p.WF K [] ∧ e ≠ .runtime ∧ compile K p = .error e
        ∧ compilePattern K s = .error (.interp e)) := by
  cases hp : parsePattern s with
  | none =>
    exact Or.inr (Or.inl ⟨(parsePattern_none_iff s).mp hp, by simp only [compilePattern, hp]⟩)
  | some p =>
    have hr := parse_sound s p hp
    cases hc : compile K p with
    | ok m =>
      exact Or.inl ⟨p, m, hr, (accepts_iff_wf K p).mp ⟨m, hc⟩, hc, by simp only [compilePattern, hp, hc]⟩
    | error e =>
      refine Or.inr (Or.inr ⟨p, e, hr, ?_, ?_, hc, by simp only [compilePattern, hp, hc]⟩)
      · intro hwf
        obtain ⟨m, hm⟩ := (accepts_iff_wf K p).mpr hwf
        rw [hm] at hc; cases hc
      · rintro rfl; exact compile_no_runtime K p hc

/-- white space is irrelevant, stated on arbitrary texts: two texts that render the same tree compile
alike -/
theorem renders_same_compile (K : CEnv) (s s' : Str) (p : Pat) (h : PatRenders p s) (h' : PatRenders p s') :
    compilePattern K s = compilePattern K s' := by
  simp only [compilePattern, parse_complete s p h, parse_complete s' p h']

/-! ### non-vacuity -/
section Examples
-- `(T@i="a\"b"->c)` is accepted, hence (by `parse_sound`) a rendering of the tree returned
def exText : Str := ['(', 'T', '@', 'i', '=', '"', 'a', '\\', '"', 'b', '"', '-', '>', 'c', ' ', ')', ' ']
def exTree : Pat := .mk (.names ['T'] []) (.cons ['i'] (.val (.re ['a', '\\', '"', 'b'])) (some ['c']) .nil)
theorem exText_parses : (match parsePattern exText with | some _ => true | none => false) = true := by decide
example : ∃ p, PatRenders p exText := by
  cases h : parsePattern exText with
  | none => have := exText_parses; rw [h] at this; cases this
  | some p => exact ⟨p, parse_sound _ _ h⟩
-- the hypothesis of `renders_unique` / `parse_complete` is satisfiable: `exC` of C17Pattern
example : PatRenders exC.strip (exC.render ++ [' ']) :=
  ⟨exC, [' '], by
    simp [exC, CPat.OK, CFields.OK, CFSpec.OK, CItems.OK, CPVal.OK, CClass.OK, CCap.OK, altsOK, tailOK, AllWS, isWS]
    exact ⟨⟨'T', [], by decide⟩, ⟨'i', [], by decide⟩,
      ⟨⟨⟨⟨'L', [], by decide⟩, ⟨'T', [], by decide⟩⟩, ⟨[], 'a', by decide⟩⟩, ⟨[], 'r', by decide⟩⟩, ⟨[], 'c', by decide⟩⟩,
    by simp [AllWS, isWS], rfl, rfl⟩
-- texts that are not sentences: rejected with the syntax error (`compilePattern_syntax_iff`, right to left)
example : outcome (compilePattern C08.exK ['(', 'T', '@', 'i', '=', 'N', 'o', 'n', ')']) = 1 := by decide
example : outcome (compilePattern C08.exK ['(', 'T', '@', 'i', '-', '>', '_', ')']) = 1 := by decide
example : outcome (compilePattern C08.exK ['(', 'T', ')', 'x']) = 1 := by decide
end Examples

end C17
end PyOak

#print axioms PyOak.C17.parse_sound
#print axioms PyOak.C17.parsePattern_iff
#print axioms PyOak.C17.renders_unique
#print axioms PyOak.C17.compilePattern_decides
