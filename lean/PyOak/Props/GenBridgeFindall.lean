/-
Bridge for the top-down search: the hand-written model of `ASTXpath.findall` (Model/XPath.lean: `findFirst`, `findStep`,
`findallPos`, `findall`) is the definition GENERATED from the source (Gen/KernelsFindall.lean, harness/py2lean_x.py).

The generated function is polymorphic in the node type and takes its primitives as a record (`GenF.Py`).  Here they are
instantiated over `Option Node` (`none` = the `_DUMMY_XPATH_ROOT` object built around `root`, which the model never
materialises): its only child is `root`, `x is dummy_root` holds of `none` only, `x.dfs()` is the model's `dfsImpl` with
the defaults (tied to the generated `dfs` by C05: `dfs_defaults_eq_gen`), dict keys compare by object identity of node
and parent plus field and index (`XPos.key`).

  gen_unfold            the generated term, with its three nested folds named (by `rfl`)
  findStep_eq_gen       one round of the work list over positions of real nodes  = `findStep`
  findFirst_eq_gen      the first round, from the dummy root (`_unwrap` at work)  = `findFirst`
  findall_eq_gen        generated findall = (model `findall`, no exception) for every non-empty element list, every tree
  findall_nil_eq_gen    on an empty element list the source raises UnboundLocalError (the model answers []; no parsed xpath
                        has an empty list: `parseSteps` yields at least `self`)
`ASTXpath` has no `find` method in this version of the library (only `findall` and `match`): nothing to tie there.
-/
import PyOak.Gen.KernelsFindall
import PyOak.Props.GenBridge
import PyOak.Model.XPath
namespace PyOak.GenBridgeFindall
open PyOak PyOak.GenK

/-- node objects as the generated function sees them: `none` is the dummy root -/
abbrev ON := Option Node
abbrev Info := NodeTraversalInfo ON

/-- a position of the model as the record the source builds -/
def ofX (p : XPos) : Info :=
  { node := some p.node, parent := p.parent.map some, field := p.edge.map (fun e => ⟨e.field⟩),
    findex := (p.edge.bind (·.idx)).map Int.ofNat }

def childR : FieldR := ⟨['c', 'h', 'i', 'l', 'd']⟩

/-- the dict key of a record: identity of node and parent, field, index -/
def kOf (t : Info) : Option Nat × Option (Option Nat) × Option FieldR × Option Int :=
  (t.node.map Node.uid, t.parent.map (·.map Node.uid), t.field, t.findex)

/-- `x.dfs()` with the default arguments, in the model -/
def dfsDefault (n : Node) : List Item := dfsImpl (fun _ => false) (fun _ => true) false n

/-- the primitives, for the tree under `root` wrapped in `_DUMMY_XPATH_ROOT(root)` -/
def pyOf (root : Node) : GenF.Py ON where
  dummy_root _ := none
  is_ a b := match a, b with
    | none, none => true
    | some x, some y => x.uid == y.uid
    | _, _ => false
  child_items n := match n with
    | none => [(some root, childR, none)]
    | some n => n.edges.map (fun (c, e) => (some c, ⟨e.field⟩, e.idx.map Int.ofNat))
  dfs n := match n with
    | none => { node := some root, parent := some none, field := some childR, findex := none }
        :: (dfsDefault root).map (fun it => ofX (XPos.ofItem it))
    | some n => (dfsDefault n).map (fun it => ofX (XPos.ofItem it))
  key_eq a b := kOf a == kOf b

/-- the element test on records of real nodes -/
def okOf (t : Info) (el : XElem) : Bool :=
  match t.node with
  | none => false
  | some n => GenK.match_node_element Node.isInst
      { node := n, parent := t.parent.map (fun _ => n), field := t.field, findex := t.findex } (GenBridge.toEl el)

theorem okOf_ofX (p : XPos) (el : XElem) : okOf (ofX p) el = matchElem p.node p.edge el := by
  rw [GenBridge.matchElem_eq_gen p.node (p.parent.map (fun _ => p.node)) p.edge el]
  simp [okOf, ofX, GenBridge.toInfo, GenK.match_node_element]

/-! ### the generated term with its folds named -/

variable {E : Type}

/-- `if _match_node_element(c_info, el): if c_info not in new_work: new_work[c_info] = None` -/
def gIns (py : GenF.Py ON) (ok : Info → E → Bool) (el : E) (nw : List Info) (c : Info) : List Info :=
  if ok c el then (if !(nw.any (fun k => py.key_eq k c)) then nw ++ [c] else nw) else nw

/-- `_unwrap` -/
def gUnwrap (py : GenF.Py ON) (dummy : ON) (c : Info) : Info :=
  if (match c.parent with | none => false | some p => py.is_ p dummy) then
    { node := c.node, parent := none, field := none, findex := none } else c

/-- the body of `for el in self._elements` : the new work list -/
def gRound (py : GenF.Py ON) (ok : Info → E → Bool) (aw : E → Bool) (dummy : ON) (work : List Info) (el : E) : List Info :=
  work.foldl (fun nw n_info =>
    if aw el then ((py.dfs n_info.node).map (gUnwrap py dummy)).foldl (gIns py ok el) nw
    else (py.child_items n_info.node).foldl (fun nw (c, f, i) =>
      gIns py ok el nw (gUnwrap py dummy { node := c, parent := some n_info.node, field := some f, findex := i })) nw) []

theorem gen_unfold (py : GenF.Py ON) (ok : Info → E → Bool) (aw : E → Bool) (els : List E) (root : ON) :
    GenF.findall py ok aw els root =
      match els.foldl (fun ((_, work) : Option (List Info) × List Info) el =>
          (some (gRound py ok aw (py.dummy_root root) work el), gRound py ok aw (py.dummy_root root) work el))
          (none, [{ node := py.dummy_root root, parent := none, field := none, findex := none }]) with
      | (nw, _) => match nw with
        | none => ([], some GenF.Err.UnboundLocalError)
        | some nw => (nw.map (·.node), none) := by
  delta gRound gIns gUnwrap
  simp only [GenF.findall]
  grind

/-! ### the primitives on records of real nodes -/

theorem key_ofX (root : Node) (p q : XPos) : (pyOf root).key_eq (ofX p) (ofX q) = (p.key == q.key) := by
  obtain ⟨n, par, e⟩ := p
  obtain ⟨n', par', e'⟩ := q
  rw [Bool.eq_iff_iff]
  rcases e with _ | ⟨f, _ | i⟩ <;> rcases e' with _ | ⟨f', _ | i'⟩ <;> cases par <;> cases par' <;>
    simp [pyOf, kOf, ofX, XPos.key] <;> (intros; omega)

theorem gIns_ofX (root : Node) (el : XElem) (nw : List XPos) (c : XPos) :
    gIns (pyOf root) okOf el (nw.map ofX) (ofX c)
      = (if matchElem c.node c.edge el then insertPos nw c else nw).map ofX := by
  simp only [gIns, okOf_ofX, insertPos, List.any_map, Function.comp_def, key_ofX]
  by_cases h1 : matchElem c.node c.edge el <;> simp only [h1, if_true, if_false, Bool.false_eq_true]
  by_cases h2 : (nw.any fun q => q.key == c.key) <;> simp [h2]

theorem gUnwrap_ofX (root : Node) (p : XPos) : gUnwrap (pyOf root) none (ofX p) = ofX p := by
  obtain ⟨n, par, e⟩ := p
  cases par <;> simp [gUnwrap, ofX, pyOf]

theorem foldl_map_rel {A B X Y : Type} (f : A → B) (g : X → Y) (sA : List A → X → List A) (sB : List B → Y → List B)
    (h : ∀ acc x, sB (acc.map f) (g x) = (sA acc x).map f) :
    ∀ (xs : List X) (acc : List A), (xs.map g).foldl sB (acc.map f) = (xs.foldl sA acc).map f := by
  intro xs
  induction xs with
  | nil => intro acc; rfl
  | cons x r ih => intro acc; simp only [List.map_cons, List.foldl_cons, h, ih]

theorem foldl_rel {A B X : Type} (f : A → B) (sA : List A → X → List A) (sB : List B → X → List B)
    (h : ∀ acc x, sB (acc.map f) x = (sA acc x).map f) :
    ∀ (xs : List X) (acc : List A), xs.foldl sB (acc.map f) = (xs.foldl sA acc).map f := by
  intro xs
  induction xs with
  | nil => intro acc; rfl
  | cons x r ih => intro acc; simp only [List.foldl_cons, h, ih]

theorem pyOf_child_some (root n : Node) :
    (pyOf root).child_items (some n) = n.edges.map (fun (c, e) => (some c, ⟨e.field⟩, e.idx.map Int.ofNat)) := rfl
theorem pyOf_child_none (root : Node) : (pyOf root).child_items none = [(some root, childR, none)] := rfl
theorem pyOf_dfs_some (root n : Node) :
    (pyOf root).dfs (some n) = (dfsDefault n).map (fun it => ofX (XPos.ofItem it)) := rfl
theorem pyOf_dfs_none (root : Node) :
    (pyOf root).dfs none = { node := some root, parent := some none, field := some childR, findex := none }
        :: (dfsDefault root).map (fun it => ofX (XPos.ofItem it)) := rfl
theorem ofX_node (p : XPos) : (ofX p).node = some p.node := rfl

/-! ### one round of the work list -/

/-- the inner loops below one work item that is a real node -/
theorem inner_eq_gen (root : Node) (el : XElem) (acc : List XPos) (n : Node) :
    (if el.anywhere then (((pyOf root).dfs (some n)).map (gUnwrap (pyOf root) none)).foldl (gIns (pyOf root) okOf el) (acc.map ofX)
      else ((pyOf root).child_items (some n)).foldl (fun nw (c, f, i) =>
        gIns (pyOf root) okOf el nw (gUnwrap (pyOf root) none { node := c, parent := some (some n), field := some f, findex := i }))
          (acc.map ofX))
    = ((candidates n el.anywhere).foldl (fun nw c =>
        if matchElem c.node c.edge el then insertPos nw c else nw) acc).map ofX := by
  cases ha : el.anywhere
  · simp only [Bool.false_eq_true, if_false, candidates, pyOf_child_some, Node.items, List.map_map, List.foldl_map]
    refine foldl_rel ofX _ _ ?_ _ _
    intro acc ce
    have h := gIns_ofX root el acc ⟨ce.1, some n, some ce.2⟩
    have hu := gUnwrap_ofX root ⟨ce.1, some n, some ce.2⟩
    simp only [ofX, Option.map_some, Option.bind_some] at h hu
    simp only [hu, Function.comp_def, XPos.ofItem]
    exact h
  · simp only [if_true, candidates, pyOf_dfs_some, dfsDefault, List.map_map, List.foldl_map]
    refine foldl_rel ofX _ _ ?_ _ _
    intro acc it
    simp only [Function.comp_def, gUnwrap_ofX]
    exact gIns_ofX root el acc (XPos.ofItem it)

/-- a round over positions of real nodes is the model's `findStep` -/
theorem findStep_eq_gen (root : Node) (work : List XPos) (el : XElem) :
    gRound (pyOf root) okOf (·.anywhere) none (work.map ofX) el = (findStep work el).map ofX := by
  unfold gRound findStep
  rw [List.foldl_map]
  exact foldl_rel ofX _ _ (fun acc w => inner_eq_gen root el acc w.node) work []

theorem ins_fold (root : Node) (el : XElem) (cs acc : List XPos) :
    (cs.map ofX).foldl (gIns (pyOf root) okOf el) (acc.map ofX)
      = (cs.foldl (fun nw c => if matchElem c.node c.edge el then insertPos nw c else nw) acc).map ofX := by
  rw [List.foldl_map]
  exact foldl_rel ofX _ _ (fun acc c => gIns_ofX root el acc c) cs acc

/-- `_unwrap` on the position the dummy root gives `root`: no parent, field or index -/
theorem gUnwrap_dummy (root : Node) (f : Option FieldR) (i : Option Int) :
    gUnwrap (pyOf root) none { node := some root, parent := some none, field := f, findex := i } = ofX ⟨root, none, none⟩ := by
  simp [gUnwrap, pyOf, ofX]

/-- the record of the dummy root the work list starts with -/
def dummyInfo : Info := { node := none, parent := none, field := none, findex := none }

/-- the first round, from the dummy root, is the model's `findFirst` -/
theorem findFirst_eq_gen (root : Node) (el : XElem) :
    gRound (pyOf root) okOf (·.anywhere) none [dummyInfo] el = (findFirst root el).map ofX := by
  unfold gRound findFirst
  simp only [List.foldl_cons, List.foldl_nil, dummyInfo]
  cases ha : el.anywhere
  · simp only [Bool.false_eq_true, if_false, pyOf_child_none, List.foldl_cons, List.foldl_nil, gUnwrap_dummy]
    exact gIns_ofX root el [] ⟨root, none, none⟩
  · simp only [if_true, pyOf_dfs_none, List.map_cons, gUnwrap_dummy, List.map_map]
    have h := ins_fold root el (⟨root, none, none⟩ :: candidates root true) []
    simp only [List.map_cons, candidates, if_true, List.map_map, List.map_nil] at h
    simpa only [Function.comp_def, gUnwrap_ofX, dfsDefault, candidates, List.foldl_cons, if_true, List.map_map] using h

theorem pyOf_dummy (root : Node) (x : ON) : (pyOf root).dummy_root x = none := rfl

/-- the rounds after the first -/
theorem rounds_eq_gen (root : Node) : ∀ (rest : List XElem) (X : List XPos),
    rest.foldl (fun ((_, work) : Option (List Info) × List Info) el =>
        (some (gRound (pyOf root) okOf (·.anywhere) none work el), gRound (pyOf root) okOf (·.anywhere) none work el))
      (some (X.map ofX), X.map ofX)
    = (some ((rest.foldl findStep X).map ofX), (rest.foldl findStep X).map ofX) := by
  intro rest
  induction rest with
  | nil => intro X; rfl
  | cons el r ih => intro X; simp only [List.foldl_cons, findStep_eq_gen, ih]

/-- **the tie**: for every tree and every non-empty element list the function generated from `ASTXpath.findall` ends
without an exception and yields exactly the model's `findall` (no fuel: the source has no `while` loop; the fuel of
`x.dfs()` is the one of C05) -/
theorem findall_eq_gen (root : Node) (el : XElem) (rest : List XElem) :
    GenF.findall (pyOf root) okOf (·.anywhere) (el :: rest) (some root) = ((findall (el :: rest) root).map some, none) := by
  rw [gen_unfold]
  simp only [List.foldl_cons, pyOf_dummy]
  have h := findFirst_eq_gen root el
  simp only [dummyInfo] at h
  rw [h, rounds_eq_gen]
  simp [findall, findallPos, List.map_map, Function.comp_def, ofX]

/-- positions too (what `new_work` holds at the end) are the model's `findallPos`: stated through the yielded nodes above;
on an EMPTY element list the source reads the unbound `new_work` -/
theorem findall_nil_eq_gen (root : Node) :
    GenF.findall (pyOf root) okOf (·.anywhere) ([] : List XElem) (some root) = ([], some GenF.Err.UnboundLocalError)
      ∧ findall [] root = [] := by
  constructor
  · rw [gen_unfold]; rfl
  · rfl

end PyOak.GenBridgeFindall
