import PyOak.Props.C08
import PyOak.Props.C08Rel
import PyOak.Props.C08Captures
