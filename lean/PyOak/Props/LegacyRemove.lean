/-
`replace_with(None)` on a receiver that has a parent: `_replace_child(old, field, index, None)` removes the
child from the parent's field, shifts the indexes of the later siblings down, and walks the content ids up.
-/
import PyOak.Props.LegacyReplace
namespace PyOak.Legacy
open LState

/-! ### positions in a sequence field -/

theorem posFrom_mem_iff (name : Str) : ∀ (l : List Nat) (j : Nat) (e : Nat × Str × Option Nat),
    e ∈ posFrom name j l ↔ ∃ m x, l[m]? = some x ∧ e = (x, name, some (j + m)) := by
  intro l
  induction l with
  | nil => intro j e; simp [posFrom]
  | cons c r ih =>
    intro j e
    simp only [posFrom, List.mem_cons, ih]
    constructor
    · rintro (h | ⟨m, x, hx, he⟩)
      · exact ⟨0, c, by simp, by simpa using h⟩
      · exact ⟨m + 1, x, by simpa using hx, by rw [he]; simp; omega⟩
    · rintro ⟨m, x, hx, he⟩
      cases m with
      | zero => left; simp at hx; subst hx; simpa using he
      | succ m => right; exact ⟨m, x, by simpa using hx, by rw [he]; simp; omega⟩

/-- the value of the field after the removal -/
def removedKids (kids : List Nat) (idx : Option Nat) : List Nat :=
  match idx with
  | some i => kids.take i ++ kids.drop (i + 1)
  | none => []

/-- the siblings whose index is shifted -/
def shifted (kids : List Nat) (idx : Option Nat) : List Nat :=
  match idx with
  | some i => kids.drop (i + 1)
  | none => []

section
variable (Hc : Str → Str)

/-! ### `shiftDown` -/

theorem shiftDown_lookup (p : Nat) (f : Str) : ∀ (l : List Nat) (s : LState) (k : Str),
    (shiftDown p f s l).lookup k = s.lookup k := by
  intro l; induction l with
  | nil => intro s k; rfl
  | cons c r ih => intro s k; simp only [shiftDown]; rw [ih]; rfl

theorem shiftDown_size (p : Nat) (f : Str) : ∀ (l : List Nat) (s : LState), (shiftDown p f s l).size = s.size := by
  intro l; induction l with
  | nil => intro s; rfl
  | cons c r ih => intro s; simp only [shiftDown]; rw [ih]; rfl

theorem shiftDown_idOf (p : Nat) (f : Str) : ∀ (l : List Nat) (s : LState) (x : Nat),
    (shiftDown p f s l).idOf x = s.idOf x := by
  intro l; induction l with
  | nil => intro s x; rfl
  | cons c r ih => intro s x; simp only [shiftDown]; rw [ih, setParent_idOf]

theorem shiftDown_not_mem (p : Nat) (f : Str) : ∀ (l : List Nat) (s : LState) (x : Nat), x ∉ l →
    (shiftDown p f s l).obj x = s.obj x := by
  intro l; induction l with
  | nil => intro s x _; rfl
  | cons c r ih =>
    intro s x hx
    simp only [List.mem_cons, not_or] at hx
    simp only [shiftDown]
    rw [ih _ x hx.2, setParent_obj]; simp [hx.1]

theorem shiftDown_mem (p : Nat) (f : Str) : ∀ (l : List Nat) (s : LState), l.Nodup → ∀ x ∈ l,
    (shiftDown p f s l).obj x =
      { s.obj x with pid := some (s.idOf p), pfield := some f, pindex := (s.obj x).pindex.map (· - 1) } := by
  intro l; induction l with
  | nil => intro s _ x hx; cases hx
  | cons c r ih =>
    intro s hnd x hx
    simp only [List.nodup_cons] at hnd
    simp only [shiftDown]
    rcases List.mem_cons.mp hx with rfl | hx
    · rw [shiftDown_not_mem p f r _ x hnd.1, setParent_obj]; simp
    · have hne : x ≠ c := fun h => hnd.1 (h ▸ hx)
      rw [ih _ hnd.2 x hx, setParent_idOf, setParent_obj]; simp [hne]

theorem nodup_of_index_inj {l : List Nat} (g : Nat → Nat) (h : ∀ m x, l[m]? = some x → g x = m) : l.Nodup := by
  rw [List.nodup_iff_pairwise_ne, List.pairwise_iff_getElem]
  intro i j hi hj hij heq
  have h1 := h i l[i] (List.getElem?_eq_getElem hi)
  have h2 := h j l[j] (List.getElem?_eq_getElem hj)
  rw [heq] at h1; omega

/-! ### the state after the removal -/

/-- the field assignment and the index shift of `_replace_child(old, field, index, None)` -/
def removed (s : LState) (p : Nat) (f : Str) (idx : Option Nat) : LState :=
  shiftDown p f (setField s p f (removedKids (fieldKids s p f) idx)) (shifted (fieldKids s p f) idx)

theorem replaceChild_none (fuel : Nat) (s : LState) (p u : Nat) (f : Str) (idx : Option Nat) :
    replaceChild Hc fuel s p u f idx none = (removed s p f idx).resetContentId Hc fuel p := by
  unfold replaceChild removed removedKids shifted
  cases idx <;> simp [shiftDown]

/- NOT YET PROVED (the remaining step of `replace_with(None)` on a receiver with a parent):

  theorem removed_invX (hI : InvX Hc (Hole p (u, f, idx)) NoY s) (hp : Att s p)
      (he : (u, f, idx) ∈ (s.obj p).kidsPos) (hudet : ¬ Att s u) :
      InvX Hc NoX (fun x => x = p) (removed s p f idx)

  Plan: the child positions of `p` after the removal are the old positions of the other fields plus, for the
  field `f`, `(x, f, some m)` with `x = kids[m]` for `m < i` and `x = kids[m+1]` for `m ≥ i` (`posFrom_mem_iff`,
  `List.getElem?_eraseIdx`); the shifted siblings are exactly the `kids[k]`, `k > i`, pairwise distinct because the
  invariant gives them the indexes `k` (`nodup_of_index_inj`), so `shiftDown_mem` gives them `(p, f, k-1)`.
  With that, `resetContentId_inv` finishes as in `replaceChild_some_inv`. -/

end

end PyOak.Legacy
