/-
`replace_with(None)` on a receiver that has a parent: `_replace_child(old, field, index, None)` removes the
child from the parent's field, shifts the indexes of the later siblings down, and walks the content ids up.

  kidsPos_removed              the child positions of the parent after the removal
  removed_invX                 the invariant holds afterwards except, possibly, for the parent's content id
  replaceChild_none_inv        ... and the `_reset_content_id` walk repairs that
  replaceWith_inv_parent_none  `replace_with(None)` on a receiver with a parent preserves the invariant
-/
import PyOak.Props.LegacyReplace
import PyOak.Props.LegacyCycle
namespace PyOak.Legacy
open LState

/-! ### positions in a sequence field -/

theorem posFrom_mem_iff (name : Str) : ∀ (l : List Nat) (j : Nat) (e : Nat × Str × Option Nat),
    e ∈ posFrom name j l ↔ ∃ m x, l[m]? = some x ∧ e = (x, name, some (j + m)) := by
  intro l
  induction l with
  | nil => intro j e; simp [posFrom]
  | cons c r ih =>
    intro j e
    simp only [posFrom, List.mem_cons, ih]
    constructor
    · rintro (h | ⟨m, x, hx, he⟩)
      · exact ⟨0, c, by simp, by simpa using h⟩
      · exact ⟨m + 1, x, by simpa using hx, by rw [he]; simp; omega⟩
    · rintro ⟨m, x, hx, he⟩
      cases m with
      | zero => left; simp at hx; subst hx; simpa using he
      | succ m => right; exact ⟨m, x, by simpa using hx, by rw [he]; simp; omega⟩

/-- the value of the field after the removal -/
def removedKids (kids : List Nat) (idx : Option Nat) : List Nat :=
  match idx with
  | some i => kids.take i ++ kids.drop (i + 1)
  | none => []

/-- the siblings whose index is shifted -/
def shifted (kids : List Nat) (idx : Option Nat) : List Nat :=
  match idx with
  | some i => kids.drop (i + 1)
  | none => []

section
variable (Hc : Str → Str)

/-! ### `shiftDown` -/

theorem shiftDown_lookup (p : Nat) (f : Str) : ∀ (l : List Nat) (s : LState) (k : Str),
    (shiftDown p f s l).lookup k = s.lookup k := by
  intro l; induction l with
  | nil => intro s k; rfl
  | cons c r ih => intro s k; simp only [shiftDown]; rw [ih]; rfl

theorem shiftDown_size (p : Nat) (f : Str) : ∀ (l : List Nat) (s : LState), (shiftDown p f s l).size = s.size := by
  intro l; induction l with
  | nil => intro s; rfl
  | cons c r ih => intro s; simp only [shiftDown]; rw [ih]; rfl

theorem shiftDown_idOf (p : Nat) (f : Str) : ∀ (l : List Nat) (s : LState) (x : Nat),
    (shiftDown p f s l).idOf x = s.idOf x := by
  intro l; induction l with
  | nil => intro s x; rfl
  | cons c r ih => intro s x; simp only [shiftDown]; rw [ih, setParent_idOf]

theorem shiftDown_not_mem (p : Nat) (f : Str) : ∀ (l : List Nat) (s : LState) (x : Nat), x ∉ l →
    (shiftDown p f s l).obj x = s.obj x := by
  intro l; induction l with
  | nil => intro s x _; rfl
  | cons c r ih =>
    intro s x hx
    simp only [List.mem_cons, not_or] at hx
    simp only [shiftDown]
    rw [ih _ x hx.2, setParent_obj]; simp [hx.1]

theorem shiftDown_mem (p : Nat) (f : Str) : ∀ (l : List Nat) (s : LState), l.Nodup → ∀ x ∈ l,
    (shiftDown p f s l).obj x =
      { s.obj x with pid := some (s.idOf p), pfield := some f, pindex := (s.obj x).pindex.map (· - 1) } := by
  intro l; induction l with
  | nil => intro s _ x hx; cases hx
  | cons c r ih =>
    intro s hnd x hx
    simp only [List.nodup_cons] at hnd
    simp only [shiftDown]
    rcases List.mem_cons.mp hx with rfl | hx
    · rw [shiftDown_not_mem p f r _ x hnd.1, setParent_obj]; simp
    · have hne : x ≠ c := fun h => hnd.1 (h ▸ hx)
      rw [ih _ hnd.2 x hx, setParent_idOf, setParent_obj]; simp [hne]

theorem nodup_of_index_inj {l : List Nat} (g : Nat → Nat) (h : ∀ m x, l[m]? = some x → g x = m) : l.Nodup := by
  rw [List.nodup_iff_pairwise_ne, List.pairwise_iff_getElem]
  intro i j hi hj hij heq
  have h1 := h i l[i] (List.getElem?_eq_getElem hi)
  have h2 := h j l[j] (List.getElem?_eq_getElem hj)
  rw [heq] at h1; omega

/-! ### the state after the removal -/

/-- the field assignment and the index shift of `_replace_child(old, field, index, None)` -/
def removed (s : LState) (p : Nat) (f : Str) (idx : Option Nat) : LState :=
  shiftDown p f (setField s p f (removedKids (fieldKids s p f) idx)) (shifted (fieldKids s p f) idx)

theorem replaceChild_none (fuel : Nat) (s : LState) (p u : Nat) (f : Str) (idx : Option Nat) :
    replaceChild Hc fuel s p u f idx none = (removed s p f idx).resetContentId Hc fuel p := by
  unfold replaceChild removed removedKids shifted
  cases idx <;> simp [shiftDown]

/-! ### the child positions of the parent after the removal -/

theorem posFrom_mem_zero (name : Str) (l : List Nat) (x j : Nat) :
    (x, name, some j) ∈ posFrom name 0 l ↔ l[j]? = some x := by
  rw [posFrom_mem_iff]
  constructor
  · rintro ⟨m, y, hy, he⟩
    simp only [Nat.zero_add, Prod.mk.injEq, Option.some.injEq, true_and] at he
    obtain ⟨rfl, rfl⟩ := he; exact hy
  · intro h; exact ⟨j, x, h, by simp⟩

/-- one field: the entries after the removed one move down by one index -/
theorem pos_removed (fl : LField) (idx : Option Nat) (u : Nat) (he : (u, fl.name, idx) ∈ fl.pos)
    (e' : Nat × Str × Option Nat) :
    e' ∈ ({ fl with kids := removedKids fl.kids idx } : LField).pos ↔
      ∃ i m x, idx = some i ∧ e' = (x, fl.name, some m) ∧
        (x, fl.name, some (if m < i then m else m + 1)) ∈ fl.pos := by
  unfold LField.pos at he ⊢
  by_cases hs : fl.kind.isSeq = true
  · simp only [hs, if_true] at he ⊢
    obtain ⟨i, h1, _, _⟩ := posFrom_idx_ge fl.name fl.kids 0 _ he
    simp only at h1; subst h1
    simp only [removedKids, ← List.eraseIdx_eq_take_drop_succ]
    rw [posFrom_mem_iff]
    constructor
    · rintro ⟨m, x, hx, rfl⟩
      refine ⟨i, m, x, rfl, by simp, ?_⟩
      rw [posFrom_mem_zero]
      rw [List.getElem?_eraseIdx] at hx
      split <;> simp_all
    · rintro ⟨i', m, x, hi, rfl, hm⟩
      cases hi
      refine ⟨m, x, ?_, by simp⟩
      rw [posFrom_mem_zero] at hm
      rw [List.getElem?_eraseIdx]
      split <;> simp_all
  · simp only [hs, Bool.false_eq_true, if_false] at he ⊢
    obtain ⟨c, _, hce⟩ := List.mem_map.mp he
    simp only [Prod.mk.injEq] at hce
    have : idx = none := hce.2.2.symm
    subst this
    simp [removedKids]

/-- the whole object -/
theorem kidsPos_removed (o : LObj) (ho : o.wf) (u : Nat) (f : Str) (idx : Option Nat)
    (he : (u, f, idx) ∈ o.kidsPos) (ks : List Nat)
    (hks : ∀ fl ∈ o.fields, fl.name = f → ks = removedKids fl.kids idx) (e' : Nat × Str × Option Nat) :
    e' ∈ ({ o with fields := o.fields.map fun fl => if fl.name = f then { fl with kids := ks } else fl } : LObj).kidsPos ↔
      (e' ∈ o.kidsPos ∧ e'.2.1 ≠ f) ∨
      ∃ i m x, idx = some i ∧ e' = (x, f, some m) ∧ (x, f, some (if m < i then m else m + 1)) ∈ o.kidsPos := by
  unfold LObj.kidsPos at he ⊢
  obtain ⟨fl0, hfl0, he0⟩ := List.mem_flatMap.mp he
  have hn0 : fl0.name = f := (pos_field_name fl0 _ he0).symm
  have uniq : ∀ fl ∈ o.fields, fl.name = f → fl = fl0 := fun fl hfl hname =>
    eq_of_nodup_map (·.name) o.fields ho.1 fl hfl fl0 hfl0 (hname.trans hn0.symm)
  have hpr := pos_removed fl0 idx u (by rw [hn0]; exact he0)
  rw [hn0] at hpr
  simp only [List.mem_flatMap, List.mem_map]
  constructor
  · rintro ⟨fl', ⟨fl, hfl, rfl⟩, hm⟩
    by_cases hname : fl.name = f
    · have := uniq fl hfl hname; subst this
      simp only [hname, if_true] at hm
      rw [hks fl hfl hname] at hm
      obtain ⟨i, m, x, h1, h2, h3⟩ := (hpr e').mp hm
      exact .inr ⟨i, m, x, h1, h2, fl, hfl, h3⟩
    · simp only [hname, if_false] at hm
      exact .inl ⟨⟨fl, hfl, hm⟩, by rw [pos_field_name fl e' hm]; exact hname⟩
  · rintro (⟨⟨fl, hfl, hm⟩, hne⟩ | ⟨i, m, x, h1, h2, fl, hfl, h3⟩)
    · have hname : fl.name ≠ f := by rw [← pos_field_name fl e' hm]; exact hne
      exact ⟨_, ⟨fl, hfl, rfl⟩, by simp only [hname, if_false]; exact hm⟩
    · have hname : fl.name = f := (pos_field_name fl _ h3).symm
      have := uniq fl hfl hname; subst this
      refine ⟨_, ⟨fl, hfl, rfl⟩, ?_⟩
      simp only [hname, if_true]
      rw [hks fl hfl hname]
      exact (hpr e').mpr ⟨i, m, x, h1, h2, h3⟩

/-! ### closing the hole by removal -/

theorem setField_obj (s : LState) (p : Nat) (f : Str) (ks : List Nat) (x : Nat) :
    (setField s p f ks).obj x =
      if x = p then { s.obj p with fields := (s.obj p).fields.map fun fl =>
        if fl.name = f then { fl with kids := ks } else fl } else s.obj x := by
  unfold setField; rw [modify_obj]

/-- after the removal (field assignment + index shift) the invariant holds except, possibly, for the
content id of the parent -/
theorem removed_invX {s : LState} {p u : Nat} {f : Str} {idx : Option Nat}
    (hI : InvX Hc (Hole p (u, f, idx)) NoY s) (hp : Att s p) (he : (u, f, idx) ∈ (s.obj p).kidsPos)
    (hudet : ¬ Att s u) : InvX Hc NoX (fun x => x = p) (removed s p f idx) := by
  obtain ⟨fl0, hfl0, he0⟩ := List.mem_flatMap.mp (show (u, f, idx) ∈ (s.obj p).fields.flatMap LField.pos from he)
  have hn0 : fl0.name = f := (pos_field_name fl0 _ he0).symm
  have hkids : fieldKids s p f = fl0.kids := fieldKids_eq (hI.wf p) hfl0 hn0
  have hwf0 : fl0.wf := (hI.wf p).2 fl0 hfl0
  have in_fl0 : ∀ x j, (x, f, j) ∈ (s.obj p).kidsPos → (x, f, j) ∈ fl0.pos := by
    intro x j hm
    obtain ⟨fl, hfl, hm'⟩ := List.mem_flatMap.mp (show (x, f, j) ∈ (s.obj p).fields.flatMap LField.pos from hm)
    have hname : fl.name = f := (pos_field_name fl _ hm').symm
    have := eq_of_nodup_map (·.name) _ (hI.wf p).1 fl hfl fl0 hfl0 (hname.trans hn0.symm)
    rw [← this]; exact hm'
  have of_fl0 : ∀ e', e' ∈ fl0.pos → e' ∈ (s.obj p).kidsPos := fun e' h =>
    List.mem_flatMap.mpr ⟨fl0, hfl0, h⟩
  -- every entry of the field is the hole or a sequence entry with another index
  have hfield : ∀ x j, (x, f, j) ∈ (s.obj p).kidsPos →
      (x = u ∧ j = idx) ∨ ∃ i m, idx = some i ∧ j = some m ∧ m ≠ i ∧ fl0.kids[m]? = some x ∧
        fl0.kind.isSeq = true := by
    intro x j hm
    have hm0 := in_fl0 x j hm
    have he0' := he0
    unfold LField.pos at hm0 he0'
    by_cases hs : fl0.kind.isSeq = true
    · simp only [hs, if_true] at hm0 he0'
      obtain ⟨i, h1, _, _⟩ := posFrom_idx_ge _ _ 0 _ he0'
      obtain ⟨m, h2, _, _⟩ := posFrom_idx_ge _ _ 0 _ hm0
      simp only at h1 h2; subst h1 h2
      rw [hn0, posFrom_mem_zero] at hm0 he0'
      by_cases hmi : m = i
      · subst hmi; rw [hm0] at he0'; exact .inl ⟨Option.some.inj he0', rfl⟩
      · exact .inr ⟨i, m, rfl, rfl, hmi, hm0, hs⟩
    · simp only [hs, Bool.false_eq_true, if_false] at hm0 he0'
      left
      have hlen : fl0.kids.length ≤ 1 := by
        rcases hwf0 with h | h
        · exact absurd h hs
        · exact h
      obtain ⟨c, hc, hce⟩ := List.mem_map.mp he0'
      obtain ⟨c', hc', hce'⟩ := List.mem_map.mp hm0
      simp only [Prod.mk.injEq] at hce hce'
      obtain ⟨rfl, _, rfl⟩ := hce
      obtain ⟨rfl, _, rfl⟩ := hce'
      refine ⟨?_, rfl⟩
      match hkk : fl0.kids, hc, hc', hlen with
      | [y], hc, hc', _ => simp at hc hc'; rw [hc, hc']
      | _ :: _ :: _, _, _, hl => simp at hl
  -- entries of p other than the hole are consistent
  have old_entry : ∀ e', e' ∈ (s.obj p).kidsPos → e' ≠ (u, f, idx) → KidOk s p e' :=
    fun e' he' hne => hI.down p hp e' he' (fun hx => hne hx.2)
  -- the shifted siblings
  have hshdef : ∀ x, x ∈ shifted (fieldKids s p f) idx ↔
      ∃ i m, idx = some i ∧ i < m ∧ fl0.kids[m]? = some x := by
    intro x
    rw [hkids]
    cases idx with
    | none => simp [shifted]
    | some i =>
      simp only [shifted, List.mem_iff_getElem?, List.getElem?_drop]
      constructor
      · rintro ⟨m', hm'⟩; exact ⟨i, i + 1 + m', rfl, by omega, hm'⟩
      · rintro ⟨i', m, hi, hlt, hm⟩
        cases hi
        exact ⟨m - (i + 1), by rw [show i + 1 + (m - (i + 1)) = m by omega]; exact hm⟩
  have hseq_of_some : ∀ i, idx = some i → fl0.kind.isSeq = true := by
    intro i hi
    rcases hfield u idx he with ⟨_, _⟩ | ⟨_, _, _, _, _, _, hs⟩
    · apply Classical.byContradiction; intro hs
      have he0' := he0
      unfold LField.pos at he0'
      simp only [hs, Bool.false_eq_true, if_false] at he0'
      obtain ⟨c, _, hce⟩ := List.mem_map.mp he0'
      simp only [Prod.mk.injEq] at hce
      rw [hi] at hce; cases hce.2.2
    · exact hs
  have kid_entry : ∀ i m x, idx = some i → fl0.kids[m]? = some x → (x, f, some m) ∈ (s.obj p).kidsPos := by
    intro i m x hi hm
    apply of_fl0
    unfold LField.pos
    simp only [hseq_of_some i hi, if_true]
    rw [hn0, posFrom_mem_zero]; exact hm
  have hshOk : ∀ x ∈ shifted (fieldKids s p f) idx, ∃ i m, idx = some i ∧ i < m ∧ Att s x ∧
      (s.obj x).pid = some (s.idOf p) ∧ (s.obj x).pfield = some f ∧ (s.obj x).pindex = some m := by
    intro x hx
    obtain ⟨i, m, hi, hlt, hm⟩ := (hshdef x).mp hx
    obtain ⟨a, b, c, d⟩ := old_entry _ (kid_entry i m x hi hm) (by
      intro h; simp only [Prod.mk.injEq] at h; rw [hi] at h; have := h.2.2; simp at this; omega)
    exact ⟨i, m, hi, hlt, a, b, c, d⟩
  have hshnd : (shifted (fieldKids s p f) idx).Nodup := by
    rw [hkids]
    cases hidx : idx with
    | none => simp [shifted]
    | some i =>
      simp only [shifted]
      apply nodup_of_index_inj (fun x => (s.obj x).pindex.getD 0 - (i + 1))
      intro m x hm
      rw [List.getElem?_drop] at hm
      obtain ⟨_, _, _, d⟩ := old_entry _ (kid_entry i _ x hidx hm) (by
        intro h; simp only [Prod.mk.injEq] at h; rw [hidx] at h; have := h.2.2; simp at this; omega)
      simp only at d
      simp only [d, Option.getD_some]; omega
  have hpnsh : p ∉ shifted (fieldKids s p f) idx := by
    intro hm
    obtain ⟨_, _, _, _, _, b, _, _⟩ := hshOk p hm
    apply hI.noSelf p
    unfold LState.parent; rw [b]; exact hp
  -- the records of the new state
  have hidp' : (setField s p f (removedKids (fieldKids s p f) idx)).idOf p = s.idOf p := by
    unfold LState.idOf; rw [setField_obj]; simp
  have hobj_sh : ∀ x ∈ shifted (fieldKids s p f) idx, (removed s p f idx).obj x =
      { s.obj x with pid := some (s.idOf p), pfield := some f, pindex := (s.obj x).pindex.map (· - 1) } := by
    intro x hx
    have hxp : x ≠ p := fun e => hpnsh (e ▸ hx)
    unfold removed
    rw [shiftDown_mem p f _ _ hshnd x hx, hidp', setField_obj]
    simp [hxp]
  have hobj_nsh : ∀ x, x ∉ shifted (fieldKids s p f) idx → (removed s p f idx).obj x =
      (setField s p f (removedKids (fieldKids s p f) idx)).obj x := by
    intro x hx; unfold removed; exact shiftDown_not_mem p f _ _ x hx
  have hlk : ∀ k, (removed s p f idx).lookup k = s.lookup k := by
    intro k; unfold removed; rw [shiftDown_lookup]; rfl
  have hsz : (removed s p f idx).size = s.size := by
    unfold removed; rw [shiftDown_size]; rfl
  -- everything except the parent's fields and the shifted indexes stays
  have hrest : ∀ x, SameButParent ((removed s p f idx).obj x)
      (if x = p then { s.obj p with fields := (s.obj p).fields.map fun fl =>
        if fl.name = f then { fl with kids := removedKids (fieldKids s p f) idx } else fl } else s.obj x) := by
    intro x
    by_cases hx : x ∈ shifted (fieldKids s p f) idx
    · have hxp : x ≠ p := fun e => hpnsh (e ▸ hx)
      rw [hobj_sh x hx]; simp only [hxp, if_false]
      exact ⟨rfl, rfl, rfl, rfl, rfl, rfl, rfl, rfl, rfl⟩
    · rw [hobj_nsh x hx, setField_obj]; exact SameButParent.refl _
  have hid : ∀ x, (removed s p f idx).idOf x = s.idOf x := by
    intro x; unfold LState.idOf; rw [(hrest x).id]; split
    · next h => subst h; rfl
    · rfl
  have hcid : ∀ x, ((removed s p f idx).obj x).cid = (s.obj x).cid := by
    intro x; rw [(hrest x).cid]; split
    · next h => subst h; rfl
    · rfl
  have hclsprops : ∀ x, ((removed s p f idx).obj x).cls = (s.obj x).cls ∧
      ((removed s p f idx).obj x).props = (s.obj x).props := by
    intro x; rw [(hrest x).cls, (hrest x).props]; split
    · next h => subst h; exact ⟨rfl, rfl⟩
    · exact ⟨rfl, rfl⟩
  have hfl : ∀ x, x ≠ p → ((removed s p f idx).obj x).fields = (s.obj x).fields := by
    intro x hx; rw [(hrest x).fields]; simp [hx]
  have hkp : ∀ x, x ≠ p → ((removed s p f idx).obj x).kidsPos = (s.obj x).kidsPos := by
    intro x hx; unfold LObj.kidsPos; rw [hfl x hx]
  have hflp : ((removed s p f idx).obj p).fields = (s.obj p).fields.map fun fl =>
      if fl.name = f then { fl with kids := removedKids (fieldKids s p f) idx } else fl := by
    rw [(hrest p).fields]; simp
  have hkpp : ∀ e', e' ∈ ((removed s p f idx).obj p).kidsPos ↔
      (e' ∈ (s.obj p).kidsPos ∧ e'.2.1 ≠ f) ∨
      ∃ i m x, idx = some i ∧ e' = (x, f, some m) ∧ (x, f, some (if m < i then m else m + 1)) ∈ (s.obj p).kidsPos := by
    intro e'
    have := kidsPos_removed (s.obj p) (hI.wf p) u f idx he (removedKids (fieldKids s p f) idx)
      (fun fl hfl hname => by rw [fieldKids_eq (hI.wf p) hfl hname]) e'
    unfold LObj.kidsPos at this ⊢
    rw [hflp]; exact this
  have hpid : ∀ x, ((removed s p f idx).obj x).pid = (s.obj x).pid := by
    intro x
    by_cases hx : x ∈ shifted (fieldKids s p f) idx
    · obtain ⟨_, _, _, _, _, b, _, _⟩ := hshOk x hx
      rw [hobj_sh x hx, b]
    · rw [hobj_nsh x hx, setField_obj]; split
      · next h => subst h; rfl
      · rfl
  have hpf : ∀ x, ((removed s p f idx).obj x).pfield = (s.obj x).pfield := by
    intro x
    by_cases hx : x ∈ shifted (fieldKids s p f) idx
    · obtain ⟨_, _, _, _, _, _, c, _⟩ := hshOk x hx
      rw [hobj_sh x hx, c]
    · rw [hobj_nsh x hx, setField_obj]; split
      · next h => subst h; rfl
      · rfl
  have hpix_n : ∀ x, x ∉ shifted (fieldKids s p f) idx →
      ((removed s p f idx).obj x).pindex = (s.obj x).pindex := by
    intro x hx
    rw [hobj_nsh x hx, setField_obj]; split
    · next h => subst h; rfl
    · rfl
  have hpix_s : ∀ x, x ∈ shifted (fieldKids s p f) idx → ∀ m, (s.obj x).pindex = some m →
      ((removed s p f idx).obj x).pindex = some (m - 1) := by
    intro x hx m hm
    rw [hobj_sh x hx]; simp [hm]
  have hatt : ∀ x, Att (removed s p f idx) x ↔ Att s x := by intro x; unfold Att; rw [hid, hlk]
  have hpar : ∀ x, (removed s p f idx).parent x = s.parent x := by
    intro x; unfold LState.parent; rw [hpid]; cases (s.obj x).pid <;> simp [hlk]
  -- a shifted node is a child of p only
  have sh_parent : ∀ x ∈ shifted (fieldKids s p f) idx, s.parent x = some p := by
    intro x hx
    obtain ⟨_, _, _, _, _, b, _, _⟩ := hshOk x hx
    unfold LState.parent; rw [b]; exact hp
  refine ⟨?_, ?_, ?_, ?_, ?_, ?_, ?_, ?_⟩
  · intro k v hk
    rw [hlk] at hk
    obtain ⟨a, b⟩ := hI.regSound k v hk
    exact ⟨by rw [hsz]; exact a, by rw [hid]; exact b⟩
  · -- down
    intro w hw e' he' _
    have hws := (hatt w).mp hw
    by_cases hwp : w = p
    · subst hwp
      rcases (hkpp e').mp he' with ⟨hold, hne⟩ | ⟨i, m, x, hi, rfl, hold⟩
      · obtain ⟨a, b, c, d⟩ := old_entry e' hold (by intro h; rw [h] at hne; exact hne rfl)
        have hns : e'.1 ∉ shifted (fieldKids s w f) idx := by
          intro hm
          obtain ⟨_, _, _, _, _, _, c', _⟩ := hshOk _ hm
          rw [c] at c'; exact hne (Option.some.inj c')
        exact ⟨(hatt _).mpr a, by rw [hpid, hid]; exact b, by rw [hpf]; exact c, by rw [hpix_n _ hns]; exact d⟩
      · by_cases hmi : m < i
        · simp only [hmi, if_true] at hold
          obtain ⟨a, b, c, d⟩ := old_entry _ hold (by
            intro h; simp only [Prod.mk.injEq] at h; rw [hi] at h; have := h.2.2; simp at this; omega)
          have hns : x ∉ shifted (fieldKids s w f) idx := by
            intro hm
            obtain ⟨i', m', hi', hlt, _, _, _, d'⟩ := hshOk _ hm
            rw [hi] at hi'; cases hi'
            simp only at d; rw [d] at d'; cases d'; omega
          exact ⟨(hatt _).mpr a, by rw [hpid, hid]; exact b, by rw [hpf]; exact c, by rw [hpix_n _ hns]; exact d⟩
        · simp only [hmi, if_false] at hold
          obtain ⟨a, b, c, d⟩ := old_entry _ hold (by
            intro h; simp only [Prod.mk.injEq] at h; rw [hi] at h; have := h.2.2; simp at this; omega)
          have hxs : x ∈ shifted (fieldKids s w f) idx := by
            rcases hfield x _ hold with ⟨rfl, _⟩ | ⟨i', m', hi', hm', _, hk, _⟩
            · exact absurd a hudet
            · rw [hi] at hi'; cases hi'; cases hm'
              exact (hshdef x).mpr ⟨i, m + 1, hi, by omega, hk⟩
          simp only at d
          exact ⟨(hatt _).mpr a, by rw [hpid, hid]; exact b, by rw [hpf]; exact c,
            by rw [hpix_s x hxs (m + 1) d]; simp⟩
    · rw [hkp w hwp] at he'
      obtain ⟨a, b, c, d⟩ := hI.down w hws e' he' (fun hx => hwp hx.1)
      have hns : e'.1 ∉ shifted (fieldKids s p f) idx := by
        intro hm
        have h1 := sh_parent _ hm
        unfold LState.parent at h1
        rw [b] at h1; simp only at h1
        unfold Att at hws; rw [hws] at h1
        exact hwp (Option.some.inj h1)
      exact ⟨(hatt _).mpr a, by rw [hpid, hid]; exact b, by rw [hpf]; exact c, by rw [hpix_n _ hns]; exact d⟩
  · -- up
    intro x hx q hq
    have hxs := (hatt x).mp hx
    rw [hpar] at hq
    obtain ⟨f', hf', hm⟩ := hI.up x hxs q hq
    refine ⟨f', by rw [hpf]; exact hf', ?_⟩
    have hxu : x ≠ u := fun e => hudet (e ▸ hxs)
    by_cases hqp : q = p
    · subst hqp
      rw [hkpp]
      by_cases hxsh : x ∈ shifted (fieldKids s q f) idx
      · obtain ⟨i, m, hi, hlt, _, _, c, d⟩ := hshOk x hxsh
        rw [hf'] at c; cases c
        rw [hpix_s x hxsh m d]
        right
        refine ⟨i, m - 1, x, hi, rfl, ?_⟩
        have : ¬ (m - 1 < i) := by omega
        simp only [this, if_false]
        rw [show m - 1 + 1 = m by omega, ← d]; exact hm
      · rw [hpix_n x hxsh]
        by_cases hff : f' = f
        · subst hff
          rcases hfield x _ hm with ⟨e, _⟩ | ⟨i, m, hi, hj, hne, hk, _⟩
          · exact absurd e hxu
          · right
            have hlt : m < i := by
              apply Classical.byContradiction; intro hge
              exact hxsh ((hshdef x).mpr ⟨i, m, hi, by omega, hk⟩)
            refine ⟨i, m, x, hi, by rw [hj], ?_⟩
            simp only [hlt, if_true]
            rw [← hj]; exact hm
        · exact .inl ⟨hm, hff⟩
    · rw [hkp q hqp]
      have hns : x ∉ shifted (fieldKids s p f) idx := by
        intro hms
        have := sh_parent x hms
        rw [hq] at this; exact hqp (Option.some.inj this)
      rw [hpix_n x hns]; exact hm
  · -- cid (everybody but p)
    intro x hx hy
    have hxs := (hatt x).mp hx
    rw [hcid, hI.cid x hxs (fun h => h)]
    congr 1
    symm
    exact cidPre_congr (hclsprops x).1 (hclsprops x).2 (hfl x hy) (fun c _ => hcid c)
  · intro x k hk
    rw [hpid] at hk
    obtain ⟨a, b⟩ := hI.noDangling x k hk
    exact ⟨(hatt x).mpr a, by rw [hlk]; exact b⟩
  · -- closed
    intro v hv c hc
    rw [hsz] at hv ⊢
    by_cases hvp : v = p
    · subst hvp
      obtain ⟨e', he', he1⟩ := (mem_kidList_iff _ _).mp hc
      rcases (hkpp e').mp he' with ⟨hold, _⟩ | ⟨i, m, x, _, rfl, hold⟩
      · exact hI.closed v hv c ((mem_kidList_iff _ _).mpr ⟨e', hold, he1⟩)
      · exact hI.closed v hv c ((mem_kidList_iff _ _).mpr ⟨_, hold, he1⟩)
    · have : ((removed s p f idx).obj v).kidList = (s.obj v).kidList := by
        unfold LObj.kidList; rw [hfl v hvp]
      rw [this] at hc
      exact hI.closed v hv c hc
  · intro x hx; rw [hpar] at hx; exact hI.noSelf x hx
  · -- wf
    intro v
    by_cases hvp : v = p
    · subst hvp
      obtain ⟨h1, h2⟩ := hI.wf v
      unfold LObj.wf
      rw [hflp]
      constructor
      · simp only [List.map_map]
        have : (List.map ((fun x => x.name) ∘ fun fl => if fl.name = f then
            { fl with kids := removedKids (fieldKids s v f) idx } else fl) (s.obj v).fields) =
            (s.obj v).fields.map (·.name) := by
          apply List.map_congr_left
          intro fl _
          simp only [Function.comp]
          split <;> rfl
        rw [this]; exact h1
      · intro fl' hfl'
        obtain ⟨fl, hfl, hfe⟩ := List.mem_map.mp hfl'
        by_cases hname : fl.name = f
        · simp only [hname, if_true] at hfe
          subst hfe
          rcases h2 fl hfl with hs | hs
          · exact .inl hs
          · right
            rw [fieldKids_eq (hI.wf v) hfl hname]
            show (removedKids fl.kids idx).length ≤ 1
            cases idx with
            | none => simp [removedKids]
            | some i =>
              simp only [removedKids, List.length_append, List.length_take, List.length_drop]
              omega
        · simp only [hname, if_false] at hfe
          subst hfe
          exact h2 fl hfl
    · unfold LObj.wf; rw [hfl v hvp]; exact hI.wf v

/-- **`_replace_child(old, field, index, None)`** closes the hole by removing the child and, walking up,
repairs the content ids -/
theorem replaceChild_none_inv {s s' : LState} {p u fuel : Nat} {f : Str} {idx : Option Nat}
    (hI : InvX Hc (Hole p (u, f, idx)) NoY s) (hp : Att s p) (he : (u, f, idx) ∈ (s.obj p).kidsPos)
    (hudet : ¬ Att s u) (h : replaceChild Hc fuel s p u f idx none = (s', true)) : Inv Hc s' := by
  rw [replaceChild_none] at h
  exact resetContentId_inv Hc fuel _ p s' (removed_invX Hc hI hp he hudet) h

/-! ### `replace_with(None)` on a receiver that has a parent -/

theorem replaceWith_inv_parent_none {s s' : LState} {u p fuel : Nat} (hI : Inv Hc s)
    (hpar : s.parent u = some p) (h : replaceWith Hc fuel s u none = (s', .ok ())) : Inv Hc s' := by
  obtain ⟨f, hf, _⟩ := hI.up u (att_of_parent Hc hI hpar) p hpar
  unfold replaceWith at h
  simp only [Bool.false_eq_true, if_false, hpar, hf] at h
  split at h
  · simp at h
  · split at h
    · simp at h
    · cases hds : detachGo (fuel + 1) false (s.clearParent u) u with
      | mk s2 res =>
        rw [hds] at h
        cases res with
        | none => simp at h
        | some b =>
          simp only at h
          obtain ⟨f', hO⟩ := rwith_open Hc hI hpar hds
          have hff : f' = f := by have := hO.hf; rw [hf] at this; exact (Option.some.inj this).symm
          subst hff
          cases hrc : replaceChild Hc fuel s2 p u f' (s.obj u).pindex none with
          | mk s3 fin =>
            rw [hrc] at h
            cases fin with
            | false => simp at h
            | true =>
              simp only [if_true, Prod.mk.injEq, and_true] at h
              subst h
              exact replaceChild_none_inv Hc hO.inv2 hO.pa2 hO.mem2 hO.nu2 hrc

end

end PyOak.Legacy
