/-
C20, additions after the audit (AUDIT.md, C20 §4):

 * `lparseXPath_render` / `lparseXPath_render_rel` — the CHARACTER level for the legacy constructor
   (closes the PARTIAL "text → tokens has no theorem"): every written path (`C07P.Step` list), rendered
   to characters with any admissible white space after the tokens — absolute, or relative (no leading
   slash: read as `//…`) —, is accepted by legacy `ASTXpath(text)`, and legacy `match` on a node
   decides `sat` of the DENOTED path (`lelemOf`: class omitted = `AwareASTNode`, `[]` = no index, all
   decimal digits significant, `//` = anywhere) along the node's root-first chain.
   Composition of `C07P.xlex_render` (lexer), `C20.lparseSteps_render` (step parser),
   `C20.legacy_written_path` (transformer walk + matcher).
 * `legacy_text_agrees_with_successor` — on the same text the legacy matcher and the successor's
   `sat` of `C07P.elemsOf` agree up to the default class name (`AwareASTNode` vs `ASTNode`).
 * `lparseXPath_unknown_class_rejected` (+ `parseXPath_unknown_class_rejected` for the successor) — part of
   "rejects malformed text with the definition error": a written path that names a class which is not a node
   class is rejected by both constructors, whatever the white space.
 * `calc_final` — under `NoRepeat`, WHATEVER assignment `calculate_xpath` makes to the object with
   `n`'s identity, the value stored is the spelling of `n`'s chain (so the final value per node object
   is well defined); `calc_eq_get_xpath` — it is the value the successor's `Tree.get_xpath` returns.
-/
import PyOak.Props.C07All
import PyOak.Props.C20
namespace PyOak
namespace C20
open C07P

/-- the element a written step denotes for the LEGACY xpath (default class `AwareASTNode`) -/
def lelemOf (s : Step) : XElem := ⟨s.cls.getD awareName, s.field, s.idx.getD none, s.anywhere⟩

theorem lraw_nonEmpty (s : Step) (h : s.NonEmpty) :
    PStep.raw s.pstep = some (s.field, s.idx.getD none, s.cls.getD awareName) := by
  obtain ⟨a, f, i, c⟩ := s
  rcases f with _ | f <;> rcases i with _ | i <;> rcases c with _ | c <;>
    first | rfl | (simp [Step.NonEmpty] at h)

theorem lpathOfRaw (path : List Step) (hne : ∀ s ∈ path, s.NonEmpty) :
    pathOfRaw ((path.flatMap Step.psteps).map PStep.raw) false = path.map lelemOf := by
  induction path with
  | nil => simp [pathOfRaw]
  | cons s r ih =>
    have hs := lraw_nonEmpty s (hne s (by simp))
    have hr := ih (fun t ht => hne t (by simp [ht]))
    have he : PStep.raw emptyP = none := rfl
    simp only [List.flatMap_cons, List.map_append] at hr ⊢
    cases ha : s.anywhere
    · simp [Step.psteps, ha, hs, pathOfRaw, hr, lelemOf]
    · simp [Step.psteps, ha, he, hs, pathOfRaw, hr, lelemOf]

/-- **legacy, TEXT level (absolute texts).**  The characters of a written path (arbitrary admissible
white space) are accepted by the legacy constructor, and legacy `match` decides `sat` of the denoted
path along the node's chain (`chain` is root-first; the matcher consumes the node-first parent
chain `chain.reverse`). -/
theorem lparseXPath_render (known : Str → Bool) (path : List Step) (hp : PathOK known path)
    (ws : Nat → Str) (hs : SepOK (renderToks path) ws) :
    ∃ L, lparseXPath known (renderChars (renderToks path) ws) = some L ∧
      ∀ chain : Chain, lxmatch L chain.reverse = sat chain (path.map lelemOf) := by
  obtain ⟨s0, r, rfl⟩ : ∃ s r, path = s :: r := by
    cases path with
    | nil => exact absurd rfl hp.ne
    | cons s r => exact ⟨s, r, rfl⟩
  obtain ⟨tl, htl⟩ : ∃ tl, renderChars (renderToks (s0 :: r)) ws = '/' :: tl := by
    cases h : s0.anywhere <;> simp [renderToks, Step.toks, h, renderChars, tokChars]
  have hlex := xlex_render (renderToks (s0 :: r)) ws (renderToks_tokOK known _ hp) hs
    ((renderChars (renderToks (s0 :: r)) ws).length + 1) (Nat.le_succ _)
  obtain ⟨s, hsl⟩ : ∃ s, (s0 :: r).getLast? = some s := by
    cases h : (s0 :: r).getLast? with
    | none => exact absurd (List.getLast?_eq_none_iff.mp h) hp.ne
    | some s => exact ⟨s, rfl⟩
  obtain ⟨init, hinit⟩ := getLast?_flatMap_psteps (s0 :: r) s hsl
  obtain ⟨c, hc⟩ := Option.isSome_iff_exists.mp (hp.last s hsl)
  have hk : ∀ t ∈ init ++ [s.pstep], ∀ c, t.cls = some c → known c = true := by
    intro t ht c hc
    rw [← hinit] at ht
    simp only [List.mem_flatMap] at ht
    obtain ⟨st, hst, ht⟩ := ht
    simp only [Step.psteps, List.mem_append, List.mem_singleton] at ht
    rcases ht with ht | rfl
    · split at ht
      · simp only [List.mem_singleton] at ht; subst ht; cases hc
      · cases ht
    · exact (hp.classes st hst c hc).2
  have hfuel : init.length < (renderToks (s0 :: r)).length + 1 := by
    have := psteps_length_le ((s0 :: r).flatMap Step.psteps)
    rw [← renderToks_eq, hinit] at this
    simp at this; omega
  have hparse := lparseSteps_render known init s.pstep c hc hk ((renderToks (s0 :: r)).length + 1) hfuel
  have hw := (legacy_written_path known init s.pstep c hc hk)
  refine ⟨lwalk (init.map PStep.raw ++ [s.pstep.raw]).reverse false, ?_, ?_⟩
  · have htoks : renderToks (s0 :: r) = init.flatMap PStep.toks ++ s.pstep.toks := by
      rw [renderToks_eq, hinit]; simp
    unfold lparseXPath lrawSteps lprefix
    rw [htl] at hlex ⊢
    simp only [hlex]
    rw [← htoks] at hparse
    rw [hparse]
    simp
  · intro chain
    rw [(hw chain).2, ← lpathOfRaw (s0 :: r) hp.nonEmpty, hinit]
    simp

theorem lparseXPath_prefix (known : Str → Bool) (text : Str) (h : ∀ tl, text ≠ '/' :: tl) :
    lparseXPath known text = lparseXPath known ('/' :: '/' :: text) := by
  have : lprefix text = lprefix ('/' :: '/' :: text) := by
    unfold lprefix
    split
    · rename_i tl; exact absurd rfl (h tl)
    · rfl
  unfold lparseXPath lrawSteps
  rw [this]

/-- **legacy, TEXT level (relative texts)**: a text that does not start with a slash is read as the
same path with the first step `anywhere` (the constructor prepends `//`) -/
theorem lparseXPath_render_rel (known : Str → Bool) (path : List Step) (hp : PathOK known path)
    (ws : Nat → Str) (hs : SepOK (renderRelToks path) ws) :
    ∃ L, lparseXPath known (renderChars (renderRelToks path) ws) = some L ∧
      ∀ chain : Chain, lxmatch L chain.reverse = sat chain ((relPath path).map lelemOf) := by
  obtain ⟨s, r, rfl⟩ : ∃ s r, path = s :: r := by
    cases path with
    | nil => exact absurd rfl hp.ne
    | cons s r => exact ⟨s, r, rfl⟩
  rw [lparseXPath_prefix known _ (rel_not_slash known s r hp ws)]
  have htoks : renderToks (relPath (s :: r)) = .slash :: .slash :: renderRelToks (s :: r) := by
    simp [renderToks, relPath, Step.toks, renderRelToks, Step.pstep]
  have hchars : '/' :: '/' :: renderChars (renderRelToks (s :: r)) ws =
      renderChars (renderToks (relPath (s :: r))) (shiftWs ws) := by
    rw [htoks]
    simp [renderChars, tokChars, shiftWs]
  rw [hchars]
  apply lparseXPath_render known _ (pathOK_rel known s r hp)
  rw [htoks]
  exact sepOK_slash _ _ rfl (sepOK_slash _ _ rfl hs)

/-- a written step denotes the same element for the legacy and the successor xpath once it names its
class (the two differ only in the default class: `AwareASTNode` / `ASTNode`) -/
theorem lelemOf_eq_elemOf (s : Step) (h : s.cls.isSome) : lelemOf s = elemOf s := by
  obtain ⟨a, f, i, c⟩ := s
  cases c with
  | none => cases h
  | some c => rfl

/-- **same semantics as the successor, from the same text**: when every step names its class, legacy
`ASTXpath(text).match(node)` and the successor's `ASTXpath(text).match(root, node)` decide the same
`sat` (of `elemsOf path`) along the node's chain -/
theorem legacy_text_agrees_with_successor (known : Str → Bool) (path : List Step) (hp : PathOK known path)
    (hcls : ∀ s ∈ path, s.cls.isSome)
    (ws : Nat → Str) (hs : SepOK (renderToks path) ws) :
    ∃ L elsRev, lparseXPath known (renderChars (renderToks path) ws) = some L
      ∧ parseXPath known (renderChars (renderToks path) ws) = some elsRev
      ∧ ∀ chain : Chain, lxmatch L chain.reverse = sat chain elsRev.reverse := by
  obtain ⟨L, hL, hm⟩ := lparseXPath_render known path hp ws hs
  refine ⟨L, _, hL, parseXPath_render known path hp ws hs, fun chain => ?_⟩
  rw [hm chain, List.reverse_reverse, elemsOf]
  congr 1
  exact List.map_congr_left (fun s hsm => lelemOf_eq_elemOf s (hcls s hsm))

/-! ## rejection: a class that is not a (legacy) node class -/

theorem parseStepBody_unknown (known : Str → Bool) (s : PStep) (rest : List XTok) (c : Str)
    (hc : s.cls = some c) (hk : known c = false) : parseStepBody known (s.body ++ rest) = none := by
  obtain ⟨fld, idx, cls⟩ := s
  simp only at hc
  subst hc
  rcases fld with _ | f <;> rcases idx with _ | (_ | n) <;>
    simp [PStep.body, parseStepBody, hk]

theorem lparseSteps_unknown (known : Str → Bool) : ∀ (ps : List PStep) (fuel : Nat),
    (∃ s ∈ ps, ∃ c, s.cls = some c ∧ known c = false) → lparseSteps known fuel (ps.flatMap PStep.toks) = none
  | [], _, h => by obtain ⟨s, hs, _⟩ := h; cases hs
  | s :: ps, 0, _ => by simp [lparseSteps]
  | s :: ps, fuel + 1, h => by
    simp only [List.flatMap_cons, PStep.toks, List.cons_append, lparseSteps]
    by_cases hs : ∃ c, s.cls = some c ∧ known c = false
    · obtain ⟨c, hc, hk⟩ := hs
      rw [parseStepBody_unknown known s _ c hc hk]
    · have hp : ∃ s' ∈ ps, ∃ c, s'.cls = some c ∧ known c = false := by
        obtain ⟨t, ht, c, hc, hk⟩ := h
        simp only [List.mem_cons] at ht
        rcases ht with rfl | ht
        · exact absurd ⟨c, hc, hk⟩ hs
        · exact ⟨t, ht, c, hc, hk⟩
      have hk : ∀ c, s.cls = some c → known c = true := by
        intro c hc
        cases hkc : known c with
        | true => rfl
        | false => exact absurd ⟨c, hc, hkc⟩ hs
      have hend : StepEnd (ps.flatMap PStep.toks) := by
        cases ps with
        | nil => exact Or.inl rfl
        | cons a b => exact Or.inr ⟨_, rfl⟩
      rw [parseStepBody_render known s _ hk hend]
      have ih := lparseSteps_unknown known ps fuel hp
      cases hpt : ps.flatMap PStep.toks with
      | nil =>
        obtain ⟨t, ht, _⟩ := hp
        cases ps with
        | nil => cases ht
        | cons a b => simp [PStep.toks] at hpt
      | cons t r =>
        rw [hpt] at ih
        simp [ih]

/-- **legacy: a written path naming a class that is not a node class is rejected** (with the one definition
error), whatever the admissible white space — `PathOK (fun _ => true)` is the lexical well-formedness of the
written path (names are CNAMEs, every step writes something, the last one has a class) -/
theorem lparseXPath_unknown_class_rejected (known : Str → Bool) (path : List Step)
    (hp : PathOK (fun _ => true) path) (hbad : ∃ s ∈ path, ∃ c, s.cls = some c ∧ known c = false)
    (ws : Nat → Str) (hs : SepOK (renderToks path) ws) :
    lparseXPath known (renderChars (renderToks path) ws) = none := by
  obtain ⟨s0, r, rfl⟩ : ∃ s r, path = s :: r := by
    cases path with
    | nil => exact absurd rfl hp.ne
    | cons s r => exact ⟨s, r, rfl⟩
  obtain ⟨tl, htl⟩ : ∃ tl, renderChars (renderToks (s0 :: r)) ws = '/' :: tl := by
    cases h : s0.anywhere <;> simp [renderToks, Step.toks, h, renderChars, tokChars]
  have hlex := xlex_render (renderToks (s0 :: r)) ws (renderToks_tokOK _ _ hp) hs
    ((renderChars (renderToks (s0 :: r)) ws).length + 1) (Nat.le_succ _)
  have hbad' : ∃ p ∈ (s0 :: r).flatMap Step.psteps, ∃ c, p.cls = some c ∧ known c = false := by
    obtain ⟨s, hsm, c, hc, hk⟩ := hbad
    exact ⟨s.pstep, List.mem_flatMap.mpr ⟨s, hsm, by simp [Step.psteps]⟩, c, hc, hk⟩
  have hparse := lparseSteps_unknown known _ ((renderToks (s0 :: r)).length + 1) hbad'
  rw [← renderToks_eq] at hparse
  unfold lparseXPath lrawSteps lprefix
  rw [htl] at hlex ⊢
  simp only [hlex, hparse, Option.map_none]

/-- the successor rejects the same texts (`parseXPath`, for comparison: both constructors refuse a class that
`check_and_get_ast_node_type` does not know) -/
theorem parseXPath_unknown_class_rejected (known : Str → Bool) (path : List Step)
    (hp : PathOK (fun _ => true) path) (hbad : ∃ s ∈ path, ∃ c, s.cls = some c ∧ known c = false)
    (ws : Nat → Str) (hs : SepOK (renderToks path) ws) :
    parseXPath known (renderChars (renderToks path) ws) = none := by
  obtain ⟨s0, r, rfl⟩ : ∃ s r, path = s :: r := by
    cases path with
    | nil => exact absurd rfl hp.ne
    | cons s r => exact ⟨s, r, rfl⟩
  obtain ⟨tl, htl⟩ : ∃ tl, renderChars (renderToks (s0 :: r)) ws = '/' :: tl := by
    cases h : s0.anywhere <;> simp [renderToks, Step.toks, h, renderChars, tokChars]
  have hlex := xlex_render (renderToks (s0 :: r)) ws (renderToks_tokOK _ _ hp) hs
    ((renderChars (renderToks (s0 :: r)) ws).length + 1) (Nat.le_succ _)
  obtain ⟨s, hsm, c, hc, hk⟩ := hbad
  -- the successor's step parser and the legacy one differ only in the raw element they build
  have key : ∀ (fuel : Nat) (toks : List XTok), lparseSteps known fuel toks = none → parseSteps known fuel toks = none := by
    intro fuel
    induction fuel with
    | zero => intro toks _; rfl
    | succ f ih =>
      intro toks h
      cases toks with
      | nil => rfl
      | cons t rest =>
        cases t <;> try rfl
        simp only [lparseSteps, parseSteps] at h ⊢
        cases hb : parseStepBody known rest with
        | none => rfl
        | some q =>
          obtain ⟨fld, idx, cls, rest'⟩ := q
          rw [hb] at h
          simp only at h ⊢
          cases rest' with
          | nil =>
            simp only at h ⊢
            cases cls with
            | none => rfl
            | some c => simp at h
          | cons t2 r2 =>
            simp only at h ⊢
            cases hl : lparseSteps known f (t2 :: r2) with
            | none => rw [ih _ hl]; rfl
            | some x => rw [hl] at h; simp at h
  have hbad' : ∃ p ∈ (s0 :: r).flatMap Step.psteps, ∃ c, p.cls = some c ∧ known c = false :=
    ⟨s.pstep, List.mem_flatMap.mpr ⟨s, hsm, by simp [Step.psteps]⟩, c, hc, hk⟩
  have hparse := key _ _ (lparseSteps_unknown known _ ((renderToks (s0 :: r)).length + 1) hbad')
  rw [← renderToks_eq] at hparse
  unfold parseXPath
  rw [htl] at hlex ⊢
  simp only [hlex, hparse]

/-! ## calculate_xpath: the value finally stored on each node object -/

/-- under `NoRepeat` the value stored on a node object — whichever assignment comes last — is the
spelling of its chain -/
theorem calc_final (root : Node) (h : NoRepeat root) (c : Chain) (n : Node) (oe : Option Edge)
    (hc : IsChain root (c ++ [(n, oe)])) (m : Node) (s : Str) (hm : (m, s) ∈ calcXpath root)
    (hu : m.uid = n.uid) : s = spellChain (c ++ [(n, oe)]) := by
  have h1 := calc_spells_chain root c n oe hc
  have hk : ((calcXpath root).map (fun p => p.1.uid)).Nodup := by
    have := calc_nodes root
    have h2 : (calcXpath root).map (fun p => p.1.uid) = ((calcXpath root).map (·.1)).map (·.uid) := by simp
    rw [h2, this]; exact h
  have := C07.inj_of_nodup_map (fun p : Node × Str => p.1.uid) _ hk (m, s) (n, spellChain (c ++ [(n, oe)])) hm h1 hu
  exact (Prod.mk.inj this).2

/-- legacy `calculate_xpath` stores, on every node of the tree, exactly what the successor's
`Tree.get_xpath` returns for it -/
theorem calc_eq_get_xpath (root : Node) (h : NoRepeat root) (m : Node) (s : Str)
    (hm : (m, s) ∈ calcXpath root) : (TreeT.build root).getXpath m = .ok s := by
  obtain ⟨c, oe, hc, hs⟩ := calc_sound root m s hm
  rw [hs]
  exact C06.xpath_chain root h c m oe hc

/-! ## non-vacuity -/
section Examples
private def known : Str → Bool := fun c => c == ['R'] || c == ['M'] || c == ['L']
/-- `/R//M/@x[12]L` -/
private def pth : List Step :=
  [⟨false, none, none, some ['R']⟩, ⟨true, none, none, some ['M']⟩,
   ⟨false, some ['x'], some (some 12), some ['L']⟩]
private def ws1 : Nat → Str := fun i => if i == 8 then [' '] else if i == 10 then ['\t', ' '] else []
private theorem pth_ok : PathOK known pth := by
  refine ⟨by decide, by decide, ?_, by decide, by decide⟩
  intro s hs
  simp [pth] at hs
  subst hs
  rfl
-- the theorems apply to this path (absolute and relative rendering)
example : ∃ L, lparseXPath known (renderChars (renderToks pth) ws1) = some L ∧
    ∀ chain : Chain, lxmatch L chain.reverse = sat chain (pth.map lelemOf) :=
  lparseXPath_render known pth pth_ok ws1 (by decide)
example : ∃ L, lparseXPath known (renderChars (renderRelToks pth) (fun _ => [' '])) = some L ∧
    ∀ chain : Chain, lxmatch L chain.reverse = sat chain ((relPath pth).map lelemOf) :=
  lparseXPath_render_rel known pth pth_ok _ (by decide)
example : String.ofList (renderChars (renderToks pth) ws1) = "/R//M/@x[ 12\t ]L" := by decide
example : (lparseXPath known "/R//M/@x[ 12\t ]L".toList).isSome = true := by decide
example : ∀ s ∈ pth, s.cls.isSome := by decide
-- rejection: `/R//Q/@x[12]L` names the unknown class `Q`
private def pthBad : List Step :=
  [⟨false, none, none, some ['R']⟩, ⟨true, none, none, some ['Q']⟩,
   ⟨false, some ['x'], some (some 12), some ['L']⟩]
private theorem pthBad_ok : PathOK (fun _ => true) pthBad := by
  refine ⟨by decide, by decide, ?_, by decide, by decide⟩
  intro s hs
  simp [pthBad] at hs
  subst hs
  rfl
example : lparseXPath known (renderChars (renderToks pthBad) ws1) = none :=
  lparseXPath_unknown_class_rejected known pthBad pthBad_ok
    ⟨⟨true, none, none, some ['Q']⟩, by simp [pthBad], ['Q'], rfl, by decide⟩ ws1 (by decide)
example : parseXPath known (renderChars (renderToks pthBad) ws1) = none :=
  parseXPath_unknown_class_rejected known pthBad pthBad_ok
    ⟨⟨true, none, none, some ['Q']⟩, by simp [pthBad], ['Q'], rfl, by decide⟩ ws1 (by decide)
-- a step without class gets the legacy default class
example : lelemOf ⟨false, some ['x'], none, none⟩ = ⟨awareName, some ['x'], none, false⟩ := rfl

private def nd (u : Nat) (c : Str) (ks : List Kid) : Node :=
  .mk { uid := u, cls := c, mro := [c, awareName], org := ⟨0, []⟩, props := [], truthy := true } ks
private def leaf (u : Nat) : Node := nd u ['L'] []
private def mid : Node := nd 2 ['M'] [.mk ['x'] false [leaf 3]]
private def tree : Node := nd 0 ['R'] [.mk ['a'] true [leaf 1, mid, leaf 4]]
example : NoRepeat tree := by unfold NoRepeat; decide
example : (calcXpath tree).map (fun p => (p.1.uid, String.ofList p.2)) =
    [(0, "/@root[0]R"), (1, "/@root[0]R/@a[0]L"), (2, "/@root[0]R/@a[1]M"), (3, "/@root[0]R/@a[1]M/@x[0]L"),
     (4, "/@root[0]R/@a[2]L")] := by decide
end Examples

end C20
end PyOak
