/-
C05, trails — the traversal streams described by PATHS, for every tree (shared objects allowed),
every prune `P` and every filter `F`.

`Trav.trails P n` (Spec/Traverse.lean) lists the non-empty downward trails below `n`.  Here:

* `mem_trails_iff` : the members of `trails P n` are exactly the non-empty valid trails none of
  whose proper prefixes ends in a pruned position (`IsTrail` is a plain recursion on the list);
* `trails_prune`   : pruning only removes trails: `trails P n = (trails ⊥ n).filter (unpruned P)`;
* `dfs_eq_trails`  : ONE equation for `dfs(prune, filter)`: the stream is the list of ends of the
  trails with no pruned proper prefix, filtered — so for ANY tree a pruned position is offered to
  the filter and no path through it is followed, stated per path (not per node);
* `gather_spec`    : ONE equation for `gather`: the node projection of the pre-order stream
  restricted to the class test and the extra filter;
* `mem_dfsImpl_iff_trail` / `mem_bfsImpl_iff_trail` : all three traversals yield exactly the ends
  of such trails;
* `level_iff_trail` : the `k`-th level of `bfs` holds exactly the ends of the trails of length
  `k + 1` (no proper prefix pruned).
-/
import PyOak.Spec.Traverse
import PyOak.Props.C05Extra
namespace PyOak
namespace C05T
open C05 C05X Trav

variable (P F : Item → Bool)

/-! ### list helpers -/

theorem flatMap_congr' {α β : Type} {l : List α} {f g : α → List β} (h : ∀ a ∈ l, f a = g a) :
    l.flatMap f = l.flatMap g := by
  induction l with
  | nil => rfl
  | cons a r ih =>
    simp only [List.flatMap_cons]
    rw [h a (by simp), ih (fun x hx => h x (by simp [hx]))]

theorem flatMap_filter_congr {α β : Type} {l : List α} {f g : α → List β} {p : β → Bool}
    (h : ∀ a ∈ l, f a = (g a).filter p) : l.flatMap f = (l.flatMap g).filter p := by
  rw [List.filter_flatMap]; exact flatMap_congr' h

theorem trailEnd_single (it : Item) : trailEnd [it] = it := rfl

theorem trailEnd_cons (it : Item) (t : List Item) (h : t ≠ []) : trailEnd (it :: t) = trailEnd t := by
  cases t with
  | nil => exact absurd rfl h
  | cons a r => rfl

theorem trailEnd_snoc (t : List Item) (x : Item) : trailEnd (t ++ [x]) = x := by
  induction t with
  | nil => rfl
  | cons a r ih => rw [List.cons_append, trailEnd_cons a _ (by simp), ih]

/-! ### trails: fuel and the recursion equation -/

theorem trailsF_nil (f : Nat) : trailsF P f [] = [] := by cases f <;> simp [trailsF]

theorem trailsF_fuel (f1 f2 : Nat) (its : List Item)
    (h1 : ∀ it ∈ its, it.node.size ≤ f1) (h2 : ∀ it ∈ its, it.node.size ≤ f2) :
    trailsF P f1 its = trailsF P f2 its := by
  induction f1 generalizing f2 its with
  | zero =>
    cases its with
    | nil => simp [trailsF_nil]
    | cons it r => have := h1 it (by simp); have := it.node.size_pos; omega
  | succ f1 ih =>
    cases f2 with
    | zero =>
      cases its with
      | nil => simp [trailsF_nil]
      | cons it r => have := h2 it (by simp); have := it.node.size_pos; omega
    | succ f2 =>
      simp only [trailsF]
      apply flatMap_congr'
      intro it hit
      have e : trailsF P f1 it.node.items = trailsF P f2 it.node.items := by
        apply ih
        · intro c hc; have := items_size it.node c hc; have := h1 it hit; omega
        · intro c hc; have := items_size it.node c hc; have := h2 it hit; omega
      rw [e]

/-- the recursion equation of `trails` (no fuel) -/
theorem trails_eq (n : Node) : trails P n = n.items.flatMap fun it =>
    [it] :: (if P it then [] else (trails P it.node).map (it :: ·)) := by
  unfold trails
  obtain ⟨k, hk⟩ : ∃ k, n.size = k + 1 := ⟨n.size - 1, by have := n.size_pos; omega⟩
  rw [hk]
  simp only [trailsF]
  apply flatMap_congr'
  intro it hit
  have e : trailsF P k it.node.items = trailsF P it.node.size it.node.items := by
    apply trailsF_fuel
    · intro c hc; have := items_size it.node c hc; have := items_size n it hit; omega
    · intro c hc; have := items_size it.node c hc; omega
  rw [e]

theorem trails_ne_nil (n : Node) (t : List Item) (h : t ∈ trails P n) : t ≠ [] := by
  rw [trails_eq] at h
  obtain ⟨it, _, h⟩ := List.mem_flatMap.mp h
  rcases List.mem_cons.mp h with rfl | h
  · simp
  · by_cases hP : P it
    · simp [hP] at h
    · simp only [hP] at h
      obtain ⟨t', _, rfl⟩ := List.mem_map.mp h
      simp

/-- induction on the size of the start node -/
theorem node_induction {motive : Node → Prop}
    (step : ∀ n, (∀ it ∈ n.items, motive it.node) → motive n) : ∀ n, motive n := by
  intro n
  generalize hk : n.size = k
  induction k using Nat.strongRecOn generalizing n with
  | _ k ih =>
    exact step n (fun it hit => ih it.node.size (by have := items_size n it hit; omega) it.node rfl)

/-! ### the pre-order stream is the list of trail ends -/

theorem pre_rec (n : Node) : pre P (fun _ => true) n =
    n.items.flatMap fun it => it :: (if P it then [] else pre P (fun _ => true) it.node) := by
  rw [pre_eq_preItems]
  unfold preItems
  apply flatMap_congr'
  intro it _
  rw [preN_unfold, pre_eq_preItems]
  simp [preItems]

/-- the ends of the trails, in order, are the pre-order stream -/
theorem trails_end (n : Node) : (trails P n).map trailEnd = pre P (fun _ => true) n := by
  induction n using node_induction with
  | step n ih =>
    rw [trails_eq, pre_rec, List.map_flatMap]
    apply flatMap_congr'
    intro it hit
    simp only [List.map_cons, trailEnd_single]
    congr 1
    by_cases hP : P it
    · simp [hP]
    · simp only [hP, Bool.false_eq_true, if_false, List.map_map]
      rw [← ih it hit]
      apply List.map_congr_left
      intro t ht
      exact trailEnd_cons it t (trails_ne_nil P it.node t ht)

/-! ### pruning only removes trails -/

theorem unpruned_single (it : Item) : unpruned P [it] = true := by simp [unpruned]

theorem unpruned_cons (it : Item) (t : List Item) (h : t ≠ []) :
    unpruned P (it :: t) = (!P it && unpruned P t) := by
  cases t with
  | nil => exact absurd rfl h
  | cons a r => simp [unpruned, List.dropLast_cons_cons]

/-- `trails P n` = the trails of the unpruned tree none of whose proper prefixes ends in a pruned
position (order kept) -/
theorem trails_prune (n : Node) :
    trails P n = (trails (fun _ => false) n).filter (unpruned P) := by
  induction n using node_induction with
  | step n ih =>
    rw [trails_eq, trails_eq (fun _ => false)]
    apply flatMap_filter_congr
    intro it hit
    simp only [Bool.false_eq_true, if_false, List.filter_cons, unpruned_single, if_true]
    congr 1
    rw [List.filter_map]
    by_cases hP : P it
    · simp only [hP, if_true]
      symm
      rw [List.map_eq_nil_iff, List.filter_eq_nil_iff]
      intro t ht
      simp [Function.comp, unpruned_cons P it t (trails_ne_nil _ _ t ht), hP]
    · simp only [hP, Bool.false_eq_true, if_false]
      rw [ih it hit]
      congr 1
      apply List.filter_congr
      intro t ht
      simp [Function.comp, unpruned_cons P it t (trails_ne_nil _ _ t ht), hP]

/-! ### membership: valid trails -/

theorem isTrail_snoc (n : Node) (t : List Item) (x : Item) :
    IsTrail n (t ++ [x]) ↔ IsTrail n t ∧ x ∈ (endNode n t).items := by
  induction t generalizing n with
  | nil => simp [IsTrail, endNode]
  | cons a r ih => simp only [List.cons_append, IsTrail, endNode, ih, and_assoc]

theorem endNode_snoc (n : Node) (t : List Item) (x : Item) : endNode n (t ++ [x]) = x.node := by
  induction t generalizing n with
  | nil => rfl
  | cons a r ih => simp only [List.cons_append, endNode, ih]

/-- the members of `trails ⊥ n` are exactly the non-empty valid trails below `n` -/
theorem mem_trails_noprune (n : Node) (t : List Item) :
    t ∈ trails (fun _ => false) n ↔ t ≠ [] ∧ IsTrail n t := by
  induction n using node_induction generalizing t with
  | step n ih =>
    rw [trails_eq]
    simp only [Bool.false_eq_true, if_false, List.mem_flatMap, List.mem_cons, List.mem_map]
    constructor
    · rintro ⟨it, hit, rfl | ⟨t', ht', rfl⟩⟩
      · exact ⟨by simp, hit, trivial⟩
      · exact ⟨by simp, hit, ((ih it hit t').mp ht').2⟩
    · rintro ⟨hne, ht⟩
      cases t with
      | nil => exact absurd rfl hne
      | cons it r =>
        obtain ⟨hit, hr⟩ := ht
        refine ⟨it, hit, ?_⟩
        cases r with
        | nil => exact Or.inl rfl
        | cons a r' => exact Or.inr ⟨a :: r', (ih it hit _).mpr ⟨by simp, hr⟩, rfl⟩

/-- **trails with pruning**: `t` is listed iff it is a non-empty valid trail and no PROPER prefix
of it ends in a pruned position (its own end may be pruned: a pruned position is still visited) -/
theorem mem_trails_iff (n : Node) (t : List Item) :
    t ∈ trails P n ↔ t ≠ [] ∧ IsTrail n t ∧ ∀ y ∈ t.dropLast, P y = false := by
  rw [trails_prune, List.mem_filter, mem_trails_noprune]
  simp [unpruned, and_assoc]

/-! ### the one-equation forms -/

/-- **`dfs(prune, filter)` for every tree**: the stream is the list of the ends of all non-empty
trails below the start node none of whose proper prefixes ends in a pruned position — in the order
of `trails ⊥` — filtered by `filter`.  Hence, with shared objects too: a pruned position is offered
to the filter, no path THROUGH a pruned position is followed, and the filter plays no role in
descent. -/
theorem dfs_eq_trails (n : Node) :
    dfsImpl P F false n =
      ((((trails (fun _ => false) n).filter (unpruned P)).map trailEnd).filter F) := by
  rw [dfsImpl_filter, dfs_top_down, ← trails_prune, trails_end]

/-- the unpruned, unfiltered stream lists the end of every non-empty trail, once per trail -/
theorem dfs_noprune_eq_trails (n : Node) :
    dfsImpl (fun _ => false) (fun _ => true) false n = (trails (fun _ => false) n).map trailEnd := by
  rw [dfs_top_down, trails_end]

/-- **`gather` as one equation**: the nodes of the pre-order stream (same prune, no filter)
restricted to the instances (`exact = false`: a requested class occurs in the MRO) or exact types
(`exact = true`: the class is a requested class) and to the extra filter -/
theorem gather_spec (classes : List Str) (exact : Bool) (extra : Item → Bool) (n : Node) :
    gatherImpl classes exact extra P n =
      ((dfsImpl P (fun _ => true) false n).filter
        (fun x => decide (ClassOK classes exact x.node) && extra x)).map (·.node) := by
  unfold gatherImpl
  simp only []
  rw [dfsImpl_filter]
  congr 2
  funext x
  congr 1
  cases exact
  · apply Bool.eq_iff_iff.mpr
    simp [ClassOK, Node.isInst, List.any_eq_true]
  · simp [ClassOK]

/-- … without prune: the restriction of the stream of ALL proper-descendant positions -/
theorem gather_noprune (classes : List Str) (exact : Bool) (extra : Item → Bool) (n : Node) :
    gatherImpl classes exact extra (fun _ => false) n =
      ((dfsImpl (fun _ => false) (fun _ => true) false n).filter
        (fun x => decide (ClassOK classes exact x.node) && extra x)).map (·.node) :=
  gather_spec _ classes exact extra n

/-- `gather` by trails: nothing below a pruned position is gathered, for any tree -/
theorem gather_eq_trails (classes : List Str) (exact : Bool) (extra : Item → Bool) (n : Node) :
    gatherImpl classes exact extra P n =
      (((((trails (fun _ => false) n).filter (unpruned P)).map trailEnd).filter
        (fun x => decide (ClassOK classes exact x.node) && extra x))).map (·.node) := by
  rw [gather_spec, dfs_eq_trails]; simp

/-! ### membership in the three streams, by trails -/

theorem mem_pre_iff_trail (n : Node) (x : Item) :
    x ∈ pre P F n ↔
      (∃ t, IsTrail n (t ++ [x]) ∧ ∀ y ∈ t, P y = false) ∧ F x = true := by
  rw [pre_filter, List.mem_filter, ← trails_end, List.mem_map]
  constructor
  · rintro ⟨⟨t, ht, rfl⟩, hF⟩
    obtain ⟨hne, h1, h2⟩ := (mem_trails_iff P n t).mp ht
    obtain ⟨t', x, rfl⟩ : ∃ t' x, t = t' ++ [x] := by
      rcases List.eq_nil_or_concat t with h | ⟨l, a, h⟩
      · exact absurd h hne
      · exact ⟨l, a, by simpa using h⟩
    rw [trailEnd_snoc] at hF ⊢
    exact ⟨⟨t', h1, by simpa using h2⟩, hF⟩
  · rintro ⟨⟨t, h1, h2⟩, hF⟩
    exact ⟨⟨t ++ [x], (mem_trails_iff P n _).mpr ⟨by simp, h1, by simpa using h2⟩,
      trailEnd_snoc t x⟩, hF⟩

/-- **`dfs`, both directions**: `x` is yielded iff it is the end of a trail below the start node
all of whose earlier positions are not pruned, and the filter accepts it -/
theorem mem_dfsImpl_iff_trail (b : Bool) (n : Node) (x : Item) :
    x ∈ dfsImpl P F b n ↔
      (∃ t, IsTrail n (t ++ [x]) ∧ ∀ y ∈ t, P y = false) ∧ F x = true := by
  cases b
  · rw [dfs_top_down]; exact mem_pre_iff_trail P F n x
  · rw [dfs_bottom_up, (post_perm_pre P F n).mem_iff]; exact mem_pre_iff_trail P F n x

/-- **`bfs`**: the same characterisation -/
theorem mem_bfsImpl_iff_trail (n : Node) (x : Item) :
    x ∈ bfsImpl P F n ↔
      (∃ t, IsTrail n (t ++ [x]) ∧ ∀ y ∈ t, P y = false) ∧ F x = true := by
  rw [bfs_levels, (bfs_perm_pre P F n).mem_iff]; exact mem_pre_iff_trail P F n x

/-- **no yielded path has a pruned position as a proper prefix** (any traversal, any tree): every
yielded position is the end of a trail from the start node whose earlier positions are all not
pruned; in particular a trail through a pruned position is never the witness -/
theorem yielded_has_unpruned_trail (n : Node) (x : Item) (b : Bool)
    (hx : x ∈ dfsImpl P F b n ∨ x ∈ bfsImpl P F n) :
    ∃ t, IsTrail n (t ++ [x]) ∧ ∀ y ∈ t, P y = false := by
  rcases hx with hx | hx
  · exact ((mem_dfsImpl_iff_trail P F b n x).mp hx).1
  · exact ((mem_bfsImpl_iff_trail P F n x).mp hx).1

/-! ### levels of `bfs` by trail length -/

/-- **level by level = by depth**: the `k`-th level holds exactly the ends of the trails of
`k + 1` positions below the start node whose earlier positions are not pruned -/
theorem level_iff_trail (n : Node) (k : Nat) (x : Item) :
    x ∈ level P n k ↔ ∃ t, t.length = k ∧ IsTrail n (t ++ [x]) ∧ ∀ y ∈ t, P y = false := by
  induction k generalizing x with
  | zero =>
    simp only [level]
    constructor
    · intro h; exact ⟨[], rfl, by simpa [IsTrail] using h, by simp⟩
    · rintro ⟨t, ht, h, _⟩
      have : t = [] := List.eq_nil_of_length_eq_zero ht
      subst this
      simpa [IsTrail] using h
  | succ k ih =>
    simp only [level, nextLevel, List.mem_flatMap, List.mem_filter]
    constructor
    · rintro ⟨y, ⟨hy, hPy⟩, hx⟩
      obtain ⟨t, ht, h1, h2⟩ := (ih y).mp hy
      refine ⟨t ++ [y], by simp [ht], ?_, ?_⟩
      · rw [isTrail_snoc, endNode_snoc]; exact ⟨h1, hx⟩
      · intro z hz
        rcases List.mem_append.mp hz with hz | hz
        · exact h2 z hz
        · simp only [List.mem_singleton] at hz; subst hz; simpa using hPy
    · rintro ⟨t, ht, h1, h2⟩
      obtain ⟨t', y, rfl⟩ : ∃ t' y, t = t' ++ [y] := by
        rcases List.eq_nil_or_concat t with h | ⟨l, a, h⟩
        · subst h; simp at ht
        · exact ⟨l, a, by simpa using h⟩
      rw [isTrail_snoc, endNode_snoc] at h1
      refine ⟨y, ⟨(ih y).mpr ⟨t', by simpa using ht, h1.1, fun z hz => h2 z (by simp [hz])⟩, ?_⟩, h1.2⟩
      simp [h2 y (by simp)]

/-! ### non-vacuity -/

private def hd (u : Nat) (c : Str) : Head :=
  { uid := u, cls := c, mro := [c, ['N']], org := ⟨0, []⟩, props := [], truthy := true }
private def leaf (u : Nat) : Node := .mk (hd u ['L']) []
private def mid : Node := .mk (hd 2 ['M']) [.mk ['x'] false [leaf 3], .mk ['y'] true [leaf 5, leaf 6]]
/-- `mid` is stored twice (a shared object) -/
private def shared : Node := .mk (hd 0 ['R']) [.mk ['a'] true [mid, mid], .mk ['b'] false [leaf 4]]

private def pr2 : Item → Bool := fun it => it.edge == ⟨['a'], some 0⟩

-- the trails of a tree with a shared object: each PATH once, although `mid`'s positions repeat
example : (trails (fun _ => false) shared).map pathOf =
    [[⟨['a'], some 0⟩], [⟨['a'], some 0⟩, ⟨['x'], none⟩], [⟨['a'], some 0⟩, ⟨['y'], some 0⟩],
     [⟨['a'], some 0⟩, ⟨['y'], some 1⟩],
     [⟨['a'], some 1⟩], [⟨['a'], some 1⟩, ⟨['x'], none⟩], [⟨['a'], some 1⟩, ⟨['y'], some 0⟩],
     [⟨['a'], some 1⟩, ⟨['y'], some 1⟩], [⟨['b'], none⟩]] := by decide
-- pruning the FIRST occurrence of the shared object only: its second occurrence is still descended
example : (trails pr2 shared).map pathOf =
    [[⟨['a'], some 0⟩],
     [⟨['a'], some 1⟩], [⟨['a'], some 1⟩, ⟨['x'], none⟩], [⟨['a'], some 1⟩, ⟨['y'], some 0⟩],
     [⟨['a'], some 1⟩, ⟨['y'], some 1⟩], [⟨['b'], none⟩]] := by decide
example : (dfsImpl pr2 (fun _ => true) false shared).map (·.node.uid) = [2, 2, 3, 5, 6, 4] := by decide
example : (gatherImpl [['L']] true (fun _ => true) pr2 shared).map (·.uid) = [3, 5, 6, 4] := by
  decide
example : (gatherImpl [['N']] false (fun it => it.node.uid != 4) (fun _ => false) shared).map (·.uid) =
    [2, 3, 5, 6, 2, 3, 5, 6] := by decide
example : IsTrail shared ([⟨mid, shared, ⟨['a'], some 1⟩⟩] ++ [⟨leaf 3, mid, ⟨['x'], none⟩⟩]) :=
  ⟨List.Mem.tail _ (List.Mem.head _), List.Mem.head _, trivial⟩

#print axioms trails_eq
#print axioms trails_end
#print axioms trails_prune
#print axioms mem_trails_noprune
#print axioms mem_trails_iff
#print axioms dfs_eq_trails
#print axioms dfs_noprune_eq_trails
#print axioms gather_spec
#print axioms gather_noprune
#print axioms gather_eq_trails
#print axioms mem_dfsImpl_iff_trail
#print axioms mem_bfsImpl_iff_trail
#print axioms yielded_has_unpruned_trail
#print axioms level_iff_trail

end C05T
end PyOak
