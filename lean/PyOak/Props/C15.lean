/-
C15 — origin algebra: interval laws, hull merging, flat multi-origins, exact slices.

Part 1 is proved about the definitions GENERATED from `src/pyoak/origin.py` (PyOak/Gen/Origin.lean) with
`grind` only (every generated definition is tagged `@[grind]`), so a harmless rewrite of the Python source
re-proves and a semantic change breaks a proof.  Part 2 is about the hand-written model of
merge_origins / concat_origins / `+` / MultiOrigin / fqn / get_raw (PyOak/Model/Origin.lean), which is tied
to the code by the differential correspondence.

Reading (DESIGN §5 C15): "ordered by index" — the laws are stated on indices unconditionally, and on `==`
(record equality) under *coherence* hypotheses "equal index ⇒ equal point" for the points involved.
-/
import PyOak.Spec.Origin
namespace PyOak.C15
open PyOak.Gen PyOak.OriginAlg

/-! ## Part 1 — kernels (generated definitions) -/

/-- `CodePoint(i, l, c)` is accepted iff index ≥ 0, line ≥ 1, column ≥ 0 -/
theorem point_valid_iff (p : CodePoint) : p.valid = true ↔ 0 ≤ p.index ∧ 1 ≤ p.line ∧ 0 ≤ p.column := by
  grind
example : (CodePoint.mk 0 1 0).valid = true ∧ (CodePoint.mk (-1) 1 0).valid = false ∧
    (CodePoint.mk 0 0 0).valid = false ∧ (CodePoint.mk 0 1 (-1)).valid = false := by decide

/-- `CodeRange(s, e)` is accepted iff `s.index ≤ e.index` -/
theorem range_valid_iff (r : CodeRange) : r.valid = true ↔ r.start.index ≤ r.end_.index := by
  grind
example : (CodeRange.mk ⟨2, 1, 2⟩ ⟨2, 1, 2⟩).valid = true ∧ (CodeRange.mk ⟨3, 1, 3⟩ ⟨2, 1, 2⟩).valid = false := by
  decide

/-- the constructors of the model accept exactly the valid values (validity ⇔ constructor accepts) -/
theorem mkPoint_accepts (i l c : Int) :
    (mkPoint i l c = .ok ⟨i, l, c⟩ ↔ 0 ≤ i ∧ 1 ≤ l ∧ 0 ≤ c) ∧
    (mkPoint i l c = .error .valueError ↔ ¬(0 ≤ i ∧ 1 ≤ l ∧ 0 ≤ c)) := by
  have h := point_valid_iff ⟨i, l, c⟩
  simp only [mkPoint]
  by_cases hv : (CodePoint.mk i l c).valid = true
  · simp [hv, h.mp hv]
  · have : ¬(0 ≤ i ∧ 1 ≤ l ∧ 0 ≤ c) := fun x => hv (h.mpr x)
    simp [hv, this]
theorem mkRange_accepts (s e : CodePoint) :
    (mkRange s e = .ok ⟨s, e⟩ ↔ s.index ≤ e.index) ∧ (mkRange s e = .error .valueError ↔ e.index < s.index) := by
  have h := range_valid_iff ⟨s, e⟩
  simp only [mkRange]
  by_cases hv : (CodeRange.mk s e).valid = true
  · have := h.mp hv
    simp [hv]; simp at this; omega
  · have : ¬ (s.index ≤ e.index) := fun x => hv (h.mpr x)
    simp [hv]; omega
example : mkRange ⟨1, 1, 1⟩ ⟨0, 1, 0⟩ = .error .valueError := rfl

theorem point_lt_iff (a b : CodePoint) : a.lt b = true ↔ a.index < b.index := by grind
theorem point_le_iff (a b : CodePoint) : a.le b = true ↔ a.index ≤ b.index := by grind

/-- containment is inclusion of index intervals -/
theorem contains_iff (a b : CodeRange) :
    a.contains b = true ↔ a.start.index ≤ b.start.index ∧ b.end_.index ≤ a.end_.index := by grind
theorem contains_refl (a : CodeRange) : a.contains a = true := by grind
theorem contains_trans (a b c : CodeRange) (h1 : a.contains b = true) (h2 : b.contains c = true) :
    a.contains c = true := by grind
/-- antisymmetry at index level -/
theorem contains_antisymm_index (a b : CodeRange) (h1 : a.contains b = true) (h2 : b.contains a = true) :
    a.start.index = b.start.index ∧ a.end_.index = b.end_.index := by grind
/-- antisymmetry at `==` level, under coherence of the four end points -/
theorem contains_antisymm (a b : CodeRange) (h1 : a.contains b = true) (h2 : b.contains a = true)
    (hs : a.start.index = b.start.index → a.start = b.start)
    (he : a.end_.index = b.end_.index → a.end_ = b.end_) : a = b := by
  cases a; cases b; grind
example : (CodeRange.mk ⟨0, 1, 0⟩ ⟨4, 1, 4⟩).contains ⟨⟨1, 1, 1⟩, ⟨3, 1, 3⟩⟩ = true ∧
    (CodeRange.mk ⟨1, 1, 1⟩ ⟨3, 1, 3⟩).contains ⟨⟨1, 1, 1⟩, ⟨4, 1, 4⟩⟩ = false := by decide

/-- overlap is symmetric -/
theorem overlaps_symm (a b : CodeRange) : a.overlaps b = b.overlaps a := by grind
theorem overlaps_iff (a b : CodeRange) :
    a.overlaps b = true ↔ b.start.index ≤ a.end_.index ∧ a.start.index ≤ b.end_.index := by grind
/-- touching (adjacent) ranges overlap -/
theorem overlaps_touching (a b : CodeRange) (ha : a.valid = true) (hb : b.valid = true)
    (h : a.end_.index = b.start.index) : a.overlaps b = true ∧ b.overlaps a = true := by grind
/-- a range that contains another one overlaps it -/
theorem overlaps_of_contains (a b : CodeRange) (hb : b.valid = true) (h : a.contains b = true) :
    a.overlaps b = true := by grind
example : (CodeRange.mk ⟨0, 1, 0⟩ ⟨2, 1, 2⟩).overlaps ⟨⟨2, 1, 2⟩, ⟨4, 1, 4⟩⟩ = true ∧
    (CodeRange.mk ⟨0, 1, 0⟩ ⟨2, 1, 2⟩).overlaps ⟨⟨3, 1, 3⟩, ⟨4, 1, 4⟩⟩ = false := by decide

/-- `a < b` iff a ends before b starts -/
theorem lt_iff (a b : CodeRange) : a.lt b = true ↔ a.end_.index < b.start.index := by grind
/-- `a < b` excludes overlap, and not overlapping means one is before the other -/
theorem lt_not_overlaps (a b : CodeRange) (h : a.lt b = true) : a.overlaps b = false := by grind
theorem not_overlaps_iff (a b : CodeRange) :
    a.overlaps b = false ↔ (a.lt b = true ∨ b.lt a = true) := by grind

/-- the hull `a + b` contains both operands … -/
theorem add_contains_left (a b : CodeRange) : (a.add b).contains a = true := by grind
theorem add_contains_right (a b : CodeRange) : (a.add b).contains b = true := by grind
/-- … is the least such range … -/
theorem add_least (a b c : CodeRange) (h1 : c.contains a = true) (h2 : c.contains b = true) :
    c.contains (a.add b) = true := by grind
/-- … spans exactly min start .. max end … -/
theorem add_index (a b : CodeRange) :
    (a.add b).start.index = min a.start.index b.start.index ∧
    (a.add b).end_.index = max a.end_.index b.end_.index := by grind
/-- … and is a valid range as soon as one operand is (so the `CodeRange(..)` call inside `__add__` accepts it) -/
theorem add_valid (a b : CodeRange) (h : a.valid = true ∨ b.valid = true) : (a.add b).valid = true := by grind
theorem rangeAdd_ok (a b : CodeRange) (h : a.valid = true ∨ b.valid = true) : rangeAdd a b = .ok (a.add b) := by
  simp [rangeAdd, add_valid a b h]
/-- commutative: on indices always, on `==` under coherence -/
theorem add_comm_index (a b : CodeRange) :
    (a.add b).start.index = (b.add a).start.index ∧ (a.add b).end_.index = (b.add a).end_.index := by grind
theorem add_comm (a b : CodeRange) (hs : a.start.index = b.start.index → a.start = b.start)
    (he : a.end_.index = b.end_.index → a.end_ = b.end_) : a.add b = b.add a := by grind
/-- associative: on indices always, on `==` under coherence of the three starts and of the three ends -/
theorem add_assoc_index (a b c : CodeRange) :
    ((a.add b).add c).start.index = (a.add (b.add c)).start.index ∧
    ((a.add b).add c).end_.index = (a.add (b.add c)).end_.index := by grind
theorem add_assoc (a b c : CodeRange)
    (hs1 : a.start.index = b.start.index → a.start = b.start) (hs2 : b.start.index = c.start.index → b.start = c.start)
    (hs3 : a.start.index = c.start.index → a.start = c.start)
    (he1 : a.end_.index = b.end_.index → a.end_ = b.end_) (he2 : b.end_.index = c.end_.index → b.end_ = c.end_)
    (he3 : a.end_.index = c.end_.index → a.end_ = c.end_) : (a.add b).add c = a.add (b.add c) := by
  grind (splits := 40)
/-- idempotent -/
theorem add_idem (a : CodeRange) : a.add a = a := by cases a; grind
/-- adding a contained range changes nothing at index level -/
theorem add_absorb_index (a b : CodeRange) (h : a.contains b = true) :
    (a.add b).start.index = a.start.index ∧ (a.add b).end_.index = a.end_.index := by grind
example : (CodeRange.mk ⟨1, 1, 1⟩ ⟨2, 1, 2⟩).add ⟨⟨0, 1, 0⟩, ⟨4, 1, 4⟩⟩ = ⟨⟨0, 1, 0⟩, ⟨4, 1, 4⟩⟩ := by decide

theorem get_code_range_eq (a b c d e f : Int) : get_code_range a b c d e f = ⟨⟨a, b, c⟩, ⟨d, e, f⟩⟩ := by grind
theorem empty_range_eq : EMPTY_CODE_RANGE = ⟨⟨0, 1, 0⟩, ⟨0, 1, 0⟩⟩ ∧ EMPTY_CODE_RANGE.valid = true := by grind

/-- the decision of `CodeOrigin.__add__`: it produces a code origin exactly when the other operand is a
`CodeOrigin` (narrowing), the sources are `==` and the ranges overlap (or touch); that origin keeps the left
source and spans the hull -/
theorem codeAdd_narrow : CodeOrigin.add_narrow = "CodeOrigin" := by decide
theorem codeAdd_some {S : Type} [BEq S] (x y : CodeOrigin S) (hs : (x.source == y.source) = true)
    (ho : x.position.overlaps y.position = true) :
    CodeOrigin.add x y = some ⟨x.source, x.position.add y.position⟩ := by grind
theorem codeAdd_none {S : Type} [BEq S] (x y : CodeOrigin S)
    (h : ¬((x.source == y.source) = true ∧ x.position.overlaps y.position = true)) :
    CodeOrigin.add x y = none := by grind
example : CodeOrigin.add (S := Nat) ⟨7, ⟨⟨0, 1, 0⟩, ⟨2, 1, 2⟩⟩⟩ ⟨7, ⟨⟨2, 1, 2⟩, ⟨3, 1, 3⟩⟩⟩
    = some ⟨7, ⟨⟨0, 1, 0⟩, ⟨3, 1, 3⟩⟩⟩ := by decide
example : CodeOrigin.add (S := Nat) ⟨7, ⟨⟨0, 1, 0⟩, ⟨2, 1, 2⟩⟩⟩ ⟨8, ⟨⟨2, 1, 2⟩, ⟨3, 1, 3⟩⟩⟩ = none := by decide
/-- when the other operand is NOT a code origin the method defers to `Origin.__add__` (the `super()` call): the translation
of the function body under a failing `isinstance(other, CodeOrigin)` test is `none` for all arguments -/
theorem codeAdd_other_none {S : Type} [BEq S] (x y : CodeOrigin S) : CodeOrigin.add_other x y = none := by grind

/-! ## Part 2 — merge / `+` / concat / MultiOrigin / fqn / get_raw (hand-written model) -/

theorem mergeStep_eq (acc : List Origin) (o : Origin) : mergeStep acc o = acc ++ leaves o := by
  cases o <;> simp [mergeStep, leaves]

theorem foldl_mergeStep (os : List Origin) (acc : List Origin) :
    os.foldl mergeStep acc = acc ++ os.flatMap leaves := by
  induction os generalizing acc with
  | nil => simp
  | cons o r ih => simp [List.foldl_cons, ih, mergeStep_eq, List.append_assoc]

/-- `MultiOrigin(origins)` with at least two origins: the listed origins are kept as they are and in order;
the source is the common source if all sources are `==` to the first, otherwise the `SourceSet` of all
sources in operand order; the position is the `PositionSet` of all positions in operand order -/
theorem mkMulti_spec (x y : Origin) (r : List Origin) :
    mkMulti (x :: y :: r) = .ok (.multi
      (if (y :: r).all (fun o => o.source == x.source) then x.source
       else .set ((x :: y :: r).map Origin.source))
      (.set ((x :: y :: r).map Origin.position)) (x :: y :: r)) := by
  simp [mkMulti]
/-- … and with fewer than two it is rejected (ValueError) -/
theorem mkMulti_short (xs : List Origin) (h : xs.length < 2) : mkMulti xs = .error .valueError := by
  match xs, h with
  | [], _ => rfl
  | [_], _ => rfl

/-- `merge_origins` of one origin is that origin -/
theorem merge_single (o : Origin) : merge [o] = .ok o := rfl

/-- `merge_origins` otherwise: drop NoOrigin, splice MultiOrigins, keep the rest, in order; then NoOrigin when
nothing remains, the origin itself when one remains, else a MultiOrigin of them -/
theorem merge_spec (os : List Origin) (h : os.length ≠ 1) : merge os = pack (os.flatMap leaves) := by
  match os, h with
  | [], _ => rfl
  | a :: b :: r, _ =>
    show pack ((a :: b :: r).foldl mergeStep []) = _
    rw [foldl_mergeStep]; rfl

theorem pack_nil : pack [] = .ok .none := rfl
theorem pack_one (x : Origin) : pack [x] = .ok x := rfl
theorem pack_many (x y : Origin) (r : List Origin) : pack (x :: y :: r) = mkMulti (x :: y :: r) := rfl

/-- `merge_origins` never raises (on origins) -/
theorem merge_ok (os : List Origin) : ∃ r, merge os = .ok r := by
  have hp : ∀ xs, ∃ r, pack xs = .ok r := by
    intro xs
    match xs with
    | [] => exact ⟨_, rfl⟩
    | [x] => exact ⟨_, rfl⟩
    | x :: y :: r => exact ⟨_, by rw [pack_many, mkMulti_spec]⟩
  match os with
  | [] => exact hp []
  | [o] => exact ⟨o, rfl⟩
  | a :: b :: r => exact hp ((a :: b :: r).foldl mergeStep [])

theorem leaf_leaves (o : Origin) (h : o.isLeaf = true) : leaves o = [o] ∧ Flat o := by
  cases o <;> simp_all [Origin.isLeaf, Origin.isNone, Origin.isMulti, leaves, Flat]

theorem flat_leaves_leaf (o : Origin) (h : Flat o) : ∀ x ∈ leaves o, x.isLeaf = true := by
  cases o <;> simp_all [Origin.isLeaf, Origin.isNone, Origin.isMulti, leaves, Flat]

/-- a flat origin is determined by the single origins it lists -/
theorem flat_pack_leaves (o : Origin) (h : Flat o) : pack (leaves o) = .ok o := by
  cases o with
  | none => rfl
  | code g s r => rfl
  | other k s p => rfl
  | multi s p os =>
    obtain ⟨_, hm⟩ := h
    match os, hm with
    | [], hm => simp [mkMulti] at hm
    | [_], hm => simp [mkMulti] at hm
    | x :: y :: r, hm => simpa [leaves, pack] using hm

theorem flat_leaves_singleton (a x : Origin) (h : Flat a) (hl : leaves a = [x]) : a = x := by
  have := flat_pack_leaves a h
  rw [hl, pack_one] at this
  exact (Except.ok.inj this).symm

/-- packing single origins gives a flat origin that lists exactly them -/
theorem pack_flat (xs : List Origin) (hx : ∀ x ∈ xs, x.isLeaf = true) (r : Origin) (h : pack xs = .ok r) :
    Flat r ∧ leaves r = xs := by
  match xs, hx, h with
  | [], _, h => cases h; exact ⟨trivial, rfl⟩
  | [x], hx, h =>
    cases h
    have := leaf_leaves r (hx r (by simp))
    exact ⟨this.2, this.1⟩
  | x :: y :: t, hx, h =>
    rw [pack_many, mkMulti_spec] at h
    cases h
    exact ⟨⟨hx, mkMulti_spec x y t⟩, rfl⟩

/-- for flat operands (any number, one included) `merge_origins` is determined by the listed single origins -/
theorem merge_flat_spec (os : List Origin) (hf : ∀ o ∈ os, Flat o) : merge os = pack (os.flatMap leaves) := by
  by_cases h : os.length = 1
  · match os, h with
    | [o], _ =>
      have := flat_pack_leaves o (hf o (by simp))
      simp [merge_single, this]
  · exact merge_spec os h

/-- `merge_origins` of flat origins: the result is flat — a MultiOrigin never contains a MultiOrigin or NoOrigin —
and lists exactly the non-empty single operands in order -/
theorem merge_flat (os : List Origin) (hf : ∀ o ∈ os, Flat o) (r : Origin) (h : merge os = .ok r) :
    Flat r ∧ leaves r = os.flatMap leaves := by
  rw [merge_flat_spec os hf] at h
  refine pack_flat _ ?_ r h
  intro x hx
  obtain ⟨o, ho, hxo⟩ := List.mem_flatMap.mp hx
  exact flat_leaves_leaf o (hf o ho) x hxo

/-- NoOrigin when nothing remains, the operand itself when one remains, a MultiOrigin of all of them otherwise -/
theorem merge_flat_cases (os : List Origin) (hf : ∀ o ∈ os, Flat o) :
    (os.flatMap leaves = [] → merge os = .ok .none) ∧
    (∀ x, os.flatMap leaves = [x] → merge os = .ok x) ∧
    (∀ x y t, os.flatMap leaves = x :: y :: t → merge os = mkMulti (x :: y :: t)) := by
  rw [merge_flat_spec os hf]
  refine ⟨fun h => by rw [h]; rfl, fun x h => by rw [h]; rfl, fun x y t h => by rw [h]; rfl⟩

/-- every `+` that is not the mergeable code-origin case is `merge_origins(a, b)` -/
theorem add_eq_merge (a b : Origin) (h : mergeable a b = false) : add a b = merge [a, b] := by
  cases a <;> cases b <;> simp only [add]
  case code.code ga sa ra gb sb rb =>
    have : CodeOrigin.add (S := SrcV) ⟨sa, ra⟩ ⟨sb, rb⟩ = none := by
      apply codeAdd_none
      simpa [mergeable] using h
    simp [this]

/-- adding two code origins of the same source whose ranges overlap or touch yields ONE code origin, over the hull,
with the source of the left operand -/
theorem add_code_same_source_overlap (ga gb : Bool) (sa sb : SrcV) (ra rb : CodeRange)
    (hm : mergeable (.code ga sa ra) (.code gb sb rb) = true) (hv : ra.valid = true ∨ rb.valid = true) :
    add (.code ga sa ra) (.code gb sb rb) = .ok (.code false sa (ra.add rb)) := by
  simp only [mergeable, Bool.and_eq_true] at hm
  have : CodeOrigin.add (S := SrcV) ⟨sa, ra⟩ ⟨sb, rb⟩ = some ⟨sa, ra.add rb⟩ := codeAdd_some _ _ hm.1 hm.2
  simp [add, this, add_valid ra rb hv]

/-- `get_raw()` of a code origin over a text source is exactly the slice `text[start.index : end.index]` … -/
theorem getRaw_code (s : Src) (t : Str) (r : CodeRange) (h : s.raw = .text t) :
    getRaw (.code false (.one s) r) = some (slice t r.start.index r.end_.index) := by
  simp [getRaw, h]
/-- … so the sum of two mergeable code origins reads the slice over the hull of the left operand's text -/
theorem add_code_get_raw (ga gb : Bool) (s : Src) (sb : SrcV) (t : Str) (ra rb : CodeRange) (h : s.raw = .text t)
    (hm : mergeable (.code ga (.one s) ra) (.code gb sb rb) = true) (hv : ra.valid = true ∨ rb.valid = true) :
    ∃ o, add (.code ga (.one s) ra) (.code gb sb rb) = .ok o ∧
      getRaw o = some (slice t (min ra.start.index rb.start.index) (max ra.end_.index rb.end_.index)) := by
  refine ⟨_, add_code_same_source_overlap ga gb _ sb ra rb hm hv, ?_⟩
  rw [getRaw_code s t _ h, (add_index ra rb).1, (add_index ra rb).2]

/-- what the slice is: for `0 ≤ lo`, `0 ≤ hi` it has the characters at positions `lo ≤ k < hi` of the text -/
theorem slice_getElem? (t : Str) (lo hi : Nat) (i : Nat) :
    (slice t lo hi)[i]? = if i < hi - lo then t[lo + i]? else none := by
  simp [slice, List.getElem?_take, List.getElem?_drop]
theorem slice_length (t : Str) (lo hi : Nat) : (slice t lo hi).length = min (hi - lo) (t.length - lo) := by
  simp [slice]
example : slice "hello world".toList 3 8 = "lo wo".toList := by decide

/-- one `+` on flat operands: the result is flat and its listing is `specStep` of the listing so far -/
theorem add_flat (a b : Origin) (ha : Flat a) (hb : Flat b) (r : Origin) (h : add a b = .ok r) :
    Flat r ∧ leaves r = specStep (leaves a) b := by
  by_cases hm : mergeable a b = true
  · cases a <;> cases b <;> simp [mergeable] at hm
    case code.code ga sa ra gb sb rb =>
      have h2 : CodeOrigin.add (S := SrcV) ⟨sa, ra⟩ ⟨sb, rb⟩ = some ⟨sa, ra.add rb⟩ := codeAdd_some _ _ hm.1 hm.2
      simp only [add, h2] at h
      split at h
      · cases h
        simp [Flat, leaves, specStep, mergeable, hm.1, hm.2]
      · cases h
  · have hm' : mergeable a b = false := by simpa using hm
    rw [add_eq_merge a b hm'] at h
    have := merge_flat [a, b] (by intro o ho; simp at ho; rcases ho with rfl | rfl <;> assumption) r h
    refine ⟨this.1, ?_⟩
    rw [this.2]
    simp only [List.flatMap_cons, List.flatMap_nil, List.append_nil]
    unfold specStep
    split
    · rename_i ga sa ra gb sb rb hl
      have ea := flat_leaves_singleton a _ ha hl
      subst ea
      simp [hm', leaves]
    · rfl

theorem concat_nil (o : Origin) : concat o [] = .ok o := rfl
theorem concat_cons (o b : Origin) (os : List Origin) :
    concat o (b :: os) = (add o b).bind (fun a => concat a os) := by
  have step : (Except.ok o : Except Err Origin).bind (fun a => add a b) = add o b := rfl
  simp only [concat, List.foldl_cons, step]
  cases add o b with
  | ok a => rfl
  | error e =>
    show List.foldl _ (Except.error e) os = Except.error e
    induction os with
    | nil => rfl
    | cons c t ih => exact ih

/-- `concat_origins` on flat operands: the result is flat, and it lists what the left fold of `specStep` lists:
operands in order, NoOrigin dropped, MultiOrigins spliced, and an accumulated single code origin fused with a
following code origin of the same source that overlaps or touches it -/
theorem concat_flat (o : Origin) (os : List Origin) (ho : Flat o) (hf : ∀ b ∈ os, Flat b) (r : Origin)
    (h : concat o os = .ok r) : Flat r ∧ leaves r = os.foldl specStep (leaves o) := by
  induction os generalizing o with
  | nil => cases h; exact ⟨ho, rfl⟩
  | cons b t ih =>
    rw [concat_cons] at h
    cases hab : add o b with
    | error e => simp [hab, Except.bind] at h
    | ok a =>
      simp only [hab, Except.bind] at h
      have st := add_flat o b ho (hf b (by simp)) a hab
      have := ih a st.1 (fun c hc => hf c (by simp [hc])) h
      simpa [List.foldl_cons, st.2] using this

/-- when no fusion is possible (no code origin among the operands' listings meets a mergeable partner), concat is
merge; stated for the simplest sufficient condition: the accumulated listing never is a single code origin -/
theorem specStep_eq_append (acc : List Origin) (b : Origin) (h : ∀ x ∈ acc, ∀ g s r, x ≠ .code g s r) :
    specStep acc b = acc ++ leaves b := by
  unfold specStep
  split
  · rename_i ga sa ra gb sb rb
    exact absurd rfl (h (.code ga sa ra) (by simp) ga sa ra)
  · rfl

/-- fqn composition: `source.fqn :: position.fqn`; a source set / position set joins its members with `||` -/
theorem fqn_compose (o : Origin) (h : o.isNone = false) : o.fqn = o.source.fqn ++ uriDelim ++ o.position.fqn := by
  cases o <;> simp_all [Origin.fqn, Origin.isNone]
theorem fqn_none : Origin.none.fqn = noOriginName := rfl
example : uriDelim = "::".toList ∧ setsDelim = "||".toList ∧ sourceSetOpen = "SourceSet(".toList ∧
    positionSetOpen = "PositionSet(".toList ∧ closeParen = ")".toList ∧ noOriginName = "NoOrigin".toList ∧
    noPositionName = "NoPosition".toList ∧ entireName = "(entire source)".toList ∧ dash = "-".toList ∧
    noSrc.fqn = "NoSource".toList := by decide

theorem posFqnList_eq (ps : List PosV) : PosV.fqnList ps = ps.map PosV.fqn := by
  induction ps with
  | nil => simp [PosV.fqnList]
  | cons p r ih => simp [PosV.fqnList, ih]
theorem srcFqnList_eq (ss : List SrcV) : SrcV.fqnList ss = ss.map SrcV.fqn := by
  induction ss with
  | nil => simp [SrcV.fqnList]
  | cons p r ih => simp [SrcV.fqnList, ih]

theorem posSet_fqn (ps : List PosV) :
    (PosV.set ps).fqn = positionSetOpen ++ joinSep setsDelim (ps.map PosV.fqn) ++ closeParen := by
  simp only [PosV.fqn, posFqnList_eq]
theorem srcSet_fqn (ss : List SrcV) :
    (SrcV.set ss).fqn = sourceSetOpen ++ joinSep setsDelim (ss.map SrcV.fqn) ++ closeParen := by
  simp only [SrcV.fqn, srcFqnList_eq]
theorem codePos_fqn (r : CodeRange) : (PosV.code r).fqn = intStr r.start.index ++ dash ++ intStr r.end_.index := by
  simp only [PosV.fqn]

/-- the fqn of a constructed MultiOrigin composes the members' source and position fqns, in operand order -/
theorem multi_fqn (x y : Origin) (t : List Origin) (m : Origin) (h : mkMulti (x :: y :: t) = .ok m) :
    m.fqn = (if (y :: t).all (fun o => o.source == x.source) then x.source.fqn
             else sourceSetOpen ++ joinSep setsDelim ((x :: y :: t).map (fun o => o.source.fqn)) ++ closeParen)
        ++ uriDelim
        ++ (positionSetOpen ++ joinSep setsDelim ((x :: y :: t).map (fun o => o.position.fqn)) ++ closeParen) := by
  rw [mkMulti_spec] at h
  cases h
  show SrcV.fqn (ite _ _ _) ++ uriDelim ++ (PosV.set _).fqn = _
  rw [posSet_fqn, List.map_map]
  split
  · rfl
  · rw [srcSet_fqn, List.map_map]; rfl

/-! ### non-vacuity -/
def sA : SrcV := .one { key := 1, fqn := ['a'], raw := .text "hello world".toList }
def sB : SrcV := .one { key := 2, fqn := ['b'], raw := .none }
def c02 : Origin := .code false sA ⟨⟨0, 1, 0⟩, ⟨2, 1, 2⟩⟩
def c24 : Origin := .code false sA ⟨⟨2, 1, 2⟩, ⟨4, 1, 4⟩⟩
def c57 : Origin := .code false sA ⟨⟨5, 1, 5⟩, ⟨7, 1, 7⟩⟩
def xB : Origin := .other .xml sB (.xml ['/', 'r', '/', 'x'])

example : (add c02 c24).toOption.map getRaw = some (some "hell".toList) := by decide
example : (merge [.none, c02, .none]).toOption.map leaves = some [c02] := by
  simp [merge, mergeStep, pack, leaves, c02, Except.toOption]
example : ∃ m, merge [c02, xB, c57] = .ok m ∧ Flat m ∧ leaves m = [c02, xB, c57] ∧
    m.fqn = "SourceSet(a||b||a)::PositionSet(0-2||/r/x||5-7)".toList := by
  refine ⟨_, rfl, ⟨by decide, rfl⟩, rfl, by decide⟩
example : ∃ m, concat c02 [c24, xB, c57] = .ok m ∧ m.fqn = "SourceSet(a||b||a)::PositionSet(0-4||/r/x||5-7)".toList := by
  refine ⟨_, rfl, by decide⟩
example : mergeable c02 c24 = true ∧ mergeable c02 c57 = false ∧ mergeable c02 xB = false := by decide

end PyOak.C15
