/-
The transform visitor / transformer of Model/LegacyTransform.lean are RUNS of the primitive machine:
for every function `f` there, `(f ..).s = run s (f ..).ops`, and when `f` returns (no error) every
one of these primitive steps returned.  This is what lets the theorems about `step` compose.
-/
import PyOak.Model.LegacyTransform
import PyOak.Props.LegacyBase
namespace PyOak.Legacy
open LState

section
variable (H Hc : Str → Str)

theorem run_append (s : LState) (a b : List LOp) : run H Hc s (a ++ b) = run H Hc (run H Hc s a) b := by
  unfold run; rw [List.foldl_append]

theorem run_cons (s : LState) (op : LOp) (r : List LOp) : run H Hc s (op :: r) = run H Hc (step H Hc s op).1 r := rfl

/-- every primitive step of the list returned (none was rejected) -/
def AllOk : LState → List LOp → Prop
  | _, [] => True
  | s, op :: r => (step H Hc s op).2.isOk = true ∧ AllOk (step H Hc s op).1 r

theorem allOk_append : ∀ (a b : List LOp) (s : LState),
    AllOk H Hc s (a ++ b) ↔ AllOk H Hc s a ∧ AllOk H Hc (run H Hc s a) b := by
  intro a
  induction a with
  | nil => intro b s; simp [AllOk, run]
  | cons op r ih =>
    intro b s
    simp only [List.cons_append, AllOk, run_cons, ih, and_assoc]

def TOut.ok {α : Type} (r : TOut α) : Bool :=
  match r.res with
  | .ok _ => true
  | .error _ => false

/-- the result is the run of its own list of primitive operations, all of which returned when the
whole returned -/
def Tr {α : Type} (s : LState) (r : TOut α) : Prop :=
  r.s = run H Hc s r.ops ∧ (r.ok = true → AllOk H Hc s r.ops)

theorem Tr.pure {α : Type} (s : LState) (res : Except Err α) : Tr H Hc s ⟨s, [], res⟩ :=
  ⟨rfl, fun _ => trivial⟩

/-- a failure after a traced prefix -/
theorem Tr.fail {α β : Type} {s : LState} {r : TOut α} (h : Tr H Hc s r) (e : Err) :
    Tr H Hc s (⟨r.s, r.ops, .error e⟩ : TOut β) :=
  ⟨h.1, fun hk => by simp [TOut.ok] at hk⟩

/-- sequencing: a returned prefix, then a traced rest -/
theorem Tr.seq {α β γ : Type} {s : LState} {r1 : TOut α} {r2 : TOut β} (h1 : Tr H Hc s r1) (hok : r1.ok = true)
    (h2 : Tr H Hc r1.s r2) (res : Except Err γ) (hres : (∃ x, res = .ok x) → r2.ok = true) :
    Tr H Hc s (⟨r2.s, r1.ops ++ r2.ops, res⟩ : TOut γ) := by
  refine ⟨?_, ?_⟩
  · show r2.s = run H Hc s (r1.ops ++ r2.ops)
    rw [run_append, ← h1.1]; exact h2.1
  · intro hk
    show AllOk H Hc s (r1.ops ++ r2.ops)
    rw [allOk_append, ← h1.1]
    refine ⟨h1.2 hok, h2.2 (hres ?_)⟩
    cases res with
    | ok x => exact ⟨x, rfl⟩
    | error e => simp [TOut.ok] at hk

theorem Tr.after {α β : Type} {s : LState} {r1 : TOut α} {r2 : TOut β} (h1 : Tr H Hc s r1) (hok : r1.ok = true)
    (h2 : Tr H Hc r1.s r2) : Tr H Hc s (r2.after r1.ops) := by
  have := Tr.seq H Hc h1 hok h2 r2.res (fun ⟨x, hx⟩ => by simp [TOut.ok, hx])
  exact this

theorem primNode_tr (s : LState) (op : LOp) : Tr H Hc s (primNode H Hc s op) := by
  unfold primNode
  split
  · next s1 n h => exact ⟨by simp [run, h], fun _ => ⟨by simp [h, LOut.isOk], trivial⟩⟩
  · next s1 e h => exact ⟨by simp [run, h], fun hk => by simp [TOut.ok] at hk⟩
  · next s1 o _ _ h => exact ⟨by simp [run, h], fun hk => by simp [TOut.ok] at hk⟩

theorem primUnit_tr (s : LState) (op : LOp) : Tr H Hc s (primUnit H Hc s op) := by
  unfold primUnit
  split
  · next s1 e h => exact ⟨by simp [run, h], fun hk => by simp [TOut.ok] at hk⟩
  · next s1 o hne h =>
    refine ⟨by simp [run, h], fun _ => ⟨?_, trivial⟩⟩
    rw [h]
    cases o with
    | raised e => exact absurd rfl (hne e)
    | _ => rfl

end

section
variable (H Hc : Str → Str) (rules : List Rule)

theorem tKids_tr (rec : LState → Nat → TOut (Option Nat)) (hrec : ∀ s c, Tr H Hc s (rec s c)) :
    ∀ (ks : List Nat) (s : LState), Tr H Hc s (tKids rec s ks) := by
  intro ks
  induction ks with
  | nil => intro s; exact Tr.pure H Hc s _
  | cons c cs ih =>
    intro s
    unfold tKids
    have h1 := hrec s c
    split
    · next s1 t1 e heq => rw [heq] at h1; exact Tr.fail H Hc h1 e
    · next s1 t1 r heq =>
      rw [heq] at h1
      have h2 := ih s1
      split
      · next s2 t2 e heq2 =>
        rw [heq2] at h2; exact Tr.seq H Hc h1 rfl h2 (.error e) (fun ⟨x, hx⟩ => by cases hx)
      · next s2 t2 ks ch heq2 =>
        rw [heq2] at h2
        split <;> exact Tr.seq H Hc h1 rfl h2 _ (fun _ => rfl)

theorem tFields_tr (rec : LState → Nat → TOut (Option Nat)) (hrec : ∀ s c, Tr H Hc s (rec s c)) :
    ∀ (fs : List LField) (s : LState), Tr H Hc s (tFields rec s fs) := by
  intro fs
  induction fs with
  | nil => intro s; exact Tr.pure H Hc s _
  | cons f fr ih =>
    intro s
    unfold tFields
    have h1 := tKids_tr H Hc rec hrec f.kids s
    split
    · next s1 t1 e heq => rw [heq] at h1; exact Tr.fail H Hc h1 e
    · next s1 t1 ks ch heq =>
      rw [heq] at h1
      have h2 := ih s1
      split
      · next s2 t2 e heq2 =>
        rw [heq2] at h2; exact Tr.seq H Hc h1 rfl h2 (.error e) (fun ⟨x, hx⟩ => by cases hx)
      · next s2 t2 chs heq2 =>
        rw [heq2] at h2
        exact Tr.seq H Hc h1 rfl h2 _ (fun _ => rfl)

theorem visitBody_tr (rec : LState → Nat → TOut (Option Nat)) (hrec : ∀ s c, Tr H Hc s (rec s c))
    (s : LState) (u : Nat) : Tr H Hc s (visitBody H Hc rules rec s u) := by
  unfold visitBody
  split
  · exact Tr.pure H Hc s _
  · exact Tr.pure H Hc s _
  · exact primNode_tr H Hc s _
  · have h1 := tFields_tr H Hc rec hrec (s.obj u).fields s
    split
    · next s1 t1 e heq => rw [heq] at h1; exact Tr.fail H Hc h1 e
    · next s1 t1 chs heq =>
      rw [heq] at h1
      exact Tr.after H Hc h1 rfl (primNode_tr H Hc s1 _)
  · have h1 := tFields_tr H Hc rec hrec (s.obj u).fields s
    split
    · next s1 t1 e heq => rw [heq] at h1; exact Tr.fail H Hc h1 e
    · next s1 t1 chs heq =>
      rw [heq] at h1
      split
      · exact ⟨h1.1, fun _ => h1.2 rfl⟩
      · exact Tr.after H Hc h1 rfl (primNode_tr H Hc s1 _)

theorem visitGo_tr : ∀ (fuel : Nat) (s : LState) (u : Nat), Tr H Hc s (visitGo H Hc rules fuel s u) := by
  intro fuel
  induction fuel with
  | zero => intro s u; exact Tr.pure H Hc s _
  | succ fuel ih =>
    intro s u
    unfold visitGo
    split
    · have h1 := visitBody_tr H Hc rules (visitGo H Hc rules fuel) ih s u
      split
      · next s1 t1 e heq => rw [heq] at h1; exact Tr.fail H Hc h1 _
      · next s1 t1 r heq => rw [heq] at h1; exact h1
    · have h1 := primNode_tr H Hc s (.dup u true)
      split
      · next s1 t1 e heq => rw [heq] at h1; exact Tr.fail H Hc h1 _
      · next s1 t1 heq => rw [heq] at h1; exact Tr.fail H Hc h1 _
      · next s1 t1 n heq =>
        rw [heq] at h1
        have h2 := visitBody_tr H Hc rules (visitGo H Hc rules fuel) ih s1 n
        split
        · next s2 t2 e heq2 =>
          rw [heq2] at h2; exact Tr.seq H Hc h1 rfl h2 (.error (inTry e)) (fun ⟨x, hx⟩ => by cases hx)
        · next s2 t2 r heq2 =>
          rw [heq2] at h2
          have h12 : Tr H Hc s (⟨s2, t1 ++ t2, .ok r⟩ : TOut (Option Nat)) := Tr.seq H Hc h1 rfl h2 _ (fun _ => rfl)
          have h3 := primUnit_tr H Hc s2 (.rwith u r)
          split
          · next s3 t3 e heq3 =>
            rw [heq3] at h3; exact Tr.seq H Hc h12 rfl h3 (.error (inTry e)) (fun ⟨x, hx⟩ => by cases hx)
          · next s3 t3 x heq3 =>
            rw [heq3] at h3; exact Tr.seq H Hc h12 rfl h3 (.ok r) (fun _ => rfl)

theorem tvisit_tr (s : LState) (u : Nat) : Tr H Hc s (tvisit H Hc rules s u) := visitGo_tr H Hc rules _ s u

theorem ruleTransform_tr (s : LState) (c : Nat) (a : Act) : Tr H Hc s (ruleTransform H Hc s c a) := by
  cases a with
  | remove => exact Tr.pure H Hc s _
  | raise => exact Tr.pure H Hc s _
  | set ps => exact primNode_tr H Hc s _
  | make sp => exact primNode_tr H Hc s _

theorem execLoop_tr (root : Nat) : ∀ (l : List Nat) (s : LState), Tr H Hc s (execLoop H Hc rules root l s) := by
  intro l
  induction l with
  | nil => intro s; exact Tr.pure H Hc s _
  | cons c cs ih =>
    intro s
    unfold execLoop
    split
    · exact ih s
    · next a _ =>
      have h1 := ruleTransform_tr H Hc s c a
      split
      · next s1 t1 e heq => rw [heq] at h1; exact Tr.fail H Hc h1 _
      · next s1 t1 r heq =>
        rw [heq] at h1
        split
        · exact h1
        · split
          · have h2 := primUnit_tr H Hc s1 (.rwith c r)
            split
            · next s2 t2 e heq2 =>
              rw [heq2] at h2; exact Tr.seq H Hc h1 rfl h2 (.error (inTry e)) (fun ⟨x, hx⟩ => by cases hx)
            · next s2 t2 x heq2 =>
              rw [heq2] at h2
              have h12 : Tr H Hc s (⟨s2, t1 ++ t2, .ok r⟩ : TOut (Option Nat)) := Tr.seq H Hc h1 rfl h2 (.ok r) (fun _ => rfl)
              exact Tr.after H Hc h12 rfl (ih s2)
          · exact Tr.after H Hc h1 rfl (ih s1)

theorem texec_tr (s : LState) (u : Nat) : Tr H Hc s (texec H Hc rules s u) := by
  unfold texec
  split
  · exact Tr.pure H Hc s _
  · exact execLoop_tr H Hc rules u _ s

end
end PyOak.Legacy
