/-
C17 / C20 — the LEGACY xpath constructor (`pyoak.legacy.match.xpath.ASTXpath(text)`, model `lparseXPath`),
text level, soundness and completeness for the same relation as the successor's (`PathText`,
Props/C17XPathSound.lean): the grammar text is the same, the differences are the default class
(`AwareASTNode`) and the shape of the element list (`lwalk`: the `//` flag one entry further up, a leading
`//` as a separate entry), whose meaning is given by `C20.shift` / `C20.sat`.

  `lparse_sound`      : accepted ⇒ the text is a text of a written path `path` (any spacing, any digit
                        strings, any number of empty steps), the list returned denotes `ldenote path`
                        and legacy `match` decides `sat` of `ldenote path` along the node's chain
  `lparse_complete`   : every text of a written path is accepted, with that result
  `lparse_accepts_iff`: accepted ⇔ a text of some written path
  `legacy_accepts_iff_successor` : over the same class table the two constructors accept the same texts
-/
import PyOak.Props.C17XPathSound
namespace PyOak
namespace C17
open PM

/-- the legacy transformer's `element` result for a written step -/
def lrawOf (st : XStep) : RawEl := lmkRaw st.field (st.idx.map idxVal) st.cls

/-- the elements a written path denotes for the legacy xpath, in text order (default class `AwareASTNode`) -/
def ldenote (path : List XStep) : List XElem := C20.pathOfRaw (path.map lrawOf) false

/-- **token level, soundness** -/
theorem lparseSteps_sound (known : Str → Bool) : ∀ (fuel : Nat) (toks : List XTok) (raws : List RawEl),
    lparseSteps known fuel toks = some raws →
    ∃ path : List XStep, PathOK known path ∧ pathToks path = toks ∧ path.map lrawOf = raws
  | 0, _, _, h => by simp [lparseSteps] at h
  | fuel + 1, toks, raws, h => by
    unfold lparseSteps at h
    split at h
    · rename_i r
      split at h
      · cases h
      · rename_i fld idx cls rest hb
        obtain ⟨st, e, hfld, hidx, hcls, hk⟩ := parseStepBody_sound known r fld idx cls rest hb
        obtain ⟨f0, d0, c0⟩ := st
        simp only at hfld hidx hcls hk
        subst hfld; subst hcls
        have hraw : lrawOf ⟨f0, d0, c0⟩ = lmkRaw f0 idx c0 := by rw [← hidx]; rfl
        split at h
        · split at h
          · rename_i hsome
            simp only [Option.some.injEq] at h
            subst h
            refine ⟨[⟨f0, d0, c0⟩], ⟨Option.isSome_iff_exists.mp hsome, hk⟩, ?_, ?_⟩
            · rw [e]; simp [pathToks, stepToks]
            · simp only [List.map_cons, List.map_nil, hraw]
          · cases h
        · rename_i t ts
          obtain ⟨raws', h', rfl⟩ := Option.map_eq_some_iff.mp h
          obtain ⟨path, hp, ht, hr⟩ := lparseSteps_sound known fuel (t :: ts) raws' h'
          cases path with
          | nil => cases hp
          | cons st2 p =>
            refine ⟨⟨f0, d0, c0⟩ :: st2 :: p, ⟨hk, hp⟩, ?_, ?_⟩
            · rw [pathToks_cons, ht, e]
            · simp only [List.map_cons, hraw]
              simp only [List.map_cons] at hr
              rw [hr]
    · cases h

/-- **token level, completeness** (any digit strings, any number of empty steps) -/
theorem lparseSteps_path (known : Str → Bool) : ∀ (p : List XStep), PathOK known p → ∀ fuel, p.length < fuel →
    lparseSteps known fuel (pathToks p) = some (p.map lrawOf)
  | [], h, _, _ => by cases h
  | [st], h, fuel, hf => by
    obtain ⟨⟨c, hc⟩, hk⟩ := h
    cases fuel with
    | zero => simp at hf
    | succ f =>
      have hb := parseStepBody_body known st [] (Or.inl rfl) hk
      simp only [List.append_nil] at hb
      simp only [pathToks, List.flatMap_cons, List.flatMap_nil, stepToks, List.append_nil, lparseSteps, hb]
      simp [hc, lrawOf]
  | st :: st2 :: p, h, fuel, hf => by
    obtain ⟨hk, hp⟩ := h
    cases fuel with
    | zero => simp at hf
    | succ f =>
      have ih := lparseSteps_path known (st2 :: p) hp f (by simp at hf ⊢; omega)
      have hb := parseStepBody_body known st (pathToks (st2 :: p)) (pathToks_shape _) hk
      rw [pathToks_cons]
      simp only [lparseSteps, hb]
      rw [pathToks_cons] at ih ⊢
      simp only [ih]
      simp [lrawOf]

theorem lprefix_eq_xprefix (s : Str) : lprefix s = xprefix s := rfl

theorem lparseXPath_eq (known : Str → Bool) (text : Str) :
    lparseXPath known text =
      (match xlex ((xprefix text).length + 1) (xprefix text) with
       | none => none
       | some toks => (lparseSteps known (toks.length + 1) toks).map fun raws => lwalk raws.reverse false) := by
  unfold lparseXPath lrawSteps
  rw [lprefix_eq_xprefix]
  cases xlex ((xprefix text).length + 1) (xprefix text) <;> rfl

/-- what the list built from the raw elements of a written path means -/
theorem lwalk_meaning (known : Str → Bool) (path : List XStep) (hp : PathOK known path) :
    (C20.shift (lwalk (path.map lrawOf).reverse false)).reverse = ldenote path
      ∧ ∀ chain : Chain, lxmatch (lwalk (path.map lrawOf).reverse false) chain.reverse = sat chain (ldenote path) := by
  have h1 := C20.legacy_transformer_reads_path (path.map lrawOf)
  refine ⟨h1, fun chain => ?_⟩
  obtain ⟨init, last, c, he, hc⟩ := pathOK_last known path hp
  have hraw : lrawOf last = some (last.field, (last.idx.map idxVal).getD none, c) := by
    unfold lrawOf; rw [hc]; exact C20.lmkRaw_some _ _ _
  have hok : C20.HeadOK (lwalk (path.map lrawOf).reverse false) := by
    rw [he]
    simp [hraw, lwalk, C20.HeadOK]
  rw [C20.legacy_match_eq_sat chain _ hok, h1]
  rfl

/-- **legacy parser soundness** -/
theorem lparse_sound (known : Str → Bool) (s : Str) (L : List LElem) (h : lparseXPath known s = some L) :
    ∃ path, PathText known path s ∧ L = lwalk (path.map lrawOf).reverse false
      ∧ (C20.shift L).reverse = ldenote path
      ∧ ∀ chain : Chain, lxmatch L chain.reverse = sat chain (ldenote path) := by
  rw [lparseXPath_eq] at h
  cases hl : xlex ((xprefix s).length + 1) (xprefix s) with
  | none => simp [hl] at h
  | some toks =>
    simp only [hl] at h
    obtain ⟨raws, hp, rfl⟩ := Option.map_eq_some_iff.mp h
    obtain ⟨w, tws, hw, hok, hm, e⟩ := xlex_sound _ _ toks (Nat.le_succ _) hl
    obtain ⟨path, hpath, ht, hr⟩ := lparseSteps_sound known _ toks raws hp
    have hw0 : w = [] := by
      cases w with
      | nil => rfl
      | cons d w' =>
        exfalso
        have hd : isWS d = true := hw d (by simp)
        rcases xprefix_cases s with ⟨hx, r, hs⟩ | ⟨hx, -⟩
        · rw [hx, hs] at e
          injection e with e1 _
          subst e1; revert hd; decide
        · rw [hx] at e
          injection e with e1 _
          subst e1; revert hd; decide
    subst hw0
    simp only [List.nil_append] at e
    obtain ⟨m1, m2⟩ := lwalk_meaning known path hpath
    rw [hr] at m1 m2
    refine ⟨path, ⟨tws, hpath, by rw [hm, ht], hok, ?_⟩, by rw [hr], m1, m2⟩
    rcases xprefix_cases s with ⟨hx, -⟩ | ⟨hx, hne⟩
    · exact Or.inl (by rw [← e, hx])
    · exact Or.inr ⟨hne, by rw [← e, hx]⟩

/-- **legacy parser completeness**, for the same relation -/
theorem lparse_complete (known : Str → Bool) (s : Str) (path : List XStep) (h : PathText known path s) :
    lparseXPath known s = some (lwalk (path.map lrawOf).reverse false) := by
  obtain ⟨tws, hp, ht, hs, htext⟩ := h
  have hlex := xlex_render tws hs ((renderToks tws).length + 1) (by omega)
  have hparse := lparseSteps_path known path hp ((pathToks path).length + 1)
    (by have := pathToks_length path; omega)
  have hx : xprefix s = renderToks tws := pathText_xprefix known path s tws hp ht htext
  rw [lparseXPath_eq, hx, hlex, ht]
  simp only [hparse, Option.map_some]

/-- accepted by the legacy constructor ⇔ a text of some written path -/
theorem lparse_accepts_iff (known : Str → Bool) (s : Str) :
    (∃ L, lparseXPath known s = some L) ↔ ∃ path, PathText known path s := by
  constructor
  · rintro ⟨L, h⟩
    obtain ⟨path, hp, -⟩ := lparse_sound known s L h
    exact ⟨path, hp⟩
  · rintro ⟨path, hp⟩
    exact ⟨_, lparse_complete known s path hp⟩

/-- **over the same class table the legacy and the successor constructor accept exactly the same texts** -/
theorem legacy_accepts_iff_successor (known : Str → Bool) (s : Str) :
    (∃ L, lparseXPath known s = some L) ↔ ∃ els, parseXPath known s = some els := by
  rw [lparse_accepts_iff, parseXPath_accepts_iff]

/-- on a text both accept, the two results denote the same written path: the legacy list read through
`shift` and the successor's list agree up to the default class -/
theorem legacy_and_successor_same_path (known : Str → Bool) (s : Str) (path : List XStep) (h : PathText known path s) :
    ∃ L els, lparseXPath known s = some L ∧ parseXPath known s = some els
      ∧ (C20.shift L).reverse = ldenote path ∧ els.reverse = denote path := by
  refine ⟨_, _, lparse_complete known s path h, xparse_complete known s _ ⟨path, h, rfl⟩, ?_, by simp⟩
  exact (lwalk_meaning known path h.choose_spec.1).1

/-- a step that names its class denotes the same element for both -/
theorem lrawOf_eq_rawOf (st : XStep) (h : st.cls.isSome) : lrawOf st = rawOf st := by
  obtain ⟨f, i, c⟩ := st
  cases c with
  | none => cases h
  | some c => cases f <;> cases i <;> rfl

/-! ### non-vacuity -/
section Examples
example : (lparseXPath exKnown (renderToks exTws)).isSome = true := by decide
example : PathText exKnown exPath (renderToks exTws) :=
  ⟨exTws, by simp [PathOK, exPath, exKnown], by decide, by
    simp [SpacedOK, exTws, TokOK, ValidName, isWS, isNameStart, isLetter, isDigitC, renderToks, tokStr, startsName, isNameChar]
    exact ⟨⟨'i', [], by decide⟩, ⟨'L', [], by decide⟩, ⟨'E', [], by decide⟩⟩, Or.inl rfl⟩
example : (lparseXPath exKnown ['/', '/', '/', 'E']).isSome = true := by decide
example : lparseXPath exKnown ['/', 'E', '/'] = none := by decide
end Examples

end C17
end PyOak

#print axioms PyOak.C17.lparse_sound
#print axioms PyOak.C17.lparse_complete
#print axioms PyOak.C17.legacy_accepts_iff_successor
