/-
C18 — `ancestors`, `is_ancestor`, `get_depth` agree with the parent chain, and the parent chain agrees with
the downward structure (the clause "get_depth, is_ancestor … agree with that structure" had no Lean definition
on the heap; `ancestors_chain` of Props/C18.lean holds for every fuel including 0).

Definitions: Model/LegacyQueries.lean (a conservative extension of the model, not tied by the harness).

  UpChain s u l          the specification: `l = [p₁, …, p_k]`, `parent u = p₁`, `parent p_i = p_{i+1}`,
                         `parent p_k = None`; unique (`upChain_unique`)
  ancestorsGo_eq, isAncestorGo_eq, getDepthGo_none_eq, getDepthGo_some_eq, getDepth_eq
                         with fuel > length of the chain the three walks answer: the chain; membership in
                         the chain; its length (resp. the position of `relative_to`); ValueError exactly when
                         `check_ancestor` and `relative_to` is not in the chain.  No invariant needed.
  ancestorsGo_sound      a finished walk IS the chain
  chain_holds            under `Inv`: every member of the chain is attached and consecutive members are
                         child / holder at the child's reported field and index
  mem_chain_desc / desc_mem_chain
                         `is_ancestor` = "is a proper structural ancestor": `a` is in the chain of `u` iff `a` is
                         attached, `a ≠ u`-reachable: `u` is reachable from `a` along child links
  chain_exists           under `Inv ∧ Ranked` (acyclic, Props/C18Ranked.lean) every attached node has a chain
                         of length `< size`; hence with the model's fuel the walks never answer `hang`
                         (`ancestors_total`, `isAncestor_total`, `getDepth_total`)
  cyclic_walk_hangs      on the audit's cyclic `Inv` state the walk does not end
-/
import PyOak.Model.LegacyQueries
import PyOak.Props.C18Acyclic
namespace PyOak.Legacy.C18
open PyOak PyOak.Legacy LState

variable (Hc : Str → Str)

/-- **the parent chain** of `u`, nearest ancestor first, ending at a node without parent -/
inductive UpChain (s : LState) : Nat → List Nat → Prop
  | root {u : Nat} : s.parent u = none → UpChain s u []
  | step {u p : Nat} {l : List Nat} : s.parent u = some p → UpChain s p l → UpChain s u (p :: l)

theorem upChain_unique {s : LState} {u : Nat} {l l' : List Nat} (h : UpChain s u l) (h' : UpChain s u l') : l = l' := by
  induction h generalizing l' with
  | root hp =>
    cases h' with
    | root _ => rfl
    | step hp' _ => rw [hp] at hp'; cases hp'
  | step hp _ ih =>
    cases h' with
    | root hp' => rw [hp] at hp'; cases hp'
    | step hp' hc' =>
      rw [hp] at hp'; cases hp'
      rw [ih hc']

/-! ### the walks compute the chain (no invariant needed) -/

theorem ancestorsGo_eq {s : LState} {u : Nat} {l : List Nat} (h : UpChain s u l) :
    ∀ fuel, l.length < fuel → ancestorsGo s fuel u = some l := by
  induction h with
  | root hp => intro fuel hf; cases fuel with
    | zero => omega
    | succ f => simp [ancestorsGo, hp]
  | step hp _ ih =>
    intro fuel hf
    cases fuel with
    | zero => omega
    | succ f =>
      simp only [List.length_cons] at hf
      simp [ancestorsGo, hp, ih f (by omega)]

/-- a finished walk is the chain -/
theorem ancestorsGo_sound {s : LState} : ∀ (fuel u : Nat) (l : List Nat), ancestorsGo s fuel u = some l → UpChain s u l := by
  intro fuel
  induction fuel with
  | zero => intro u l h; simp [ancestorsGo] at h
  | succ f ih =>
    intro u l h
    unfold ancestorsGo at h
    cases hp : s.parent u with
    | none => rw [hp] at h; simp at h; subst h; exact .root hp
    | some p =>
      rw [hp] at h
      simp only [Option.map_eq_some_iff] at h
      obtain ⟨l', hl', rfl⟩ := h
      exact .step hp (ih p l' hl')

theorem isAncestorGo_eq {s : LState} {u : Nat} {l : List Nat} (a : Nat) (h : UpChain s u l) :
    ∀ fuel, l.length < fuel → isAncestorGo s a fuel u = some (decide (a ∈ l)) := by
  induction h with
  | root hp => intro fuel hf; cases fuel with
    | zero => omega
    | succ f => simp [isAncestorGo, hp]
  | @step u p l hp _ ih =>
    intro fuel hf
    cases fuel with
    | zero => omega
    | succ f =>
      simp only [List.length_cons] at hf
      unfold isAncestorGo
      rw [hp]
      simp only
      by_cases hpa : p = a
      · simp [hpa]
      · rw [if_neg hpa, ih f (by omega)]
        have : a ≠ p := fun e => hpa e.symm
        simp [this]

theorem getDepthGo_none_eq {s : LState} {u : Nat} {l : List Nat} (h : UpChain s u l) :
    ∀ fuel, l.length < fuel → getDepthGo s none fuel u = some l.length := by
  induction h with
  | root hp => intro fuel hf; cases fuel with
    | zero => omega
    | succ f => simp [getDepthGo, hp]
  | step hp _ ih =>
    intro fuel hf
    cases fuel with
    | zero => omega
    | succ f =>
      simp only [List.length_cons] at hf
      simp [getDepthGo, hp, ih f (by omega)]

/-- the depth relative to `a`: one more than the number of chain members before the first occurrence of `a`;
the whole length when `a` does not occur (the recursion then runs up to the root) -/
def depthTo (a : Nat) : List Nat → Nat
  | [] => 0
  | p :: r => if p = a then 1 else depthTo a r + 1

theorem depthTo_of_not_mem (a : Nat) : ∀ l : List Nat, a ∉ l → depthTo a l = l.length := by
  intro l
  induction l with
  | nil => intro _; rfl
  | cons p r ih =>
    intro h
    simp only [List.mem_cons, not_or] at h
    have : p ≠ a := fun e => h.1 e.symm
    simp [depthTo, this, ih h.2]

theorem depthTo_spec (a : Nat) : ∀ l : List Nat, a ∈ l →
    ∃ pre post, l = pre ++ a :: post ∧ a ∉ pre ∧ depthTo a l = pre.length + 1 := by
  intro l
  induction l with
  | nil => intro h; cases h
  | cons p r ih =>
    intro h
    by_cases hpa : p = a
    · subst hpa; exact ⟨[], r, rfl, by simp, by simp [depthTo]⟩
    · have hr : a ∈ r := by
        rcases List.mem_cons.mp h with e | e
        · exact absurd e.symm hpa
        · exact e
      obtain ⟨pre, post, e1, e2, e3⟩ := ih hr
      refine ⟨p :: pre, post, by rw [e1]; rfl, ?_, by simp [depthTo, hpa, e3]⟩
      simp only [List.mem_cons, not_or]
      exact ⟨fun e => hpa e.symm, e2⟩

theorem getDepthGo_some_eq {s : LState} {u : Nat} {l : List Nat} (a : Nat) (h : UpChain s u l) :
    ∀ fuel, l.length < fuel → getDepthGo s (some a) fuel u = some (depthTo a l) := by
  induction h with
  | root hp => intro fuel hf; cases fuel with
    | zero => omega
    | succ f => simp [getDepthGo, hp, depthTo]
  | @step u p l hp _ ih =>
    intro fuel hf
    cases fuel with
    | zero => omega
    | succ f =>
      simp only [List.length_cons] at hf
      unfold getDepthGo
      rw [hp]
      simp only
      by_cases hpa : p = a
      · subst hpa; simp [depthTo]
      · have : ¬ (some a = some p) := fun e => hpa (Option.some.inj e).symm
        rw [if_neg this, ih f (by omega)]
        simp [depthTo, hpa]

/-- **`get_depth`** with the model's fuel, given the chain: depth to the root / to `relative_to`, `ValueError`
exactly when the check is on and `relative_to` is not an ancestor -/
theorem getDepth_eq {s : LState} {u : Nat} {l : List Nat} (h : UpChain s u l) (hl : l.length < fuelOf s)
    (rel : Option Nat) (check : Bool) :
    getDepth s u rel check =
      match rel with
      | none => .depth l.length
      | some a => if check = true ∧ a ∉ l then .valueError else .depth (depthTo a l) := by
  unfold getDepth
  cases rel with
  | none => simp only; rw [getDepthGo_none_eq h _ hl]
  | some a =>
    simp only
    cases check with
    | false => simp only [Bool.false_eq_true, if_false, false_and]; rw [getDepthGo_some_eq a h _ hl]
    | true =>
      simp only [if_true, true_and]
      unfold isAncestor
      rw [isAncestorGo_eq a h _ hl]
      by_cases ha : a ∈ l
      · simp only [ha, decide_true, not_true_eq_false, if_false]; rw [getDepthGo_some_eq a h _ hl]
      · simp [ha]

/-! ### the chain agrees with the downward structure -/

/-- consecutive members: the next one is attached and stores the previous one at its reported field and index -/
def ChainHolds (s : LState) : List Nat → Prop
  | [] => True
  | [_] => True
  | x :: p :: r =>
    (Att s p ∧ ∃ f, (s.obj x).pfield = some f ∧ (x, f, (s.obj x).pindex) ∈ (s.obj p).kidsPos) ∧ ChainHolds s (p :: r)

theorem chain_holds {s : LState} (hI : Inv Hc s) {u : Nat} {l : List Nat} (hu : Att s u) (h : UpChain s u l) :
    ChainHolds s (u :: l) ∧ ∀ p ∈ l, Att s p := by
  induction h with
  | root _ => exact ⟨trivial, fun p hp => by cases hp⟩
  | step hp _ ih =>
    obtain ⟨hpa, f, hf, hm⟩ := parent_is_holder Hc hI hu hp
    obtain ⟨i1, i2⟩ := ih hpa
    refine ⟨⟨⟨hpa, f, hf, hm⟩, i1⟩, fun q hq => ?_⟩
    rcases List.mem_cons.mp hq with rfl | hq
    · exact hpa
    · exact i2 q hq

/-- an ancestor reaches the node along child links -/
theorem mem_chain_desc {s : LState} (hI : Inv Hc s) {u : Nat} {l : List Nat} (hu : Att s u) (h : UpChain s u l) :
    ∀ a ∈ l, Att s a ∧ Desc s a u := by
  induction h with
  | root _ => intro a ha; cases ha
  | @step u p l hp _ ih =>
    obtain ⟨hpa, f, _, hm⟩ := parent_is_holder Hc hI hu hp
    have hup : u ∈ (s.obj p).kidList := (mem_kidList_iff _ _).mpr ⟨_, hm, rfl⟩
    intro a ha
    rcases List.mem_cons.mp ha with rfl | ha
    · exact ⟨hpa, .step .refl hup⟩
    · obtain ⟨a1, a2⟩ := ih hpa a ha
      exact ⟨a1, .step a2 hup⟩

/-- conversely an attached node from which `u` is reachable along child links (and which is not `u`) is in
the chain of `u` -/
theorem desc_mem_chain {s : LState} (hI : Inv Hc s) {a u : Nat} (ha : Att s a) (hd : Desc s a u) :
    ∀ l, UpChain s u l → a ≠ u → a ∈ l := by
  induction hd with
  | refl => intro l _ hne; exact absurd rfl hne
  | @step q' q hd' hk ih =>
    intro l hl _
    have hq' : Att s q' := (upFree_of_desc hI ha hd' (fun _ _ hx => hx.elim)).1
    obtain ⟨e, he, he1⟩ := (mem_kidList_iff _ _).mp hk
    have hpar : s.parent q = some q' := by rw [← he1]; exact holder_is_parent Hc hI hq' he
    cases hl with
    | root hp => rw [hpar] at hp; cases hp
    | step hp hc =>
      rw [hpar] at hp; cases hp
      by_cases haq : a = q'
      · rw [haq]; exact List.mem_cons_self ..
      · exact List.mem_cons_of_mem _ (ih _ hc haq)

/-- **`is_ancestor` is "proper structural ancestor"**: for attached `a`, `u` on an acyclic state -/
theorem mem_chain_iff {s : LState} (hI : Inv Hc s) (hR : Ranked s) {a u : Nat} {l : List Nat} (hu : Att s u)
    (h : UpChain s u l) : a ∈ l ↔ (Att s a ∧ Desc s a u ∧ a ≠ u) := by
  constructor
  · intro ha
    obtain ⟨h1, h2⟩ := mem_chain_desc Hc hI hu h a ha
    refine ⟨h1, h2, ?_⟩
    rintro rfl
    -- a proper cycle contradicts the rank
    obtain ⟨r, hr⟩ := hR
    cases h with
    | root _ => cases ha
    | @step _ p l' hp hc =>
      obtain ⟨hpa, f, _, hm⟩ := parent_is_holder Hc hI hu hp
      have hup : a ∈ (s.obj p).kidList := (mem_kidList_iff _ _).mpr ⟨_, hm, rfl⟩
      have h3 := hr p (att_lt hI hpa) a hup
      have hdp : Desc s a p := by
        rcases List.mem_cons.mp ha with e | e
        · rw [e]; exact .refl
        · exact (mem_chain_desc Hc hI hpa hc a e).2
      have := (ranked_desc_le hr hI.closed (att_lt hI hu) hdp).1
      omega
  · rintro ⟨h1, h2, h3⟩
    exact desc_mem_chain Hc hI h1 h2 l h h3

/-! ### on acyclic states the chain exists and the model's fuel suffices -/

/-- pigeonhole: a duplicate-free list of numbers below `n` has at most `n` elements -/
theorem length_le_of_nodup_lt : ∀ (n : Nat) (l : List Nat), l.Nodup → (∀ x ∈ l, x < n) → l.length ≤ n := by
  intro n
  induction n with
  | zero =>
    intro l _ h
    cases l with
    | nil => simp
    | cons a r => have := h a (List.mem_cons_self ..); omega
  | succ n ih =>
    intro l hnd h
    by_cases hn : n ∈ l
    · have h1 := ih (l.erase n) (hnd.erase n) (fun x hx => by
        have hx' := (List.Nodup.mem_erase_iff hnd).mp hx
        have := h x hx'.2
        have := hx'.1
        omega)
      rw [List.length_erase_of_mem hn] at h1
      omega
    · have := ih l hnd (fun x hx => by
        have := h x hx
        have : x ≠ n := fun e => hn (e ▸ hx)
        omega)
      omega

/-- ranks strictly increase along the chain -/
theorem chain_ranks {s : LState} (hI : Inv Hc s) {r : Nat → Nat}
    (hr : ∀ x, x < s.size → ∀ c ∈ (s.obj x).kidList, r c < r x) {u : Nat} {l : List Nat} (hu : Att s u)
    (h : UpChain s u l) : (∀ p ∈ l, r u < r p ∧ p < s.size) ∧ (l.map r).Pairwise (· < ·) := by
  induction h with
  | root _ => exact ⟨fun p hp => (by cases hp), List.Pairwise.nil⟩
  | @step u p l hp _ ih =>
    obtain ⟨hpa, f, _, hm⟩ := parent_is_holder Hc hI hu hp
    have hup : u ∈ (s.obj p).kidList := (mem_kidList_iff _ _).mpr ⟨_, hm, rfl⟩
    have hlt := hr p (att_lt hI hpa) u hup
    obtain ⟨i1, i2⟩ := ih hpa
    refine ⟨fun q hq => ?_, ?_⟩
    · rcases List.mem_cons.mp hq with rfl | hq
      · exact ⟨hlt, att_lt hI hpa⟩
      · have := i1 q hq; exact ⟨by omega, this.2⟩
    · simp only [List.map_cons, List.pairwise_cons]
      refine ⟨fun y hy => ?_, i2⟩
      obtain ⟨q, hq, rfl⟩ := List.mem_map.mp hy
      exact (i1 q hq).1

/-- **the chain exists and is shorter than `size`** -/
theorem chain_exists {s : LState} (hI : Inv Hc s) (hR : Ranked s) {u : Nat} (hu : Att s u) :
    ∃ l, UpChain s u l ∧ l.length < s.size := by
  obtain ⟨r, hr⟩ := hR
  -- existence: the rank grows along `parent` and is bounded on existing objects
  have ex : ∀ k u, Att s u → bnd r s.size ≤ r u + k → ∃ l, UpChain s u l := by
    intro k
    induction k with
    | zero =>
      intro u hu hb
      have := lt_bnd r s.size u (att_lt hI hu)
      omega
    | succ k ih =>
      intro u hu hb
      cases hp : s.parent u with
      | none => exact ⟨[], .root hp⟩
      | some p =>
        obtain ⟨hpa, f, _, hm⟩ := parent_is_holder Hc hI hu hp
        have hup : u ∈ (s.obj p).kidList := (mem_kidList_iff _ _).mpr ⟨_, hm, rfl⟩
        have hlt := hr p (att_lt hI hpa) u hup
        obtain ⟨l, hl⟩ := ih p hpa (by omega)
        exact ⟨p :: l, .step hp hl⟩
  obtain ⟨l, hl⟩ := ex (bnd r s.size) u hu (by omega)
  refine ⟨l, hl, ?_⟩
  obtain ⟨c1, c2⟩ := chain_ranks Hc hI hr hu hl
  -- `u :: l` is duplicate-free (strictly increasing ranks) and below `size`
  have hnd : (u :: l).Nodup := by
    refine List.nodup_cons.mpr ⟨fun hm => ?_, ?_⟩
    · have := (c1 u hm).1; omega
    · have : (l.map r).Nodup := c2.imp (fun h => Nat.ne_of_lt h)
      exact nodup_of_nodup_map r l this
  have := length_le_of_nodup_lt s.size (u :: l) hnd (fun x hx => by
    rcases List.mem_cons.mp hx with rfl | hx
    · exact att_lt hI hu
    · exact (c1 x hx).2)
  simp only [List.length_cons] at this
  omega

/-- **with the model's fuel the walks of an attached node of an acyclic state end**, and answer the chain -/
theorem ancestors_total {s : LState} (hI : Inv Hc s) (hR : Ranked s) {u : Nat} (hu : Att s u) :
    ∃ l, UpChain s u l ∧ Legacy.ancestors s u = some l ∧ (∀ a, isAncestor s a u = some (decide (a ∈ l))) ∧
      (∀ rel check, getDepth s u rel check ≠ .hang) ∧ getDepth s u none true = .depth l.length := by
  obtain ⟨l, hl, hlen⟩ := chain_exists Hc hI hR hu
  have hf : l.length < fuelOf s := by unfold fuelOf; omega
  refine ⟨l, hl, ancestorsGo_eq hl _ hf, fun a => isAncestorGo_eq a hl _ hf, fun rel check => ?_, ?_⟩
  · rw [getDepth_eq hl hf]
    cases rel with
    | none => simp
    | some a => simp only; split <;> simp
  · rw [getDepth_eq hl hf]

/-! ### non-vacuity -/
section examples
open PyOak.Legacy.Ex

/-- a chain of depth 3: leaf 0 under 1 under 2 under 3 -/
def histQ : List LOp := [.new (leaf "1"), .new (un 0), .new (un 1), .new (un 2), .new (leaf "9")]

theorem inv_histQ : Inv id (st histQ) ∧ Ranked (st histQ) :=
  inv_ranked_run_init id id _ (admRun_of_B id id _ init (by decide))

theorem chainQ : UpChain (st histQ) 0 [1, 2, 3] :=
  .step (by decide) (.step (by decide) (.step (by decide) (.root (by decide))))

example : Legacy.ancestors (st histQ) 0 = some [1, 2, 3] := by decide
example : Legacy.ancestors (st histQ) 0 = some [1, 2, 3] := ancestorsGo_eq chainQ _ (by decide)
example : isAncestor (st histQ) 3 0 = some true ∧ isAncestor (st histQ) 0 3 = some false ∧
    isAncestor (st histQ) 4 0 = some false := by decide
example : getDepth (st histQ) 0 none true = .depth 3 ∧ getDepth (st histQ) 0 (some 2) true = .depth 2 ∧
    getDepth (st histQ) 0 (some 4) true = .valueError ∧ getDepth (st histQ) 0 (some 4) false = .depth 3 ∧
    getDepth (st histQ) 3 none true = .depth 0 := by decide
example := getDepth_eq chainQ (by decide) (some 2) true
example := chain_holds id inv_histQ.1 (u := 0) (by decide) chainQ
example := (mem_chain_iff id inv_histQ.1 inv_histQ.2 (a := 2) (u := 0) (by decide) chainQ).mp (by decide)
example := chain_exists id inv_histQ.1 inv_histQ.2 (u := 0) (by decide)
example := ancestors_total id inv_histQ.1 inv_histQ.2 (u := 0) (by decide)
example := ancestorsGo_sound 6 0 [1, 2, 3] (s := st histQ) (by decide)
example := upChain_unique chainQ chainQ

/-- on the audit's cyclic state (`cyclic_reachable`) the walk does not end: no chain, the model answers `hang` -/
theorem cyclic_walk_hangs : Legacy.ancestors (run id K init histCyc) 1 = none ∧
    getDepth (run id K init histCyc) 1 none true = .hang ∧ ¬ ∃ l, UpChain (run id K init histCyc) 1 l := by
  refine ⟨by decide, by decide, ?_⟩
  rintro ⟨l, hl⟩
  -- the parent chain alternates 2, 1, 2, 1, …: two more steps from any chain give a shorter chain
  have key : ∀ n (l : List Nat), l.length ≤ n → ¬ UpChain (run id K init histCyc) 1 l := by
    intro n
    induction n with
    | zero =>
      intro l hl h
      cases h with
      | root hp => revert hp; decide
      | step _ _ => simp at hl
    | succ n ih =>
      intro l hl h
      cases h with
      | root hp => revert hp; decide
      | step hp hc =>
        have h2 : (run id K init histCyc).parent 1 = some 2 := by decide
        rw [h2] at hp; cases hp
        cases hc with
        | root hp' => revert hp'; decide
        | step hp' hc' =>
          have h1 : (run id K init histCyc).parent 2 = some 1 := by decide
          rw [h1] at hp'; cases hp'
          exact ih _ (by simp at hl; omega) hc'
  exact key l.length l (Nat.le_refl _) hl

end examples

#print axioms upChain_unique
#print axioms ancestorsGo_eq
#print axioms ancestorsGo_sound
#print axioms isAncestorGo_eq
#print axioms getDepthGo_none_eq
#print axioms getDepthGo_some_eq
#print axioms getDepth_eq
#print axioms chain_holds
#print axioms mem_chain_desc
#print axioms desc_mem_chain
#print axioms mem_chain_iff
#print axioms chain_exists
#print axioms ancestors_total
#print axioms cyclic_walk_hangs

end PyOak.Legacy.C18
