/-
C06 — string-level facts about `get_xpath`.

`C06.xpath_chain` shows that `get_xpath(n)` is the spelling `spellChain` of the root-first chain
of `n`.  Here:
 * `parseSpell_spell`  : the spelling can be parsed back, step by step, into the
                         `(field, index-or-0, class)` triples of the chain;
 * `spellChain_injective` : two chains of the same root with the same spelling are the same chain
                         (same nodes, same positions) — no two positions of a tree share an xpath;
 * `xpath_injective`   : hence (trees without repeated objects) `get_xpath` is injective on the
                         nodes of the tree;
 * `follow_spell` / `follow_getXpath` : following the xpath from the root — parse a step, take the
                         child stored under that field and index, check its class — arrives at the
                         node.
Hypotheses (each shown necessary by a `decide`d counterexample at the end):
 * names: a child-field name contains no `[` (needed for injectivity and for parsing), a class name
   no `/` (needed only for parsing the text back / `follow`; `spellChain_injective_sharp` does
   without it) — both follow from `IdentLike`;
 * class-table consistency: inside one node the child-field names are pairwise distinct and a
   single (non-collection) field holds at most one node (so `[0]` of a single child and index 0 of
   a tuple cannot both occur under one field name of one parent).
-/
import PyOak.Spec.Tree
import PyOak.Spec.Content
import PyOak.Lemmas.Framing
import PyOak.Props.C06
import PyOak.Props.C07
import PyOak.Props.C20
namespace PyOak
namespace C06X

/-! ## the steps of a chain and their text -/

def rootField : Str := ['r', 'o', 'o', 't']

/-- `(field, index or 0, class)` of a chain member -/
def stepOf (x : Node × Option Edge) : Str × Nat × Str :=
  match x.2 with
  | none => (rootField, 0, x.1.cls)
  | some e => (e.field, e.idx.getD 0, x.1.cls)

/-- `/@{field}[{index}]{Class}` -/
def stepText (t : Str × Nat × Str) : Str :=
  ['/', '@'] ++ t.1 ++ ['['] ++ natStr t.2.1 ++ [']'] ++ t.2.2

theorem xpathStep_eq (f : Str) (i : Option Nat) (c : Str) : xpathStep f i c = stepText (f, i.getD 0, c) := rfl

theorem spellChain_eq (c : Chain) : spellChain c = (c.map stepOf).flatMap stepText := by
  induction c with
  | nil => rfl
  | cons x r ih =>
    obtain ⟨n, oe⟩ := x
    cases oe with
    | none => simp only [spellChain, ih, List.map_cons, List.flatMap_cons]; rfl
    | some e => simp only [spellChain, ih, List.map_cons, List.flatMap_cons]; rfl

/-! ## parsing a spelling -/

/-- split one step off the front: expects `/@`, the field up to `[`, the digits up to `]`, the
class up to the next `/` (or the end) -/
def splitStep : Str → Option ((Str × Nat × Str) × Str)
  | '/' :: '@' :: t =>
    match t.dropWhile (· != '[') with
    | '[' :: t2 =>
      match t2.dropWhile (· != ']') with
      | ']' :: t3 =>
        some ((t.takeWhile (· != '['), digitsVal (t2.takeWhile (· != ']')), t3.takeWhile (· != '/')),
          t3.dropWhile (· != '/'))
      | _ => none
    | _ => none
  | _ => none

/-- all steps of a spelling (fuel: one unit per step) -/
def parseSpell : Nat → Str → Option (List (Str × Nat × Str))
  | _, [] => some []
  | 0, _ :: _ => none
  | fuel + 1, c :: s =>
    match splitStep (c :: s) with
    | none => none
    | some (t, rest) => (parseSpell fuel rest).map (t :: ·)

/-- the rest is empty or starts with a character at which `p` stops -/
def Stops (p : Char → Bool) (r : Str) : Prop := r = [] ∨ ∃ c t, r = c :: t ∧ p c = false

theorem takeWhile_stops (p : Char → Bool) (a : Str) (ha : ∀ x ∈ a, p x = true) (r : Str)
    (hr : Stops p r) : (a ++ r).takeWhile p = a ∧ (a ++ r).dropWhile p = r := by
  induction a with
  | nil =>
    rcases hr with rfl | ⟨c, t, rfl, hc⟩
    · simp
    · simp [hc]
  | cons x a ih =>
    have := ih (fun y hy => ha y (by simp [hy]))
    simp [ha x (by simp), this.1, this.2]

/-- names the spelling can frame: no `[` in a field name, no `/` in a class name -/
def StepNamesOK (t : Str × Nat × Str) : Prop := (∀ c ∈ t.1, c ≠ '[') ∧ (∀ c ∈ t.2.2, c ≠ '/')

theorem natStr_no_rsqb (n : Nat) : ∀ c ∈ natStr n, c ≠ ']' := by
  intro c hc
  have := Framing.natStr_digit n c hc
  rintro rfl
  revert this; decide

theorem splitStep_stepText (t : Str × Nat × Str) (ht : StepNamesOK t) (rest : Str)
    (hr : Stops (· != '/') rest) : splitStep (stepText t ++ rest) = some (t, rest) := by
  obtain ⟨f, i, c⟩ := t
  obtain ⟨hf, hc⟩ := ht
  simp only at hf hc
  have e1 : stepText (f, i, c) ++ rest = '/' :: '@' :: (f ++ ('[' :: (natStr i ++ (']' :: (c ++ rest))))) := by
    simp [stepText]
  have s1 := takeWhile_stops (· != '[') f (fun x hx => by simpa using hf x hx)
    ('[' :: (natStr i ++ (']' :: (c ++ rest)))) (Or.inr ⟨_, _, rfl, by simp⟩)
  have s2 := takeWhile_stops (· != ']') (natStr i) (fun x hx => by simpa using natStr_no_rsqb i x hx)
    (']' :: (c ++ rest)) (Or.inr ⟨_, _, rfl, by simp⟩)
  have s3 := takeWhile_stops (· != '/') c (fun x hx => by simpa using hc x hx) rest hr
  rw [e1]
  simp only [splitStep, s1.1, s1.2, s2.1, s2.2, s3.1, s3.2, C20.digitsVal_natStr]

theorem stepText_head (t : Str × Nat × Str) (r : Str) : ∃ tl, stepText t ++ r = '/' :: tl :=
  ⟨['@'] ++ t.1 ++ ['['] ++ natStr t.2.1 ++ [']'] ++ t.2.2 ++ r, by simp [stepText]⟩

theorem flatMap_stepText_stops (ts : List (Str × Nat × Str)) : Stops (· != '/') (ts.flatMap stepText) := by
  cases ts with
  | nil => exact Or.inl rfl
  | cons t r =>
    obtain ⟨tl, h⟩ := stepText_head t (r.flatMap stepText)
    exact Or.inr ⟨'/', tl, by simpa using h, by simp⟩

/-- the spelling of a list of steps is parsed back -/
theorem parseSpell_steps (ts : List (Str × Nat × Str)) (hts : ∀ t ∈ ts, StepNamesOK t) (fuel : Nat)
    (hf : ts.length ≤ fuel) : parseSpell fuel (ts.flatMap stepText) = some ts := by
  induction ts generalizing fuel with
  | nil => cases fuel <;> simp [parseSpell]
  | cons t r ih =>
    obtain ⟨tl, h⟩ := stepText_head t (r.flatMap stepText)
    have hs := splitStep_stepText t (hts t (by simp)) (r.flatMap stepText) (flatMap_stepText_stops r)
    cases fuel with
    | zero => simp at hf
    | succ f =>
      simp only [List.flatMap_cons]
      rw [h] at hs ⊢
      simp only [parseSpell, hs, ih (fun u hu => hts u (by simp [hu])) f (by simp at hf; omega),
        Option.map_some]

theorem stepText_length_pos (t : Str × Nat × Str) : 0 < (stepText t).length := by
  simp [stepText]

theorem length_le_flatMap_stepText (ts : List (Str × Nat × Str)) :
    ts.length ≤ (ts.flatMap stepText).length := by
  induction ts with
  | nil => simp
  | cons t r ih =>
    have := stepText_length_pos t
    simp only [List.flatMap_cons, List.length_append, List.length_cons]
    omega

/-- a chain whose names can be framed -/
def ChainNamesOK (c : Chain) : Prop := ∀ x ∈ c, StepNamesOK (stepOf x)

/-- **the spelling of a chain is parsed back into its steps** -/
theorem parseSpell_spell (c : Chain) (hc : ChainNamesOK c) :
    parseSpell (spellChain c).length (spellChain c) = some (c.map stepOf) := by
  rw [spellChain_eq]
  apply parseSpell_steps
  · intro t ht
    obtain ⟨x, hx, rfl⟩ := List.mem_map.mp ht
    exact hc x hx
  · exact length_le_flatMap_stepText _

/-- spellings determine the steps -/
theorem steps_of_spell_eq (c1 c2 : Chain) (h1 : ChainNamesOK c1) (h2 : ChainNamesOK c2)
    (h : spellChain c1 = spellChain c2) : c1.map stepOf = c2.map stepOf := by
  have a := parseSpell_spell c1 h1
  have b := parseSpell_spell c2 h2
  rw [h, b] at a
  exact (Option.some.inj a).symm

/-! ## inside one node: (field, index-or-0) determines the child -/

/-- class-table consistency of one node -/
structure NodeFieldsOK (n : Node) : Prop where
  nodup : (n.kids.map Kid.name).Nodup
  single : ∀ k ∈ n.kids, k.coll = false → k.nodes.length ≤ 1

theorem mem_enumFrom {α : Type} (l : List α) (k i : Nat) (a : α) (h : (i, a) ∈ enumFrom k l) :
    k ≤ i ∧ l[i - k]? = some a := by
  induction l generalizing k with
  | nil => simp [enumFrom] at h
  | cons x r ih =>
    simp only [enumFrom, List.mem_cons, Prod.mk.injEq] at h
    rcases h with ⟨rfl, rfl⟩ | h
    · simp
    · obtain ⟨h1, h2⟩ := ih (k + 1) h
      refine ⟨by omega, ?_⟩
      have : i - k = (i - (k + 1)) + 1 := by omega
      rw [this, List.getElem?_cons_succ]
      exact h2

theorem mem_kid_edges (k : Kid) (n : Node) (e : Edge) (h : (n, e) ∈ k.edges) :
    e.field = k.name ∧ n ∈ k.nodes ∧
      (k.coll = true → ∃ i, e.idx = some i ∧ k.nodes[i]? = some n) ∧ (k.coll = false → e.idx = none) := by
  cases k with
  | mk name coll ns =>
    cases coll with
    | true =>
      simp only [Kid.edges, List.mem_map, Prod.mk.injEq] at h
      obtain ⟨⟨i, m⟩, hm, rfl, rfl⟩ := h
      have := mem_enumFrom ns 0 i m hm
      simp only [Nat.sub_zero] at this
      refine ⟨rfl, List.mem_of_getElem? this.2, fun _ => ⟨i, rfl, this.2⟩, by simp [Kid.coll]⟩
    | false =>
      simp only [Kid.edges, List.mem_map, Prod.mk.injEq] at h
      obtain ⟨m, hm, rfl, rfl⟩ := h
      exact ⟨rfl, hm, by simp [Kid.coll], fun _ => rfl⟩

/-- under class-table consistency a child of `p` is determined by its field name and its index
(an absent index counting as 0, as `get_xpath` prints it) -/
theorem edge_unique (p : Node) (hp : NodeFieldsOK p) (n1 n2 : Node) (e1 e2 : Edge)
    (h1 : (n1, e1) ∈ p.edges) (h2 : (n2, e2) ∈ p.edges) (hf : e1.field = e2.field)
    (hi : e1.idx.getD 0 = e2.idx.getD 0) : n1 = n2 ∧ e1 = e2 := by
  simp only [Node.edges, List.mem_flatMap] at h1 h2
  obtain ⟨k1, hk1, h1⟩ := h1
  obtain ⟨k2, hk2, h2⟩ := h2
  obtain ⟨f1, m1, c1, s1⟩ := mem_kid_edges k1 n1 e1 h1
  obtain ⟨f2, m2, c2, s2⟩ := mem_kid_edges k2 n2 e2 h2
  have hk : k1 = k2 := Framing.eq_of_nodup_map Kid.name p.kids hp.nodup k1 hk1 k2 hk2 (by rw [← f1, ← f2, hf])
  subst hk
  obtain ⟨ef1, ei1⟩ := e1
  obtain ⟨ef2, ei2⟩ := e2
  simp only at hf hi f1 f2 c1 c2 s1 s2
  subst hf
  cases hc : k1.coll with
  | true =>
    obtain ⟨i1, rfl, g1⟩ := c1 hc
    obtain ⟨i2, rfl, g2⟩ := c2 hc
    simp only [Option.getD_some] at hi
    subst hi
    rw [g1] at g2
    exact ⟨Option.some.inj g2, rfl⟩
  | false =>
    have l := hp.single k1 hk1 hc
    rw [s1 hc, s2 hc]
    refine ⟨?_, rfl⟩
    match hns : k1.nodes, m1, m2, l with
    | [], m1, _, _ => simp at m1
    | [a], m1, m2, _ =>
      simp only [List.mem_singleton] at m1 m2
      rw [m1, m2]
    | _ :: _ :: _, _, _, l => simp at l

/-! ## injectivity -/

theorem path_eq_of_steps (n : Node) (p1 p2 : Chain) (h1 : C07.Path n p1) (h2 : C07.Path n p2)
    (hn : NodeFieldsOK n) (hF : ∀ x ∈ p1, NodeFieldsOK x.1)
    (hs : p1.map stepOf = p2.map stepOf) : p1 = p2 := by
  induction p1 generalizing n p2 with
  | nil =>
    cases p2 with
    | nil => rfl
    | cons b r => simp at hs
  | cons a r1 ih =>
    cases p2 with
    | nil => simp at hs
    | cons b r2 =>
      obtain ⟨a, oa⟩ := a
      obtain ⟨b, ob⟩ := b
      obtain ⟨⟨e1, rfl, m1⟩, q1⟩ := h1
      obtain ⟨⟨e2, rfl, m2⟩, q2⟩ := h2
      simp only [List.map_cons, List.cons.injEq, stepOf, Prod.mk.injEq] at hs
      obtain ⟨⟨hf, hi, _⟩, hs⟩ := hs
      obtain ⟨rfl, rfl⟩ := edge_unique n hn a b e1 e2 m1 m2 hf hi
      rw [ih a r2 q1 q2 (hF (a, some e1) (by simp)) (fun x hx => hF x (by simp [hx])) hs]

/-- chains of the same root with the same steps are the same chain -/
theorem chain_eq_of_steps (root : Node) (c1 c2 : Chain) (h1 : IsChain root c1) (h2 : IsChain root c2)
    (hF : ∀ x ∈ c1, NodeFieldsOK x.1) (hs : c1.map stepOf = c2.map stepOf) : c1 = c2 := by
  obtain ⟨p1, rfl, q1⟩ := (C07.isChain_iff root c1).1 h1
  obtain ⟨p2, rfl, q2⟩ := (C07.isChain_iff root c2).1 h2
  simp only [List.map_cons, List.cons.injEq, true_and] at hs
  rw [path_eq_of_steps root p1 p2 q1 q2 (hF (root, none) (by simp)) (fun x hx => hF x (by simp [hx])) hs]

/-- **string-level injectivity, chain-local hypotheses**: two chains of the same root with the same
spelling are equal — same nodes at the same positions. -/
theorem spellChain_injective_local (root : Node) (c1 c2 : Chain)
    (h1 : IsChain root c1) (h2 : IsChain root c2)
    (n1 : ChainNamesOK c1) (n2 : ChainNamesOK c2) (hF : ∀ x ∈ c1, NodeFieldsOK x.1)
    (h : spellChain c1 = spellChain c2) : c1 = c2 :=
  chain_eq_of_steps root c1 c2 h1 h2 hF (steps_of_spell_eq c1 c2 n1 n2 h)

/-! ### sharper: only the field names matter for injectivity

Class names need no hypothesis here: both chains start at the same root, and by induction the next
members are the same node, so the class texts to be cancelled are equal.  (Class names without `/`
are needed to *parse* a spelling back, see `parseSpell_spell` and the examples at the end.) -/

/-- no storage field name of the chain contains `[` -/
def ChainFieldsOK (c : Chain) : Prop := ∀ x ∈ c, ∀ e, x.2 = some e → ∀ ch ∈ e.field, ch ≠ '['

theorem path_eq_of_spell (n : Node) (p1 p2 : Chain) (h1 : C07.Path n p1) (h2 : C07.Path n p2)
    (hn : NodeFieldsOK n) (hF : ∀ x ∈ p1, NodeFieldsOK x.1)
    (g1 : ChainFieldsOK p1) (g2 : ChainFieldsOK p2)
    (hs : spellChain p1 = spellChain p2) : p1 = p2 := by
  induction p1 generalizing n p2 with
  | nil =>
    cases p2 with
    | nil => rfl
    | cons b r =>
      obtain ⟨b, ob⟩ := b
      obtain ⟨⟨e2, rfl, _⟩, _⟩ := h2
      simp [spellChain, xpathStep] at hs
  | cons a r1 ih =>
    obtain ⟨a, oa⟩ := a
    obtain ⟨⟨e1, rfl, m1⟩, q1⟩ := h1
    cases p2 with
    | nil => simp [spellChain, xpathStep] at hs
    | cons b r2 =>
      obtain ⟨b, ob⟩ := b
      obtain ⟨⟨e2, rfl, m2⟩, q2⟩ := h2
      have hs' : e1.field ++ '[' :: (natStr (e1.idx.getD 0) ++ ']' :: (a.cls ++ spellChain r1)) =
          e2.field ++ '[' :: (natStr (e2.idx.getD 0) ++ ']' :: (b.cls ++ spellChain r2)) := by
        simpa [spellChain, xpathStep] using hs
      obtain ⟨hf, _, hs2⟩ := Framing.split_unique (· == '[') _ _ _ _ _ _
        (fun x hx => by simpa using g1 (a, some e1) (by simp) e1 rfl x hx)
        (fun x hx => by simpa using g2 (b, some e2) (by simp) e2 rfl x hx) (by simp) (by simp) hs'
      obtain ⟨hi, _, hs3⟩ := Framing.split_unique (· == ']') _ _ _ _ _ _
        (fun x hx => by simpa using natStr_no_rsqb _ x hx)
        (fun x hx => by simpa using natStr_no_rsqb _ x hx) (by simp) (by simp) hs2
      obtain ⟨rfl, rfl⟩ := edge_unique n hn a b e1 e2 m1 m2 hf (Framing.natStr_injective hi)
      rw [ih a r2 q1 q2 (hF (a, some e1) (by simp)) (fun x hx => hF x (by simp [hx]))
        (fun x hx => g1 x (by simp [hx])) (fun x hx => g2 x (by simp [hx]))
        (List.append_cancel_left hs3)]

/-- **string-level injectivity, minimal chain-local hypotheses**: field names without `[` and
class-table consistency of the members of one of the chains -/
theorem spellChain_injective_sharp (root : Node) (c1 c2 : Chain)
    (h1 : IsChain root c1) (h2 : IsChain root c2)
    (g1 : ChainFieldsOK c1) (g2 : ChainFieldsOK c2) (hF : ∀ x ∈ c1, NodeFieldsOK x.1)
    (h : spellChain c1 = spellChain c2) : c1 = c2 := by
  obtain ⟨p1, rfl, q1⟩ := (C07.isChain_iff root c1).1 h1
  obtain ⟨p2, rfl, q2⟩ := (C07.isChain_iff root c2).1 h2
  simp only [spellChain] at h
  rw [path_eq_of_spell root p1 p2 q1 q2 (hF (root, none) (by simp)) (fun x hx => hF x (by simp [hx]))
    (fun x hx => g1 x (by simp [hx])) (fun x hx => g2 x (by simp [hx])) (List.append_cancel_left h)]

/-! ## tree-level hypotheses -/

/-- every class name and every child-field name of the tree is `IdentLike` -/
def NamesOK (root : Node) : Prop :=
  ∀ n ∈ allNodes root, IdentLike n.cls ∧ ∀ k ∈ n.kids, IdentLike k.name

/-- class-table consistency of every node of the tree -/
def FieldsOK (root : Node) : Prop := ∀ n ∈ allNodes root, NodeFieldsOK n

theorem identLike_no_special {s : Str} (h : IdentLike s) :
    ∀ c ∈ s, c ≠ '/' ∧ c ≠ '@' ∧ c ≠ '[' ∧ c ≠ ']' := by
  intro c hc
  have := h.2 c hc
  refine ⟨?_, ?_, ?_, ?_⟩ <;> (rintro rfl; revert this; decide)

theorem edge_field_mem (p n : Node) (e : Edge) (h : (n, e) ∈ p.edges) : ∃ k ∈ p.kids, k.name = e.field := by
  simp only [Node.edges, List.mem_flatMap] at h
  obtain ⟨k, hk, h⟩ := h
  exact ⟨k, hk, (mem_kid_edges k n e h).1.symm⟩

theorem chainNamesOK_of_tree (root : Node) (hN : NamesOK root) (c : Chain) (hc : IsChain root c) :
    ChainNamesOK c := by
  induction hc with
  | root =>
    intro x hx
    simp only [List.mem_singleton] at hx
    subst hx
    refine ⟨show ∀ c ∈ rootField, c ≠ '[' by decide, fun ch hch => ?_⟩
    exact (identLike_no_special (hN root (by simp [allNodes])).1 ch hch).1
  | snoc c p pe n e h1 h2 ih =>
    intro x hx
    rcases List.mem_append.mp hx with hx | hx
    · exact ih x hx
    · simp only [List.mem_singleton] at hx
      subst hx
      have hch := IsChain.snoc c p pe n e h1 h2
      have hp := C06.chain_mem root _ h1 (p, pe) (by simp)
      have hn := C06.chain_mem root _ hch (n, some e) (by simp)
      obtain ⟨k, hk, hke⟩ := edge_field_mem p n e h2
      refine ⟨fun ch hch' => ?_, fun ch hch' => ?_⟩
      · simp only [stepOf] at hch'
        rw [← hke] at hch'
        exact (identLike_no_special ((hN p hp).2 k hk) ch hch').2.2.1
      · exact (identLike_no_special (hN n hn).1 ch hch').1

/-- **string-level injectivity of `get_xpath`'s spelling**: in a tree whose names are `IdentLike`
and whose nodes are class-table consistent, two chains with the same spelling are the same chain. -/
theorem spellChain_injective (root : Node) (hN : NamesOK root) (hF : FieldsOK root) (c1 c2 : Chain)
    (h1 : IsChain root c1) (h2 : IsChain root c2) (h : spellChain c1 = spellChain c2) : c1 = c2 :=
  spellChain_injective_local root c1 c2 h1 h2 (chainNamesOK_of_tree root hN c1 h1)
    (chainNamesOK_of_tree root hN c2 h2) (fun x hx => hF x.1 (C06.chain_mem root c1 h1 x hx)) h

/-- the positions (object identity and storage edge of every member) coincide -/
theorem spellChain_positions (root : Node) (hN : NamesOK root) (hF : FieldsOK root) (c1 c2 : Chain)
    (h1 : IsChain root c1) (h2 : IsChain root c2) (h : spellChain c1 = spellChain c2) :
    c1.map (fun x => (x.1.uid, x.2)) = c2.map (fun x => (x.1.uid, x.2)) := by
  rw [spellChain_injective root hN hF c1 c2 h1 h2 h]

/-- **no two nodes of a tree share an xpath** -/
theorem xpath_injective (root : Node) (hR : NoRepeat root) (hN : NamesOK root) (hF : FieldsOK root)
    (n1 n2 : Node) (m1 : n1 ∈ allNodes root) (m2 : n2 ∈ allNodes root)
    (h : (TreeT.build root).getXpath n1 = (TreeT.build root).getXpath n2) : n1 = n2 := by
  obtain ⟨c1, o1, h1⟩ := C06.exists_chain root n1 m1
  obtain ⟨c2, o2, h2⟩ := C06.exists_chain root n2 m2
  rw [C06.xpath_chain root hR c1 n1 o1 h1, C06.xpath_chain root hR c2 n2 o2 h2] at h
  have := spellChain_injective root hN hF _ _ h1 h2 (Except.ok.inj h)
  have := List.append_inj' this rfl
  simp only [List.cons.injEq, Prod.mk.injEq, and_true] at this
  exact this.2.1

/-! ## following an xpath from the root -/

/-- walk down: per step take the child stored under that field and index (an absent index reads
as 0), and check its class -/
def walkDown : Node → List (Str × Nat × Str) → Option Node
  | n, [] => some n
  | n, (f, i, c) :: r =>
    match n.edges.find? (fun ce => ce.2.field == f && ce.2.idx.getD 0 == i) with
    | some (ch, _) => if ch.cls == c then walkDown ch r else none
    | none => none

/-- follow a `get_xpath` text from `root`: parse it step by step (field, index, class); the first
step must be `/@root[0]{class of root}`, every further step walks to a child -/
def follow (root : Node) (s : Str) : Option Node :=
  match parseSpell s.length s with
  | some ((f, i, c) :: r) => if f == rootField && i == 0 && c == root.cls then walkDown root r else none
  | _ => none

theorem walkDown_path (n : Node) (p : Chain) (hp : C07.Path n p) (hn : NodeFieldsOK n)
    (hF : ∀ x ∈ p, NodeFieldsOK x.1) : walkDown n (p.map stepOf) = some (C07.lastNode n p) := by
  induction p generalizing n with
  | nil => rfl
  | cons a r ih =>
    obtain ⟨a, oa⟩ := a
    obtain ⟨⟨e, rfl, m⟩, q⟩ := hp
    simp only [List.map_cons, stepOf, walkDown, C07.lastNode_cons]
    cases hfind : n.edges.find? (fun ce => ce.2.field == e.field && ce.2.idx.getD 0 == e.idx.getD 0) with
    | none =>
      have := List.find?_eq_none.mp hfind (a, e) m
      simp at this
    | some x =>
      obtain ⟨b, e'⟩ := x
      have hmem := List.mem_of_find?_eq_some hfind
      have hpred := List.find?_some hfind
      simp only [Bool.and_eq_true, beq_iff_eq] at hpred
      obtain ⟨rfl, rfl⟩ := edge_unique n hn b a e' e hmem m hpred.1 hpred.2
      simp only [beq_self_eq_true, if_true]
      exact ih b q (hF (b, some e') (by simp)) (fun x hx => hF x (by simp [hx]))

/-- **following the spelling of a chain from the root reaches the chain's last node**
(chain-local hypotheses) -/
theorem follow_spell_local (root : Node) (chain : Chain) (hc : IsChain root chain)
    (hN : ChainNamesOK chain) (hF : ∀ x ∈ chain, NodeFieldsOK x.1) :
    follow root (spellChain chain) = chain.getLast?.map (·.1) := by
  obtain ⟨p, rfl, q⟩ := (C07.isChain_iff root chain).1 hc
  unfold follow
  rw [parseSpell_spell _ hN, C07.getLast?_cons_lastNode]
  simp only [List.map_cons, stepOf, beq_self_eq_true, Bool.and_self, if_true]
  exact walkDown_path root p q (hF (root, none) (by simp)) (fun x hx => hF x (by simp [hx]))

/-- **following the xpath from the root reaches the node** -/
theorem follow_spell (root : Node) (hN : NamesOK root) (hF : FieldsOK root) (c : Chain) (n : Node)
    (oe : Option Edge) (hc : IsChain root (c ++ [(n, oe)])) :
    follow root (spellChain (c ++ [(n, oe)])) = some n := by
  rw [follow_spell_local root _ hc (chainNamesOK_of_tree root hN _ hc)
    (fun x hx => hF x.1 (C06.chain_mem root _ hc x hx))]
  simp

/-- … stated on `get_xpath` itself: `follow root (tree.get_xpath(n)) = n` for every node of a tree
without repeated objects -/
theorem follow_getXpath (root : Node) (hR : NoRepeat root) (hN : NamesOK root) (hF : FieldsOK root)
    (n : Node) (m : n ∈ allNodes root) :
    ∃ s, (TreeT.build root).getXpath n = .ok s ∧ follow root s = some n := by
  obtain ⟨c, oe, hc⟩ := C06.exists_chain root n m
  exact ⟨_, C06.xpath_chain root hR c n oe hc, follow_spell root hN hF c n oe hc⟩

/-! ## the hypotheses follow from the well-formedness predicate `WFN` of C01 -/

theorem kidNames_eq (ks : List Kid) : kidNames ks = ks.map Kid.name := by
  induction ks with
  | nil => rfl
  | cons k r ih => cases k; simp [kidNames, kidName, Kid.name, ih]

theorem nodesLen_eq (ns : List Node) : nodesLen ns = ns.length := by
  induction ns with
  | nil => rfl
  | cons n r ih => simp [nodesLen, ih]

theorem wfKids_mem (ks : List Kid) (h : WFKids ks) : ∀ k ∈ ks, WFKid k := by
  induction ks with
  | nil => simp
  | cons k r ih =>
    simp only [WFKids] at h
    intro x hx
    rcases List.mem_cons.mp hx with rfl | hx
    · exact h.1
    · exact ih h.2 x hx

theorem wfNodes_mem (ns : List Node) (h : WFNodes ns) : ∀ n ∈ ns, WFN n := by
  induction ns with
  | nil => simp
  | cons n r ih =>
    simp only [WFNodes] at h
    intro x hx
    rcases List.mem_cons.mp hx with rfl | hx
    · exact h.1
    · exact ih h.2 x hx

/-- what `WFN` says about the node itself and its children -/
theorem wfn_node (n : Node) (h : WFN n) :
    IdentLike n.cls ∧ (∀ k ∈ n.kids, IdentLike k.name) ∧ NodeFieldsOK n ∧
      ∀ c e, (c, e) ∈ n.edges → WFN c := by
  cases n with
  | mk hd ks =>
    simp only [WFN] at h
    obtain ⟨h1, _, _, h4, h5⟩ := h
    have hk := wfKids_mem ks h4
    refine ⟨h1, ?_, ⟨by rw [← kidNames_eq]; exact h5, ?_⟩, ?_⟩
    · intro k hk'
      have := hk k hk'
      cases k
      simp only [WFKid] at this
      exact this.1
    · intro k hk' hc
      have := hk k hk'
      cases k
      simp only [WFKid, nodesLen_eq] at this
      exact this.2.1 hc
    · intro c e hce
      simp only [Node.edges, Node.kids, List.mem_flatMap] at hce
      obtain ⟨k, hk', hce⟩ := hce
      have hm := (mem_kid_edges k c e hce).2.1
      have := hk k hk'
      cases k
      simp only [WFKid] at this
      exact wfNodes_mem _ this.2.2 c hm

theorem wfn_allNodes (root : Node) (h : WFN root) : ∀ n ∈ allNodes root, WFN n := by
  intro n hn
  obtain ⟨c, oe, hc⟩ := C06.exists_chain root n hn
  revert c n oe
  have := C06.chain_rec root (motive := fun _ n _ => WFN n) h
    (fun c p pe n e _ hm ih => (wfn_node p ih).2.2.2 n e hm)
  intro n _ c oe hc
  exact this c n oe hc

theorem namesOK_of_wfn (root : Node) (h : WFN root) : NamesOK root :=
  fun n hn => ⟨(wfn_node n (wfn_allNodes root h n hn)).1, (wfn_node n (wfn_allNodes root h n hn)).2.1⟩

theorem fieldsOK_of_wfn (root : Node) (h : WFN root) : FieldsOK root :=
  fun n hn => (wfn_node n (wfn_allNodes root h n hn)).2.2.1

/-! ## non-vacuity and necessity of the hypotheses -/

private def nd (u : Nat) (c : Str) (ks : List Kid) : Node :=
  .mk { uid := u, cls := c, mro := [c], org := ⟨0, []⟩, props := [], truthy := true } ks
private def leaf (u : Nat) : Node := nd u ['L'] []
private def mid : Node := nd 2 ['M'] [.mk ['x'] false [leaf 3]]
/-- `R(a=[L1, M2(x=L3), L4])` -/
private def tree : Node := nd 0 ['R'] [.mk ['a'] true [leaf 1, mid, leaf 4]]

private def chain3 : Chain := [(tree, none), (mid, some ⟨['a'], some 1⟩), (leaf 3, some ⟨['x'], none⟩)]

example : String.ofList (spellChain chain3) = "/@root[0]R/@a[1]M/@x[0]L" := by decide
example : parseSpell 24 "/@root[0]R/@a[1]M/@x[0]L".toList =
    some [(rootField, 0, ['R']), (['a'], 1, ['M']), (['x'], 0, ['L'])] := by decide
example : (follow tree "/@root[0]R/@a[1]M/@x[0]L".toList).map (·.uid) = some 3 := by decide
example : (follow tree "/@root[0]R/@a[2]L".toList).map (·.uid) = some 4 := by decide
example : (follow tree "/@root[0]R".toList).map (·.uid) = some 0 := by decide
-- wrong class, missing child, malformed text
example : (follow tree "/@root[0]R/@a[1]L".toList).map (·.uid) = none := by decide
example : (follow tree "/@root[0]R/@a[3]L".toList).map (·.uid) = none := by decide
example : (follow tree "/@root[0]R/@a[1M".toList).map (·.uid) = none := by decide
example : (follow tree "/@a[0]R".toList).map (·.uid) = none := by decide
private theorem tree_wf : WFN tree := by
  simp [tree, mid, leaf, nd, WFN, WFKids, WFKid, WFNodes, kidNames, kidName, nodesLen, IdentLike]
  decide
private theorem tree_noRepeat : NoRepeat tree := by
  have : (allNodes tree).map (·.uid) = [0, 1, 2, 3, 4] := by decide
  simp [NoRepeat, this]
-- the theorems apply to the concrete tree
example : ∀ n ∈ allNodes tree, ∃ s, (TreeT.build tree).getXpath n = .ok s ∧ follow tree s = some n :=
  fun n hn => follow_getXpath tree tree_noRepeat (namesOK_of_wfn tree tree_wf) (fieldsOK_of_wfn tree tree_wf) n hn

-- necessity 1: a single field holding two nodes — two positions, one spelling
private def twoInSingle : Node := nd 0 ['R'] [.mk ['x'] false [leaf 1, leaf 2]]
example : spellChain [(twoInSingle, none), (leaf 1, some ⟨['x'], none⟩)] =
    spellChain [(twoInSingle, none), (leaf 2, some ⟨['x'], none⟩)] := by decide
example : twoInSingle.edges.map (fun p => (p.1.uid, p.2)) = [(1, ⟨['x'], none⟩), (2, ⟨['x'], none⟩)] := by decide
example : ¬ (∀ k ∈ twoInSingle.kids, k.coll = false → k.nodes.length ≤ 1) := by decide

-- necessity 2: the same field name twice in one node (once single, once a tuple):
-- `[0]` of the single child and index 0 of the tuple collide
private def dupField : Node := nd 0 ['R'] [.mk ['x'] false [leaf 1], .mk ['x'] true [leaf 2]]
example : spellChain [(dupField, none), (leaf 1, some ⟨['x'], none⟩)] =
    spellChain [(dupField, none), (leaf 2, some ⟨['x'], some 0⟩)] := by decide
example : dupField.edges.map (fun p => (p.1.uid, p.2)) = [(1, ⟨['x'], none⟩), (2, ⟨['x'], some 0⟩)] := by decide
example : ¬ (dupField.kids.map Kid.name).Nodup := by decide

-- necessity 3: a field name containing `[`: `R -(a[0]M/@y)-> L` and `R -a-> M -y-> L`
private def inner : Node := nd 2 ['M'] [.mk ['y'] false [leaf 3]]
private def fakeF : Node := nd 0 ['R'] [.mk "a[0]M/@y".toList false [leaf 3], .mk ['a'] false [inner]]
example : spellChain [(fakeF, none), (leaf 3, some ⟨"a[0]M/@y".toList, none⟩)] =
    spellChain [(fakeF, none), (inner, some ⟨['a'], none⟩), (leaf 3, some ⟨['y'], none⟩)] := by decide
example : fakeF.edges.map (fun p => (p.1.uid, p.2)) = [(3, ⟨"a[0]M/@y".toList, none⟩), (2, ⟨['a'], none⟩)] ∧
    inner.edges.map (fun p => (p.1.uid, p.2)) = [(3, ⟨['y'], none⟩)] := by decide
example : (fakeF.kids.map Kid.name).Nodup ∧ ∀ k ∈ fakeF.kids, k.coll = false → k.nodes.length ≤ 1 := by decide

-- class names: not needed for injectivity (`spellChain_injective_sharp`), but needed to parse the
-- text back: with a `/` in a class name the steps are not recovered and `follow` fails
private def slashCls : Node := nd 0 ['R'] [.mk ['a'] true [nd 1 "M/x".toList []]]
private def slashChain : Chain := [(slashCls, none), (nd 1 "M/x".toList [], some ⟨['a'], some 0⟩)]
example : String.ofList (spellChain slashChain) = "/@root[0]R/@a[0]M/x" := by decide
example : parseSpell (spellChain slashChain).length (spellChain slashChain) = none := by decide
example : (follow slashCls (spellChain slashChain)).map (·.uid) = none := by decide

end C06X
end PyOak

#print axioms PyOak.C06X.parseSpell_spell
#print axioms PyOak.C06X.spellChain_injective_local
#print axioms PyOak.C06X.spellChain_injective_sharp
#print axioms PyOak.C06X.spellChain_injective
#print axioms PyOak.C06X.spellChain_positions
#print axioms PyOak.C06X.xpath_injective
#print axioms PyOak.C06X.follow_spell_local
#print axioms PyOak.C06X.follow_spell
#print axioms PyOak.C06X.follow_getXpath
#print axioms PyOak.C06X.namesOK_of_wfn
#print axioms PyOak.C06X.fieldsOK_of_wfn
