/-
C05, "bfs yields level by level" tied to DEPTH.

`C05.level` is an iteration of `nextLevel`; `C05.bfs_levels` proves that the queue loop of `bfs`
is the concatenation of these levels.  Here the levels are tied to the downward structure of the
tree, in the vocabulary of C06 (`IsChain`: root-first chains, each member stored in its
predecessor):

* `level_iff_depth` : `x` is in the `k`-th level (no pruning) iff there is a chain from the start
  node to `x.node` with `k + 2` members whose last edge is `x`'s `(parent, field, index)`;
* `bfs_depth_sorted` / `bfs_depth_sorted_chain` : the `bfs` stream, position by position, carries
  depths that never decrease: it is the concatenation of the levels by increasing depth; every
  position at every depth is listed;
* `trail_iff_chain` : trails (Spec/Traverse.lean) and chains are the same thing.
-/
import PyOak.Props.C05Trails
import PyOak.Props.C06
namespace PyOak
namespace C05D
open C05 C05X C05T Trav

/-! ### trails and chains -/

/-- the root-first chain spelled by a trail below `n` -/
def chainOf (n : Node) (t : List Item) : Chain :=
  (n, none) :: t.map (fun it => (it.node, some it.edge))

theorem chainOf_snoc (n : Node) (t : List Item) (x : Item) :
    chainOf n (t ++ [x]) = chainOf n t ++ [(x.node, some x.edge)] := by simp [chainOf]

theorem chainOf_length (n : Node) (t : List Item) : (chainOf n t).length = t.length + 1 := by
  simp [chainOf]

theorem exists_snoc {α : Type} (l : List α) (h : l ≠ []) : ∃ l' a, l = l' ++ [a] := by
  rcases List.eq_nil_or_concat l with h' | ⟨l', a, h'⟩
  · exact absurd h' h
  · exact ⟨l', a, by simpa using h'⟩

/-- a chain spelled by a trail ends in the end node of the trail -/
theorem chainOf_last (n : Node) (t : List Item) :
    ∃ c pe, chainOf n t = c ++ [(endNode n t, pe)] ∧ c.length = t.length := by
  by_cases h : t = []
  · subst h; exact ⟨[], none, rfl, rfl⟩
  · obtain ⟨t', y, rfl⟩ := exists_snoc t h
    exact ⟨chainOf n t', some y.edge, by rw [chainOf_snoc, endNode_snoc],
      by simp [chainOf_length]⟩

theorem mem_items_iff (p : Node) (x : Item) :
    x ∈ p.items ↔ x.parent = p ∧ (x.node, x.edge) ∈ p.edges := by
  constructor
  · intro h; exact ⟨items_parent p x h, by have := items_sound p x h; rwa [items_parent p x h] at this⟩
  · rintro ⟨rfl, h⟩
    exact List.mem_map.mpr ⟨(x.node, x.edge), h, rfl⟩

theorem chain_extend (root : Node) (t : List Item) :
    ∀ (c : Chain) (m : Node) (oe : Option Edge), IsChain root (c ++ [(m, oe)]) → IsTrail m t →
      IsChain root (c ++ [(m, oe)] ++ t.map (fun it => (it.node, some it.edge))) := by
  induction t with
  | nil => intro c m oe h _; simpa using h
  | cons a r ih =>
    intro c m oe h ht
    obtain ⟨ha, hr⟩ := ht
    have h1 := IsChain.snoc c m oe a.node a.edge h ((mem_items_iff m a).mp ha).2
    have := ih (c ++ [(m, oe)]) a.node (some a.edge) h1 hr
    simpa using this

/-- every valid trail spells a chain -/
theorem isChain_of_trail (n : Node) (t : List Item) (h : IsTrail n t) : IsChain n (chainOf n t) := by
  have := chain_extend n t [] n none IsChain.root h
  simpa [chainOf] using this

/-- every chain is spelled by a valid trail -/
theorem trail_of_isChain (n : Node) (ch : Chain) (h : IsChain n ch) :
    ∃ t, IsTrail n t ∧ ch = chainOf n t := by
  induction h with
  | root => exact ⟨[], trivial, rfl⟩
  | snoc c p pe m e _ hmem ih =>
    obtain ⟨t, ht, hc⟩ := ih
    obtain ⟨c', pe', hl, _⟩ := chainOf_last n t
    have hp : p = endNode n t := by
      have := List.append_inj' (hc.trans hl) rfl
      simp only [List.cons.injEq, Prod.mk.injEq, and_true] at this
      exact this.2.1
    refine ⟨t ++ [⟨m, p, e⟩], ?_, ?_⟩
    · rw [isTrail_snoc]
      refine ⟨ht, ?_⟩
      rw [← hp]
      exact (mem_items_iff p _).mpr ⟨rfl, hmem⟩
    · rw [chainOf_snoc, ← hc]

/-- **trails = chains**: `x` ends a valid trail with `k` earlier positions iff a chain with `k`
members before `x.parent` leads to `x.node` through `x`'s `(parent, field, index)` -/
theorem trail_iff_chain (n : Node) (x : Item) (k : Nat) :
    (∃ t, t.length = k ∧ IsTrail n (t ++ [x])) ↔
      ∃ c pe, IsChain n (c ++ [(x.parent, pe)] ++ [(x.node, some x.edge)]) ∧ c.length = k := by
  constructor
  · rintro ⟨t, hk, ht⟩
    have hc := isChain_of_trail n _ ht
    rw [chainOf_snoc] at hc
    obtain ⟨c, pe, hl, hlen⟩ := chainOf_last n t
    have hp : x.parent = endNode n t := items_parent _ x ((isTrail_snoc n t x).mp ht).2
    rw [hl, ← hp] at hc
    exact ⟨c, pe, hc, hlen.trans hk⟩
  · rintro ⟨c, pe, hc, hk⟩
    obtain ⟨t', ht', he⟩ := trail_of_isChain n _ hc
    have hne : t' ≠ [] := by
      intro h; subst h
      have := congrArg List.length he
      simp [chainOf] at this
    obtain ⟨t, y, rfl⟩ := exists_snoc t' hne
    rw [chainOf_snoc] at he
    have h1 := List.append_inj' he rfl
    simp only [List.cons.injEq, Prod.mk.injEq, Option.some.injEq, and_true] at h1
    obtain ⟨h2, h3, h4⟩ := h1
    obtain ⟨c', pe', hl, hlen⟩ := chainOf_last n t
    have h5 := List.append_inj' (h2.trans hl) rfl
    simp only [List.cons.injEq, Prod.mk.injEq, and_true] at h5
    have hy := ((isTrail_snoc n t y).mp ht').2
    have hyp : y.parent = x.parent := (items_parent _ y hy).trans h5.2.1.symm
    have hxy : y = x := by
      obtain ⟨a1, a2, a3⟩ := y
      obtain ⟨b1, b2, b3⟩ := x
      simp only at h3 h4 hyp
      rw [← h3, ← h4, hyp]
    subst hxy
    refine ⟨t, ?_, ht'⟩
    rw [← hlen, ← h5.1]; exact hk

/-! ### levels by depth -/

/-- `x` lies at depth `k + 1` below `n`: a root-first chain with `k` members before `x.parent`
leads to `x.node`, its last edge being `x`'s `(parent, field, index)` -/
def HasDepth (n : Node) (x : Item) (k : Nat) : Prop :=
  ∃ c pe, IsChain n (c ++ [(x.parent, pe)] ++ [(x.node, some x.edge)]) ∧ c.length = k

/-- **bfs "level by level" is "by depth"**: without pruning, `x` is in the `k`-th level iff a
chain from the start node to `x.node` of `k + 2` members ends with `x`'s position -/
theorem level_iff_depth (n : Node) (k : Nat) (x : Item) :
    x ∈ level (fun _ => false) n k ↔
      ∃ c pe, IsChain n (c ++ [(x.parent, pe)] ++ [(x.node, some x.edge)]) ∧ c.length = k := by
  rw [level_iff_trail, ← trail_iff_chain]
  constructor
  · rintro ⟨t, h1, h2, _⟩; exact ⟨t, h1, h2⟩
  · rintro ⟨t, h1, h2⟩; exact ⟨t, h1, h2, fun _ _ => rfl⟩

/-- depth bound: positions exist only at depths below the size of the tree -/
theorem hasDepth_lt (n : Node) (x : Item) (k : Nat) (h : HasDepth n x k) : k + 1 < n.size := by
  obtain ⟨c, pe, hc, hk⟩ := h
  have := C06.chain_length_lt n _ _ _ hc
  simp at this
  omega

/-- the `bfs` stream, for every prune and filter, annotated with levels: the level numbers never
decrease along the stream and every yielded position belongs to the level it is annotated with -/
theorem bfs_level_sorted (P F : Item → Bool) (n : Node) :
    ∃ ann : List (Item × Nat), ann.map (·.1) = bfsImpl P F n ∧
      (ann.map (·.2)).Pairwise (· ≤ ·) ∧
      (∀ p ∈ ann, p.1 ∈ level P n p.2 ∧ p.2 < n.size ∧ F p.1 = true) ∧
      ∀ k x, k < n.size → x ∈ level P n k → F x = true → (x, k) ∈ ann := by
  let full : List (Item × Nat) := (List.range n.size).flatMap fun k => (level P n k).map (·, k)
  refine ⟨full.filter (fun p => F p.1), ?_, ?_, ?_, ?_⟩
  · rw [bfs_levels]
    unfold bfs
    have : (fun p : Item × Nat => F p.1) = F ∘ (·.1) := rfl
    rw [this, ← List.filter_map]
    congr 1
    simp only [full, List.map_flatMap, List.map_map]
    apply flatMap_congr'
    intro k _
    simp [Function.comp_def]
  · refine List.Pairwise.sublist (List.filter_sublist.map _) ?_
    rw [List.pairwise_map]
    refine List.pairwise_flatMap.mpr ⟨?_, ?_⟩
    · intro k _
      rw [List.pairwise_map]
      exact List.pairwise_of_forall (fun _ _ => Nat.le_refl _)
    · refine List.pairwise_lt_range.imp ?_
      intro a b hab x hx y hy
      obtain ⟨_, _, rfl⟩ := List.mem_map.mp hx
      obtain ⟨_, _, rfl⟩ := List.mem_map.mp hy
      exact Nat.le_of_lt hab
  · intro p hp
    obtain ⟨hp, hF⟩ := List.mem_filter.mp hp
    obtain ⟨k, hk, hp⟩ := List.mem_flatMap.mp hp
    obtain ⟨x, hx, rfl⟩ := List.mem_map.mp hp
    exact ⟨hx, List.mem_range.mp hk, hF⟩
  · intro k x hk hx hF
    exact List.mem_filter.mpr ⟨List.mem_flatMap.mpr ⟨k, List.mem_range.mpr hk,
      List.mem_map.mpr ⟨x, hx, rfl⟩⟩, hF⟩

/-- **bfs yields by non-decreasing depth** (no prune, no filter): position by position the
stream carries a depth (`HasDepth`: the length of a chain from the start node), these depths never
decrease along the stream, and every position at every depth is in the stream — i.e. the stream
is the concatenation of the depth classes by increasing depth -/
theorem bfs_depth_sorted_chain (n : Node) :
    ∃ ann : List (Item × Nat),
      ann.map (·.1) = bfsImpl (fun _ => false) (fun _ => true) n ∧
      (ann.map (·.2)).Pairwise (· ≤ ·) ∧
      (∀ p ∈ ann, HasDepth n p.1 p.2) ∧
      ∀ x k, HasDepth n x k → (x, k) ∈ ann := by
  obtain ⟨ann, h1, h2, h3, h4⟩ := bfs_level_sorted (fun _ => false) (fun _ => true) n
  refine ⟨ann, h1, h2, ?_, ?_⟩
  · intro p hp; exact (level_iff_depth n p.2 p.1).mp (h3 p hp).1
  · intro x k h
    have := hasDepth_lt n x k h
    exact h4 k x (by omega) ((level_iff_depth n k x).mpr h) rfl

/-- the same with pruning and filtering, depth read as the length of a trail whose earlier
positions are not pruned -/
theorem bfs_depth_sorted (P F : Item → Bool) (n : Node) :
    ∃ ann : List (Item × Nat), ann.map (·.1) = bfsImpl P F n ∧
      (ann.map (·.2)).Pairwise (· ≤ ·) ∧
      ∀ p ∈ ann, ∃ t, t.length = p.2 ∧ IsTrail n (t ++ [p.1]) ∧ ∀ y ∈ t, P y = false := by
  obtain ⟨ann, h1, h2, h3, _⟩ := bfs_level_sorted P F n
  exact ⟨ann, h1, h2, fun p hp => (level_iff_trail P n p.2 p.1).mp (h3 p hp).1⟩

/-- the stream is the concatenation of the depth classes (explicit form of `bfs_levels` with the
levels read as depths) -/
theorem bfs_concat_depth (n : Node) :
    bfsImpl (fun _ => false) (fun _ => true) n =
        (List.range n.size).flatMap (level (fun _ => false) n) ∧
      ∀ k x, x ∈ level (fun _ => false) n k ↔ HasDepth n x k := by
  refine ⟨?_, fun k x => level_iff_depth n k x⟩
  rw [bfs_levels]; simp [bfs]

/-! ### non-vacuity -/

private def hd (u : Nat) (c : Str) : Head :=
  { uid := u, cls := c, mro := [c], org := ⟨0, []⟩, props := [], truthy := true }
private def leaf (u : Nat) : Node := .mk (hd u ['L']) []
private def mid : Node := .mk (hd 2 ['M']) [.mk ['x'] false [leaf 3], .mk ['y'] true [leaf 5, leaf 6]]
private def tree : Node := .mk (hd 0 ['R']) [.mk ['a'] true [leaf 1, mid], .mk ['b'] false [leaf 4]]

example : (level (fun _ => false) tree 0).map (·.node.uid) = [1, 2, 4] := by decide
example : (level (fun _ => false) tree 1).map (·.node.uid) = [3, 5, 6] := by decide
example : (bfsImpl (fun _ => false) (fun _ => true) tree).map (·.node.uid) = [1, 2, 4, 3, 5, 6] := by
  decide
/-- the position of `leaf 3` has depth 1 (one member, the root, before its parent `mid`) -/
example : HasDepth tree ⟨leaf 3, mid, ⟨['x'], none⟩⟩ 1 :=
  ⟨[(tree, none)], some ⟨['a'], some 1⟩,
    IsChain.snoc _ _ _ _ _ (IsChain.snoc [] _ _ _ _ IsChain.root (List.Mem.tail _ (List.Mem.head _)))
      (List.Mem.head _), rfl⟩

#print axioms trail_iff_chain
#print axioms level_iff_depth
#print axioms bfs_level_sorted
#print axioms bfs_depth_sorted_chain
#print axioms bfs_depth_sorted
#print axioms bfs_concat_depth

end C05D
end PyOak
