/-
C13 — Runtime type checking accepts exactly the well-typed constructions.

`isInstance` (Model/IsInstance.lean) follows the order of checks of `pyoak.typing.is_instance`;
`conforms` (Spec/Conforms.lean) is the conformance relation the property lists.  The theorems
say that the two agree for every value and every annotation of the accepted grammar (any depth)
outside the listed don't-care points, that `_check_runtime_types` returns exactly the
non-conforming checked fields, and that the gate only ever adds the `InvalidTypes` outcome.
-/
import PyOak.Spec.Conforms
namespace PyOak
namespace C13
open RT

/-! ### the early tests never fire on structured annotations -/

@[simp] theorem pre_tupleFix (v : PyVal) (ts : List Ty) : pre v (.tupleFix ts) = Option.none := by
  simp [pre, Ty.isInt, Ty.isFloat, Ty.isAny, pyIsinstance]
@[simp] theorem pre_tupleVar (v : PyVal) (u : Ty) : pre v (.tupleVar u) = Option.none := by
  simp [pre, Ty.isInt, Ty.isFloat, Ty.isAny, pyIsinstance]
@[simp] theorem pre_fset (v : PyVal) (u : Ty) : pre v (.fset u) = Option.none := by
  simp [pre, Ty.isInt, Ty.isFloat, Ty.isAny, pyIsinstance]
@[simp] theorem pre_seq (v : PyVal) (u : Ty) : pre v (.seq u) = Option.none := by
  simp [pre, Ty.isInt, Ty.isFloat, Ty.isAny, pyIsinstance]
@[simp] theorem pre_map (v : PyVal) (k w : Ty) : pre v (.map k w) = Option.none := by
  simp [pre, Ty.isInt, Ty.isFloat, Ty.isAny, pyIsinstance]
@[simp] theorem pre_lit (v : PyVal) (ms : List Lit) : pre v (.lit ms) = Option.none := by
  simp [pre, Ty.isInt, Ty.isFloat, Ty.isAny, pyIsinstance]

/-! ### literals -/

theorem pyEqLit_of_not_cross {v : PyVal} {m : Lit} (h : crossEqLit v m = false) :
    pyEqLit v m = strictEqLit v m := by
  unfold crossEqLit at h
  cases hp : pyEqLit v m <;> cases hs : strictEqLit v m <;> simp_all
  -- remaining: pyEqLit = false, strictEqLit = true: impossible
  cases v <;> cases m <;> simp_all [pyEqLit, strictEqLit, PyVal.num, Lit.num]

theorem lit_any_eq (v : PyVal) (ms : List Lit) (h : (ms.any fun m => crossEqLit v m) = false) :
    (ms.any fun m => pyEqLit v m) = litMember v ms := by
  induction ms with
  | nil => simp [litMember]
  | cons m r ih =>
    simp only [List.any_cons, Bool.or_eq_false_iff] at h
    simp only [litMember, List.any_cons] at ih ⊢
    rw [pyEqLit_of_not_cross h.1, ih h.2]

/-! ### element-wise helpers -/

theorem all_congr_of {α : Type} (xs : List α) (f g d : α → Bool)
    (hd : (xs.any d) = false) (h : ∀ x, d x = false → f x = g x) : xs.all f = xs.all g := by
  induction xs with
  | nil => rfl
  | cons x r ih =>
    simp only [List.any_cons, Bool.or_eq_false_iff] at hd
    simp only [List.all_cons, h x hd.1, ih hd.2]

theorem len_guard (a b : Nat) (c : Bool) :
    (if (a != b) = true then false else c) = (b == a && c) := by
  by_cases h : a = b
  · subst h; simp
  · have h' : ¬ b = a := fun e => h e.symm
    simp [h, h']

/-! ### the main theorem: checker = conformance relation -/

mutual
theorem isInstance_eq_conforms (v : PyVal) (t : Ty) (h : dontCare v t = false) :
    isInstance v t = conforms v t := by
  match t with
  | .int => cases v <;> simp [isInstance, conforms, pre, pyIsinstance, Ty.isInt, Ty.isFloat, Ty.isAny,
      PyVal.isInt, PyVal.isBool, PyVal.isFloat]
  | .float =>
    cases v <;> simp_all [isInstance, conforms, dontCare, pre, pyIsinstance, Ty.isInt, Ty.isFloat, Ty.isAny,
      PyVal.isInt, PyVal.isBool, PyVal.isFloat]
  | .str => cases v <;> simp [isInstance, conforms, pre, pyIsinstance, Ty.isInt, Ty.isFloat, Ty.isAny,
      PyVal.isStr]
  | .bool => cases v <;> simp [isInstance, conforms, pre, pyIsinstance, Ty.isInt, Ty.isFloat, Ty.isAny,
      PyVal.isBool]
  | .bytes => cases v <;> simp [isInstance, conforms, pre, pyIsinstance, Ty.isInt, Ty.isFloat, Ty.isAny,
      PyVal.isBytes]
  | .any => simp [isInstance, conforms, pre, pyIsinstance, Ty.isInt, Ty.isFloat, Ty.isAny]
  | .none => cases v <;> simp [isInstance, conforms, pre, pyIsinstance, Ty.isInt, Ty.isFloat, Ty.isAny,
      PyVal.isNone]
  | .cls c =>
    cases hv : v.instOf c <;> simp [isInstance, conforms, pre, pyIsinstance, Ty.isInt, Ty.isFloat, Ty.isAny, hv]
  | .tupleAny => cases v <;> simp [isInstance, conforms, pre, pyIsinstance, Ty.isInt, Ty.isFloat, Ty.isAny,
      PyVal.isTuple]
  | .fsetAny => cases v <;> simp [isInstance, conforms, pre, pyIsinstance, Ty.isInt, Ty.isFloat, Ty.isAny,
      PyVal.isFset]
  | .seqAny =>
    cases hv : v.seqElems <;> simp [isInstance, conforms, pre, pyIsinstance, Ty.isInt, Ty.isFloat, Ty.isAny, hv]
  | .mapAny => cases v <;> simp [isInstance, conforms, pre, pyIsinstance, Ty.isInt, Ty.isFloat, Ty.isAny,
      PyVal.isDict]
  | .lit ms =>
    simp only [dontCare] at h
    simp only [isInstance, conforms, pre_lit]
    exact lit_any_eq v ms h
  | .newtype _ u =>
    simp only [dontCare] at h
    simp only [isInstance, conforms]
    exact isInstance_eq_conforms v u h
  | .union ts =>
    simp only [dontCare] at h
    simp only [isInstance, conforms]
    exact isInstAny_eq v ts h
  | .tupleFix ts =>
    simp only [isInstance, conforms, pre_tupleFix]
    cases v with
    | tuple xs =>
      simp only [dontCare] at h
      simp only []
      rw [isInstZip_eq xs ts h]
      cases ts with
      | nil => cases xs <;> simp [conformsZip]
      | cons t r =>
        simp only [List.isEmpty_cons, Bool.false_eq_true, if_false]
        exact len_guard _ _ _
    | _ => rfl
  | .tupleVar u =>
    simp only [isInstance, conforms, pre_tupleVar]
    cases v with
    | tuple xs =>
      simp only [dontCare] at h
      exact all_congr_of xs _ _ _ h (fun x hx => isInstance_eq_conforms x u hx)
    | _ => rfl
  | .fset u =>
    simp only [isInstance, conforms, pre_fset]
    cases v with
    | fset xs =>
      simp only [dontCare] at h
      exact all_congr_of xs _ _ _ h (fun x hx => isInstance_eq_conforms x u hx)
    | _ => rfl
  | .seq u =>
    simp only [isInstance, conforms, pre_seq]
    simp only [dontCare] at h
    cases hv : v.seqElems with
    | none => rfl
    | some xs =>
      rw [hv] at h
      exact all_congr_of xs _ _ _ h (fun x hx => isInstance_eq_conforms x u hx)
  | .map k w =>
    simp only [isInstance, conforms, pre_map]
    cases v with
    | dict kvs =>
      simp only [dontCare] at h
      refine all_congr_of kvs _ _ _ h (fun kv hkv => ?_)
      simp only [Bool.or_eq_false_iff] at hkv
      rw [isInstance_eq_conforms kv.1 k hkv.1, isInstance_eq_conforms kv.2 w hkv.2]
    | _ => rfl
theorem isInstAny_eq (v : PyVal) (ts : List Ty) (h : dontCareAny v ts = false) :
    isInstAny v ts = conformsAny v ts := by
  match ts with
  | [] => simp [isInstAny, conformsAny]
  | t :: r =>
    simp only [dontCareAny, Bool.or_eq_false_iff] at h
    simp only [isInstAny, conformsAny]
    rw [isInstance_eq_conforms v t h.1, isInstAny_eq v r h.2]
theorem isInstZip_eq (xs : List PyVal) (ts : List Ty) (h : dontCareZip xs ts = false) :
    isInstZip xs ts = conformsZip xs ts := by
  match ts with
  | [] => simp [isInstZip, conformsZip]
  | t :: r =>
    match xs with
    | [] => simp [isInstZip, conformsZip]
    | x :: xr =>
      simp only [dontCareZip, Bool.or_eq_false_iff] at h
      simp only [isInstZip, conformsZip]
      rw [isInstance_eq_conforms x t h.1, isInstZip_eq xr r h.2]
end

/-- the statement's reading of the theorem above, with `DontCare` as a proposition -/
def DontCare (v : PyVal) (t : Ty) : Prop := dontCare v t = true

theorem isInstance_iff_conforms (v : PyVal) (t : Ty) (h : ¬ DontCare v t) :
    isInstance v t = true ↔ conforms v t = true := by
  have h' : dontCare v t = false := by simpa [DontCare] using h
  rw [isInstance_eq_conforms v t h']

/-! ### clauses of the statement, read off the model (no hypothesis) -/

/-- unions by any member — also for bools (`is_instance(True, int | str)` is `False`) -/
theorem isInstance_union (v : PyVal) (ts : List Ty) :
    isInstance v (.union ts) = ts.any fun t => isInstance v t := by
  simp only [isInstance]
  induction ts with
  | nil => simp [isInstAny]
  | cons t r ih => simp [isInstAny, ih]

/-- bool values conform to bool and not to int -/
theorem bool_conforms_bool_not_int (b : Bool) :
    isInstance (.bool b) .bool = true ∧ isInstance (.bool b) .int = false := by
  simp [isInstance, pre, pyIsinstance, Ty.isInt, Ty.isFloat, PyVal.isBool, PyVal.isInt]

/-- ints are acceptable for float, floats are not acceptable for int -/
theorem int_conforms_float (i : Int) (tok : Str) (a : Option Int) :
    isInstance (.int i) .float = true ∧ isInstance (.float tok a) .int = false := by
  simp [isInstance, pre, pyIsinstance, Ty.isInt, Ty.isFloat, Ty.isAny, PyVal.isBool, PyVal.isInt,
    PyVal.isFloat]

/-- a NewType is transparent at every depth -/
theorem isInstance_newtype (v : PyVal) (n : Str) (t : Ty) :
    isInstance v (.newtype n t) = isInstance v t := by
  simp [isInstance]

theorem isInstZip_eq_zipWith (xs : List PyVal) (ts : List Ty) :
    isInstZip xs ts = (List.zipWith isInstance xs ts).all id := by
  induction ts generalizing xs with
  | nil => cases xs <;> simp [isInstZip]
  | cons t r ih => cases xs <;> simp [isInstZip, ih]

/-- fixed tuples: exact length, element-wise -/
theorem isInstance_tupleFix (v : PyVal) (ts : List Ty) :
    isInstance v (.tupleFix ts) = true ↔
      ∃ xs, v = .tuple xs ∧ xs.length = ts.length ∧ (List.zipWith isInstance xs ts).all id = true := by
  simp only [isInstance, pre_tupleFix]
  cases v with
  | tuple xs =>
    simp only [PyVal.tuple.injEq, exists_eq_left']
    rw [← isInstZip_eq_zipWith]
    cases ts with
    | nil => cases xs <;> simp [isInstZip]
    | cons t r =>
      simp only [List.isEmpty_cons, Bool.false_eq_true, if_false, len_guard, Bool.and_eq_true, beq_iff_eq]
  | _ => simp

/-- variadic tuples: every element -/
theorem isInstance_tupleVar (v : PyVal) (u : Ty) :
    isInstance v (.tupleVar u) = true ↔ ∃ xs, v = .tuple xs ∧ ∀ x ∈ xs, isInstance x u = true := by
  simp only [isInstance, pre_tupleVar]
  cases v <;> simp

/-- where `None` is allowed -/
def allowsNone : Ty → Bool
  | .any => true
  | .none => true
  | .lit ms => ms.contains .none
  | .newtype _ u => allowsNone u
  | .union ts => allowsNoneAny ts
  | _ => false
where allowsNoneAny : List Ty → Bool
  | [] => false
  | t :: r => allowsNone t || allowsNoneAny r

theorem pyEqLit_none (m : Lit) : pyEqLit .none m = (m == Lit.none) := by
  cases m <;> simp [pyEqLit, PyVal.num, Lit.num, strictEqLit] <;> rfl

mutual
/-- None only where the annotation allows it -/
theorem isInstance_none (t : Ty) : isInstance .none t = allowsNone t := by
  match t with
  | .int | .float | .str | .bool | .bytes | .any | .none | .cls _ | .tupleAny | .fsetAny | .seqAny | .mapAny =>
    simp [isInstance, allowsNone, pre, pyIsinstance, Ty.isInt, Ty.isFloat, Ty.isAny, PyVal.isBool, PyVal.isInt,
      PyVal.isFloat, PyVal.isStr, PyVal.isBytes, PyVal.isNone, PyVal.isTuple, PyVal.isFset, PyVal.isDict,
      PyVal.seqElems, PyVal.instOf]
  | .tupleFix _ | .tupleVar _ | .fset _ | .seq _ | .map _ _ =>
    simp [isInstance, allowsNone, PyVal.seqElems]
  | .lit ms =>
    simp only [isInstance, pre_lit, allowsNone, pyEqLit_none]
    induction ms with
    | nil => rfl
    | cons m r ih => simp only [List.any_cons, List.contains_cons, ih]; cases m <;> simp <;> rfl
  | .newtype _ u => simp only [isInstance, allowsNone]; exact isInstance_none u
  | .union ts => simp only [isInstance, allowsNone]; exact isInstAny_none ts
theorem isInstAny_none (ts : List Ty) : isInstAny .none ts = allowsNone.allowsNoneAny ts := by
  match ts with
  | [] => simp [isInstAny, allowsNone.allowsNoneAny]
  | t :: r => simp only [isInstAny, allowsNone.allowsNoneAny]; rw [isInstance_none t, isInstAny_none r]
end

/-! ### `_check_runtime_types` and the gate -/

theorem isInstance_unwrap (v : PyVal) (t : Ty) : isInstance v (unwrapNewtype t) = isInstance v t := by
  match t with
  | .newtype n u => simpa [unwrapNewtype, isInstance] using isInstance_unwrap v u
  | .int | .float | .str | .bool | .bytes | .any | .none | .lit _ | .cls _ | .union _ | .tupleFix _ | .tupleVar _
  | .tupleAny | .fset _ | .fsetAny | .seq _ | .seqAny | .map _ _ | .mapAny => simp [unwrapNewtype]

/-- the fields the property calls non-conforming -/
def nonConforming (fs : List FieldV) : List Str :=
  ((fs.filter FieldV.checked).filter fun f => !conforms f.val f.ty).map (·.name)

/-- `invalid_fields` are exactly the non-conforming fields (neither `id` nor `content_id` is looked at) -/
theorem invalid_fields_exact (fs : List FieldV) (h : ∀ f ∈ fs, dontCare f.val f.ty = false) :
    checkRuntimeTypes fs = nonConforming fs := by
  unfold checkRuntimeTypes nonConforming
  congr 1
  apply List.filter_congr
  intro f hf
  have hf' : f ∈ fs := (List.mem_filter.mp hf).1
  rw [isInstance_unwrap, isInstance_eq_conforms f.val f.ty (h f hf')]

theorem nonConforming_nil_iff (fs : List FieldV) :
    nonConforming fs = [] ↔ ∀ f ∈ fs, f.checked = true → conforms f.val f.ty = true := by
  simp only [nonConforming, List.map_eq_nil_iff, List.filter_eq_nil_iff, List.mem_filter, Bool.not_eq_true',
    Bool.not_eq_false, and_imp]

/-- with the switch on: success iff every checked field conforms, otherwise `InvalidTypes` with exactly the
non-conforming fields -/
theorem construct_on (fs : List FieldV) (h : ∀ f ∈ fs, dontCare f.val f.ty = false) :
    construct true fs =
      if (∀ f ∈ fs, f.checked = true → conforms f.val f.ty = true) then .ok (mkBuilt fs)
      else .error (nonConforming fs) := by
  simp only [construct, if_true, invalid_fields_exact fs h, List.isEmpty_iff, nonConforming_nil_iff]

theorem construct_on_error_nonempty (fs : List FieldV) (bad : List Str)
    (h : construct true fs = .error bad) : bad ≠ [] ∧ bad = checkRuntimeTypes fs := by
  simp only [construct, if_true] at h
  split at h
  · cases h
  · rename_i hne
    cases h
    exact ⟨by simpa [List.isEmpty_iff] using hne, rfl⟩

/-- with the switch off no validation happens -/
theorem construct_off (fs : List FieldV) : construct false fs = .ok (mkBuilt fs) := by
  simp [construct]

/-- … and the node built is the same as with checking enabled -/
theorem construct_same (fs : List FieldV) (n : Built) (h : construct true fs = .ok n) :
    construct false fs = .ok n := by
  simp only [construct, if_true] at h
  split at h
  · simpa [construct] using h
  · cases h

/-- `id` and `content_id` are never reported -/
theorem id_fields_never_invalid (fs : List FieldV) :
    idName ∉ checkRuntimeTypes fs ∧ cidName ∉ checkRuntimeTypes fs := by
  simp only [checkRuntimeTypes, List.mem_map, List.mem_filter, FieldV.checked]
  constructor <;> (rintro ⟨f, ⟨⟨_, hc⟩, _⟩, hn⟩; simp [hn] at hc)

/-! ### non-vacuity: the hypotheses are satisfiable and both outcomes occur -/

def sA : Str := "a".toList
def leafMro : List Str := ["Leaf".toList, "Expr".toList, "ASTNode".toList]

example : dontCare (.bool false) .bool = false ∧ isInstance (.bool false) .bool = true := by decide
example : isInstance (.bool true) (.union [.int, .str]) = false := by decide
example : isInstance (.int 1) (.union [.int, .str]) = true := by decide
example : isInstance (.dict [(.str sA, .int 1)]) (.map .str .int) = true := by decide
example : isInstance (.dict [(.str sA, .bool true)]) (.map .str .int) = false := by decide
example : isInstance (.tuple [.int 1]) (.tupleVar (.newtype sA .int)) = true := by decide
example : isInstance (.tuple [.int 1, .str sA]) (.tupleFix [.int, .str]) = true := by decide
example : isInstance (.tuple [.int 1, .str sA, .int 2]) (.tupleFix [.int, .str]) = false := by decide
example : isInstance (.tuple []) (.tupleFix []) = true ∧ isInstance (.tuple [.none]) (.tupleFix []) = false := by
  decide
example : isInstance (.obj 1 leafMro) (.cls "Expr".toList) = true
    ∧ isInstance (.obj 1 leafMro) (.cls "Bin".toList) = false := by decide
example : isInstance (.int 1) (.lit [.int 1, .str sA]) = true ∧ isInstance (.int 2) (.lit [.int 1]) = false := by
  decide
example : isInstance .none (.union [.int, .none]) = true ∧ isInstance .none .int = false := by decide
example : isInstance (.str sA) (.seq .str) = true ∧ isInstance (.list [.int 1]) (.seq .int) = true := by decide
-- a don't-care point really is one: model and natural reading differ there
example : dontCare (.bool true) .float = true ∧ isInstance (.bool true) .float ≠ conforms (.bool true) .float := by
  decide
example : dontCare (.bool true) (.lit [.int 1]) = true := by decide
def fsDemo : List FieldV :=
  [⟨"id".toList, .str, .int 5⟩, ⟨"x".toList, .int, .bool true⟩, ⟨"y".toList, .newtype sA .bool, .bool false⟩,
   ⟨"z".toList, .tupleVar (.cls "Expr".toList), .list []⟩]
example : (∀ f ∈ fsDemo, dontCare f.val f.ty = false) := by decide
example : construct true fsDemo = .error ["x".toList, "z".toList] := rfl
example : construct false fsDemo = .ok (mkBuilt fsDemo) := rfl
example : construct true (fsDemo.take 1 ++ (fsDemo.drop 2).take 1)
    = .ok (mkBuilt (fsDemo.take 1 ++ (fsDemo.drop 2).take 1)) := rfl

end C13
end PyOak
