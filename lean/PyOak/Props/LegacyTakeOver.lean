/-
`replace_with(new)` where `new` is an ATTACHED ROOT.

The new node is popped from the registry under its own id, takes the id of the receiver and is attached
again ("replace").  Between the pop and the attach the parent ids stored by its children dangle (they name
an id nobody is registered under), so the intermediate state is outside the invariant.  `_attach` treats
those children as attached roots (their `parent` property is `None`), plans the new node only, and the
commit step gives every child its parent link again: the detour state is never observed.

  attach_roots          a successful `_attach` of a node all of whose children are attached roots commits
                        exactly that node
  commitOne_takeOver    the commit step from the detour state equals the commit step from the state in which
                        the new node was first removed from the registry by `detach_self()` (children's
                        parent links cleared) -- a state that satisfies the invariant
  takeOver_attach_invX  hence pop + id swap + `_attach` preserves the invariant (also with a hole elsewhere)
  takeOver_parent_fails `new` = the receiver's own parent: the attach is rejected (two planned nodes with
                        one id), so `replace_with` raises
  replaceWith_inv_root / replaceWith_inv_parent_any   `replace_with(new)` for ANY admissible `new`
-/
import PyOak.Props.LegacyCycle
import PyOak.Props.LegacyRollback
import PyOak.Props.LegacyRemove
namespace PyOak.Legacy
open LState

theorem LState.ext' {a b : LState} (h1 : ∀ x, a.obj x = b.obj x) (h2 : a.size = b.size) (h3 : a.reg = b.reg) :
    a = b := by
  cases a; cases b
  simp only [LState.mk.injEq]
  exact ⟨funext h1, h2, h3⟩

theorem foldl_clearParent_reg : ∀ (ks : List Nat) (s : LState), (ks.foldl LState.clearParent s).reg = s.reg := by
  intro ks; induction ks with
  | nil => intro s; rfl
  | cons c r ih => intro s; simp only [List.foldl_cons]; rw [ih]; rfl

/-! ### planning over attached roots -/

theorem planKids_roots (s : LState) (rec : Nat → Plan → Except Err (Plan × Collision)) (u : Nat) :
    ∀ (ks : List Nat) (pl pl' : Plan), (∀ c ∈ ks, RootOk s c) → planKids s rec u ks pl = .ok (pl', none) →
      pl'.order = pl.order := by
  intro ks
  induction ks with
  | nil =>
    intro pl pl' _ h
    simp only [planKids, Except.ok.injEq, Prod.mk.injEq, and_true] at h
    rw [h]
  | cons c cs ih =>
    intro pl pl' hks h
    unfold planKids at h
    cases hf : pl.seen.find? (fun e => e.1 = c) with
    | some e => rw [hf] at h; obtain ⟨a, b⟩ := e; simp at h
    | none =>
      rw [hf] at h
      simp only at h
      obtain ⟨hca, hcp⟩ := hks c (List.mem_cons_self ..)
      have hd : s.detached c = false := (detached_eq_false_iff _ _).mpr hca
      have hr : s.isAttachedRoot c = true := by simp [LState.isAttachedRoot, hcp, hd]
      simp only [hd, Bool.false_eq_true, if_false, hr, Bool.not_true] at h
      have := ih _ pl' (fun x hx => hks x (List.mem_cons_of_mem _ hx)) h
      rw [this]

section
variable (Hc : Str → Str)

/-- a successful `_attach` of a node whose children are all attached roots commits that node only -/
theorem attach_roots {s s' : LState} {n fuel : Nat} (hks : ∀ c ∈ (s.obj n).kidList, RootOk s c)
    (h : attach Hc fuel s n = (s', .ok ())) :
    s' = commitOne Hc s n ∧ s.lookup (s.idOf n) = none ∧ (s.obj n).kidList.Nodup := by
  unfold attach at h
  cases hp : attachPlan s fuel n {} with
  | error e => rw [hp] at h; simp at h
  | ok res =>
    obtain ⟨pl, col⟩ := res
    rw [hp] at h
    cases col with
    | some cc => simp at h
    | none =>
      simp only [Prod.mk.injEq, and_true] at h
      -- nodup from the plan facts
      obtain ⟨seg, hF, hnseg, _⟩ := attachPlan_facts s fuel n {} pl hp
      have hkids : (kidsOf s seg).Nodup := by
        have := hF.seenNodup (by simp [Plan.seenKids])
        have hperm : pl.seenKids.Perm (kidsOf s seg) := by simpa [Plan.seenKids] using hF.seen
        exact hperm.nodup_iff.mp this
      have hnd : (s.obj n).kidList.Nodup := by
        obtain ⟨l1, l2, hdec⟩ := List.append_of_mem hnseg
        rw [hdec, kidsOf_append] at hkids
        have := (List.nodup_append.mp hkids).2.1
        unfold kidsOf at this; simp only [List.flatMap_cons] at this
        exact (List.nodup_append.mp this).1
      -- the order
      cases fuel with
      | zero => simp [attachPlan] at hp
      | succ fuel =>
        unfold attachPlan at hp
        simp only at hp
        by_cases hcol : ((s.lookup (s.idOf n)).isSome || (regGet ({} : Plan).pending (s.idOf n)).isSome) = true
        · simp [hcol] at hp
        · simp only [hcol, Bool.false_eq_true, if_false] at hp
          have hfree : s.lookup (s.idOf n) = none := by
            cases hh : s.lookup (s.idOf n) <;> simp_all
          cases hr : planKids s (attachPlan s fuel) n (s.obj n).kidList
              { ({} : Plan) with pending := (s.idOf n, n) :: ({} : Plan).pending } with
          | error e => rw [hr] at hp; simp at hp
          | ok res =>
            obtain ⟨pl1, col1⟩ := res
            rw [hr] at hp
            cases col1 with
            | some cc => simp at hp
            | none =>
              simp only [Except.ok.injEq, Prod.mk.injEq, and_true] at hp
              have ho := planKids_roots s (attachPlan s fuel) n _ _ pl1 hks hr
              have : pl.order = [n] := by rw [← hp]; simp [ho]
              rw [this] at h
              simp only [List.foldl_cons, List.foldl_nil] at h
              exact ⟨h.symm, hfree, hnd⟩

theorem commitOne_reg (s : LState) (n : Nat) : (commitOne Hc s n).reg = regSet s.reg (s.idOf n) n := by
  unfold commitOne LState.register
  simp only [setContentId_idOf, reparent_idOf]
  show regSet (reparent n s (s.obj n).kidsPos).reg (s.idOf n) n = _
  rw [reparent_reg]

/-- the id swap of `replace_with` -/
def swapId (k' : Str) (x : LObj) : LObj := { x with origId := some x.id, id := k' }

theorem takeOver_att {s : LState} {u n : Nat} (hn : Att s n) :
    takeOver s u n = ((s.unregister (s.idOf n)).modify n (swapId (s.idOf u)), true) := by
  unfold takeOver
  have hd : s.detached n = false := (detached_eq_false_iff _ _).mpr hn
  simp only [hd, Bool.not_false, if_true, unregister_idOf]
  rfl

theorem takeOver_det {s : LState} {u n : Nat} (hn : ¬ Att s n) :
    takeOver s u n = (s.modify n (swapId (s.idOf u)), false) := by
  unfold takeOver
  have hd : s.detached n = true := (detached_eq_true_iff _ _).mpr hn
  simp only [hd, Bool.not_true, Bool.false_eq_true, if_false]
  rfl

/-- the state in which the new node has been removed from the registry the regular way
(`detach_self()`: the children's parent links are cleared) and then carries the receiver's id -/
def viaDetachSelf (s : LState) (n : Nat) (k' : Str) : LState :=
  (((s.obj n).kidList.foldl LState.clearParent s).unregister (s.idOf n)).modify n (swapId k')

/-- **the commit step does not see the dangling parent ids**: it overwrites the parent slots of every child -/
theorem commitOne_takeOver (s : LState) (n : Nat) (k' : Str) (hnk : n ∉ (s.obj n).kidList)
    (hnd : (s.obj n).kidList.Nodup) :
    commitOne Hc ((s.unregister (s.idOf n)).modify n (swapId k')) n = commitOne Hc (viaDetachSelf s n k') n := by
  have ha : ∀ x, ((s.unregister (s.idOf n)).modify n (swapId k')).obj x =
      if x = n then swapId k' (s.obj n) else s.obj x := by
    intro x; rw [modify_obj]; rfl
  have hb : ∀ x, (viaDetachSelf s n k').obj x =
      if x = n then swapId k' (s.obj n) else if x ∈ (s.obj n).kidList then clearP (s.obj x) else s.obj x := by
    intro x
    unfold viaDetachSelf
    rw [modify_obj, unregister_obj, unregister_obj, foldl_clearParent_obj, foldl_clearParent_obj]
    simp only [hnk, if_false]
  have hkla : (((s.unregister (s.idOf n)).modify n (swapId k')).obj n).kidList = (s.obj n).kidList := by
    rw [ha]; simp only [if_true]; rfl
  have hklb : ((viaDetachSelf s n k').obj n).kidList = (s.obj n).kidList := by
    rw [hb]; simp only [if_true]; rfl
  have hkpa : (((s.unregister (s.idOf n)).modify n (swapId k')).obj n).kidsPos = (s.obj n).kidsPos := by
    rw [ha]; simp only [if_true]; rfl
  have hkpb : ((viaDetachSelf s n k').obj n).kidsPos = (s.obj n).kidsPos := by
    rw [hb]; simp only [if_true]; rfl
  have hida : ((s.unregister (s.idOf n)).modify n (swapId k')).idOf n = k' := by
    show (((s.unregister (s.idOf n)).modify n (swapId k')).obj n).id = k'
    rw [ha]; simp [swapId]
  have hidb : (viaDetachSelf s n k').idOf n = k' := by
    show ((viaDetachSelf s n k').obj n).id = k'
    rw [hb]; simp [swapId]
  apply LState.ext'
  · intro x
    rw [commitOne_obj Hc _ n x (by rw [hkla]; exact hnk) (by rw [hkla]; exact hnd),
      commitOne_obj Hc _ n x (by rw [hklb]; exact hnk) (by rw [hklb]; exact hnd)]
    rw [hkpa, hkpb, hida, hidb]
    by_cases hx : x = n
    · subst hx
      simp only [if_true]
      rw [ha x, hb x]; simp only [if_true]
      congr 2
      apply cidPre_congr rfl rfl rfl
      intro c _
      rw [← (reparent_same x _ _ c).cid, ← (reparent_same x _ _ c).cid, ha, hb]
      by_cases hc : c = x
      · simp [hc]
      · simp only [hc, if_false]; split <;> rfl
    · simp only [hx, if_false]
      rw [ha x, hb x]; simp only [hx, if_false]
      cases hf : (s.obj n).kidsPos.find? (·.1 = x) with
      | none =>
        have : x ∉ (s.obj n).kidList := by
          intro hm
          obtain ⟨e, he, he1⟩ := (mem_kidList_iff _ _).mp hm
          have := List.find?_eq_none.mp hf e he
          simp [he1] at this
        simp [this]
      | some e =>
        simp only
        split <;> rfl
  · rw [commitOne_size, commitOne_size]
    unfold viaDetachSelf
    simp only [modify_size, unregister_size, foldl_clearParent_size]
  · rw [commitOne_reg, commitOne_reg, hida, hidb]
    unfold viaDetachSelf
    simp only [modify_reg]
    unfold LState.unregister
    simp only [foldl_clearParent_reg]

/-- **pop, id swap, `_attach`** of an attached root preserves the invariant (possibly with holes elsewhere) -/
theorem takeOver_attach_invX {X : Nat → (Nat × Str × Option Nat) → Prop} {Y : Nat → Prop}
    {s s3 : LState} {u n fuel : Nat} (hI : InvX Hc X Y s) (hn : Att s n) (hroot : s.parent n = none)
    (hXn : ∀ q e, X q e → q ≠ n ∧ e.1 ≠ n)
    (hat : attach Hc fuel (takeOver s u n).1 n = (s3, .ok ())) :
    InvX Hc X Y s3 ∧ Att s3 n ∧ s3.size = s.size ∧ (s3.obj n).pid = none ∧ s3.idOf n = s.idOf u ∧
      (∀ x, x ≠ n → s3.idOf x = s.idOf x) ∧ (∀ x, (s3.obj x).fields = (s.obj x).fields) ∧
      (∀ k v, s.lookup k = some v → v ≠ n → s3.lookup k = some v) := by
  rw [takeOver_att hn] at hat
  simp only at hat
  generalize hk' : s.idOf u = k' at hat ⊢
  have hns : n < s.size := att_lt hI hn
  have hpidn : (s.obj n).pid = none := by
    cases hk : (s.obj n).pid with
    | none => rfl
    | some k =>
      obtain ⟨_, hks⟩ := hI.noDangling n k hk
      unfold LState.parent at hroot
      rw [hk] at hroot; simp only at hroot
      rw [hroot] at hks; cases hks
  -- the children of the new node
  have hkid : ∀ c ∈ (s.obj n).kidList, Att s c ∧ (s.obj c).pid = some (s.idOf n) ∧ c ≠ n := by
    intro c hc
    obtain ⟨e, he, he1⟩ := (mem_kidList_iff _ _).mp hc
    obtain ⟨a, b, _, _⟩ := hI.down n hn e he (fun hx => (hXn n e hx).1 rfl)
    rw [he1] at a b
    exact ⟨a, b, fun h => by rw [h, hpidn] at b; cases b⟩
  have hnk : n ∉ (s.obj n).kidList := fun h => (hkid n h).2.2 rfl
  -- the detour state
  generalize hs2 : (s.unregister (s.idOf n)).modify n (swapId k') = s2 at hat
  have hobj2 : ∀ x, s2.obj x = if x = n then swapId k' (s.obj n) else s.obj x := by
    intro x; rw [← hs2, modify_obj]; rfl
  have hlk2 : ∀ k, s2.lookup k = if s.idOf n = k then none else s.lookup k := by
    intro k; rw [← hs2, modify_lookup, unregister_lookup]
  have hid2 : ∀ x, x ≠ n → s2.idOf x = s.idOf x := by
    intro x hx; unfold LState.idOf; rw [hobj2]; simp [hx]
  have hid2n : s2.idOf n = k' := by unfold LState.idOf; rw [hobj2]; simp [swapId]
  have hfl2 : ∀ x, (s2.obj x).fields = (s.obj x).fields := by
    intro x; rw [hobj2]; split
    · next h => subst h; rfl
    · rfl
  have hkl2 : (s2.obj n).kidList = (s.obj n).kidList := by unfold LObj.kidList; rw [hfl2]
  have hroots : ∀ c ∈ (s2.obj n).kidList, RootOk s2 c := by
    intro c hc
    rw [hkl2] at hc
    obtain ⟨a, b, hcn⟩ := hkid c hc
    have hne : s.idOf n ≠ s.idOf c := fun e => hcn (att_inj hn a e).symm
    constructor
    · unfold Att; rw [hid2 c hcn, hlk2]; simp only [hne, if_false]; exact a
    · unfold LState.parent; rw [hobj2]; simp only [hcn, if_false]
      rw [b]; simp only; rw [hlk2]; simp
  obtain ⟨h3, hfree2, hnd2⟩ := attach_roots Hc hroots hat
  rw [hkl2] at hnd2
  rw [← hs2, commitOne_takeOver Hc s n k' hnk hnd2] at h3
  -- the regular way: `detach_self()`, id swap, commit
  have hds := detach_self_eq (fuel := 0) hn hroot
  have hlk1 : ∀ k, (((s.obj n).kidList.foldl LState.clearParent s).unregister (s.idOf n)).lookup k =
      if s.idOf n = k then none else s.lookup k := by
    intro k; rw [unregister_lookup, foldl_clearParent_lookup]
  have hI1 : InvX Hc X Y (((s.obj n).kidList.foldl LState.clearParent s).unregister (s.idOf n)) := by
    refine detachGo_invX Hc hI hds ?_
    intro q e hx hun
    apply hun.2
    have hqn : q ≠ n := (hXn q e hx).1
    unfold Att
    rw [unregister_idOf, foldl_clearParent_idOf, hlk1]
    have : s.idOf n ≠ s.idOf q := fun e' => hqn (att_inj hn hun.1 e').symm
    simp only [this, if_false]; exact hun.1
  generalize ht1 : ((s.obj n).kidList.foldl LState.clearParent s).unregister (s.idOf n) = t1 at hI1 hlk1
  have hobj1 : ∀ x, t1.obj x = if x ∈ (s.obj n).kidList then clearP (s.obj x) else s.obj x := by
    intro x; rw [← ht1, unregister_obj, foldl_clearParent_obj]
  have hreg1 : ∀ k, t1.lookup k ≠ some n := by
    intro k hk
    rw [hlk1] at hk
    split at hk
    · cases hk
    · next hne => exact hne (hI.regSound k n hk).2
  have hI2 : InvX Hc X Y (t1.modify n (swapId k')) := by
    refine inv_modify_unregistered Hc hI1 hreg1 (swapId k') (.inr rfl) ?_ ?_ (fun q e hx => (hXn q e hx).2)
    · show (t1.obj n).pid = none
      rw [hobj1]; simp only [hnk, if_false]; exact hpidn
    · exact hI1.wf n
  have hvia : viaDetachSelf s n k' = t1.modify n (swapId k') := by unfold viaDetachSelf; rw [ht1]
  rw [hvia] at h3
  generalize ht2 : t1.modify n (swapId k') = t2 at h3 hI2
  have hobjt2 : ∀ x, t2.obj x = if x = n then swapId k' (s.obj n) else
      if x ∈ (s.obj n).kidList then clearP (s.obj x) else s.obj x := by
    intro x; rw [← ht2, modify_obj, hobj1, hobj1]; simp only [hnk, if_false]
  have hlkt2 : ∀ k, t2.lookup k = if s.idOf n = k then none else s.lookup k := by
    intro k; rw [← ht2, modify_lookup, hlk1]
  have hidt2 : ∀ x, x ≠ n → t2.idOf x = s.idOf x := by
    intro x hx; unfold LState.idOf; rw [hobjt2]; simp only [hx, if_false]; split <;> rfl
  have hidt2n : t2.idOf n = k' := by unfold LState.idOf; rw [hobjt2]; simp [swapId]
  have hflt2 : ∀ x, (t2.obj x).fields = (s.obj x).fields := by
    intro x; rw [hobjt2]; split
    · next h => subst h; rfl
    · split <;> rfl
  have hklt2 : (t2.obj n).kidList = (s.obj n).kidList := by unfold LObj.kidList; rw [hflt2]
  have hszt2 : t2.size = s.size := by
    rw [← ht2, modify_size, ← ht1, unregister_size, foldl_clearParent_size]
  have hfreet2 : t2.lookup (t2.idOf n) = none := by
    rw [hidt2n, hlkt2, ← hlk2, ← hid2n]; exact hfree2
  have hI3 : InvX Hc X Y (commitOne Hc t2 n) := by
    refine commitOne_inv Hc hI2 (by rw [hszt2]; exact hns) hfreet2 ?_ (by rw [hklt2]; exact hnd2)
      (fun q e hx => (hXn q e hx).2)
    intro c hc
    rw [hklt2] at hc
    obtain ⟨a, _, hcn⟩ := hkid c hc
    have hne : s.idOf n ≠ s.idOf c := fun e => hcn (att_inj hn a e).symm
    constructor
    · unfold Att; rw [hidt2 c hcn, hlkt2]; simp only [hne, if_false]; exact a
    · rw [hobjt2]; simp only [hcn, if_false, hc, if_true]; rfl
  rw [← h3] at hI3
  have hsame3 := fun x => commitOne_same Hc t2 n x
  rw [← h3] at hsame3
  have hlk3 : ∀ k, s3.lookup k = if k' = k then some n else if s.idOf n = k then none else s.lookup k := by
    intro k; rw [h3, commitOne_lookup, hidt2n, hlkt2]
  have hid3 : ∀ x, s3.idOf x = t2.idOf x := fun x => (hsame3 x).1
  refine ⟨hI3, ?_, ?_, ?_, ?_, ?_, ?_, ?_⟩
  · unfold Att; rw [hid3, hidt2n, hlk3]; simp
  · rw [h3, commitOne_size, hszt2]
  · rw [h3, commitOne_pid Hc t2 n n (by rw [hklt2]; exact hnk), hobjt2]
    simp only [if_true]; exact hpidn
  · rw [hid3, hidt2n]
  · intro x hx; rw [hid3, hidt2 x hx]
  · intro x; rw [(hsame3 x).2, hflt2]
  · intro k v hk hv
    rw [hlk3]
    have h1 : s.idOf n ≠ k := by
      intro e; rw [← e] at hk
      unfold Att at hn; rw [hn] at hk; exact hv (Option.some.inj hk).symm
    have h2 : k' ≠ k := by
      intro e
      rw [hidt2n, hlkt2, e] at hfreet2
      simp only [h1, if_false] at hfreet2
      rw [hfreet2] at hk; cases hk
    simp only [h2, h1, if_false]; exact hk

/-! ### the new node is the receiver's own parent -/

/-- `child.replace_with(parent)` for an attached-root parent: the `_attach` of the parent under the child's id
plans the (detached) child as well -- two planned nodes with one id -- and is rejected -/
theorem takeOver_parent_fails {s s2 s3 : LState} {u p fuel : Nat} {f : Str} (hO : Opened Hc s s2 u p f)
    (hat : attach Hc fuel (takeOver s2 u p).1 p = (s3, .ok ())) : False := by
  rw [takeOver_att hO.pa2] at hat
  simp only at hat
  generalize hs3 : (s2.unregister (s2.idOf p)).modify p (swapId (s2.idOf u)) = t at hat
  have hobj : ∀ x, t.obj x = if x = p then swapId (s2.idOf u) (s2.obj p) else s2.obj x := by
    intro x; rw [← hs3, modify_obj]; rfl
  have hup : u ≠ p := Ne.symm hO.pu
  have hidu : t.idOf u = s2.idOf u := by unfold LState.idOf; rw [hobj]; simp [hup]
  have hidp : t.idOf p = s2.idOf u := by
    show (t.obj p).id = s2.idOf u
    rw [hobj]; simp [swapId]
  have hlk : ∀ k, t.lookup k = if s2.idOf p = k then none else s2.lookup k := by
    intro k; rw [← hs3, modify_lookup, unregister_lookup]
  have hkl : (t.obj p).kidList = (s2.obj p).kidList := by
    rw [hobj]; simp only [if_true]; rfl
  have hukid : u ∈ (t.obj p).kidList := by
    rw [hkl]; exact (mem_kidList_iff _ _).mpr ⟨_, hO.mem2, rfl⟩
  have hnu : ¬ Att t u := by
    unfold Att; rw [hidu, hlk]
    split
    · simp
    · exact hO.nu2
  unfold attach at hat
  cases hp : attachPlan t fuel p {} with
  | error e => rw [hp] at hat; simp at hat
  | ok res =>
    obtain ⟨pl, col⟩ := res
    rw [hp] at hat
    cases col with
    | some cc => simp at hat
    | none =>
      obtain ⟨seg, hF, hpseg, _⟩ := attachPlan_facts t fuel p {} pl hp
      have hids : (seg.map t.idOf).Nodup := by
        have := hF.keysNodup (by simp [Plan.keys])
        have hperm : pl.keys.Perm (seg.map t.idOf) := by simpa [Plan.keys] using hF.keys
        exact hperm.nodup_iff.mp this
      rcases OrderOk.mem hF.orderOk p hpseg u hukid with h | h
      · exact hup (eq_of_nodup_map t.idOf seg hids u h p hpseg (by rw [hidu, hidp]))
      · exact hnu h.1

/-! ### `replace_with(new)`, any admissible `new` -/

theorem pid_none_of_root {X : Nat → (Nat × Str × Option Nat) → Prop} {Y : Nat → Prop} {s : LState} {n : Nat}
    (hI : InvX Hc X Y s) (hroot : s.parent n = none) : (s.obj n).pid = none := by
  cases hk : (s.obj n).pid with
  | none => rfl
  | some k =>
    obtain ⟨_, hks⟩ := hI.noDangling n k hk
    unfold LState.parent at hroot
    rw [hk] at hroot; simp only at hroot
    rw [hroot] at hks; cases hks

theorem root_of_not_subtree {s : LState} {n : Nat} (hsub : s.isAttachedSubtree n = false) (hn : Att s n) :
    s.parent n = none := by
  have hd : s.detached n = false := (detached_eq_false_iff _ _).mpr hn
  unfold LState.isAttachedSubtree at hsub
  cases hp : s.parent n with
  | none => rfl
  | some q => simp [hp, hd] at hsub

/-- **`replace_with(new)` on a receiver without parent** (an attached root or a detached node), `new` being
`None`, a detached node or an attached root -/
theorem replaceWith_inv_root {s s' : LState} {u fuel : Nat} {new : Option Nat} (hI : Inv Hc s)
    (hnew : ∀ n, new = some n → n < s.size) (hroot : s.parent u = none)
    (h : replaceWith Hc fuel s u new = (s', .ok ())) : Inv Hc s' := by
  unfold replaceWith at h
  cases new with
  | none =>
    simp only [Bool.false_eq_true, if_false, hroot] at h
    cases hd : detachGo (fuel + 1) false s u with
    | mk s1 res =>
      rw [hd] at h
      cases res with
      | none => simp at h
      | some b =>
        simp only [Prod.mk.injEq, and_true] at h
        subst h
        exact detachGo_inv Hc hI hd
  | some n =>
    have hn : n < s.size := hnew n rfl
    by_cases hsub : s.isAttachedSubtree n = true
    · simp [hsub] at h
    · have hsub' : s.isAttachedSubtree n = false := by simpa using hsub
      simp only [hsub', Bool.false_eq_true, if_false, hroot] at h
      have hI1 : ∀ s1 b, (if (!s.detached u) = true then detachGo (fuel + 1) false s u else (s, some true))
          = (s1, some b) → Inv Hc s1 ∧ s1.size = s.size ∧ Shrinks s s1 := by
        intro s1 b hh
        split at hh
        · have hF := detachGo_facts (fuel + 1) false s u b (by rw [hh])
          rw [hh] at hF
          exact ⟨detachGo_inv Hc hI hh, hF.shr.size, hF.shr⟩
        · cases hh
          exact ⟨hI, rfl, Shrinks.refl _⟩
      cases hd : (if (!s.detached u) = true then detachGo (fuel + 1) false s u else (s, some true)) with
      | mk s1 res =>
        rw [hd] at h
        cases res with
        | none => simp at h
        | some b =>
          obtain ⟨hI1, hsz1, hS1⟩ := hI1 s1 b hd
          simp only at h
          cases hat : attach Hc fuel (takeOver s1 u n).1 n with
          | mk s3 r3 =>
            rw [hat] at h
            cases r3 with
            | error e =>
              exfalso
              simp only at h
              split at h <;> simp at h
            | ok x =>
              cases x
              simp only [Prod.mk.injEq, and_true] at h
              subst h
              by_cases hna : Att s1 n
              · -- an attached root
                have hroot1 : s1.parent n = none := by
                  have h0 := pid_none_of_root Hc hI (root_of_not_subtree hsub' (hS1.att hna))
                  unfold LState.parent
                  rcases hS1.obj n with e | e
                  · rw [e, h0]
                  · rw [e]; rfl
                exact (takeOver_attach_invX Hc hI1 hna hroot1 (fun _ _ hx => hx.elim) hat).1
              · -- a detached node: only its own record changes before the attach
                rw [takeOver_det hna] at hat
                simp only at hat
                have hreg : ∀ k, s1.lookup k ≠ some n := by
                  intro k hk
                  have := (hI1.regSound k n hk).2
                  apply hna; unfold Att; rw [this]; exact hk
                have hpid : (s1.obj n).pid = none := by
                  cases hk : (s1.obj n).pid with
                  | none => rfl
                  | some k => exact absurd (hI1.noDangling n k hk).1 hna
                have hI2 := inv_modify_unregistered Hc hI1 hreg (swapId (s1.idOf u)) (.inr rfl) hpid (hI1.wf n)
                  (fun _ _ hx => hx.elim)
                exact (attach_inv Hc hI2 (by rw [modify_size, hsz1]; exact hn) hat).1

/-- **`replace_with(new)` on a receiver that has a parent**, `new` a detached node or an attached root
(no acyclicity hypothesis: on a cyclic heap the `detach()` of the receiver does not return) -/
theorem replaceWith_inv_parent_any {s s' : LState} {u p n fuel : Nat} (hI : Inv Hc s) (hn : n < s.size)
    (hpar : s.parent u = some p) (h : replaceWith Hc fuel s u (some n) = (s', .ok ())) : Inv Hc s' := by
  have hua := att_of_parent Hc hI hpar
  obtain ⟨f, hf, _⟩ := hI.up u hua p hpar
  unfold replaceWith at h
  by_cases hsub : s.isAttachedSubtree n = true
  · simp [hsub] at h
  · have hsub' : s.isAttachedSubtree n = false := by simpa using hsub
    have hnu : n ≠ u := by
      intro e; subst e
      have hd : s.detached n = false := (detached_eq_false_iff _ _).mpr hua
      simp [LState.isAttachedSubtree, hpar, hd] at hsub'
    simp only [hsub', Bool.false_eq_true, if_false, hpar, hf] at h
    split at h
    · simp at h
    · split at h
      · simp at h
      · cases hds : detachGo (fuel + 1) false (s.clearParent u) u with
        | mk s2 res =>
          rw [hds] at h
          cases res with
          | none => simp at h
          | some b =>
            simp only at h
            obtain ⟨f', hO⟩ := rwith_open Hc hI hpar hds
            have hff : f' = f := by have := hO.hf; rw [hf] at this; exact (Option.some.inj this).symm
            subst hff
            have hu : u < s.size := att_lt hI hua
            have hps : p < s.size := att_lt hI hO.pa
            cases hat : attach Hc fuel (takeOver s2 u n).1 n with
            | mk s4 r4 =>
              rw [hat] at h
              cases r4 with
              | error e =>
                exfalso
                simp only at h
                split at h <;> simp at h
              | ok x =>
                cases x
                simp only at h
                by_cases hna2 : Att s2 n
                · -- an attached root
                  have hna : Att s n := Opened.att2 Hc hO hna2
                  have hroot2 := (hO.root2 Hc hna (root_of_not_subtree hsub' hna) hnu hI).2
                  have hnp : n ≠ p := by
                    intro e; subst e
                    exact takeOver_parent_fails Hc hO hat
                  obtain ⟨hI4, hn4, hsz4, hpid4, hidn4, hid4, hfl4, hlk4⟩ := takeOver_attach_invX Hc hO.inv2 hna2 hroot2
                    (fun q e hx => by rw [hx.1, hx.2]; exact ⟨Ne.symm hnp, Ne.symm hnu⟩) hat
                  have hpa4 : Att s4 p := by
                    unfold Att; rw [hid4 p (Ne.symm hnp)]; exact hlk4 _ _ hO.pa2 (Ne.symm hnp)
                  have hmem4 : (u, f', (s.obj u).pindex) ∈ (s4.obj p).kidsPos := by
                    unfold LObj.kidsPos; rw [hfl4]; exact hO.mem2
                  have hudet4 : ¬ Att s4 u := by
                    intro hu4
                    have : s4.idOf u = s4.idOf n := by rw [hid4 u (Ne.symm hnu), hidn4]
                    exact hnu (att_inj hu4 hn4 this).symm
                  have hfree4 : ∀ q, Att s4 q → n ∉ (s4.obj q).kidList := by
                    intro q hq hmemq
                    obtain ⟨e, he, he1⟩ := (mem_kidList_iff _ _).mp hmemq
                    obtain ⟨_, b', _, _⟩ := hI4.down q hq e he (fun hx => by
                      have := hx.2; rw [this] at he1; exact hnu he1.symm)
                    rw [he1, hpid4] at b'
                    cases b'
                  cases hrc : replaceChild Hc fuel s4 p u f' (s.obj u).pindex (some n) with
                  | mk s5 fin =>
                    rw [hrc] at h
                    cases fin with
                    | false => simp at h
                    | true =>
                      simp only [if_true, Prod.mk.injEq, and_true] at h
                      subst h
                      exact replaceChild_some_inv Hc hI4 hpa4 hmem4 hn4 hfree4 hnp hudet4 hrc
                · -- a detached node
                  have hnp : n ≠ p := fun e => hna2 (e ▸ hO.pa2)
                  rw [takeOver_det hna2] at hat
                  simp only at hat
                  have hreg2 : ∀ k, s2.lookup k ≠ some n := by
                    intro k hk
                    have := (hO.inv2.regSound k n hk).2
                    apply hna2; unfold Att; rw [this]; exact hk
                  have hpid2 : (s2.obj n).pid = none := by
                    cases hk : (s2.obj n).pid with
                    | none => rfl
                    | some k => exact absurd (hO.inv2.noDangling n k hk).1 hna2
                  have hI3 := inv_modify_unregistered Hc hO.inv2 hreg2 (swapId (s2.idOf u)) (.inr rfl) hpid2
                    (hO.inv2.wf n) (fun q e hx => by rw [hx.2]; exact fun e' => hnu e'.symm)
                  generalize hs3 : s2.modify n (swapId (s2.idOf u)) = s3 at hat hI3
                  have hobj3 : ∀ x, x ≠ n → s3.obj x = s2.obj x := by
                    intro x hx; rw [← hs3]; exact modify_obj_ne _ _ _ _ hx
                  have hidn3 : s3.idOf n = s2.idOf u := by
                    rw [← hs3]; show ((s2.modify n (swapId (s2.idOf u))).obj n).id = _
                    rw [modify_obj_same]; rfl
                  have hlk3 : ∀ k, s3.lookup k = s2.lookup k := by intro k; rw [← hs3]; rfl
                  have hsz3 : s3.size = s2.size := by rw [← hs3]; rfl
                  have hpid3 : (s3.obj n).pid = none := by rw [← hs3, modify_obj_same]; exact hpid2
                  have hidu3 : s3.idOf u = s2.idOf u := by
                    show (s3.obj u).id = _; rw [hobj3 u (Ne.symm hnu)]; rfl
                  obtain ⟨hI4, hn4, hsz4, hg4, hpid4⟩ := attach_invX Hc hI3 (by rw [hsz3, hO.sz2]; exact hn)
                    (fun q e hx => by rw [hx.2]; exact ⟨Ne.symm hnu, by rw [hidu3, hidn3]⟩) hat
                  have hups : u < s3.size := by rw [hsz3, hO.sz2]; exact hu
                  have hpps : p < s3.size := by rw [hsz3, hO.sz2]; exact hps
                  have hpa3 : Att s3 p := by
                    unfold Att
                    have : s3.idOf p = s2.idOf p := by show (s3.obj p).id = _; rw [hobj3 p (Ne.symm hnp)]; rfl
                    rw [this, hlk3]; exact hO.pa2
                  have hpa4 : Att s4 p := by unfold Att; rw [(hg4.same p hpps).1]; exact hg4.reg _ _ hpa3
                  have hmem4 : (u, f', (s.obj u).pindex) ∈ (s4.obj p).kidsPos := by
                    unfold LObj.kidsPos; rw [(hg4.same p hpps).2, hobj3 p (Ne.symm hnp), Opened.fl2 Hc hO p]; exact hO.mem
                  have hudet4 : ¬ Att s4 u := by
                    intro hu4
                    have : s4.idOf u = s4.idOf n := by
                      rw [(hg4.same u hups).1, (hg4.same n (by rw [hsz3, hO.sz2]; exact hn)).1, hidu3, hidn3]
                    exact hnu (att_inj hu4 hn4 this).symm
                  have hfree4 : ∀ q, Att s4 q → n ∉ (s4.obj q).kidList := by
                    intro q hq hmemq
                    obtain ⟨e, he, he1⟩ := (mem_kidList_iff _ _).mp hmemq
                    obtain ⟨_, b', _, _⟩ := hI4.down q hq e he (fun hx => by
                      have := hx.2; rw [this] at he1; exact hnu he1.symm)
                    rw [he1, hpid4, hpid3] at b'
                    cases b'
                  cases hrc : replaceChild Hc fuel s4 p u f' (s.obj u).pindex (some n) with
                  | mk s5 fin =>
                    rw [hrc] at h
                    cases fin with
                    | false => simp at h
                    | true =>
                      simp only [if_true, Prod.mk.injEq, and_true] at h
                      subst h
                      exact replaceChild_some_inv Hc hI4 hpa4 hmem4 hn4 hfree4 hnp hudet4 hrc

/-- **`replace_with(new)`**: every receiver, every argument -/
theorem replaceWith_inv {s s' : LState} {u fuel : Nat} {new : Option Nat} (hI : Inv Hc s)
    (hnew : ∀ n, new = some n → n < s.size) (h : replaceWith Hc fuel s u new = (s', .ok ())) : Inv Hc s' := by
  cases hpar : s.parent u with
  | none => exact replaceWith_inv_root Hc hI hnew hpar h
  | some p =>
    cases new with
    | none => exact replaceWith_inv_parent_none Hc hI hpar h
    | some n => exact replaceWith_inv_parent_any Hc hI (hnew n rfl) hpar h

end

end PyOak.Legacy
