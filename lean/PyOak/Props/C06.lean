/-
C06 — The upward queries of `Tree` (parent info, ancestors, depth, xpath), answered from the two
tables filled by one `dfs()` pass, agree with the downward structure (root-first chains).

All thirteen target statements are proved as stated.  `isInTree_iff`, `parentInfo_root`,
`parentInfo_foreign`, `exists_chain`, `chain_mem` hold for every tree; the others assume
`NoRepeat root` (the documented precondition of `Tree`), and the hypothesis is necessary: see
the `shared` example at the end (an object stored twice gets the position written last).
Proof plan: (1) `dictGet?`/`dictSet` is a functional update, and a fold of updates with pairwise
distinct keys stores for each key the value computed when its item was processed
(`fold_untouched`, `fold_last`, `fold_isSome`); (2) the dfs stream `PI root.items` is exactly
the closure of `root.items` under "children positions" (`mem_PI_self`, `PI_closed`,
`PI_induction`) and lists every position after the position of its parent
(`PI_parentsBefore`); (3) chains are inverted/inducted on by their last member (`chain_inv`,
`chain_rec`), each step is a dfs position (`chain_item`), node sizes strictly decrease along a
chain, so a chain is shorter than `root.size` (the fuel of the upward walks) and, under
`NoRepeat`, its members have pairwise distinct uids (`chain_uid_ne`).
-/
import PyOak.Spec.Tree
import PyOak.Props.C05
namespace PyOak
namespace C06
open C05

/-! ### dictionaries as association lists -/

section Dict
variable {β : Type}

theorem dictGet?_map_ne (d : List (Nat × β)) (k : Nat) (v : β) (u : Nat) (hu : u ≠ k) :
    dictGet? (d.map (fun kv => if kv.1 == k then (k, v) else kv)) u = dictGet? d u := by
  unfold dictGet?
  induction d with
  | nil => rfl
  | cons kv r ih =>
    simp only [List.map_cons, List.find?_cons]
    by_cases h1 : kv.1 = k
    · have h3 : (k == u) = false := by simp; omega
      simp only [h1, beq_self_eq_true, if_true, h3]
      exact ih
    · have h2 : (kv.1 == k) = false := by simp [h1]
      simp only [h2, Bool.false_eq_true, if_false]
      cases h4 : (kv.1 == u)
      · simpa [h2] using ih
      · rfl

theorem dictGet?_map_eq (d : List (Nat × β)) (k : Nat) (v : β)
    (h : d.any (·.1 == k) = true) :
    dictGet? (d.map (fun kv => if kv.1 == k then (k, v) else kv)) k = some v := by
  unfold dictGet?
  induction d with
  | nil => simp at h
  | cons kv r ih =>
    simp only [List.map_cons, List.find?_cons]
    by_cases h1 : kv.1 = k
    · simp [h1]
    · have h2 : (kv.1 == k) = false := by simp [h1]
      simp only [List.any_cons, h2, Bool.false_or] at h
      simp only [h2, Bool.false_eq_true, if_false]
      exact ih h

theorem dictGet?_append_none (d : List (Nat × β)) (k : Nat) (v : β) (u : Nat)
    (h : d.any (·.1 == u) = false) :
    dictGet? (d ++ [(k, v)]) u = if u = k then some v else none := by
  unfold dictGet?
  have : d.find? (·.1 == u) = none := by
    rw [List.find?_eq_none]
    intro x hx
    have := List.any_eq_false.mp h x hx
    simpa using this
  rw [List.find?_append, this]
  by_cases hu : u = k
  · simp [hu]
  · have : (k == u) = false := by simp; omega
    simp [hu, this]

theorem dictGet?_append_ne (d : List (Nat × β)) (k : Nat) (v : β) (u : Nat) (hu : u ≠ k) :
    dictGet? (d ++ [(k, v)]) u = dictGet? d u := by
  unfold dictGet?
  have : (k == u) = false := by simp; omega
  rw [List.find?_append]
  cases h : d.find? (·.1 == u) <;> simp [this]

/-- `dict[k] = v` followed by `dict.get(u)`: a functional update -/
theorem dictGet?_dictSet (d : List (Nat × β)) (k : Nat) (v : β) (u : Nat) :
    dictGet? (dictSet d k v) u = if u = k then some v else dictGet? d u := by
  unfold dictSet
  by_cases hu : u = k
  · subst hu
    cases h : d.any (·.1 == u)
    · simp only [Bool.false_eq_true, if_false, if_true]
      rw [dictGet?_append_none _ _ _ _ h]; simp
    · simp only [if_true]
      exact dictGet?_map_eq d u v h
  · simp only [hu, if_false]
    cases h : d.any (·.1 == k)
    · simp only [Bool.false_eq_true, if_false]
      exact dictGet?_append_ne d k v u hu
    · simp only [if_true]
      exact dictGet?_map_ne d k v u hu

/-- `k in dict` -/
theorem any_key_eq (d : List (Nat × β)) (u : Nat) :
    d.any (·.1 == u) = (dictGet? d u).isSome := by
  unfold dictGet?
  rw [Option.isSome_map]
  induction d with
  | nil => rfl
  | cons kv r ih =>
    simp only [List.any_cons, List.find?_cons]
    cases h : (kv.1 == u) <;> simp [ih]

/-! ### folding `dict[key x] = val dict x` over a list -/

variable {α : Type} (key : α → Nat) (val : List (Nat × β) → α → β)

def stp (d : List (Nat × β)) (x : α) : List (Nat × β) := dictSet d (key x) (val d x)

theorem fold_untouched (L : List α) (d : List (Nat × β)) (u : Nat) (h : ∀ x ∈ L, key x ≠ u) :
    dictGet? (L.foldl (stp key val) d) u = dictGet? d u := by
  induction L generalizing d with
  | nil => rfl
  | cons x r ih =>
    simp only [List.foldl_cons]
    rw [ih _ (fun y hy => h y (by simp [hy]))]
    have := h x (by simp)
    simp only [stp, dictGet?_dictSet]
    rw [if_neg (fun e => this e.symm)]

theorem fold_last (L1 L2 : List α) (x : α) (d : List (Nat × β)) (h : ∀ y ∈ L2, key y ≠ key x) :
    dictGet? ((L1 ++ x :: L2).foldl (stp key val) d) (key x)
      = some (val (L1.foldl (stp key val) d) x) := by
  rw [List.foldl_append, List.foldl_cons, fold_untouched key val L2 _ _ h]
  simp [stp, dictGet?_dictSet]

theorem fold_isSome (L : List α) (d : List (Nat × β)) (u : Nat) :
    (dictGet? (L.foldl (stp key val) d) u).isSome = true ↔
      ((dictGet? d u).isSome = true ∨ ∃ x ∈ L, key x = u) := by
  induction L generalizing d with
  | nil => simp
  | cons x r ih =>
    simp only [List.foldl_cons]
    rw [ih]
    simp only [stp, dictGet?_dictSet]
    by_cases hu : u = key x
    · simp [hu]
    · have : ¬ key x = u := fun e => hu e.symm
      simp [hu, this]

end Dict

/-! ### the dfs item list `PI its` (pre-order below the positions `its`) -/

def PI (its : List Item) : List Item := preItems (fun _ => false) (fun _ => true) its

@[simp] theorem PI_nil : PI [] = [] := rfl

theorem PI_cons (it : Item) (st : List Item) :
    PI (it :: st) = it :: (PI it.node.items ++ PI st) := by
  simp only [PI, preItems, List.flatMap_cons]
  rw [preN_unfold]
  simp [preItems]

theorem dfs_eq (root : Node) :
    dfsImpl (fun _ => false) (fun _ => true) false root = PI root.items := by
  rw [dfs_top_down, pre_eq_preItems]; rfl

/-- induction along the recursion of the pre-order -/
theorem PI_rec {motive : List Item → Prop} (nil : motive [])
    (cons : ∀ it st, motive it.node.items → motive st → motive (it :: st)) :
    ∀ its, motive its := by
  intro its
  generalize hk : weight its = k
  induction k using Nat.strongRecOn generalizing its with
  | _ k ih =>
    cases its with
    | nil => exact nil
    | cons it st =>
      have hp := it.node.size_pos
      have hwi := weight_items it.node
      simp only [weight_cons] at hk
      exact cons it st (ih (weight it.node.items) (by omega) _ rfl) (ih (weight st) (by omega) _ rfl)

theorem mem_PI_self (its : List Item) (x : Item) (hx : x ∈ its) : x ∈ PI its := by
  induction its with
  | nil => simp at hx
  | cons it st ih =>
    rw [PI_cons]
    rcases List.mem_cons.mp hx with h | h
    · simp [h]
    · simp [ih h]

/-- the children positions of a yielded position are yielded -/
theorem PI_closed (its : List Item) :
    ∀ y ∈ PI its, ∀ x ∈ y.node.items, x ∈ PI its := by
  induction its using PI_rec with
  | nil => simp
  | cons it st ih1 ih2 =>
    intro y hy x hx
    rw [PI_cons] at hy ⊢
    simp only [List.mem_cons, List.mem_append] at hy ⊢
    rcases hy with rfl | hy | hy
    · exact Or.inr (Or.inl (mem_PI_self _ _ hx))
    · exact Or.inr (Or.inl (ih1 y hy x hx))
    · exact Or.inr (Or.inr (ih2 y hy x hx))

/-- nothing else is yielded -/
theorem PI_induction (Q : Item → Prop) (hstep : ∀ y, Q y → ∀ x ∈ y.node.items, Q x)
    (its : List Item) : (∀ x ∈ its, Q x) → ∀ y ∈ PI its, Q y := by
  induction its using PI_rec with
  | nil => simp
  | cons it st ih1 ih2 =>
    intro h0 y hy
    rw [PI_cons] at hy
    simp only [List.mem_cons, List.mem_append] at hy
    have hit : Q it := h0 it (by simp)
    rcases hy with rfl | hy | hy
    · exact hit
    · exact ih1 (hstep it hit) y hy
    · exact ih2 (fun x hx => h0 x (by simp [hx])) y hy

/-- every position is yielded after the position of its parent -/
def ParentsBefore : (Node → Prop) → List Item → Prop
  | _, [] => True
  | seen, x :: r => seen x.parent ∧ ParentsBefore (fun m => seen m ∨ m = x.node) r

theorem ParentsBefore.mono {s1 s2 : Node → Prop} (h : ∀ m, s1 m → s2 m) (l : List Item) :
    ParentsBefore s1 l → ParentsBefore s2 l := by
  induction l generalizing s1 s2 with
  | nil => intro _; trivial
  | cons x r ih =>
    intro ⟨h1, h2⟩
    exact ⟨h _ h1, ih (fun m hm => hm.imp (h m) id) h2⟩

theorem ParentsBefore.append (s : Node → Prop) (a b : List Item) :
    ParentsBefore s a → ParentsBefore (fun m => s m ∨ ∃ y ∈ a, m = y.node) b →
    ParentsBefore s (a ++ b) := by
  induction a generalizing s with
  | nil =>
    intro _ hb
    exact ParentsBefore.mono (fun m hm => by simpa using hm) b hb
  | cons x r ih =>
    intro ⟨h1, h2⟩ hb
    refine ⟨h1, ih _ h2 (ParentsBefore.mono ?_ b hb)⟩
    intro m hm
    rcases hm with hm | ⟨y, hy, rfl⟩
    · exact Or.inl (Or.inl hm)
    · rcases List.mem_cons.mp hy with rfl | hy
      · exact Or.inl (Or.inr rfl)
      · exact Or.inr ⟨y, hy, rfl⟩

theorem PI_parentsBefore (its : List Item) :
    ∀ s : Node → Prop, (∀ x ∈ its, s x.parent) → ParentsBefore s (PI its) := by
  induction its using PI_rec with
  | nil => intro _ _; trivial
  | cons it st ih1 ih2 =>
    intro s hs
    rw [PI_cons]
    refine ⟨hs it (by simp), ParentsBefore.append _ _ _ (ih1 _ ?_) (ih2 _ ?_)⟩
    · intro x hx
      simp only [Node.items, List.mem_map] at hx
      obtain ⟨⟨c, e⟩, _, rfl⟩ := hx
      exact Or.inr rfl
    · intro x hx
      exact Or.inl (Or.inl (hs x (by simp [hx])))

theorem ParentsBefore.split (s : Node → Prop) (l1 l2 : List Item) (x : Item) :
    ParentsBefore s (l1 ++ x :: l2) → s x.parent ∨ ∃ y ∈ l1, y.node = x.parent := by
  induction l1 generalizing s with
  | nil => intro ⟨h, _⟩; exact Or.inl h
  | cons a r ih =>
    intro ⟨_, h2⟩
    rcases ih _ h2 with (h | h) | ⟨y, hy, h⟩
    · exact Or.inl h
    · exact Or.inr ⟨a, by simp, h.symm⟩
    · exact Or.inr ⟨y, by simp [hy], h⟩

/-! ### chains -/

theorem allNodes_eq (root : Node) : allNodes root = root :: (PI root.items).map (·.node) := by
  simp [allNodes, dfs_eq]

theorem edges_items {p n : Node} {e : Edge} (h : (n, e) ∈ p.edges) : (⟨n, p, e⟩ : Item) ∈ p.items := by
  simp only [Node.items, List.mem_map]
  exact ⟨(n, e), h, rfl⟩

theorem mem_weight (l : List Item) (x : Item) (hx : x ∈ l) : x.node.size ≤ weight l := by
  induction l with
  | nil => simp at hx
  | cons a r ih =>
    rcases List.mem_cons.mp hx with rfl | h
    · simp
    · have := ih h; simp; omega

theorem edge_size {p n : Node} {e : Edge} (h : (n, e) ∈ p.edges) : n.size < p.size := by
  have h1 := mem_weight _ _ (edges_items h)
  have h2 := weight_items p
  simp only at h1
  omega

section Chains
variable (root : Node)

theorem chain_inv (c : Chain) (n : Node) (oe : Option Edge) (hc : IsChain root (c ++ [(n, oe)])) :
    (c = [] ∧ n = root ∧ oe = none) ∨
    ∃ c' p pe e, c = c' ++ [(p, pe)] ∧ oe = some e ∧ IsChain root (c' ++ [(p, pe)]) ∧ (n, e) ∈ p.edges := by
  generalize hch : c ++ [(n, oe)] = ch at hc
  cases hc with
  | root =>
    left
    have h' : c ++ [(n, oe)] = [] ++ [(root, (none : Option Edge))] := hch
    have h := List.append_inj' h' rfl
    simp only [List.cons.injEq, Prod.mk.injEq, and_true] at h
    exact ⟨h.1, h.2.1, h.2.2⟩
  | snoc c' p pe n' e h1 h2 =>
    right
    have h := List.append_inj' hch rfl
    simp only [List.cons.injEq, Prod.mk.injEq, and_true] at h
    obtain ⟨h3, rfl, rfl⟩ := h
    exact ⟨c', p, pe, e, h3, rfl, h1, h2⟩

theorem chain_inv2 (c : Chain) (p : Node) (pe : Option Edge) (n : Node) (e : Edge)
    (hc : IsChain root (c ++ [(p, pe)] ++ [(n, some e)])) :
    IsChain root (c ++ [(p, pe)]) ∧ (n, e) ∈ p.edges := by
  rcases chain_inv root _ _ _ hc with ⟨h, _, _⟩ | ⟨c', p', pe', e', h1, h2, h3, h4⟩
  · simp at h
  · have h := List.append_inj' h1 rfl
    simp only [List.cons.injEq, Prod.mk.injEq, and_true] at h
    obtain ⟨rfl, rfl, rfl⟩ := h
    cases h2
    exact ⟨h3, h4⟩

/-- induction on chains, by their last member -/
theorem chain_rec {motive : Chain → Node → Option Edge → Prop}
    (hroot : motive [] root none)
    (hstep : ∀ c p pe n e, IsChain root (c ++ [(p, pe)]) → (n, e) ∈ p.edges →
      motive c p pe → motive (c ++ [(p, pe)]) n (some e)) :
    ∀ c n oe, IsChain root (c ++ [(n, oe)]) → motive c n oe := by
  have key : ∀ ch, IsChain root ch → ∀ c n oe, ch = c ++ [(n, oe)] → motive c n oe := by
    intro ch hch
    induction hch with
    | root =>
      intro c n oe h
      have h' : [] ++ [(root, (none : Option Edge))] = c ++ [(n, oe)] := h
      have h := List.append_inj' h' rfl
      simp only [List.cons.injEq, Prod.mk.injEq, and_true] at h
      obtain ⟨rfl, rfl, rfl⟩ := h
      exact hroot
    | snoc c' p pe n' e h1 h2 ih =>
      intro c n oe h
      have h := List.append_inj' h rfl
      simp only [List.cons.injEq, Prod.mk.injEq, and_true] at h
      obtain ⟨rfl, rfl, rfl⟩ := h
      exact hstep c' p pe n' e h1 h2 (ih c' p pe rfl)
  intro c n oe hc
  exact key _ hc c n oe rfl

/-- "is a node of the tree" -/
def IsTreeNode (n : Node) : Prop := n = root ∨ ∃ it ∈ PI root.items, it.node = n

theorem isTreeNode_iff (n : Node) : IsTreeNode root n ↔ n ∈ allNodes root := by
  simp only [IsTreeNode, allNodes_eq, List.mem_cons, List.mem_map]

theorem item_of_parent {p n : Node} {e : Edge} (hp : IsTreeNode root p) (h : (n, e) ∈ p.edges) :
    (⟨n, p, e⟩ : Item) ∈ PI root.items := by
  rcases hp with rfl | ⟨it, hit, rfl⟩
  · exact mem_PI_self _ _ (edges_items h)
  · exact PI_closed _ it hit _ (edges_items h)

theorem chain_last_node (c : Chain) (n : Node) (oe : Option Edge)
    (hc : IsChain root (c ++ [(n, oe)])) : IsTreeNode root n := by
  revert c n oe
  apply chain_rec
  · exact Or.inl rfl
  · intro c p pe n e _ h2 ih
    exact Or.inr ⟨_, item_of_parent root ih h2, rfl⟩

/-- a chain step is a position yielded by `dfs()` -/
theorem chain_item (c : Chain) (p : Node) (pe : Option Edge) (n : Node) (e : Edge)
    (hc : IsChain root (c ++ [(p, pe)] ++ [(n, some e)])) : (⟨n, p, e⟩ : Item) ∈ PI root.items := by
  obtain ⟨h1, h2⟩ := chain_inv2 root c p pe n e hc
  exact item_of_parent root (chain_last_node root _ _ _ h1) h2

theorem chain_sizes (c : Chain) (n : Node) (oe : Option Edge)
    (hc : IsChain root (c ++ [(n, oe)])) :
    c.length + n.size ≤ root.size ∧ ∀ x ∈ c, n.size < x.1.size := by
  revert c n oe
  apply chain_rec
  · simp
  · intro c p pe n e _ h2 ⟨ih1, ih2⟩
    have := edge_size h2
    refine ⟨by simp; omega, ?_⟩
    intro x hx
    rcases List.mem_append.mp hx with hx | hx
    · have := ih2 x hx; omega
    · simp only [List.mem_singleton] at hx; subst hx; exact this

theorem chain_length_lt (c : Chain) (n : Node) (oe : Option Edge)
    (hc : IsChain root (c ++ [(n, oe)])) : c.length < root.size := by
  have := (chain_sizes root c n oe hc).1
  have := n.size_pos
  omega

end Chains

/-! ### the two tables of `TreeT.build` -/

def ikey (it : Item) : Nat := it.node.uid
def pinfoVal : List (Nat × PInfo) → Item → PInfo := fun _ it => ⟨it.parent, it.edge⟩
def xpathVal : List (Nat × Str) → Item → Str := fun d it =>
  (dictGet? d it.parent.uid).getD [] ++ xpathStep it.edge.field it.edge.idx it.node.cls

theorem build_fold (L : List Item) (init : TreeT) :
    (L.foldl
      (fun (t : TreeT) (it : Item) =>
        let px := (dictGet? t.xpath it.parent.uid).getD []
        { t with pinfo := dictSet t.pinfo it.node.uid ⟨it.parent, it.edge⟩,
                 xpath := dictSet t.xpath it.node.uid (px ++ xpathStep it.edge.field it.edge.idx it.node.cls) })
      init) =
    { root := init.root, pinfo := L.foldl (stp ikey pinfoVal) init.pinfo,
      xpath := L.foldl (stp ikey xpathVal) init.xpath } := by
  induction L generalizing init with
  | nil => rfl
  | cons x r ih =>
    simp only [List.foldl_cons]
    rw [ih]
    rfl

section Tables
variable (root : Node)

def rootStep : Str := xpathStep ['r','o','o','t'] none root.cls

theorem build_eq : TreeT.build root =
    { root := root, pinfo := (PI root.items).foldl (stp ikey pinfoVal) [],
      xpath := (PI root.items).foldl (stp ikey xpathVal) [(root.uid, rootStep root)] } := by
  unfold TreeT.build
  simp only [dfs_eq]
  exact build_fold _ _

theorem build_root : (TreeT.build root).root = root := by rw [build_eq]

theorem dictGet?_single {β : Type} (k : Nat) (v : β) (u : Nat) :
    dictGet? [(k, v)] u = if u = k then some v else none := by
  by_cases h : u = k
  · simp [dictGet?, h]
  · have : (k == u) = false := by simp; omega
    simp [dictGet?, h, this]

theorem nodup_map_inj {α : Type} (f : α → Nat) (l : List α) (h : (l.map f).Nodup)
    (x y : α) (hx : x ∈ l) (hy : y ∈ l) (hxy : f x = f y) : x = y := by
  induction l with
  | nil => simp at hx
  | cons a r ih =>
    simp only [List.map_cons, List.nodup_cons, List.mem_map, not_exists, not_and] at h
    rcases List.mem_cons.mp hx with hx1 | hx1 <;> rcases List.mem_cons.mp hy with hy1 | hy1
    · rw [hx1, hy1]
    · subst hx1; exact absurd hxy.symm (h.1 y hy1)
    · subst hy1; exact absurd hxy (h.1 x hx1)
    · exact ih h.2 hx1 hy1

theorem nodup_split {α : Type} (f : α → Nat) (l1 l2 : List α) (x : α)
    (h : ((l1 ++ x :: l2).map f).Nodup) :
    (∀ y ∈ l2, f y ≠ f x) ∧ (∀ y ∈ l1, ∀ z ∈ x :: l2, f z ≠ f y) := by
  simp only [List.map_append, List.map_cons, List.nodup_append, List.nodup_cons, List.mem_map,
    not_exists, not_and, List.mem_cons] at h
  obtain ⟨_, ⟨h2, _⟩, h4⟩ := h
  refine ⟨fun y hy => h2 y hy, ?_⟩
  intro y hy z hz e
  exact h4 (f y) ⟨y, hy, rfl⟩ (f z) (by
    rcases List.mem_cons.mp hz with rfl | hz
    · exact Or.inl rfl
    · exact Or.inr ⟨z, hz, rfl⟩) e.symm

theorem noRepeat_keys (h : NoRepeat root) :
    (∀ it ∈ PI root.items, ikey it ≠ root.uid) ∧ ((PI root.items).map ikey).Nodup := by
  unfold NoRepeat at h
  rw [allNodes_eq] at h
  simp only [List.map_cons, List.map_map, List.nodup_cons, List.mem_map, not_exists, not_and,
    Function.comp_def] at h
  exact ⟨fun it hit e => h.1 it hit e, h.2⟩

theorem uid_inj (h : NoRepeat root) (x y : Node) (hx : x ∈ allNodes root) (hy : y ∈ allNodes root)
    (e : x.uid = y.uid) : x = y :=
  nodup_map_inj (fun m : Node => m.uid) (allNodes root) h x y hx hy e

theorem pinfo_isSome (u : Nat) :
    (dictGet? (TreeT.build root).pinfo u).isSome = true ↔ ∃ it ∈ PI root.items, ikey it = u := by
  rw [build_eq]
  simp only
  rw [fold_isSome]
  simp [dictGet?]

theorem xpath_isSome (u : Nat) :
    (dictGet? (TreeT.build root).xpath u).isSome = true ↔
      (u = root.uid ∨ ∃ it ∈ PI root.items, ikey it = u) := by
  rw [build_eq]
  simp only
  rw [fold_isSome, dictGet?_single]
  by_cases h : u = root.uid <;> simp [h]

/-- under `NoRepeat` the parent table stores, for every yielded position, that position -/
theorem pinfo_item (h : NoRepeat root) (x : Item) (hx : x ∈ PI root.items) :
    dictGet? (TreeT.build root).pinfo (ikey x) = some ⟨x.parent, x.edge⟩ := by
  obtain ⟨l1, l2, hl⟩ := List.append_of_mem hx
  have hk := (noRepeat_keys root h).2
  rw [build_eq]
  simp only
  rw [hl] at hk ⊢
  rw [fold_last ikey pinfoVal l1 l2 x [] (nodup_split ikey l1 l2 x hk).1]
  rfl

end Tables

/-! ### C06 theorems -/

section Main
variable (root : Node)

/-- membership: `node in tree` iff the object is the root or a proper descendant -/
theorem isInTree_iff (n : Node) :
    (TreeT.build root).isInTree n = true ↔ ∃ m ∈ allNodes root, m.uid = n.uid := by
  unfold TreeT.isInTree
  rw [any_key_eq, xpath_isSome, allNodes_eq]
  simp only [List.mem_cons, List.mem_map, exists_eq_or_imp, ikey]
  constructor
  · rintro (h | ⟨it, hit, e⟩)
    · exact Or.inl h.symm
    · exact Or.inr ⟨it.node, ⟨it, hit, rfl⟩, e⟩
  · rintro (h | ⟨m, ⟨it, hit, rfl⟩, e⟩)
    · exact Or.inl h.symm
    · exact Or.inr ⟨it, hit, e⟩

theorem parentInfo_root : (TreeT.build root).getParentInfo root = .ok none := by
  simp [TreeT.getParentInfo, TreeT.isRoot, build_root]

/-- the table stores the actual storage position -/
theorem parentInfo_chain (h : NoRepeat root) (c : Chain) (p : Node) (pe : Option Edge) (n : Node) (e : Edge)
    (hc : IsChain root (c ++ [(p, pe)] ++ [(n, some e)])) :
    (TreeT.build root).getParentInfo n = .ok (some ⟨p, e⟩) := by
  have hx := chain_item root c p pe n e hc
  have hne : root.uid ≠ n.uid := fun e' => (noRepeat_keys root h).1 _ hx e'.symm
  have hr : ((TreeT.build root).isRoot n) = false := by
    simp [TreeT.isRoot, build_root, hne]
  have := pinfo_item root h _ hx
  simp only [ikey] at this
  simp only [TreeT.getParentInfo, hr, Bool.false_eq_true, if_false, this]

/-- foreign nodes: KeyError -/
theorem parentInfo_foreign (n : Node) (hn : ∀ m ∈ allNodes root, m.uid ≠ n.uid) :
    (TreeT.build root).getParentInfo n = .error .keyError := by
  have hne : root.uid ≠ n.uid := hn root (by simp [allNodes])
  have hr : ((TreeT.build root).isRoot n) = false := by
    simp [TreeT.isRoot, build_root, hne]
  have hnone : dictGet? (TreeT.build root).pinfo n.uid = none := by
    cases hg : dictGet? (TreeT.build root).pinfo n.uid with
    | none => rfl
    | some v =>
      have : (dictGet? (TreeT.build root).pinfo n.uid).isSome = true := by simp [hg]
      obtain ⟨it, hit, e⟩ := (pinfo_isSome root n.uid).mp this
      exact absurd e (hn it.node (by rw [allNodes_eq]; simp only [List.mem_cons, List.mem_map]; exact Or.inr ⟨it, hit, rfl⟩))
  simp only [TreeT.getParentInfo, hr, Bool.false_eq_true, if_false, hnone]

theorem getParent_root : (TreeT.build root).getParent root = .ok none := by
  simp [TreeT.getParent, parentInfo_root, Except.map]

theorem getParent_chain (h : NoRepeat root) (c : Chain) (p : Node) (pe : Option Edge) (n : Node) (e : Edge)
    (hc : IsChain root (c ++ [(p, pe)] ++ [(n, some e)])) :
    (TreeT.build root).getParent n = .ok (some p) := by
  simp [TreeT.getParent, parentInfo_chain root h c p pe n e hc, Except.map]

theorem ancestorsAux_chain (h : NoRepeat root) (c : Chain) (n : Node) (oe : Option Edge)
    (hc : IsChain root (c ++ [(n, oe)])) :
    ∀ fuel, c.length < fuel →
      (TreeT.build root).ancestorsAux fuel n = .ok (c.reverse.map (·.1)) := by
  revert c n oe
  apply chain_rec
  · intro fuel hf
    cases fuel with
    | zero => omega
    | succ f => simp [TreeT.ancestorsAux, getParent_root]
  · intro c p pe n e h1 h2 ih fuel hf
    cases fuel with
    | zero => omega
    | succ f =>
      have hp := getParent_chain root h c p pe n e (IsChain.snoc c p pe n e h1 h2)
      have := ih f (by simp at hf; omega)
      simp [TreeT.ancestorsAux, hp, this]

/-- ancestors are the parent chain up to the root (nearest first) -/
theorem ancestors_chain (h : NoRepeat root) (c : Chain) (n : Node) (oe : Option Edge)
    (hc : IsChain root (c ++ [(n, oe)])) :
    (TreeT.build root).getAncestors n = .ok (c.reverse.map (·.1)) := by
  unfold TreeT.getAncestors
  rw [build_root]
  exact ancestorsAux_chain root h c n oe hc _ (chain_length_lt root c n oe hc)

/-- `is_ancestor` agrees with the chain -/
theorem isAncestor_chain (h : NoRepeat root) (c : Chain) (n a : Node) (oe : Option Edge)
    (hc : IsChain root (c ++ [(n, oe)])) :
    (TreeT.build root).isAncestor n a = .ok (c.any (·.1.uid == a.uid)) := by
  simp [TreeT.isAncestor, ancestors_chain root h c n oe hc, Except.map, List.any_reverse, List.any_map,
    Function.comp_def]

/-- first ancestor of type = first member of the reversed chain satisfying the class test -/
theorem firstAncestor_chain (h : NoRepeat root) (c : Chain) (n : Node) (oe : Option Edge)
    (hc : IsChain root (c ++ [(n, oe)])) (classes : List Str) (exact : Bool) :
    (TreeT.build root).firstAncestorOfType n classes exact =
      .ok ((c.reverse.map (·.1)).find? fun a => if exact then classes.contains a.cls else classes.any a.isInst) := by
  simp only [TreeT.firstAncestorOfType, ancestors_chain root h c n oe hc, Except.map]

theorem depthAux_none_chain (h : NoRepeat root) (c : Chain) (n : Node) (oe : Option Edge)
    (hc : IsChain root (c ++ [(n, oe)])) :
    ∀ fuel, c.length < fuel → (TreeT.build root).depthAux none fuel n = .ok c.length := by
  revert c n oe
  apply chain_rec
  · intro fuel hf
    cases fuel with
    | zero => omega
    | succ f => simp [TreeT.depthAux, getParent_root]
  · intro c p pe n e h1 h2 ih fuel hf
    cases fuel with
    | zero => omega
    | succ f =>
      have hp := getParent_chain root h c p pe n e (IsChain.snoc c p pe n e h1 h2)
      have := ih f (by simp at hf; omega)
      simp [TreeT.depthAux, hp, this, Except.map]

/-- absolute depth = number of ancestors -/
theorem depth_chain (h : NoRepeat root) (c : Chain) (n : Node) (oe : Option Edge)
    (hc : IsChain root (c ++ [(n, oe)])) (chk : Bool) :
    (TreeT.build root).getDepth n none chk = .ok c.length := by
  simp only [TreeT.getDepth, build_root]
  exact depthAux_none_chain root h c n oe hc _ (chain_length_lt root c n oe hc)

/-- chain members are tree nodes -/
theorem chain_mem (c : Chain) (hc : IsChain root c) : ∀ x ∈ c, x.1 ∈ allNodes root := by
  induction hc with
  | root =>
    intro x hx
    simp only [List.mem_singleton] at hx
    subst hx
    simp [allNodes]
  | snoc c p pe n e h1 h2 ih =>
    intro x hx
    rcases List.mem_append.mp hx with hx | hx
    · exact ih x hx
    · simp only [List.mem_singleton] at hx
      subst hx
      exact (isTreeNode_iff root n).mp
        (chain_last_node root _ n (some e) (IsChain.snoc c p pe n e h1 h2))

/-- every node of the tree has a chain -/
theorem exists_chain (m : Node) (hm : m ∈ allNodes root) : ∃ c oe, IsChain root (c ++ [(m, oe)]) := by
  rcases (isTreeNode_iff root m).mpr hm with rfl | ⟨it, hit, rfl⟩
  · exact ⟨[], none, IsChain.root⟩
  · have key : ∀ y ∈ PI root.items,
        ∃ c pe, IsChain root (c ++ [(y.parent, pe)] ++ [(y.node, some y.edge)]) := by
      apply PI_induction
      · intro y ⟨c, pe, hc⟩ x hx
        simp only [Node.items, List.mem_map] at hx
        obtain ⟨⟨c', e'⟩, hce, rfl⟩ := hx
        exact ⟨c ++ [(y.parent, pe)], some y.edge, IsChain.snoc _ _ _ c' e' hc hce⟩
      · intro x hx
        simp only [Node.items, List.mem_map] at hx
        obtain ⟨⟨c', e'⟩, hce, rfl⟩ := hx
        exact ⟨[], none, IsChain.snoc [] root none c' e' IsChain.root hce⟩
    obtain ⟨c, pe, hc⟩ := key it hit
    exact ⟨c ++ [(it.parent, pe)], some it.edge, hc⟩

/-- under `NoRepeat` the members of a chain are pairwise different objects -/
theorem chain_uid_ne (h : NoRepeat root) (c : Chain) (n : Node) (oe : Option Edge)
    (hc : IsChain root (c ++ [(n, oe)])) : ∀ x ∈ c, x.1.uid ≠ n.uid := by
  intro x hx e
  have h1 := chain_mem root _ hc x (by simp [hx])
  have h2 := chain_mem root _ hc (n, oe) (by simp)
  have := uid_inj root h _ _ h1 h2 e
  have hs := (chain_sizes root c n oe hc).2 x hx
  rw [this] at hs
  simp at hs

theorem eq_nil_or_snoc {α : Type} (l : List α) : l = [] ∨ ∃ l' x, l = l' ++ [x] := by
  induction l with
  | nil => exact Or.inl rfl
  | cons a r ih =>
    right
    rcases ih with rfl | ⟨l', x, rfl⟩
    · exact ⟨[], a, rfl⟩
    · exact ⟨a :: l', x, rfl⟩

theorem depthAux_rel_chain (h : NoRepeat root) (c₁ : Chain) (a : Node) (ae : Option Edge) :
    ∀ (c : Chain) (n : Node) (oe : Option Edge), IsChain root (c ++ [(n, oe)]) →
      ∀ c₂, c = c₁ ++ [(a, ae)] ++ c₂ → ∀ fuel, c₂.length < fuel →
        (TreeT.build root).depthAux (some a) fuel n = .ok (c₂.length + 1) := by
  apply chain_rec
  · intro c₂ hc
    simp at hc
  · intro c p pe n e h1 h2 ih c₂ hc fuel hf
    have hp := getParent_chain root h c p pe n e (IsChain.snoc c p pe n e h1 h2)
    cases fuel with
    | zero => omega
    | succ f =>
      rcases eq_nil_or_snoc c₂ with rfl | ⟨c₂', q, rfl⟩
      · have hh := List.append_inj' (by simpa using hc : c ++ [(p, pe)] = c₁ ++ [(a, ae)]) rfl
        simp only [List.cons.injEq, Prod.mk.injEq, and_true] at hh
        obtain ⟨rfl, rfl, rfl⟩ := hh
        simp [TreeT.depthAux, hp]
      · have hh := List.append_inj' (by simpa using hc : c ++ [(p, pe)] = (c₁ ++ [(a, ae)] ++ c₂') ++ [q]) rfl
        simp only [List.cons.injEq, and_true] at hh
        obtain ⟨rfl, rfl⟩ := hh
        have hne : p.uid ≠ a.uid := fun e' =>
          chain_uid_ne root h _ p pe h1 (a, ae) (by simp) e'.symm
        have := ih c₂' rfl f (by simp at hf; omega)
        simp [TreeT.depthAux, hp, hne, this, Except.map]

/-- relative depth to an ancestor -/
theorem depth_relative (h : NoRepeat root) (c₁ c₂ : Chain) (a n : Node) (ae oe : Option Edge)
    (hc : IsChain root (c₁ ++ [(a, ae)] ++ c₂ ++ [(n, oe)])) (chk : Bool) :
    (TreeT.build root).getDepth n (some a) chk = .ok (c₂.length + 1) := by
  have hlen := chain_length_lt root _ n oe hc
  have hd := depthAux_rel_chain root h c₁ a ae _ n oe hc c₂ rfl root.size
    (by simp at hlen; omega)
  have ha := isAncestor_chain root h _ n a oe hc
  cases chk <;> simp [TreeT.getDepth, build_root, hd, ha]

/-- ValueError for a non-ancestor when `check_ancestor=True` -/
theorem depth_non_ancestor (h : NoRepeat root) (c : Chain) (n r : Node) (oe : Option Edge)
    (hc : IsChain root (c ++ [(n, oe)])) (hr : ∀ x ∈ c, x.1.uid ≠ r.uid) :
    (TreeT.build root).getDepth n (some r) true = .error .valueError := by
  have ha := isAncestor_chain root h c n r oe hc
  have : c.any (·.1.uid == r.uid) = false := by
    rw [List.any_eq_false]
    intro x hx
    simpa using hr x hx
  rw [this] at ha
  simp [TreeT.getDepth, ha]

theorem spellChain_append (a b : Chain) : spellChain (a ++ b) = spellChain a ++ spellChain b := by
  induction a with
  | nil => rfl
  | cons x r ih =>
    obtain ⟨n, oe⟩ := x
    cases oe <;> simp [spellChain, ih]

theorem xpath_table (h : NoRepeat root) :
    ∀ (c : Chain) (n : Node) (oe : Option Edge), IsChain root (c ++ [(n, oe)]) →
      dictGet? (TreeT.build root).xpath n.uid = some (spellChain (c ++ [(n, oe)])) := by
  have hk := noRepeat_keys root h
  apply chain_rec
  · rw [build_eq]
    simp only
    rw [fold_untouched ikey xpathVal _ _ _ hk.1, dictGet?_single]
    simp [spellChain, rootStep]
  · intro c p pe n e h1 h2 ih
    have hx := item_of_parent root (chain_last_node root _ _ _ h1) h2
    obtain ⟨l1, l2, hl⟩ := List.append_of_mem hx
    have hpb := PI_parentsBefore root.items (· = root) (by
      intro x hx
      simp only [Node.items, List.mem_map] at hx
      obtain ⟨⟨c', e'⟩, _, rfl⟩ := hx
      rfl)
    rw [build_eq] at ih ⊢
    simp only at ih ⊢
    rw [hl] at ih hk hpb ⊢
    have hs := nodup_split ikey l1 l2 _ hk.2
    have hpu : ∀ y ∈ (⟨n, p, e⟩ : Item) :: l2, ikey y ≠ p.uid := by
      rcases ParentsBefore.split _ l1 l2 _ hpb with hp | ⟨y, hy, hyp⟩
      · intro y hy
        simp only at hp
        rw [hp]
        exact hk.1 y (by simp only [List.mem_append]; exact Or.inr hy)
      · intro z hz
        have := hs.2 y hy z hz
        simp only at hyp
        rw [← hyp]
        exact this
    rw [List.foldl_append, fold_untouched ikey xpathVal _ _ _ hpu] at ih
    have := fold_last ikey xpathVal l1 l2 ⟨n, p, e⟩ [(root.uid, rootStep root)] hs.1
    simp only [ikey] at this
    rw [this, spellChain_append (c ++ [(p, pe)])]
    simp [xpathVal, ih, spellChain]

/-- `get_xpath` spells the chain -/
theorem xpath_chain (h : NoRepeat root) (c : Chain) (n : Node) (oe : Option Edge)
    (hc : IsChain root (c ++ [(n, oe)])) :
    (TreeT.build root).getXpath n = .ok (spellChain (c ++ [(n, oe)])) := by
  simp only [TreeT.getXpath, xpath_table root h c n oe hc]

end Main

/-! ### non-vacuity: a concrete five-node tree -/

private def leaf (u : Nat) : Node :=
  .mk { uid := u, cls := ['L'], mro := [['L'], ['N']], org := ⟨0, []⟩, props := [], truthy := true } []
private def mid : Node :=
  .mk { uid := 2, cls := ['M'], mro := [['M'], ['N']], org := ⟨0, []⟩, props := [], truthy := false }
    [.mk ['x'] false [leaf 3]]
private def tree : Node :=
  .mk { uid := 0, cls := ['R'], mro := [['R'], ['N']], org := ⟨0, []⟩, props := [], truthy := true }
    [.mk ['a'] true [leaf 1, mid], .mk ['b'] false [leaf 4]]

private def okNat : Except TErr Nat → Option Nat | .ok n => some n | .error _ => none
private def okStr : Except TErr Str → Option Str | .ok n => some n | .error _ => none
private def okUids : Except TErr (List Node) → Option (List Nat)
  | .ok l => some (l.map (·.uid)) | .error _ => none
private def okPos : Except TErr (Option PInfo) → Option (Option (Nat × Edge))
  | .ok p => some (p.map fun i => (i.parent.uid, i.edge)) | .error _ => none
private def errOf {α : Type} : Except TErr α → Option TErr | .ok _ => none | .error e => some e

example : NoRepeat tree := by unfold NoRepeat; decide
example : (allNodes tree).map (·.uid) = [0, 1, 2, 3, 4] := by decide
/-- `[(tree, none), (mid, a[1]), (leaf 3, x)]` is a chain of `tree` -/
example : IsChain tree ([] ++ [(tree, none)] ++ [(mid, some ⟨['a'], some 1⟩)] ++ [(leaf 3, some ⟨['x'], none⟩)]) :=
  IsChain.snoc _ _ _ _ _ (IsChain.snoc [] _ _ _ _ IsChain.root (List.Mem.tail _ (List.Mem.head _)))
    (List.Mem.head _)
example : okPos ((TreeT.build tree).getParentInfo (leaf 3)) = some (some (2, ⟨['x'], none⟩)) := by decide
example : okPos ((TreeT.build tree).getParentInfo tree) = some none := by decide
example : errOf ((TreeT.build tree).getParentInfo (leaf 9)) = some .keyError := by decide
example : okUids ((TreeT.build tree).getAncestors (leaf 3)) = some [2, 0] := by decide
example : okNat ((TreeT.build tree).getDepth (leaf 3) none true) = some 2 := by decide
example : okNat ((TreeT.build tree).getDepth (leaf 3) (some mid) true) = some 1 := by decide
example : errOf ((TreeT.build tree).getDepth (leaf 3) (some (leaf 4)) true) = some .valueError := by decide
example : okStr ((TreeT.build tree).getXpath (leaf 3)) = some "/@root[0]R/@a[1]M/@x[0]L".toList := by decide
example : (TreeT.build tree).isInTree (leaf 4) = true ∧ (TreeT.build tree).isInTree (leaf 9) = false := by decide

/-- `NoRepeat` is needed in `parentInfo_chain`: when the same object is stored twice (here `leaf 1`
at `a[0]` and `a[1]`), `[(shared, none), (leaf 1, a[0])]` is a chain but the table answers with the
position written last, `a[1]`. -/
private def shared : Node :=
  .mk { uid := 0, cls := ['R'], mro := [['R'], ['N']], org := ⟨0, []⟩, props := [], truthy := true }
    [.mk ['a'] true [leaf 1, leaf 1]]
example : ¬ NoRepeat shared := by unfold NoRepeat; decide
example : IsChain shared ([] ++ [(shared, none)] ++ [(leaf 1, some ⟨['a'], some 0⟩)]) :=
  IsChain.snoc [] _ _ _ _ IsChain.root (List.Mem.head _)
example : okPos ((TreeT.build shared).getParentInfo (leaf 1)) = some (some (0, ⟨['a'], some 1⟩)) := by decide

end C06
end PyOak

section Axioms
open PyOak.C06
#print axioms isInTree_iff
#print axioms parentInfo_root
#print axioms parentInfo_chain
#print axioms parentInfo_foreign
#print axioms ancestors_chain
#print axioms depth_chain
#print axioms depth_relative
#print axioms depth_non_ancestor
#print axioms isAncestor_chain
#print axioms firstAncestor_chain
#print axioms xpath_chain
#print axioms exists_chain
#print axioms chain_mem
end Axioms

