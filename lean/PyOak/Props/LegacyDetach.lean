/-
`detach` / `detach_self` preserve the invariant.

The recursion of `detach` is handled without any tree-shape assumption: we prove, for an
arbitrary start state, a handful of *monotone* facts about the final state (objects only lose
their parent slots, the registry only loses keys; whoever was touched is a child of a node
that was unregistered; every unregistered node has all its children cleared; every
unregistered node is the start node or a child of an unregistered node), and show that these
facts together with the invariant of the start state give the invariant of the final state.
-/
import PyOak.Props.LegacyBase
namespace PyOak.Legacy
open LState

def clearP (o : LObj) : LObj := { o with pid := none, pfield := none, pindex := none }

def Cleared (o : LObj) : Prop := o.pid = none ∧ o.pfield = none ∧ o.pindex = none

theorem cleared_clearP (o : LObj) : Cleared (clearP o) := ⟨rfl, rfl, rfl⟩
@[simp] theorem clearP_clearP (o : LObj) : clearP (clearP o) = clearP o := rfl
@[simp] theorem clearP_id (o : LObj) : (clearP o).id = o.id := rfl
@[simp] theorem clearP_fields (o : LObj) : (clearP o).fields = o.fields := rfl
@[simp] theorem clearP_cid (o : LObj) : (clearP o).cid = o.cid := rfl
@[simp] theorem clearP_props (o : LObj) : (clearP o).props = o.props := rfl
@[simp] theorem clearP_cls (o : LObj) : (clearP o).cls = o.cls := rfl

theorem clearParent_obj' (s : LState) (u v : Nat) :
    (s.clearParent u).obj v = if v = u then clearP (s.obj u) else s.obj v := rfl

/-- objects only lose their parent slots, the registry only loses keys -/
structure Shrinks (s s' : LState) : Prop where
  size : s'.size = s.size
  obj : ∀ v, s'.obj v = s.obj v ∨ s'.obj v = clearP (s.obj v)
  reg : ∀ k, s'.lookup k = s.lookup k ∨ s'.lookup k = none

theorem Shrinks.refl (s : LState) : Shrinks s s := ⟨rfl, fun _ => .inl rfl, fun _ => .inl rfl⟩

theorem Shrinks.trans {a b c : LState} (h1 : Shrinks a b) (h2 : Shrinks b c) : Shrinks a c := by
  refine ⟨h2.size.trans h1.size, fun v => ?_, fun k => ?_⟩
  · rcases h2.obj v with e2 | e2 <;> rcases h1.obj v with e1 | e1 <;> simp [e1, e2]
  · rcases h2.reg k with e2 | e2 <;> rcases h1.reg k with e1 | e1 <;> simp [e1, e2]

theorem Shrinks.id_eq {s s' : LState} (h : Shrinks s s') (v : Nat) : s'.idOf v = s.idOf v := by
  unfold LState.idOf; rcases h.obj v with e | e <;> simp [e]

theorem Shrinks.fields_eq {s s' : LState} (h : Shrinks s s') (v : Nat) : (s'.obj v).fields = (s.obj v).fields := by
  rcases h.obj v with e | e <;> simp [e]

theorem Shrinks.cid_eq {s s' : LState} (h : Shrinks s s') (v : Nat) : (s'.obj v).cid = (s.obj v).cid := by
  rcases h.obj v with e | e <;> simp [e]

theorem Shrinks.kidList_eq {s s' : LState} (h : Shrinks s s') (v : Nat) :
    (s'.obj v).kidList = (s.obj v).kidList := by
  unfold LObj.kidList; rw [h.fields_eq]

theorem Shrinks.kidsPos_eq {s s' : LState} (h : Shrinks s s') (v : Nat) :
    (s'.obj v).kidsPos = (s.obj v).kidsPos := by
  unfold LObj.kidsPos; rw [h.fields_eq]

theorem Shrinks.att {s s' : LState} (h : Shrinks s s') {v : Nat} (hv : Att s' v) : Att s v := by
  unfold Att at *
  rw [h.id_eq] at hv
  rcases h.reg (s.idOf v) with e | e <;> simp_all

theorem Shrinks.cleared {s s' : LState} (h : Shrinks s s') {v : Nat} (hv : Cleared (s.obj v)) : Cleared (s'.obj v) := by
  rcases h.obj v with e | e
  · rw [e]; exact hv
  · rw [e]; exact cleared_clearP _

theorem shrinks_clearParent (s : LState) (c : Nat) : Shrinks s (s.clearParent c) := by
  refine ⟨rfl, fun v => ?_, fun k => .inl rfl⟩
  rw [clearParent_obj']; split
  · next h => subst h; exact .inr rfl
  · exact .inl rfl

theorem shrinks_unregister (s : LState) (k : Str) : Shrinks s (s.unregister k) := by
  refine ⟨rfl, fun v => .inl rfl, fun k' => ?_⟩
  rw [unregister_lookup]; split
  · exact .inr rfl
  · exact .inl rfl

/-- `p` was attached and is not any more -/
def Unreg (s s' : LState) (p : Nat) : Prop := Att s p ∧ ¬ Att s' p

/-- what a (possibly nested, possibly unfinished) run of `detach` guarantees, relative to the
nodes `roots` it was started on -/
structure DetachFacts (s s' : LState) (roots : List Nat) : Prop where
  shr : Shrinks s s'
  touched : ∀ x, s'.obj x ≠ s.obj x → x ∈ roots ∨ ∃ p, Unreg s s' p ∧ x ∈ (s.obj p).kidList
  cleared : ∀ p, Unreg s s' p → ∀ c ∈ (s.obj p).kidList, Cleared (s'.obj c)
  origin : ∀ p, Unreg s s' p → p ∈ roots ∨ ∃ q, Unreg s s' q ∧ p ∈ (s.obj q).kidList

theorem DetachFacts.refl (s : LState) (roots : List Nat) : DetachFacts s s roots :=
  ⟨Shrinks.refl s, fun _ h => absurd rfl h, fun _ h => absurd h.1 h.2, fun _ h => absurd h.1 h.2⟩

theorem DetachFacts.mono {s s' : LState} {r1 r2 : List Nat} (h : DetachFacts s s' r1) (hr : ∀ x ∈ r1, x ∈ r2) :
    DetachFacts s s' r2 :=
  ⟨h.shr, fun x hx => (h.touched x hx).imp (hr x) id, h.cleared, fun p hp => (h.origin p hp).imp (hr p) id⟩

/-- sequential composition -/
theorem DetachFacts.trans {a b c : LState} {r1 r2 : List Nat} (h1 : DetachFacts a b r1) (h2 : DetachFacts b c r2) :
    DetachFacts a c (r1 ++ r2) := by
  have hac : Shrinks a c := h1.shr.trans h2.shr
  have kl : ∀ v, (b.obj v).kidList = (a.obj v).kidList := h1.shr.kidList_eq
  -- an unregistration between a and c happened in one of the two legs
  have split : ∀ p, Unreg a c p → Unreg a b p ∨ Unreg b c p := by
    intro p ⟨hp, hnp⟩
    by_cases hb : Att b p
    · exact .inr ⟨hb, hnp⟩
    · exact .inl ⟨hp, hb⟩
  have up1 : ∀ p, Unreg a b p → Unreg a c p := fun p ⟨hp, hnp⟩ => ⟨hp, fun h => hnp (h2.shr.att h)⟩
  have up2 : ∀ p, Unreg b c p → Unreg a c p := fun p ⟨hp, hnp⟩ => ⟨h1.shr.att hp, hnp⟩
  refine ⟨hac, ?_, ?_, ?_⟩
  · intro x hx
    by_cases hb : b.obj x = a.obj x
    · have : c.obj x ≠ b.obj x := by rw [hb]; exact hx
      rcases h2.touched x this with h | ⟨p, hp, hxp⟩
      · exact .inl (List.mem_append_right _ h)
      · exact .inr ⟨p, up2 p hp, by rw [← kl]; exact hxp⟩
    · rcases h1.touched x hb with h | ⟨p, hp, hxp⟩
      · exact .inl (List.mem_append_left _ h)
      · exact .inr ⟨p, up1 p hp, hxp⟩
  · intro p hp cc hc
    rcases split p hp with h | h
    · exact h2.shr.cleared (h1.cleared p h cc hc)
    · exact h2.cleared p h cc (by rw [kl]; exact hc)
  · intro p hp
    rcases split p hp with h | h
    · rcases h1.origin p h with h' | ⟨q, hq, hpq⟩
      · exact .inl (List.mem_append_left _ h')
      · exact .inr ⟨q, up1 q hq, hpq⟩
    · rcases h2.origin p h with h' | ⟨q, hq, hpq⟩
      · exact .inl (List.mem_append_right _ h')
      · exact .inr ⟨q, up2 q hq, by rw [← kl]; exact hpq⟩

theorem att_clearParent_iff (s : LState) (c p : Nat) : Att (s.clearParent c) p ↔ Att s p := by
  unfold Att; rw [clearParent_idOf, clearParent_lookup]

theorem detachFacts_clearParent (s : LState) (c : Nat) : DetachFacts s (s.clearParent c) [c] := by
  refine ⟨shrinks_clearParent s c, ?_, ?_, ?_⟩
  · intro x hx
    left
    rw [clearParent_obj'] at hx
    by_cases h : x = c
    · simp [h]
    · simp [h] at hx
  · intro p ⟨hp, hnp⟩; exact absurd ((att_clearParent_iff s c p).mpr hp) hnp
  · intro p ⟨hp, hnp⟩; exact absurd ((att_clearParent_iff s c p).mpr hp) hnp

/-- the loop over the children, given the facts for the nested calls (finished runs only) -/
theorem detachKids_facts (rec : LState → Nat → LState × Option Bool) (os : Bool)
    (hrec : ∀ s c b, (rec s c).2 = some b → DetachFacts s (rec s c).1 [c]) :
    ∀ (ks : List Nat) (s : LState), (detachKids rec os s ks).2 = true →
      DetachFacts s (detachKids rec os s ks).1 ks ∧ ∀ c ∈ ks, Cleared ((detachKids rec os s ks).1.obj c) := by
  intro ks
  induction ks with
  | nil => intro s _; exact ⟨DetachFacts.refl _ _, fun c hc => by simp at hc⟩
  | cons c cs ih =>
    intro s hfl
    have h1 := detachFacts_clearParent s c
    have hc1 : Cleared ((s.clearParent c).obj c) := by rw [clearParent_obj']; simp [cleared_clearP]
    by_cases hos : os = true
    · subst hos
      simp only [detachKids, if_true] at hfl ⊢
      have h2 := ih (s.clearParent c) hfl
      refine ⟨by simpa using h1.trans h2.1, fun x hx => ?_⟩
      rcases List.mem_cons.mp hx with rfl | hx
      · exact h2.1.shr.cleared hc1
      · exact h2.2 x hx
    · have hos' : os = false := by cases os <;> simp_all
      subst hos'
      simp only [detachKids, Bool.false_eq_true, if_false] at hfl ⊢
      cases hr : rec (s.clearParent c) c with
      | mk s2 r =>
        rw [hr] at hfl
        cases r with
        | none => simp at hfl
        | some b =>
          simp only at hfl ⊢
          have h2 := hrec (s.clearParent c) c b (by rw [hr])
          rw [hr] at h2
          have h3 := ih s2 hfl
          refine ⟨?_, fun x hx => ?_⟩
          · have := (h1.trans h2).trans h3.1
            refine this.mono ?_
            intro x hx
            rcases List.mem_append.mp hx with hx | hx
            · rcases List.mem_append.mp hx with hx | hx
              · exact List.mem_cons.mpr (.inl (List.mem_singleton.mp hx))
              · exact List.mem_cons.mpr (.inl (List.mem_singleton.mp hx))
            · exact List.mem_cons.mpr (.inr hx)
          · rcases List.mem_cons.mp hx with rfl | hx
            · exact h3.1.shr.cleared (h2.shr.cleared hc1)
            · exact h3.2 x hx

/-- the facts for a finished `detach` -/
theorem detachGo_facts : ∀ (fuel : Nat) (os : Bool) (s : LState) (u : Nat) (b : Bool),
    (detachGo fuel os s u).2 = some b → DetachFacts s (detachGo fuel os s u).1 [u] := by
  intro fuel
  induction fuel with
  | zero => intro os s u b h; simp [detachGo] at h
  | succ fuel ih =>
    intro os s u b hb
    unfold detachGo at hb ⊢
    by_cases hd : s.detached u = true
    · simp only [hd, if_true]; exact DetachFacts.refl _ _
    · simp only [hd, Bool.false_eq_true, if_false] at hb ⊢
      by_cases hr : (!s.isAttachedRoot u) = true
      · simp only [hr, if_true]; exact DetachFacts.refl _ _
      · simp only [hr, Bool.false_eq_true, if_false] at hb ⊢
        have hatt : Att s u := by
          rw [← detached_eq_false_iff]; cases h : s.detached u <;> simp_all
        cases hl : detachKids (detachGo fuel false) os s (s.obj u).kidList with
        | mk s1 fl =>
          rw [hl] at hb
          cases fl with
          | false => simp at hb
          | true =>
            simp only
            have hk := detachKids_facts (detachGo fuel false) os (fun s c b h => ih false s c b h)
              (s.obj u).kidList s (by rw [hl])
            rw [hl] at hk
            obtain ⟨hk1, hk2⟩ := hk
            have hsu := shrinks_unregister s1 (s1.idOf u)
            have hnatt : ¬ Att (s1.unregister (s1.idOf u)) u := by
              unfold Att; rw [unregister_idOf, unregister_lookup]; simp
            have hU : Unreg s (s1.unregister (s1.idOf u)) u := ⟨hatt, hnatt⟩
            -- whoever loses its registration in the last step is `u`
            have last : ∀ p, Att s1 p → ¬ Att (s1.unregister (s1.idOf u)) p → p = u := by
              intro p hp hnp
              unfold Att at hp hnp
              rw [unregister_idOf, unregister_lookup] at hnp
              by_cases e : s1.idOf u = s1.idOf p
              · rw [← e] at hp
                have : s1.lookup (s.idOf u) = some p := by rw [← hk1.shr.id_eq]; exact hp
                rcases hk1.shr.reg (s.idOf u) with h | h
                · rw [h] at this; unfold Att at hatt; rw [hatt] at this; exact (Option.some.inj this).symm
                · rw [h] at this; cases this
              · simp [e] at hnp; exact absurd hp hnp
            have lift : ∀ p, Unreg s s1 p → Unreg s (s1.unregister (s1.idOf u)) p :=
              fun p ⟨hp, hnp⟩ => ⟨hp, fun h => hnp (hsu.att h)⟩
            refine ⟨hk1.shr.trans hsu, ?_, ?_, ?_⟩
            · intro x hx
              have hx' : s1.obj x ≠ s.obj x := hx
              rcases hk1.touched x hx' with h | ⟨p, hp, hxp⟩
              · exact .inr ⟨u, hU, h⟩
              · exact .inr ⟨p, lift p hp, hxp⟩
            · intro p hp c hc
              show Cleared (s1.obj c)
              by_cases h1 : Att s1 p
              · have := last p h1 hp.2; subst this; exact hk2 c hc
              · exact hk1.cleared p ⟨hp.1, h1⟩ c hc
            · intro p hp
              by_cases h1 : Att s1 p
              · have := last p h1 hp.2; subst this; exact .inl (by simp)
              · rcases hk1.origin p ⟨hp.1, h1⟩ with h | ⟨q, hq, hpq⟩
                · exact .inr ⟨u, hU, h⟩
                · exact .inr ⟨q, lift q hq, hpq⟩

end PyOak.Legacy

namespace PyOak.Legacy
open LState

/-- the invariant survives anything that satisfies the detach facts from an attached root -/
theorem inv_of_detachFacts (Hc : Str → Str) {X : Nat → (Nat × Str × Option Nat) → Prop} {Y : Nat → Prop}
    {s s' : LState} {u : Nat} (hI : InvX Hc X Y s)
    (hF : DetachFacts s s' [u]) (hroot : s.parent u = none)
    (hXs : ∀ q e, X q e → ¬ Unreg s s' q) : InvX Hc X Y s' := by
  have hS := hF.shr
  -- an unregistered node is `u` or the child of an unregistered node; in the latter case the
  -- node has been cleared
  have unreg_cleared : ∀ p, Unreg s s' p → p = u ∨ Cleared (s'.obj p) := by
    intro p hp
    rcases hF.origin p hp with h | ⟨q, hq, hpq⟩
    · exact .inl (by simpa using h)
    · exact .inr (hF.cleared q hq p hpq)
  -- a node whose parent resolves (in s) to an attached node other than … is not `u`
  have not_root : ∀ x p, Att s x → (s.obj x).pid = some (s.idOf p) → Att s p → x ≠ u := by
    intro x p _ hpid hp hxu
    subst hxu
    unfold LState.parent at hroot
    rw [hpid] at hroot
    simp only at hroot
    unfold Att at hp
    rw [hp] at hroot
    cases hroot
  -- children of surviving nodes are untouched and survive
  have kid_untouched : ∀ w, Att s' w → ∀ e ∈ (s.obj w).kidsPos, ¬ X w e →
      s'.obj e.1 = s.obj e.1 ∧ Att s' e.1 := by
    intro w hw e he hx
    have hws : Att s w := hS.att hw
    obtain ⟨hca, hcp, _, _⟩ := hI.down w hws e he hx
    have hne : e.1 ≠ u := not_root e.1 w hca hcp hws
    -- if the child were a kid of an unregistered node q, then q = w
    have key : ∀ q, Unreg s s' q → e.1 ∈ (s.obj q).kidList → False := by
      intro q hq hcq
      obtain ⟨e', he', he'1⟩ := (mem_kidList_iff _ _).mp hcq
      obtain ⟨_, hcp', _, _⟩ := hI.down q hq.1 e' he' (fun hx => hXs q e' hx hq)
      rw [he'1, hcp] at hcp'
      have : w = q := att_inj hws hq.1 (Option.some.inj hcp')
      subst this
      exact hq.2 hw
    constructor
    · apply Classical.byContradiction; intro hx
      rcases hF.touched e.1 hx with h | ⟨q, hq, hcq⟩
      · exact hne (by simpa using h)
      · exact key q hq hcq
    · apply Classical.byContradiction; intro hx
      rcases hF.origin e.1 ⟨hca, hx⟩ with h | ⟨q, hq, hcq⟩
      · exact hne (by simpa using h)
      · exact key q hq hcq
  refine ⟨?_, ?_, ?_, ?_, ?_, ?_, ?_, ?_⟩
  · -- regSound
    intro k v hk
    have : s.lookup k = some v := by rcases hS.reg k with h | h <;> simp_all
    obtain ⟨h1, h2⟩ := hI.regSound k v this
    exact ⟨by rw [hS.size]; exact h1, by rw [hS.id_eq]; exact h2⟩
  · -- down
    intro w hw e he hx
    rw [hS.kidsPos_eq] at he
    have hws : Att s w := hS.att hw
    obtain ⟨hca, hcp, hcf, hci⟩ := hI.down w hws e he hx
    obtain ⟨hobj, hatt⟩ := kid_untouched w hw e he hx
    exact ⟨hatt, by rw [hobj, hS.id_eq]; exact hcp, by rw [hobj]; exact hcf, by rw [hobj]; exact hci⟩
  · -- up
    intro x hx p hp
    have hxs : Att s x := hS.att hx
    unfold LState.parent at hp
    rcases hS.obj x with ho | ho
    · rw [ho] at hp ⊢
      cases hk : (s.obj x).pid with
      | none => rw [hk] at hp; cases hp
      | some k =>
        rw [hk] at hp
        simp only at hp
        have hps : s.lookup k = some p := by rcases hS.reg k with h | h <;> simp_all
        have : s.parent x = some p := by unfold LState.parent; rw [hk]; exact hps
        obtain ⟨f, hf, hmem⟩ := hI.up x hxs p this
        exact ⟨f, hf, by rw [hS.kidsPos_eq]; exact hmem⟩
    · rw [ho] at hp; simp [clearP] at hp
  · -- cid
    intro x hx hy
    have hxs : Att s x := hS.att hx
    rw [hS.cid_eq, hI.cid x hxs hy]
    congr 1
    symm
    rcases hS.obj x with ho | ho <;> rw [ho] <;> exact cidPre_congr rfl rfl rfl (fun c _ => hS.cid_eq c)
  · -- noDangling
    intro x k hk
    have ho : s'.obj x = s.obj x := by
      rcases hS.obj x with ho | ho
      · exact ho
      · rw [ho] at hk; simp [clearP] at hk
    rw [ho] at hk
    obtain ⟨hxs, hks⟩ := hI.noDangling x k hk
    obtain ⟨p, hp⟩ := Option.isSome_iff_exists.mp hks
    obtain ⟨_, hpid⟩ := hI.regSound k p hp
    have hps : Att s p := by unfold Att; rw [hpid]; exact hp
    have hxp : s.parent x = some p := by unfold LState.parent; rw [hk]; exact hp
    obtain ⟨f, _, hmem⟩ := hI.up x hxs p hxp
    have hxkid : x ∈ (s.obj p).kidList := (mem_kidList_iff _ _).mpr ⟨_, hmem, rfl⟩
    have notCleared : ¬ Cleared (s'.obj x) := by rw [ho]; intro h; rw [h.1] at hk; cases hk
    have hxu : x ≠ u := not_root x p hxs (by rw [hk, hpid]) hps
    constructor
    · apply Classical.byContradiction; intro hx
      rcases unreg_cleared x ⟨hxs, hx⟩ with h | h
      · exact hxu h
      · exact notCleared h
    · -- the parent is still registered: otherwise x would have been cleared
      rcases hS.reg k with h | h
      · rw [h]; exact hks
      · exfalso
        have : Unreg s s' p := ⟨hps, by unfold Att; rw [hS.id_eq, hpid, h]; simp⟩
        exact notCleared (hF.cleared p this x hxkid)
  · -- closed
    intro v hv c hc
    rw [hS.size] at hv ⊢
    rw [hS.kidList_eq] at hc
    exact hI.closed v hv c hc
  · -- noSelf
    intro x hx
    apply hI.noSelf x
    unfold LState.parent at hx ⊢
    rcases hS.obj x with ho | ho
    · rw [ho] at hx
      cases hk : (s.obj x).pid with
      | none => rw [hk] at hx; cases hx
      | some k =>
        rw [hk] at hx; simp only at hx ⊢
        rcases hS.reg k with h | h <;> simp_all
    · rw [ho] at hx; simp [clearP] at hx
  · -- wf
    intro v
    have : (s'.obj v).fields = (s.obj v).fields := hS.fields_eq v
    unfold LObj.wf; rw [this]; exact hI.wf v

end PyOak.Legacy

namespace PyOak.Legacy
open LState

/-- `detach(only_self)` that returns preserves the invariant (any fuel, both variants), also with
holes whose parents are not unregistered by the run -/
theorem detachGo_invX (Hc : Str → Str) {X : Nat → (Nat × Str × Option Nat) → Prop} {Y : Nat → Prop}
    {s s' : LState} {u fuel : Nat} {os b : Bool} (hI : InvX Hc X Y s)
    (h : detachGo fuel os s u = (s', some b)) (hXs : ∀ q e, X q e → ¬ Unreg s s' q) : InvX Hc X Y s' := by
  have hF := detachGo_facts fuel os s u b (by rw [h])
  rw [h] at hF
  cases fuel with
  | zero => simp [detachGo] at h
  | succ fuel =>
    unfold detachGo at h
    by_cases hd : s.detached u = true
    · simp only [hd, if_true] at h
      cases h; exact hI
    · simp only [hd, Bool.false_eq_true, if_false] at h
      by_cases hr : (!s.isAttachedRoot u) = true
      · simp only [hr, if_true] at h
        cases h; exact hI
      · have hroot : s.parent u = none := by
          unfold LState.isAttachedRoot at hr
          cases hp : s.parent u with
          | none => rfl
          | some p => simp [hp] at hr
        exact inv_of_detachFacts Hc hI hF hroot hXs

theorem detachGo_inv (Hc : Str → Str) {s s' : LState} {u fuel : Nat} {os b : Bool} (hI : Inv Hc s)
    (h : detachGo fuel os s u = (s', some b)) : Inv Hc s' :=
  detachGo_invX Hc hI h (fun _ _ hx => hx.elim)

/-- `detach` never touches its start node: whatever changed is a child of a node that was unregistered -/
theorem detachGo_touched (fuel : Nat) (os : Bool) (s : LState) (u : Nat) (b : Bool)
    (hb : (detachGo fuel os s u).2 = some b) :
    ∀ x, (detachGo fuel os s u).1.obj x ≠ s.obj x →
      ∃ p, Unreg s (detachGo fuel os s u).1 p ∧ x ∈ (s.obj p).kidList := by
  cases fuel with
  | zero => simp [detachGo] at hb
  | succ fuel =>
    unfold detachGo at hb ⊢
    by_cases hd : s.detached u = true
    · simp only [hd, if_true]; intro x hx; exact absurd rfl hx
    · simp only [hd, Bool.false_eq_true, if_false] at hb ⊢
      by_cases hr : (!s.isAttachedRoot u) = true
      · simp only [hr, if_true]; intro x hx; exact absurd rfl hx
      · simp only [hr, Bool.false_eq_true, if_false] at hb ⊢
        have hatt : Att s u := by
          rw [← detached_eq_false_iff]; cases h : s.detached u <;> simp_all
        cases hl : detachKids (detachGo fuel false) os s (s.obj u).kidList with
        | mk s1 fl =>
          rw [hl] at hb
          cases fl with
          | false => simp at hb
          | true =>
            simp only
            have hk := detachKids_facts (detachGo fuel false) os (fun s c b h => detachGo_facts fuel false s c b h)
              (s.obj u).kidList s (by rw [hl])
            rw [hl] at hk
            obtain ⟨hk1, _⟩ := hk
            have hsu := shrinks_unregister s1 (s1.idOf u)
            have hnatt : ¬ Att (s1.unregister (s1.idOf u)) u := by
              unfold Att; rw [unregister_idOf, unregister_lookup]; simp
            intro x hx
            have hx' : s1.obj x ≠ s.obj x := hx
            rcases hk1.touched x hx' with h | ⟨p, hp, hxp⟩
            · exact ⟨u, ⟨hatt, hnatt⟩, h⟩
            · exact ⟨p, ⟨hp.1, fun h => hp.2 (hsu.att h)⟩, hxp⟩

/-- a finished `detach` of an attached root leaves it detached -/
theorem detachGo_root_detaches {s s' : LState} {u fuel : Nat} {os b : Bool} (hua : Att s u)
    (hroot : s.parent u = none) (h : detachGo fuel os s u = (s', some b)) : ¬ Att s' u := by
  cases fuel with
  | zero => simp [detachGo] at h
  | succ fuel =>
    unfold detachGo at h
    have hd : s.detached u = false := (detached_eq_false_iff s u).mpr hua
    have hr : s.isAttachedRoot u = true := by simp [LState.isAttachedRoot, hroot, hd]
    simp only [hd, Bool.false_eq_true, if_false, hr, Bool.not_true] at h
    split at h
    · cases h
    · next t heq =>
      simp only [Prod.mk.injEq] at h
      rw [← h.1]
      unfold Att; rw [unregister_idOf, unregister_lookup]; simp

/-! ### `detach_self` in closed form -/

theorem foldl_clearParent_lookup : ∀ (ks : List Nat) (s : LState) (k : Str),
    (ks.foldl LState.clearParent s).lookup k = s.lookup k := by
  intro ks; induction ks with
  | nil => intro s k; rfl
  | cons c r ih => intro s k; simp only [List.foldl_cons]; rw [ih]; rfl

theorem foldl_clearParent_size : ∀ (ks : List Nat) (s : LState), (ks.foldl LState.clearParent s).size = s.size := by
  intro ks; induction ks with
  | nil => intro s; rfl
  | cons c r ih => intro s; simp only [List.foldl_cons]; rw [ih]; rfl

theorem foldl_clearParent_obj : ∀ (ks : List Nat) (s : LState) (x : Nat),
    (ks.foldl LState.clearParent s).obj x = if x ∈ ks then clearP (s.obj x) else s.obj x := by
  intro ks; induction ks with
  | nil => intro s x; simp
  | cons c r ih =>
    intro s x
    simp only [List.foldl_cons]
    rw [ih, clearParent_obj']
    by_cases hxc : x = c
    · subst hxc; simp
    · by_cases hxr : x ∈ r <;> simp [hxc, hxr]

theorem foldl_clearParent_idOf (ks : List Nat) (s : LState) (x : Nat) :
    (ks.foldl LState.clearParent s).idOf x = s.idOf x := by
  unfold LState.idOf; rw [foldl_clearParent_obj]; split <;> simp

theorem detachKids_onlySelf (rec : LState → Nat → LState × Option Bool) : ∀ (ks : List Nat) (s : LState),
    detachKids rec true s ks = (ks.foldl LState.clearParent s, true) := by
  intro ks; induction ks with
  | nil => intro s; rfl
  | cons c r ih => intro s; simp only [detachKids, if_true, List.foldl_cons]; exact ih _

/-- `detach_self()` of an attached root, in closed form -/
theorem detach_self_eq {s : LState} {u fuel : Nat} (ha : Att s u) (hr : s.parent u = none) :
    detachGo (fuel + 1) true s u =
      (((s.obj u).kidList.foldl LState.clearParent s).unregister (s.idOf u), some true) := by
  unfold detachGo
  have hd : s.detached u = false := (detached_eq_false_iff _ _).mpr ha
  have hroot : s.isAttachedRoot u = true := by simp [LState.isAttachedRoot, hr, hd]
  simp only [hd, Bool.false_eq_true, if_false, hroot, Bool.not_true]
  rw [detachKids_onlySelf]
  simp only [foldl_clearParent_idOf]

/-! ### a run only unregisters descendants of its start node -/

/-- `q` is reachable from `x` along child links -/
inductive Desc (s : LState) (x : Nat) : Nat → Prop
  | refl : Desc s x x
  | step {q' q : Nat} : Desc s x q' → q ∈ (s.obj q').kidList → Desc s x q

theorem Desc.congr {s t : LState} (h : ∀ v, (t.obj v).kidList = (s.obj v).kidList) {x q : Nat} (hd : Desc s x q) :
    Desc t x q := by
  induction hd with
  | refl => exact .refl
  | step _ hk ih => exact .step ih (by rw [h]; exact hk)

theorem Desc.trans_kid {s : LState} {x c q : Nat} (hc : c ∈ (s.obj x).kidList) (hd : Desc s c q) : Desc s x q := by
  induction hd with
  | refl => exact .step .refl hc
  | step _ hk ih => exact .step ih hk

theorem Desc.of_leaf {s : LState} {x q : Nat} (hx : (s.obj x).kidList = []) (hd : Desc s x q) : q = x := by
  induction hd with
  | refl => rfl
  | step _ hk ih => rw [ih, hx] at hk; cases hk

theorem detachKids_desc (rec : LState → Nat → LState × Option Bool) (os : Bool)
    (hfacts : ∀ s c b, (rec s c).2 = some b → Shrinks s (rec s c).1)
    (hrec : ∀ s c b, (rec s c).2 = some b → ∀ q, Unreg s (rec s c).1 q → Desc s c q) :
    ∀ (ks : List Nat) (s : LState), (detachKids rec os s ks).2 = true →
      Shrinks s (detachKids rec os s ks).1 ∧
      ∀ q, Unreg s (detachKids rec os s ks).1 q → ∃ c ∈ ks, Desc s c q := by
  intro ks
  induction ks with
  | nil => intro s _; exact ⟨Shrinks.refl _, fun q hq => absurd hq.1 hq.2⟩
  | cons c cs ih =>
    intro s hfl
    by_cases hos : os = true
    · subst hos
      simp only [detachKids, if_true] at hfl ⊢
      obtain ⟨h1, h2⟩ := ih (s.clearParent c) hfl
      refine ⟨(shrinks_clearParent s c).trans h1, ?_⟩
      intro q hq
      have : Unreg (s.clearParent c) (detachKids rec true (s.clearParent c) cs).1 q :=
        ⟨(att_clearParent_iff s c q).mpr hq.1, hq.2⟩
      obtain ⟨c', hc', hd⟩ := h2 q this
      exact ⟨c', List.mem_cons_of_mem _ hc', hd.congr (fun v => ((shrinks_clearParent s c).kidList_eq v).symm)⟩
    · have hos' : os = false := by cases os <;> simp_all
      subst hos'
      simp only [detachKids, Bool.false_eq_true, if_false] at hfl ⊢
      cases hr : rec (s.clearParent c) c with
      | mk s2 r =>
        rw [hr] at hfl
        cases r with
        | none => simp at hfl
        | some b =>
          simp only at hfl ⊢
          have hS2 : Shrinks (s.clearParent c) s2 := by have := hfacts (s.clearParent c) c b (by rw [hr]); rwa [hr] at this
          have hD2 := hrec (s.clearParent c) c b (by rw [hr])
          rw [hr] at hD2
          obtain ⟨h1, h2⟩ := ih s2 hfl
          have hS02 : Shrinks s s2 := (shrinks_clearParent s c).trans hS2
          refine ⟨hS02.trans h1, ?_⟩
          intro q hq
          by_cases h2a : Att s2 q
          · obtain ⟨c', hc', hd⟩ := h2 q ⟨h2a, hq.2⟩
            exact ⟨c', List.mem_cons_of_mem _ hc', hd.congr (fun v => (hS02.kidList_eq v).symm)⟩
          · have := hD2 q ⟨(att_clearParent_iff s c q).mpr hq.1, h2a⟩
            exact ⟨c, List.mem_cons_self .., this.congr (fun v => ((shrinks_clearParent s c).kidList_eq v).symm)⟩

theorem detachGo_desc : ∀ (fuel : Nat) (os : Bool) (s : LState) (u : Nat) (b : Bool),
    (detachGo fuel os s u).2 = some b → ∀ q, Unreg s (detachGo fuel os s u).1 q → Desc s u q := by
  intro fuel
  induction fuel with
  | zero => intro os s u b h; simp [detachGo] at h
  | succ fuel ih =>
    intro os s u b hb q hq
    unfold detachGo at hb hq
    by_cases hd : s.detached u = true
    · simp only [hd, if_true] at hq; exact absurd hq.1 hq.2
    · simp only [hd, Bool.false_eq_true, if_false] at hb hq
      by_cases hr : (!s.isAttachedRoot u) = true
      · simp only [hr, if_true] at hq; exact absurd hq.1 hq.2
      · simp only [hr, Bool.false_eq_true, if_false] at hb hq
        cases hl : detachKids (detachGo fuel false) os s (s.obj u).kidList with
        | mk s1 fl =>
          rw [hl] at hb hq
          cases fl with
          | false => simp at hb
          | true =>
            simp only at hq
            have hk := detachKids_desc (detachGo fuel false) os
              (fun s c b h => (detachGo_facts fuel false s c b h).shr) (fun s c b h => ih false s c b h)
              (s.obj u).kidList s (by rw [hl])
            rw [hl] at hk
            obtain ⟨hS, hD⟩ := hk
            by_cases h1 : Att s1 q
            · -- unregistered by the last step: it is u
              have hatt : Att s u := by rw [← detached_eq_false_iff]; cases h : s.detached u <;> simp_all
              have hnq := hq.2
              unfold Att at h1 hnq
              rw [unregister_idOf, unregister_lookup] at hnq
              by_cases e : s1.idOf u = s1.idOf q
              · rw [← e] at h1
                have : s1.lookup (s.idOf u) = some q := by rw [← hS.id_eq]; exact h1
                rcases hS.reg (s.idOf u) with h | h
                · rw [h] at this; unfold Att at hatt; rw [hatt] at this
                  rw [← Option.some.inj this]; exact .refl
                · rw [h] at this; cases this
              · simp [e] at hnq; exact absurd h1 hnq
            · obtain ⟨c, hc, hd⟩ := hD q ⟨hq.1, h1⟩
              exact Desc.trans_kid hc hd

/-! ### a computable sufficient condition for `¬ Desc s u p` -/

/-- walk up from `x` along `parent`: `true` iff a root is reached within the fuel without meeting `u` -/
def upFree (s : LState) (u : Nat) : Nat → Nat → Bool
  | 0, _ => false
  | fuel + 1, x =>
    if x = u then false
    else match s.parent x with
      | none => true
      | some q => upFree s u fuel q

/-- descendants of an attached node are attached, and walking up from them meets that node -/
theorem upFree_of_desc {Hc : Str → Str} {X : Nat → (Nat × Str × Option Nat) → Prop} {Y : Nat → Prop} {s : LState}
    (hI : InvX Hc X Y s) {u q : Nat} (hu : Att s u) (hd : Desc s u q)
    (hX : ∀ w e, X w e → ¬ Desc s u w) : Att s q ∧ ∀ fuel, upFree s u fuel q = false := by
  induction hd with
  | refl => exact ⟨hu, fun fuel => by cases fuel <;> simp [upFree]⟩
  | @step q' q hd' hk ih =>
    obtain ⟨hq', hup⟩ := ih
    obtain ⟨e, he, he1⟩ := (mem_kidList_iff _ _).mp hk
    obtain ⟨a, b, _, _⟩ := hI.down q' hq' e he (fun hx => hX q' e hx hd')
    rw [he1] at a b
    refine ⟨a, fun fuel => ?_⟩
    cases fuel with
    | zero => rfl
    | succ f =>
      unfold upFree
      by_cases hqu : q = u
      · simp [hqu]
      · simp only [hqu, if_false]
        have : s.parent q = some q' := by unfold LState.parent; rw [b]; exact hq'
        rw [this]; exact hup f

/-- the decidable form of the acyclicity side condition -/
theorem not_desc_of_upFree {Hc : Str → Str} {s : LState} (hI : Inv Hc s) {u p fuel : Nat} (hu : Att s u)
    (h : upFree s u fuel p = true) : ¬ Desc s u p := by
  intro hd
  have := (upFree_of_desc hI hu hd (fun _ _ hx => hx.elim)).2 fuel
  rw [h] at this; cases this

end PyOak.Legacy
