/-
C05, "each proper-descendant position exactly once" WITH shared objects.

A position of the tree below `n` is a PATH: a non-empty list of `(field, index)` edges that can be
followed downward from `n` (`Trav.ValidPath`).  When an object is stored twice, its sub-positions
are two different paths, and the traversal yields both (the `(parent uid, field, index)` keys of
`C05X.dfsImpl_keys_nodup` then repeat: that theorem needs `NoRepeat`).  Under `WellKeyed n` ONLY
(no `NoRepeat`): the unpruned, unfiltered pre-order stream, position by position, is the end of
the trail `ts[i]`, and the map `i ↦ pathOf ts[i]` is

* injective (`paths_nodup`),
* onto the non-empty valid paths (`mem_paths_iff`, needs no hypothesis),
* increasing for the lexicographic pre-order of paths `Trav.PathLt` (`paths_sorted`, needs no
  hypothesis; `PathLt` is irreflexive under `WellKeyed`: `pathLt_irrefl`),

and the number of paths is `size - 1` (`paths_length`).  `dfs_enumerates_paths` puts it together.
-/
import PyOak.Props.C05Trails
import PyOak.Lemmas.Framing
namespace PyOak
namespace C05P
open C05 C05X C05T Trav

/-! ### paths and trails -/

theorem mem_items_iff (p : Node) (x : Item) :
    x ∈ p.items ↔ x.parent = p ∧ (x.node, x.edge) ∈ p.edges := by
  constructor
  · intro h; exact ⟨items_parent p x h, by have := items_sound p x h; rwa [items_parent p x h] at this⟩
  · rintro ⟨rfl, h⟩
    exact List.mem_map.mpr ⟨(x.node, x.edge), h, rfl⟩

/-- the edges of a valid trail form a valid path -/
theorem validPath_of_trail (n : Node) (t : List Item) (h : IsTrail n t) : ValidPath n (pathOf t) := by
  induction t generalizing n with
  | nil => trivial
  | cons a r ih => exact ⟨a.node, ((mem_items_iff n a).mp h.1).2, ih a.node h.2⟩

/-- every valid path is the path of a valid trail -/
theorem trail_of_validPath (n : Node) (p : List Edge) (h : ValidPath n p) :
    ∃ t, IsTrail n t ∧ pathOf t = p := by
  induction p generalizing n with
  | nil => exact ⟨[], trivial, rfl⟩
  | cons e r ih =>
    obtain ⟨c, hc, hr⟩ := h
    obtain ⟨t, ht, hp⟩ := ih c hr
    exact ⟨⟨c, n, e⟩ :: t, ⟨(mem_items_iff n _).mpr ⟨rfl, hc⟩, ht⟩, by simp [pathOf] at hp ⊢; exact hp⟩

/-- **onto**: the paths of the listed trails are exactly the non-empty valid paths (any tree) -/
theorem mem_paths_iff (n : Node) (p : List Edge) :
    p ∈ (trails (fun _ => false) n).map pathOf ↔ p ≠ [] ∧ ValidPath n p := by
  constructor
  · intro h
    obtain ⟨t, ht, rfl⟩ := List.mem_map.mp h
    obtain ⟨hne, htr⟩ := (mem_trails_noprune n t).mp ht
    exact ⟨by simpa [pathOf] using hne, validPath_of_trail n t htr⟩
  · rintro ⟨hne, hv⟩
    obtain ⟨t, ht, rfl⟩ := trail_of_validPath n p hv
    exact List.mem_map.mpr ⟨t, (mem_trails_noprune n t).mpr ⟨by simpa [pathOf] using hne, ht⟩, rfl⟩

theorem self_mem_allNodes (n : Node) : n ∈ allNodes n := by rw [allNodes_eq]; simp

/-- in a well-keyed node a child position is determined by its edge -/
theorem item_eq_of_edge (n : Node) (hE : EdgesNodup n) (a b : Item) (ha : a ∈ n.items)
    (hb : b ∈ n.items) (he : a.edge = b.edge) : a = b := by
  obtain ⟨hpa, hea⟩ := (mem_items_iff n a).mp ha
  obtain ⟨hpb, heb⟩ := (mem_items_iff n b).mp hb
  have := Framing.eq_of_nodup_map (fun ce : Node × Edge => ce.2) n.edges hE _ hea _ heb he
  obtain ⟨a1, a2, a3⟩ := a
  obtain ⟨b1, b2, b3⟩ := b
  simp only [Prod.mk.injEq] at this
  simp only at hpa hpb
  rw [this.1, this.2, hpa, hpb]

/-- **injective**: under `WellKeyed`, a valid trail is determined by its path -/
theorem trail_inj (n : Node) (hW : WellKeyed n) (t1 t2 : List Item) (h1 : IsTrail n t1)
    (h2 : IsTrail n t2) (hp : pathOf t1 = pathOf t2) : t1 = t2 := by
  induction t1 generalizing n t2 with
  | nil =>
    cases t2 with
    | nil => rfl
    | cons b s => simp [pathOf] at hp
  | cons a r ih =>
    cases t2 with
    | nil => simp [pathOf] at hp
    | cons b s =>
      simp only [pathOf, List.map_cons, List.cons.injEq] at hp
      have hab : a = b := item_eq_of_edge n (hW n (self_mem_allNodes n)) a b h1.1 h2.1 hp.1
      subst hab
      rw [ih a.node (wellKeyed_child n hW a h1.1) s h1.2 h2.2 hp.2]

/-! ### order -/

theorem items_edges (n : Node) : n.items.map (·.edge) = n.edges.map (·.2) := by
  simp [Node.items, List.map_map, Function.comp_def]

/-- two child positions of `n`, the first before the second: their edges are in declaration order -/
theorem items_pairwise_sublist (n : Node) :
    n.items.Pairwise (fun a b => [a.edge, b.edge].Sublist (n.edges.map (·.2))) := by
  rw [← items_edges]
  have : (n.items.map (·.edge)).Pairwise (fun e1 e2 => [e1, e2].Sublist (n.items.map (·.edge))) :=
    List.pairwise_iff_forall_sublist.mpr (fun h => h)
  rw [List.pairwise_map] at this
  exact this

/-- **pre-order of paths**: the paths of the listed trails increase for `PathLt` — a path comes
before its extensions, siblings come in declaration order / left to right (any tree) -/
theorem paths_sorted (n : Node) : ((trails (fun _ => false) n).map pathOf).Pairwise (PathLt n) := by
  induction n using node_induction with
  | step n ih =>
    rw [trails_eq, List.map_flatMap]
    refine List.pairwise_flatMap.mpr ⟨?_, ?_⟩
    · intro it hit
      have hmem := ((mem_items_iff n it).mp hit).2
      simp only [Bool.false_eq_true, if_false, List.map_cons, List.map_map]
      refine List.pairwise_cons.mpr ⟨?_, ?_⟩
      · intro p hp
        obtain ⟨t, ht, rfl⟩ := List.mem_map.mp hp
        have hne := trails_ne_nil _ _ t ht
        cases t with
        | nil => exact absurd rfl hne
        | cons a r =>
          exact PathLt.down n it.node it.edge [] _ hmem (PathLt.pre _ _ _)
      · have := ih it hit
        rw [List.pairwise_map] at this ⊢
        exact this.imp (fun h => PathLt.down n it.node it.edge _ _ hmem h)
    · refine (items_pairwise_sublist n).imp ?_
      intro a b hab x hx y hy
      have hfirst : ∀ (it : Item) (z : List Edge),
          z ∈ List.map pathOf ([it] :: if (fun _ => false) it = true then []
            else List.map (fun x => it :: x) (trails (fun _ => false) it.node)) →
          ∃ z', z = it.edge :: z' := by
        intro it z hz
        obtain ⟨t, ht, rfl⟩ := List.mem_map.mp hz
        rcases List.mem_cons.mp ht with rfl | ht
        · exact ⟨[], rfl⟩
        · simp only [Bool.false_eq_true, if_false] at ht
          obtain ⟨t', _, rfl⟩ := List.mem_map.mp ht
          exact ⟨pathOf t', rfl⟩
      obtain ⟨x', rfl⟩ := hfirst a x hx
      obtain ⟨y', rfl⟩ := hfirst b y hy
      exact PathLt.fork n _ _ _ _ hab

theorem wellKeyed_edge (n c : Node) (e : Edge) (hW : WellKeyed n) (h : (c, e) ∈ n.edges) :
    WellKeyed c :=
  wellKeyed_child n hW ⟨c, n, e⟩ ((mem_items_iff n _).mpr ⟨rfl, h⟩)

/-- under `WellKeyed` the pre-order of paths is irreflexive -/
theorem pathLt_irrefl (n : Node) (hW : WellKeyed n) (p q : List Edge) (h : PathLt n p q) : p ≠ q := by
  induction h with
  | pre n e p => simp
  | fork n e1 e2 p q hs =>
    intro heq
    have he : e1 = e2 := (List.cons.inj heq).1
    subst he
    have hnd : (n.edges.map (·.2)).Nodup := hW n (self_mem_allNodes n)
    have := hnd.sublist hs
    simp at this
  | down n c e p q hmem _ ih =>
    intro heq
    exact ih (wellKeyed_edge n c e hW hmem) (List.cons.inj heq).2

/-- **injective**: under `WellKeyed` no path is listed twice — each position exactly once, shared
objects allowed -/
theorem paths_nodup (n : Node) (hW : WellKeyed n) :
    ((trails (fun _ => false) n).map pathOf).Nodup :=
  (paths_sorted n).imp (fun h => pathLt_irrefl n hW _ _ h)

/-- the number of positions: `size - 1` -/
theorem paths_length (n : Node) : ((trails (fun _ => false) n).map pathOf).length + 1 = n.size := by
  have := dfs_all_positions n
  rw [dfs_noprune_eq_trails] at this
  simpa using this

/-- **exactly once, with sharing**: the unpruned, unfiltered `dfs()` stream is, position by
position, the list of ends of trails `ts` such that the paths of `ts` are pairwise distinct,
listed in the lexicographic pre-order, and are all the non-empty valid paths below the start node;
there are `size - 1` of them -/
theorem dfs_enumerates_paths (n : Node) (hW : WellKeyed n) :
    ∃ ts : List (List Item),
      ts.map trailEnd = dfsImpl (fun _ => false) (fun _ => true) false n ∧
      (∀ t ∈ ts, t ≠ [] ∧ IsTrail n t) ∧
      (ts.map pathOf).Nodup ∧
      (ts.map pathOf).Pairwise (PathLt n) ∧
      (∀ p, p ∈ ts.map pathOf ↔ p ≠ [] ∧ ValidPath n p) ∧
      (ts.map pathOf).length + 1 = n.size :=
  ⟨trails (fun _ => false) n, (dfs_noprune_eq_trails n).symm,
    fun t ht => (mem_trails_noprune n t).mp ht, paths_nodup n hW, paths_sorted n,
    mem_paths_iff n, paths_length n⟩

/-- the same enumeration, pruned: the paths yielded by `dfs(prune)` are the valid paths along
which no earlier position is pruned, still pairwise distinct and in the same order -/
theorem dfs_pruned_paths (P : Item → Bool) (n : Node) (hW : WellKeyed n) :
    ∃ ts : List (List Item),
      ts.map trailEnd = dfsImpl P (fun _ => true) false n ∧
      ts.Sublist (trails (fun _ => false) n) ∧
      (∀ t, t ∈ ts ↔ t ≠ [] ∧ IsTrail n t ∧ ∀ y ∈ t.dropLast, P y = false) ∧
      (ts.map pathOf).Nodup ∧ (ts.map pathOf).Pairwise (PathLt n) := by
  have hsub : (trails P n).Sublist (trails (fun _ => false) n) := by
    rw [trails_prune]; exact List.filter_sublist
  refine ⟨trails P n, ?_, hsub, mem_trails_iff P n, ?_, ?_⟩
  · rw [dfs_top_down, trails_end]
  · exact (paths_nodup n hW).sublist (hsub.map _)
  · exact (paths_sorted n).sublist (hsub.map _)

/-! ### non-vacuity: a tree with a shared object -/

private def hd (u : Nat) (c : Str) : Head :=
  { uid := u, cls := c, mro := [c], org := ⟨0, []⟩, props := [], truthy := true }
private def leaf (u : Nat) : Node := .mk (hd u ['L']) []
private def mid : Node := .mk (hd 2 ['M']) [.mk ['x'] false [leaf 3], .mk ['y'] true [leaf 5, leaf 6]]
private def shared : Node := .mk (hd 0 ['R']) [.mk ['a'] true [mid, mid], .mk ['b'] false [leaf 4]]

/-- `shared` is well keyed but repeats an object: the hypotheses of `dfs_enumerates_paths` hold,
those of `C05X.dfsImpl_keys_nodup` do not -/
example : WellKeyed shared := by unfold WellKeyed EdgesNodup; decide
example : ¬ NoRepeat shared := by unfold NoRepeat; decide
example : ¬ ((dfsImpl (fun _ => false) (fun _ => true) false shared).map Item.key).Nodup := by decide
example : ((trails (fun _ => false) shared).map pathOf).length = 9 := by decide
example : ValidPath shared [⟨['a'], some 1⟩, ⟨['y'], some 0⟩] :=
  ⟨mid, List.Mem.tail _ (List.Mem.head _), leaf 5, List.Mem.tail _ (List.Mem.head _), trivial⟩
/-- `WellKeyed` is needed: two nodes in one single field give the same path twice -/
private def twoInSingle : Node := .mk (hd 0 ['R']) [.mk ['x'] false [leaf 1, leaf 2]]
example : ¬ ((trails (fun _ => false) twoInSingle).map pathOf).Nodup := by decide

#print axioms mem_paths_iff
#print axioms trail_inj
#print axioms paths_sorted
#print axioms pathLt_irrefl
#print axioms paths_nodup
#print axioms paths_length
#print axioms dfs_enumerates_paths
#print axioms dfs_pruned_paths

end C05P
end PyOak
