/-
Bridge for `==`: the hand-written model `eqImpl` (Model/Equality.lean) is the definition GENERATED from `_eq_fn`
(src/pyoak/node.py), instantiated with class identity, the content id, the origin key and the pre-order stream of the
model.  Hence the C02 theorems (`eq_iff`, `eq_total`, …) are theorems about the source as it is now.
-/
import PyOak.Gen.KernelsEq
import PyOak.Model.Equality
namespace PyOak.GenBridge
open PyOak

/-- the descendants stream `node.dfs()` as nodes (`item.node`) -/
def dfsNodes (n : Node) : List Node := (dfsImpl (fun _ => false) (fun _ => true) false n).map (·.node)

theorem zipOrigins_eq_gen : ∀ (xs ys : List Item),
    zipOrigins xs ys =
      (match GenK.zipStrictFind (fun (a b : Node) => !(a.org.key == b.org.key)) (xs.map (·.node)) (ys.map (·.node)) with
        | .error u => .error u
        | .ok true => .ok false
        | .ok false => .ok true)
  | [], [] => by simp [zipOrigins, GenK.zipStrictFind]
  | [], _ :: _ => by simp [zipOrigins, GenK.zipStrictFind]
  | _ :: _, [] => by simp [zipOrigins, GenK.zipStrictFind]
  | x :: xs, y :: ys => by
    have ih := zipOrigins_eq_gen xs ys
    by_cases h : x.node.org.key = y.node.org.key
    · simp [zipOrigins, GenK.zipStrictFind, h, ih]
    · simp [zipOrigins, GenK.zipStrictFind, h]

/-- `a == b` of the model is what `_eq_fn` says -/
theorem eqImpl_eq_gen (H : Str → Str) (a b : Node) :
    eqImpl H a b = GenK.eq_fn (fun x y => x.cls == y.cls) (cid H) (fun n => n.org.key) dfsNodes a b := by
  unfold eqImpl eqCore GenK.eq_fn dfsNodes
  rw [zipOrigins_eq_gen]
  have hsym : (b.cls == a.cls) = (a.cls == b.cls) := by
    by_cases h : a.cls = b.cls
    · rw [h]
    · have h' : ¬ b.cls = a.cls := fun e => h e.symm
      rw [beq_eq_false_iff_ne.mpr h, beq_eq_false_iff_ne.mpr h']
  simp only [hsym]
  cases (a.cls == b.cls) <;> cases (cid H a == cid H b) <;> cases (a.org.key == b.org.key) <;>
    (try simp) <;> (try grind)

end PyOak.GenBridge
