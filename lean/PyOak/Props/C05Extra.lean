/-
C05, complements — the clauses of the C05 statement that `Props/C05.lean` proves only for the
top-down depth-first stream, for **all three** traversals, every prune `P` and every filter `F`:

 (a) position soundness / start node never yielded for `dfs(bottom_up=True)` and `bfs`;
 (b) the three orders enumerate the same positions (`List.Perm`), for every `P`, `F`;
 (c) the filter never affects descent: the stream is the unfiltered stream, filtered;
 (d) prune semantics: a pruned position is offered to the filter, nothing is produced below it;
     membership in any of the three streams = reachable through not-pruned positions ∧ `F`;
 (e) exactly once: the positions yielded are pairwise distinct as (parent uid, field, index).
-/
import PyOak.Props.C05
import PyOak.Spec.Tree
namespace PyOak
namespace C05X
open C05

variable (P F : Item → Bool)

/-! ### an induction principle for forests of positions -/

/-- induction over a work list of positions: the children of the head, then the tail -/
theorem items_induction {motive : List Item → Prop} (nil : motive [])
    (cons : ∀ it st, motive it.node.items → motive st → motive (it :: st)) :
    ∀ its, motive its := by
  intro its
  generalize hk : weight its = k
  induction k using Nat.strongRecOn generalizing its with
  | _ k ih =>
    cases its with
    | nil => exact nil
    | cons it st =>
      have hp := it.node.size_pos
      have hwi := weight_items it.node
      simp only [weight_cons] at hk
      exact cons it st (ih (weight it.node.items) (by omega) _ rfl) (ih (weight st) (by omega) _ rfl)

theorem preItems_nil : preItems P F [] = [] := rfl
theorem postItems_nil : postItems P F [] = [] := rfl

theorem preItems_cons (it : Item) (st : List Item) :
    preItems P F (it :: st) =
      (if F it then [it] else []) ++ (if P it then [] else preItems P F it.node.items) ++
        preItems P F st := by
  simp only [preItems, List.flatMap_cons]
  rw [preN_unfold]; rfl

theorem postItems_cons (it : Item) (st : List Item) :
    postItems P F (it :: st) =
      (if P it then [] else postItems P F it.node.items) ++ (if F it then [it] else []) ++
        postItems P F st := by
  simp only [postItems, List.flatMap_cons]
  rw [postN_unfold]; rfl

theorem preItems_append (a b : List Item) :
    preItems P F (a ++ b) = preItems P F a ++ preItems P F b := by
  simp [preItems]

/-! ### (c) the filter does not affect descent -/

theorem preItems_filter (its : List Item) :
    preItems P F its = (preItems P (fun _ => true) its).filter F := by
  induction its using items_induction with
  | nil => rfl
  | cons it st ih1 ih2 =>
    rw [preItems_cons, preItems_cons, ih1, ih2]
    by_cases hP : P it <;> by_cases hF : F it <;> simp [hP, hF]

theorem postItems_filter (its : List Item) :
    postItems P F its = (postItems P (fun _ => true) its).filter F := by
  induction its using items_induction with
  | nil => rfl
  | cons it st ih1 ih2 =>
    rw [postItems_cons, postItems_cons, ih1, ih2]
    by_cases hP : P it <;> by_cases hF : F it <;> simp [hP, hF]

/-- `dfs(prune, filter)` = `filter` applied to `dfs(prune)` -/
theorem pre_filter (n : Node) : pre P F n = (pre P (fun _ => true) n).filter F := by
  rw [pre_eq_preItems, pre_eq_preItems]; exact preItems_filter P F _

/-- `dfs(prune, filter, bottom_up=True)` = `filter` applied to `dfs(prune, bottom_up=True)` -/
theorem post_filter (n : Node) : post P F n = (post P (fun _ => true) n).filter F := by
  rw [post_eq_postItems, post_eq_postItems]; exact postItems_filter P F _

/-- `bfs(prune, filter)` = `filter` applied to `bfs(prune)` -/
theorem bfs_filter (n : Node) : bfs P F n = (bfs P (fun _ => true) n).filter F := by
  simp [bfs]

/-- the same on the implementation-shaped model -/
theorem dfsImpl_filter (b : Bool) (n : Node) :
    dfsImpl P F b n = (dfsImpl P (fun _ => true) b n).filter F := by
  cases b
  · rw [dfs_top_down, dfs_top_down]; exact pre_filter P F n
  · rw [dfs_bottom_up, dfs_bottom_up]; exact post_filter P F n

theorem bfsImpl_filter (n : Node) : bfsImpl P F n = (bfsImpl P (fun _ => true) n).filter F := by
  rw [bfs_levels, bfs_levels]; exact bfs_filter P F n

/-! ### (b) the three orders enumerate the same positions -/

theorem postItems_perm_preItems (its : List Item) :
    (postItems P F its).Perm (preItems P F its) := by
  induction its using items_induction with
  | nil => exact List.Perm.refl _
  | cons it st ih1 ih2 =>
    rw [postItems_cons, preItems_cons]
    refine List.Perm.append ?_ ih2
    by_cases hP : P it
    · simp [hP]
    · simp only [hP, Bool.false_eq_true, if_false]
      exact List.perm_append_comm.trans (List.Perm.append_left _ ih1)

/-- **post-order is a permutation of pre-order**, for every prune and filter: pruning cuts the
same subtrees in both directions -/
theorem post_perm_pre (n : Node) : (post P F n).Perm (pre P F n) := by
  rw [post_eq_postItems, pre_eq_preItems]; exact postItems_perm_preItems P F _

/-- the fuel-free queue loop started on `q` enumerates the pre-order positions below `q` -/
theorem B_perm_preItems (q : List Item) : (B P q).Perm (preItems P (fun _ => true) q) := by
  generalize hk : weight q = k
  induction k using Nat.strongRecOn generalizing q with
  | _ k ih =>
    cases q with
    | nil => rw [B_nil]; exact List.Perm.refl _
    | cons it st =>
      have hp := it.node.size_pos
      have hko := weight_kidsOf P it
      simp only [weight_cons] at hk
      rw [B_cons, preItems_cons]
      simp only [if_true, List.cons_append]
      refine List.Perm.cons it ?_
      refine (ih (weight (st ++ kidsOf P it)) (by simp; omega) _ rfl).trans ?_
      rw [preItems_append]
      refine List.perm_append_comm.trans (List.Perm.append_right _ ?_)
      by_cases hP : P it <;> simp [kidsOf, hP, preItems_nil]

theorem bfs_eq_B (n : Node) : bfs P F n = (B P n.items).filter F := by
  have hw := weight_items n
  rw [← bfs_levels]
  unfold bfsImpl
  rw [bfsLoop_filter]
  have h1 : bfsLoop P (fun _ => true) n.size n.items = B P n.items :=
    bfsLoop_fuel P _ _ _ (by omega) (Nat.le_refl _)
  rw [h1]

/-- **level order is a permutation of pre-order**, for every prune and filter -/
theorem bfs_perm_pre (n : Node) : (bfs P F n).Perm (pre P F n) := by
  rw [bfs_eq_B, pre_filter, pre_eq_preItems]
  exact (B_perm_preItems P n.items).filter F

theorem bfs_perm_post (n : Node) : (bfs P F n).Perm (post P F n) :=
  (bfs_perm_pre P F n).trans (post_perm_pre P F n).symm

/-- the `P = ⊥` instances: every order enumerates all proper-descendant positions -/
theorem post_perm_pre_noprune (n : Node) :
    (post (fun _ => false) F n).Perm (pre (fun _ => false) F n) := post_perm_pre _ F n
theorem bfs_perm_pre_noprune (n : Node) :
    (bfs (fun _ => false) F n).Perm (pre (fun _ => false) F n) := bfs_perm_pre _ F n

/-- the same on the implementation-shaped model -/
theorem dfsImpl_bottom_up_perm (n : Node) : (dfsImpl P F true n).Perm (dfsImpl P F false n) := by
  rw [dfs_top_down, dfs_bottom_up]; exact post_perm_pre P F n
theorem bfsImpl_perm (n : Node) : (bfsImpl P F n).Perm (dfsImpl P F false n) := by
  rw [dfs_top_down, bfs_levels]; exact bfs_perm_pre P F n

/-! ### (a) position soundness and start-node exclusion, all traversals -/

theorem pre_sound (n : Node) (x : Item) (hx : x ∈ pre P F n) : (x.node, x.edge) ∈ x.parent.edges := by
  rw [pre_eq_preItems] at hx
  exact preItems_sound P F _ (items_sound n) x hx

theorem pre_smaller (n : Node) (x : Item) (hx : x ∈ pre P F n) : x.node.size < n.size := by
  rw [pre_eq_preItems] at hx
  have := preItems_smaller P F _ x hx
  have := weight_items n
  omega

/-- every `(node, parent, field, index)` yielded by `dfs(bottom_up=True)` is a real position -/
theorem dfs_bottom_up_yield_sound (n : Node) (x : Item) (hx : x ∈ dfsImpl P F true n) :
    (x.node, x.edge) ∈ x.parent.edges := by
  rw [dfs_bottom_up] at hx
  exact pre_sound P F n x ((post_perm_pre P F n).mem_iff.mp hx)

/-- every `(node, parent, field, index)` yielded by `bfs` is a real position -/
theorem bfs_yield_sound (n : Node) (x : Item) (hx : x ∈ bfsImpl P F n) :
    (x.node, x.edge) ∈ x.parent.edges := by
  rw [bfs_levels] at hx
  exact pre_sound P F n x ((bfs_perm_pre P F n).mem_iff.mp hx)

/-- `dfs(bottom_up=True)` never yields the start node -/
theorem dfs_bottom_up_never_yields_start (n : Node) (x : Item) (hx : x ∈ dfsImpl P F true n) :
    x.node.size < n.size := by
  rw [dfs_bottom_up] at hx
  exact pre_smaller P F n x ((post_perm_pre P F n).mem_iff.mp hx)

/-- `bfs` never yields the start node -/
theorem bfs_never_yields_start (n : Node) (x : Item) (hx : x ∈ bfsImpl P F n) :
    x.node.size < n.size := by
  rw [bfs_levels] at hx
  exact pre_smaller P F n x ((bfs_perm_pre P F n).mem_iff.mp hx)

/-! ### (d) prune semantics -/

/-- a pruned position is still offered to the filter; nothing below it is produced (pre-order) -/
theorem preN_pruned (it : Item) (h : P it = true) :
    preN P F it.parent it.edge it.node = if F it then [it] else [] := by
  rw [preN_unfold]; simp [h]

/-- … post-order -/
theorem postN_pruned (it : Item) (h : P it = true) :
    postN P F it.parent it.edge it.node = if F it then [it] else [] := by
  rw [postN_unfold]; simp [h]

/-- … level order: a pruned position contributes nothing to the next level -/
theorem kidsOf_pruned (it : Item) (h : P it = true) : kidsOf P it = [] := by simp [kidsOf, h]

theorem nextLevel_pruned (lvl : List Item) (h : ∀ it ∈ lvl, P it = true) : nextLevel P lvl = [] := by
  induction lvl with
  | nil => rfl
  | cons it r ih =>
    rw [nextLevel_cons, kidsOf_pruned P it (h it (by simp)), ih (fun x hx => h x (by simp [hx]))]; rfl

/-- the queue loop of `bfs` on a pruned head: yield it (if the filter accepts), enqueue nothing -/
theorem bfsLoop_pruned (fuel : Nat) (it : Item) (q : List Item) (h : P it = true) :
    bfsLoop P F (fuel + 1) (it :: q) = (if F it then [it] else []) ++ bfsLoop P F fuel q := by
  by_cases hF : F it <;> simp [bfsLoop, h, hF]

/-- a not-pruned position: itself (if the filter accepts), then everything below it -/
theorem preN_not_pruned (it : Item) (h : P it = false) :
    preN P F it.parent it.edge it.node = (if F it then [it] else []) ++ preItems P F it.node.items := by
  rw [preN_unfold]; simp [h]

/-- a filtered-out position is skipped, descent is unaffected -/
theorem preN_filtered_out (it : Item) (h : F it = false) :
    preN P F it.parent it.edge it.node = if P it then [] else preItems P F it.node.items := by
  rw [preN_unfold]; simp [h]

/-- `Reach P its x`: the position `x` is a member of `its` or is stored in a position that is
reachable and **not pruned** -/
inductive Reach (its : List Item) : Item → Prop where
  | top {x : Item} : x ∈ its → Reach its x
  | down {y x : Item} : Reach its y → P y = false → x ∈ y.node.items → Reach its x

theorem Reach.mono {a b : List Item} (hab : ∀ x ∈ a, x ∈ b) {x : Item} (h : Reach P a x) :
    Reach P b x := by
  induction h with
  | top hx => exact .top (hab _ hx)
  | down _ hp hx ih => exact .down ih hp hx

theorem Reach.through {its : List Item} {it x : Item} (hit : Reach P its it) (hp : P it = false)
    (h : Reach P it.node.items x) : Reach P its x := by
  induction h with
  | top hx => exact .down hit hp hx
  | down _ hp' hx ih => exact .down ih hp' hx

theorem mem_preItems_self (its : List Item) (x : Item) (hx : x ∈ its) :
    x ∈ preItems P (fun _ => true) its := by
  simp only [preItems, List.mem_flatMap]
  exact ⟨x, hx, by rw [preN_unfold]; simp⟩

theorem preItems_closed (its : List Item) (y x : Item) (hy : y ∈ preItems P (fun _ => true) its)
    (hp : P y = false) (hx : x ∈ y.node.items) : x ∈ preItems P (fun _ => true) its := by
  induction its using items_induction with
  | nil => simp [preItems] at hy
  | cons it st ih1 ih2 =>
    rw [preItems_cons] at hy ⊢
    simp only [if_true, List.mem_append, List.mem_singleton] at hy ⊢
    rcases hy with (rfl | hy) | hy
    · left; right; simp only [hp, Bool.false_eq_true, if_false]
      exact mem_preItems_self P _ x hx
    · by_cases hP : P it
      · simp [hP] at hy
      · simp only [hP] at hy ⊢
        exact Or.inl (Or.inr (ih1 hy))
    · exact Or.inr (ih2 hy)

theorem reach_of_mem_preItems (its : List Item) (x : Item) (hx : x ∈ preItems P F its) :
    Reach P its x := by
  induction its using items_induction with
  | nil => simp [preItems] at hx
  | cons it st ih1 ih2 =>
    rw [preItems_cons] at hx
    simp only [List.mem_append] at hx
    rcases hx with (hx | hx) | hx
    · by_cases hF : F it
      · simp only [hF, if_true, List.mem_singleton] at hx; subst hx; exact .top (by simp)
      · simp [hF] at hx
    · by_cases hP : P it
      · simp [hP] at hx
      · simp only [hP] at hx
        exact Reach.through P (.top (by simp)) (by simpa using hP) (ih1 hx)
    · exact Reach.mono P (fun a ha => by simp [ha]) (ih2 hx)

theorem mem_preItems_of_reach (its : List Item) (x : Item) (hr : Reach P its x) :
    x ∈ preItems P (fun _ => true) its := by
  induction hr with
  | top hx => exact mem_preItems_self P its _ hx
  | down _ hp hx ih => exact preItems_closed P its _ _ ih hp hx

/-- **membership in the pre-order stream**: reachable through not-pruned positions, and accepted
by the filter (the position itself may be pruned; the filter plays no role in reachability) -/
theorem mem_preItems_iff (its : List Item) (x : Item) :
    x ∈ preItems P F its ↔ Reach P its x ∧ F x = true := by
  constructor
  · intro hx
    refine ⟨reach_of_mem_preItems P F its x hx, ?_⟩
    rw [preItems_filter] at hx
    exact (List.mem_filter.mp hx).2
  · rintro ⟨hr, hF⟩
    rw [preItems_filter]
    exact List.mem_filter.mpr ⟨mem_preItems_of_reach P its x hr, hF⟩

/-- `x` is yielded by `dfs(prune, filter)` iff it is reachable from the children of the start node
through not-pruned positions and the filter accepts it -/
theorem mem_pre_iff (n : Node) (x : Item) : x ∈ pre P F n ↔ Reach P n.items x ∧ F x = true := by
  rw [pre_eq_preItems]; exact mem_preItems_iff P F _ x

theorem mem_post_iff (n : Node) (x : Item) : x ∈ post P F n ↔ Reach P n.items x ∧ F x = true := by
  rw [(post_perm_pre P F n).mem_iff]; exact mem_pre_iff P F n x

theorem mem_bfs_iff (n : Node) (x : Item) : x ∈ bfs P F n ↔ Reach P n.items x ∧ F x = true := by
  rw [(bfs_perm_pre P F n).mem_iff]; exact mem_pre_iff P F n x

/-- the three implementation-shaped loops yield exactly the reachable, accepted positions -/
theorem mem_dfsImpl_iff (b : Bool) (n : Node) (x : Item) :
    x ∈ dfsImpl P F b n ↔ Reach P n.items x ∧ F x = true := by
  cases b
  · rw [dfs_top_down]; exact mem_pre_iff P F n x
  · rw [dfs_bottom_up]; exact mem_post_iff P F n x

theorem mem_bfsImpl_iff (n : Node) (x : Item) :
    x ∈ bfsImpl P F n ↔ Reach P n.items x ∧ F x = true := by
  rw [bfs_levels]; exact mem_bfs_iff P F n x

/-- nothing is reachable *through* a pruned position: from a pruned `it` only `it` itself -/
theorem reach_pruned (it x : Item) (h : P it = true) : Reach P [it] x ↔ x = it := by
  constructor
  · intro hr
    induction hr with
    | top hx => simpa using hx
    | down _ hp _ ih => subst ih; simp [h] at hp
  · rintro rfl; exact .top (by simp)

/-- whole-stream form: the stream below a pruned position is that position alone (if accepted) -/
theorem preItems_pruned (it : Item) (h : P it = true) :
    preItems P F [it] = if F it then [it] else [] := by
  rw [preItems_cons]; simp [h, preItems_nil]

/-- pruning more yields less: a stronger prune predicate yields a sub-stream's worth of positions -/
theorem reach_antitone (P' : Item → Bool) (hPP : ∀ it, P it = true → P' it = true)
    {its : List Item} {x : Item} (h : Reach P' its x) : Reach P its x := by
  induction h with
  | top hx => exact .top hx
  | down _ hp hx ih =>
    refine .down ih ?_ hx
    rename_i y _ _
    cases hy : P y
    · rfl
    · rw [hPP y hy] at hp; cases hp

/-- pruning more only removes positions, the order of the rest is unchanged (pre-order) -/
theorem preItems_sublist (P' : Item → Bool) (hPP : ∀ it, P it = true → P' it = true)
    (its : List Item) : (preItems P' F its).Sublist (preItems P F its) := by
  induction its using items_induction with
  | nil => exact List.Sublist.refl _
  | cons it st ih1 ih2 =>
    rw [preItems_cons, preItems_cons]
    refine List.Sublist.append (List.Sublist.append (List.Sublist.refl _) ?_) ih2
    by_cases hP : P it
    · simp [hP, hPP it hP]
    · by_cases hP' : P' it
      · simp [hP']
      · simpa [hP, hP'] using ih1

/-- `dfs(prune=P)` is a subsequence of `dfs()` (same filter): pruning cuts, never reorders or adds -/
theorem pre_sublist_noprune (n : Node) : (pre P F n).Sublist (pre (fun _ => false) F n) := by
  rw [pre_eq_preItems, pre_eq_preItems]
  exact preItems_sublist (fun _ => false) F P (by simp) _

theorem postItems_sublist (P' : Item → Bool) (hPP : ∀ it, P it = true → P' it = true)
    (its : List Item) : (postItems P' F its).Sublist (postItems P F its) := by
  induction its using items_induction with
  | nil => exact List.Sublist.refl _
  | cons it st ih1 ih2 =>
    rw [postItems_cons, postItems_cons]
    refine List.Sublist.append (List.Sublist.append ?_ (List.Sublist.refl _)) ih2
    by_cases hP : P it
    · simp [hP, hPP it hP]
    · by_cases hP' : P' it
      · simp [hP']
      · simpa [hP, hP'] using ih1

theorem post_sublist_noprune (n : Node) : (post P F n).Sublist (post (fun _ => false) F n) := by
  rw [post_eq_postItems, post_eq_postItems]
  exact postItems_sublist (fun _ => false) F P (by simp) _

/-! ### (e) exactly once -/

/-- the identity of a position: the parent *object*, the field and the index -/
def Item.key (it : Item) : Nat × Str × Option Nat := (it.parent.uid, it.edge.field, it.edge.idx)

/-- inside the node no two children are stored under the same (field, index) -/
def EdgesNodup (n : Node) : Prop := (n.edges.map (·.2)).Nodup

/-- … for every node of the tree -/
def WellKeyed (root : Node) : Prop := ∀ m ∈ allNodes root, EdgesNodup m

/-- all proper-descendant positions, pre-order (no prune, no filter) -/
def desc (n : Node) : List Item := pre (fun _ => false) (fun _ => true) n

theorem allNodes_eq (n : Node) : allNodes n = n :: (desc n).map (·.node) := by
  simp [allNodes, dfs_top_down, desc]

theorem desc_eq (n : Node) : desc n = n.items.flatMap (fun it => it :: desc it.node) := by
  unfold desc
  rw [pre_eq_preItems]
  unfold preItems
  congr 1
  funext it
  rw [preN_unfold, pre_eq_preItems]
  simp [preItems]

theorem desc_nodes_eq (n : Node) :
    (desc n).map (·.node) = n.items.flatMap (fun it => allNodes it.node) := by
  rw [desc_eq, List.map_flatMap]
  congr 1
  funext it
  rw [allNodes_eq]; rfl

theorem items_parent (n : Node) (it : Item) (h : it ∈ n.items) : it.parent = n := by
  simp only [Node.items, List.mem_map] at h
  obtain ⟨⟨c, e⟩, _, rfl⟩ := h
  rfl

theorem items_size (n : Node) (it : Item) (h : it ∈ n.items) : it.node.size < n.size := by
  have hw := weight_items n
  have : it.node.size ≤ weight n.items := by
    generalize n.items = l at h
    induction l with
    | nil => simp at h
    | cons a r ih =>
      simp only [List.mem_cons] at h
      rcases h with rfl | h
      · simp
      · have := ih h; simp; omega
  omega

theorem allNodes_child_sub (n : Node) (it : Item) (h : it ∈ n.items) (m : Node)
    (hm : m ∈ allNodes it.node) : m ∈ (desc n).map (·.node) := by
  rw [desc_nodes_eq]
  exact List.mem_flatMap.mpr ⟨it, h, hm⟩

/-- the parent recorded in a yielded position is the start node or a yielded node -/
theorem desc_parent_mem (n : Node) (x : Item) (hx : x ∈ desc n) : x.parent ∈ allNodes n := by
  generalize hk : n.size = k
  induction k using Nat.strongRecOn generalizing n x with
  | _ k ih =>
    rw [desc_eq] at hx
    obtain ⟨it, hit, hx⟩ := List.mem_flatMap.mp hx
    simp only [List.mem_cons] at hx
    rcases hx with rfl | hx
    · rw [items_parent n x hit, allNodes_eq]; simp
    · have := ih it.node.size (by have := items_size n it hit; omega) it.node x hx rfl
      rw [allNodes_eq]
      exact List.mem_cons_of_mem _ (allNodes_child_sub n it hit _ this)

theorem noRepeat_child (n : Node) (hR : NoRepeat n) (it : Item) (h : it ∈ n.items) :
    NoRepeat it.node := by
  unfold NoRepeat at hR ⊢
  rw [allNodes_eq, List.map_cons, List.nodup_cons, desc_nodes_eq, List.map_flatMap] at hR
  exact (List.pairwise_flatMap.mp hR.2).1 it h

theorem wellKeyed_child (n : Node) (hW : WellKeyed n) (it : Item) (h : it ∈ n.items) :
    WellKeyed it.node := by
  intro m hm
  apply hW m
  rw [allNodes_eq]
  exact List.mem_cons_of_mem _ (allNodes_child_sub n it h m hm)

/-- **exactly once**: in a tree without repeated objects whose nodes store at most one child per
(field, index), the positions yielded by an unpruned, unfiltered traversal are pairwise distinct
as (parent object, field, index) triples -/
theorem desc_keys_nodup (n : Node) (hR : NoRepeat n) (hW : WellKeyed n) :
    ((desc n).map Item.key).Nodup := by
  generalize hk : n.size = k
  induction k using Nat.strongRecOn generalizing n with
  | _ k ih =>
    -- no node below a child has the uid of `n`
    have hroot : ∀ it ∈ n.items, ∀ m ∈ allNodes it.node, m.uid ≠ n.uid := by
      intro it hit m hm heq
      unfold NoRepeat at hR
      rw [allNodes_eq, List.map_cons, List.nodup_cons] at hR
      exact hR.1 (List.mem_map.mpr ⟨m, allNodes_child_sub n it hit m hm, heq⟩)
    -- the uids below two different children are disjoint
    have hdisj : n.items.Pairwise (fun a b => ∀ u ∈ (allNodes a.node).map (·.uid),
        ∀ v ∈ (allNodes b.node).map (·.uid), u ≠ v) := by
      unfold NoRepeat at hR
      rw [allNodes_eq, List.map_cons, List.nodup_cons, desc_nodes_eq, List.map_flatMap] at hR
      exact (List.pairwise_flatMap.mp hR.2).2
    -- the edges of two different children differ
    have hedge : n.items.Pairwise (fun a b => a.edge ≠ b.edge) := by
      have := hW n (by rw [allNodes_eq]; simp)
      unfold EdgesNodup at this
      rw [List.Nodup, List.pairwise_map] at this
      simp only [Node.items, List.pairwise_map]
      exact this
    rw [desc_eq, List.map_flatMap]
    refine List.pairwise_flatMap.mpr ⟨?_, ?_⟩
    · intro it hit
      simp only [List.map_cons]
      refine List.nodup_cons.mpr ⟨?_, ?_⟩
      · intro hmem
        obtain ⟨x, hx, hkx⟩ := List.mem_map.mp hmem
        have hp := desc_parent_mem it.node x hx
        have h1 : x.parent.uid = it.parent.uid := congrArg (·.1) hkx
        rw [items_parent n it hit] at h1
        exact hroot it hit _ hp h1
      · exact ih it.node.size (by have := items_size n it hit; omega) it.node
          (noRepeat_child n hR it hit) (wellKeyed_child n hW it hit) rfl
    · refine List.Pairwise.imp_of_mem ?_ (hedge.and hdisj)
      intro a b ha hb ⟨hab, hd⟩ x hx y hy
      simp only [List.map_cons, List.mem_cons, List.mem_map] at hx hy
      have hpa := items_parent n a ha
      have hpb := items_parent n b hb
      rcases hx with rfl | ⟨x', hx', rfl⟩ <;> rcases hy with rfl | ⟨y', hy', rfl⟩
      · intro heq
        apply hab
        have h2 : a.edge.field = b.edge.field := congrArg (·.2.1) heq
        have h3 : a.edge.idx = b.edge.idx := congrArg (·.2.2) heq
        cases hae : a.edge; cases hbe : b.edge
        simp_all
      · intro heq
        have h1 : a.parent.uid = y'.parent.uid := congrArg (·.1) heq
        rw [hpa] at h1
        exact hroot b hb _ (desc_parent_mem b.node y' hy') h1.symm
      · intro heq
        have h1 : x'.parent.uid = b.parent.uid := congrArg (·.1) heq
        rw [hpb] at h1
        exact hroot a ha _ (desc_parent_mem a.node x' hx') h1
      · intro heq
        have h1 : x'.parent.uid = y'.parent.uid := congrArg (·.1) heq
        exact hd _ (List.mem_map.mpr ⟨_, desc_parent_mem a.node x' hx', rfl⟩)
          _ (List.mem_map.mpr ⟨_, desc_parent_mem b.node y' hy', rfl⟩) h1

/-- hence the positions themselves are pairwise distinct -/
theorem desc_nodup_positions (n : Node) (hR : NoRepeat n) (hW : WellKeyed n) :
    (desc n).Pairwise (fun a b => Item.key a ≠ Item.key b) := by
  have := desc_keys_nodup n hR hW
  rwa [List.Nodup, List.pairwise_map] at this

/-- with any prune and filter every order yields each position at most once … -/
theorem pre_keys_nodup (n : Node) (hR : NoRepeat n) (hW : WellKeyed n) :
    ((pre P F n).map Item.key).Nodup := by
  have h1 : (pre P F n).Sublist (desc n) := by
    rw [pre_filter]
    exact List.filter_sublist.trans (pre_sublist_noprune P _ n)
  exact List.Nodup.sublist (h1.map _) (desc_keys_nodup n hR hW)

theorem post_keys_nodup (n : Node) (hR : NoRepeat n) (hW : WellKeyed n) :
    ((post P F n).map Item.key).Nodup :=
  (((post_perm_pre P F n).map Item.key).nodup_iff).mpr (pre_keys_nodup P F n hR hW)

theorem bfs_keys_nodup (n : Node) (hR : NoRepeat n) (hW : WellKeyed n) :
    ((bfs P F n).map Item.key).Nodup :=
  (((bfs_perm_pre P F n).map Item.key).nodup_iff).mpr (pre_keys_nodup P F n hR hW)

/-- … on the implementation-shaped loops: no position is yielded twice, by any traversal -/
theorem dfsImpl_keys_nodup (b : Bool) (n : Node) (hR : NoRepeat n) (hW : WellKeyed n) :
    ((dfsImpl P F b n).map Item.key).Nodup := by
  cases b
  · rw [dfs_top_down]; exact pre_keys_nodup P F n hR hW
  · rw [dfs_bottom_up]; exact post_keys_nodup P F n hR hW

theorem bfsImpl_keys_nodup (n : Node) (hR : NoRepeat n) (hW : WellKeyed n) :
    ((bfsImpl P F n).map Item.key).Nodup := by
  rw [bfs_levels]; exact bfs_keys_nodup P F n hR hW

/-- … and, unpruned and unfiltered, every order yields `size - 1` positions: together with
`mem_…_iff` (each reachable position is yielded) this is "each proper-descendant position
exactly once" -/
theorem all_orders_length (n : Node) :
    (dfsImpl (fun _ => false) (fun _ => true) true n).length + 1 = n.size ∧
    (bfsImpl (fun _ => false) (fun _ => true) n).length + 1 = n.size := by
  have h := dfs_all_positions n
  exact ⟨by rw [(dfsImpl_bottom_up_perm _ _ n).length_eq]; exact h,
         by rw [(bfsImpl_perm _ _ n).length_eq]; exact h⟩

/-! #### (d), whole-stream form: nothing below a pruned position is visited -/

/-- `x` is a position strictly below the position `it` -/
def Below (it x : Item) : Prop := Reach (fun _ => false) it.node.items x

theorem below_iff (it x : Item) :
    Below it x ↔ x ∈ preItems (fun _ => false) (fun _ => true) it.node.items := by
  rw [mem_preItems_iff]; simp [Below]

/-- a position no not-pruned path leads to is yielded by no traversal -/
theorem unreachable_not_yielded (n : Node) (x : Item) (h : ¬ Reach P n.items x) (b : Bool) :
    x ∉ dfsImpl P F b n ∧ x ∉ bfsImpl P F n :=
  ⟨fun hx => h ((mem_dfsImpl_iff P F b n x).mp hx).1, fun hx => h ((mem_bfsImpl_iff P F n x).mp hx).1⟩

/-- the unpruned stream contains the whole block below a reached position `it`; pruning at `it`
removes exactly that block (and possibly more, elsewhere) -/
theorem split_at_pruned (its : List Item) (it : Item)
    (hit : it ∈ preItems P (fun _ => true) its) (hP : P it = true) :
    ∃ A C A' C', preItems (fun _ => false) (fun _ => true) its =
        A ++ it :: (preItems (fun _ => false) (fun _ => true) it.node.items ++ C) ∧
      preItems P (fun _ => true) its = A' ++ it :: C' ∧ A'.Sublist A ∧ C'.Sublist C := by
  induction its using items_induction with
  | nil => simp [preItems] at hit
  | cons h st ih1 ih2 =>
    have hsub : ∀ l, (preItems P (fun _ => true) l).Sublist (preItems (fun _ => false) (fun _ => true) l) :=
      fun l => preItems_sublist (fun _ => false) (fun _ => true) P (by simp) l
    have hif : (if P h then [] else preItems P (fun _ => true) h.node.items).Sublist
        (preItems (fun _ => false) (fun _ => true) h.node.items) := by
      by_cases hh : P h
      · simp [hh]
      · simpa [hh] using hsub _
    rw [preItems_cons] at hit
    simp only [if_true, List.mem_append, List.mem_singleton] at hit
    rcases hit with (rfl | hit) | hit
    · refine ⟨[], preItems _ _ st, [], preItems P _ st, ?_, ?_, List.Sublist.refl _, hsub st⟩
      · rw [preItems_cons]; simp
      · rw [preItems_cons]; simp [hP]
    · by_cases hh : P h
      · simp [hh] at hit
      · simp only [hh] at hit
        obtain ⟨A1, C1, A1', C1', e1, e2, s1, s2⟩ := ih1 hit
        refine ⟨h :: A1, C1 ++ preItems _ _ st, h :: A1', C1' ++ preItems P _ st, ?_, ?_,
          s1.cons_cons h, s2.append (hsub st)⟩
        · rw [preItems_cons, e1]; simp
        · rw [preItems_cons, e2]; simp [hh]
    · obtain ⟨A2, C2, A2', C2', e1, e2, s1, s2⟩ := ih2 hit
      refine ⟨h :: (preItems (fun _ => false) (fun _ => true) h.node.items ++ A2), C2,
        h :: ((if P h then [] else preItems P (fun _ => true) h.node.items) ++ A2'), C2', ?_, ?_,
        (hif.append s1).cons_cons h, s2⟩
      · rw [preItems_cons, e1]; simp
      · rw [preItems_cons, e2]; simp

/-- **a pruned position is offered to the filter, none of its descendants is visited** — by any of
the three traversals: in a tree without repeated objects (positions pairwise distinct), if the
traversal reaches `it` and `P it` holds, no position below `it` is yielded -/
theorem pruned_descendants_not_visited (n : Node) (hR : NoRepeat n) (hW : WellKeyed n)
    (it x : Item) (hit : Reach P n.items it) (hP : P it = true) (hx : Below it x) :
    Item.key x ∉ (pre P F n).map Item.key ∧ Item.key x ∉ (post P F n).map Item.key ∧
      Item.key x ∉ (bfs P F n).map Item.key := by
  have hpre : Item.key x ∉ (pre P F n).map Item.key := by
    have hit' : it ∈ preItems P (fun _ => true) n.items := mem_preItems_of_reach P _ _ hit
    obtain ⟨A, C, A', C', e1, e2, s1, s2⟩ := split_at_pruned P n.items it hit' hP
    have hnd := desc_keys_nodup n hR hW
    unfold desc at hnd
    rw [pre_eq_preItems, e1] at hnd
    have hxD := (below_iff it x).mp hx
    simp only [List.map_append, List.map_cons] at hnd
    rw [List.nodup_append] at hnd
    obtain ⟨_, hnd2, hA⟩ := hnd
    rw [List.nodup_cons, List.nodup_append] at hnd2
    obtain ⟨hne, _, _, hC⟩ := hnd2
    have hkD : Item.key x ∈ (preItems (fun _ => false) (fun _ => true) it.node.items).map Item.key :=
      List.mem_map_of_mem hxD
    intro hmem
    rw [pre_filter, pre_eq_preItems, e2] at hmem
    have hmem' : Item.key x ∈ (A' ++ it :: C').map Item.key :=
      (List.filter_sublist.map Item.key).subset hmem
    simp only [List.map_append, List.map_cons, List.mem_append, List.mem_cons] at hmem'
    rcases hmem' with h1 | h1 | h1
    · exact hA _ ((s1.map Item.key).subset h1) _ (by simp [hkD]) rfl
    · exact hne (by rw [← h1]; simp [hkD])
    · exact hC _ hkD _ ((s2.map Item.key).subset h1) rfl
  refine ⟨hpre, ?_, ?_⟩
  · intro h; exact hpre ((((post_perm_pre P F n).map Item.key).mem_iff).mp h)
  · intro h; exact hpre ((((bfs_perm_pre P F n).map Item.key).mem_iff).mp h)

/-- the same on the implementation-shaped loops -/
theorem pruned_descendants_not_visited_impl (n : Node) (hR : NoRepeat n) (hW : WellKeyed n)
    (it x : Item) (hit : it ∈ dfsImpl P (fun _ => true) false n) (hP : P it = true) (hx : Below it x)
    (b : Bool) :
    Item.key x ∉ (dfsImpl P F b n).map Item.key ∧ Item.key x ∉ (bfsImpl P F n).map Item.key := by
  have hr := ((mem_dfsImpl_iff P (fun _ => true) false n it).mp hit).1
  have := pruned_descendants_not_visited P F n hR hW it x hr hP hx
  rw [bfs_levels]
  cases b
  · rw [dfs_top_down]; exact ⟨this.1, this.2.2⟩
  · rw [dfs_bottom_up]; exact ⟨this.2.1, this.2.2⟩

/-! #### a sufficient condition for `WellKeyed`: class-table consistency -/

/-- child-field names pairwise distinct, a single (non-collection) field holds at most one node -/
structure KidsOK (n : Node) : Prop where
  nodup : (n.kids.map Kid.name).Nodup
  single : ∀ k ∈ n.kids, k.coll = false → k.nodes.length ≤ 1

theorem enumFrom_fst_ge {α : Type} (i : Nat) (l : List α) (p : Nat × α) (h : p ∈ enumFrom i l) :
    i ≤ p.1 := by
  induction l generalizing i with
  | nil => simp [enumFrom] at h
  | cons x r ih =>
    simp only [enumFrom, List.mem_cons] at h
    rcases h with rfl | h
    · exact Nat.le_refl _
    · have := ih (i + 1) h; omega

theorem enumFrom_edges_nodup (name : Str) (i : Nat) (ns : List Node) :
    ((enumFrom i ns).map fun p => (⟨name, some p.1⟩ : Edge)).Nodup := by
  induction ns generalizing i with
  | nil => simp [enumFrom]
  | cons x r ih =>
    simp only [enumFrom, List.map_cons]
    refine List.nodup_cons.mpr ⟨?_, ih (i + 1)⟩
    intro hmem
    obtain ⟨p, hp, heq⟩ := List.mem_map.mp hmem
    have := enumFrom_fst_ge (i + 1) r p hp
    simp only [Edge.mk.injEq, Option.some.injEq, true_and] at heq
    omega

theorem kid_edges_field (k : Kid) (c : Node) (e : Edge) (h : (c, e) ∈ k.edges) : e.field = k.name := by
  cases k with
  | mk name coll ns =>
    cases coll
    · simp only [Kid.edges, List.mem_map, Prod.mk.injEq] at h
      obtain ⟨_, _, _, rfl⟩ := h; rfl
    · simp only [Kid.edges, List.mem_map, Prod.mk.injEq] at h
      obtain ⟨_, _, _, rfl⟩ := h; rfl

theorem edgesNodup_of_kidsOK (n : Node) (h : KidsOK n) : EdgesNodup n := by
  unfold EdgesNodup Node.edges
  rw [List.map_flatMap]
  refine List.pairwise_flatMap.mpr ⟨?_, ?_⟩
  · intro k hk
    have hs := h.single k hk
    cases k with
    | mk name coll ns =>
      cases coll
      · have := hs rfl
        simp only [Kid.nodes] at this
        match ns, this with
        | [], _ => simp [Kid.edges]
        | [a], _ => simp [Kid.edges]
      · simp only [Kid.edges, List.map_map]
        exact enumFrom_edges_nodup name 0 ns
  · have := h.nodup
    rw [List.Nodup, List.pairwise_map] at this
    refine this.imp ?_
    intro k1 k2 hne x hx y hy heq
    obtain ⟨⟨c1, e1⟩, h1, rfl⟩ := List.mem_map.mp hx
    obtain ⟨⟨c2, e2⟩, h2, rfl⟩ := List.mem_map.mp hy
    have f1 := kid_edges_field k1 c1 e1 h1
    have f2 := kid_edges_field k2 c2 e2 h2
    simp only at heq
    subst heq
    exact hne (f1.symm.trans f2)

theorem wellKeyed_of_kidsOK (root : Node) (h : ∀ m ∈ allNodes root, KidsOK m) : WellKeyed root :=
  fun m hm => edgesNodup_of_kidsOK m (h m hm)

/-! ### non-vacuity -/

private def hd (u : Nat) (c : Str) : Head :=
  { uid := u, cls := c, mro := [c], org := ⟨0, []⟩, props := [], truthy := true }
private def leaf (u : Nat) : Node := .mk (hd u ['L']) []
private def mid : Node := .mk (hd 2 ['M']) [.mk ['x'] false [leaf 3], .mk ['y'] true [leaf 5, leaf 6]]
private def tree : Node := .mk (hd 0 ['R']) [.mk ['a'] true [leaf 1, mid], .mk ['b'] false [leaf 4]]

private def noP : Item → Bool := fun _ => false
private def allF : Item → Bool := fun _ => true
private def pr2 : Item → Bool := fun it => it.node.uid == 2
private def odd : Item → Bool := fun it => it.node.uid % 2 == 1

-- the three orders, same positions
example : (dfsImpl noP allF false tree).map (·.node.uid) = [1, 2, 3, 5, 6, 4] := by decide
example : (dfsImpl noP allF true tree).map (·.node.uid) = [1, 3, 5, 6, 2, 4] := by decide
example : (bfsImpl noP allF tree).map (·.node.uid) = [1, 2, 4, 3, 5, 6] := by decide
-- pruned at uid 2: the pruned node is yielded, nothing below it, in every order
example : (dfsImpl pr2 allF false tree).map (·.node.uid) = [1, 2, 4] := by decide
example : (dfsImpl pr2 allF true tree).map (·.node.uid) = [1, 2, 4] := by decide
example : (bfsImpl pr2 allF tree).map (·.node.uid) = [1, 2, 4] := by decide
-- filtered: uid 2 is skipped, its children are still visited
example : (dfsImpl noP odd false tree).map (·.node.uid) = [1, 3, 5] := by decide
example : (dfsImpl noP odd true tree).map (·.node.uid) = [1, 3, 5] := by decide
example : (bfsImpl noP odd tree).map (·.node.uid) = [1, 3, 5] := by decide
-- pruned and filtered out: neither the node nor anything below it
example : (dfsImpl pr2 odd false tree).map (·.node.uid) = [1] := by decide
-- the keys of the positions
example : (desc tree).map Item.key =
    [(0, ['a'], some 0), (0, ['a'], some 1), (2, ['x'], none), (2, ['y'], some 0),
     (2, ['y'], some 1), (0, ['b'], none)] := by decide
example : NoRepeat tree := by unfold NoRepeat; decide
example : ∀ m ∈ allNodes tree, (m.edges.map (·.2)).Nodup := by decide

-- the hypotheses of `pruned_descendants_not_visited` are satisfiable: prune at `mid` (uid 2),
-- which is reached; the position of `leaf 3` is below it
private def midPos : Item := ⟨mid, tree, ⟨['a'], some 1⟩⟩
private def leaf3Pos : Item := ⟨leaf 3, mid, ⟨['x'], none⟩⟩
example : Reach pr2 tree.items midPos := .top (List.Mem.tail _ (List.Mem.head _))
example : pr2 midPos = true := by decide
example : Below midPos leaf3Pos := .top (List.Mem.head _)
example : Item.key leaf3Pos ∉ (dfsImpl pr2 allF false tree).map Item.key := by decide
example : Item.key leaf3Pos ∈ (dfsImpl noP allF false tree).map Item.key := by decide

/-- `WellKeyed` is needed: two nodes in one single field share (parent, field, index) -/
private def twoInSingle : Node := .mk (hd 0 ['R']) [.mk ['x'] false [leaf 1, leaf 2]]
example : NoRepeat twoInSingle ∧ ¬ ((desc twoInSingle).map Item.key).Nodup := by
  unfold NoRepeat; decide

/-- `NoRepeat` is needed: the same object stored twice has its child position yielded twice -/
private def shared : Node := .mk (hd 0 ['R']) [.mk ['a'] true [mid, mid]]
example : (∀ m ∈ allNodes shared, (m.edges.map (·.2)).Nodup) ∧ ¬ ((desc shared).map Item.key).Nodup := by
  decide

#print axioms dfs_bottom_up_yield_sound
#print axioms bfs_yield_sound
#print axioms dfs_bottom_up_never_yields_start
#print axioms bfs_never_yields_start
#print axioms post_perm_pre
#print axioms bfs_perm_pre
#print axioms bfs_perm_post
#print axioms post_perm_pre_noprune
#print axioms bfs_perm_pre_noprune
#print axioms dfsImpl_bottom_up_perm
#print axioms bfsImpl_perm
#print axioms pre_filter
#print axioms post_filter
#print axioms bfs_filter
#print axioms dfsImpl_filter
#print axioms bfsImpl_filter
#print axioms preN_pruned
#print axioms postN_pruned
#print axioms bfsLoop_pruned
#print axioms nextLevel_pruned
#print axioms preItems_pruned
#print axioms reach_pruned
#print axioms mem_pre_iff
#print axioms mem_post_iff
#print axioms mem_bfs_iff
#print axioms mem_dfsImpl_iff
#print axioms mem_bfsImpl_iff
#print axioms pre_sublist_noprune
#print axioms post_sublist_noprune
#print axioms split_at_pruned
#print axioms pruned_descendants_not_visited
#print axioms pruned_descendants_not_visited_impl
#print axioms unreachable_not_yielded
#print axioms desc_keys_nodup
#print axioms dfsImpl_keys_nodup
#print axioms bfsImpl_keys_nodup
#print axioms all_orders_length
#print axioms wellKeyed_of_kidsOK

end C05X
end PyOak
