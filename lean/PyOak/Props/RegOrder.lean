/-
The heap of the registry machine is well-founded: every child was created before its parent, and
every harness variable refers to an object (`WF`, preserved by every admissible operation:
`wf_step`, `wf_run`).  Consequences:

* `descendants_complete`: the fuel `heap.length + 1` of the model's traversal `descendants`
  (`self.dfs()` inside `detach`) always suffices: it finds EVERY node below `x`
  (`C10X.Below`, the independent inductive reading).  With `C10X.descendants_sound`:
  `mem_descendants_iff`.
* `detach_unregisters_below`: after `x.detach()` neither `x` nor any node below `x` is returned
  by the registry — the "exactly as specified for detach" half of the C10 registry frame, no longer
  relative to the model's own fuelled traversal.
-/
import PyOak.Props.C10Extra
namespace PyOak
namespace RegOrd
open RState RegL C03 C10X

/-- children are created before their parents (positions in the heap) -/
def Ordered (s : RState) : Prop :=
  ∀ (i : Nat) (o : RObj), s.heap[i]? = some o → ∀ k ∈ o.kids, ∃ j, j < i ∧ (s.heap.map (·.uid))[j]? = some k

def RootsOk (s : RState) : Prop := ∀ r ∈ s.roots, r.2 ∈ s.heap.map (·.uid)

structure WF (s : RState) : Prop where
  ordered : Ordered s
  roots : RootsOk s

theorem wf_empty : WF {} := ⟨by intro i o h; simp at h, by intro r h; simp at h⟩

theorem mem_uids_idx {heap : List RObj} {k : Nat} (h : k ∈ heap.map (·.uid)) :
    ∃ j, j < heap.length ∧ (heap.map (·.uid))[j]? = some k := by
  obtain ⟨j, hj⟩ := List.mem_iff_getElem?.mp h
  refine ⟨j, ?_, hj⟩
  have := (List.getElem?_eq_some_iff.mp hj).1
  simpa using this

theorem ordered_kids_mem {s : RState} (h : Ordered s) {o : RObj} (ho : o ∈ s.heap) : ∀ k ∈ o.kids, k ∈ s.heap.map (·.uid) := by
  obtain ⟨i, hi⟩ := List.mem_iff_getElem?.mp ho
  intro k hk
  obtain ⟨j, _, hj⟩ := h i o hi k hk
  exact List.mem_iff_getElem?.mpr ⟨j, hj⟩

/-- live objects are objects -/
theorem live_mem {s : RState} (hI : Inv s) (hW : WF s) {u : Nat} (hl : s.isLive u = true) : u ∈ s.heap.map (·.uid) := by
  refine isLive_ind (s := s) (fun a => a ∈ s.heap.map (fun (o : RObj) => o.uid)) (fun r hr => hW.roots r hr) ?_ hl
  intro a ha b hb
  obtain ⟨o, ho, rfl⟩ := List.mem_map.mp ha
  rw [kidsOf_of_mem hI.heapNodup ho] at hb
  exact ordered_kids_mem hW.ordered ho b hb

theorem ordered_pNew {s : RState} (h : Ordered s) (tok : Nat) (cls : Str) (mro : List Str) (base : Str) {kids : List Nat}
    (hk : ∀ k ∈ kids, k ∈ s.heap.map (·.uid)) : Ordered (s.pNew tok cls mro base kids) := by
  intro i o hi k hko
  simp only [pNew] at hi ⊢
  by_cases hlt : i < s.heap.length
  · rw [List.getElem?_append_left hlt] at hi
    obtain ⟨j, hj, hjk⟩ := h i o hi k hko
    refine ⟨j, hj, ?_⟩
    rw [List.map_append, List.getElem?_append_left (by simp; omega)]
    exact hjk
  · have hge : s.heap.length ≤ i := by omega
    rw [List.getElem?_append_right hge] at hi
    have : i - s.heap.length = 0 := by
      by_cases e : i - s.heap.length = 0
      · exact e
      · have : ∃ m, i - s.heap.length = m + 1 := ⟨i - s.heap.length - 1, by omega⟩
        obtain ⟨m, hm⟩ := this
        rw [hm] at hi; simp at hi
    rw [this] at hi
    simp only [List.getElem?_cons_zero, Option.some.injEq] at hi
    subst hi
    obtain ⟨j, hj, hjk⟩ := mem_uids_idx (hk k hko)
    refine ⟨j, by omega, ?_⟩
    rw [List.map_append, List.getElem?_append_left (by simp; omega)]
    exact hjk

theorem ordered_pForceId {s : RState} (h : Ordered s) (u : Nat) (sid : Str) : Ordered (s.pForceId u sid) := by
  intro i o hi k hko
  have huids := pForceId_uids s u sid
  rw [huids]
  simp only [pForceId, List.getElem?_map] at hi
  cases ho : s.heap[i]? with
  | none => simp [ho] at hi
  | some o' =>
    simp only [ho, Option.map_some, Option.some.injEq] at hi
    have hk' : o'.kids = o.kids := by rw [← hi]; split <;> rfl
    exact h i o' ho k (hk' ▸ hko)

theorem ordered_of_heap {s s' : RState} (hh : s'.heap = s.heap) (h : Ordered s) : Ordered s' := by
  intro i o hi; rw [hh] at hi ⊢; exact h i o hi

theorem uids_pNew (s : RState) (tok : Nat) (cls : Str) (mro : List Str) (base : Str) (kids : List Nat) :
    (s.pNew tok cls mro base kids).heap.map (·.uid) = s.heap.map (·.uid) ++ [tok] := by
  simp [pNew]

/-! ### `duplicate` -/

theorem dupAux_ordered : ∀ (fuel : Nat) (s : RState) (x : Nat) (fresh : Fresh) (s' : RState) (u : Nat) (fr : Fresh),
    Ordered s → s.dupAux fuel x fresh = some (s', u, fr) →
    Ordered s' ∧ u ∈ s'.heap.map (·.uid) ∧ ∀ w ∈ s.heap.map (·.uid), w ∈ s'.heap.map (·.uid)
  | 0, s, x, fresh, s', u, fr, _, h => by simp [dupAux_zero] at h
  | fuel + 1, s, x, fresh, s', u, fr, hO, h => by
    obtain ⟨o, s1, ks, base, ho, hfold, rfl⟩ := dupAux_inv h
    have key : ∀ (kids : List Nat) (s0 : RState) (ks0 : List Nat) (f0 : Fresh) (res : RState × List Nat × Fresh),
        Ordered s0 → (∀ k ∈ ks0, k ∈ s0.heap.map (·.uid)) →
        dupFold fuel kids (some (s0, ks0, f0)) = some res →
        Ordered res.1 ∧ (∀ k ∈ res.2.1, k ∈ res.1.heap.map (·.uid)) ∧
        ∀ w ∈ s0.heap.map (·.uid), w ∈ res.1.heap.map (·.uid) := by
      intro kids
      induction kids with
      | nil =>
        intro s0 ks0 f0 res hO0 hk0 h
        simp [dupFold_nil] at h; subst h
        exact ⟨hO0, hk0, fun _ hw => hw⟩
      | cons c rest ih =>
        intro s0 ks0 f0 res hO0 hk0 h
        obtain ⟨s1, c', fr1, hdup, hr⟩ := dupFold_cons_inv h
        obtain ⟨hO1, hc', hext⟩ := dupAux_ordered fuel s0 c f0 s1 c' fr1 hO0 hdup
        have hk1 : ∀ k ∈ ks0 ++ [c'], k ∈ s1.heap.map (·.uid) := by
          intro k hk
          rcases List.mem_append.mp hk with hk | hk
          · exact hext k (hk0 k hk)
          · simp only [List.mem_singleton] at hk; subst hk; exact hc'
        obtain ⟨a1, a2, a3⟩ := ih s1 (ks0 ++ [c']) fr1 res hO1 hk1 hr
        exact ⟨a1, a2, fun w hw => a3 w (hext w hw)⟩
    obtain ⟨hO1, hks, hext⟩ := key o.kids s [] fresh _ hO (by intro k hk; simp at hk) hfold
    refine ⟨ordered_pNew hO1 _ _ _ _ hks, by rw [uids_pNew]; simp, ?_⟩
    intro w hw
    rw [uids_pNew]
    exact List.mem_append_left _ (hext w hw)

/-! ### `_deserialize` -/

mutual
theorem deserAux_ordered : ∀ (t : SerTree) (s : RState) (fresh : Fresh) (s' : RState) (r : Nat) (fr : Fresh),
    Inv s → FreshOk s fresh → Ordered s → s.deserAux t fresh = some (s', r, fr) →
    Ordered s' ∧ r ∈ s'.heap.map (·.uid) ∧ ∀ w ∈ s.heap.map (·.uid), w ∈ s'.heap.map (·.uid)
  | .mk sid cls mro kids, s, fresh, s', r, fr, hI, hf, hO, h => by
    rcases deserAux_inv h with ⟨hg, rfl, rfl⟩ | ⟨_, s1, ks, base, hk, rfl⟩
    · refine ⟨hO, ?_, fun _ hw => hw⟩
      obtain ⟨o, ho, h1, _⟩ := hI.regId _ _ (rget_some_mem hg)
      exact List.mem_map.mpr ⟨o, ho, h1⟩
    · obtain ⟨hO1, hks, hext⟩ := deserKids_ordered kids s fresh s1 ks _ hI hf hO hk
      have hO2 := ordered_pNew hO1 r cls mro base hks
      have hu2 := uids_pNew s1 r cls mro base ks
      split
      · refine ⟨hO2, by rw [hu2]; simp, ?_⟩
        intro w hw; rw [hu2]; exact List.mem_append_left _ (hext w hw)
      · refine ⟨ordered_pForceId hO2 _ _, by rw [pForceId_uids, hu2]; simp, ?_⟩
        intro w hw; rw [pForceId_uids, hu2]; exact List.mem_append_left _ (hext w hw)
theorem deserKids_ordered : ∀ (ts : List SerTree) (s : RState) (fresh : Fresh) (s' : RState) (us : List Nat) (fr : Fresh),
    Inv s → FreshOk s fresh → Ordered s → s.deserKids ts fresh = some (s', us, fr) →
    Ordered s' ∧ (∀ u ∈ us, u ∈ s'.heap.map (·.uid)) ∧ ∀ w ∈ s.heap.map (·.uid), w ∈ s'.heap.map (·.uid)
  | [], s, fresh, s', us, fr, _, _, hO, h => by
    simp [deserKids_nil] at h
    obtain ⟨rfl, rfl, _⟩ := h
    exact ⟨hO, by intro u hu; simp at hu, fun _ hw => hw⟩
  | t :: r, s, fresh, s', us, fr, hI, hf, hO, h => by
    obtain ⟨s1, u, fr1, us', ha, hk, rfl⟩ := deserKids_cons_inv h
    obtain ⟨hI1, hf1⟩ := evol_good (deserAux_evol t s fresh s1 u fr1 ha) hI hf
    obtain ⟨hO1, hu, hext1⟩ := deserAux_ordered t s fresh s1 u fr1 hI hf hO ha
    obtain ⟨hO2, hus, hext2⟩ := deserKids_ordered r s1 fr1 s' us' fr hI1 hf1 hO1 hk
    refine ⟨hO2, ?_, fun w hw => hext2 w (hext1 w hw)⟩
    intro w hw
    rcases List.mem_cons.mp hw with rfl | hw
    · exact hext2 _ hu
    · exact hus w hw
end

/-! ### every operation -/

theorem roots_bind {s : RState} (h : RootsOk s) {v u : Nat} (hu : u ∈ s.heap.map (·.uid)) : RootsOk (s.bind v u) := by
  intro r hr
  simp only [RState.bind, List.mem_append, List.mem_singleton] at hr
  rcases hr with hr | rfl
  · exact h r (List.mem_filter.mp hr).1
  · exact hu

theorem roots_ext {s s' : RState} (hr : s'.roots = s.roots) (hext : ∀ w ∈ s.heap.map (·.uid), w ∈ s'.heap.map (·.uid))
    (h : RootsOk s) : RootsOk s' := by
  intro r hr'; rw [hr] at hr'; exact hext _ (h r hr')

theorem wf_pNew_bind {s : RState} (hW : WF s) (tok : Nat) (cls : Str) (mro : List Str) (base : Str) {kids : List Nat}
    (hk : ∀ k ∈ kids, k ∈ s.heap.map (·.uid)) (v : Nat) : WF ((s.pNew tok cls mro base kids).bind v tok) := by
  refine ⟨ordered_of_heap (s := s.pNew tok cls mro base kids) rfl (ordered_pNew hW.ordered tok cls mro base hk), ?_⟩
  apply roots_bind
  · exact roots_ext (s := s) rfl (fun w hw => by rw [uids_pNew]; exact List.mem_append_left _ hw) hW.roots
  · rw [uids_pNew]; simp

theorem wf_of_same {s s' : RState} (hh : s'.heap = s.heap) (hr : s'.roots = s.roots) (h : WF s) : WF s' :=
  ⟨ordered_of_heap hh h.ordered, roots_ext hr (fun w hw => by rw [hh]; exact hw) h.roots⟩

theorem detachAll_roots : ∀ (us : List Nat) (s : RState), (detachAll s us).roots = s.roots
  | [], _ => rfl
  | c :: r, s => by rw [detachAll_cons, detachAll_roots r, pDetachSelf_fst_roots]

theorem wf_pre {s : RState} {op : ROp} {s1 : RState} (hI : Inv s) (hok : OpOk s op) (hW : WF s) (hp : Pre s op s1) :
    WF s1 := by
  have live_all : ∀ {kids : List Nat}, kids.all s.isLive = true → ∀ k ∈ kids, k ∈ s.heap.map (·.uid) :=
    fun hk k hk' => live_mem hI hW (List.all_eq_true.mp hk k hk')
  cases hp with
  | construct hk => exact wf_pNew_bind hW _ _ _ _ (live_all hk) _
  | @duplicate v x fresh s' u hx h =>
    obtain ⟨hO, hu, hext⟩ := dupAux_ordered _ _ _ _ _ _ _ hW.ordered h
    exact ⟨ordered_of_heap (s := s') rfl hO,
      roots_bind (roots_ext (dupAux_evol _ _ _ _ _ _ _ h).roots hext hW.roots) hu⟩
  | @duplicateD v x fresh s' u e fr hx h =>
    obtain ⟨hO, _, hext⟩ := dupAux_ordered _ _ _ _ _ _ _ hW.ordered h
    exact ⟨hO, roots_ext (dupAux_evol _ _ _ _ _ _ _ h).roots hext hW.roots⟩
  | dcReplace hx hk ho => exact wf_pNew_bind hW _ _ _ _ (live_all hk) _
  | @replaceFail v x kids hx hk =>
    apply wf_of_same _ _ hW
    · split
      · simp [pRestore, pDetachSelf_fst_heap]
      · simp [pDetachSelf_fst_heap]
    · split
      · simp [pRestore, pDetachSelf_fst_roots]
      · simp [pDetachSelf_fst_roots]
  | @replaceOk v x kids tok base o hx hk ho =>
    have hW1 : WF (s.pDetachSelf x).1 := wf_of_same (pDetachSelf_fst_heap s x) (pDetachSelf_fst_roots s x) hW
    exact wf_pNew_bind hW1 _ _ _ _ (by rw [pDetachSelf_fst_heap]; exact live_all hk) _
  | detach hx =>
    exact wf_of_same (by rw [detachAll_heap, pDetachSelf_fst_heap]) (by rw [detachAll_roots, pDetachSelf_fst_roots]) hW
  | detachSelf hx => exact wf_of_same (pDetachSelf_fst_heap _ _) (pDetachSelf_fst_roots _ _) hW
  | @asObj v t fresh s' u h =>
    obtain ⟨hO, hu, hext⟩ := deserAux_ordered _ _ _ _ _ _ hI hok hW.ordered h
    exact ⟨ordered_of_heap (s := s') rfl hO,
      roots_bind (roots_ext (deserAux_evol _ _ _ _ _ _ h).roots hext hW.roots) hu⟩
  | @asObjD v t fresh s' u e fr h =>
    obtain ⟨hO, _, hext⟩ := deserAux_ordered _ _ _ _ _ _ hI hok hW.ordered h
    exact ⟨hO, roots_ext (deserAux_evol _ _ _ _ _ _ h).roots hext hW.roots⟩
  | alias hu => exact ⟨ordered_of_heap (s := s) rfl hW.ordered, roots_bind hW.roots (live_mem hI hW hu)⟩
  | drop =>
    refine ⟨ordered_of_heap (s := s) rfl hW.ordered, ?_⟩
    intro r hr
    simp only [RState.unbind] at hr
    exact hW.roots r (List.mem_filter.mp hr).1

/-- well-foundedness of the heap is preserved by every admissible operation -/
theorem wf_step {s : RState} {op : ROp} (hI : Inv s) (hok : OpOk s op) (hW : WF s) : WF (s.step op).1 := by
  rcases step_shape s op with h | ⟨s1, hp, h⟩
  · rw [h]; exact hW
  · rw [h]; exact wf_of_same (s := s1) rfl rfl (wf_pre hI hok hW hp)

theorem wf_run_from : ∀ (ops : List ROp) (s : RState), Inv s → WF s → AllOk s ops → WF (run s ops)
  | [], _, _, hW, _ => hW
  | _ :: r, _, hI, hW, hok => wf_run_from r _ (inv_step hI hok.1) (wf_step hI hok.1 hW) hok.2

theorem wf_run (ops : List ROp) (hok : AllOk {} ops) : WF (run {} ops) := wf_run_from ops {} inv_empty wf_empty hok

/-! ### the fuel of `descendants` suffices -/

theorem below_head {s : RState} {x u : Nat} (h : Below s x u) : ∃ c ∈ s.kidsOf x, u = c ∨ Below s c u := by
  induction h with
  | @kid c hc => exact ⟨c, hc, Or.inl rfl⟩
  | @step a c _ hc ih =>
    obtain ⟨c0, hc0, h | h⟩ := ih
    · subst h; exact ⟨a, hc0, Or.inr (Below.kid hc)⟩
    · exact ⟨c0, hc0, Or.inr (Below.step h hc)⟩

theorem descendants_complete_aux {s : RState} (hnd : (s.heap.map (·.uid)).Nodup) (hO : Ordered s) :
    ∀ (fuel i : Nat) (o : RObj), s.heap[i]? = some o → i < fuel → ∀ u, Below s o.uid u → u ∈ s.descendants fuel o.uid
  | 0, i, _, _, hlt, _, _ => by omega
  | fuel + 1, i, o, hi, hlt, u, hb => by
    have hom : o ∈ s.heap := List.mem_iff_getElem?.mpr ⟨i, hi⟩
    obtain ⟨c, hc, h⟩ := below_head hb
    simp only [descendants, List.mem_flatMap, List.mem_cons]
    refine ⟨c, hc, ?_⟩
    rcases h with h | h
    · exact Or.inl h
    · right
      rw [kidsOf_of_mem hnd hom] at hc
      obtain ⟨j, hj, hjk⟩ := hO i o hi c hc
      rw [List.getElem?_map] at hjk
      cases hoc : s.heap[j]? with
      | none => simp [hoc] at hjk
      | some oc =>
        simp only [hoc, Option.map_some, Option.some.injEq] at hjk
        subst hjk
        exact descendants_complete_aux hnd hO fuel j oc hoc (by omega) u h

/-- **the fuel `heap.length + 1` always suffices**: the model's traversal finds every node below `x` -/
theorem descendants_complete {s : RState} (hI : Inv s) (hW : WF s) {x : Nat} (hx : x ∈ s.heap.map (·.uid)) :
    ∀ u, Below s x u → u ∈ s.descendants (s.heap.length + 1) x := by
  obtain ⟨o, ho, rfl⟩ := List.mem_map.mp hx
  obtain ⟨i, hi⟩ := List.mem_iff_getElem?.mp ho
  have hlt : i < s.heap.length := (List.getElem?_eq_some_iff.mp hi).1
  exact descendants_complete_aux hI.heapNodup hW.ordered _ i o hi (by omega)

theorem mem_descendants_iff {s : RState} (hI : Inv s) (hW : WF s) {x : Nat} (hx : x ∈ s.heap.map (·.uid)) (u : Nat) :
    u ∈ s.descendants (s.heap.length + 1) x ↔ Below s x u :=
  ⟨descendants_sound s _ x u, descendants_complete hI hW hx u⟩

/-- **`x.detach()`: neither `x` nor ANY node below `x` is returned by the registry afterwards** -/
theorem detach_unregisters_below {s : RState} (hI : Inv s) (hW : WF s) {x : Nat} (hx : s.isLive x = true) :
    ∀ u, u = x ∨ Below s x u → ∀ k, (s.step (.detach x)).1.getAny k ≠ some u := by
  intro u hu
  apply detach_unregisters hI hx u
  rcases hu with rfl | hu
  · simp
  · exact List.mem_cons_of_mem _ (descendants_complete hI hW (live_mem hI hW hx) u hu)

/-- the registry frame of `detach`, both directions, over the inductive reading of "below" -/
theorem detach_exact {s : RState} (hI : Inv s) (hW : WF s) {x : Nat} (hx : s.isLive x = true) (e : Str × Nat)
    (he : e ∈ s.reg) (hl : (s.step (.detach x)).1.isLive e.2 = true) :
    e ∈ (s.step (.detach x)).1.reg ↔ ¬ (e.2 = x ∨ Below s x e.2) := by
  constructor
  · intro hm hb
    have hI2 := inv_step hI (op := .detach x) (by simp [OpOk, opFresh, FreshOk])
    exact detach_unregisters_below hI hW hx e.2 hb e.1 (rget_of_mem hI2.keysNodup hm)
  · intro hn
    rcases reg_frame_detach hI x e he with h | h | h | h
    · exact h
    · rw [hl] at h; cases h
    · exact absurd (Or.inl h) hn
    · exact absurd (Or.inr h) hn

/-! ### non-vacuity -/

section Examples
private def A : Str := "A".toList
/-- 1, 2 = A(1), 3 = A(2, 1), 4 (unrelated twin of 1) -/
def hist : List ROp :=
  [ .construct 0 A [A] [] [(1, "a".toList)], .construct 1 A [A] [1] [(2, "b".toList)],
    .construct 2 A [A] [2, 1] [(3, "c".toList)], .construct 3 A [A] [] [(4, "a".toList)] ]
example : AllOk {} hist := by decide
example : WF (run {} hist) := wf_run hist (by decide)
example : Below (run {} hist) 3 1 := Below.step (a := 2) (Below.kid (by decide)) (by decide)
example : (run {} hist).isLive 3 = true ∧ (run {} hist).descendants ((run {} hist).heap.length + 1) 3 = [2, 1, 1] := by decide
example : ((run {} hist).step (.detach 3)).1.reg = [("a_1".toList, 4)] := by decide
end Examples

end RegOrd
end PyOak

#print axioms PyOak.RegOrd.wf_step
#print axioms PyOak.RegOrd.wf_run
#print axioms PyOak.RegOrd.descendants_complete
#print axioms PyOak.RegOrd.mem_descendants_iff
#print axioms PyOak.RegOrd.detach_unregisters_below
#print axioms PyOak.RegOrd.detach_exact
