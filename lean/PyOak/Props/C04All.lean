import PyOak.Props.C04
import PyOak.Props.C04Origin
import PyOak.Props.C04Value
import PyOak.Props.C04Ser
import PyOak.Props.C04RoundTrip
import PyOak.Props.C04Reach
