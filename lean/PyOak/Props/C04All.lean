import PyOak.Props.C04
import PyOak.Props.C04Origin
import PyOak.Props.C04Value
