/-
C01 — the digest pre-image of `content_id` is an injective encoding of the structural content.

`cid H n = H (cidInputOf …)` (Model/Encode.lean) and `canonN n` (Spec/Content.lean).  For every
injective digest `H` whose output contains no `':'`, and well-formed nodes,
    cid H a = cid H b  ↔  ContentEq a b          (`cid_eq_iff`)
    isEqual H a b      ↔  ContentEq a b          (`isEqual_iff`)
and the content id ignores uid / origin / truthy / mro / non-comparable properties
(`cid_ignores`), the content ids of children are all that matters about them (`cid_congr_kids`)
and the declaration order of fields is irrelevant (`cid_perm`).

Architecture: `dcOf H n : DC` ("digest content") is the class name, the name-sorted comparable
property triples and the name-sorted non-empty child fields with the list of child content ids.
  (A)  WFN n → cidInputOf … = (dcOf H n).render                (`cidInput_eq_render`)
  (B)  DC.render is injective on well-formed DCs                 (`DC.render_inj`, token framing)
  (C)  canonN n is the same shape with `canonN` of the children  (`canonN_eq`)
and a size induction transports "equal child cids" to "equal child canon" and back.
-/
import PyOak.Lemmas.Framing
namespace PyOak
namespace C01
open Framing

/-! ### the mutual list functions are maps -/

theorem canonKid_eq (k : Kid) : canonKid k = (k.name, k.nodes.map canonN) := by
  cases k with
  | mk name coll ns =>
    simp only [canonKid, Kid.name, Kid.nodes]
    congr 1
    induction ns with
    | nil => simp [canonNodes]
    | cons n r ih => simp [canonNodes, ih]

theorem canonKids_eq (ks : List Kid) : canonKids ks = ks.map canonKid := by
  induction ks with
  | nil => simp [canonKids]
  | cons k r ih => simp [canonKids, ih]

theorem cidKid_eq (H : Str → Str) (k : Kid) :
    cidKid H k = (k.name, k.coll, k.nodes.map (fun n => ⟨cid H n, n.org.fqn⟩)) := by
  cases k with
  | mk name coll ns =>
    simp only [cidKid, Kid.name, Kid.nodes, Kid.coll]
    congr 2
    induction ns with
    | nil => simp [cidNodes]
    | cons n r ih => simp [cidNodes, ih]

theorem cidKids_eq (H : Str → Str) (ks : List Kid) : cidKids H ks = ks.map (cidKid H) := by
  induction ks with
  | nil => simp [cidKids]
  | cons k r ih => simp [cidKids, ih]

theorem kidName_eq (k : Kid) : kidName k = k.name := by cases k; rfl

theorem kidNames_eq (ks : List Kid) : kidNames ks = ks.map Kid.name := by
  induction ks with
  | nil => simp [kidNames]
  | cons k r ih => simp [kidNames, ih, kidName_eq]

theorem nodesLen_eq (ns : List Node) : nodesLen ns = ns.length := by
  induction ns with
  | nil => simp [nodesLen]
  | cons n r ih => simp [nodesLen, ih]

theorem WFNodes_iff (ns : List Node) : WFNodes ns ↔ ∀ n ∈ ns, WFN n := by
  induction ns with
  | nil => simp [WFNodes]
  | cons n r ih => simp [WFNodes, ih]

theorem WFKid_iff (k : Kid) :
    WFKid k ↔ IdentLike k.name ∧ (k.coll = false → k.nodes.length ≤ 1) ∧ ∀ n ∈ k.nodes, WFN n := by
  cases k with
  | mk name coll ns => simp [WFKid, Kid.name, Kid.coll, Kid.nodes, nodesLen_eq, WFNodes_iff]

theorem WFKids_iff (ks : List Kid) : WFKids ks ↔ ∀ k ∈ ks, WFKid k := by
  induction ks with
  | nil => simp [WFKids]
  | cons k r ih => simp [WFKids, ih]

theorem size_lt_of_mem {h : Head} {ks : List Kid} {k : Kid} {x : Node}
    (hk : k ∈ ks) (hx : x ∈ k.nodes) : x.size < (Node.mk h ks).size := by
  have h1 : ∀ (ns : List Node), x ∈ ns → x.size ≤ nodesSize ns := by
    intro ns
    induction ns with
    | nil => simp
    | cons n r ih =>
      intro hm
      simp only [nodesSize]
      rcases List.mem_cons.mp hm with rfl | hm
      · omega
      · have := ih hm; omega
  have h2 : ∀ (ks : List Kid), k ∈ ks → k.size ≤ kidsSize ks := by
    intro ks
    induction ks with
    | nil => simp
    | cons n r ih =>
      intro hm
      simp only [kidsSize]
      rcases List.mem_cons.mp hm with rfl | hm
      · omega
      · have := ih hm; omega
  have h3 : x.size ≤ k.size := by
    cases k with
    | mk name coll ns => simpa [Kid.size] using h1 ns hx
  have := h2 ks hk
  simp only [Node.size]; omega

/-! ### digest content and its rendering -/

def triple (p : PropV) : Str × Str × Str := (p.name, p.ty, p.txt)

def propStr (t : Str × Str × Str) : Str :=
  ':' :: t.1 ++ '=' :: t.2.1 ++ '(' :: escText t.2.2 ++ [')']

def kidStr (k : Str × List Str) : Str :=
  (enumFrom 0 k.2).flatMap fun ic => ':' :: k.1 ++ '[' :: idxText (some ic.1) ++ ']' :: '=' :: ic.2

structure DC where
  cls : Str
  props : List (Str × Str × Str)
  kids : List (Str × List Str)

def DC.render (d : DC) : Str := d.cls ++ d.props.flatMap propStr ++ d.kids.flatMap kidStr

def neKid (k : Kid) : Bool := !k.nodes.isEmpty

/-- name-sorted non-empty child fields -/
def liveKids (ks : List Kid) : List Kid := (sortByName Kid.name ks).filter neKid

def dcOf (H : Str → Str) : Node → DC
  | .mk h ks => ⟨h.cls, (comparableSorted h).map triple,
      (liveKids ks).map fun k => (k.name, k.nodes.map (cid H))⟩

theorem propEntry_eq (p : PropV) : propEntry p = propStr (triple p) := rfl

theorem enumFrom_map {α β : Type} (f : α → β) : ∀ (i : Nat) (l : List α),
    enumFrom i (l.map f) = (enumFrom i l).map fun ic => (ic.1, f ic.2)
  | _, [] => by simp [enumFrom]
  | i, x :: r => by simp [enumFrom, enumFrom_map f (i + 1) r]

theorem enumFrom_map_snd {α : Type} : ∀ (i : Nat) (l : List α), (enumFrom i l).map (·.2) = l
  | _, [] => by simp [enumFrom]
  | i, x :: r => by simp [enumFrom, enumFrom_map_snd (i + 1) r]

theorem enumFrom_filterMap_some {α β : Type} (f : α → β) : ∀ (i : Nat) (l : List α),
    (enumFrom i l).filterMap (fun ic => some (f ic.2)) = l.map f
  | _, [] => by simp [enumFrom]
  | i, x :: r => by simp [enumFrom, enumFrom_filterMap_some f (i + 1) r]

theorem kidEntries_norm (name : Str) (coll : Bool) (ds : List KidDigest)
    (h : coll = false → ds.length ≤ 1) :
    kidEntries false (name, coll, ds) = kidStr (name, ds.map (·.cid)) := by
  cases coll with
  | true =>
    simp only [kidEntries, kidStr, enumFrom_map, List.flatMap_map]
    simp
  | false =>
    have := h rfl
    match ds, this with
    | [], _ => simp [kidEntries, kidStr, enumFrom]
    | [d], _ => simp [kidEntries, kidStr, enumFrom, idxText]
    | _ :: _ :: _, h => simp at h

theorem flatMap_filter_of_nil {α β : Type} (p : α → Bool) (g : α → List β)
    (h : ∀ x, p x = false → g x = []) : ∀ l : List α, l.flatMap g = (l.filter p).flatMap g
  | [] => by simp
  | x :: r => by
    cases hp : p x with
    | true => simp [hp, flatMap_filter_of_nil p g h r]
    | false => simp [hp, h x hp, flatMap_filter_of_nil p g h r]

theorem flatMap_congr' {α β : Type} (f g : α → List β) :
    ∀ l : List α, (∀ x ∈ l, f x = g x) → l.flatMap f = l.flatMap g
  | [], _ => by simp
  | x :: r, h => by
    simp only [List.flatMap_cons]
    rw [h x (by simp), flatMap_congr' f g r (fun y hy => h y (by simp [hy]))]

theorem mem_liveKids {ks : List Kid} {k : Kid} (h : k ∈ liveKids ks) : k ∈ ks ∧ k.nodes ≠ [] := by
  simp only [liveKids, List.mem_filter, sortByName, mem_sortBy, neKid] at h
  refine ⟨h.1, ?_⟩
  intro h0; simp [h0] at h

/-- (A) the pre-image is the rendering of the digest content -/
theorem cidInput_eq_render (H : Str → Str) (h : Head) (ks : List Kid) (hk : ∀ k ∈ ks, WFKid k) :
    cidInputOf h (cidKids H ks) = (dcOf H (.mk h ks)).render := by
  simp only [cidInputOf, DC.render, dcOf, cidKids_eq]
  congr 1
  · congr 1
    rw [List.flatMap_map]
    rfl
  · rw [sortByName_map (cidKid H) (·.1) Kid.name (by intro a; simp [cidKid_eq])]
    rw [List.flatMap_map, List.flatMap_map, liveKids]
    rw [← flatMap_filter_of_nil neKid]
    · apply flatMap_congr'
      intro k hk'
      have hk' : k ∈ ks := (mem_sortBy _ _ _).mp hk'
      have hw := (WFKid_iff k).mp (hk k hk')
      rw [cidKid_eq, kidEntries_norm _ _ _ (by simpa using hw.2.1)]
      simp [Function.comp_def]
    · intro k hk'
      simp only [neKid, Bool.not_eq_false', List.isEmpty_iff] at hk'
      simp [kidStr, hk', enumFrom]

/-- (C) the canonical content in the same shape -/
theorem canonN_eq (h : Head) (ks : List Kid) :
    canonN (.mk h ks) = .mk h.cls ((comparableSorted h).map triple) ((liveKids ks).map canonKid) := by
  simp only [canonN, canonKids_eq]
  congr 1
  rw [sortByName_map canonKid (·.1) Kid.name (by intro a; simp [canonKid_eq])]
  rw [List.filter_map, liveKids]
  congr 2
  funext k
  simp [neKid, canonKid_eq]

/-! ### (B) token framing -/

inductive Tok where
  | prop (t : Str × Str × Str)
  | kid (name idx cid : Str)

def Tok.render : Tok → Str
  | .prop t => propStr t
  | .kid n i c => ':' :: n ++ '[' :: i ++ ']' :: '=' :: c

def Tok.WF : Tok → Prop
  | .prop t => IdentLike t.1 ∧ ∀ c ∈ t.2.1, c ≠ '('
  | .kid n i c => IdentLike n ∧ (∀ x ∈ i, (x == ']') = false) ∧ ∀ x ∈ c, x ≠ ':'

def isColon (c : Char) : Bool := c == ':'

theorem Tok.render_cons (t : Tok) : ∃ r, t.render = ':' :: r := by
  cases t <;> simp [Tok.render, propStr]

theorem toks_closed (ts : List Tok) : Closed isColon (ts.flatMap Tok.render) := by
  cases ts with
  | nil => left; simp
  | cons t r =>
    right
    obtain ⟨x, hx⟩ := t.render_cons
    exact ⟨':', x ++ r.flatMap Tok.render, by simp [hx], rfl⟩

theorem no_colon_of_identLike {s : Str} (h : IdentLike s) : ∀ x ∈ s, isColon x = false := by
  intro x hx
  have := h.2 x hx
  simp only [isColon, beq_eq_false_iff_ne, ne_eq]
  rintro rfl
  revert this; decide

theorem tok_peel (t t' : Tok) (R R' : Str) (ht : t.WF) (ht' : t'.WF)
    (hR : Closed isColon R) (hR' : Closed isColon R')
    (h : t.render ++ R = t'.render ++ R') : t = t' ∧ R = R' := by
  cases t with
  | prop t =>
    obtain ⟨n, ty, x⟩ := t
    cases t' with
    | prop t' =>
      obtain ⟨n', ty', x'⟩ := t'
      simp only [Tok.render, propStr, List.cons_append, List.append_assoc, List.cons.injEq,
        true_and, List.nil_append] at h
      obtain ⟨rfl, -, h⟩ := split_unique (fun c => !isNameChar c) _ _ _ _ _ _
        (isNameChar_of_identLike ht.1) (isNameChar_of_identLike ht'.1) (by decide) (by decide) h
      obtain ⟨rfl, -, h⟩ := split_unique (fun c => c == '(') _ _ _ _ _ _
        (fun c hc => by simpa using ht.2 c hc) (fun c hc => by simpa using ht'.2 c hc)
        (by decide) (by decide) h
      obtain ⟨rfl, rfl⟩ := escText_delim _ _ _ _ h
      exact ⟨rfl, rfl⟩
    | kid n' i' c' =>
      exfalso
      simp only [Tok.render, propStr, List.cons_append, List.append_assoc, List.cons.injEq,
        true_and, List.nil_append] at h
      obtain ⟨-, h, -⟩ := split_unique (fun c => !isNameChar c) _ _ _ _ _ _
        (isNameChar_of_identLike ht.1) (isNameChar_of_identLike ht'.1) (by decide) (by decide) h
      revert h; decide
  | kid n i c =>
    cases t' with
    | prop t' =>
      obtain ⟨n', ty', x'⟩ := t'
      exfalso
      simp only [Tok.render, propStr, List.cons_append, List.append_assoc, List.cons.injEq,
        true_and, List.nil_append] at h
      obtain ⟨-, h, -⟩ := split_unique (fun c => !isNameChar c) _ _ _ _ _ _
        (isNameChar_of_identLike ht.1) (isNameChar_of_identLike ht'.1) (by decide) (by decide) h
      revert h; decide
    | kid n' i' c' =>
      simp only [Tok.render, List.cons_append, List.append_assoc, List.cons.injEq,
        true_and] at h
      obtain ⟨rfl, -, h⟩ := split_unique (fun c => !isNameChar c) _ _ _ _ _ _
        (isNameChar_of_identLike ht.1) (isNameChar_of_identLike ht'.1) (by decide) (by decide) h
      obtain ⟨rfl, -, h⟩ := split_unique (fun c => c == ']') _ _ _ _ _ _
        ht.2.1 ht'.2.1 (by decide) (by decide) h
      simp only [List.cons.injEq, true_and] at h
      obtain ⟨rfl, rfl⟩ := split_closed isColon _ _ _ _
        (fun x hx => by simpa [isColon] using ht.2.2 x hx)
        (fun x hx => by simpa [isColon] using ht'.2.2 x hx) hR hR' h
      exact ⟨rfl, rfl⟩

theorem toks_inj : ∀ (ts ts' : List Tok), (∀ t ∈ ts, t.WF) → (∀ t ∈ ts', t.WF) →
    ts.flatMap Tok.render = ts'.flatMap Tok.render → ts = ts'
  | [], [], _, _, _ => rfl
  | [], t :: r, _, _, h => by
    obtain ⟨x, hx⟩ := t.render_cons
    simp [hx] at h
  | t :: r, [], _, _, h => by
    obtain ⟨x, hx⟩ := t.render_cons
    simp [hx] at h
  | t :: r, t' :: r', hw, hw', h => by
    simp only [List.flatMap_cons] at h
    obtain ⟨rfl, h2⟩ := tok_peel t t' _ _ (hw t (by simp)) (hw' t' (by simp))
      (toks_closed r) (toks_closed r') h
    rw [toks_inj r r' (fun x hx => hw x (by simp [hx])) (fun x hx => hw' x (by simp [hx])) h2]

def DC.toks (d : DC) : List Tok :=
  d.props.map Tok.prop ++
    d.kids.flatMap fun k => (enumFrom 0 k.2).map fun ic => Tok.kid k.1 (idxText (some ic.1)) ic.2

theorem DC.render_eq (d : DC) : d.render = d.cls ++ d.toks.flatMap Tok.render := by
  simp only [DC.render, DC.toks, List.flatMap_append, List.append_assoc, List.flatMap_map]
  congr 2
  induction d.kids with
  | nil => simp
  | cons k r ih => simp [ih, kidStr, List.flatMap_map, Tok.render]

def getProp : Tok → Option (Str × Str × Str)
  | .prop t => some t
  | _ => none

def getKid : Tok → Option (Str × Str)
  | .kid n _ c => some (n, c)
  | _ => none

def flatKids (ks : List (Str × List Str)) : List (Str × Str) :=
  ks.flatMap fun k => k.2.map fun c => (k.1, c)

theorem DC.toks_getProp (d : DC) : d.toks.filterMap getProp = d.props := by
  simp only [DC.toks, List.filterMap_append, List.filterMap_map]
  have h1 : d.props.filterMap (getProp ∘ Tok.prop) = d.props := by
    induction d.props with
    | nil => simp
    | cons t r ih => simp [getProp, ih]
  rw [h1]
  have h2 : ∀ ks : List (Str × List Str), (ks.flatMap fun k => (enumFrom 0 k.2).map
      fun ic => Tok.kid k.1 (idxText (some ic.1)) ic.2).filterMap getProp = [] := by
    intro ks
    induction ks with
    | nil => simp
    | cons k r ih => simp [List.filterMap_append, ih, List.filterMap_map, Function.comp_def, getProp]
  rw [h2]; simp

theorem DC.toks_getKid (d : DC) : d.toks.filterMap getKid = flatKids d.kids := by
  simp only [DC.toks, List.filterMap_append, List.filterMap_map]
  have h1 : d.props.filterMap (getKid ∘ Tok.prop) = [] := by
    induction d.props with
    | nil => simp
    | cons t r ih => simp [getKid]
  rw [h1, List.nil_append, flatKids]
  induction d.kids with
  | nil => simp
  | cons k r ih =>
    simp only [List.flatMap_cons, List.filterMap_append, ih, List.filterMap_map]
    congr 1
    simp only [Function.comp_def, getKid]
    exact enumFrom_filterMap_some _ 0 k.2

/-- entries of one field are contiguous: a block of `n`-entries followed by entries of other names -/
theorem block_peel (n : Str) : ∀ (cs cs' : List Str) (X X' : List (Str × Str)),
    (∀ e ∈ X, e.1 ≠ n) → (∀ e ∈ X', e.1 ≠ n) →
    cs.map (fun c => (n, c)) ++ X = cs'.map (fun c => (n, c)) ++ X' → cs = cs' ∧ X = X'
  | [], [], _, _, _, _, h => by simpa using h
  | [], c' :: cs', X, X', hX, _, h => by
    exfalso
    simp only [List.map_nil, List.nil_append, List.map_cons, List.cons_append] at h
    exact hX (n, c') (by simp [h]) rfl
  | c :: cs, [], X, X', _, hX', h => by
    exfalso
    simp only [List.map_nil, List.nil_append, List.map_cons, List.cons_append] at h
    exact hX' (n, c) (by simp [← h]) rfl
  | c :: cs, c' :: cs', X, X', hX, hX', h => by
    simp only [List.map_cons, List.cons_append, List.cons.injEq, Prod.mk.injEq, true_and] at h
    obtain ⟨rfl, h⟩ := h
    obtain ⟨rfl, rfl⟩ := block_peel n cs cs' X X' hX hX' h
    exact ⟨rfl, rfl⟩

theorem mem_flatKids {ks : List (Str × List Str)} {e : Str × Str} (h : e ∈ flatKids ks) :
    e.1 ∈ ks.map (·.1) := by
  simp only [flatKids, List.mem_flatMap, List.mem_map] at h
  obtain ⟨k, hk, c, -, rfl⟩ := h
  exact List.mem_map.mpr ⟨k, hk, rfl⟩

theorem flatKids_inj : ∀ (ks ks' : List (Str × List Str)),
    (∀ k ∈ ks, k.2 ≠ []) → (∀ k ∈ ks', k.2 ≠ []) →
    (ks.map (·.1)).Nodup → (ks'.map (·.1)).Nodup → flatKids ks = flatKids ks' → ks = ks'
  | [], [], _, _, _, _, _ => rfl
  | [], (n, cs) :: r, _, hne, _, _, h => by
    exfalso
    have := hne (n, cs) (by simp)
    cases cs with
    | nil => exact this rfl
    | cons c cs => simp [flatKids] at h
  | (n, cs) :: r, [], hne, _, _, _, h => by
    exfalso
    have := hne (n, cs) (by simp)
    cases cs with
    | nil => exact this rfl
    | cons c cs => simp [flatKids] at h
  | (n, cs) :: r, (n', cs') :: r', hne, hne', hd, hd', h => by
    have h1 := hne (n, cs) (by simp)
    have h1' := hne' (n', cs') (by simp)
    cases cs with
    | nil => exact absurd rfl h1
    | cons c cs =>
    cases cs' with
    | nil => exact absurd rfl h1'
    | cons c' cs' =>
    have hh : flatKids ((n, c :: cs) :: r) = (c :: cs).map (fun c => (n, c)) ++ flatKids r := by
      simp [flatKids]
    have hh' : flatKids ((n', c' :: cs') :: r') = (c' :: cs').map (fun c => (n', c)) ++ flatKids r' := by
      simp [flatKids]
    rw [hh, hh'] at h
    have hn : n = n' := by
      simp only [List.map_cons, List.cons_append, List.cons.injEq, Prod.mk.injEq] at h
      exact h.1.1
    subst hn
    simp only [List.map_cons, List.nodup_cons] at hd hd'
    obtain ⟨h2, h3⟩ := block_peel n _ _ _ _
      (fun e he hen => hd.1 (hen ▸ mem_flatKids he))
      (fun e he hen => hd'.1 (hen ▸ mem_flatKids he)) h
    rw [h2, flatKids_inj r r' (fun k hk => hne k (by simp [hk])) (fun k hk => hne' k (by simp [hk]))
      hd.2 hd'.2 h3]

structure DC.WF (d : DC) : Prop where
  cls : IdentLike d.cls
  props : ∀ t ∈ d.props, IdentLike t.1 ∧ ∀ c ∈ t.2.1, c ≠ '('
  kids : ∀ k ∈ d.kids, IdentLike k.1 ∧ k.2 ≠ [] ∧ ∀ c ∈ k.2, ∀ x ∈ c, x ≠ ':'
  nodup : (d.kids.map (·.1)).Nodup

theorem DC.toks_WF {d : DC} (hd : d.WF) : ∀ t ∈ d.toks, t.WF := by
  intro t ht
  simp only [DC.toks, List.mem_append, List.mem_map, List.mem_flatMap] at ht
  rcases ht with ⟨p, hp, rfl⟩ | ⟨k, hk, ic, hic, rfl⟩
  · exact hd.props p hp
  · refine ⟨(hd.kids k hk).1, idxText_no_rbracket _, (hd.kids k hk).2.2 ic.2 ?_⟩
    rw [← enumFrom_map_snd 0 k.2]
    exact List.mem_map.mpr ⟨ic, hic, rfl⟩

/-- (B) the rendering is injective on well-formed digest contents -/
theorem DC.render_inj {d d' : DC} (hd : d.WF) (hd' : d'.WF) (h : d.render = d'.render) : d = d' := by
  rw [DC.render_eq, DC.render_eq] at h
  obtain ⟨hc, ht⟩ := split_closed isColon _ _ _ _ (no_colon_of_identLike hd.cls)
    (no_colon_of_identLike hd'.cls) (toks_closed _) (toks_closed _) h
  have ht := toks_inj _ _ (DC.toks_WF hd) (DC.toks_WF hd') ht
  have hp : d.props = d'.props := by rw [← DC.toks_getProp, ht, DC.toks_getProp]
  have hk : flatKids d.kids = flatKids d'.kids := by rw [← DC.toks_getKid, ht, DC.toks_getKid]
  have hk := flatKids_inj _ _ (fun k hk => (hd.kids k hk).2.1) (fun k hk => (hd'.kids k hk).2.1)
    hd.nodup hd'.nodup hk
  cases d; cases d'; simp_all

/-! ### main theorems -/

theorem WFN_iff (h : Head) (ks : List Kid) :
    WFN (.mk h ks) ↔ IdentLike h.cls ∧ (∀ p ∈ h.props, IdentLike p.name ∧ ∀ c ∈ p.ty, c ≠ '(') ∧
      (h.props.map (·.name)).Nodup ∧ (∀ k ∈ ks, WFKid k) ∧ (ks.map Kid.name).Nodup := by
  simp only [WFN, WFKids_iff, kidNames_eq]

theorem cid_mk (H : Str → Str) (h : Head) (ks : List Kid) :
    cid H (.mk h ks) = H (cidInputOf h (cidKids H ks)) := by simp only [cid]

theorem liveKids_nodup {ks : List Kid} (h : (ks.map Kid.name).Nodup) :
    ((liveKids ks).map Kid.name).Nodup := by
  have h1 : ((sortByName Kid.name ks).map Kid.name).Nodup :=
    ((sortBy_perm _ ks).map Kid.name).nodup_iff.mpr h
  exact h1.sublist (List.Sublist.map _ List.filter_sublist)

theorem dcOf_WF (H : Str → Str) (hsep : ∀ s, ∀ c ∈ H s, c ≠ ':') (h : Head) (ks : List Kid)
    (hw : WFN (.mk h ks)) : (dcOf H (.mk h ks)).WF := by
  obtain ⟨h1, h2, -, h4, h5⟩ := (WFN_iff h ks).mp hw
  refine ⟨h1, ?_, ?_, ?_⟩
  · intro t ht
    simp only [dcOf, List.mem_map, comparableSorted, sortByName, mem_sortBy, List.mem_filter] at ht
    obtain ⟨p, ⟨hp, -⟩, rfl⟩ := ht
    exact h2 p hp
  · intro k' hk'
    simp only [dcOf, List.mem_map] at hk'
    obtain ⟨k, hk, rfl⟩ := hk'
    obtain ⟨hk1, hk2⟩ := mem_liveKids hk
    refine ⟨((WFKid_iff k).mp (h4 k hk1)).1, by simpa using hk2, ?_⟩
    intro c hc
    simp only [List.mem_map] at hc
    obtain ⟨x, -, rfl⟩ := hc
    cases x with
    | mk hx kx => rw [cid_mk]; exact hsep _
  · simp only [dcOf, List.map_map]
    exact liveKids_nodup h5

theorem map_eq_map_iff_of {α β γ : Type} (f : α → β) (g : α → γ) :
    ∀ (xs ys : List α), (∀ x ∈ xs, ∀ y ∈ ys, (f x = f y ↔ g x = g y)) →
      (xs.map f = ys.map f ↔ xs.map g = ys.map g)
  | [], [], _ => by simp
  | [], _ :: _, _ => by simp
  | _ :: _, [], _ => by simp
  | x :: xs, y :: ys, h => by
    simp only [List.map_cons, List.cons.injEq]
    rw [h x (by simp) y (by simp),
      map_eq_map_iff_of f g xs ys (fun a ha b hb => h a (by simp [ha]) b (by simp [hb]))]

theorem cid_eq_iff_aux (H : Str → Str) (hinj : Function.Injective H)
    (hsep : ∀ s, ∀ c ∈ H s, c ≠ ':') :
    ∀ (n : Nat) (a b : Node), a.size ≤ n → WFN a → WFN b →
      (cid H a = cid H b ↔ canonN a = canonN b) := by
  intro n
  induction n with
  | zero => intro a b hs; have := a.size_pos; omega
  | succ n ih =>
    intro a b hs ha hb
    cases a with
    | mk h ks =>
    cases b with
    | mk h' ks' =>
    obtain ⟨-, -, -, ha4, -⟩ := (WFN_iff h ks).mp ha
    obtain ⟨-, -, -, hb4, -⟩ := (WFN_iff h' ks').mp hb
    rw [cid_mk, cid_mk, hinj.eq_iff, cidInput_eq_render H h ks ha4, cidInput_eq_render H h' ks' hb4]
    have hB : (dcOf H (.mk h ks)).render = (dcOf H (.mk h' ks')).render ↔
        dcOf H (.mk h ks) = dcOf H (.mk h' ks') :=
      ⟨DC.render_inj (dcOf_WF H hsep h ks ha) (dcOf_WF H hsep h' ks' hb), fun e => by rw [e]⟩
    rw [hB, canonN_eq, canonN_eq]
    simp only [dcOf, DC.mk.injEq, Canon.mk.injEq]
    have hK : ((liveKids ks).map fun k => (k.name, k.nodes.map (cid H))) =
          ((liveKids ks').map fun k => (k.name, k.nodes.map (cid H))) ↔
        (liveKids ks).map canonKid = (liveKids ks').map canonKid := by
      apply map_eq_map_iff_of
      intro k hk k' hk'
      have hk := (mem_liveKids hk).1
      have hk' := (mem_liveKids hk').1
      simp only [canonKid_eq, Prod.mk.injEq]
      have : k.nodes.map (cid H) = k'.nodes.map (cid H) ↔ k.nodes.map canonN = k'.nodes.map canonN := by
        apply map_eq_map_iff_of
        intro x hx y hy
        have hsz := size_lt_of_mem (h := h) hk hx
        exact ih x y (by omega) (((WFKid_iff k).mp (ha4 k hk)).2.2 x hx)
          (((WFKid_iff k').mp (hb4 k' hk')).2.2 y hy)
      rw [this]
    rw [hK]

/-- equal content ids ⇔ equal structural content -/
theorem cid_eq_iff (H : Str → Str) (hinj : Function.Injective H) (hsep : ∀ s, ∀ c ∈ H s, c ≠ ':')
    (a b : Node) (ha : WFN a) (hb : WFN b) : cid H a = cid H b ↔ ContentEq a b :=
  cid_eq_iff_aux H hinj hsep a.size a b (Nat.le_refl _) ha hb

theorem canon_cls (a : Node) : ∃ p k, canonN a = .mk a.cls p k := by
  cases a with
  | mk h ks => exact ⟨_, _, by simp only [canonN]; rfl⟩

theorem isEqual_iff (H : Str → Str) (hinj : Function.Injective H) (hsep : ∀ s, ∀ c ∈ H s, c ≠ ':')
    (a b : Node) (ha : WFN a) (hb : WFN b) : isEqual H a b = true ↔ ContentEq a b := by
  rw [← cid_eq_iff H hinj hsep a b ha hb]
  simp only [isEqual, Bool.and_eq_true, beq_iff_eq, and_iff_right_iff_imp]
  intro hc
  have := (cid_eq_iff H hinj hsep a b ha hb).mp hc
  obtain ⟨p, k, e⟩ := canon_cls a
  obtain ⟨p', k', e'⟩ := canon_cls b
  rw [ContentEq, e, e'] at this
  simp only [Canon.mk.injEq] at this
  exact this.1

/-! ### what the content id ignores -/

/-- uid, origin, truthy, mro and non-comparable properties never influence the content id -/
theorem cid_ignores (H : Str → Str) (h h' : Head) (ks : List Kid) (hcls : h.cls = h'.cls)
    (hprops : h.props.filter (·.compare) = h'.props.filter (·.compare)) :
    cid H (.mk h ks) = cid H (.mk h' ks) := by
  simp only [cid_mk, cidInputOf, comparableSorted, hcls, hprops]

/-- all that a child field contributes: name, is_collection, content ids of the children -/
def kidKey (H : Str → Str) (k : Kid) : Str × Bool × List Str := (k.name, k.coll, k.nodes.map (cid H))

def keyEntries (k : Str × Bool × List Str) : Str :=
  let render (i : Option Nat) (c : Str) : Str := ':' :: k.1 ++ '[' :: idxText i ++ ']' :: '=' :: c
  if k.2.1 then (enumFrom 0 k.2.2).flatMap (fun ic => render (some ic.1) ic.2)
  else k.2.2.flatMap (render none)

theorem kidEntries_key (H : Str → Str) (k : Kid) :
    kidEntries false (cidKid H k) = keyEntries (kidKey H k) := by
  rw [cidKid_eq]
  simp only [kidEntries, keyEntries, kidKey, enumFrom_map, List.flatMap_map]
  cases k.coll <;> simp

/-- the pre-image depends on the children only through `kidKey` -/
theorem cidInput_eq_keys (H : Str → Str) (h : Head) (ks : List Kid) :
    cidInputOf h (cidKids H ks) =
      h.cls ++ (comparableSorted h).flatMap propEntry ++
        (sortByName (·.1) (ks.map (kidKey H))).flatMap keyEntries := by
  simp only [cidInputOf, cidKids_eq]
  congr 1
  rw [sortByName_map (cidKid H) (·.1) Kid.name (by intro a; simp [cidKid_eq]),
    sortByName_map (kidKey H) (·.1) Kid.name (by intro a; simp [kidKey]),
    List.flatMap_map, List.flatMap_map]
  apply flatMap_congr'
  intro k _
  exact kidEntries_key H k

/-- the children matter only through their content ids (in particular not through their
origins, uids, … and not through anything below them that their content id does not see) -/
theorem cid_congr_kids (H : Str → Str) (h : Head) (ks ks' : List Kid)
    (hk : ks.map (kidKey H) = ks'.map (kidKey H)) : cid H (.mk h ks) = cid H (.mk h ks') := by
  rw [cid_mk, cid_mk, cidInput_eq_keys, cidInput_eq_keys, hk]

/-- replacing one child by a node with the same content id leaves the parent's content id unchanged -/
theorem cid_replace_child (H : Str → Str) (h : Head) (pre post : List Kid) (name : Str) (coll : Bool)
    (l r : List Node) (x y : Node) (hxy : cid H x = cid H y) :
    cid H (.mk h (pre ++ Kid.mk name coll (l ++ x :: r) :: post)) =
      cid H (.mk h (pre ++ Kid.mk name coll (l ++ y :: r) :: post)) := by
  apply cid_congr_kids
  simp [kidKey, Kid.name, Kid.coll, Kid.nodes, hxy]

/-! ### declaration order never matters -/

theorem cid_perm (H : Str → Str) (h h' : Head) (ks ks' : List Kid) (hcls : h.cls = h'.cls)
    (hp : List.Perm h.props h'.props) (hk : List.Perm ks ks')
    (hnd : (h.props.map (·.name)).Nodup) (hkd : (ks.map Kid.name).Nodup) :
    cid H (.mk h ks) = cid H (.mk h' ks') := by
  have h1 : comparableSorted h = comparableSorted h' := by
    unfold comparableSorted
    apply sortByName_eq_of_perm _ (hp.filter _)
    exact hnd.sublist (List.Sublist.map _ List.filter_sublist)
  have h2 : sortByName (·.1) (cidKids H ks) = sortByName (·.1) (cidKids H ks') := by
    rw [cidKids_eq, cidKids_eq]
    apply sortByName_eq_of_perm _ (hk.map _)
    rw [List.map_map]
    have : ((fun x : KidD => x.1) ∘ cidKid H) = Kid.name := by funext k; simp [cidKid_eq]
    rw [this]; exact hkd
  simp only [cid_mk, cidInputOf, hcls, h1, h2]

/-- the structural content is invariant under the same permutations -/
theorem canon_perm (h h' : Head) (ks ks' : List Kid) (hcls : h.cls = h'.cls)
    (hp : List.Perm h.props h'.props) (hk : List.Perm ks ks')
    (hnd : (h.props.map (·.name)).Nodup) (hkd : (ks.map Kid.name).Nodup) :
    ContentEq (.mk h ks) (.mk h' ks') := by
  have h1 : comparableSorted h = comparableSorted h' := by
    unfold comparableSorted
    apply sortByName_eq_of_perm _ (hp.filter _)
    exact hnd.sublist (List.Sublist.map _ List.filter_sublist)
  have h2 : liveKids ks = liveKids ks' := by
    unfold liveKids
    rw [sortByName_eq_of_perm Kid.name hk hkd]
  rw [ContentEq, canonN_eq, canonN_eq, hcls, h1, h2]

/-! ### non-vacuity: the hypotheses on `H` are satisfiable, and concrete nodes -/

/-- an injective "digest" without `':'` in its output: `':' ↦ "%1"`, `'%' ↦ "%0"` -/
def Hesc : Str → Str
  | [] => []
  | c :: r => if c = ':' then '%' :: '1' :: Hesc r
              else if c = '%' then '%' :: '0' :: Hesc r
              else c :: Hesc r

theorem Hesc_no_colon : ∀ s, ∀ c ∈ Hesc s, c ≠ ':'
  | [], c, hc => by simp [Hesc] at hc
  | x :: r, c, hc => by
    simp only [Hesc] at hc
    split at hc
    · simp only [List.mem_cons] at hc
      rcases hc with rfl | rfl | hc
      · decide
      · decide
      · exact Hesc_no_colon r c hc
    · split at hc
      · simp only [List.mem_cons] at hc
        rcases hc with rfl | rfl | hc
        · decide
        · decide
        · exact Hesc_no_colon r c hc
      · simp only [List.mem_cons] at hc
        rcases hc with rfl | hc
        · assumption
        · exact Hesc_no_colon r c hc

theorem Hesc_injective : Function.Injective Hesc := by
  intro s
  induction s with
  | nil =>
    intro t h
    cases t with
    | nil => rfl
    | cons c' t =>
      simp only [Hesc] at h
      split at h
      · simp at h
      · split at h <;> simp at h
  | cons c s ih =>
    intro t h
    cases t with
    | nil =>
      simp only [Hesc] at h
      split at h
      · simp at h
      · split at h <;> simp at h
    | cons c' t =>
      simp only [Hesc] at h
      by_cases h1 : c = ':'
      · by_cases h1' : c' = ':'
        · subst h1 h1'; simp at h; rw [ih h]
        · exfalso
          by_cases h2' : c' = '%'
          · subst h1 h2'; simp at h
          · subst h1; simp [h1', h2'] at h; exact h2' h.1.symm
      · by_cases h2 : c = '%'
        · by_cases h1' : c' = ':'
          · exfalso; subst h2 h1'; simp at h
          · by_cases h2' : c' = '%'
            · subst h2 h2'; simp at h; rw [ih h]
            · exfalso; subst h2; simp [h1', h2'] at h; exact h2' h.1.symm
        · by_cases h1' : c' = ':'
          · exfalso; subst h1'; simp [h1, h2] at h
          · by_cases h2' : c' = '%'
            · exfalso; subst h2'; simp [h1, h2] at h
            · simp [h1, h2, h1', h2'] at h
              rw [h.1, ih h.2]

namespace Demo

def leaf (uid : Nat) (cls : Str) (o : Org) : Node :=
  .mk ⟨uid, cls, [cls, ['o']], o, [], true⟩ []

def props (v : Str) : List PropV :=
  [ ⟨['v'], ['s', 't', 'r'], v, .str v, true, true⟩,
    ⟨['m'], ['i', 'n', 't'], ['7'], .int 7, false, true⟩ ]   -- compare=False

/-- class `P`, property `v`, tuple field `xs` (two children), optional child `o` present,
optional child `z` absent; declared in the order xs, z, o -/
def mkP (uid : Nat) (o : Org) (m : List PropV) (c3 : Node) : Node :=
  .mk ⟨uid, ['P'], [['P'], ['o']], o, m, true⟩
    [ .mk ['x', 's'] true [leaf 11 ['A'] o, leaf 12 ['B'] o],
      .mk ['z'] false [],
      .mk ['o'] false [c3] ]

def o1 : Org := ⟨1, ['f', '1']⟩
def o2 : Org := ⟨2, ['f', '2']⟩
def txt : Str := ['a', ')', '\\', ':', 'b']

def n1 : Node := mkP 1 o1 (props txt) (leaf 13 ['A'] o1)
/-- same content, other uid / origin / non-comparable property value / truthiness -/
def n2 : Node :=
  .mk ⟨2, ['P'], [['P'], ['Q'], ['o']], o2,
      [ ⟨['v'], ['s', 't', 'r'], txt, .none, true, false⟩,
        ⟨['m'], ['i', 'n', 't'], ['8'], .int 8, false, true⟩ ], false⟩
    [ .mk ['x', 's'] true [leaf 21 ['A'] o2, leaf 22 ['B'] o2],
      .mk ['z'] false [],
      .mk ['o'] false [leaf 23 ['A'] o2] ]
/-- differs from `n1` in the optional child -/
def n3 : Node := mkP 1 o1 (props txt) (leaf 13 ['B'] o1)
/-- differs from `n1` in the property text -/
def n4 : Node := mkP 1 o1 (props ['a']) (leaf 13 ['A'] o1)

theorem wf_leaf (uid : Nat) (o : Org) : WFN (leaf uid ['A'] o) ∧ WFN (leaf uid ['B'] o) := by
  simp [leaf, WFN_iff, IdentLike]; decide

theorem wf_n1 : WFN n1 := by
  simp [n1, mkP, props, WFN_iff, WFKid_iff, IdentLike, Kid.name, Kid.coll, Kid.nodes, wf_leaf]
  decide

theorem wf_n2 : WFN n2 := by
  simp [n2, WFN_iff, WFKid_iff, IdentLike, Kid.name, Kid.coll, Kid.nodes, wf_leaf]
  decide

theorem wf_n3 : WFN n3 := by
  simp [n3, mkP, props, WFN_iff, WFKid_iff, IdentLike, Kid.name, Kid.coll, Kid.nodes, wf_leaf]
  decide

-- the pre-image of n1 is  P:v=str(a\)\\:b):o[-1]=A:xs[-1]=A:xs[1]=B  (':' rendered %1 by Hesc)
example : cid Hesc n1 =
    "P%1v=str(a\\)\\\\%1b)%1o[-1]=A%1xs[-1]=A%1xs[1]=B".toList := by decide

-- direct evaluation
example : cid Hesc n1 = cid Hesc n2 := by decide
example : cid Hesc n1 ≠ cid Hesc n3 := by decide
example : cid Hesc n1 ≠ cid Hesc n4 := by decide

-- the same facts through the theorems (so their hypotheses are jointly satisfiable)
example : ContentEq n1 n2 :=
  (cid_eq_iff Hesc Hesc_injective Hesc_no_colon n1 n2 wf_n1 wf_n2).mp (by decide)
example : ¬ ContentEq n1 n3 := fun h =>
  absurd ((cid_eq_iff Hesc Hesc_injective Hesc_no_colon n1 n3 wf_n1 wf_n3).mpr h) (by decide)
example : isEqual Hesc n1 n2 = true :=
  (isEqual_iff Hesc Hesc_injective Hesc_no_colon n1 n2 wf_n1 wf_n2).mpr
    ((cid_eq_iff Hesc Hesc_injective Hesc_no_colon n1 n2 wf_n1 wf_n2).mp (by decide))

/-! #### the hypotheses are needed -/

def Canon.nkids : Canon → Nat
  | .mk _ _ k => k.length

/-- `hsep` is needed: with a "digest" that may contain `':'` (here `H = id`) a node with fields
`x=[A]`, `y=[B]` and a node with the single field `x=[A(y=[B])]` have the same pre-image
`P:x[-1]=A:y[-1]=B`.  (A hex digest never contains `':'`.) -/
def c1 : Node := .mk ⟨1, ['P'], [], o1, [], true⟩
  [.mk ['x'] false [leaf 2 ['A'] o1], .mk ['y'] false [leaf 3 ['B'] o1]]
def c2 : Node := .mk ⟨1, ['P'], [], o1, [], true⟩
  [.mk ['x'] false [.mk ⟨2, ['A'], [], o1, [], true⟩ [.mk ['y'] false [leaf 3 ['B'] o1]]]]
example : cid id c1 = cid id c2 := by decide
example : ¬ ContentEq c1 c2 := fun h => absurd (congrArg Canon.nkids h) (by decide)

/-- "no `'('` in the type text" is needed: type `a(b` with text `c` and type `a` with text `b(c`
both render `:v=a(b(c)`. -/
def d1 : Node := .mk ⟨1, ['P'], [], o1, [⟨['v'], ['a', '(', 'b'], ['c'], .none, true, true⟩], true⟩ []
def d2 : Node := .mk ⟨1, ['P'], [], o1, [⟨['v'], ['a'], ['b', '(', 'c'], .none, true, true⟩], true⟩ []
example : cid Hesc d1 = cid Hesc d2 := by decide
def Canon.props : Canon → List (Str × Str × Str)
  | .mk _ p _ => p
example : ¬ ContentEq d1 d2 := fun h => absurd (congrArg Canon.props h) (by decide)

/-- declaration order: `n1` with its fields declared in another order -/
def n1' : Node :=
  .mk ⟨1, ['P'], [['P'], ['o']], o1, (props txt).reverse, true⟩
    [ .mk ['o'] false [leaf 13 ['A'] o1],
      .mk ['x', 's'] true [leaf 11 ['A'] o1, leaf 12 ['B'] o1],
      .mk ['z'] false [] ]
example : cid Hesc n1 = cid Hesc n1' :=
  cid_perm Hesc _ _ _ _ rfl (List.reverse_perm _).symm
    (List.perm_append_comm (l₁ := [_, _]) (l₂ := [_])) (by decide) (by decide)

end Demo

end C01
end PyOak
