/-
C04 (registry half), additions proposed by AUDIT.md (C04 §4 (i) part 1, (ii); top-10 #1):
a SERIALIZER on the registry machine (`RState.serOf`, Model/RegistrySer.lean) and

* (a) `roundtrip_alive` — `deser (ser u)` while `u` is still registered: the very object `u` is
  answered, nothing is created, the state is unchanged.  `roundtrip_alive_step`: the same as one
  public `as_obj` operation of the machine.
* (c) `clash_free` — `AcyclicIds t → Inv s → FreshOk s f → clashAux s t f = false`: the hypothesis
  "no forced id clashes with a key of the registry" (negation of defect F19) of every C04 theorem
  and of C03's `noClash` follows from a static property of the payload: no node carries the id of
  one of its proper ancestors.  `clash_iff_example` shows the excluded payload (F19) does clash.
  Key lemma `deserAux_keys`: the ids registered by `_deserialize` are ids of the payload.
-/
import PyOak.Props.C04
import PyOak.Model.RegistrySer
namespace PyOak
namespace C04
open RState RegL C03

/-! ### the serializer -/

theorem serOf_zero (s : RState) (u : Nat) : s.serOf 0 u = .mk (s.idOf u) (s.clsOf u) (s.mroOf u) [] := rfl

theorem serOf_succ (s : RState) (n u : Nat) :
    s.serOf (n + 1) u = .mk (s.idOf u) (s.clsOf u) (s.mroOf u) ((s.kidsOf u).map (s.serOf n)) := rfl

theorem serOf_sid (s : RState) (n u : Nat) : SerTree.sid (s.serOf n u) = s.idOf u := by
  cases n <;> rfl

/-! ### (a) the original object is answered while it is registered -/

/-- **(a)** `deser (ser u) = u` in the state where `u` is live and not detached: the original
object is answered, nothing is created (no token is consumed), the state is unchanged.
(`hu`: `u` is an object of the heap — `isLive` alone only says "reachable from a root".) -/
theorem roundtrip_alive {s : RState} (hI : Inv s) (hL : LiveRegistered s) {u : Nat}
    (hu : u ∈ s.heap.map (·.uid)) (hl : s.isLive u = true) (hd : u ∉ s.detached) (n : Nat) (f : Fresh) :
    s.deserAux (s.serOf n u) f = some (s, u, f) := by
  obtain ⟨o, ho, rfl⟩ := List.mem_map.mp hu
  apply deser_reuse'
  rw [serOf_sid, idOf_of_mem hI.heapNodup ho]
  exact rget_of_mem hI.keysNodup (hL o ho hl hd)

/-- the same for a registered node (alive or not): whoever is registered under its own id -/
theorem roundtrip_registered {s : RState} {u : Nat} (hr : s.regGet (s.idOf u) = some u) (n : Nat) (f : Fresh) :
    s.deserAux (s.serOf n u) f = some (s, u, f) := by
  apply deser_reuse'
  rw [serOf_sid]; exact hr

/-- (a) as a public operation: `v = Cls.as_obj(u.as_dict())` answers `u` itself -/
theorem roundtrip_alive_step {s : RState} (hI : Inv s) (hL : LiveRegistered s) {u : Nat}
    (hu : u ∈ s.heap.map (·.uid)) (hl : s.isLive u = true) (hd : u ∉ s.detached) (n v : Nat) :
    (s.step (.asObj v (s.serOf n u) [])).2 = .ok (some u) none ∧
    (s.step (.asObj v (s.serOf n u) [])).1 = (s.bind v u).gc := by
  simp [step, roundtrip_alive hI hL hu hl hd n [], finish]

/-- every node of the subtree of a live, never detached root … is live; so (a) applies at every
position whose node was not detached -/
theorem roundtrip_alive_kid {s : RState} (hI : Inv s) (hL : LiveRegistered s) {u k : Nat}
    (hl : s.isLive u = true) (hk : k ∈ s.kidsOf u) (hku : k ∈ s.heap.map (·.uid)) (hd : k ∉ s.detached)
    (n : Nat) (f : Fresh) : s.deserAux (s.serOf n k) f = some (s, k, f) :=
  roundtrip_alive hI hL hku (isLive_kid hI.heapNodup hl hk) hd n f

/-! ### (c) the ids registered by `_deserialize` are ids of the payload -/

theorem mem_sids_mk {k sid cls : Str} {mro : List Str} {kids : List SerTree} :
    k ∈ SerTree.sids (.mk sid cls mro kids) ↔ k = sid ∨ k ∈ SerTree.sidsL kids := by
  rw [SerTree.sids]; simp

theorem mem_sidsL_cons {k : Str} {t : SerTree} {r : List SerTree} :
    k ∈ SerTree.sidsL (t :: r) ↔ k ∈ SerTree.sids t ∨ k ∈ SerTree.sidsL r := by
  rw [SerTree.sidsL]; simp

theorem sidsL_nil : SerTree.sidsL [] = [] := by rw [SerTree.sidsL]

theorem mem_sidsL {k : Str} : ∀ {ts : List SerTree}, k ∈ SerTree.sidsL ts ↔ ∃ t ∈ ts, k ∈ SerTree.sids t
  | [] => by simp [sidsL_nil]
  | t :: r => by
    rw [mem_sidsL_cons, mem_sidsL (ts := r)]
    simp

theorem keys_pNew (s : RState) (tok : Nat) (cls : Str) (mro : List Str) (base : Str) (ks : List Nat) :
    (s.pNew tok cls mro base ks).reg = s.reg ++ [(s.freshId base, tok)] :=
  regSet_of_free tok (RegL.freshId_free s base)

mutual
/-- every key of the registry after `_deserialize` was a key before or is an id of the payload
(the temporary fresh id of a re-created node is popped again when its id is forced) -/
theorem deserAux_keys : ∀ (t : SerTree) (s : RState) (f : Fresh) (s' : RState) (r : Nat) (fr : Fresh),
    Inv s → FreshOk s f → s.deserAux t f = some (s', r, fr) →
    ∀ k ∈ s'.reg.map (·.1), k ∈ s.reg.map (·.1) ∨ k ∈ SerTree.sids t
  | .mk sid cls mro kids, s, f, s', r, fr, hI, hf, h => by
    rcases deserAux_inv h with ⟨_, rfl, rfl⟩ | ⟨_, s1, ks, base, hk, rfl⟩
    · exact fun k hk => Or.inl hk
    · have ih := deserKids_keys kids s f s1 ks _ hI hf hk
      obtain ⟨_, hf1⟩ := evol_good (deserKids_evol kids s f s1 ks _ hk) hI hf
      have htok : r ∉ s1.heap.map (·.uid) := hf1.head
      have hid : (s1.pNew r cls mro base ks).idOf r = s1.freshId base := idOf_pNew htok _ _ _ _
      intro k hkm
      have hold : k ∈ s1.reg.map (·.1) → k ∈ s.reg.map (·.1) ∨ k ∈ SerTree.sids (.mk sid cls mro kids) := by
        intro hk1
        rcases ih k hk1 with h1 | h1
        · exact Or.inl h1
        · exact Or.inr (mem_sids_mk.mpr (Or.inr h1))
      split at hkm
      · rename_i heq
        have heq' : s1.freshId base = sid := by rw [← hid]; simpa using heq
        rw [keys_pNew] at hkm
        simp only [List.map_append, List.mem_append, List.map_cons, List.map_nil, List.mem_singleton] at hkm
        rcases hkm with hk1 | rfl
        · exact hold hk1
        · exact Or.inr (mem_sids_mk.mpr (Or.inl heq'))
      · obtain ⟨e, he, rfl⟩ := List.mem_map.mp hkm
        simp only [pForceId] at he
        rcases mem_regSet.mp he with ⟨he1, _⟩ | rfl
        · obtain ⟨he2, hne⟩ := mem_regDel.mp he1
          rw [keys_pNew] at he2
          rcases List.mem_append.mp he2 with he3 | he3
          · exact hold (List.mem_map.mpr ⟨e, he3, rfl⟩)
          · simp only [List.mem_singleton] at he3
            subst he3
            exact absurd hid.symm hne
        · exact Or.inr (mem_sids_mk.mpr (Or.inl rfl))
theorem deserKids_keys : ∀ (ts : List SerTree) (s : RState) (f : Fresh) (s' : RState) (us : List Nat) (fr : Fresh),
    Inv s → FreshOk s f → s.deserKids ts f = some (s', us, fr) →
    ∀ k ∈ s'.reg.map (·.1), k ∈ s.reg.map (·.1) ∨ k ∈ SerTree.sidsL ts
  | [], s, f, s', us, fr, _, _, h => by
    simp [deserKids_nil] at h
    obtain ⟨rfl, _, _⟩ := h
    exact fun k hk => Or.inl hk
  | t :: r, s, f, s', us, fr, hI, hf, h => by
    obtain ⟨s1, u, f1, us', ha, hk, _⟩ := deserKids_cons_inv h
    obtain ⟨hI1, hf1⟩ := evol_good (deserAux_evol t s f s1 u f1 ha) hI hf
    have ih1 := deserAux_keys t s f s1 u f1 hI hf ha
    have ih2 := deserKids_keys r s1 f1 s' us' fr hI1 hf1 hk
    intro k hkm
    rcases ih2 k hkm with h2 | h2
    · rcases ih1 k h2 with h1 | h1
      · exact Or.inl h1
      · exact Or.inr (mem_sidsL_cons.mpr (Or.inl h1))
    · exact Or.inr (mem_sidsL_cons.mpr (Or.inr h2))
end

theorem acyclicIds_mk {sid cls : Str} {mro : List Str} {kids : List SerTree} :
    SerTree.AcyclicIds (.mk sid cls mro kids) ↔ sid ∉ SerTree.sidsL kids ∧ SerTree.AcyclicIdsL kids := by
  rw [SerTree.AcyclicIds]

theorem acyclicIdsL_cons {t : SerTree} {r : List SerTree} :
    SerTree.AcyclicIdsL (t :: r) ↔ SerTree.AcyclicIds t ∧ SerTree.AcyclicIdsL r := by
  rw [SerTree.AcyclicIdsL]

theorem acyclicIdsL_iff : ∀ {ts : List SerTree}, SerTree.AcyclicIdsL ts ↔ ∀ t ∈ ts, SerTree.AcyclicIds t
  | [] => by rw [SerTree.AcyclicIdsL]; simp
  | t :: r => by rw [acyclicIdsL_cons, acyclicIdsL_iff (ts := r)]; simp

mutual
theorem acyclicIds_bool : ∀ (t : SerTree), t.acyclicIds = true ↔ t.AcyclicIds
  | .mk sid cls mro kids => by
    rw [SerTree.acyclicIds, acyclicIds_mk, Bool.and_eq_true, acyclicIdsL_bool kids]
    simp
theorem acyclicIdsL_bool : ∀ (ts : List SerTree), SerTree.acyclicIdsL ts = true ↔ SerTree.AcyclicIdsL ts
  | [] => by rw [SerTree.acyclicIdsL, SerTree.AcyclicIdsL]; simp
  | t :: r => by
    rw [SerTree.acyclicIdsL, acyclicIdsL_cons, Bool.and_eq_true, acyclicIds_bool t, acyclicIdsL_bool r]
end

instance (t : SerTree) : Decidable t.AcyclicIds := decidable_of_iff _ (acyclicIds_bool t)

mutual
/-- **(c)** a payload in which no node carries the id of one of its proper ancestors never makes
`_deserialize` force an id that is a key of the registry: `clashAux` is false, whatever the
state, the digests (`f`) and the other ids are.  Shared nodes (equal ids at positions not on one
root path) are allowed. -/
theorem clash_free : ∀ (t : SerTree) (s : RState) (f : Fresh), t.AcyclicIds → Inv s → FreshOk s f →
    clashAux s t f = false
  | .mk sid cls mro kids, s, f, hA, hI, hf => by
    rw [clashAux_eq]
    obtain ⟨hA1, hA2⟩ := acyclicIds_mk.mp hA
    cases hg : s.regGet sid with
    | some u => rfl
    | none =>
      simp only [Bool.or_eq_false_iff]
      refine ⟨clashKids_free kids s f hA2 hI hf, ?_⟩
      cases hk : s.deserKids kids f with
      | none => rfl
      | some res =>
        obtain ⟨s1, ks, fr1⟩ := res
        cases fr1 with
        | nil => rfl
        | cons e fr' =>
          obtain ⟨tok, base⟩ := e
          simp only
          obtain ⟨_, hf1⟩ := evol_good (deserKids_evol kids s f s1 ks _ hk) hI hf
          have hid : (s1.pNew tok cls mro base ks).idOf tok = s1.freshId base := idOf_pNew hf1.head _ _ _ _
          by_cases heq : s1.freshId base = sid
          · simp [hid, heq]
          · have hns : sid ∉ (s1.pNew tok cls mro base ks).reg.map (·.1) := by
              rw [keys_pNew]
              simp only [List.map_append, List.mem_append, List.map_cons, List.map_nil, List.mem_singleton, not_or]
              refine ⟨?_, fun e => heq e.symm⟩
              intro hm
              rcases deserKids_keys kids s f s1 ks _ hI hf hk sid hm with h1 | h1
              · rw [regGet_def] at hg
                exact rget_none_iff.mp hg h1
              · exact hA1 h1
            have : (s1.pNew tok cls mro base ks).regGet sid = none := by
              rw [regGet_def]; exact rget_none_iff.mpr hns
            simp [this]
theorem clashKids_free : ∀ (ts : List SerTree) (s : RState) (f : Fresh), SerTree.AcyclicIdsL ts → Inv s →
    FreshOk s f → clashKids s ts f = false
  | [], s, f, _, _, _ => by rw [clashKids]
  | t :: r, s, f, hA, hI, hf => by
    obtain ⟨hA1, hA2⟩ := acyclicIdsL_cons.mp hA
    rw [clashKids_cons, Bool.or_eq_false_iff]
    refine ⟨clash_free t s f hA1 hI hf, ?_⟩
    cases ha : s.deserAux t f with
    | none => rfl
    | some res =>
      obtain ⟨s1, u, f1⟩ := res
      obtain ⟨hI1, hf1⟩ := evol_good (deserAux_evol t s f s1 u f1 ha) hI hf
      exact clashKids_free r s1 f1 hA2 hI1 hf1
end

/-- C03's `noClash` hypothesis for `as_obj`, discharged statically -/
theorem noClash_of_acyclic {s : RState} (hI : Inv s) (v : Nat) {t : SerTree} {f : Fresh} (hA : t.AcyclicIds)
    (hf : FreshOk s f) : noClash s (.asObj v t f) = true := by
  simp [noClash, clash_free t s f hA hI hf]

/-- with (c), the C04 theorems need no run-time hypothesis: e.g. nothing is overwritten -/
theorem deser_persist_acyclic {s : RState} {t : SerTree} {f : Fresh} {s' : RState} {u : Nat} {fr : Fresh}
    (hI : Inv s) (hf : FreshOk s f) (hA : t.AcyclicIds) (h : s.deserAux t f = some (s', u, fr)) :
    Persist s s' :=
  deser_persist hI hf (clash_free t s f hA hI hf) h

/-! non-vacuity / sharpness -/

section Examples
private def A : Str := "A".toList
private def x : Str := "x".toList

/-- shared child (same id twice, not on one root path): acyclic -/
example : SerTree.AcyclicIds (.mk "p".toList A [A] [.mk "c".toList A [A] [], .mk "c".toList A [A] []]) := by decide
/-- the F19 payload (child carries its parent's id) is exactly what `AcyclicIds` excludes, and it does clash -/
example : ¬ SerTree.AcyclicIds (.mk x A [A] [.mk x A [A] []]) ∧
    clashAux {} (.mk x A [A] [.mk x A [A] []]) [(1, "a".toList), (2, "b".toList)] = true := by decide
/-- digest collisions are harmless: child's fresh id = the digest "x" = the parent's serialized id -/
example : SerTree.AcyclicIds (.mk x A [A] [.mk "y".toList A [A] []]) ∧ Inv {} ∧
    FreshOk {} [(1, x), (2, "b".toList)] := ⟨by decide, inv_empty, by decide⟩

/-- (a): a two-level tree, serialized and read back while alive -/
private def hist : List ROp :=
  [ .construct 0 A [A] [] [(1, "l".toList)], .construct 1 A [A] [1, 1] [(2, "p".toList)] ]
example : (run {} hist).serOf 5 2 =
    .mk "p".toList A [A] [.mk "l".toList A [A] [], .mk "l".toList A [A] []] := by rfl
example : 2 ∈ (run {} hist).heap.map (·.uid) ∧ (run {} hist).isLive 2 = true ∧ 2 ∉ (run {} hist).detached ∧
    AllOkK {} hist := by decide
example : ((run {} hist).step (.asObj 7 ((run {} hist).serOf 5 2) [])).2 = .ok (some 2) none := by decide
end Examples

end C04
end PyOak

#print axioms PyOak.C04.roundtrip_alive
#print axioms PyOak.C04.roundtrip_registered
#print axioms PyOak.C04.roundtrip_alive_step
#print axioms PyOak.C04.deserAux_keys
#print axioms PyOak.C04.clash_free
#print axioms PyOak.C04.noClash_of_acyclic
#print axioms PyOak.C04.deser_persist_acyclic
