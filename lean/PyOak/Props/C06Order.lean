/-
C06 (addition) — `is_ancestor` as a strict order on the objects of a tree, and the recurrences that tie
`get_ancestors` / `get_depth` of a node to those of its parent.

  * `chain_prefix`        every non-empty prefix of a root-first chain is a root-first chain (so the chain
                          of an ancestor is the corresponding prefix of the chain of the node)
  * `isAncestor_irrefl`   no member is its own ancestor
  * `isAncestor_parent`   the stored parent is an ancestor
  * `isAncestor_trans`    ancestors of an ancestor are ancestors (chain form, no extra hypothesis)
  * `isAncestor_asymm`    an ancestor of `n` never has `n` among its ancestors
  * `ancestors_parent`    `get_ancestors(n) = [parent] + get_ancestors(parent)`
  * `depth_parent`        `get_depth(n) = get_depth(parent) + 1`
  * `depth_eq_ancestors`  `get_depth(n) = len(get_ancestors(n))`
-/
import PyOak.Props.C06Total
namespace PyOak
namespace C06

section Order
variable (root : Node)

theorem chain_prefix : ∀ (k : Nat) (s p : Chain), s.length = k → p ≠ [] → IsChain root (p ++ s) → IsChain root p := by
  intro k
  induction k with
  | zero =>
    intro s p hs _ hc
    have : s = [] := List.eq_nil_of_length_eq_zero hs
    subst this
    simpa using hc
  | succ k ih =>
    intro s p hs hp hc
    rcases eq_nil_or_snoc s with rfl | ⟨s', x, rfl⟩
    · simp at hs
    · obtain ⟨n, oe⟩ := x
      have hc' : IsChain root ((p ++ s') ++ [(n, oe)]) := by simpa [List.append_assoc] using hc
      rcases chain_inv root _ _ _ hc' with ⟨h0, _, _⟩ | ⟨c', q, qe, e, h1, _, h3, _⟩
      · have : p = [] := (List.append_eq_nil_iff.mp h0).1
        exact absurd this hp
      · rw [← h1] at h3
        exact ih s' p (by simp at hs; omega) hp h3

/-- the chain of an ancestor is the prefix of the chain of the node that ends in it -/
theorem chain_of_member (c₁ c₂ : Chain) (b n : Node) (be oe : Option Edge)
    (hc : IsChain root (c₁ ++ [(b, be)] ++ c₂ ++ [(n, oe)])) : IsChain root (c₁ ++ [(b, be)]) :=
  chain_prefix root _ (c₂ ++ [(n, oe)]) (c₁ ++ [(b, be)]) rfl (by simp) (by simpa [List.append_assoc] using hc)

/-- no object of the tree is its own ancestor -/
theorem isAncestor_irrefl (h : NoRepeat root) (c : Chain) (n : Node) (oe : Option Edge)
    (hc : IsChain root (c ++ [(n, oe)])) : (TreeT.build root).isAncestor n n = .ok false := by
  rw [isAncestor_chain root h c n n oe hc]
  congr 1
  rw [List.any_eq_false]
  intro x hx
  simpa using chain_uid_ne root h c n oe hc x hx

/-- the parent under which a node is stored is one of its ancestors -/
theorem isAncestor_parent (h : NoRepeat root) (c : Chain) (p : Node) (pe : Option Edge) (n : Node) (e : Edge)
    (hc : IsChain root (c ++ [(p, pe)] ++ [(n, some e)])) : (TreeT.build root).isAncestor n p = .ok true := by
  rw [isAncestor_chain root h _ n p _ hc]
  simp

/-- transitivity: whatever is an ancestor of a member `b` of the chain of `n` is an ancestor of `n` -/
theorem isAncestor_trans (h : NoRepeat root) (c₁ c₂ : Chain) (b n a : Node) (be oe : Option Edge)
    (hc : IsChain root (c₁ ++ [(b, be)] ++ c₂ ++ [(n, oe)]))
    (hba : (TreeT.build root).isAncestor b a = .ok true) : (TreeT.build root).isAncestor n a = .ok true := by
  have hb := chain_of_member root c₁ c₂ b n be oe hc
  rw [isAncestor_chain root h c₁ b a be hb] at hba
  rw [isAncestor_chain root h _ n a oe hc]
  have : c₁.any (·.1.uid == a.uid) = true := by simpa using hba
  simp only [List.any_append, this, Bool.true_or]

/-- asymmetry: a member `b` of the chain of `n` (an ancestor of `n`) does not have `n` among its ancestors -/
theorem isAncestor_asymm (h : NoRepeat root) (c₁ c₂ : Chain) (b n : Node) (be oe : Option Edge)
    (hc : IsChain root (c₁ ++ [(b, be)] ++ c₂ ++ [(n, oe)])) :
    (TreeT.build root).isAncestor n b = .ok true ∧ (TreeT.build root).isAncestor b n = .ok false := by
  have hb := chain_of_member root c₁ c₂ b n be oe hc
  refine ⟨?_, ?_⟩
  · rw [isAncestor_chain root h _ n b oe hc]
    simp
  · rw [isAncestor_chain root h c₁ b n be hb]
    congr 1
    rw [List.any_eq_false]
    intro x hx
    simpa using chain_uid_ne root h _ n oe hc x (by simp [hx])

/-- `get_ancestors(n) = [parent] + get_ancestors(parent)` -/
theorem ancestors_parent (h : NoRepeat root) (c : Chain) (p : Node) (pe : Option Edge) (n : Node) (e : Edge)
    (hc : IsChain root (c ++ [(p, pe)] ++ [(n, some e)])) :
    ∃ l, (TreeT.build root).getAncestors p = .ok l ∧ (TreeT.build root).getAncestors n = .ok (p :: l) := by
  have hp := (chain_inv2 root c p pe n e hc).1
  refine ⟨c.reverse.map (·.1), ancestors_chain root h c p pe hp, ?_⟩
  rw [ancestors_chain root h _ n _ hc]
  simp

/-- `get_depth(n) = get_depth(parent) + 1` -/
theorem depth_parent (h : NoRepeat root) (c : Chain) (p : Node) (pe : Option Edge) (n : Node) (e : Edge)
    (hc : IsChain root (c ++ [(p, pe)] ++ [(n, some e)])) (chk : Bool) :
    ∃ d, (TreeT.build root).getDepth p none chk = .ok d ∧ (TreeT.build root).getDepth n none chk = .ok (d + 1) := by
  have hp := (chain_inv2 root c p pe n e hc).1
  refine ⟨c.length, depth_chain root h c p pe hp chk, ?_⟩
  rw [depth_chain root h _ n _ hc chk]
  simp

/-- `get_depth(n) == len(get_ancestors(n))` for every object of the tree -/
theorem depth_eq_ancestors (h : NoRepeat root) (n : Node) (hn : n ∈ allNodes root) (chk : Bool) :
    ∃ l, (TreeT.build root).getAncestors n = .ok l ∧ (TreeT.build root).getDepth n none chk = .ok l.length := by
  obtain ⟨c, oe, hc⟩ := exists_chain root n hn
  refine ⟨c.reverse.map (·.1), ancestors_chain root h c n oe hc, ?_⟩
  rw [depth_chain root h c n oe hc chk]
  simp

end Order

end C06
end PyOak

section Axioms
open PyOak.C06
#print axioms chain_prefix
#print axioms chain_of_member
#print axioms isAncestor_irrefl
#print axioms isAncestor_parent
#print axioms isAncestor_trans
#print axioms isAncestor_asymm
#print axioms ancestors_parent
#print axioms depth_parent
#print axioms depth_eq_ancestors
end Axioms
