/-
C17, xpath grammar at the text level, the SOUNDNESS half and the resulting equivalence.

`XRenders known els s` — "the text `s` is a sentence of `xpath_grammar` denoting the elements `els`":
there are a written path (`List XStep`: per "/" an optional `@field`, an optional `[digits]` with ANY
digit string, an optional class; the last step with a class; every class a node class) and a spacing
of its tokens (`SpacedOK`: white space after any token, mandatory only between a name and a following
name) such that `s` is that rendering — or, for a text not starting with "/", "//" ++ `s` is
(`ASTXpath.__init__`) — and `els` is what the path denotes (`denote`, defined with the documented reading
`C20.pathOfRaw`, not with the model's reversed walk: an element is `anywhere` iff an empty step precedes
it, `[]` is "no index", an index is the decimal value of its digits, a missing class is `ASTNode`),
self first.

  `xparse_sound`    : `parseXPath known s = some els → XRenders known els s`
  `xparse_complete` : `XRenders known els s → parseXPath known s = some els`
  `parseXPath_iff`, `parseXPath_none_iff`, `xrenders_unique` (unambiguity).

This is the relation of `xpath_accepts_rendering` / `xpath_relative` (Props/C17.lean), with the meaning
conjunct replaced by the independent `denote`.
-/
import PyOak.Props.C17PatternSound
import PyOak.Props.C07Parse
namespace PyOak
namespace C17
open PM

/-! ### the relation -/

/-- the elements a written path denotes, in text order -/
def denote (path : List XStep) : List XElem := C20.pathOfRaw (path.map rawOf) false

/-- `s` is a text of the written path `path`: the tokens of `path` (a derivation of `xpath: element* self`
over the node classes `known`) with an admissible spacing — as such, or without the leading "//" when the
text does not start with "/" (`if not xpath.startswith("/"): xpath = "//" + xpath`) -/
def PathText (known : Str → Bool) (path : List XStep) (s : Str) : Prop :=
  ∃ tws : List (XTok × Str),
    PathOK known path ∧ tws.map (·.1) = pathToks path ∧ SpacedOK tws
      ∧ (s = renderToks tws ∨ ((∀ r, s ≠ '/' :: r) ∧ '/' :: '/' :: s = renderToks tws))

/-- **the rendering relation of the xpath grammar**: `s` is a text of a written path that denotes `els`
(`_elements_reversed`: self first) -/
def XRenders (known : Str → Bool) (els : List XElem) (s : Str) : Prop :=
  ∃ path : List XStep, PathText known path s ∧ els = (denote path).reverse

/-- `denote`, with the pending-`//` flag explicit -/
def denoteFrom (path : List XStep) (pend : Bool) : List XElem := C20.pathOfRaw (path.map rawOf) pend

theorem denote_eq (path : List XStep) : denote path = denoteFrom path false := rfl
theorem denoteFrom_nil (pend : Bool) : denoteFrom [] pend = [] := rfl
/-- an empty step (the gap of a `//`) contributes no element and makes the next one `anywhere` -/
theorem denoteFrom_empty (path : List XStep) (pend : Bool) :
    denoteFrom (⟨none, none, none⟩ :: path) pend = denoteFrom path true := rfl
/-- a step that writes something is one element: its class (default `ASTNode`), its field, the decimal value
of its digits (`[]` = no index), `anywhere` iff an empty step precedes it -/
theorem denoteFrom_step (st : XStep) (path : List XStep) (pend : Bool)
    (h : st.field.isSome ∨ st.idx.isSome ∨ st.cls.isSome) :
    denoteFrom (st :: path) pend =
      ⟨st.cls.getD astNodeName, st.field, (st.idx.map idxVal).getD none, pend⟩ :: denoteFrom path false := by
  obtain ⟨f, i, c⟩ := st
  cases f <;> cases i <;> cases c <;> first | rfl | simp at h

/-! ### the index: positional decimal value of ANY digit string -/

theorem digitsVal_nil : digitsVal [] = 0 := rfl

/-- the value of a digit string is positional decimal: appending a digit multiplies by ten and adds it -/
theorem digitsVal_snoc (ds : List Char) (c : Char) :
    digitsVal (ds ++ [c]) = digitsVal ds * 10 + (c.toNat - '0'.toNat) := by
  simp [digitsVal, List.foldl_append]

theorem digitsVal_zero_cons (ds : List Char) : digitsVal ('0' :: ds) = digitsVal ds := by
  simp [digitsVal]

/-- leading zeros do not change the value: `[007]` is index 7 (several texts render one element) -/
theorem digitsVal_leading_zeros : ∀ (k : Nat) (ds : List Char), digitsVal (List.replicate k '0' ++ ds) = digitsVal ds
  | 0, ds => rfl
  | k + 1, ds => by
    rw [List.replicate_succ, List.cons_append, digitsVal_zero_cons]
    exact digitsVal_leading_zeros k ds

theorem digitChar_of_digit (c : Char) (h : isDigitC c = true) :
    c.toNat - '0'.toNat < 10 ∧ Nat.digitChar (c.toNat - '0'.toNat) = c := by
  have h0 : ('0' : Char).toNat = 48 := rfl
  have hr : 48 ≤ c.toNat ∧ c.toNat ≤ 57 := by
    simp only [isDigitC, Bool.and_eq_true, decide_eq_true_eq, char_le_iff] at h
    exact ⟨h.1, h.2⟩
  refine ⟨by omega, ?_⟩
  rw [h0]
  have hk : c.toNat - 48 = 0 ∨ c.toNat - 48 = 1 ∨ c.toNat - 48 = 2 ∨ c.toNat - 48 = 3 ∨ c.toNat - 48 = 4
      ∨ c.toNat - 48 = 5 ∨ c.toNat - 48 = 6 ∨ c.toNat - 48 = 7 ∨ c.toNat - 48 = 8 ∨ c.toNat - 48 = 9 := by omega
  rcases hk with e | e | e | e | e | e | e | e | e | e <;> rw [e]
  · exact (char_eq_iff _ _).mpr (by have : (Nat.digitChar 0).toNat = 48 := rfl; omega)
  · exact (char_eq_iff _ _).mpr (by have : (Nat.digitChar 1).toNat = 49 := rfl; omega)
  · exact (char_eq_iff _ _).mpr (by have : (Nat.digitChar 2).toNat = 50 := rfl; omega)
  · exact (char_eq_iff _ _).mpr (by have : (Nat.digitChar 3).toNat = 51 := rfl; omega)
  · exact (char_eq_iff _ _).mpr (by have : (Nat.digitChar 4).toNat = 52 := rfl; omega)
  · exact (char_eq_iff _ _).mpr (by have : (Nat.digitChar 5).toNat = 53 := rfl; omega)
  · exact (char_eq_iff _ _).mpr (by have : (Nat.digitChar 6).toNat = 54 := rfl; omega)
  · exact (char_eq_iff _ _).mpr (by have : (Nat.digitChar 7).toNat = 55 := rfl; omega)
  · exact (char_eq_iff _ _).mpr (by have : (Nat.digitChar 8).toNat = 56 := rfl; omega)
  · exact (char_eq_iff _ _).mpr (by have : (Nat.digitChar 9).toNat = 57 := rfl; omega)

theorem natStr_eq (n : Nat) : natStr n = Nat.toDigits 10 n := by
  unfold natStr; exact Nat.toList_repr

theorem digits_canonical_rev : ∀ rs : List Char, (∀ c ∈ rs, isDigitC c = true) → rs ≠ [] →
    ∃ k, rs.reverse = List.replicate k '0' ++ natStr (digitsVal rs.reverse)
  | [], _, h => absurd rfl h
  | c :: rs, hd, _ => by
    obtain ⟨hlt, hch⟩ := digitChar_of_digit c (hd c (by simp))
    have hone : natStr (c.toNat - '0'.toNat) = [c] := by
      rw [natStr_eq, Nat.toDigits_of_lt_base hlt, hch]
    rw [List.reverse_cons, digitsVal_snoc]
    cases rs with
    | nil =>
      refine ⟨0, ?_⟩
      rw [show digitsVal ([] : List Char).reverse = 0 from rfl, Nat.zero_mul, Nat.zero_add, hone]
      rfl
    | cons d rs' =>
      obtain ⟨k, ih⟩ := digits_canonical_rev (d :: rs') (fun x hx => hd x (by simp [hx])) (by simp)
      generalize (d :: rs').reverse = ds at ih
      by_cases hn : digitsVal ds = 0
      · rw [hn] at ih
        refine ⟨k + 1, ?_⟩
        rw [hn, Nat.zero_mul, Nat.zero_add, hone, ih, natStr_eq, Nat.toDigits_zero, List.replicate_succ',
          List.append_assoc]
      · refine ⟨k, ?_⟩
        have happ := Nat.toDigits_append_toDigits (b := 10) (n := digitsVal ds) (d := c.toNat - '0'.toNat)
          (by omega) (by omega) hlt
        rw [Nat.toDigits_of_lt_base hlt, hch] at happ
        rw [natStr_eq, Nat.mul_comm, ← happ, ← natStr_eq, ← List.append_assoc, ← ih]

/-- **every index text is its decimal value with leading zeros**: a non-empty digit string is
`0…0` followed by the canonical numeral of its value -/
theorem digits_canonical (ds : List Char) (hd : ∀ c ∈ ds, isDigitC c = true) (hne : ds ≠ []) :
    ∃ k, ds = List.replicate k '0' ++ natStr (digitsVal ds) := by
  have := digits_canonical_rev ds.reverse (fun c hc => hd c (by simpa using hc)) (by simpa using hne)
  simpa using this

/-- the digit strings of value `n` are exactly the zero-padded numerals of `n` -/
theorem digitsVal_eq_iff (ds : List Char) (hd : ∀ c ∈ ds, isDigitC c = true) (hne : ds ≠ []) (n : Nat) :
    digitsVal ds = n ↔ ∃ k, ds = List.replicate k '0' ++ natStr n := by
  constructor
  · rintro rfl; exact digits_canonical ds hd hne
  · rintro ⟨k, rfl⟩
    rw [digitsVal_leading_zeros]; exact C20.digitsVal_natStr n

/-- the index a bracket denotes: none for `[]`, otherwise `n` for the numerals `0…0n` -/
theorem idxVal_padded (k n : Nat) : idxVal (List.replicate k '0' ++ natStr n) = some n := by
  have hne : (List.replicate k '0' ++ natStr n) ≠ [] := by
    intro h
    exact C20.natStr_ne_nil n (List.append_eq_nil_iff.mp h).2
  unfold idxVal
  cases hl : List.replicate k '0' ++ natStr n with
  | nil => exact absurd hl hne
  | cons a b => rw [← hl]; simp only [hl, List.isEmpty_cons, Bool.false_eq_true, if_false]; rw [← hl, digitsVal_leading_zeros, C20.digitsVal_natStr]

/-! ### the lexer -/

theorem allWS_cons (c : Char) (w : Str) (hc : isWS c = true) (hw : AllWS w) : AllWS (c :: w) := by
  intro d hd
  rcases List.mem_cons.mp hd with rfl | hd
  · exact hc
  · exact hw d hd

theorem dropWhile_head_not (p : Char → Bool) : ∀ l : List Char,
    (match l.dropWhile p with | c :: _ => p c = false | [] => True)
  | [] => trivial
  | c :: l => by
    by_cases hc : p c = true
    · simp only [List.dropWhile_cons, hc, if_true]; exact dropWhile_head_not p l
    · have hc' : p c = false := by simpa using hc
      simp only [List.dropWhile_cons, hc', Bool.false_eq_true, if_false]

theorem length_dropWhile_le (p : Char → Bool) : ∀ l : List Char, (l.dropWhile p).length ≤ l.length
  | [] => Nat.le_refl _
  | c :: l => by
    have := length_dropWhile_le p l
    by_cases hc : p c = true
    · simp only [List.dropWhile_cons, hc, if_true, List.length_cons]; omega
    · simp [hc]

/-- **lexer soundness**: the text is its tokens, in order, with white space around them; names are
maximal (`SpacedOK`) -/
theorem xlex_sound : ∀ (fuel : Nat) (s : Str) (toks : List XTok), s.length ≤ fuel → xlex fuel s = some toks →
    ∃ (w : Str) (tws : List (XTok × Str)),
      AllWS w ∧ SpacedOK tws ∧ tws.map (·.1) = toks ∧ s = w ++ renderToks tws
  | 0, s, toks, hf, h => by
    have hs : s = [] := List.eq_nil_of_length_eq_zero (by omega)
    subst hs
    simp only [xlex, Option.some.injEq] at h
    subst h
    exact ⟨[], [], allWS_nil, trivial, rfl, rfl⟩
  | f + 1, [], toks, _, h => by
    simp only [xlex, Option.some.injEq] at h
    subst h
    exact ⟨[], [], allWS_nil, trivial, rfl, rfl⟩
  | f + 1, c :: r, toks, hf, h => by
    have hr : r.length ≤ f := by simp at hf; omega
    simp only [xlex] at h
    split at h
    · rename_i hc
      obtain ⟨w, tws, hw, hok, hm, e⟩ := xlex_sound f r toks hr h
      exact ⟨c :: w, tws, allWS_cons c w hc hw, hok, hm, by rw [e]; rfl⟩
    · split at h
      · rename_i hc
        have hc : c = '/' := by simpa using hc
        obtain ⟨toks', h', rfl⟩ := Option.map_eq_some_iff.mp h
        obtain ⟨w, tws, hw, hok, hm, e⟩ := xlex_sound f r toks' hr h'
        exact ⟨[], (.slash, w) :: tws, allWS_nil, ⟨trivial, hw, trivial, hok⟩, by simp [hm],
          by simp [renderToks, tokStr, e, hc]⟩
      · split at h
        · rename_i hc
          have hc : c = '@' := by simpa using hc
          obtain ⟨toks', h', rfl⟩ := Option.map_eq_some_iff.mp h
          obtain ⟨w, tws, hw, hok, hm, e⟩ := xlex_sound f r toks' hr h'
          exact ⟨[], (.at, w) :: tws, allWS_nil, ⟨trivial, hw, trivial, hok⟩, by simp [hm],
            by simp [renderToks, tokStr, e, hc]⟩
        · split at h
          · rename_i hc
            have hc : c = '[' := by simpa using hc
            obtain ⟨toks', h', rfl⟩ := Option.map_eq_some_iff.mp h
            obtain ⟨w, tws, hw, hok, hm, e⟩ := xlex_sound f r toks' hr h'
            exact ⟨[], (.lsqb, w) :: tws, allWS_nil, ⟨trivial, hw, trivial, hok⟩, by simp [hm],
              by simp [renderToks, tokStr, e, hc]⟩
          · split at h
            · rename_i hc
              have hc : c = ']' := by simpa using hc
              obtain ⟨toks', h', rfl⟩ := Option.map_eq_some_iff.mp h
              obtain ⟨w, tws, hw, hok, hm, e⟩ := xlex_sound f r toks' hr h'
              exact ⟨[], (.rsqb, w) :: tws, allWS_nil, ⟨trivial, hw, trivial, hok⟩, by simp [hm],
                by simp [renderToks, tokStr, e, hc]⟩
            · split at h
              · rename_i hc
                obtain ⟨toks', h', rfl⟩ := Option.map_eq_some_iff.mp h
                obtain ⟨w, tws, hw, hok, hm, e⟩ := xlex_sound f r toks' hr h'
                exact ⟨[], (.digit c, w) :: tws, allWS_nil, ⟨hc, hw, trivial, hok⟩, by simp [hm],
                  by simp [renderToks, tokStr, e]⟩
              · split at h
                · rename_i hc
                  obtain ⟨toks', h', rfl⟩ := Option.map_eq_some_iff.mp h
                  have hlen : (r.dropWhile isNameChar).length ≤ f := Nat.le_trans (length_dropWhile_le _ r) hr
                  obtain ⟨w, tws, hw, hok, hm, e⟩ := xlex_sound f (r.dropWhile isNameChar) toks' hlen h'
                  have hname : ValidName (c :: r.takeWhile isNameChar) :=
                    ⟨c, _, rfl, hc, fun d hd => mem_takeWhile_imp _ _ d hd⟩
                  have hsep : w ≠ [] ∨ startsName (renderToks tws) = false := by
                    cases w with
                    | cons d w' => exact Or.inl (by simp)
                    | nil =>
                      right
                      have hh := dropWhile_head_not isNameChar r
                      rw [e, List.nil_append] at hh
                      cases hrt : renderToks tws with
                      | nil => rfl
                      | cons d t => rw [hrt] at hh; exact hh
                  refine ⟨[], (.cname (c :: r.takeWhile isNameChar), w) :: tws, allWS_nil,
                    ⟨hname, hw, hsep, hok⟩, by simp [hm], ?_⟩
                  simp only [renderToks, tokStr, List.nil_append, List.cons_append, ← e,
                    List.takeWhile_append_dropWhile]
                · cases h

/-! ### the step parser -/

def isDig : XTok → Bool
  | .digit _ => true
  | _ => false
def digOf : XTok → Option Char
  | .digit c => some c
  | _ => none

/-- `field_spec?` -/
def fieldPart (toks : List XTok) : Option Str × List XTok :=
  match toks with
  | .at :: .cname f :: r => (some f, r)
  | _ => (none, toks)

/-- `index_spec?` -/
def idxPart (toks : List XTok) : Option (Option (Option Nat) × List XTok) :=
  match toks with
  | .lsqb :: r =>
    match r.dropWhile isDig with
    | .rsqb :: r'' =>
      some (some (if ((r.takeWhile isDig).filterMap digOf).isEmpty then none
                  else some (digitsVal ((r.takeWhile isDig).filterMap digOf))), r'')
    | _ => none
  | _ => some (none, toks)

/-- `class_spec?` -/
def clsPart (known : Str → Bool) (fld : Option Str) (idx : Option (Option Nat)) (toks : List XTok) :
    Option (Option Str × Option (Option Nat) × Option Str × List XTok) :=
  match toks with
  | .cname c :: r => if known c then some (fld, idx, some c, r) else none
  | _ => some (fld, idx, none, toks)

/-- `parseStepBody` is the composition of its three optional parts (definitional) -/
theorem parseStepBody_eq (known : Str → Bool) (toks : List XTok) :
    parseStepBody known toks =
      (match fieldPart toks with
       | (fld, t1) =>
         match t1 with
         | .at :: _ => none
         | _ =>
           match idxPart t1 with
           | none => none
           | some (idx, t2) => clsPart known fld idx t2) := rfl

def fldToks : Option Str → List XTok
  | some f => [.at, .cname f]
  | none => []
def idxToks : Option (List Char) → List XTok
  | some ds => .lsqb :: (ds.map .digit ++ [.rsqb])
  | none => []
def clsToks : Option Str → List XTok
  | some c => [.cname c]
  | none => []

theorem bodyToks_eq (st : XStep) : bodyToks st = fldToks st.field ++ (idxToks st.idx ++ clsToks st.cls) := by
  obtain ⟨f, i, c⟩ := st
  cases f <;> cases i <;> cases c <;> rfl

/-- what the step parser's `raw` is, as a function -/
def mkRaw (fld : Option Str) (idx : Option (Option Nat)) (cls : Option Str) : RawEl :=
  match fld, idx, cls with
  | none, none, none => none
  | _, _, _ => some (fld, idx.getD none, cls.getD astNodeName)

theorem fieldPart_sound (toks : List XTok) (fld : Option Str) (t1 : List XTok) (h : fieldPart toks = (fld, t1)) :
    toks = fldToks fld ++ t1 := by
  unfold fieldPart at h
  split at h
  · simp only [Prod.mk.injEq] at h
    obtain ⟨rfl, rfl⟩ := h
    rfl
  · simp only [Prod.mk.injEq] at h
    obtain ⟨rfl, rfl⟩ := h
    rfl

theorem digits_of_takeWhile : ∀ l : List XTok, (l.takeWhile isDig) = ((l.takeWhile isDig).filterMap digOf).map .digit
  | [] => rfl
  | t :: l => by
    cases t with
    | digit c =>
      have ih := digits_of_takeWhile l
      simp only [List.takeWhile_cons, isDig, if_true, List.filterMap_cons, digOf, List.map_cons]
      rw [← ih]
    | slash => simp [isDig]
    | «at» => simp [isDig]
    | lsqb => simp [isDig]
    | rsqb => simp [isDig]
    | cname s => simp [isDig]

theorem idxPart_sound (t1 : List XTok) (idx : Option (Option Nat)) (t2 : List XTok) (h : idxPart t1 = some (idx, t2)) :
    ∃ dso : Option (List Char), dso.map idxVal = idx ∧ t1 = idxToks dso ++ t2 := by
  unfold idxPart at h
  split at h
  · rename_i r
    split at h
    · rename_i r'' hdrop
      simp only [Option.some.injEq, Prod.mk.injEq] at h
      obtain ⟨rfl, rfl⟩ := h
      refine ⟨some ((r.takeWhile isDig).filterMap digOf), rfl, ?_⟩
      have hsplit : r = r.takeWhile isDig ++ r.dropWhile isDig := List.takeWhile_append_dropWhile.symm
      rw [hdrop, digits_of_takeWhile r] at hsplit
      simp only [idxToks, List.cons_append, List.append_assoc, List.nil_append]
      rw [← hsplit]
    · cases h
  · simp only [Option.some.injEq, Prod.mk.injEq] at h
    obtain ⟨rfl, rfl⟩ := h
    exact ⟨none, rfl, rfl⟩

theorem clsPart_sound (known : Str → Bool) (fld : Option Str) (idx : Option (Option Nat)) (t2 : List XTok)
    (fld' : Option Str) (idx' : Option (Option Nat)) (cls : Option Str) (rest : List XTok)
    (h : clsPart known fld idx t2 = some (fld', idx', cls, rest)) :
    fld' = fld ∧ idx' = idx ∧ t2 = clsToks cls ++ rest ∧ ∀ c, cls = some c → known c = true := by
  unfold clsPart at h
  split at h
  · rename_i c r
    by_cases hk : known c = true
    · simp only [hk, if_true, Option.some.injEq, Prod.mk.injEq] at h
      obtain ⟨rfl, rfl, rfl, rfl⟩ := h
      exact ⟨rfl, rfl, rfl, fun c' hc' => by injection hc' with hc'; rw [← hc']; exact hk⟩
    · simp [hk] at h
  · simp only [Option.some.injEq, Prod.mk.injEq] at h
    obtain ⟨rfl, rfl, rfl, rfl⟩ := h
    exact ⟨rfl, rfl, rfl, fun c' hc' => by cases hc'⟩

/-- **step soundness**: what the step parser consumes after a "/" is the body of a written step -/
theorem parseStepBody_sound (known : Str → Bool) (toks : List XTok) (fld : Option Str) (idx : Option (Option Nat))
    (cls : Option Str) (rest : List XTok) (h : parseStepBody known toks = some (fld, idx, cls, rest)) :
    ∃ st : XStep, toks = bodyToks st ++ rest ∧ st.field = fld ∧ st.idx.map idxVal = idx ∧ st.cls = cls
      ∧ ∀ c, st.cls = some c → known c = true := by
  rw [parseStepBody_eq] at h
  cases hf : fieldPart toks with
  | mk fld0 t1 =>
    rw [hf] at h
    simp only at h
    have e1 := fieldPart_sound toks fld0 t1 hf
    split at h
    · cases h
    · cases hi : idxPart t1 with
      | none => simp [hi] at h
      | some x =>
        obtain ⟨idx0, t2⟩ := x
        simp only [hi] at h
        obtain ⟨dso, hd, e2⟩ := idxPart_sound t1 idx0 t2 hi
        obtain ⟨rfl, rfl, e3, hk⟩ := clsPart_sound known fld0 idx0 t2 fld idx cls rest h
        refine ⟨⟨fld, dso, cls⟩, ?_, rfl, hd, rfl, hk⟩
        rw [e1, e2, e3, bodyToks_eq]
        simp only [List.append_assoc]

theorem rawOf_eq (fld : Option Str) (dso : Option (List Char)) (cls : Option Str) :
    rawOf ⟨fld, dso, cls⟩ = mkRaw fld (dso.map idxVal) cls := by
  cases fld <;> cases dso <;> cases cls <;> rfl

/-- **parser soundness at token level**: an accepted token sequence is the token sequence of a written
path, and the raw elements are those of its steps -/
theorem parseSteps_sound (known : Str → Bool) : ∀ (fuel : Nat) (toks : List XTok) (raws : List RawEl),
    parseSteps known fuel toks = some raws →
    ∃ path : List XStep, PathOK known path ∧ pathToks path = toks ∧ path.map rawOf = raws
  | 0, _, _, h => by simp [parseSteps] at h
  | fuel + 1, toks, raws, h => by
    unfold parseSteps at h
    split at h
    · rename_i r
      split at h
      · cases h
      · rename_i fld idx cls rest hb
        obtain ⟨st, e, hfld, hidx, hcls, hk⟩ := parseStepBody_sound known r fld idx cls rest hb
        obtain ⟨f0, d0, c0⟩ := st
        simp only at hfld hidx hcls hk
        subst hfld; subst hcls
        have hraw := rawOf_eq f0 d0 c0
        rw [hidx] at hraw
        simp only at h
        split at h
        · -- the last step
          split at h
          · rename_i hsome
            simp only [Option.some.injEq] at h
            subst h
            refine ⟨[⟨f0, d0, c0⟩], ⟨Option.isSome_iff_exists.mp hsome, hk⟩, ?_, ?_⟩
            · rw [e]; simp [pathToks, stepToks]
            · simp only [List.map_cons, List.map_nil, hraw]; rfl
          · cases h
        · rename_i hne
          obtain ⟨raws', h', rfl⟩ := Option.map_eq_some_iff.mp h
          obtain ⟨path, hp, ht, hr⟩ := parseSteps_sound known fuel rest raws' h'
          cases path with
          | nil => cases hp
          | cons st2 p =>
            refine ⟨⟨f0, d0, c0⟩ :: st2 :: p, ⟨hk, hp⟩, ?_, ?_⟩
            · rw [pathToks_cons, ht, e]
            · simp only [List.map_cons, hraw]
              simp only [List.map_cons] at hr
              rw [hr]; rfl
    · cases h

/-! ### the transformer's walk is the documented reading -/

theorem pathOK_ne_nil (known : Str → Bool) (path : List XStep) (hp : PathOK known path) : path ≠ [] := by
  rintro rfl; cases hp

theorem xwalk_denote (known : Str → Bool) (path : List XStep) (hp : PathOK known path) :
    xwalk (path.map rawOf).reverse [] = some (denote path).reverse := by
  obtain ⟨init, last, c, he, hc⟩ := pathOK_last known path hp
  obtain ⟨f, i, hraw⟩ := rawOf_cls last c hc
  have : path.map rawOf = init.map rawOf ++ [some (f, i, c)] := by rw [he]; simp [hraw]
  rw [denote, this]
  exact C07P.xwalk_pathOfRaw (init.map rawOf) (f, i, c)

/-! ### the theorems -/

theorem xprefix_cases (s : Str) : (xprefix s = s ∧ ∃ r, s = '/' :: r) ∨ (xprefix s = '/' :: '/' :: s ∧ ∀ r, s ≠ '/' :: r) := by
  unfold xprefix
  split
  · rename_i r
    exact Or.inl ⟨rfl, r, rfl⟩
  · rename_i hne
    exact Or.inr ⟨rfl, fun r hr => hne r hr⟩

/-- **parser soundness**: a text `ASTXpath` accepts IS a sentence of the xpath grammar (as such, or
with "//" in front when it does not start with "/"), and the elements returned are the ones that
sentence denotes -/
theorem xparse_sound (known : Str → Bool) (s : Str) (els : List XElem) (h : parseXPath known s = some els) :
    XRenders known els s := by
  rw [parseXPath_eq] at h
  cases hl : xlex ((xprefix s).length + 1) (xprefix s) with
  | none => simp [hl] at h
  | some toks =>
    cases hp : parseSteps known (toks.length + 1) toks with
    | none => simp [hl, hp] at h
    | some raws =>
      simp only [hl, hp] at h
      obtain ⟨w, tws, hw, hok, hm, e⟩ := xlex_sound _ _ toks (Nat.le_succ _) hl
      obtain ⟨path, hpath, ht, hr⟩ := parseSteps_sound known _ toks raws hp
      have hels : els = (denote path).reverse := by
        rw [← hr, xwalk_denote known path hpath] at h
        injection h with h
        exact h.symm
      -- the prefixed text starts with "/", so no white space precedes the first token
      have hw0 : w = [] := by
        cases w with
        | nil => rfl
        | cons d w' =>
          exfalso
          have hd : isWS d = true := hw d (by simp)
          rcases xprefix_cases s with ⟨hx, r, hs⟩ | ⟨hx, -⟩
          · rw [hx, hs] at e
            injection e with e1 _
            subst e1; revert hd; decide
          · rw [hx] at e
            injection e with e1 _
            subst e1; revert hd; decide
      subst hw0
      simp only [List.nil_append] at e
      refine ⟨path, ⟨tws, hpath, by rw [hm, ht], hok, ?_⟩, hels⟩
      rcases xprefix_cases s with ⟨hx, -⟩ | ⟨hx, hne⟩
      · exact Or.inl (by rw [← e, hx])
      · exact Or.inr ⟨hne, by rw [← e, hx]⟩

/-- completeness, for the same relation (from `xpath_accepts_rendering`) -/
theorem xparse_complete (known : Str → Bool) (s : Str) (els : List XElem) (h : XRenders known els s) :
    parseXPath known s = some els := by
  obtain ⟨path, ⟨tws, hp, ht, hs, htext⟩, rfl⟩ := h
  obtain ⟨els', h1, h2⟩ := xpath_accepts_rendering known path tws hp ht hs
  rw [xwalk_denote known path hp] at h2
  rcases htext with rfl | ⟨hne, e⟩
  · rw [h1, h2]
  · rw [parseXPath_rel known s hne, e, h1, h2]

/-- **accepted by `ASTXpath` ⇔ a sentence of the documented grammar** (denoting those elements) -/
theorem parseXPath_iff (known : Str → Bool) (s : Str) (els : List XElem) :
    parseXPath known s = some els ↔ XRenders known els s :=
  ⟨xparse_sound known s els, xparse_complete known s els⟩

/-- definition error ⇔ the text is no sentence of the grammar over the node classes -/
theorem parseXPath_none_iff (known : Str → Bool) (s : Str) :
    parseXPath known s = none ↔ ¬ ∃ els, XRenders known els s := by
  constructor
  · rintro h ⟨els, hr⟩
    rw [xparse_complete known s els hr] at h; cases h
  · intro h
    cases hp : parseXPath known s with
    | none => rfl
    | some els => exact absurd ⟨els, xparse_sound known s els hp⟩ h

/-- accepted ⇔ a text of some written path -/
theorem parseXPath_accepts_iff (known : Str → Bool) (s : Str) :
    (∃ els, parseXPath known s = some els) ↔ ∃ path, PathText known path s := by
  constructor
  · rintro ⟨els, h⟩
    obtain ⟨path, hp, -⟩ := xparse_sound known s els h
    exact ⟨path, hp⟩
  · rintro ⟨path, hp⟩
    exact ⟨_, xparse_complete known s _ ⟨path, hp, rfl⟩⟩

/-- **unambiguity**: a text denotes at most one element list -/
theorem xrenders_unique (known : Str → Bool) (s : Str) (els els' : List XElem)
    (h : XRenders known els s) (h' : XRenders known els' s) : els = els' := by
  have e := xparse_complete known s els h
  rw [xparse_complete known s els' h'] at e
  injection e with e
  exact e.symm

/-! ### the text determines its written path (unambiguity at the level of derivations) -/

theorem digits_rsqb_inj : ∀ (ds ds' : List Char) (x x' : List XTok),
    ds.map XTok.digit ++ .rsqb :: x = ds'.map XTok.digit ++ .rsqb :: x' → ds = ds' ∧ x = x'
  | [], [], x, x', h => by simpa using h
  | [], d :: ds', x, x', h => by simp at h
  | d :: ds, [], x, x', h => by simp at h
  | d :: ds, d' :: ds', x, x', h => by
    simp only [List.map_cons, List.cons_append, List.cons.injEq, XTok.digit.injEq] at h
    obtain ⟨rfl, h⟩ := h
    obtain ⟨rfl, rfl⟩ := digits_rsqb_inj ds ds' x x' h
    exact ⟨rfl, rfl⟩

/-- first token of a list, as a tag: 0 none, 1 slash, 2 at, 3 lsqb, 4 other -/
def headTag : List XTok → Nat
  | [] => 0
  | .slash :: _ => 1
  | .at :: _ => 2
  | .lsqb :: _ => 3
  | _ :: _ => 4

theorem clsToks_inj (c c' : Option Str) (r r' : List XTok) (hr : headTag r ≤ 1) (hr' : headTag r' ≤ 1)
    (h : clsToks c ++ r = clsToks c' ++ r') : c = c' ∧ r = r' := by
  cases c <;> cases c' <;> simp only [clsToks, List.nil_append, List.cons_append] at h
  · exact ⟨rfl, h⟩
  · subst h; simp [headTag] at hr
  · subst h; simp [headTag] at hr'
  · simp only [List.cons.injEq, XTok.cname.injEq] at h
    obtain ⟨rfl, rfl⟩ := h
    exact ⟨rfl, rfl⟩

theorem headTag_cls (c : Option Str) (r : List XTok) (hr : headTag r ≤ 1) :
    headTag (clsToks c ++ r) ≠ 2 ∧ headTag (clsToks c ++ r) ≠ 3 := by
  cases c with
  | none => simp only [clsToks, List.nil_append]; omega
  | some c => simp [clsToks, headTag]

theorem idxToks_inj (i i' : Option (List Char)) (y y' : List XTok) (hy : headTag y ≠ 3) (hy' : headTag y' ≠ 3)
    (h : idxToks i ++ y = idxToks i' ++ y') : i = i' ∧ y = y' := by
  cases i <;> cases i' <;> simp only [idxToks, List.nil_append, List.cons_append, List.append_assoc] at h
  · exact ⟨rfl, h⟩
  · subst h; simp [headTag] at hy
  · subst h; simp [headTag] at hy'
  · simp only [List.cons.injEq, true_and] at h
    obtain ⟨rfl, rfl⟩ := digits_rsqb_inj _ _ _ _ h
    exact ⟨rfl, rfl⟩

theorem headTag_idx (i : Option (List Char)) (y : List XTok) (hy : headTag y ≠ 2) : headTag (idxToks i ++ y) ≠ 2 := by
  cases i with
  | none => simpa [idxToks] using hy
  | some ds => simp [idxToks, headTag]

theorem fldToks_inj (f f' : Option Str) (z z' : List XTok) (hz : headTag z ≠ 2) (hz' : headTag z' ≠ 2)
    (h : fldToks f ++ z = fldToks f' ++ z') : f = f' ∧ z = z' := by
  cases f <;> cases f' <;> simp only [fldToks, List.nil_append, List.cons_append] at h
  · exact ⟨rfl, h⟩
  · subst h; simp [headTag] at hz
  · subst h; simp [headTag] at hz'
  · simp only [List.cons.injEq, XTok.cname.injEq, true_and] at h
    obtain ⟨rfl, rfl⟩ := h
    exact ⟨rfl, rfl⟩

theorem bodyToks_append_inj (st st' : XStep) (r r' : List XTok) (hr : headTag r ≤ 1) (hr' : headTag r' ≤ 1)
    (h : bodyToks st ++ r = bodyToks st' ++ r') : st = st' ∧ r = r' := by
  obtain ⟨f, i, c⟩ := st
  obtain ⟨f', i', c'⟩ := st'
  rw [bodyToks_eq, bodyToks_eq] at h
  simp only [List.append_assoc] at h
  obtain ⟨a1, a2⟩ := headTag_cls c r hr
  obtain ⟨b1, b2⟩ := headTag_cls c' r' hr'
  obtain ⟨e1, h1⟩ := fldToks_inj f f' _ _ (headTag_idx i _ a1) (headTag_idx i' _ b1) h
  obtain ⟨e2, h2⟩ := idxToks_inj i i' _ _ a2 b2 h1
  obtain ⟨e3, e4⟩ := clsToks_inj c c' r r' hr hr' h2
  subst e1; subst e2; subst e3; subst e4
  exact ⟨rfl, rfl⟩

theorem headTag_pathToks (p : List XStep) : headTag (pathToks p) ≤ 1 := by
  cases p with
  | nil => simp [pathToks, headTag]
  | cons st p => rw [pathToks_cons]; simp [headTag]

/-- a written path is determined by its token sequence -/
theorem pathToks_inj : ∀ p p' : List XStep, pathToks p = pathToks p' → p = p'
  | [], [], _ => rfl
  | [], st :: p', h => by rw [pathToks_cons] at h; simp [pathToks] at h
  | st :: p, [], h => by rw [pathToks_cons] at h; simp [pathToks] at h
  | st :: p, st' :: p', h => by
    rw [pathToks_cons, pathToks_cons] at h
    injection h with _ h1
    obtain ⟨e1, h2⟩ := bodyToks_append_inj st st' _ _ (headTag_pathToks p) (headTag_pathToks p') h1
    rw [e1, pathToks_inj p p' h2]

/-- the (prefixed) text of a written path is the rendering of its tokens -/
theorem pathText_xprefix (known : Str → Bool) (path : List XStep) (s : Str) (tws : List (XTok × Str))
    (hp : PathOK known path) (ht : tws.map (·.1) = pathToks path)
    (htext : s = renderToks tws ∨ ((∀ r, s ≠ '/' :: r) ∧ '/' :: '/' :: s = renderToks tws)) :
    xprefix s = renderToks tws := by
  rcases htext with rfl | ⟨hne, e⟩
  · rcases xprefix_cases (renderToks tws) with ⟨hx, -⟩ | ⟨-, hne⟩
    · exact hx
    · exfalso
      cases path with
      | nil => cases hp
      | cons st p' =>
        rw [pathToks_cons] at ht
        cases tws with
        | nil => simp at ht
        | cons tw r =>
          obtain ⟨t, ws⟩ := tw
          simp only [List.map_cons, List.cons.injEq] at ht
          obtain ⟨ht1, -⟩ := ht
          subst ht1
          exact hne _ rfl
  · rcases xprefix_cases s with ⟨-, r, hs'⟩ | ⟨hx, -⟩
    · exact absurd hs' (hne r)
    · rw [hx, e]

/-- **the grammar is unambiguous at the level of derivations**: a text is a text of at most one written
path (same fields, same digit strings, same classes, same empty steps) -/
theorem pathText_unique (known : Str → Bool) (s : Str) (p p' : List XStep)
    (h : PathText known p s) (h' : PathText known p' s) : p = p' := by
  obtain ⟨tws, hp, ht, hs, htext⟩ := h
  obtain ⟨tws', hp', ht', hs', htext'⟩ := h'
  have e := pathText_xprefix known p s tws hp ht htext
  have e' := pathText_xprefix known p' s tws' hp' ht' htext'
  have hl := xlex_render tws hs ((xprefix s).length + 1) (by rw [e]; omega)
  have hl' := xlex_render tws' hs' ((xprefix s).length + 1) (by rw [e']; omega)
  rw [← e] at hl
  rw [← e', hl] at hl'
  injection hl' with hl'
  exact pathToks_inj p p' (by rw [← ht, ← ht', hl'])

/-- a relative text means the same as "//" followed by it (stated on the relation) -/
theorem xrenders_relative (known : Str → Bool) (s : Str) (els : List XElem) (hne : ∀ r, s ≠ '/' :: r) :
    XRenders known els s ↔ XRenders known els ('/' :: '/' :: s) := by
  rw [← parseXPath_iff, ← parseXPath_iff, parseXPath_rel known s hne]

/-- an accepted xpath denotes at least one element, and the self element (first of the reversed list)
is not the empty one -/
theorem xrenders_nonempty (known : Str → Bool) (s : Str) (els : List XElem) (h : XRenders known els s) : els ≠ [] :=
  parseXPath_nonempty known s els (xparse_complete known s els h)

/-! ### non-vacuity -/
section Examples
-- `exTws` of Props/C17.lean renders `exPath`: the relation holds of a concrete non-trivial text
example : XRenders exKnown [⟨['E'], none, none, true⟩, ⟨['L'], some ['i'], some 12, false⟩] (renderToks exTws) :=
  ⟨exPath, ⟨exTws, by simp [PathOK, exPath, exKnown], by decide, by
    simp [SpacedOK, exTws, TokOK, ValidName, isWS, isNameStart, isLetter, isDigitC, renderToks, tokStr, startsName, isNameChar]
    exact ⟨⟨'i', [], by decide⟩, ⟨'L', [], by decide⟩, ⟨'E', [], by decide⟩⟩, Or.inl rfl⟩, by decide⟩
-- `///E`, ` /E`, `[007]`, `[ ]`: sentences of the grammar the narrower written-path relation of C07Parse misses
example : parseXPath exKnown ['/', '/', '/', 'E'] = some [⟨['E'], none, none, true⟩] := by decide
example : parseXPath exKnown [' ', '/', 'E'] = some [⟨['E'], none, none, true⟩] := by decide
example : parseXPath exKnown ['/', '[', '0', ' ', '0', '7', ']', 'E'] = some [⟨['E'], none, some 7, false⟩] := by decide
example : parseXPath exKnown ['/', '[', ' ', ']', 'E'] = some [⟨['E'], none, none, false⟩] := by decide
-- not sentences
example : parseXPath exKnown ['/', 'E', '/'] = none := by decide
example : parseXPath exKnown ['/', '@', 'i', 'E'] = none := by decide
example : parseXPath exKnown ['/', 'E', '[', '1', ']'] = none := by decide
end Examples

end C17
end PyOak

#print axioms PyOak.C17.xlex_sound
#print axioms PyOak.C17.parseSteps_sound
#print axioms PyOak.C17.xparse_sound
#print axioms PyOak.C17.parseXPath_iff
#print axioms PyOak.C17.xrenders_unique
#print axioms PyOak.C17.pathText_unique
#print axioms PyOak.C17.digits_canonical
