import PyOak.Props.C05
import PyOak.Props.C05Extra
