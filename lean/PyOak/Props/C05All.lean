import PyOak.Props.C05
import PyOak.Props.C05Extra
import PyOak.Props.C05Trails
import PyOak.Props.C05Depth
import PyOak.Props.C05Paths
import PyOak.Props.C05Lookup
import PyOak.Props.C05PostPaths
import PyOak.Props.C05BfsPaths
