import PyOak.Props.GenBridge
import PyOak.Props.C07Main
import PyOak.Props.C07Parse
import PyOak.Props.C07Agree
