/-
C01 (addition, AUDIT C01 §4 (ii)) — `ContentEq` read FIELD BY FIELD, as the property text has it.

`ContentEq a b := canonN a = canonN b` and `canonN` is the digest input with `cid` replaced by
recursion (it calls the model helpers `comparableSorted` / `sortByName`).  Here the same relation
is characterised without any sorting, filtering or rendering:

  contentEq_iff_fields   ContentEq (.mk h ks) (.mk h' ks') ↔
        h.cls = h'.cls                                             -- same class
      ∧ (∀ name, cmpGet h name = cmpGet h' name)                   -- same comparable name ↦ (type text, value text) map
      ∧ All2 (fun k k' => k.name = k'.name ∧ All2 ContentEq k.nodes k'.nodes) ks ks'
                                                                   -- child fields pairwise, in DECLARATION order,
                                                                   -- children pairwise content-equal (same count:
                                                                   -- an absent child differs from every present one)
  contentEq_iff_same     ContentEq a b ↔ SameContent a b, `SameContent` the inductive closure of the above.

Hypotheses: `WFN` (names are identifiers, no duplicate names) and `Conforms sig` for both trees (the
child fields are a property of the class: needed, see `C02.Demo.u1/u2` and `fields_need_conforms`).
`cmpGet` is a plain left-to-right lookup among the `compare=True` properties in declaration order.
-/
import PyOak.Props.C02
namespace PyOak
namespace C01
open Framing C02

/-- value of the comparable property `name`: (text of `type(v)`, text of `str(v)`); `none` if the
class has no comparable property of that name -/
def cmpGet (h : Head) (name : Str) : Option (Str × Str) :=
  ((h.props.filter (·.compare)).find? (fun p => p.name == name)).map fun p => (p.ty, p.txt)

theorem find_map_iff {f : PropV → Str × Str} : ∀ (L : List PropV), (L.map (·.name)).Nodup → ∀ (x : Str) (v : Str × Str),
    ((L.find? (fun p => p.name == x)).map f = some v ↔ ∃ p ∈ L, p.name = x ∧ f p = v)
  | [], _, x, v => by simp
  | q :: r, hnd, x, v => by
    simp only [List.map_cons, List.nodup_cons, List.mem_map, not_exists, not_and] at hnd
    by_cases hq : q.name = x
    · simp only [List.find?_cons, hq, beq_self_eq_true, Option.map_some, Option.some.injEq,
        List.mem_cons, exists_eq_or_imp, true_and]
      constructor
      · exact fun e => .inl e
      · rintro (e | ⟨p, hp, hpx, -⟩)
        · exact e
        · exact absurd (hpx.trans hq.symm) (hnd.1 p hp)
    · have : (q.name == x) = false := by simpa using hq
      simp only [List.find?_cons, this, List.mem_cons, exists_eq_or_imp, hq, false_and, false_or]
      exact find_map_iff r hnd.2 x v

theorem cmp_nodup {h : Head} (hnd : (h.props.map (·.name)).Nodup) :
    ((h.props.filter (·.compare)).map (·.name)).Nodup :=
  hnd.sublist (List.Sublist.map _ List.filter_sublist)

theorem cmpGet_iff {h : Head} (hnd : (h.props.map (·.name)).Nodup) (x : Str) (v : Str × Str) :
    cmpGet h x = some v ↔ ∃ p ∈ h.props, p.compare = true ∧ p.name = x ∧ (p.ty, p.txt) = v := by
  rw [cmpGet, find_map_iff _ (cmp_nodup hnd)]
  simp only [List.mem_filter]
  constructor
  · rintro ⟨p, ⟨a, b⟩, c, d⟩; exact ⟨p, a, b, c, d⟩
  · rintro ⟨p, a, b, c, d⟩; exact ⟨p, ⟨a, b⟩, c, d⟩

/-- the sorted list of comparable triples is determined by the lookup function, and vice versa -/
theorem triples_eq_iff (h h' : Head) (hnd : (h.props.map (·.name)).Nodup)
    (hnd' : (h'.props.map (·.name)).Nodup) :
    (comparableSorted h).map triple = (comparableSorted h').map triple ↔
      ∀ name, cmpGet h name = cmpGet h' name := by
  have key : ∀ (g : Head), (g.props.map (·.name)).Nodup → ∀ t : Str × Str × Str,
      t ∈ (comparableSorted g).map triple ↔ cmpGet g t.1 = some t.2 := by
    intro g hg t
    rw [cmpGet_iff hg]
    simp only [comparableSorted, sortByName, List.mem_map, mem_sortBy, List.mem_filter, triple]
    constructor
    · rintro ⟨p, ⟨a, b⟩, rfl⟩; exact ⟨p, a, b, rfl, rfl⟩
    · rintro ⟨p, a, b, c, d⟩; exact ⟨p, ⟨a, b⟩, Prod.ext c d⟩
  constructor
  · intro e name
    have hsub : ∀ (g g' : Head), (g.props.map (·.name)).Nodup → (g'.props.map (·.name)).Nodup →
        (comparableSorted g).map triple = (comparableSorted g').map triple →
        ∀ v, cmpGet g name = some v → cmpGet g' name = some v := by
      intro g g' hg hg' e v hv
      have := (key g hg (name, v)).mpr hv
      rw [e] at this
      exact (key g' hg' (name, v)).mp this
    cases hv : cmpGet h name with
    | some v => exact (hsub h h' hnd hnd' e v hv).symm
    | none =>
      cases hv' : cmpGet h' name with
      | none => rfl
      | some v' => rw [hsub h' h hnd' hnd e.symm v' hv'] at hv; cases hv
  · intro e
    -- the two unsorted triple lists are permutations of each other (same members, no duplicates)
    have hT : ∀ (g : Head), (comparableSorted g).map triple =
        sortByName (·.1) ((g.props.filter (·.compare)).map triple) := by
      intro g
      rw [comparableSorted, sortByName_map triple (·.1) PropV.name (by intro a; rfl)]
    have hN : ∀ (g : Head), (g.props.map (·.name)).Nodup →
        ((((g.props.filter (·.compare)).map triple)).map (·.1)).Nodup := by
      intro g hg
      rw [List.map_map]
      exact cmp_nodup hg
    rw [hT, hT]
    apply sortByName_eq_of_perm _ _ (hN h hnd)
    have nd : ∀ (g : Head), (g.props.map (·.name)).Nodup →
        ((g.props.filter (·.compare)).map triple).Nodup := fun g hg => List.Pairwise.of_map (fun x => x.1) (fun a b hab e => hab (by rw [e])) (hN g hg)
    refine (List.perm_ext_iff_of_nodup (nd h hnd) (nd h' hnd')).mpr ?_
    intro t
    have m : ∀ (g : Head), t ∈ (g.props.filter (·.compare)).map triple ↔ t ∈ (comparableSorted g).map triple := by
      intro g
      simp only [comparableSorted, sortByName, List.mem_map, mem_sortBy]
    rw [m, m, key h hnd, key h' hnd', e]

theorem all2_contentEq_iff (ns ns' : List Node) : All2 ContentEq ns ns' ↔ ns.map canonN = ns'.map canonN := by
  induction ns generalizing ns' with
  | nil => cases ns' <;> simp [All2]
  | cons n r ih =>
    cases ns' with
    | nil => simp [All2]
    | cons n' r' => simp [All2, ih, ContentEq]

theorem all2_kids_iff (ks ks' : List Kid) :
    All2 (fun k k' => k.name = k'.name ∧ All2 ContentEq k.nodes k'.nodes) ks ks' ↔
      ks.map canonKid = ks'.map canonKid := by
  induction ks generalizing ks' with
  | nil => cases ks' <;> simp [All2]
  | cons k r ih =>
    cases ks' with
    | nil => simp [All2]
    | cons k' r' =>
      simp only [All2]
      rw [ih r']
      simp only [List.map_cons, List.cons.injEq, canonKid_eq, all2_contentEq_iff, Prod.mk.injEq]

theorem All2.and_left {α β : Type} {R S : α → β → Prop} : ∀ {xs : List α} {ys : List β},
    All2 R xs ys → All2 S xs ys → All2 (fun x y => R x y ∧ S x y) xs ys
  | [], [], _, _ => trivial
  | _ :: _, _ :: _, h, g => ⟨⟨h.1, g.1⟩, All2.and_left h.2 g.2⟩
  | [], _ :: _, h, _ => h.elim
  | _ :: _, [], h, _ => h.elim

/-- **content equality, field by field** -/
theorem contentEq_iff_fields (sig : Str → List (Str × Bool)) (h h' : Head) (ks ks' : List Kid)
    (ha : WFN (.mk h ks)) (hb : WFN (.mk h' ks'))
    (ca : Conforms sig (.mk h ks)) (cb : Conforms sig (.mk h' ks')) :
    ContentEq (.mk h ks) (.mk h' ks') ↔
      h.cls = h'.cls ∧ (∀ name, cmpGet h name = cmpGet h' name) ∧
      All2 (fun k k' => k.name = k'.name ∧ All2 ContentEq k.nodes k'.nodes) ks ks' := by
  obtain ⟨-, -, hnd, -, -⟩ := (WFN_iff h ks).mp ha
  obtain ⟨-, -, hnd', -, -⟩ := (WFN_iff h' ks').mp hb
  constructor
  · intro hc
    have hal := aligned sig h h' ks ks' ha hb ca cb hc
    have hc' := hc
    rw [ContentEq, canonN_eq, canonN_eq] at hc'
    simp only [Canon.mk.injEq] at hc'
    refine ⟨hc'.1, (triples_eq_iff h h' hnd hnd').mp hc'.2.1, ?_⟩
    have e : ks.map (fun k => (k.name, k.coll)) = ks'.map (fun k => (k.name, k.coll)) := by
      rw [((Conforms_iff sig h ks).mp ca).1, ((Conforms_iff sig h' ks').mp cb).1, hc'.1]
    have hn : All2 (fun k k' : Kid => k.name = k'.name) ks ks' :=
      All2.imp_mem (All2.of_map_eq _ _ e) (fun k _ k' _ hkk => by
        simp only [Prod.mk.injEq] at hkk; exact hkk.1)
    exact All2.and_left hn hal
  · rintro ⟨e1, e2, e3⟩
    rw [ContentEq]
    simp only [canonN, canonKids_eq]
    have e2' := (triples_eq_iff h h' hnd hnd').mpr e2
    have e2'' : (comparableSorted h).map (fun p => (p.name, p.ty, p.txt)) =
        (comparableSorted h').map (fun p => (p.name, p.ty, p.txt)) := e2'
    rw [e1, e2'', (all2_kids_iff ks ks').mp e3]

/-! ### the inductive reading -/

mutual
/-- structural content equality as the property states it: same class, equal comparable
properties (name ↦ type and value texts), the child fields pairwise in declaration order with
pairwise content-equal children (hence the same number of children: absent ≠ present, tuples of
different length differ) -/
inductive SameContent : Node → Node → Prop where
  | mk (h h' : Head) (ks ks' : List Kid) :
      h.cls = h'.cls → (∀ name, cmpGet h name = cmpGet h' name) → SameKids ks ks' →
      SameContent (.mk h ks) (.mk h' ks')
inductive SameKids : List Kid → List Kid → Prop where
  | nil : SameKids [] []
  | cons (k k' : Kid) (r r' : List Kid) :
      k.name = k'.name → SameNodes k.nodes k'.nodes → SameKids r r' → SameKids (k :: r) (k' :: r')
inductive SameNodes : List Node → List Node → Prop where
  | nil : SameNodes [] []
  | cons (n n' : Node) (r r' : List Node) :
      SameContent n n' → SameNodes r r' → SameNodes (n :: r) (n' :: r')
end

theorem sameNodes_iff : ∀ (xs ys : List Node), SameNodes xs ys ↔ All2 SameContent xs ys
  | [], [] => ⟨fun _ => trivial, fun _ => .nil⟩
  | x :: xs, y :: ys =>
    ⟨fun h => (by cases h with | cons _ _ _ _ a b => exact ⟨a, (sameNodes_iff xs ys).mp b⟩),
     fun h => .cons _ _ _ _ h.1 ((sameNodes_iff xs ys).mpr h.2)⟩
  | [], _ :: _ => ⟨fun h => (by cases h), fun h => h.elim⟩
  | _ :: _, [] => ⟨fun h => (by cases h), fun h => h.elim⟩

theorem sameKids_iff : ∀ (xs ys : List Kid),
    SameKids xs ys ↔ All2 (fun k k' => k.name = k'.name ∧ All2 SameContent k.nodes k'.nodes) xs ys
  | [], [] => ⟨fun _ => trivial, fun _ => .nil⟩
  | x :: xs, y :: ys =>
    ⟨fun h => (by
      cases h with
      | cons _ _ _ _ a b c => exact ⟨⟨a, (sameNodes_iff _ _).mp b⟩, (sameKids_iff xs ys).mp c⟩),
     fun h => .cons _ _ _ _ h.1.1 ((sameNodes_iff _ _).mpr h.1.2) ((sameKids_iff xs ys).mpr h.2)⟩
  | [], _ :: _ => ⟨fun h => (by cases h), fun h => h.elim⟩
  | _ :: _, [] => ⟨fun h => (by cases h), fun h => h.elim⟩

theorem contentEq_iff_same_aux (sig : Str → List (Str × Bool)) :
    ∀ (n : Nat) (a b : Node), a.size ≤ n → WFN a → WFN b → Conforms sig a → Conforms sig b →
      (ContentEq a b ↔ SameContent a b) := by
  intro n
  induction n with
  | zero => intro a b hs; have := a.size_pos; omega
  | succ n ih =>
    intro a b hs ha hb ca cb
    cases a with
    | mk h ks =>
    cases b with
    | mk h' ks' =>
    obtain ⟨-, -, -, ha4, -⟩ := (WFN_iff h ks).mp ha
    obtain ⟨-, -, -, hb4, -⟩ := (WFN_iff h' ks').mp hb
    have ca2 := ((Conforms_iff sig h ks).mp ca).2
    have cb2 := ((Conforms_iff sig h' ks').mp cb).2
    have step : ∀ (k : Kid), k ∈ ks → ∀ (k' : Kid), k' ∈ ks' → ∀ x ∈ k.nodes, ∀ y ∈ k'.nodes,
        (ContentEq x y ↔ SameContent x y) := by
      intro k hk k' hk' x hx y hy
      have hsz := size_lt_of_mem (h := h) hk hx
      exact ih x y (by omega) (((WFKid_iff k).mp (ha4 k hk)).2.2 x hx)
        (((WFKid_iff k').mp (hb4 k' hk')).2.2 y hy) (ca2 k hk x hx) (cb2 k' hk' y hy)
    rw [contentEq_iff_fields sig h h' ks ks' ha hb ca cb]
    constructor
    · rintro ⟨e1, e2, e3⟩
      refine .mk h h' ks ks' e1 e2 ((sameKids_iff _ _).mpr (All2.imp_mem e3 ?_))
      rintro k hk k' hk' ⟨en, ec⟩
      exact ⟨en, All2.imp_mem ec (fun x hx y hy hxy => (step k hk k' hk' x hx y hy).mp hxy)⟩
    · intro hs
      cases hs with
      | mk _ _ _ _ e1 e2 e3 =>
        refine ⟨e1, e2, All2.imp_mem ((sameKids_iff _ _).mp e3) ?_⟩
        rintro k hk k' hk' ⟨en, ec⟩
        exact ⟨en, All2.imp_mem ec (fun x hx y hy hxy => (step k hk k' hk' x hx y hy).mpr hxy)⟩

/-- `ContentEq` (equality of the canonical forms) is exactly the inductive field-by-field relation -/
theorem contentEq_iff_same (sig : Str → List (Str × Bool)) (a b : Node) (ha : WFN a) (hb : WFN b)
    (ca : Conforms sig a) (cb : Conforms sig b) : ContentEq a b ↔ SameContent a b :=
  contentEq_iff_same_aux sig a.size a b (Nat.le_refl _) ha hb ca cb

/-- C01 as the property text reads, for the idealised digest: equal content ids ⇔ same class,
same comparable properties, same children field by field (recursively) -/
theorem cid_eq_iff_same (H : Str → Str) (hinj : Function.Injective H) (hsep : ∀ s, ∀ c ∈ H s, c ≠ ':')
    (sig : Str → List (Str × Bool)) (a b : Node) (ha : WFN a) (hb : WFN b)
    (ca : Conforms sig a) (cb : Conforms sig b) : cid H a = cid H b ↔ SameContent a b :=
  (cid_eq_iff H hinj hsep a b ha hb).trans (contentEq_iff_same sig a b ha hb ca cb)

/-- "a missing optional child differs from every present child" (and tuples of different length
differ): if at the same declaration index the numbers of children differ, the nodes are not
content-equal -/
theorem absent_ne_present (sig : Str → List (Str × Bool)) (h h' : Head) (ks ks' : List Kid)
    (ha : WFN (.mk h ks)) (hb : WFN (.mk h' ks'))
    (ca : Conforms sig (.mk h ks)) (cb : Conforms sig (.mk h' ks'))
    (i : Nat) (k k' : Kid) (hk : ks[i]? = some k) (hk' : ks'[i]? = some k')
    (hlen : k.nodes.length ≠ k'.nodes.length) : ¬ ContentEq (.mk h ks) (.mk h' ks') := by
  intro hc
  have h3 := ((contentEq_iff_fields sig h h' ks ks' ha hb ca cb).mp hc).2.2
  have get : ∀ (xs ys : List Kid) (i : Nat) (k k' : Kid),
      All2 (fun k k' => k.name = k'.name ∧ All2 ContentEq k.nodes k'.nodes) xs ys →
      xs[i]? = some k → ys[i]? = some k' → All2 ContentEq k.nodes k'.nodes := by
    intro xs
    induction xs with
    | nil => intro ys i k k' _ h1; simp at h1
    | cons x r ih =>
      intro ys i k k' hall h1 h2
      cases ys with
      | nil => simp at h2
      | cons y s =>
        cases i with
        | zero =>
          simp only [List.getElem?_cons_zero, Option.some.injEq] at h1 h2
          subst h1; subst h2; exact hall.1.2
        | succ j =>
          simp only [List.getElem?_cons_succ] at h1 h2
          exact ih s j k k' hall.2 h1 h2
  have h4 := (all2_contentEq_iff _ _).mp (get ks ks' i k k' h3 hk hk')
  exact hlen (by simpa using congrArg List.length h4)

namespace Demo
open C02.Demo (sig t1 t2 t4 wf_tree conf_tree u1 u2 leafA nodeQ org)

-- non-vacuity: `t1`, `t2` (other objects, same content) satisfy all hypotheses
example : SameContent t1 t2 :=
  (contentEq_iff_same sig t1 t2 (wf_tree ..) (wf_tree ..) (conf_tree ..) (conf_tree ..)).mp
    ((C02.eq_iff Hesc Hesc_injective Hesc_no_colon sig t1 t2 (wf_tree ..) (wf_tree ..) (conf_tree ..)
      (conf_tree ..)).mp (by decide)).1

theorem wf_t4 : WFN t4 := by
  simp [t4, C02.Demo.tree, nodeQ, leafA, WFN_iff, WFKid_iff, IdentLike, Kid.name, Kid.coll, Kid.nodes]
  decide
theorem conf_t4 : Conforms sig t4 := by
  simp [t4, C02.Demo.tree, nodeQ, leafA, Conforms_iff, Kid.name, Kid.coll, Kid.nodes, sig]

-- `t4` has a present optional child where `t1` has none, two levels down: not content-equal,
-- through the field-by-field reading (no digest involved)
example : ¬ SameContent t1 t4 := by
  intro h
  have hc := (contentEq_iff_same sig t1 t4 (wf_tree ..) wf_t4 (conf_tree ..) conf_t4).mpr h
  exact absurd ((cid_eq_iff Hesc Hesc_injective Hesc_no_colon t1 t4 (wf_tree ..) wf_t4).mpr hc) (by decide)

/-- `Conforms` is needed: `u1`, `u2` (same class, fields declared in different orders: impossible
for instances of one Python class) are content-equal but do not agree field by field -/
theorem fields_need_conforms : ContentEq u1 u2 ∧
    ¬ All2 (fun k k' : Kid => k.name = k'.name ∧ All2 ContentEq k.nodes k'.nodes) u1.kids u2.kids := by
  constructor
  · have wf : WFN u1 ∧ WFN u2 := by
      simp [u1, u2, leafA, WFN_iff, WFKid_iff, IdentLike, Kid.name, Kid.coll, Kid.nodes]
      decide
    exact (cid_eq_iff Hesc Hesc_injective Hesc_no_colon u1 u2 wf.1 wf.2).mp (by decide)
  · simp [u1, u2, Node.kids, All2, Kid.name]

-- the lookup is a plain left-to-right search among comparable properties
-- comparable `v` is found, the non-comparable `m` and unknown names are not
example : cmpGet n1.hd ['v'] = some (['s', 't', 'r'], txt) ∧ cmpGet n1.hd ['m'] = none ∧
    cmpGet n1.hd ['q'] = none := by decide
-- `n1`, `n2` differ in the value of the non-comparable `m`: same comparable map
example : ∀ name, cmpGet n1.hd name = cmpGet n2.hd name :=
  (triples_eq_iff n1.hd n2.hd (by decide) (by decide)).mp (by decide)

end Demo

end C01
end PyOak
