/-
Bridge for `pyoak.tree.Tree` (C06): the hand-written model `TreeT` (Model/Tree.lean) is the set of definitions GENERATED from
`class Tree` (src/pyoak/tree.py) by harness/py2lean_t.py (Gen/KernelsTree.lean), instantiated with

  py.id := Node.uid     py.isinstance := Node.isInst     py.type_of = py.class_name := Node.cls
  py.dfs := the model's pre-order stream `dfsImpl`       self := `toS t` (the two tables of `t`, same keys, same order)

ON EVERY TABLE `t` (no hypothesis):
  isRoot_eq_gen, isInTree_eq_gen, getXpath_eq_gen, getParentInfo_eq_gen, getParent_eq_gen   (model = generated)
  initStep_eq_gen   one iteration of the `__init__` loop, when the parent's xpath is in the table (else the code raises
                    KeyError where the model substitutes the empty text; never the case in `Tree(root)`: init_eq_gen)

ON EVERY TABLE, FOR EVERY NODE WHOSE UPWARD WALK HAS SLACK (`Slack t f n`: the fuel f is positive and either the first lookup
raises or the model's walk ends after fewer than f ancestors; the generated functions carry the fuel the `while` loop /
the recursion of the source does not have, and answer `OutOfFuel` when it runs out):
  getAncestors_eq_gen, isAncestor_eq_gen, firstAncestorOfType_eq_gen, getDepth_eq_gen       (model = generated, fuel
                    `t.root.size` on both sides; in particular the generated functions do not run out of fuel)

ON THE TABLES OF `Tree(root)` (`TreeT.build root`, `NoRepeat root`) every node has slack (`slack_build`), hence
  getAncestors_build_eq_gen, isAncestor_build_eq_gen, firstAncestorOfType_build_eq_gen, getDepth_build_eq_gen
and `init_eq_gen`: the generated `__init__` returns exactly the tables of `TreeT.build root` (no hypothesis on `root`).
-/
import PyOak.Gen.KernelsTree
import PyOak.Props.C06Total
namespace PyOak.GenBridgeTree
open PyOak

/-! ### the instantiation -/

def toErr : TErr → GenT.Err
  | .keyError => .KeyError
  | .valueError => .ValueError

/-- a result of the model as a result of the generated code -/
def embed {α β : Type} (f : α → β) : Except TErr α → Except GenT.Err β
  | .ok a => .ok (f a)
  | .error e => .error (toErr e)

/-- `list(generator)` of the model as the trace of the generated generator -/
def genOf {α : Type} : Except TErr (List α) → GenT.Gen α
  | .ok l => (l, none)
  | .error e => ([], some (toErr e))

def toPI (p : PInfo) : GenT.ParentInfo Node :=
  { parent := p.parent, field := ⟨p.edge.field⟩, findex := p.edge.idx.map Int.ofNat }

def toItem (it : Item) : GenT.NodeTraversalInfo Node :=
  { node := it.node, parent := it.parent, field := ⟨it.edge.field⟩, findex := it.edge.idx.map Int.ofNat }

/-- `get_parent_info` returns a 3-tuple -/
def piTuple : Option PInfo → Option Node × Option GenT.FieldR × Option Int
  | none => (none, none, none)
  | some p => (some p.parent, some ⟨p.edge.field⟩, p.edge.idx.map Int.ofNat)

def pyNode : GenT.Py Node Str :=
  { id := Node.uid, isinstance := Node.isInst, type_of := Node.cls, class_name := Node.cls,
    dfs := fun n => (dfsImpl (fun _ => false) (fun _ => true) false n).map toItem }

def toS (t : TreeT) : GenT.TreeS Node :=
  { root := t.root, node_to_parent_info := t.pinfo.map (fun kv => (kv.1, toPI kv.2)), node_to_xpath := t.xpath }

/-- `ancestor_class`: a tuple of classes -/
def classArg (classes : List Str) : Str ⊕ List Str := .inr classes

/-! ### dictionaries -/

theorem getitem_map {β γ : Type} (f : β → γ) (d : List (Nat × β)) (k : Nat) :
    GenT.Dict.getitem (d.map (fun kv => (kv.1, f kv.2))) k =
      match dictGet? d k with
      | some v => .ok (f v)
      | none => .error .KeyError := by
  unfold GenT.Dict.getitem dictGet?
  induction d with
  | nil => rfl
  | cons kv r ih =>
    cases h : (kv.1 == k)
    · simp only [List.map_cons, List.find?_cons, h]
      exact ih
    · simp only [List.map_cons, List.find?_cons, h, Option.map_some]

theorem getitem_eq {β : Type} (d : List (Nat × β)) (k : Nat) :
    GenT.Dict.getitem d k = match dictGet? d k with
      | some v => .ok v
      | none => .error .KeyError := by
  have := getitem_map (fun x : β => x) d k
  simpa using this

theorem setitem_map {β γ : Type} (f : β → γ) (d : List (Nat × β)) (k : Nat) (v : β) :
    GenT.Dict.setitem (d.map (fun kv => (kv.1, f kv.2))) k (f v) = (dictSet d k v).map (fun kv => (kv.1, f kv.2)) := by
  unfold GenT.Dict.setitem dictSet
  simp only [List.any_map, Function.comp_def]
  split
  · simp only [List.map_map, Function.comp_def]
    apply List.map_congr_left
    intro kv _
    split <;> rfl
  · simp

theorem setitem_eq {β : Type} (d : List (Nat × β)) (k : Nat) (v : β) : GenT.Dict.setitem d k v = dictSet d k v := rfl

/-! ### queries without a loop: on every table -/

/-- `a is b` is symmetric (the source may write the root test either way round) -/
theorem uid_beq_comm (a b : Nat) : (a == b) = (b == a) := by
  rw [Bool.eq_iff_iff]
  simp only [beq_iff_eq]
  exact eq_comm

theorem isRoot_eq_gen (t : TreeT) (n : Node) : t.isRoot n = GenT.is_root pyNode (toS t) n := by
  unfold TreeT.isRoot GenT.is_root
  first
    | rfl
    | exact uid_beq_comm _ _

theorem isInTree_eq_gen (t : TreeT) (n : Node) : t.isInTree n = GenT.is_in_tree pyNode (toS t) n := by
  unfold TreeT.isInTree GenT.is_in_tree
  simp [GenT.Dict.contains, pyNode, toS]

theorem getXpath_eq_gen (t : TreeT) (n : Node) :
    embed id (t.getXpath n) = GenT.get_xpath pyNode (toS t) n := by
  unfold TreeT.getXpath GenT.get_xpath
  simp only [pyNode, toS, getitem_eq]
  cases dictGet? t.xpath n.uid <;> simp [embed, toErr]

theorem getParentInfo_eq_gen (t : TreeT) (n : Node) :
    embed piTuple (t.getParentInfo n) = GenT.get_parent_info pyNode (toS t) n := by
  unfold TreeT.getParentInfo TreeT.isRoot GenT.get_parent_info
  simp only [pyNode, toS, getitem_map]
  by_cases h : t.root.uid = n.uid
  · simp [h, embed, piTuple]
  · have h' : ¬ n.uid = t.root.uid := fun e => h e.symm
    cases hd : dictGet? t.pinfo n.uid <;> simp [h, h', embed, piTuple, toPI, toErr]

theorem getParent_eq_gen (t : TreeT) (n : Node) :
    embed id (t.getParent n) = GenT.get_parent pyNode (toS t) n := by
  unfold TreeT.getParent TreeT.getParentInfo TreeT.isRoot GenT.get_parent
  simp only [pyNode, toS, getitem_map]
  by_cases h : t.root.uid = n.uid
  · simp [h, embed, Except.map]
  · have h' : ¬ n.uid = t.root.uid := fun e => h e.symm
    cases hd : dictGet? t.pinfo n.uid <;> simp [h, h', embed, Except.map, toPI, toErr]

/-! ### the upward walk (`get_ancestors`: a `while` loop in a generator) -/

/-- the walk from `n` ends within the fuel `f`: the first lookup raises, or the model's walk returns fewer than `f` ancestors -/
def Slack (t : TreeT) (f : Nat) (n : Node) : Prop :=
  0 < f ∧ ((∃ e, t.getParent n = .error e) ∨ ∃ l, t.ancestorsAux f n = .ok l ∧ l.length < f)

/-- one turn of the generated loop -/
theorem loop_some (s : GenT.TreeS Node) (f : Nat) (p : Node) :
    GenT.get_ancestors_loop pyNode s (f + 1) (some p) = GenT.Gen.yield_ p (GenT.get_ancestors pyNode s f p) := by
  rw [GenT.get_ancestors_loop]
  unfold GenT.get_ancestors
  rfl

theorem ancestorsAux_ok_gen (t : TreeT) : ∀ (f : Nat) (n : Node) (l : List Node),
    t.ancestorsAux f n = .ok l → l.length < f → GenT.get_ancestors pyNode (toS t) f n = (l, none) := by
  intro f
  induction f with
  | zero => intro n l _ hl; omega
  | succ f ih =>
    intro n l h hl
    have hp := getParent_eq_gen t n
    unfold TreeT.ancestorsAux at h
    unfold GenT.get_ancestors
    rw [← hp]
    cases hgp : t.getParent n with
    | error e => simp [hgp] at h
    | ok op =>
      cases op with
      | none =>
        simp only [hgp, Except.ok.injEq] at h
        subst h
        simp only [embed, id]
        rw [GenT.get_ancestors_loop]
        rfl
      | some p =>
        simp only [hgp] at h
        cases hr : t.ancestorsAux f p with
        | error e => simp [hr] at h
        | ok r =>
          simp only [hr, Except.ok.injEq] at h
          subst h
          have := ih p r hr (by simp at hl; omega)
          simp only [embed, id]
          rw [loop_some, this]
          rfl

theorem ancestorsAux_eq_gen (t : TreeT) (f : Nat) (n : Node) (h : Slack t f n) :
    genOf (t.ancestorsAux f n) = GenT.get_ancestors pyNode (toS t) f n := by
  obtain ⟨hf, h | ⟨l, hl, hlen⟩⟩ := h
  · obtain ⟨e, he⟩ := h
    obtain ⟨f', rfl⟩ : ∃ f', f = f' + 1 := ⟨f - 1, by omega⟩
    have hp := getParent_eq_gen t n
    unfold TreeT.ancestorsAux GenT.get_ancestors
    rw [← hp, he]
    rfl
  · rw [ancestorsAux_ok_gen t f n l hl hlen, hl]
    rfl

/-- `get_ancestors` -/
theorem getAncestors_eq_gen (t : TreeT) (n : Node) (h : Slack t t.root.size n) :
    genOf (t.getAncestors n) = GenT.get_ancestors pyNode (toS t) t.root.size n :=
  ancestorsAux_eq_gen t t.root.size n h

/-! ### consumers of the generator -/

theorem forReturn_genOf {α β : Type} (r : Except TErr (List α)) (body : α → Option β) (rest : Except GenT.Err β) :
    GenT.Gen.forReturn (genOf r) body rest =
      match r with
      | .error e => .error (toErr e)
      | .ok l => match l.findSome? body with
        | some x => .ok x
        | none => rest := by
  cases r with
  | error e => simp [genOf, GenT.Gen.forReturn]
  | ok l => simp only [genOf, GenT.Gen.forReturn]; cases l.findSome? body <;> rfl

theorem findSome_guard {α β : Type} (p : α → Bool) (g : α → β) (l : List α) :
    l.findSome? (fun a => if p a then some (g a) else none) = (l.find? p).map g := by
  induction l with
  | nil => rfl
  | cons x r ih =>
    simp only [List.findSome?_cons, List.find?_cons]
    cases p x <;> simp [ih]

/-- a loop `for a in <generator>: if p(a): return True` followed by `return False` (also `any(p(a) for a in ..)`),
whatever the syntactic shape of its body -/
theorem forReturn_any {α : Type} (r : Except TErr (List α)) (p : α → Bool) (body : α → Option Bool)
    (hb : ∀ x, body x = if p x then some true else none) :
    GenT.Gen.forReturn (genOf r) body (.ok false) = embed id (r.map (·.any p)) := by
  have hb' : body = fun x => if p x then some ((fun _ => true) x) else none := funext hb
  rw [forReturn_genOf, hb']
  cases r with
  | error e => simp [embed, Except.map]
  | ok l =>
    simp only [embed, Except.map, id]
    rw [findSome_guard]
    cases hfd : l.find? p with
    | none =>
      have : l.any p = false := by
        rw [List.find?_eq_none] at hfd
        rw [List.any_eq_false]
        exact hfd
      simp [this]
    | some x =>
      have : l.any p = true := List.any_eq_true.mpr ⟨x, List.mem_of_find?_eq_some hfd, List.find?_some hfd⟩
      simp [this]

/-- a loop `for a in <generator>: if p(a): return a` followed by `return None` -/
theorem forReturn_find {α : Type} (r : Except TErr (List α)) (p : α → Bool) (body : α → Option (Option α))
    (hb : ∀ x, body x = if p x then some (some x) else none) :
    GenT.Gen.forReturn (genOf r) body (.ok none) = embed id (r.map (·.find? p)) := by
  have hb' : body = fun x => if p x then some ((fun y => some y) x) else none := funext hb
  rw [forReturn_genOf, hb']
  cases r with
  | error e => simp [embed, Except.map]
  | ok l =>
    simp only [embed, Except.map, id]
    rw [findSome_guard]
    cases l.find? p <;> rfl

/-- `is_ancestor` -/
theorem isAncestor_eq_gen (t : TreeT) (n a : Node) (h : Slack t t.root.size n) :
    embed id (t.isAncestor n a) = GenT.is_ancestor pyNode (toS t) t.root.size n a := by
  unfold GenT.is_ancestor TreeT.isAncestor
  rw [← getAncestors_eq_gen t n h]
  refine (forReturn_any _ (fun y : Node => y.uid == a.uid) _ ?_).symm
  intro x
  first
    | rfl
    | (simp only [pyNode]; rw [uid_beq_comm])

/-- what the harness passes for `ancestor_class` (one class / a tuple of classes) and the class list of the model -/
def classesOf : Str ⊕ List Str → List Str
  | .inl c => [c]
  | .inr cs => cs

/-- `get_first_ancestor_of_type` -/
theorem firstAncestorOfType_eq_gen (t : TreeT) (n : Node) (ca : Str ⊕ List Str) (exact : Bool)
    (h : Slack t t.root.size n) :
    embed id (t.firstAncestorOfType n (classesOf ca) exact)
      = GenT.get_first_ancestor_of_type pyNode (toS t) t.root.size n ca exact := by
  unfold GenT.get_first_ancestor_of_type TreeT.firstAncestorOfType
  rw [← getAncestors_eq_gen t n h]
  cases ca with
  | inl c =>
    refine (forReturn_find _ (fun a : Node => if exact = true then [c].contains a.cls else [c].any a.isInst) _ ?_).symm
    intro x
    cases exact <;> simp [pyNode]
  | inr cs =>
    refine (forReturn_find _ (fun a : Node => if exact = true then cs.contains a.cls else cs.any a.isInst) _ ?_).symm
    intro x
    cases exact <;> simp [pyNode]

/-! ### `get_depth` (recursive, with the `check_ancestor` flag) -/

/-- a call with `check_ancestor = True` is the ancestor test followed by the call with `check_ancestor = False` -/
theorem get_depth_check (s : GenT.TreeS Node) (f : Nat) (n r : Node) :
    GenT.get_depth pyNode s (f + 1) n (some r) true =
      match GenT.is_ancestor pyNode s (f + 1) n r with
      | .error e => .error e
      | .ok false => .error .ValueError
      | .ok true => GenT.get_depth pyNode s (f + 1) n (some r) false := by
  simp only [GenT.get_depth]
  cases GenT.is_ancestor pyNode s (f + 1) n r with
  | error e => rfl
  | ok b => cases b <;> rfl

theorem get_depth_nocheck (s : GenT.TreeS Node) (f : Nat) (n : Node) (chk : Bool) :
    GenT.get_depth pyNode s (f + 1) n none chk = GenT.get_depth pyNode s (f + 1) n none false := by
  simp only [GenT.get_depth]

theorem depthAux_eq_gen (t : TreeT) (rel : Option Node) : ∀ (f : Nat) (n : Node) (l : List Node),
    t.ancestorsAux f n = .ok l → l.length < f →
    embed Int.ofNat (t.depthAux rel f n) = GenT.get_depth pyNode (toS t) f n rel false := by
  intro f
  induction f with
  | zero => intro n l _ hl; omega
  | succ f ih =>
    intro n l h hl
    have hp := getParent_eq_gen t n
    unfold TreeT.ancestorsAux at h
    rw [TreeT.depthAux]
    simp only [GenT.get_depth]
    rw [← hp]
    cases hgp : t.getParent n with
    | error e => simp [hgp] at h
    | ok op =>
      cases op with
      | none => cases rel <;> simp [embed]
      | some p =>
        simp only [hgp] at h
        cases hr : t.ancestorsAux f p with
        | error e => simp [hr] at h
        | ok r =>
          simp only [hr, Except.ok.injEq] at h
          subst h
          have hrec := ih p r hr (by simp at hl; omega)
          cases rel with
          | none =>
            simp only [embed, id]
            rw [← hrec]
            cases t.depthAux none f p <;> simp [embed, Except.map]
          | some q =>
            by_cases hq : p.uid = q.uid
            · simp [embed, pyNode, hq]
            · simp only [embed, id, pyNode, beq_iff_eq, hq, if_false, Bool.false_eq_true]
              have hrec' := hrec
              simp only [pyNode] at hrec'
              rw [← hrec']
              cases t.depthAux (some q) f p <;> simp [embed, Except.map, hq]

/-- `get_depth` -/
theorem getDepth_eq_gen (t : TreeT) (n : Node) (rel : Option Node) (chk : Bool) (h : Slack t t.root.size n) :
    embed Int.ofNat (t.getDepth n rel chk) = GenT.get_depth pyNode (toS t) t.root.size n rel chk := by
  have hanc := fun a => isAncestor_eq_gen t n a h
  -- the call without the ancestor test
  have hno : embed Int.ofNat (t.depthAux rel t.root.size n) = GenT.get_depth pyNode (toS t) t.root.size n rel false := by
    obtain ⟨hf, h | ⟨l, hl, hlen⟩⟩ := h
    · obtain ⟨e, he⟩ := h
      obtain ⟨f', hf'⟩ : ∃ f', t.root.size = f' + 1 := ⟨t.root.size - 1, by omega⟩
      have hp := getParent_eq_gen t n
      rw [hf', TreeT.depthAux]
      simp only [GenT.get_depth]
      rw [← hp, he]
      cases rel <;> simp [embed]
    · exact depthAux_eq_gen t rel _ n l hl hlen
  obtain ⟨f', hf'⟩ : ∃ f', t.root.size = f' + 1 := ⟨t.root.size - 1, by have := h.1; omega⟩
  unfold TreeT.getDepth
  cases rel with
  | none =>
    rw [hf', get_depth_nocheck, ← hf']
    exact hno
  | some r =>
    cases chk with
    | false => exact hno
    | true =>
      have ha := hanc r
      rw [hf'] at ha hno ⊢
      rw [get_depth_check, ← ha, ← hno]
      simp only [if_true]
      cases t.isAncestor n r with
      | error e => simp [embed]
      | ok b => cases b <;> simp [embed, toErr]

/-! ### the tables of `Tree(root)`: every node has slack -/

theorem getParent_congr (t : TreeT) (n m : Node) (e : n.uid = m.uid) : t.getParent n = t.getParent m := by
  unfold TreeT.getParent TreeT.getParentInfo TreeT.isRoot
  rw [e]

theorem ancestorsAux_congr (t : TreeT) (f : Nat) (n m : Node) (e : n.uid = m.uid) :
    t.ancestorsAux f n = t.ancestorsAux f m := by
  cases f with
  | zero => rfl
  | succ f => rw [TreeT.ancestorsAux, TreeT.ancestorsAux, getParent_congr t n m e]

theorem slack_build (root : Node) (h : NoRepeat root) (n : Node) :
    Slack (TreeT.build root) (TreeT.build root).root.size n := by
  rw [C06.build_root]
  refine ⟨root.size_pos, ?_⟩
  by_cases hf : ∃ m ∈ allNodes root, m.uid = n.uid
  · obtain ⟨m, hm, e⟩ := hf
    obtain ⟨c, oe, hc⟩ := C06.exists_chain root m hm
    have ha := C06.ancestors_chain root h c m oe hc
    unfold TreeT.getAncestors at ha
    rw [C06.build_root] at ha
    refine Or.inr ⟨c.reverse.map (·.1), ?_, ?_⟩
    · rw [ancestorsAux_congr _ _ n m e.symm]
      exact ha
    · have := C06.chain_length_lt root c m oe hc
      simpa using this
  · exact Or.inl ⟨_, C06.getParent_foreign root n (fun m hm e => hf ⟨m, hm, e⟩)⟩

theorem getAncestors_build_eq_gen (root : Node) (h : NoRepeat root) (n : Node) :
    genOf ((TreeT.build root).getAncestors n) = GenT.get_ancestors pyNode (toS (TreeT.build root)) root.size n := by
  have := getAncestors_eq_gen _ n (slack_build root h n)
  rwa [C06.build_root] at this

theorem isAncestor_build_eq_gen (root : Node) (h : NoRepeat root) (n a : Node) :
    embed id ((TreeT.build root).isAncestor n a) = GenT.is_ancestor pyNode (toS (TreeT.build root)) root.size n a := by
  have := isAncestor_eq_gen _ n a (slack_build root h n)
  rwa [C06.build_root] at this

theorem firstAncestorOfType_build_eq_gen (root : Node) (h : NoRepeat root) (n : Node) (ca : Str ⊕ List Str) (exact : Bool) :
    embed id ((TreeT.build root).firstAncestorOfType n (classesOf ca) exact)
      = GenT.get_first_ancestor_of_type pyNode (toS (TreeT.build root)) root.size n ca exact := by
  have := firstAncestorOfType_eq_gen _ n ca exact (slack_build root h n)
  rwa [C06.build_root] at this

theorem getDepth_build_eq_gen (root : Node) (h : NoRepeat root) (n : Node) (rel : Option Node) (chk : Bool) :
    embed Int.ofNat ((TreeT.build root).getDepth n rel chk)
      = GenT.get_depth pyNode (toS (TreeT.build root)) root.size n rel chk := by
  have := getDepth_eq_gen _ n rel chk (slack_build root h n)
  rwa [C06.build_root] at this

/-- in particular the generated functions never run out of fuel on the tables of `Tree(root)` -/
theorem build_no_outOfFuel (root : Node) (h : NoRepeat root) (n : Node) (rel : Option Node) (chk : Bool) :
    (GenT.get_ancestors pyNode (toS (TreeT.build root)) root.size n).2 ≠ some .OutOfFuel ∧
    GenT.get_depth pyNode (toS (TreeT.build root)) root.size n rel chk ≠ .error .OutOfFuel := by
  rw [← getAncestors_build_eq_gen root h n, ← getDepth_build_eq_gen root h n rel chk]
  constructor
  · cases (TreeT.build root).getAncestors n with
    | ok l => simp [genOf]
    | error e => cases e <;> simp [genOf, toErr]
  · cases (TreeT.build root).getDepth n rel chk with
    | ok l => simp [embed]
    | error e => cases e <;> simp [embed, toErr]

/-! ### `__init__` -/

/-- one iteration of the loop of `TreeT.build` -/
def buildStep (t : TreeT) (it : Item) : TreeT :=
  let px := (dictGet? t.xpath it.parent.uid).getD []
  { t with pinfo := dictSet t.pinfo it.node.uid ⟨it.parent, it.edge⟩,
           xpath := dictSet t.xpath it.node.uid (px ++ xpathStep it.edge.field it.edge.idx it.node.cls) }

def buildInit (root : Node) : TreeT :=
  { root := root, pinfo := [], xpath := [(root.uid, xpathStep ['r','o','o','t'] none root.cls)] }

theorem build_eq_fold (root : Node) :
    TreeT.build root = (dfsImpl (fun _ => false) (fun _ => true) false root).foldl buildStep (buildInit root) := rfl

theorem natStr_zero : natStr 0 = ['0'] := by decide

/-- `str(i)` of a positive int is the decimal text of the model -/
theorem py_str_succ (k : Nat) : GenT.py_str_int ((k : Int) + 1) = natStr (k + 1) := rfl

/-- the loop body of `__init__`, when the xpath of the parent is in the table (`{n.findex or '0'}`: None and 0 give '0') -/
theorem initStep_eq_gen (t : TreeT) (it : Item) (px : Str) (h : dictGet? t.xpath it.parent.uid = some px) :
    GenT.init_step pyNode (toS t) (toItem it) = .ok (toS (buildStep t it)) := by
  unfold GenT.init_step buildStep
  simp only [pyNode, toS, toItem, getitem_eq, h, Option.getD_some]
  have hpi : ({ parent := it.parent, field := ⟨it.edge.field⟩, findex := it.edge.idx.map Int.ofNat } : GenT.ParentInfo Node)
      = toPI ⟨it.parent, it.edge⟩ := rfl
  rw [hpi, setitem_map toPI, setitem_eq]
  cases it.edge.idx with
  | none => simp [xpathStep, natStr_zero]
  | some k =>
    cases k with
    | zero => simp [xpathStep, natStr_zero]
    | succ k =>
      have hne : ¬ ((k : Int) + 1 = 0) := by omega
      simp [xpathStep, py_str_succ, hne]

theorem foldlM_init (L : List Item) : ∀ (t : TreeT),
    C06.ParentsBefore (fun m => (dictGet? t.xpath m.uid).isSome = true) L →
    (L.map toItem).foldlM (GenT.init_step pyNode) (toS t) = .ok (toS (L.foldl buildStep t)) := by
  induction L with
  | nil => intro t _; rfl
  | cons x r ih =>
    intro t ⟨h1, h2⟩
    obtain ⟨px, hpx⟩ := Option.isSome_iff_exists.mp h1
    simp only [List.map_cons, List.foldlM_cons, List.foldl_cons, initStep_eq_gen t x px hpx]
    refine ih (buildStep t x) (C06.ParentsBefore.mono ?_ r h2)
    intro m hm
    simp only [buildStep, C06.dictGet?_dictSet]
    rcases hm with hm | rfl
    · split <;> simp [hm]
    · simp

/-- `Tree.__init__`: the generated constructor never raises and returns exactly the tables of `TreeT.build root` -/
theorem init_eq_gen (root : Node) : GenT.init pyNode root = .ok (toS (TreeT.build root)) := by
  unfold GenT.init
  rw [build_eq_fold]
  have h0 : (GenT.TreeS.mk root [] [(pyNode.id root, ['/', '@', 'r', 'o', 'o', 't', '[', '0', ']'] ++ pyNode.class_name root)]
      : GenT.TreeS Node) = toS (buildInit root) := by
    simp [toS, buildInit, xpathStep, natStr_zero, pyNode]
  show ((dfsImpl (fun _ => false) (fun _ => true) false root).map toItem).foldlM _ _ = _
  rw [h0]
  apply foldlM_init
  rw [C06.dfs_eq]
  apply C06.PI_parentsBefore
  intro x hx
  simp only [Node.items, List.mem_map] at hx
  obtain ⟨⟨c, e⟩, _, rfl⟩ := hx
  simp [buildInit, C06.dictGet?_single]

/-! ### non-vacuity, and why the hypotheses are there -/

namespace Demo
open C06.DemoT

/-- `Slack` holds on a concrete three-level tree (root `tree`, `mid` below it, `leaf 3` below `mid`) -/
example : Slack (TreeT.build tree) (TreeT.build tree).root.size (leaf 3) := slack_build tree noRepeat_tree (leaf 3)

/-- … and for a foreign node (first disjunct: the first lookup raises) -/
example : Slack (TreeT.build tree) (TreeT.build tree).root.size (leaf 9) := slack_build tree noRepeat_tree (leaf 9)

/-- decidable views of results -/
def view {α : Type} : Except GenT.Err α → Option GenT.Err × Option α
  | .ok a => (none, some a)
  | .error e => (some e, none)
def gview (g : GenT.Gen Node) : List Nat × Option GenT.Err := (g.1.map Node.uid, g.2)

/-- the generated functions, run: ancestors of the deepest node, its depth, `is_ancestor`, a foreign node -/
example : gview (GenT.get_ancestors pyNode (toS (TreeT.build tree)) tree.size (leaf 3)) = ([2, 0], none) := by decide
example : view (GenT.get_depth pyNode (toS (TreeT.build tree)) tree.size (leaf 3) none true) = (none, some 2) := by decide
example : view (GenT.get_depth pyNode (toS (TreeT.build tree)) tree.size (leaf 3) (some mid) true) = (none, some 1) := by decide
example : view (GenT.get_depth pyNode (toS (TreeT.build tree)) tree.size mid (some (leaf 3)) true) = (some .ValueError, none) := by
  decide
example : view (GenT.is_ancestor pyNode (toS (TreeT.build tree)) tree.size (leaf 9) tree) = (some .KeyError, none) := by decide
example : view (GenT.is_ancestor pyNode (toS (TreeT.build tree)) tree.size (leaf 3) tree) = (none, some true) := by decide

/-- a table no `Tree(root)` produces: two entries that name each other as parent (a cycle) -/
def cyc : TreeT := { root := leaf 0, pinfo := [(1, ⟨leaf 2, ⟨['x'], none⟩⟩), (2, ⟨leaf 1, ⟨['x'], none⟩⟩)], xpath := [] }

/-- without `Slack` the bridge is FALSE: on a cyclic table the hand-written model truncates the walk when its fuel ends and
answers `ok`, the generated walk says `OutOfFuel` (the Python loop would not terminate) -/
theorem getAncestors_eq_gen_needs_slack_fails :
    gview (genOf (cyc.getAncestors (leaf 1))) = ([2], none) ∧
    gview (GenT.get_ancestors pyNode (toS cyc) cyc.root.size (leaf 1)) = ([2], some .OutOfFuel) := by decide

/-- a table no `Tree(root)` produces: the parent of node 5 is node 6, which has no entry and is not the root -/
def dangling : TreeT := { root := mid, pinfo := [(5, ⟨leaf 6, ⟨['x'], none⟩⟩)], xpath := [] }

/-- without `Slack` the bridge is FALSE for the consumers too: the generated `is_ancestor` stops at the first hit (the
generator is lazy) and never sees the KeyError that the model, which builds the whole list first, reports -/
theorem isAncestor_eq_gen_needs_slack_fails :
    view (embed id (dangling.isAncestor (leaf 5) (leaf 6))) = (some .KeyError, none) ∧
    view (GenT.is_ancestor pyNode (toS dangling) dangling.root.size (leaf 5) (leaf 6)) = (none, some true) := by decide

end Demo

end PyOak.GenBridgeTree
