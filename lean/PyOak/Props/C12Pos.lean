/- C12, part 5: yielded positions are sound and complete; nothing depends on the truth value of a child node. -/
import PyOak.Props.C12Sorted
namespace PyOak
namespace Acc
namespace C12

/-! ## H. positions are sound and complete -/

theorem mem_indexed {n : Nd} {k k0 : Nat} {ns : List Nd} :
    (n, k) ∈ indexed k0 ns ↔ k0 ≤ k ∧ ns[k - k0]? = some n := by
  induction ns generalizing k0 with
  | nil => simp [indexed]
  | cons m r ih =>
    simp only [indexed, List.mem_cons, Prod.mk.injEq, ih]
    constructor
    · rintro (⟨rfl, rfl⟩ | ⟨h1, h2⟩)
      · simp
      · refine ⟨by omega, ?_⟩
        have : k - k0 = (k - (k0 + 1)) + 1 := by omega
        rw [this]; simpa using h2
    · rintro ⟨h1, h2⟩
      by_cases hk : k = k0
      · subst hk; simp at h2; exact Or.inl ⟨h2.symm, rfl⟩
      · right
        refine ⟨by omega, ?_⟩
        have : k - k0 = (k - (k0 + 1)) + 1 := by omega
        rw [this] at h2; simpa using h2

/-- what it means that position `(d, k)` of the instance holds node `n` -/
def Holds (i : Inst) (n : Nd) (d : FDecl) : Option Nat → Prop
  | none => d.kind = .childOne ∧ i.get d.name = .node n
  | some k => d.kind = .childTuple ∧ ∃ ns, i.get d.name = .tuple ns ∧ ns[k]? = some n

theorem mem_fieldNodes {i : Inst} {d : FDecl} {x : Nd × FDecl × Option Nat} :
    x ∈ fieldNodes i d ↔ x.2.1 = d ∧ Holds i x.1 d x.2.2 := by
  obtain ⟨n, d', k⟩ := x
  unfold fieldNodes
  cases hk : d.kind <;> cases hv : i.get d.name <;> cases k <;>
    simp [Holds, hk, hv, mem_indexed, eq_comm]
  · exact and_comm
  · rename_i ns k
    constructor
    · rintro ⟨a, b, h, rfl, rfl, rfl⟩; exact ⟨rfl, h⟩
    · rintro ⟨rfl, h⟩; exact ⟨n, k, h, rfl, rfl, rfl⟩

/-- **every yielded triple is a real position of a child field of the class and holds that node;
every position of every child field is yielded** (`None` index for single fields, tuple indices from 0) -/
theorem with_field_mem (c : ClassDecl) (i : Inst) (s : Bool) (n : Nd) (d : FDecl) (k : Option Nat) :
    (n, d, k) ∈ getChildNodesWithField c i s ↔ d ∈ c.fields ∧ Holds i n d k := by
  rw [get_child_nodes_with_field_eq_spec]
  unfold specChildNodesWithField specChildFields
  simp only [List.mem_flatMap, mem_ordered, List.mem_filter, mem_fieldNodes]
  constructor
  · rintro ⟨d', ⟨h1, _⟩, rfl, h3⟩; exact ⟨h1, h3⟩
  · rintro ⟨h1, h2⟩
    refine ⟨d, ⟨h1, ?_⟩, rfl, h2⟩
    cases k <;> simp [Holds] at h2 <;> simp [FDecl.isChild, h2.1]

/-- on a well-typed instance nothing stored in a child field is lost: a present single child and
every tuple element is among `children` -/
theorem children_complete (c : ClassDecl) (i : Inst) (hc : Conforms c.fields i) (d : FDecl)
    (hd : d ∈ c.fields) (hk : d.isChild = true) :
    (∀ n, i.get d.name = .node n → n ∈ children c i) ∧
    (∀ ns, i.get d.name = .tuple ns → ∀ n ∈ ns, n ∈ children c i) := by
  have key : ∀ n k, Holds i n d k → n ∈ children c i := by
    intro n k h
    rw [children_eq_spec]
    unfold specChildNodes
    rw [← get_child_nodes_with_field_eq_spec]
    exact List.mem_map.mpr ⟨(n, d, k), (with_field_mem c i false n d k).mpr ⟨hd, h⟩, rfl⟩
  have hcf := hc d hd
  constructor
  · intro n hn
    rw [hn] at hcf
    cases hkd : d.kind
    · simp [FDecl.isChild, hkd] at hk
    · exact key n none ⟨hkd, hn⟩
    · simp [shapeOk, hkd] at hcf
  · intro ns hns n hmem
    rw [hns] at hcf
    obtain ⟨k, hlt, hk'⟩ := List.mem_iff_getElem.mp hmem
    cases hkd : d.kind
    · simp [FDecl.isChild, hkd] at hk
    · simp [shapeOk, hkd] at hcf
    · exact key n (some k) ⟨hkd, ns, hns, by simp [hlt, hk']⟩

/-! ## I. the result does not depend on how a child evaluates in a boolean context -/

theorem get_retruth (g : Nat → Bool) (i : Inst) (n : Str) : (Inst.retruth g i).get n = (i.get n).retruth g := by
  unfold Inst.get Inst.retruth
  induction i with
  | nil => rfl
  | cons p r ih =>
    simp only [List.map_cons, List.find?_cons]
    by_cases h : p.1 = n
    · simp [h]
    · simp only [h, decide_false]; exact ih

theorem indexed_map (f : Nd → Nd) (k : Nat) (ns : List Nd) :
    indexed k (ns.map f) = (indexed k ns).map fun p => (f p.1, p.2) := by
  induction ns generalizing k with
  | nil => rfl
  | cons n r ih => simp [indexed, ih]

theorem fieldNodes_retruth (g : Nat → Bool) (i : Inst) (d : FDecl) :
    fieldNodes (Inst.retruth g i) d = (fieldNodes i d).map fun x => (x.1.retruth g, x.2) := by
  unfold fieldNodes
  rw [get_retruth]
  cases d.kind <;> cases i.get d.name <;>
    simp [FVal.retruth, indexed_map, List.map_map, Function.comp_def]

/-- **truthiness is irrelevant**: changing what `bool(child)` returns for any child changes no
yielded position (same objects, same fields, same indices) -/
theorem with_field_truthiness_irrelevant (g : Nat → Bool) (c : ClassDecl) (i : Inst) (s : Bool) :
    getChildNodesWithField c (Inst.retruth g i) s
      = (getChildNodesWithField c i s).map fun x => (x.1.retruth g, x.2) := by
  rw [get_child_nodes_with_field_eq_spec, get_child_nodes_with_field_eq_spec]
  unfold specChildNodesWithField
  rw [List.map_flatMap]
  exact flatMap_congr' fun d _ => fieldNodes_retruth g i d

theorem child_uids_truthiness_irrelevant (g : Nat → Bool) (c : ClassDecl) (i : Inst) (s : Bool) :
    (getChildNodes c (Inst.retruth g i) s).map Nd.uid = (getChildNodes c i s).map Nd.uid := by
  rw [get_child_nodes_eq_spec, get_child_nodes_eq_spec]
  unfold specChildNodes
  rw [← get_child_nodes_with_field_eq_spec, ← get_child_nodes_with_field_eq_spec,
    with_field_truthiness_irrelevant]
  simp [List.map_map, Function.comp_def, Nd.retruth]

end C12
end Acc
end PyOak
