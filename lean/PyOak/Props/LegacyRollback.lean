/-
The roll-back of `replace_with`: after the receiver's subtree has been detached (`detach`) and the
attachment of the new node was rejected, `_attach("replace")` on the receiver re-attaches the
subtree.  We show that this restores every record and every registry entry (C19).

  attachPlan_desc   the plan only contains descendants of the node it is started on
  commit_restore    committing nodes that were attached in a reference state `s` satisfying the
                    invariant, in a state whose records agree with `s` up to parent slots, gives the
                    children of those nodes exactly the parent slots they have in `s`, leaves all
                    other slots alone, recomputes the content ids to the values of `s`, and
                    registers the nodes under their ids
  reattach_frame    detach + (neutral steps) + successful re-attach = identity on records and lookups
-/
import PyOak.Props.LegacyReplace
namespace PyOak.Legacy
open LState

/-! ### the plan only contains descendants -/

theorem planKids_desc (s : LState) (rec : Nat → Plan → Except Err (Plan × Collision)) (u : Nat)
    (hrec : ∀ c pl pl' col, rec c pl = .ok (pl', col) → ∀ n ∈ pl'.order, n ∈ pl.order ∨ Desc s c n) :
    ∀ (ks : List Nat) (pl pl' : Plan) (col : Collision), planKids s rec u ks pl = .ok (pl', col) →
      ∀ n ∈ pl'.order, n ∈ pl.order ∨ ∃ c ∈ ks, Desc s c n := by
  intro ks
  induction ks with
  | nil =>
    intro pl pl' col h n hn
    simp only [planKids, Except.ok.injEq, Prod.mk.injEq] at h
    obtain ⟨rfl, _⟩ := h; exact .inl hn
  | cons c cs ih =>
    intro pl pl' col h n hn
    unfold planKids at h
    cases hf : pl.seen.find? (fun e => e.1 = c) with
    | some e =>
      rw [hf] at h; obtain ⟨a, b⟩ := e
      simp only [Except.ok.injEq, Prod.mk.injEq] at h
      obtain ⟨rfl, _⟩ := h; exact .inl hn
    | none =>
      rw [hf] at h
      simp only at h
      by_cases hd : s.detached c = true
      · simp only [hd, if_true] at h
        cases hr : rec c { pl with seen := (c, u) :: pl.seen } with
        | error e => rw [hr] at h; simp at h
        | ok res =>
          obtain ⟨pl2, col2⟩ := res
          rw [hr] at h
          have h2 := hrec c _ pl2 col2 hr
          cases col2 with
          | some cc =>
            simp only [Except.ok.injEq, Prod.mk.injEq] at h
            obtain ⟨rfl, _⟩ := h
            rcases h2 n hn with h3 | h3
            · exact .inl h3
            · exact .inr ⟨c, List.mem_cons_self .., h3⟩
          | none =>
            rcases ih pl2 pl' col h n hn with h3 | ⟨c', hc', h3⟩
            · rcases h2 n h3 with h4 | h4
              · exact .inl h4
              · exact .inr ⟨c, List.mem_cons_self .., h4⟩
            · exact .inr ⟨c', List.mem_cons_of_mem _ hc', h3⟩
      · simp only [hd, Bool.false_eq_true, if_false] at h
        by_cases hroot : (!s.isAttachedRoot c) = true
        · simp only [hroot, if_true, Except.ok.injEq, Prod.mk.injEq] at h
          obtain ⟨rfl, _⟩ := h; exact .inl hn
        · simp only [hroot, Bool.false_eq_true, if_false] at h
          rcases ih _ pl' col h n hn with h3 | ⟨c', hc', h3⟩
          · exact .inl h3
          · exact .inr ⟨c', List.mem_cons_of_mem _ hc', h3⟩

theorem attachPlan_desc (s : LState) : ∀ (fuel u : Nat) (pl pl' : Plan) (col : Collision),
    attachPlan s fuel u pl = .ok (pl', col) → ∀ n ∈ pl'.order, n ∈ pl.order ∨ Desc s u n := by
  intro fuel
  induction fuel with
  | zero => intro u pl pl' col h; simp [attachPlan] at h
  | succ fuel ih =>
    intro u pl pl' col h n hn
    unfold attachPlan at h
    simp only at h
    by_cases hcol : ((s.lookup (s.idOf u)).isSome || (regGet pl.pending (s.idOf u)).isSome) = true
    · simp [hcol] at h
    · simp only [hcol, Bool.false_eq_true, if_false] at h
      cases hr : planKids s (attachPlan s fuel) u (s.obj u).kidList
          { pl with pending := (s.idOf u, u) :: pl.pending } with
      | error e => rw [hr] at h; simp at h
      | ok res =>
        obtain ⟨pl1, col1⟩ := res
        rw [hr] at h
        have h1 := planKids_desc s (attachPlan s fuel) u (fun c pl pl' col hc => ih c pl pl' col hc) _ _ _ _ hr
        have lift : ∀ m, (m ∈ pl.order ∨ ∃ c ∈ (s.obj u).kidList, Desc s c m) → m ∈ pl.order ∨ Desc s u m := by
          intro m hm
          rcases hm with h3 | ⟨c, hc, h3⟩
          · exact .inl h3
          · exact .inr (Desc.trans_kid hc h3)
        cases col1 with
        | some cc =>
          simp only [Except.ok.injEq, Prod.mk.injEq] at h
          obtain ⟨rfl, _⟩ := h
          exact lift n (h1 n hn)
        | none =>
          simp only [Except.ok.injEq, Prod.mk.injEq] at h
          obtain ⟨rfl, _⟩ := h
          rcases List.mem_append.mp hn with hn | hn
          · exact lift n (h1 n hn)
          · simp at hn; subst hn; exact .inr .refl

/-- every child of a planned node is planned too, or an attached root -/
theorem OrderOk.mem {s : LState} {seg : List Nat} (h : OrderOk s [] seg) :
    ∀ m ∈ seg, ∀ c ∈ (s.obj m).kidList, c ∈ seg ∨ RootOk s c := by
  intro m hm c hc
  obtain ⟨l1, l2, hdec⟩ := List.append_of_mem hm
  rcases OrderOk.flat seg h l1 m l2 hdec c hc with h0 | h0 | h0
  · cases h0
  · exact .inl (by rw [hdec]; exact List.mem_append_left _ h0)
  · exact .inr h0

section
variable (Hc : Str → Str)

/-! ### committing restores -/

/-- the three parent slots -/
def slots (o : LObj) : Option Str × Option Str × Option Nat := (o.pid, o.pfield, o.pindex)

theorem eq_of_same_slots {a b : LObj} (h : SameButParent a b) (hs : slots a = slots b) : a = b := by
  unfold slots at hs
  simp only [Prod.mk.injEq] at hs
  exact eq_of_sameButParent h hs.1 hs.2.1 hs.2.2

theorem commit_restore {s : LState} (hI : Inv Hc s) : ∀ (seg : List Nat) (t : LState),
    (∀ x, SameButParent (t.obj x) (s.obj x)) → (∀ m ∈ seg, Att s m) →
    (∀ x, SameButParent ((seg.foldl (commitOne Hc) t).obj x) (s.obj x)) ∧
    (∀ x, (x ∈ kidsOf s seg → slots ((seg.foldl (commitOne Hc) t).obj x) = slots (s.obj x)) ∧
          (x ∉ kidsOf s seg → slots ((seg.foldl (commitOne Hc) t).obj x) = slots (t.obj x))) ∧
    (∀ k, (∀ m ∈ seg, s.idOf m ≠ k) → (seg.foldl (commitOne Hc) t).lookup k = t.lookup k) ∧
    (∀ m ∈ seg, (seg.foldl (commitOne Hc) t).lookup (s.idOf m) = some m) := by
  intro seg
  induction seg with
  | nil =>
    intro t hsame _
    exact ⟨hsame, fun x => ⟨fun h => by simp [kidsOf] at h, fun _ => rfl⟩, fun _ _ => rfl, fun m hm => by cases hm⟩
  | cons m r ih =>
    intro t hsame hatt
    have hma : Att s m := hatt m (List.mem_cons_self ..)
    have hidt : ∀ x, t.idOf x = s.idOf x := fun x => (hsame x).id
    have hkp : (t.obj m).kidsPos = (s.obj m).kidsPos := by unfold LObj.kidsPos; rw [(hsame m).fields]
    -- the state after one commit
    have hrep_kid : ∀ x, x ∈ (s.obj m).kidList → (reparent m t (t.obj m).kidsPos).obj x = s.obj x := by
      intro x hx
      apply reparent_restore m (fun y => s.obj y) _ t hsame
      · intro e he
        rw [hkp] at he
        obtain ⟨_, b, c, d⟩ := hI.down' m hma e he
        exact ⟨by rw [b, hidt], c, d⟩
      · rw [hkp, kidsPos_map_fst]; exact hx
    have hrep_other : ∀ x, x ∉ (s.obj m).kidList → (reparent m t (t.obj m).kidsPos).obj x = t.obj x := by
      intro x hx
      exact reparent_obj_not_mem m _ t x (by rw [hkp, kidsPos_map_fst]; exact hx)
    have hrep_same : ∀ x, SameButParent ((reparent m t (t.obj m).kidsPos).obj x) (s.obj x) := fun x =>
      SameButParent.trans (SameButParent.symm (reparent_same m _ t x)) (hsame x)
    -- the content id that is recomputed is the one of `s`
    have hcid : Hc (cidPre (reparent m t (t.obj m).kidsPos) ((reparent m t (t.obj m).kidsPos).obj m)) = (s.obj m).cid := by
      rw [hI.cid' m hma]
      congr 1
      exact cidPre_congr (hrep_same m).cls (hrep_same m).props (hrep_same m).fields (fun c _ => (hrep_same c).cid)
    have h1obj : ∀ x, (commitOne Hc t m).obj x =
        if x = m then { (reparent m t (t.obj m).kidsPos).obj m with cid := (s.obj m).cid }
        else (reparent m t (t.obj m).kidsPos).obj x := by
      intro x
      unfold commitOne
      rw [register_obj, setContentId_obj, hcid]
    have h1same : ∀ x, SameButParent ((commitOne Hc t m).obj x) (s.obj x) := by
      intro x
      rw [h1obj]; split
      · next hx =>
        subst hx
        have := hrep_same x
        exact ⟨this.cls, this.mro, this.fqn, this.props, this.id, this.origId, this.collWith, rfl, this.fields⟩
      · exact hrep_same x
    have h1slots : ∀ x, slots ((commitOne Hc t m).obj x) = slots ((reparent m t (t.obj m).kidsPos).obj x) := by
      intro x; rw [h1obj]; split
      · next hx => subst hx; rfl
      · rfl
    have h1lk : ∀ k, (commitOne Hc t m).lookup k = if s.idOf m = k then some m else t.lookup k := by
      intro k; rw [commitOne_lookup, hidt]
    obtain ⟨i1, i2, i3, i4⟩ := ih (commitOne Hc t m) h1same (fun m' hm' => hatt m' (List.mem_cons_of_mem _ hm'))
    simp only [List.foldl_cons]
    refine ⟨i1, ?_, ?_, ?_⟩
    · intro x
      have hk : kidsOf s (m :: r) = (s.obj m).kidList ++ kidsOf s r := by simp [kidsOf]
      rw [hk]
      constructor
      · intro hx
        by_cases hxr : x ∈ kidsOf s r
        · exact (i2 x).1 hxr
        · rw [(i2 x).2 hxr, h1slots]
          have hxm : x ∈ (s.obj m).kidList := by
            rcases List.mem_append.mp hx with h | h
            · exact h
            · exact absurd h hxr
          rw [hrep_kid x hxm]
      · intro hx
        rw [List.mem_append, not_or] at hx
        rw [(i2 x).2 hx.2, h1slots, hrep_other x hx.1]
    · intro k hk
      rw [i3 k (fun m' hm' => hk m' (List.mem_cons_of_mem _ hm')), h1lk]
      simp [hk m (List.mem_cons_self ..)]
    · intro m' hm'
      rcases List.mem_cons.mp hm' with rfl | hm'
      · by_cases hin : ∃ m'' ∈ r, s.idOf m'' = s.idOf m'
        · obtain ⟨m'', hm'', hid⟩ := hin
          have : m'' = m' := att_inj (hatt m'' (List.mem_cons_of_mem _ hm'')) hma hid
          subst this
          exact i4 m'' hm''
        · rw [i3 _ (fun m'' hm'' e => hin ⟨m'', hm'', e⟩), h1lk]; simp
      · exact i4 m' hm'

/-! ### detach, then re-attach -/

/-- `t1` is `s` with at most the parent slots of `u` cleared; `t2` is `t1` after `detach` of `u`; `t6` is
`t2` with the record of `u` as in `s` and at most the registry key `kn` missing (the new node that was
taken out of the registry); re-attaching `u` in `t6` gives back `s`, except for the key `kn`. -/
theorem reattach_frame {s t1 t2 t6 t7 : LState} {u fuel fuel' : Nat} {b : Bool} {kn : Option Str}
    (hI : Inv Hc s) (hua : Att s u)
    (h1lk : ∀ k, t1.lookup k = s.lookup k)
    (h1obj : ∀ x, x ≠ u → t1.obj x = s.obj x) (h1u : SameButParent (t1.obj u) (s.obj u))
    (hdet : detachGo fuel false t1 u = (t2, some b))
    (h6obj : ∀ x, x ≠ u → t6.obj x = t2.obj x) (h6u : t6.obj u = s.obj u)
    (h6lk : ∀ k, t6.lookup k = t2.lookup k ∨ (t6.lookup k = none ∧ some k = kn))
    (hkn : ∀ k, kn = some k → ∀ m, Desc s u m → s.idOf m ≠ k)
    (hat : attach Hc fuel' t6 u = (t7, .ok ())) :
    (∀ x, t7.obj x = s.obj x) ∧ (∀ k, some k ≠ kn → t7.lookup k = s.lookup k) ∧
    (∀ k, kn = some k → t7.lookup k = t6.lookup k) := by
  have hF := detachGo_facts fuel false t1 u b (by rw [hdet])
  have hDesc := detachGo_desc fuel false t1 u b (by rw [hdet])
  rw [hdet] at hF hDesc
  have hS : Shrinks t1 t2 := hF.shr
  have h1same : ∀ x, SameButParent (t1.obj x) (s.obj x) := by
    intro x
    by_cases hx : x = u
    · subst hx; exact h1u
    · rw [h1obj x hx]; exact SameButParent.refl _
  have h2same : ∀ x, SameButParent (t2.obj x) (s.obj x) := by
    intro x
    rcases hS.obj x with h | h
    · rw [h]; exact h1same x
    · rw [h]; exact SameButParent.trans (sameButParent_clearP _) (h1same x)
  have h6same : ∀ x, SameButParent (t6.obj x) (s.obj x) := by
    intro x
    by_cases hx : x = u
    · subst hx; rw [h6u]; exact SameButParent.refl _
    · rw [h6obj x hx]; exact h2same x
  have hkl1 : ∀ v, (t1.obj v).kidList = (s.obj v).kidList := by
    intro v; unfold LObj.kidList; rw [(h1same v).fields]
  have hkl6 : ∀ v, (t6.obj v).kidList = (s.obj v).kidList := by
    intro v; unfold LObj.kidList; rw [(h6same v).fields]
  have hid1 : ∀ x, t1.idOf x = s.idOf x := fun x => (h1same x).id
  have hid2 : ∀ x, t2.idOf x = s.idOf x := fun x => (h2same x).id
  have hid6 : ∀ x, t6.idOf x = s.idOf x := fun x => (h6same x).id
  have hatt1 : ∀ x, Att t1 x ↔ Att s x := by intro x; unfold Att; rw [hid1, h1lk]
  -- the plan and its commit
  unfold attach at hat
  cases hp : attachPlan t6 fuel' u {} with
  | error e => rw [hp] at hat; simp at hat
  | ok res =>
    obtain ⟨pl, col⟩ := res
    rw [hp] at hat
    cases col with
    | some cc => simp at hat
    | none =>
      simp only [Prod.mk.injEq, and_true] at hat
      obtain ⟨seg, hPF, huseg, _⟩ := attachPlan_facts t6 fuel' u {} pl hp
      have hseg : pl.order = seg := by have := hPF.order; simpa using this
      rw [hseg] at hat
      have hsegdesc : ∀ m ∈ seg, Desc s u m := by
        intro m hm
        rcases attachPlan_desc t6 fuel' u {} pl none hp m (by rw [hseg]; exact hm) with h | h
        · cases h
        · exact h.congr (fun v => (hkl6 v).symm)
      have hsegatt : ∀ m ∈ seg, Att s m := fun m hm =>
        (upFree_of_desc hI hua (hsegdesc m hm) (fun _ _ hx => hx.elim)).1
      obtain ⟨i1, i2, i3, i4⟩ := commit_restore Hc hI seg t6 h6same hsegatt
      rw [hat] at i1 i2 i3 i4
      -- every node that `detach` unregistered is planned
      have hQ : ∀ q, Desc t1 u q → Unreg t1 t2 q → q ∈ seg := by
        intro q hd
        induction hd with
        | refl => intro _; exact huseg
        | @step q' q hd' hk ih =>
          intro hun
          rcases hF.origin q hun with h | ⟨q'', hq'', hk''⟩
          · simp at h; subst h; exact huseg
          · have hq's : Att s q' :=
              (upFree_of_desc hI hua (hd'.congr (fun v => (hkl1 v).symm)) (fun _ _ hx => hx.elim)).1
            have hq''s : Att s q'' := (hatt1 q'').mp hq''.1
            rw [hkl1] at hk hk''
            obtain ⟨e, he, he1⟩ := (mem_kidList_iff _ _).mp hk
            obtain ⟨e2, he2, he21⟩ := (mem_kidList_iff _ _).mp hk''
            obtain ⟨_, b1, _, _⟩ := hI.down' q' hq's e he
            obtain ⟨_, b2, _, _⟩ := hI.down' q'' hq''s e2 he2
            rw [he1] at b1; rw [he21, b1] at b2
            have : q' = q'' := att_inj hq's hq''s (Option.some.inj b2)
            subst this
            have hq'seg := ih hq''
            rcases OrderOk.mem hPF.orderOk q' hq'seg q (by rw [hkl6]; exact hk) with h | h
            · exact h
            · exfalso
              have h6 := h.1
              unfold Att at h6
              rcases h6lk (t6.idOf q) with h' | h'
              · rw [h'] at h6
                apply hun.2
                unfold Att; rw [hid2, ← hid6]; exact h6
              · rw [h'.1] at h6; cases h6
      have hQ' : ∀ q, Unreg t1 t2 q → q ∈ seg := fun q hq => hQ q (hDesc q hq) hq
      refine ⟨?_, ?_, ?_⟩
      · intro x
        apply eq_of_same_slots (i1 x)
        by_cases hxk : x ∈ kidsOf s seg
        · exact (i2 x).1 hxk
        · rw [(i2 x).2 hxk]
          by_cases hxu : x = u
          · subst hxu; rw [h6u]
          · rw [h6obj x hxu]
            by_cases hch : t2.obj x = t1.obj x
            · rw [hch, h1obj x hxu]
            · exfalso
              rcases hF.touched x hch with h | ⟨q, hq, hxq⟩
              · simp at h; exact hxu h
              · apply hxk
                unfold kidsOf
                exact List.mem_flatMap.mpr ⟨q, hQ' q hq, by rw [← hkl1]; exact hxq⟩
      · intro k hk
        by_cases hin : ∃ m ∈ seg, s.idOf m = k
        · obtain ⟨m, hm, hmk⟩ := hin
          rw [← hmk, i4 m hm]
          exact (hsegatt m hm).symm
        · rw [i3 k (fun m hm e => hin ⟨m, hm, e⟩)]
          rcases h6lk k with h | h
          · rw [h]
            rcases hS.reg k with h' | h'
            · rw [h', h1lk]
            · rw [h']
              cases hsk : s.lookup k with
              | none => rfl
              | some v =>
                exfalso
                obtain ⟨_, hvid⟩ := hI.regSound k v hsk
                have hvs : Att s v := by unfold Att; rw [hvid]; exact hsk
                have : Unreg t1 t2 v := ⟨(hatt1 v).mpr hvs, by unfold Att; rw [hid2, hvid, h']; simp⟩
                exact hin ⟨v, hQ' v this, hvid⟩
          · exact absurd h.2 hk
      · intro k hk
        exact i3 k (fun m hm => hkn k hk m (hsegdesc m hm))

/-! ### the pieces of the roll-back in `replace_with` -/

theorem planKids_err (s : LState) (rec : Nat → Plan → Except Err (Plan × Collision)) (u : Nat)
    (hrec : ∀ c pl e, rec c pl = .error e → e = .hang ∨ e = .registryCollision) :
    ∀ (ks : List Nat) (pl : Plan) (e : Err), planKids s rec u ks pl = .error e → e = .hang ∨ e = .registryCollision := by
  intro ks
  induction ks with
  | nil => intro pl e h; simp [planKids] at h
  | cons c cs ih =>
    intro pl e h
    unfold planKids at h
    split at h
    · simp at h
    · simp only at h
      split at h
      · split at h
        · next e' hr => simp only [Except.error.injEq] at h; subst h; exact hrec _ _ _ hr
        · simp at h
        · exact ih _ e h
      · split at h
        · simp at h
        · exact ih _ e h

theorem attachPlan_err (s : LState) : ∀ (fuel u : Nat) (pl : Plan) (e : Err),
    attachPlan s fuel u pl = .error e → e = .hang ∨ e = .registryCollision := by
  intro fuel
  induction fuel with
  | zero => intro u pl e h; simp [attachPlan] at h; exact .inl h.symm
  | succ fuel ih =>
    intro u pl e h
    unfold attachPlan at h
    simp only at h
    split at h
    · simp only [Except.error.injEq] at h; exact .inr h.symm
    · split at h
      · next e' hr =>
        simp only [Except.error.injEq] at h; subst h
        exact planKids_err s (attachPlan s fuel) u (fun c pl e hc => ih c pl e hc) _ _ _ hr
      · simp at h
      · simp at h

/-- `_attach` raises nothing but registry / parent collisions -/
theorem attach_err_kind {t t' : LState} {u fuel : Nat} {e : Err} (h : attach Hc fuel t u = (t', .error e)) :
    e = .hang ∨ e = .registryCollision ∨ e = .parentCollision := by
  unfold attach at h
  split at h
  · next e' hp =>
    simp only [Prod.mk.injEq, Except.error.injEq] at h
    rw [← h.2]
    rcases attachPlan_err t fuel u {} e' hp with h1 | h1
    · exact .inl h1
    · exact .inr (.inl h1)
  · simp only [Prod.mk.injEq, Except.error.injEq] at h; exact .inr (.inr h.2.symm)
  · simp at h

/-- taking the new node over and giving it its ids back leaves every record as it was … -/
theorem takeOver_restore_obj (t : LState) (u n x : Nat) :
    ((takeOver t u n).1.modify n fun y => { y with id := (t.obj n).id, origId := (t.obj n).origId }).obj x = t.obj x := by
  unfold takeOver
  simp only
  rw [modify_obj]
  by_cases hx : x = n
  · subst hx
    simp only [if_true]
    rw [modify_obj_same]
    split <;> rfl
  · simp only [hx, if_false]
    rw [modify_obj_ne _ _ _ _ hx]
    split <;> rfl

/-- … and removes from the registry exactly the entry of the new node, if it had one -/
theorem takeOver_restore_lookup (t : LState) (u n : Nat) (k : Str) :
    ((takeOver t u n).1.modify n fun y => { y with id := (t.obj n).id, origId := (t.obj n).origId }).lookup k =
      if t.detached n = false ∧ t.idOf n = k then none else t.lookup k := by
  unfold takeOver
  simp only [modify_lookup]
  by_cases hd : t.detached n = true
  · simp [hd]
  · have hd' : t.detached n = false := by cases h : t.detached n <;> simp_all
    simp only [hd', Bool.not_false, if_true, true_and]
    exact unregister_lookup t _ k

/-! ### what a successful `_attach` touches -/

theorem attach_effect {s s' : LState} {u fuel : Nat} (hI : Inv Hc s) (hu : u < s.size)
    (h : attach Hc fuel s u = (s', .ok ())) :
    ∃ seg, (∀ m ∈ seg, Desc s u m) ∧ (∀ k v, s'.lookup k = some v → s.lookup k = some v ∨ v ∈ seg) ∧
      (∀ x, x ∉ seg → x ∉ kidsOf s seg → s'.obj x = s.obj x) := by
  unfold attach at h
  cases hp : attachPlan s fuel u {} with
  | error e => rw [hp] at h; simp at h
  | ok res =>
    obtain ⟨pl, col⟩ := res
    rw [hp] at h
    cases col with
    | some cc => simp at h
    | none =>
      simp only [Prod.mk.injEq, and_true] at h
      obtain ⟨seg, hF, huseg, hlast⟩ := attachPlan_facts s fuel u {} pl hp
      have hseg : pl.order = seg := by have := hF.order; simpa using this
      have hlt := attachPlan_lt s hI.closed fuel u {} pl none hp hu (by intro n hn; cases hn)
      rw [hseg] at hlt h
      have hids : (seg.map s.idOf).Nodup := by
        have := hF.keysNodup (by simp [Plan.keys])
        have hperm : pl.keys.Perm (seg.map s.idOf) := by simpa [Plan.keys] using hF.keys
        exact hperm.nodup_iff.mp this
      have hkids : (kidsOf s seg).Nodup := by
        have := hF.seenNodup (by simp [Plan.seenKids])
        have hperm : pl.seenKids.Perm (kidsOf s seg) := by simpa [Plan.seenKids] using hF.seen
        exact hperm.nodup_iff.mp this
      have hC := commit_prefix Hc (X := NoX) (Y := NoY) hI seg hlt hF.free hids hkids hF.orderOk
        (fun _ _ hx => hx.elim) seg [] (by simp)
        ⟨hI, rfl, fun _ => ⟨rfl, rfl⟩, (fun v hv => by cases hv), fun _ _ => rfl, fun _ _ => rfl, fun _ _ _ => rfl⟩
      rw [h] at hC
      refine ⟨seg, ?_, ?_, hC.other⟩
      · intro m hm
        rcases attachPlan_desc s fuel u {} pl none hp m (by rw [hseg]; exact hm) with h0 | h0
        · cases h0
        · exact h0
      · intro k v hk
        by_cases hin : k ∈ seg.map s.idOf
        · obtain ⟨m, hm, hmk⟩ := List.mem_map.mp hin
          rw [← hmk, hC.regNew m hm] at hk
          exact .inr ((Option.some.inj hk) ▸ hm)
        · rw [hC.regOld k hin] at hk; exact .inl hk

end

end PyOak.Legacy
