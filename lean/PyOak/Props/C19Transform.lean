/-
C19 for the legacy TRANSFORM VISITOR and TRANSFORMER (Model/LegacyTransform.lean).

The frame of a rejected transformation is stated like `fail_frame_dup` (Props/C19.lean), i.e. modulo the
temporaries of the rejected call (clones; nodes made by the callbacks), which are garbage when the call returns
(weak registry: `gcNew` in Handle/Legacy.lean, glue outside the model):

  FrameG s s'
     every pre-existing record is untouched, every pre-existing registry entry is kept, every additional entry
     belongs to an object created by the rejected call.
  `FrameG.frame_of_reg`: if moreover the registry itself is the same (no callback made an ATTACHED node) this is
  `C19.Frame s s'`.

FULL-STRENGTH STATEMENT (the property's text for `transform`, FALSE for the code as it is — see the witnesses):

  theorem fail_frame_tvisit : Inv Hc s → stepX H Hc s (.tvisit u rules) = (s', .raised .transformError) → FrameG s s'
  theorem fail_frame_texec  : Inv Hc s → stepX H Hc s (.texec u rules)  = (s', .raised .transformError) → FrameG s s'

PROVED:

  local_step / localRun_frameG     the clone-local primitive steps (`duplicate(as_detached_clone=True)` of anything,
                                   a constructor call over new children, `replace` on a detached node created by the
                                   call with new children: `LocalOp`, decidable) keep `Inv` and `FrameG s`
  tvisit_fail_before_commit_frame_partial
                                   (c) a `transform` rejected BEFORE its first `replace_with` commit (callback raises /
                                   returns None for a required child / wrong type found while rebuilding the clone):
                                   all its primitive steps are clone-local ⇒ `FrameG s s'` and `Inv Hc s'`.
                                   `_partial`: that the steps ARE clone-local is a (decidable) hypothesis
                                   `LocalRun` here; Props/C19TransformGen.lean DERIVES it from the shape of the
                                   visitor for every attached receiver (`visitGo_local`) and proves the
                                   unconditional `fail_frame_tvisit_in_visit` (all states, receivers, rule tables).
  tvisit_fail_at_only_commit_frame_partial
                                   (c) … or rejected BY its one and only commit (the final `replace_with` of the
                                   receiver is refused with ASTNodeReplaceWithError: wrong class for the parent
                                   field, `None` for a required field, the transformed tree cannot be attached):
                                   clone-local steps followed by a `replace_with` that rolls itself back
                                   (`C19.fail_frame_rwith`) ⇒ `FrameG s s'`.
  texec_partial_commit_fails       decide-checked witness of the KNOWN finding: `execute` replaces nodes one at a time;
                                   the second `replace_with` is rejected, ASTTransformError is raised, the first
                                   replacement stays: `¬ Frame s s'` (a pre-existing record differs).
  tvisit_detached_partial_commit_fails
                                   the same for `transform` on a DETACHED receiver with attached children (each
                                   child is cloned, transformed and committed separately).
-/
import PyOak.Props.LegacyTrace
import PyOak.Props.C18Transform
import PyOak.Props.C19
namespace PyOak.Legacy.C19T
open PyOak PyOak.Legacy LState PyOak.Legacy.C19

/-- the frame of a rejected call modulo its own temporaries (the three facts of `C19.fail_frame_dup`) -/
structure FrameG (s s' : LState) : Prop where
  obj : ∀ v, v < s.size → s'.obj v = s.obj v
  keep : ∀ k v, s.lookup k = some v → s'.lookup k = some v
  fresh : ∀ k v, s'.lookup k = some v → s.lookup k = some v ∨ s.size ≤ v

theorem frameG_of_newOnly {s s' : LState} (h : NewOnly s s') : FrameG s s' := ⟨h.obj, h.keep, h.fresh⟩

theorem FrameG.frame_of_reg {s s' : LState} (h : FrameG s s') (hr : s'.reg = s.reg) : Frame s s' :=
  ⟨fun k => by unfold LState.lookup; rw [hr], h.obj⟩

section
variable (H Hc : Str → Str)

/-- primitive steps that only touch objects created since `s` (the state in which the call started) -/
def LocalOp (s t : LState) : LOp → Prop
  | .dup c clone => clone = true ∧ c < t.size
  | .new sp => (∀ c ∈ sp.fields.flatMap (·.kids), s.size ≤ c ∧ c < t.size) ∧ (newObj sp).wf
  | .replace c ch => s.size ≤ c ∧ c < t.size ∧ t.detached c = true ∧
      (∀ k ∈ ch.fields.flatMap (·.2), s.size ≤ k ∧ k < t.size) ∧ ch.wfFor (t.obj c)
  | _ => False

instance (s t : LState) (op : LOp) : Decidable (LocalOp s t op) := by
  cases op <;> unfold LocalOp <;> infer_instance

def LocalRun (s : LState) : LState → List LOp → Prop
  | _, [] => True
  | t, op :: r => LocalOp s t op ∧ LocalRun s (step H Hc t op).1 r

def decLocalRun (s : LState) : ∀ (ops : List LOp) (t : LState), Decidable (LocalRun H Hc s t ops)
  | [], _ => isTrue trivial
  | op :: r, t =>
    have := decLocalRun s r (step H Hc t op).1
    inferInstanceAs (Decidable (LocalOp s t op ∧ LocalRun H Hc s (step H Hc t op).1 r))

instance (s t : LState) (ops : List LOp) : Decidable (LocalRun H Hc s t ops) := decLocalRun H Hc s ops t

theorem newOnly_modify_new {s t : LState} (hN : NewOnly s t) {n : Nat} (hn : s.size ≤ n) (f : LObj → LObj)
    (hf : ∀ o, (f o).fields = o.fields) : NewOnly s (t.modify n f) := by
  refine ⟨by rw [modify_size]; exact hN.size, ?_, hN.keep, hN.fresh, ?_⟩
  · intro v hv; rw [modify_obj_ne _ _ _ _ (by omega)]; exact hN.obj v hv
  · intro v hv1 hv2 c hc
    rw [modify_size] at hv2
    rw [modify_kidList t n f hf v] at hc
    exact hN.closed v hv1 hv2 c hc

/-- `replace` on a detached node created by the call, with new children -/
theorem replace_local {s t t' : LState} {c : Nat} {ch : Changes} {r : Except Err Nat} {fuel : Nat}
    (hI : Inv Hc t) (hN : NewOnly s t) (hc1 : s.size ≤ c) (hc2 : c < t.size) (hd : t.detached c = true)
    (hk : ∀ k ∈ ch.fields.flatMap (·.2), s.size ≤ k ∧ k < t.size) (hwf : ch.wfFor (t.obj c))
    (h : replace H Hc fuel t c ch = (t', r)) : Inv Hc t' ∧ NewOnly s t' := by
  have hna : ¬ Att t c := (detached_eq_true_iff _ _).mp hd
  have hpid : (t.obj c).pid = none := by
    cases hk' : (t.obj c).pid with
    | none => rfl
    | some k => exact absurd (hI.noDangling c k hk').1 hna
  have hpar : t.parent c = none := by unfold LState.parent; rw [hpid]
  unfold replace at h
  split at h
  · simp only [Prod.mk.injEq] at h; obtain ⟨rfl, _⟩ := h; exact ⟨hI, hN⟩
  · simp only [hpar, Option.isSome_none, Bool.false_eq_true, if_false, hd, Bool.not_true] at h
    have hkids : ∀ x ∈ (applyFields (t.obj c).fields ch.fields).flatMap (·.kids), s.size ≤ x ∧ x < t.size := by
      intro x hx
      obtain ⟨fl, hfl, hxf⟩ := List.mem_flatMap.mp hx
      unfold applyFields at hfl
      obtain ⟨f0, hf0, rfl⟩ := List.mem_map.mp hfl
      split at hxf
      · next nm ks hfind =>
        exact hk x (List.mem_flatMap.mpr ⟨(nm, ks), List.mem_of_find?_eq_some hfind, hxf⟩)
      · have hm : x ∈ (t.obj c).kidList := List.mem_flatMap.mpr ⟨f0, hf0, hxf⟩
        exact ⟨hN.closed c hc1 hc2 x hm, hI.closed c hc2 x hm⟩
    split at h
    · next s3 e hcs =>
      simp only [Prod.mk.injEq] at h
      obtain ⟨rfl, _⟩ := h
      obtain ⟨hI3, hN3, _, _⟩ := construct_newOnly H Hc hI hN hkids (applyFields_wf (hI.wf c) hwf _ rfl) hcs
      exact ⟨hI3, hN3⟩
    · next s3 n hcs =>
      simp only [if_true, Prod.mk.injEq] at h
      obtain ⟨rfl, _⟩ := h
      obtain ⟨hI3, hN3, _, hn⟩ := construct_newOnly H Hc hI hN hkids (applyFields_wf (hI.wf c) hwf _ rfl) hcs
      have hn' : s.size ≤ n := by rw [hn n rfl]; exact hN.size
      exact ⟨inv_modify_meta Hc hI3 n _ _, newOnly_modify_new hN3 hn' _ (fun _ => rfl)⟩

/-- one clone-local primitive step, whatever its outcome -/
theorem local_step {s t t' : LState} {op : LOp} {out : LOut} (hI : Inv Hc t) (hN : NewOnly s t)
    (hl : LocalOp s t op) (h : step H Hc t op = (t', out)) : Inv Hc t' ∧ NewOnly s t' := by
  unfold step at h
  split at h
  · cases h; exact ⟨hI, hN⟩
  · cases op with
    | dup c clone =>
      obtain ⟨_, hc⟩ := hl
      simp only at h
      cases hd : duplicate H Hc (2 * fuelOf t) clone (fuelOf t) t c with
      | mk t1 r1 =>
        rw [hd] at h
        obtain ⟨⟨hI1, hN1, _⟩, _⟩ := duplicate_all H Hc _ _ _ t c t1 r1 hI hN hc hd
        cases r1 <;> (simp only [ofNode, Prod.mk.injEq] at h; obtain ⟨rfl, _⟩ := h; exact ⟨hI1, hN1⟩)
    | new sp =>
      obtain ⟨hk, hwf⟩ := hl
      simp only at h
      cases hc : construct H Hc (fuelOf t) t sp with
      | mk t1 r1 =>
        rw [hc] at h
        obtain ⟨hI1, hN1, _, _⟩ := construct_newOnly H Hc hI hN hk hwf hc
        cases r1 <;> (simp only [ofNode, Prod.mk.injEq] at h; obtain ⟨rfl, _⟩ := h; exact ⟨hI1, hN1⟩)
    | replace c ch =>
      obtain ⟨hc1, hc2, hd, hk, hwf⟩ := hl
      simp only at h
      cases hc : replace H Hc (fuelOf t) t c ch with
      | mk t1 r1 =>
        rw [hc] at h
        obtain ⟨hI1, hN1⟩ := replace_local H Hc hI hN hc1 hc2 hd hk hwf hc
        cases r1 <;> (simp only [ofNode, Prod.mk.injEq] at h; obtain ⟨rfl, _⟩ := h; exact ⟨hI1, hN1⟩)
    | attach u => exact hl.elim
    | detach u b => exact hl.elim
    | rwith u n => exact hl.elim

/-- a run of clone-local steps (returned or rejected) leaves every pre-existing record and entry alone -/
theorem localRun_frameG {s : LState} : ∀ (ops : List LOp) (t : LState), Inv Hc t → NewOnly s t →
    LocalRun H Hc s t ops → Inv Hc (run H Hc t ops) ∧ NewOnly s (run H Hc t ops) := by
  intro ops
  induction ops with
  | nil => intro t hI hN _; exact ⟨hI, hN⟩
  | cons op r ih =>
    intro t hI hN hl
    obtain ⟨h1, h2⟩ := local_step H Hc hI hN hl.1 (out := (step H Hc t op).2) rfl
    rw [run_cons]
    exact ih _ h1 h2 hl.2

/-- (c) `transform` rejected before any `replace_with`: every primitive step it took is clone-local -/
theorem tvisit_fail_before_commit_frame_partial {rules : List Rule} {s : LState} {u : Nat} (hI : Inv Hc s)
    (hl : LocalRun H Hc s s (tvisit H Hc rules s u).ops) :
    Inv Hc (tvisit H Hc rules s u).s ∧ FrameG s (tvisit H Hc rules s u).s := by
  rw [C18T.tvisit_is_run]
  obtain ⟨h1, h2⟩ := localRun_frameG H Hc _ s hI (NewOnly.refl s) hl
  exact ⟨h1, frameG_of_newOnly h2⟩

/-- (c) `transform` rejected by its one and only commit: clone-local steps, then a `replace_with` of the
receiver that is refused with ASTNodeReplaceWithError and rolls itself back -/
theorem tvisit_fail_at_only_commit_frame_partial {rules : List Rule} {s : LState} {u : Nat} {pre : List LOp}
    {r : Option Nat} (hI : Inv Hc s) (hops : (tvisit H Hc rules s u).ops = pre ++ [.rwith u r])
    (hl : LocalRun H Hc s s pre)
    (hrej : (step H Hc (run H Hc s pre) (.rwith u r)).2 = .raised .replaceWithError) :
    FrameG s (tvisit H Hc rules s u).s := by
  rw [C18T.tvisit_is_run, hops, run_append]
  obtain ⟨hI1, hN1⟩ := localRun_frameG H Hc pre s hI (NewOnly.refl s) hl
  have hF : Frame (run H Hc s pre) (step H Hc (run H Hc s pre) (.rwith u r)).1 :=
    fail_frame_rwith H Hc hI1 (Prod.ext rfl hrej)
  show FrameG s (step H Hc (run H Hc s pre) (.rwith u r)).1
  refine ⟨?_, ?_, ?_⟩
  · intro v hv; rw [hF.2 v (Nat.lt_of_lt_of_le hv hN1.size)]; exact hN1.obj v hv
  · intro k v hk; rw [hF.1 k]; exact hN1.keep k v hk
  · intro k v hk; rw [hF.1 k] at hk; exact hN1.fresh k v hk

end

/-! ### witnesses of the known findings, and non-vacuity -/
section examples
open PyOak.Legacy.Ex PyOak.Legacy.C18T

/-- a node of class T where the parent field only takes L / U -/
def wrong : Act := .make (tup [])

/-- leaf 1 → replaced by a new leaf 7 (fine); leaf 2 → replaced by a T node (refused by the parent field) -/
def rulesK : List Rule :=
  [⟨"L".toList, some ("v".toList, "1".toList), .make (leaf "7")⟩,
   ⟨"L".toList, some ("v".toList, "2".toList), wrong⟩]

/-- leaves 1, 2 (objects 0, 1) under a tuple (object 2) -/
def histK : List LOp := [.new (leaf "1"), .new (leaf "2"), .new (tup [0, 1])]

/-- **known finding (C19)**: `execute` raises ASTTransformError after the first child has been replaced;
the pre-existing tuple record has changed, so the rejected call is not a no-op -/
theorem texec_partial_commit_fails :
    (stepX id id (st histK) (.texec 2 rulesK)).2 = .raised .transformError ∧
    ((stepX id id (st histK) (.texec 2 rulesK)).1.obj 2).kidList ≠ ((st histK).obj 2).kidList ∧
    ¬ Frame (st histK) (stepX id id (st histK) (.texec 2 rulesK)).1 := by
  refine ⟨by decide, by decide, ?_⟩
  intro hF
  have h2 := hF.2 2 (by decide)
  have : ((stepX id id (st histK) (.texec 2 rulesK)).1.obj 2).kidList ≠ ((st histK).obj 2).kidList := by decide
  exact this (by rw [h2])

/-- a DETACHED tuple (object 2) over the attached roots 0, 1 -/
def histKD : List LOp := [.new (leaf "1"), .new (leaf "2"), .new { tup [0, 1] with createDetached := true }]

/-- leaf 1 → v = 7 (its clone is replaced, the original leaf 0 is swapped for the result); leaf 2 → raise -/
def rulesKD : List Rule :=
  [⟨"L".toList, some ("v".toList, "1".toList), setV "7"⟩, ⟨"L".toList, some ("v".toList, "2".toList), .raise⟩]

/-- **known finding (C19)**: `transform` on a detached receiver commits every attached child separately -/
theorem tvisit_detached_partial_commit_fails :
    (stepX id id (st histKD) (.tvisit 2 rulesKD)).2 = .raised .transformError ∧
    (st histKD).detached 0 = false ∧ (stepX id id (st histKD) (.tvisit 2 rulesKD)).1.detached 0 = true ∧
    ¬ Frame (st histKD) (stepX id id (st histKD) (.tvisit 2 rulesKD)).1 := by
  refine ⟨by decide, by decide, by decide, ?_⟩
  intro hF
  have h1 := hF.1 ((st histKD).idOf 0)
  have : (stepX id id (st histKD) (.tvisit 2 rulesKD)).1.lookup ((st histKD).idOf 0) ≠
      (st histKD).lookup ((st histKD).idOf 0) := by decide
  exact this h1

-- (c) the ATTACHED tuple of histK: the callback raises at the second leaf, after the first leaf's clone was rebuilt
example : (stepX id id (st histK) (.tvisit 2 rulesKD)).2 = .raised .transformError := by decide
example : (tvisit id id rulesKD (st histK) 2).ops.length = 2 := by decide
example : LocalRun id id (st histK) (st histK) (tvisit id id rulesKD (st histK) 2).ops := by decide
example : FrameG (st histK) (tvisit id id rulesKD (st histK) 2).s :=
  (tvisit_fail_before_commit_frame_partial id id (C18.inv_run_init_partial id id histK (by decide)) (by decide)).2
-- … no attached node was made, so this is the plain frame of C19
example : Frame (st histK) (tvisit id id rulesKD (st histK) 2).s :=
  ((tvisit_fail_before_commit_frame_partial id id (rules := rulesKD) (u := 2)
    (C18.inv_run_init_partial id id histK (by decide)) (by decide)).2).frame_of_reg (by decide)
-- (c) wrong type on the clone: the visitor turns leaf 1 (object 1, child of the tuple) into a T node; the only
-- commit, replace_with on the receiver, is refused by the parent field
example : (stepX id id (st histK) (.tvisit 1 rulesK)).2 = .raised .transformError := by decide
example : (tvisit id id rulesK (st histK) 1).ops = [.dup 1 true, .new (tup []), .rwith 1 (some 4)] := rfl
example : FrameG (st histK) (tvisit id id rulesK (st histK) 1).s :=
  tvisit_fail_at_only_commit_frame_partial id id (pre := [.dup 1 true, .new (tup [])]) (r := some 4)
    (C18.inv_run_init_partial id id histK (by decide)) rfl (by decide) (by decide)
example : LocalOp (st histK) (st histK) (.dup 1 true) := by decide
example := local_step id id (s := st histK) (t := st histK) (op := .dup 1 true)
  (C18.inv_run_init_partial id id histK (by decide)) (NewOnly.refl _) (by decide) rfl
example := localRun_frameG id id (s := st histK) [.dup 1 true, .new (tup [])] (st histK)
  (C18.inv_run_init_partial id id histK (by decide)) (NewOnly.refl _) (by decide)

end examples

end PyOak.Legacy.C19T
