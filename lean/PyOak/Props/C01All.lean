import PyOak.Props.C01
import PyOak.Props.C01Sound
import PyOak.Props.C01Fields
