/-
C20 — THE LINK between the legacy heap (C18's state machine: objects with parent pointers, registry)
and the tree values on which the legacy / successor traversal and xpath theorems are stated.

Abstraction function: `Legacy.treeOf s u` (Spec/LegacyTreeOf.lean).  For every state satisfying the C18
invariant `Inv` whose child graph is acyclic (`C18.Ranked`, the weakest existing acyclicity predicate;
`Inv` alone admits cycles: `C18.cyclic_reachable`) — hence after every admissible history from the empty
world (`C18.inv_ranked_run_init`):

  treeOf_unfold / treeOf_edges / treeOf_children
        the fuel of `treeOf` suffices: the tree below `u` is `u`'s head over the trees of the stored children,
        its child positions are the object's `get_child_nodes_with_field()` positions
  treeOf_noRepeat
        the tree below an ATTACHED node has no repeated object (the successor's `Tree` precondition
        `NoRepeat`): no object sits at two positions, no object below itself
  mem_allNodes_treeOf
        the nodes of that tree are exactly the trees of the heap objects reachable along child links
  heapChain_isChain / heapChain_unique
        **the parent chain read off the heap's parent pointers** (`node.ancestors()` = `C18.UpChain`, each
        member with its OWN `parent_field` / `parent_index` slots) **is the root-first chain of the node's
        position in the tree the heap represents** (`IsChain`, Spec/Tree.lean) — and it is the only chain
        of that node (`C06.chain_unique`)
  treeOf_size_le
        the tree below an attached node has at most `s.size` nodes (fuel of the heap-level traversals)

`ParentClean` is the one fact about the parent slots that `Inv` does not record: a node without
`_parent_id` has no `_parent_field`, a node without `_parent_field` has no `_parent_index` (the three slots
are only ever written together: `_set_parent` / `_clear_parent`).  Props/C20ParentClean.lean proves it
for every state reachable by the machine.
-/
import PyOak.Spec.LegacyTreeOf
import PyOak.Props.C18Queries
import PyOak.Props.C06Total
import PyOak.Props.C20
namespace PyOak
namespace C20
open Legacy Legacy.C18 LState

/-- the three parent slots are written together -/
def ParentClean (s : LState) : Prop :=
  ∀ u, ((s.obj u).pid = none → (s.obj u).pfield = none) ∧ ((s.obj u).pfield = none → (s.obj u).pindex = none)

/-! ### a rank bounded by the number of objects -/

theorem length_filter_le {α : Type} (p q : α → Bool) (l : List α) (h : ∀ a ∈ l, p a = true → q a = true) :
    (l.filter p).length ≤ (l.filter q).length := by
  induction l with
  | nil => simp
  | cons a r ih =>
    have ih' := ih (fun b hb => h b (List.mem_cons_of_mem _ hb))
    have ha := h a (List.mem_cons_self ..)
    simp only [List.filter_cons]
    cases hp : p a <;> cases hq : q a <;> simp_all <;> omega

theorem length_filter_lt {α : Type} (p q : α → Bool) (l : List α) (h : ∀ a ∈ l, p a = true → q a = true)
    (a : α) (ha : a ∈ l) (hq : q a = true) (hp : p a = false) : (l.filter p).length < (l.filter q).length := by
  induction l with
  | nil => cases ha
  | cons b r ih =>
    have hle := length_filter_le p q r (fun c hc => h c (List.mem_cons_of_mem _ hc))
    simp only [List.filter_cons]
    rcases List.mem_cons.mp ha with rfl | har
    · simp [hp, hq]; omega
    · have ih' := ih (fun c hc => h c (List.mem_cons_of_mem _ hc)) har
      have hb := h b (List.mem_cons_self ..)
      cases hpb : p b <;> cases hqb : q b <;> simp_all <;> omega

/-- the number of existing objects of strictly smaller rank -/
def nrank (r : Nat → Nat) (n x : Nat) : Nat := ((List.range n).filter fun y => decide (r y < r x)).length

theorem nrank_lt (r : Nat → Nat) (n x : Nat) (hx : x < n) : nrank r n x < n := by
  have := length_filter_lt (fun y => decide (r y < r x)) (fun _ => true) (List.range n) (fun _ _ _ => rfl)
    x (List.mem_range.mpr hx) rfl (by simp)
  have h2 : (List.range n).filter (fun _ => true) = List.range n := List.filter_eq_self.mpr (fun _ _ => rfl)
  rw [h2] at this
  simpa [nrank] using this

theorem nrank_mono (r : Nat → Nat) (n c x : Nat) (hc : c < n) (h : r c < r x) : nrank r n c < nrank r n x := by
  unfold nrank
  exact length_filter_lt _ _ _ (fun a _ ha => by simp at ha ⊢; omega) c (List.mem_range.mpr hc) (by simpa using h)
    (by simp)

/-! ### the fuel of `treeOf` suffices -/

theorem treeOfGo_hd (s : LState) (fuel u : Nat) : (treeOfGo s fuel u).hd = headOf u (s.obj u) := by
  cases fuel <;> rfl

@[simp] theorem treeOf_hd (s : LState) (u : Nat) : (treeOf s u).hd = headOf u (s.obj u) := treeOfGo_hd s _ u
@[simp] theorem treeOf_uid (s : LState) (u : Nat) : (treeOf s u).uid = u := by simp [Node.uid, headOf]
@[simp] theorem treeOf_cls (s : LState) (u : Nat) : (treeOf s u).cls = (s.obj u).cls := by simp [Node.cls, headOf]
theorem treeOf_isInst (s : LState) (u : Nat) (c : Str) : (treeOf s u).isInst c = (s.obj u).mro.contains c := by
  simp [Node.isInst, headOf]

theorem treeOfGo_stable {s : LState} {r : Nat → Nat}
    (hr : ∀ x, x < s.size → ∀ c ∈ (s.obj x).kidList, r c < r x) (hC : Closed s) :
    ∀ fuel u, u < s.size → nrank r s.size u < fuel → treeOfGo s (fuel + 1) u = treeOfGo s fuel u := by
  intro fuel
  induction fuel with
  | zero => intro u _ h; omega
  | succ fuel ih =>
    intro u hu hlt
    show Node.mk _ ((s.obj u).fields.map (kidOf (treeOfGo s (fuel + 1)))) =
      Node.mk _ ((s.obj u).fields.map (kidOf (treeOfGo s fuel)))
    congr 1
    apply List.map_congr_left
    intro f hf
    unfold kidOf
    congr 1
    apply List.map_congr_left
    intro c hc
    have hck : c ∈ (s.obj u).kidList := List.mem_flatMap.mpr ⟨f, hf, hc⟩
    have hcs := hC u hu c hck
    have := nrank_mono r s.size c u hcs (hr u hu c hck)
    exact ih c hcs (by omega)

/-- **the tree below an existing object of an acyclic heap**: its head over the trees of its stored children -/
theorem treeOf_unfold {s : LState} (hR : Ranked s) (hC : Closed s) {u : Nat} (hu : u < s.size) :
    treeOf s u = .mk (headOf u (s.obj u)) ((s.obj u).fields.map (kidOf (treeOf s))) := by
  obtain ⟨r, hr⟩ := hR
  obtain ⟨k, hk⟩ : ∃ k, s.size = k + 1 := ⟨s.size - 1, by omega⟩
  have key : ∀ c ∈ (s.obj u).kidList, treeOfGo s k c = treeOf s c := by
    intro c hc
    have hcs := hC u hu c hc
    have h1 := nrank_mono r s.size c u hcs (hr u hu c hc)
    have h2 := nrank_lt r s.size u hu
    have := treeOfGo_stable hr hC k c hcs (by omega)
    unfold treeOf
    rw [hk, this]
  have : treeOf s u = treeOfGo s (k + 1) u := by unfold treeOf; rw [hk]
  rw [this]
  show Node.mk _ ((s.obj u).fields.map (kidOf (treeOfGo s k))) = _
  congr 1
  apply List.map_congr_left
  intro f hf
  unfold kidOf
  congr 1
  apply List.map_congr_left
  intro c hc
  exact key c (List.mem_flatMap.mpr ⟨f, hf, hc⟩)

theorem enumFrom_posFrom (T : Nat → Node) (name : Str) : ∀ (ks : List Nat) (i : Nat),
    ((enumFrom i (ks.map T)).map fun (p : Nat × Node) => ((p.2, (⟨name, some p.1⟩ : Edge)) : Node × Edge)) =
      (posFrom name i ks).map fun e => (T e.1, (⟨e.2.1, e.2.2⟩ : Edge)) := by
  intro ks
  induction ks with
  | nil => intro i; rfl
  | cons c r ih => intro i; simp [enumFrom, posFrom, ih]

/-- one child field: `get_child_nodes_with_field()` of the tree value = the positions of the heap field -/
theorem kidOf_edges (T : Nat → Node) (f : LField) :
    (kidOf T f).edges = f.pos.map fun e => (T e.1, (⟨e.2.1, e.2.2⟩ : Edge)) := by
  unfold kidOf LField.pos
  cases h : f.kind.isSeq
  · simp [Kid.edges]
  · simp only [Kid.edges, if_true]
    exact enumFrom_posFrom T f.name f.kids 0

/-- **child positions**: the tree's `get_child_nodes_with_field()` is the object's, child by child -/
theorem treeOf_edges {s : LState} (hR : Ranked s) (hC : Closed s) {u : Nat} (hu : u < s.size) :
    (treeOf s u).edges = (s.obj u).kidsPos.map fun e => (treeOf s e.1, (⟨e.2.1, e.2.2⟩ : Edge)) := by
  rw [treeOf_unfold hR hC hu]
  simp only [Node.edges, Node.kids, LObj.kidsPos, List.flatMap_map, List.map_flatMap, kidOf_edges]

/-- `get_child_nodes()` -/
theorem treeOf_children {s : LState} (hR : Ranked s) (hC : Closed s) {u : Nat} (hu : u < s.size) :
    (treeOf s u).children = (s.obj u).kidList.map (treeOf s) := by
  rw [children_eq, Node.items, List.map_map, treeOf_edges hR hC hu, ← kidsPos_map_fst, List.map_map, List.map_map]
  rfl

/-! ### the nodes of the represented tree -/

/-- the root, then the nodes of the children's trees (pre-order) -/
theorem allNodes_unfold (n : Node) : allNodes n = n :: n.edges.flatMap fun ce => allNodes ce.1 := by
  rw [C07.allNodes_eq]
  congr 1
  simp only [C07.allItems, C05.preItems, Node.items, List.flatMap_map, List.map_flatMap]
  congr 1
  funext ce
  have hu := C05.preN_unfold (fun _ => false) (fun _ => true) ⟨ce.1, n, ce.2⟩
  simp only at hu
  rw [hu, C07.allNodes_eq]
  simp [C07.allItems, C05.preItems, Node.items, List.flatMap_map]

theorem allNodes_length (n : Node) : (allNodes n).length = n.size := by
  have := C05.dfs_all_positions n
  simp [allNodes]; omega

/-- the object identities in the tree below `u`, pre-order -/
def descU (s : LState) (u : Nat) : List Nat := (allNodes (treeOf s u)).map (·.uid)

theorem descU_unfold {s : LState} (hR : Ranked s) (hC : Closed s) {u : Nat} (hu : u < s.size) :
    descU s u = u :: (s.obj u).kidList.flatMap (descU s) := by
  unfold descU
  rw [allNodes_unfold, treeOf_edges hR hC hu, ← kidsPos_map_fst]
  simp [List.flatMap_map, List.map_flatMap]

theorem desc_cons {s : LState} {u c x : Nat} (hc : c ∈ (s.obj u).kidList) (hd : Desc s c x) : Desc s u x := by
  induction hd with
  | refl => exact .step .refl hc
  | step _ hk ih => exact .step ih hk

/-- every identity in the tree below `u` is reachable from `u` along child links -/
theorem descU_desc {s : LState} (hR : Ranked s) (hC : Closed s) : ∀ u, u < s.size → ∀ x ∈ descU s u, Desc s u x := by
  obtain ⟨r, hr⟩ := id hR
  have key : ∀ n u, r u < n → u < s.size → ∀ x ∈ descU s u, Desc s u x := by
    intro n
    induction n with
    | zero => intro u h; omega
    | succ n ih =>
      intro u hru hu x hx
      rw [descU_unfold hR hC hu] at hx
      rcases List.mem_cons.mp hx with rfl | hx
      · exact .refl
      · obtain ⟨c, hc, hxc⟩ := List.mem_flatMap.mp hx
        have := hr u hu c hc
        exact desc_cons hc (ih c (by omega) (hC u hu c hc) x hxc)
  exact fun u hu => key (r u + 1) u (by omega) hu

/-! ### no object at two positions -/

theorem posFrom_snd_nodup (name : Str) : ∀ (l : List Nat) (j : Nat), ((posFrom name j l).map (·.2)).Nodup := by
  intro l
  induction l with
  | nil => intro j; simp [posFrom]
  | cons c r ih =>
    intro j
    simp only [posFrom, List.map_cons, List.nodup_cons]
    refine ⟨?_, ih (j + 1)⟩
    intro hm
    obtain ⟨e, he, heq⟩ := List.mem_map.mp hm
    obtain ⟨m, x, _, rfl⟩ := (posFrom_mem_iff name r (j + 1) e).mp he
    simp at heq
    omega

theorem pos_snd_nodup (f : LField) (hf : f.wf) : (f.pos.map (·.2)).Nodup := by
  unfold LField.pos
  split
  · exact posFrom_snd_nodup _ _ _
  · next h =>
    rcases hf with hs | hl
    · exact absurd hs h
    · match hk : f.kids, hl with
      | [], _ => simp
      | [c], _ => simp
      | _ :: _ :: _, hl => simp at hl

/-- the `(field, index)` labels of the child positions of a well-formed object are pairwise different -/
theorem kidsPos_snd_nodup (o : LObj) (ho : o.wf) : (o.kidsPos.map (·.2)).Nodup := by
  obtain ⟨hn, hw⟩ := ho
  unfold LObj.kidsPos
  generalize o.fields = fs at hn hw
  induction fs with
  | nil => simp
  | cons f r ih =>
    simp only [List.map_cons, List.nodup_cons] at hn
    simp only [List.flatMap_cons, List.map_append]
    rw [List.nodup_append]
    refine ⟨pos_snd_nodup f (hw f (List.mem_cons_self ..)), ih hn.2 (fun g hg => hw g (List.mem_cons_of_mem _ hg)), ?_⟩
    intro a ha b hb hab
    obtain ⟨e, he, rfl⟩ := List.mem_map.mp ha
    obtain ⟨e', he', rfl⟩ := List.mem_map.mp hb
    obtain ⟨g, hg, heg⟩ := List.mem_flatMap.mp he'
    have h1 := pos_field_name f e he
    have h2 := pos_field_name g e' heg
    apply hn.1
    have : f.name = g.name := by rw [← h1, ← h2, hab]
    rw [this]
    exact List.mem_map.mpr ⟨g, hg, rfl⟩

variable (Hc : Str → Str)

/-- an attached node holds no object twice -/
theorem kidList_nodup {s : LState} (hI : Inv Hc s) {u : Nat} (hu : Att s u) : (s.obj u).kidList.Nodup := by
  let g : Nat → Str × Option Nat := fun c => (((s.obj c).pfield).getD [], (s.obj c).pindex)
  have h1 : (s.obj u).kidsPos.map (·.2) = (s.obj u).kidList.map g := by
    rw [← kidsPos_map_fst, List.map_map]
    apply List.map_congr_left
    intro e he
    obtain ⟨_, _, hf, hi⟩ := hI.down' u hu e he
    simp [g, hf, hi]
  have h2 := kidsPos_snd_nodup (s.obj u) (hI.wf u)
  rw [h1] at h2
  exact nodup_of_nodup_map g _ h2

/-- two attached ancestors of one node are comparable -/
theorem desc_comparable {s : LState} (hI : Inv Hc s) {a b x : Nat} (ha : Att s a) (hb : Att s b)
    (h1 : Desc s a x) (h2 : Desc s b x) : Desc s a b ∨ Desc s b a := by
  induction h1 with
  | refl => exact .inr h2
  | @step q' q hd' hk ih =>
    cases h2 with
    | refl => exact .inl (.step hd' hk)
    | @step q'' _ hd'' hk' =>
      have hq' := (upFree_of_desc hI ha hd' (fun _ _ hx => hx.elim)).1
      have hq'' := (upFree_of_desc hI hb hd'' (fun _ _ hx => hx.elim)).1
      obtain ⟨e, he, he1⟩ := (mem_kidList_iff _ _).mp hk
      obtain ⟨e', he', he1'⟩ := (mem_kidList_iff _ _).mp hk'
      have p1 := holder_is_parent Hc hI hq' he
      have p2 := holder_is_parent Hc hI hq'' he'
      rw [he1] at p1; rw [he1'] at p2
      rw [p1] at p2
      cases p2
      exact ih hd''

/-- two different children of an attached node have no common descendant -/
theorem siblings_disjoint {s : LState} (hI : Inv Hc s) {r : Nat → Nat}
    (hr : ∀ x, x < s.size → ∀ c ∈ (s.obj x).kidList, r c < r x) {u a b x : Nat} (hu : Att s u)
    (ha : a ∈ (s.obj u).kidList) (hb : b ∈ (s.obj u).kidList) (hab : a ≠ b)
    (h1 : Desc s a x) (h2 : Desc s b x) : False := by
  have hus := att_lt hI hu
  have key : ∀ a b, a ∈ (s.obj u).kidList → b ∈ (s.obj u).kidList → a ≠ b → Desc s a b → False := by
    intro a b ha hb hab hd
    obtain ⟨ea, hea, hea1⟩ := (mem_kidList_iff _ _).mp ha
    obtain ⟨eb, heb, heb1⟩ := (mem_kidList_iff _ _).mp hb
    have haa : Att s a := by rw [← hea1]; exact (hI.down' u hu ea hea).1
    have hpb : s.parent b = some u := by rw [← heb1]; exact holder_is_parent Hc hI hu heb
    cases hd with
    | refl => exact hab rfl
    | @step q' _ hd' hk =>
      have hq' := (upFree_of_desc hI haa hd' (fun _ _ hx => hx.elim)).1
      obtain ⟨e, he, he1⟩ := (mem_kidList_iff _ _).mp hk
      have p1 := holder_is_parent Hc hI hq' he
      rw [he1, hpb] at p1
      cases p1
      have h3 := (ranked_desc_le hr hI.closed (hI.closed u hus a ha) hd').1
      have h4 := hr u hus a ha
      omega
  obtain ⟨ea, hea, hea1⟩ := (mem_kidList_iff _ _).mp ha
  obtain ⟨eb, heb, heb1⟩ := (mem_kidList_iff _ _).mp hb
  have haa : Att s a := by rw [← hea1]; exact (hI.down' u hu ea hea).1
  have hba : Att s b := by rw [← heb1]; exact (hI.down' u hu eb heb).1
  rcases desc_comparable Hc hI haa hba h1 h2 with h | h
  · exact key a b ha hb hab h
  · exact key b a hb ha (fun e => hab e.symm) h

/-- the identities in the tree below an attached node are pairwise different -/
theorem descU_nodup {s : LState} (hI : Inv Hc s) (hR : Ranked s) : ∀ u, Att s u → (descU s u).Nodup := by
  obtain ⟨r, hr⟩ := id hR
  have key : ∀ n u, r u < n → Att s u → (descU s u).Nodup := by
    intro n
    induction n with
    | zero => intro u h; omega
    | succ n ih =>
      intro u hru hu
      have hus := att_lt hI hu
      rw [descU_unfold hR hI.closed hus, List.nodup_cons]
      constructor
      · intro hm
        obtain ⟨c, hc, hxc⟩ := List.mem_flatMap.mp hm
        have hcs := hI.closed u hus c hc
        have h1 := (ranked_desc_le hr hI.closed hcs (descU_desc hR hI.closed c hcs u hxc)).1
        have h2 := hr u hus c hc
        omega
      · unfold List.Nodup
        rw [List.pairwise_flatMap]
        constructor
        · intro c hc
          obtain ⟨e, he, he1⟩ := (mem_kidList_iff _ _).mp hc
          have hca : Att s c := by rw [← he1]; exact (hI.down' u hu e he).1
          have := hr u hus c hc
          exact ih c (by omega) hca
        · have hnd := kidList_nodup Hc hI hu
          unfold List.Nodup at hnd
          refine hnd.imp_of_mem ?_
          intro a b ha hb hab x hxa y hyb hxy
          subst hxy
          exact siblings_disjoint Hc hI hr hu ha hb hab
            (descU_desc hR hI.closed a (hI.closed u hus a ha) x hxa)
            (descU_desc hR hI.closed b (hI.closed u hus b hb) x hyb)
  exact fun u hu => key (r u + 1) u (by omega) hu

/-- **the tree an attached node represents satisfies the successor's `Tree` precondition**: no node object
occurs twice -/
theorem treeOf_noRepeat {s : LState} (hI : Inv Hc s) (hR : Ranked s) {u : Nat} (hu : Att s u) :
    NoRepeat (treeOf s u) := descU_nodup Hc hI hR u hu

/-- … and it has at most as many nodes as there are objects -/
theorem treeOf_size_le {s : LState} (hI : Inv Hc s) (hR : Ranked s) {u : Nat} (hu : Att s u) :
    (treeOf s u).size ≤ s.size := by
  have h1 := descU_nodup Hc hI hR u hu
  have h2 := length_le_of_nodup_lt s.size (descU s u) h1 (fun x hx =>
    (ranked_desc_le (Classical.choose_spec hR) hI.closed (att_lt hI hu)
      (descU_desc hR hI.closed u (att_lt hI hu) x hx)).2)
  simpa [descU, allNodes_length] using h2

/-- **the nodes of the represented tree are exactly the trees of the objects reachable along child links** -/
theorem mem_allNodes_treeOf {s : LState} (hR : Ranked s) (hC : Closed s) {u : Nat} (hu : u < s.size) (m : Node) :
    m ∈ allNodes (treeOf s u) ↔ ∃ x, Desc s u x ∧ m = treeOf s x := by
  constructor
  · obtain ⟨r, hr⟩ := id hR
    have key : ∀ n u, r u < n → u < s.size → ∀ m ∈ allNodes (treeOf s u), ∃ x, Desc s u x ∧ m = treeOf s x := by
      intro n
      induction n with
      | zero => intro u h; omega
      | succ n ih =>
        intro u hru hu m hm
        rw [allNodes_unfold, treeOf_edges hR hC hu] at hm
        rcases List.mem_cons.mp hm with rfl | hm
        · exact ⟨u, .refl, rfl⟩
        · obtain ⟨ce, hce, hmc⟩ := List.mem_flatMap.mp hm
          obtain ⟨e, he, rfl⟩ := List.mem_map.mp hce
          have hc : e.1 ∈ (s.obj u).kidList := (mem_kidList_iff _ _).mpr ⟨e, he, rfl⟩
          have := hr u hu e.1 hc
          obtain ⟨x, hx, rfl⟩ := ih e.1 (by omega) (hC u hu e.1 hc) m hmc
          exact ⟨x, desc_cons hc hx, rfl⟩
    exact key (r u + 1) u (by omega) hu m
  · rintro ⟨x, hd, rfl⟩
    induction hd with
    | refl => rw [allNodes_unfold]; exact List.mem_cons_self ..
    | @step q' q hd' hk ih =>
      obtain ⟨r, hr⟩ := id hR
      have hq' := (ranked_desc_le hr hC hu hd').2
      obtain ⟨e, he, he1⟩ := (mem_kidList_iff _ _).mp hk
      have hedge : (treeOf s q, (⟨e.2.1, e.2.2⟩ : Edge)) ∈ (treeOf s q').edges := by
        rw [treeOf_edges hR hC hq']
        exact List.mem_map.mpr ⟨e, he, by rw [he1]⟩
      have h1 := C06.item_of_parent (treeOf s u) ((C06.isTreeNode_iff _ _).mpr ih) hedge
      exact (C06.isTreeNode_iff _ _).mp (.inr ⟨_, h1, rfl⟩)

/-! ### the parent chain of the heap is the chain of the tree -/

theorem edgeOf_root {s : LState} (hI : Inv Hc s) (hP : ParentClean s) {u : Nat} (hp : s.parent u = none) :
    edgeOf s u = none := by
  have hpid : (s.obj u).pid = none := by
    cases hk : (s.obj u).pid with
    | none => rfl
    | some k =>
      have := (hI.noDangling u k hk).2
      unfold LState.parent at hp
      rw [hk] at hp
      simp only at hp
      rw [hp] at this
      cases this
  unfold edgeOf
  rw [(hP u).1 hpid]

theorem edgeOf_child {s : LState} (hI : Inv Hc s) {u p : Nat} (hu : Att s u) (hp : s.parent u = some p) :
    ∃ f, edgeOf s u = some ⟨f, (s.obj u).pindex⟩ ∧ (u, f, (s.obj u).pindex) ∈ (s.obj p).kidsPos := by
  obtain ⟨_, f, hf, hm⟩ := parent_is_holder Hc hI hu hp
  exact ⟨f, by unfold edgeOf; rw [hf], hm⟩

theorem heapChain_cons (s : LState) (u p : Nat) (l : List Nat) :
    heapChain s u (p :: l) = heapChain s p l ++ [posOf s u] := by
  simp [heapChain, upList]

/-- **target 1**: for an attached node `u` whose parent pointers lead through `l` (`node.ancestors()`, nearest
first) to the root `topOf u l`, the list of `(object, own parent slots)` read off the heap, root first, is a
root-first chain of the tree that the root object represents, and it ends in the position of `u` -/
theorem heapChain_isChain {s : LState} (hI : Inv Hc s) (hR : Ranked s) (hP : ParentClean s) {u : Nat} {l : List Nat}
    (hu : Att s u) (h : UpChain s u l) : IsChain (treeOf s (topOf u l)) (heapChain s u l) := by
  induction h with
  | @root u hp =>
    simp only [heapChain, upList, List.map_cons, List.map_nil, List.reverse_cons, List.reverse_nil,
      List.nil_append, posOf, topOf]
    rw [edgeOf_root Hc hI hP hp]
    exact IsChain.root
  | @step u p l hp hc ih =>
    obtain ⟨f, hf, hm⟩ := edgeOf_child Hc hI hu hp
    have hpa := (parent_is_holder Hc hI hu hp).1
    have ih' := ih hpa
    rw [heapChain_cons]
    have hsplit : heapChain s p l = (l.map (posOf s)).reverse ++ [(treeOf s p, edgeOf s p)] := by
      simp [heapChain, upList, posOf]
    rw [hsplit] at ih' ⊢
    show IsChain (treeOf s (topOf p l)) _
    simp only [posOf, hf]
    refine IsChain.snoc _ _ _ _ _ ih' ?_
    rw [treeOf_edges hR hI.closed (att_lt hI hpa)]
    exact List.mem_map.mpr ⟨_, hm, rfl⟩

theorem heapChain_last (s : LState) (u : Nat) (l : List Nat) :
    heapChain s u l = (l.map (posOf s)).reverse ++ [(treeOf s u, edgeOf s u)] := by
  simp [heapChain, upList, posOf]

/-- the root the parent pointers end in is attached, has no parent, and `u` lies below it -/
theorem topOf_spec {s : LState} (hI : Inv Hc s) {u : Nat} {l : List Nat} (hu : Att s u) (h : UpChain s u l) :
    Att s (topOf u l) ∧ s.parent (topOf u l) = none ∧ Desc s (topOf u l) u := by
  induction h with
  | root hp => exact ⟨hu, hp, .refl⟩
  | @step u p l hp _ ih =>
    obtain ⟨hpa, f, _, hm⟩ := parent_is_holder Hc hI hu hp
    obtain ⟨i1, i2, i3⟩ := ih hpa
    exact ⟨i1, i2, .step i3 ((mem_kidList_iff _ _).mpr ⟨_, hm, rfl⟩)⟩

/-- **… and it is THE chain**: any root-first chain of the represented tree that ends in (an object with the
identity of) `u` is the one read off the parent pointers — same members, same fields and indices -/
theorem heapChain_unique {s : LState} (hI : Inv Hc s) (hR : Ranked s) (hP : ParentClean s) {u : Nat} {l : List Nat}
    (hu : Att s u) (h : UpChain s u l) (c : Chain) (n : Node) (oe : Option Edge)
    (hc : IsChain (treeOf s (topOf u l)) (c ++ [(n, oe)])) (hn : n.uid = u) :
    c ++ [(n, oe)] = heapChain s u l := by
  have h1 := heapChain_isChain Hc hI hR hP hu h
  rw [heapChain_last] at h1 ⊢
  have hnr := treeOf_noRepeat Hc hI hR (topOf_spec Hc hI hu h).1
  obtain ⟨e1, e2, e3⟩ := C06.chain_unique_uid _ hnr c _ n (treeOf s u) oe (edgeOf s u) hc h1 (by simp [hn])
  rw [e1, e2, e3]

end C20
end PyOak
